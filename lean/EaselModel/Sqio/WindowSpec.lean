import EaselModel.Sqio.Totality
/-! # `read_nres` in closed form, for every block size (C04 / C07: windows and subsequence fetches)

`splitRes inmap l n`: the shortest prefix of the remaining file bytes `l` that holds `n` residues (all the leading data bytes if there
are fewer), and what follows it. It does not mention the block size. `seebuf_some_facts`: `seebuf` with a residue limit, on one
buffer, is `splitRes` of the rest of the buffer. `readNres_zero_spec`: `read_nres(sqfp, sq, 0, W, &actual)` appends exactly the
residues of `(splitRes inmap (fileFrom a) W).1` and leaves the cursor on `(splitRes …).2` — wherever the block boundaries fall. -/
namespace EaselModel.Sqio.WindowSpec
open EaselModel.Sqio EaselModel.Sqio.Refine EaselModel.Sqio.Fold EaselModel.Sqio.DataScan EaselModel.Sqio.Cursor
open EaselModel.Sqio.BodySpec
open Tables

/-! ## Stage A: list level -/

/-- shortest prefix of `l` holding `n` residues (all of the leading data bytes if there are fewer), and what follows it -/
def splitRes (inmap : Bytes) : List UInt8 → Nat → List UInt8 × List UInt8
  | [], _ => ([], [])
  | c :: t, n =>
    if n = 0 then ([], c :: t)
    else if isRes inmap c then (c :: (splitRes inmap t (n - 1)).1, (splitRes inmap t (n - 1)).2)
    else if isData inmap c then (c :: (splitRes inmap t n).1, (splitRes inmap t n).2)
    else ([], c :: t)

theorem splitRes_nil (inmap : Bytes) (n : Nat) : splitRes inmap [] n = ([], []) := rfl

theorem splitRes_zero (inmap : Bytes) (l : List UInt8) : splitRes inmap l 0 = ([], l) := by
  cases l <;> simp [splitRes]

theorem isData_false_isRes (inmap : Bytes) (c : UInt8) (h : isData inmap c = false) : isRes inmap c = false := by
  cases hh : isRes inmap c with
  | false => rfl
  | true => rw [isRes_isData inmap c hh] at h; cases h

theorem splitRes_cons (inmap : Bytes) (c : UInt8) (t : List UInt8) (n : Nat) :
    (n = 0 ∧ splitRes inmap (c :: t) n = ([], c :: t)) ∨
    (n ≠ 0 ∧ isRes inmap c = true ∧ isData inmap c = true ∧
      splitRes inmap (c :: t) n = (c :: (splitRes inmap t (n - 1)).1, (splitRes inmap t (n - 1)).2)) ∨
    (n ≠ 0 ∧ isRes inmap c = false ∧ isData inmap c = true ∧
      splitRes inmap (c :: t) n = (c :: (splitRes inmap t n).1, (splitRes inmap t n).2)) ∨
    (n ≠ 0 ∧ isRes inmap c = false ∧ isData inmap c = false ∧ splitRes inmap (c :: t) n = ([], c :: t)) := by
  by_cases h0 : n = 0
  · left; exact ⟨h0, by simp [splitRes, h0]⟩
  · right
    cases hr : isRes inmap c with
    | true => left; exact ⟨h0, rfl, isRes_isData inmap c hr, by simp [splitRes, h0, hr]⟩
    | false =>
      right
      cases hd : isData inmap c with
      | true => left; exact ⟨h0, rfl, rfl, by simp [splitRes, h0, hr, hd]⟩
      | false => right; exact ⟨h0, rfl, rfl, by simp [splitRes, h0, hr, hd]⟩

theorem nresOf_nil (inmap : Bytes) : nresOf inmap [] = 0 := rfl

theorem nresOf_cons (inmap : Bytes) (c : UInt8) (t : List UInt8) :
    nresOf inmap (c :: t) = (if isRes inmap c then 1 else 0) + nresOf inmap t := by
  unfold nresOf
  by_cases h : isRes inmap c = true
  · rw [List.filter_cons_of_pos h]; simp [h]; omega
  · rw [List.filter_cons_of_neg h]; simp [h]

theorem nresOf_append (inmap : Bytes) (l1 l2 : List UInt8) : nresOf inmap (l1 ++ l2) = nresOf inmap l1 + nresOf inmap l2 := by
  simp [nresOf, List.filter_append]

theorem splitRes_append_eq (inmap : Bytes) (l : List UInt8) : ∀ n, (splitRes inmap l n).1 ++ (splitRes inmap l n).2 = l := by
  induction l with
  | nil => intro n; rfl
  | cons c t ih =>
    intro n
    rcases splitRes_cons inmap c t n with ⟨_, e⟩ | ⟨_, _, _, e⟩ | ⟨_, _, _, e⟩ | ⟨_, _, _, e⟩
    · rw [e]; rfl
    · rw [e]; simp only [List.cons_append, ih]
    · rw [e]; simp only [List.cons_append, ih]
    · rw [e]; rfl

theorem splitRes_data (inmap : Bytes) (l : List UInt8) : ∀ n, ∀ c ∈ (splitRes inmap l n).1, isData inmap c = true := by
  induction l with
  | nil => intro n c hc; cases hc
  | cons x t ih =>
    intro n c hc
    rcases splitRes_cons inmap x t n with ⟨_, e⟩ | ⟨_, _, hd, e⟩ | ⟨_, _, hd, e⟩ | ⟨_, _, _, e⟩
    · rw [e] at hc; cases hc
    · rw [e] at hc
      rcases List.mem_cons.mp hc with k | k
      · rw [k]; exact hd
      · exact ih _ c k
    · rw [e] at hc
      rcases List.mem_cons.mp hc with k | k
      · rw [k]; exact hd
      · exact ih _ c k
    · rw [e] at hc; cases hc

theorem splitRes_nres_le (inmap : Bytes) (l : List UInt8) : ∀ n, nresOf inmap (splitRes inmap l n).1 ≤ n := by
  induction l with
  | nil => intro n; simp [splitRes, nresOf]
  | cons x t ih =>
    intro n
    rcases splitRes_cons inmap x t n with ⟨_, e⟩ | ⟨h0, hr, _, e⟩ | ⟨_, hr, _, e⟩ | ⟨_, _, _, e⟩
    · rw [e]; simp [nresOf]
    · rw [e]; simp only [nresOf_cons, hr, if_true]; have := ih (n - 1); omega
    · rw [e]; simp only [nresOf_cons, hr, Bool.false_eq_true, if_false]; have := ih n; omega
    · rw [e]; simp [nresOf]

/-- below the limit, `splitRes` is `takeWhile` / `dropWhile` -/
theorem splitRes_lt (inmap : Bytes) (l : List UInt8) : ∀ n, nresOf inmap (splitRes inmap l n).1 < n →
    (splitRes inmap l n).1 = l.takeWhile (isData inmap) ∧ (splitRes inmap l n).2 = l.dropWhile (isData inmap) := by
  induction l with
  | nil => intro n _; exact ⟨rfl, rfl⟩
  | cons x t ih =>
    intro n hlt
    rcases splitRes_cons inmap x t n with ⟨h0, e⟩ | ⟨h0, hr, hd, e⟩ | ⟨_, hr, hd, e⟩ | ⟨_, _, hd, e⟩
    · omega
    · rw [e] at hlt ⊢
      simp only [nresOf_cons, hr, if_true] at hlt
      obtain ⟨i1, i2⟩ := ih (n - 1) (by omega)
      rw [List.takeWhile_cons_of_pos hd, List.dropWhile_cons_of_pos hd]
      exact ⟨by simp only [i1], i2⟩
    · rw [e] at hlt ⊢
      simp only [nresOf_cons, hr, Bool.false_eq_true, if_false] at hlt
      obtain ⟨i1, i2⟩ := ih n (by omega)
      rw [List.takeWhile_cons_of_pos hd, List.dropWhile_cons_of_pos hd]
      exact ⟨by simp only [i1], i2⟩
    · have hd' : ¬ isData inmap x = true := by simp [hd]
      rw [e, List.takeWhile_cons_of_neg hd', List.dropWhile_cons_of_neg hd']
      exact ⟨rfl, rfl⟩

/-- the cut between two buffers is invisible to `splitRes` -/
theorem splitRes_append (inmap : Bytes) (l1 l2 : List UInt8) : ∀ n,
    splitRes inmap (l1 ++ l2) n =
      (if nresOf inmap (splitRes inmap l1 n).1 < n ∧ (splitRes inmap l1 n).2 = [] then
         (l1 ++ (splitRes inmap l2 (n - nresOf inmap l1)).1, (splitRes inmap l2 (n - nresOf inmap l1)).2)
       else ((splitRes inmap l1 n).1, (splitRes inmap l1 n).2 ++ l2)) := by
  induction l1 with
  | nil =>
    intro n
    by_cases h0 : n = 0
    · subst h0; simp [splitRes_zero, nresOf]
    · have : 0 < n := by omega
      simp [splitRes, nresOf, this]
  | cons x t ih =>
    intro n
    have hle1 := splitRes_nres_le inmap t (n - 1)
    have hle2 := splitRes_nres_le inmap t n
    rcases splitRes_cons inmap x t n with ⟨h0, e⟩ | ⟨h0, hr, hd, e⟩ | ⟨h0, hr, hd, e⟩ | ⟨h0, hr, hd, e⟩
    · subst h0; simp [splitRes_zero, nresOf]
    · have e' : splitRes inmap (x :: t ++ l2) n =
          (x :: (splitRes inmap (t ++ l2) (n - 1)).1, (splitRes inmap (t ++ l2) (n - 1)).2) := by
        simp [splitRes, h0, hr]
      rw [e', e, ih (n - 1)]
      simp only [nresOf_cons, hr, if_true]
      by_cases hc : nresOf inmap (splitRes inmap t (n - 1)).1 < n - 1 ∧ (splitRes inmap t (n - 1)).2 = []
      · have hc' : 1 + nresOf inmap (splitRes inmap t (n - 1)).1 < n ∧ (splitRes inmap t (n - 1)).2 = [] := ⟨by omega, hc.2⟩
        have : n - 1 - nresOf inmap t = n - (1 + nresOf inmap t) := by omega
        simp only [hc, hc', and_self, if_true, this, List.cons_append]
      · have hc' : ¬ (1 + nresOf inmap (splitRes inmap t (n - 1)).1 < n ∧ (splitRes inmap t (n - 1)).2 = []) := by
          intro k; exact hc ⟨by omega, k.2⟩
        simp only [hc, hc', if_false]
    · have e' : splitRes inmap (x :: t ++ l2) n =
          (x :: (splitRes inmap (t ++ l2) n).1, (splitRes inmap (t ++ l2) n).2) := by
        simp [splitRes, h0, hr, hd]
      rw [e', e, ih n]
      simp only [nresOf_cons, hr, Bool.false_eq_true, if_false, Nat.zero_add]
      by_cases hc : nresOf inmap (splitRes inmap t n).1 < n ∧ (splitRes inmap t n).2 = []
      · simp only [hc, and_self, if_true, List.cons_append]
      · simp only [hc, if_false]
    · have e' : splitRes inmap (x :: t ++ l2) n = ([], x :: t ++ l2) := by
        simp [splitRes, h0, hr, hd]
      rw [e', e]
      simp

/-- status of a limited data scan that consumed `(splitRes inmap l m).1` -/
def splitSt (inmap : Bytes) (l : List UInt8) (m : Nat) : Status :=
  if nresOf inmap (splitRes inmap l m).1 = m ∨ (splitRes inmap l m).2 = [] then .ok else stopSt inmap (splitRes inmap l m).2

/-- the byte fold of `seebuf` with a residue limit, without the bookkeeping -/
theorem scanBytes_split (inmap : Bytes) (hm : inmap.size = 128) (M : Nat) (l : List UInt8) : ∀ (s : SS) (k : Nat), s.nres ≤ M →
    (scanBytes inmap M l s k).2.1 = k + (splitRes inmap l (M - s.nres)).1.length ∧
    (scanBytes inmap M l s k).1.nres = s.nres + nresOf inmap (splitRes inmap l (M - s.nres)).1 ∧
    (scanBytes inmap M l s k).2.2 = splitSt inmap l (M - s.nres) := by
  induction l with
  | nil => intro s k _; simp [scanBytes, splitRes, splitSt, nresOf]
  | cons c rest ih =>
    intro s k hM
    obtain ⟨c1, c2⟩ := stepByte_cls inmap hm s c
    obtain ⟨_, _, _, p4⟩ := stepByte_props inmap s c
    rcases scanBytes_cons inmap M c rest s k with ⟨h, e⟩ | ⟨h, hs, e⟩ | ⟨h, hs, e⟩
    · have hz : M - s.nres = 0 := by omega
      rw [e, hz]
      simp [splitRes_zero, splitSt, nresOf]
    · have hd : isData inmap c = true := by
        cases hh : isData inmap c with
        | true => rfl
        | false => have := c2 hh; rw [hs] at this; split at this <;> cases this
      obtain ⟨_, d2⟩ := c1 hd
      rw [e]
      rcases splitRes_cons inmap c rest (M - s.nres) with ⟨h0, _⟩ | ⟨h0, hr, _, e2⟩ | ⟨h0, hr, _, e2⟩ | ⟨_, _, hd', _⟩
      · omega
      · rw [hr] at d2
        simp only [if_true] at d2
        obtain ⟨i1, i2, i3⟩ := ih (stepByte inmap s c).1 (k + 1) (by omega)
        have hsub : M - (stepByte inmap s c).1.nres = M - s.nres - 1 := by omega
        rw [hsub] at i1 i2 i3
        refine ⟨by rw [i1, e2]; simp; omega, by rw [i2, e2, nresOf_cons, hr, d2]; simp; omega, ?_⟩
        rw [i3]
        simp only [splitSt, e2, nresOf_cons, hr, if_true]
        have hiff : (1 + nresOf inmap (splitRes inmap rest (M - s.nres - 1)).1 = M - s.nres) =
            (nresOf inmap (splitRes inmap rest (M - s.nres - 1)).1 = M - s.nres - 1) := propext ⟨by omega, by omega⟩
        simp only [hiff]
      · rw [hr] at d2
        simp only [Bool.false_eq_true, if_false, Nat.add_zero] at d2
        obtain ⟨i1, i2, i3⟩ := ih (stepByte inmap s c).1 (k + 1) (by omega)
        rw [d2] at i1 i2 i3
        refine ⟨by rw [i1, e2]; simp; omega, by rw [i2, e2, nresOf_cons, hr]; simp, ?_⟩
        rw [i3]
        simp only [splitSt, e2, nresOf_cons, hr, Bool.false_eq_true, if_false, Nat.zero_add]
      · rw [hd] at hd'; cases hd'
    · have hd : isData inmap c = false := by
        cases hh : isData inmap c with
        | false => rfl
        | true => exact absurd (c1 hh).1 hs
      rw [e]
      rcases splitRes_cons inmap c rest (M - s.nres) with ⟨h0, _⟩ | ⟨_, _, hd', _⟩ | ⟨_, _, hd', _⟩ | ⟨h0, _, _, e2⟩
      · omega
      · rw [hd] at hd'; cases hd'
      · rw [hd] at hd'; cases hd'
      · rw [e2]
        refine ⟨by simp, by simp [p4 hs, nresOf], ?_⟩
        have hne : ¬ (0 = M - s.nres) := by omega
        simp only [splitSt, e2, nresOf_nil, hne, false_or, stopSt]
        simp only [reduceCtorEq, if_false]
        exact c2 hd

/-! ## Stage A, handle level: what the steps of `read_nres` keep -/

/-- the fields no step of `read_nres` changes -/
def keep (a : Ascii) : Bytes × Bytes × Bool × Nat × Nat × Int × Bool × Int × Int :=
  (a.file, a.inmap, a.eofIsOk, a.fmt, a.abc, a.L, a.exc, a.bookmarkOff, a.bookmarkLine)

/-- the block bookkeeping apart from the cursor -/
def blk (a : Ascii) : Bytes × Nat × Nat × Int × Nat × Nat × Int × Bool × Int × Nat :=
  (a.file, a.B, a.fpos, a.moff, a.mn, a.mpos, a.recording, a.linebased, a.boff, a.nc)

theorem keep_stat {a b : Ascii} (h : keep a = keep b) : stat a = stat b := by
  simp only [keep, Prod.mk.injEq] at h
  obtain ⟨h1, h2, h3, h4, h5, _⟩ := h
  simp only [stat, h1, h2, h3, h4, h5]

theorem keep_inmap {a b : Ascii} (h : keep a = keep b) : a.inmap = b.inmap := congrArg (fun p => p.2.1) h
theorem keep_file {a b : Ascii} (h : keep a = keep b) : a.file = b.file := congrArg (fun p => p.1) h
theorem keep_eofIsOk {a b : Ascii} (h : keep a = keep b) : a.eofIsOk = b.eofIsOk := congrArg (fun p => p.2.2.1) h

theorem WF_of_blk {a b : Ascii} (h : blk b = blk a) (w : WF a) (hb : b.bpos ≤ b.nc) : WF b := by
  simp only [blk, Prod.mk.injEq] at h
  obtain ⟨h1, h2, h3, h4, h5, h6, h7, h8, h9, h10⟩ := h
  exact ⟨by rw [h8]; exact w.block, by rw [h7]; exact w.norec, by rw [h2]; exact w.bpos1, by rw [h6, h5]; exact w.full,
    by rw [h4]; exact w.moff0, by rw [h4, h5, h3]; exact w.fposEq, by rw [h3, h1]; exact w.fposLe, by rw [h10, h5]; exact w.ncLe,
    by rw [h9, h4, h5, h10]; exact w.boffEq, hb⟩

theorem fileFrom_of_blk {a b : Ascii} (h : blk b = blk a) (hb : b.bpos = a.bpos) : fileFrom b = fileFrom a := by
  simp only [blk, Prod.mk.injEq] at h
  obtain ⟨h1, _, _, _, _, _, _, _, h9, _⟩ := h
  simp only [fileFrom, pos, h1, h9, hb]

theorem curBuf_of_blk {a b : Ascii} (h : blk b = blk a) (hb : b.bpos = a.bpos) : curBuf b = curBuf a := by
  have hn : b.nc = a.nc := congrArg (fun p => p.2.2.2.2.2.2.2.2.2) h
  simp only [curBuf, fileFrom_of_blk h hb, hn, hb]

theorem seebuf_blk (a : Ascii) (maxn : Option Nat) : blk (seebuf a maxn).1 = blk a ∧ (seebuf a maxn).1.bpos = a.bpos := by
  obtain ⟨_, _, f3, f4, f5, f6, f7, f8, f9, f10, f11, f12, f13⟩ := NoFault.seebuf_fields a maxn
  exact ⟨by simp only [blk, f4, f5, f6, f7, f8, f9, f10, f11, f12, f13], f3⟩

theorem seebuf_keep (a : Ascii) (maxn : Option Nat) : keep (seebuf a maxn).1 = keep a := by
  obtain ⟨h1, h2, h3, h4, h5, h6, h7, h8, h9⟩ := seebuf_same a maxn
  simp only [keep, h1, h2, h3, h4, h5, h6, h7, h8, h9]

theorem curBuf_length (a : Ascii) (w : WF a) : (curBuf a).length = a.nc - a.bpos := by
  obtain ⟨_, l2, _, _, _⟩ := fileFrom_length a w
  simp only [curBuf, List.length_take]; omega

theorem fileFrom_split (a : Ascii) : fileFrom a = curBuf a ++ (fileFrom a).drop (a.nc - a.bpos) :=
  (List.take_append_drop _ _).symm

/-- **`seebuf` with a residue limit, on one buffer, is `splitRes` of the rest of the buffer** — for a handle that is only `WF`
    (`bpos = nc` with more of the file to come is allowed: it occurs after a window that ended exactly at the end of a buffer) -/
theorem seebuf_some_facts (a : Ascii) (w : WF a) (tok : Track.Ok a.trk) (hm : a.inmap.size = 128) (m : Nat) :
    (seebuf a (some m)).2.nres = nresOf a.inmap (splitRes a.inmap (curBuf a) m).1 ∧
    (seebuf a (some m)).2.endpos = a.bpos + (splitRes a.inmap (curBuf a) m).1.length ∧
    (seebuf a (some m)).2.st = splitSt a.inmap (curBuf a) m ∧
    WF (seebuf a (some m)).1 ∧ blk (seebuf a (some m)).1 = blk a ∧ (seebuf a (some m)).1.bpos = a.bpos ∧
    keep (seebuf a (some m)).1 = keep a ∧
    ((seebuf a (some m)).2.st ≠ .eformat → Track.Ok (seebuf a (some m)).1.trk) := by
  have key := seebuf_fold a (some m) (NoFault.WF.rd w) tok
  simp only at key
  have hb : bufList a a.bpos = curBuf a := bufList_cur a w
  rw [hb] at key
  obtain ⟨k1, k2, k3, _, k5⟩ := key
  obtain ⟨z1, z2, z3⟩ := scanBytes_split a.inmap hm m (curBuf a) ⟨a.trk, a.linenumber, 0⟩ a.bpos (Nat.zero_le _)
  simp only [Nat.sub_zero, Nat.zero_add] at z1 z2 z3
  obtain ⟨t1, _, _, t4, _⟩ := NoFault.seebuf_safe a w hm (some m)
  obtain ⟨g1, g2⟩ := seebuf_blk a (some m)
  refine ⟨k3.trans z2, k2.trans z1, k1.trans z3, t4, g1, g2, seebuf_keep a (some m), fun hne => ?_⟩
  rw [k5 hne t1]
  exact (scanBytes_bounds a.inmap m (curBuf a) ⟨a.trk, a.linenumber, 0⟩ a.bpos).2.2.2.2.2.2 tok

/-- the next block: `loadbuf` from a handle whose buffer is used up or abandoned (the cursor inside the old buffer is irrelevant) -/
theorem loadbuf_next (a X : Ascii) (w : WF a) (hb : blk X = blk a) :
    WF (loadbuf X).1 ∧ (loadbuf X).1.bpos = 0 ∧ fileFrom (loadbuf X).1 = (fileFrom a).drop (a.nc - a.bpos) ∧
    keep (loadbuf X).1 = keep X ∧ (loadbuf X).1.trk = X.trk ∧
    (((loadbuf X).2 = .ok ∧ 0 < (loadbuf X).1.nc ∧ (fileFrom a).drop (a.nc - a.bpos) ≠ []) ∨
     ((loadbuf X).2 = .eof ∧ (loadbuf X).1.nc = 0 ∧ (fileFrom a).drop (a.nc - a.bpos) = [] ∧
        pos (loadbuf X).1 = ((loadbuf X).1.file.size : Int))) := by
  have hb' := hb
  simp only [blk, Prod.mk.injEq] at hb'
  obtain ⟨h1, h2, h3, h4, h5, h6, h7, h8, h9, h10⟩ := hb'
  have hpre : Pre X := ⟨by rw [h8]; exact w.block, by rw [h7]; exact w.norec, by rw [h2]; exact w.bpos1,
    by rw [h6, h5, w.full]; exact Nat.le_refl _, by rw [h3, h1]; exact w.fposLe⟩
  obtain ⟨w3, b3, f3, _, p3, o⟩ := loadbuf_wf X hpre
  have hk : keep (loadbuf X).1 = keep X ∧ (loadbuf X).1.trk = X.trk := by
    rw [loadbuf_block X hpre.block hpre.norec hpre.full]
    exact ⟨rfl, rfl⟩
  obtain ⟨l1, l2, l3, _, l5⟩ := fileFrom_length a w
  have hfp : ((a.fpos : Nat) : Int) = pos a + ((a.nc - a.bpos : Nat) : Int) := by
    have := w.fposEq; have := w.boffEq; have := w.ncLe; have := w.bposLe; simp only [pos]; omega
  have hp0 : 0 ≤ pos a := by simp only [pos]; omega
  generalize loadbuf X = lb at *
  have hfile : lb.1.file = a.file := by rw [f3, h1]
  have hposN : (pos lb.1).toNat = (pos a).toNat + (a.nc - a.bpos) := by rw [p3, h3]; omega
  have hff : fileFrom lb.1 = (fileFrom a).drop (a.nc - a.bpos) := by
    unfold fileFrom; rw [hposN, hfile, List.drop_drop]
  have hlenr : ((fileFrom a).drop (a.nc - a.bpos)).length + a.fpos = a.file.size := by
    rw [List.length_drop]
    generalize (fileFrom a).length = FL at *
    generalize pos a = P at *
    omega
  refine ⟨w3, b3, hff, hk.1, hk.2, ?_⟩
  rcases o with ⟨o1, o2, o3⟩ | ⟨o1, o2, o3⟩
  · left
    rw [h3, h1] at o3
    refine ⟨o1, o2, fun hnil => ?_⟩
    rw [hnil] at hlenr; simp at hlenr; omega
  · right
    rw [h3, h1] at o3
    refine ⟨o1, o2, List.eq_nil_of_length_eq_zero (by omega), ?_⟩
    rw [p3, h3, hfile, o3]

/-! ## `addbuf` -/

/-- `addbuf` of exactly the residues up to the limit stops right behind the last one: `bpos` ends where `seebuf` stopped -/
theorem addbufLoop_exact (a : Ascii) (hr : NoFault.Rd a) (map : Bytes) (digital : Bool) (salloc : Nat) (hmap : MapOk a.inmap map) :
    ∀ (l : List UInt8) (bpos n : Nat) (seq : Bytes), bufList a bpos = l → nresOf a.inmap (splitRes a.inmap l n).1 = n →
      seq.size + n + (if digital then 2 else 1) ≤ salloc →
      addbufLoop a map digital salloc n bpos seq =
        (.ok, bpos + (splitRes a.inmap l n).1.length, seq ++ resOf a.inmap map (splitRes a.inmap l n).1) := by
  intro l
  induction l with
  | nil =>
    intro bpos n seq _ hn _
    have : n = 0 := by simpa [splitRes, nresOf] using hn.symm
    subst this
    rw [addbufLoop]
    simp [splitRes, resOf]
  | cons c t ih =>
    intro bpos n seq hl hn hal
    by_cases h0 : n = 0
    · subst h0
      rw [addbufLoop]
      simp [splitRes_zero, resOf]
    · have hlt : bpos < a.nc := by
        by_cases k : bpos < a.nc
        · exact k
        · rw [bufList_nil a bpos k] at hl; cases hl
      rw [bufList_cons a bpos hlt] at hl
      obtain ⟨x, hx⟩ := hr bpos hlt
      have hbx : byteAt a bpos = x := by simp [byteAt, hx]
      rw [hbx] at hl
      have hxc : x = c := (List.cons.inj hl).1
      have ht : bufList a (bpos + 1) = t := (List.cons.inj hl).2
      subst hxc
      have hz : (n == 0) = false := by simpa using h0
      rw [addbufLoop]
      simp only [hz, Bool.false_eq_true, if_false, hlt, dite_true, hx]
      rcases splitRes_cons a.inmap x t n with ⟨k0, _⟩ | ⟨_, hres, hd, e⟩ | ⟨_, hres, hd, e⟩ | ⟨_, _, _, e⟩
      · exact absurd k0 h0
      · obtain ⟨y, hy, hyr⟩ := hmap x hd
        have hy127 : y ≤ 127 := by rw [hres] at hyr; simpa using hyr
        have hal' : (if digital then seq.size + 1 < salloc else seq.size < salloc) := by
          cases digital <;> simp at hal ⊢ <;> omega
        rw [e] at hn ⊢
        simp only [nresOf_cons, hres, if_true] at hn
        simp only [hy, hy127, if_true, hal']
        rw [ih (bpos + 1) (n - 1) (seq.push y) ht (by omega)
          (by simp only [Array.size_push]; cases digital <;> simp at hal ⊢ <;> omega)]
        simp only [List.length_cons, Prod.mk.injEq, true_and]
        refine ⟨by omega, ?_⟩
        simp [resOf, List.filter_cons_of_pos hres, hy]
      · obtain ⟨y, hy, hyr⟩ := hmap x hd
        have hy127 : ¬ y ≤ 127 := by rw [hres] at hyr; simpa using hyr
        rw [e] at hn ⊢
        simp only [nresOf_cons, hres, Bool.false_eq_true, if_false, Nat.zero_add] at hn
        simp only [hy, hy127, if_false]
        rw [ih (bpos + 1) n seq ht hn hal]
        simp only [List.length_cons, Prod.mk.injEq, true_and]
        refine ⟨by omega, ?_⟩
        have hres' : ¬ isRes a.inmap x = true := by simp [hres]
        simp [resOf, List.filter_cons_of_neg hres']
      · rw [e] at hn
        simp only [nresOf_nil] at hn
        exact absurd hn.symm h0

theorem addbuf_exact (a : Ascii) (sq : Sq) (n : Nat) (w : WF a) (hmap : MapOk a.inmap (mapOf a sq))
    (hn : nresOf a.inmap (splitRes a.inmap (curBuf a) n).1 = n)
    (hcap : sq.seq.size + n + (if sq.digital then 2 else 1) ≤ sq.salloc) :
    addbuf a sq n = ({ a with bpos := a.bpos + (splitRes a.inmap (curBuf a) n).1.length },
      { sq with seq := sq.seq ++ resOf a.inmap (mapOf a sq) (splitRes a.inmap (curBuf a) n).1 }, .ok) := by
  rw [addbuf_eq]
  have hk := addbufLoop_exact a (NoFault.WF.rd w) (mapOf a sq) sq.digital sq.salloc hmap (curBuf a) a.bpos n sq.seq
    (bufList_cur a w) hn hcap
  simp only [mapOf] at hk ⊢
  rw [hk]

/-- `addbuf` of all the residues of a stretch of accepted bytes (`seebuf` stopped for another reason than the limit) -/
theorem addbuf_some (a : Ascii) (sq : Sq) (n k : Nat) (w : WF a) (hmap : MapOk a.inmap (mapOf a sq)) (hk : k ≤ a.nc - a.bpos)
    (hd : ∀ c ∈ (curBuf a).take k, isData a.inmap c = true) (hn : n = nresOf a.inmap ((curBuf a).take k))
    (hcap : sq.seq.size + n + (if sq.digital then 2 else 1) ≤ sq.salloc) :
    ∃ b', addbuf a sq n = ({ a with bpos := b' },
      { sq with seq := sq.seq ++ resOf a.inmap (mapOf a sq) ((curBuf a).take k) }, .ok) := by
  rw [addbuf_eq]
  have hb : bufList a a.bpos = curBuf a := bufList_cur a w
  have hbl := w.bposLe
  obtain ⟨b', e1, e2, e3⟩ := addbufLoop_spec a (NoFault.WF.rd w) (mapOf a sq) sq.digital sq.salloc hmap k a.bpos n sq.seq
    (by omega) (by rw [hb]; exact hd) (by rw [hb]; exact hn) hcap
  refine ⟨b', ?_⟩
  rw [hb] at e3
  simp only [mapOf] at e1 e2 e3 ⊢
  rw [e1, e2, e3]

theorem addbuf_zero (a : Ascii) (sq : Sq) : addbuf a sq 0 = (a, sq, .ok) := by
  rw [addbuf_eq, addbufLoop]
  simp

/-! ## the tail of `read_nres` as a function, and `read_nres` with `nskip = 0` -/

/-- what `read_nres` does after its second loop -/
def finish (a : Ascii) (sq : Sq) (nres n actual epos : Nat) (st : Status) : Ascii × Sq × Status × Nat :=
  if st == .fault then (a, sq, .fault, 0) else
  if st == .eof && !a.eofIsOk then (a.fail, sq, .eformat, 0) else
  if st == .eformat then (a, sq, .eformat, 0) else
  if (addbuf a sq (min nres (if st == .eof then 0 else n))).2.2 == .fault then
    ((addbuf a sq (min nres (if st == .eof then 0 else n))).1, (addbuf a sq (min nres (if st == .eof then 0 else n))).2.1, .fault, 0) else
  if !(addbuf a sq (min nres (if st == .eof then 0 else n))).2.1.termOk then
    ((addbuf a sq (min nres (if st == .eof then 0 else n))).1, (addbuf a sq (min nres (if st == .eof then 0 else n))).2.1, .fault, 0) else
  ((if st == .eod then { (addbuf a sq (min nres (if st == .eof then 0 else n))).1 with bpos := epos }
    else (addbuf a sq (min nres (if st == .eof then 0 else n))).1),
   (addbuf a sq (min nres (if st == .eof then 0 else n))).2.1,
   (if actual + min nres (if st == .eof then 0 else n) == 0 then .eod else .ok),
   actual + min nres (if st == .eof then 0 else n))

def finishT (x : Ascii × Sq × Nat × Nat × Nat × Nat × Status) : Ascii × Sq × Status × Nat :=
  finish x.1 x.2.1 x.2.2.1 x.2.2.2.1 x.2.2.2.2.1 x.2.2.2.2.2.1 x.2.2.2.2.2.2

theorem nresSkipLoop_zero (fuel : Nat) (a : Ascii) (nres : Nat) (see : See) :
    nresSkipLoop (fuel + 1) a 0 nres see = (a, 0, see, see.st) := by
  simp [nresSkipLoop]

theorem nresSkipLoop_zero' (a0 a : Ascii) (nres : Nat) (see : See) :
    nresSkipLoop (fuelOf a0) a 0 nres see = (a, 0, see, see.st) := nresSkipLoop_zero (a0.file.size + 1) a nres see

theorem skipbuf_zero (a : Ascii) : skipbuf a 0 = (a, .ok) := by
  unfold skipbuf
  rw [skipbufLoop]
  simp

theorem readNres_zero_eq (a : Ascii) (sq : Sq) (W : Nat)
    (hst : (seebuf a (some W)).2.st = .ok ∨ (seebuf a (some W)).2.st = .eod) :
    readNres a sq 0 W =
      finishT (nresAddLoop (fuelOf (seebuf a (some W)).1) (seebuf a (some W)).1 sq W (seebuf a (some W)).2.nres 0
        (seebuf a (some W)).2.endpos (seebuf a (some W)).2.st) := by
  unfold readNres
  rw [Nat.zero_add]
  generalize seebuf a (some W) = sb at hst ⊢
  obtain ⟨a1, see⟩ := sb
  simp only at hst ⊢
  rw [nresSkipLoop_zero']
  simp only [skipbuf_zero]
  have e1 : (Status.ok == Status.fault) = false := by decide
  have e2 : (Status.ok == Status.eof) = false := by decide
  have e3 : (Status.ok == Status.eod) = false := by decide
  have e4 : (Status.ok != Status.ok) = false := by decide
  have e5 : (Status.eod == Status.fault) = false := by decide
  have e6 : (Status.eod == Status.eof) = false := by decide
  rcases hst with h | h
  · simp only [h, e1, e2, e3, e4, Bool.false_eq_true, if_false, Nat.sub_zero]
    generalize nresAddLoop (fuelOf a1) a1 sq W see.nres 0 see.endpos Status.ok = r
    obtain ⟨x1, x2, x3, x4, x5, x6, x7⟩ := r
    simp only [finishT, finish]
  · simp only [h, e1, e5, e6, Bool.false_eq_true, if_false, Nat.sub_zero, beq_self_eq_true, if_true, Nat.not_lt_zero]
    generalize nresAddLoop (fuelOf a1) a1 sq W see.nres 0 see.endpos Status.eod = r
    obtain ⟨x1, x2, x3, x4, x5, x6, x7⟩ := r
    simp only [finishT, finish]

/-! ## Stage B: the second loop of `read_nres` and its tail, on clean data -/

/-- the data of the record ends at the end of the file or at an end-of-data byte: no illegal byte -/
def Clean (inmap : Bytes) (l : List UInt8) : Prop := ∀ c t, l.dropWhile (isData inmap) = c :: t → isEod inmap c = true

/-- the three situations of one buffer `cb` followed by `rest`: limit reached / buffer exhausted / end of data -/
theorem split_cases (inmap : Bytes) (cb rest : List UInt8) (m : Nat) (hclean : Clean inmap (cb ++ rest)) :
    (nresOf inmap (splitRes inmap cb m).1 = m ∧ splitSt inmap cb m = .ok ∧
       splitRes inmap (cb ++ rest) m = ((splitRes inmap cb m).1, (splitRes inmap cb m).2 ++ rest)) ∨
    (nresOf inmap (splitRes inmap cb m).1 < m ∧ (splitRes inmap cb m).2 = [] ∧ (splitRes inmap cb m).1 = cb ∧
       splitSt inmap cb m = .ok ∧ Clean inmap rest ∧
       splitRes inmap (cb ++ rest) m =
         (cb ++ (splitRes inmap rest (m - nresOf inmap cb)).1, (splitRes inmap rest (m - nresOf inmap cb)).2)) ∨
    (nresOf inmap (splitRes inmap cb m).1 < m ∧ (∃ c t, (splitRes inmap cb m).2 = c :: t) ∧ splitSt inmap cb m = .eod ∧
       splitRes inmap (cb ++ rest) m = ((splitRes inmap cb m).1, (splitRes inmap cb m).2 ++ rest)) := by
  have hle := splitRes_nres_le inmap cb m
  have happ := splitRes_append_eq inmap cb m
  rw [splitRes_append]
  by_cases hq : nresOf inmap (splitRes inmap cb m).1 = m
  · left
    refine ⟨hq, by simp [splitSt, hq], ?_⟩
    have : ¬ (nresOf inmap (splitRes inmap cb m).1 < m ∧ (splitRes inmap cb m).2 = []) := by intro k; omega
    simp only [this, if_false]
  · right
    have hlt : nresOf inmap (splitRes inmap cb m).1 < m := by omega
    obtain ⟨_, i2⟩ := splitRes_lt inmap cb m hlt
    have hcase : (splitRes inmap cb m).2 = [] ∨ ∃ c t, (splitRes inmap cb m).2 = c :: t := by
      cases (splitRes inmap cb m).2 <;> simp
    rcases hcase with hs2 | ⟨c, t, hs2⟩
    · left
      rw [hs2, List.append_nil] at happ
      have hc : nresOf inmap (splitRes inmap cb m).1 < m ∧ (splitRes inmap cb m).2 = [] := ⟨hlt, hs2⟩
      refine ⟨hlt, hs2, happ, by simp [splitSt, hs2], ?_, ?_⟩
      · intro c t h
        apply hclean c t
        rw [List.dropWhile_append, ← i2, hs2]
        simpa using h
      · simp only [hc, and_self, if_true]
    · right
      have hc : ¬ (nresOf inmap (splitRes inmap cb m).1 < m ∧ (splitRes inmap cb m).2 = []) := by
        intro k; rw [hs2] at k; cases k.2
      refine ⟨hlt, ⟨c, t, hs2⟩, ?_, by simp only [hc, if_false]⟩
      have he : isEod inmap c = true := by
        apply hclean c (t ++ rest)
        rw [List.dropWhile_append, ← i2, hs2]
        simp
      simp [splitSt, hq, hs2, stopSt, he]

theorem nresAddLoop_succ (fuel : Nat) (a : Ascii) (sq : Sq) (nres n actual epos : Nat) (st : Status) :
    nresAddLoop (fuel + 1) a sq nres n actual epos st =
      if (st == .ok && nres > n) = true then
        (if ((addbuf a sq n).2.2 == .fault) = true then ((addbuf a sq n).1, (addbuf a sq n).2.1, nres, n, actual, epos, Status.fault)
         else if ((loadbuf (addbuf a sq n).1).2 == .eof) = true then
           ((loadbuf (addbuf a sq n).1).1, (addbuf a sq n).2.1, nres - n, n, actual + n, epos, Status.eof)
         else nresAddLoop fuel (seebuf (loadbuf (addbuf a sq n).1).1 (some (nres - n))).1 (addbuf a sq n).2.1 (nres - n)
           (seebuf (loadbuf (addbuf a sq n).1).1 (some (nres - n))).2.nres (actual + n)
           (seebuf (loadbuf (addbuf a sq n).1).1 (some (nres - n))).2.endpos
           (seebuf (loadbuf (addbuf a sq n).1).1 (some (nres - n))).2.st)
      else (a, sq, nres, n, actual, epos, st) := by
  rw [nresAddLoop]

theorem termOk_of_cap (sq : Sq) (h : sq.seq.size + (if sq.digital then 2 else 1) ≤ sq.salloc) : sq.termOk = true := by
  unfold Sq.termOk Sq.n
  cases hd : sq.digital <;> simp [hd] at h ⊢ <;> omega

theorem finish_ok (a : Ascii) (sq : Sq) (nres n actual epos : Nat) (a' : Ascii) (sq' : Sq)
    (h : addbuf a sq (min nres n) = (a', sq', .ok)) (ht : sq'.termOk = true) :
    finish a sq nres n actual epos .ok = (a', sq', (if actual + min nres n == 0 then .eod else .ok), actual + min nres n) := by
  have e1 : (Status.ok == Status.fault) = false := by decide
  have e2 : (Status.ok == Status.eof) = false := by decide
  have e3 : (Status.ok == Status.eformat) = false := by decide
  have e4 : (Status.ok == Status.eod) = false := by decide
  unfold finish
  simp only [e1, e2, e3, e4, Bool.false_and, Bool.false_eq_true, if_false, h, ht, Bool.not_true]

theorem finish_eod (a : Ascii) (sq : Sq) (nres n actual epos : Nat) (a' : Ascii) (sq' : Sq)
    (h : addbuf a sq (min nres n) = (a', sq', .ok)) (ht : sq'.termOk = true) :
    finish a sq nres n actual epos .eod =
      ({ a' with bpos := epos }, sq', (if actual + min nres n == 0 then .eod else .ok), actual + min nres n) := by
  have e1 : (Status.eod == Status.fault) = false := by decide
  have e2 : (Status.eod == Status.eof) = false := by decide
  have e3 : (Status.eod == Status.eformat) = false := by decide
  have e4 : (Status.ok == Status.fault) = false := by decide
  unfold finish
  simp only [e1, e2, e3, e4, Bool.false_and, Bool.false_eq_true, if_false, h, ht, Bool.not_true, beq_self_eq_true, if_true]

theorem finish_eof (a : Ascii) (sq : Sq) (nres n actual epos : Nat) (he : a.eofIsOk = true) (ht : sq.termOk = true) :
    finish a sq nres n actual epos .eof = (a, sq, (if actual == 0 then .eod else .ok), actual) := by
  have e1 : (Status.eof == Status.fault) = false := by decide
  have e3 : (Status.eof == Status.eformat) = false := by decide
  have e4 : (Status.ok == Status.fault) = false := by decide
  have e5 : (Status.eof == Status.eod) = false := by decide
  unfold finish
  simp only [e1, e3, e4, e5, he, Bool.not_true, Bool.and_false, Bool.false_eq_true, if_false, beq_self_eq_true, if_true,
    Nat.min_zero, addbuf_zero, ht, Nat.add_zero]

theorem fileFrom_bpos (a : Ascii) (w : WF a) (k : Nat) : fileFrom { a with bpos := a.bpos + k } = (fileFrom a).drop k := by
  obtain ⟨_, _, _, _, l5⟩ := fileFrom_length a w
  unfold fileFrom
  rw [List.drop_drop]
  congr 1
  simp only [pos]
  omega

/-- the arguments `(n, epos, st)` of the second loop are what `seebuf (some m)` just returned on the current handle -/
structure Seen (a : Ascii) (m n epos : Nat) (st : Status) : Prop where
  wf : WF a
  tok : Track.Ok a.trk
  hm : a.inmap.size = 128
  n_eq : n = nresOf a.inmap (splitRes a.inmap (curBuf a) m).1
  epos_eq : epos = a.bpos + (splitRes a.inmap (curBuf a) m).1.length
  st_eq : st = splitSt a.inmap (curBuf a) m

theorem seen_seebuf (a : Ascii) (w : WF a) (tok : Track.Ok a.trk) (hm : a.inmap.size = 128) (m : Nat)
    (hclean : Clean a.inmap (fileFrom a)) :
    Seen (seebuf a (some m)).1 m (seebuf a (some m)).2.nres (seebuf a (some m)).2.endpos (seebuf a (some m)).2.st ∧
    fileFrom (seebuf a (some m)).1 = fileFrom a ∧ keep (seebuf a (some m)).1 = keep a ∧
    (seebuf a (some m)).1.bpos = a.bpos ∧ (seebuf a (some m)).1.nc = a.nc := by
  obtain ⟨s1, s2, s3, s4, s5, s6, s7, s8⟩ := seebuf_some_facts a w tok hm m
  have hi : (seebuf a (some m)).1.inmap = a.inmap := keep_inmap s7
  have hcb : curBuf (seebuf a (some m)).1 = curBuf a := curBuf_of_blk s5 s6
  have hnc : (seebuf a (some m)).1.nc = a.nc := congrArg (fun p => p.2.2.2.2.2.2.2.2.2) s5
  have hne : (seebuf a (some m)).2.st ≠ .eformat := by
    rw [s3]
    rcases split_cases a.inmap (curBuf a) ((fileFrom a).drop (a.nc - a.bpos)) m (by rw [← fileFrom_split]; exact hclean) with
      ⟨_, h, _⟩ | ⟨_, _, _, h, _⟩ | ⟨_, _, h, _⟩ <;> (rw [h]; decide)
  exact ⟨⟨s4, s8 hne, by rw [hi]; exact hm, by rw [hi, hcb]; exact s1, by rw [hi, hcb, s6]; exact s2, by rw [hi, hcb]; exact s3⟩,
    fileFrom_of_blk s5 s6, s7, s6, hnc⟩

/-- what `read_nres(…, 0, m, …)` has done when it returns, in terms of the file bytes `fileFrom a0` it started on -/
structure Done (a0 : Ascii) (sq0 : Sq) (m actual0 : Nat) (r : Ascii × Sq × Status × Nat) : Prop where
  sq_eq : r.2.1 = { sq0 with seq := sq0.seq ++ resOf a0.inmap (mapOf a0 sq0) (splitRes a0.inmap (fileFrom a0) m).1 }
  act : r.2.2.2 = actual0 + nresOf a0.inmap (splitRes a0.inmap (fileFrom a0) m).1
  st : r.2.2.1 = (if actual0 + nresOf a0.inmap (splitRes a0.inmap (fileFrom a0) m).1 = 0 then .eod else .ok)
  wf : WF r.1
  tok : Track.Ok r.1.trk
  ff : fileFrom r.1 = (splitRes a0.inmap (fileFrom a0) m).2
  kp : keep r.1 = keep a0
  cur : nresOf a0.inmap (splitRes a0.inmap (fileFrom a0) m).1 < m →
    Sim.Live r.1 ∨ (Sim.AtEof r.1 ∧ pos r.1 = (r.1.file.size : Int))

theorem Done.lift {a a3 : Ascii} {sq sq1 : Sq} {m n actual : Nat} {r : Ascii × Sq × Status × Nat} (cb rest : List UInt8)
    (hff : fileFrom a3 = rest) (hk : keep a3 = keep a) (hmap : mapOf a3 sq1 = mapOf a sq)
    (hsq1 : sq1 = { sq with seq := sq.seq ++ resOf a.inmap (mapOf a sq) cb }) (hn : n = nresOf a.inmap cb) (hnm : n < m)
    (hS : splitRes a.inmap (fileFrom a) m = (cb ++ (splitRes a.inmap rest (m - n)).1, (splitRes a.inmap rest (m - n)).2))
    (d : Done a3 sq1 (m - n) (actual + n) r) : Done a sq m actual r := by
  have hi : a3.inmap = a.inmap := keep_inmap hk
  obtain ⟨d1, d2, d3, d4, d5, d6, d7, d8⟩ := d
  rw [hi, hff] at d1 d2 d3 d6 d8
  rw [hmap] at d1
  have hnres : nresOf a.inmap (cb ++ (splitRes a.inmap rest (m - n)).1) = n + nresOf a.inmap (splitRes a.inmap rest (m - n)).1 := by
    rw [nresOf_append, hn]
  refine ⟨?_, ?_, ?_, d4, d5, ?_, d7.trans hk, ?_⟩
  · rw [d1, hS, hsq1]
    simp only [resOf_append, Array.append_assoc]
  · rw [d2, hS]; simp only [hnres]; omega
  · rw [d3, hS]; simp only [hnres, Nat.add_assoc]
  · rw [d6, hS]
  · rw [hS]; simp only [hnres]
    intro h; exact d8 (by omega)

theorem finishT_eq (a : Ascii) (sq : Sq) (nres n actual epos : Nat) (st : Status) :
    finishT (a, sq, nres, n, actual, epos, st) = finish a sq nres n actual epos st := rfl

theorem eod_ite (k : Nat) : (if (k == 0) = true then Status.eod else Status.ok) = (if k = 0 then Status.eod else Status.ok) := by
  by_cases h : k = 0 <;> simp [h]

/-- **the second loop of `read_nres` and what follows it, in closed form** -/
theorem addLoop_spec (fuel : Nat) : ∀ (a : Ascii) (sq : Sq) (m n actual epos : Nat) (st : Status),
    Seen a m n epos st → MapOk a.inmap (mapOf a sq) → a.eofIsOk = true → Clean a.inmap (fileFrom a) →
    sq.seq.size + m + (if sq.digital then 2 else 1) ≤ sq.salloc →
    (fileFrom a).length + (if a.bpos < a.nc then 0 else 1) < fuel →
    Done a sq m actual (finishT (nresAddLoop fuel a sq m n actual epos st)) := by
  induction fuel with
  | zero => intro a sq m n actual epos st _ _ _ _ _ hf; omega
  | succ fuel ih =>
    intro a sq m n actual epos st hS hmap heof hclean hcap hfuel
    have w := hS.wf
    have hsplit := fileFrom_split a
    have hcl := curBuf_length a w
    have hbl := w.bposLe
    have happ := splitRes_append_eq a.inmap (curBuf a) m
    have hlen : (splitRes a.inmap (curBuf a) m).1.length + (splitRes a.inmap (curBuf a) m).2.length = a.nc - a.bpos := by
      rw [← hcl, ← List.length_append, happ]
    have hsz : ∀ d : List UInt8, (resOf a.inmap (mapOf a sq) d).size = nresOf a.inmap d := fun d => resOf_size _ _ d
    rw [nresAddLoop_succ]
    rcases split_cases a.inmap (curBuf a) ((fileFrom a).drop (a.nc - a.bpos)) m (by rw [← hsplit]; exact hclean) with
      ⟨c1, c2, c3⟩ | ⟨c1, c2, c3, c4, c5, c6⟩ | ⟨c1, ⟨c, t, c2⟩, c3, c4⟩
    · -- the limit is reached inside this buffer
      rw [← hsplit] at c3
      have hst : st = .ok := hS.st_eq.trans c2
      have hn : n = m := hS.n_eq.trans c1
      subst hst; subst hn
      have hcond : ((Status.ok == Status.ok) && decide (n > n)) = false := by simp
      simp only [hcond, Bool.false_eq_true, if_false]
      rw [finishT_eq, finish_ok a sq n n actual epos _ _ (by rw [Nat.min_self]; exact addbuf_exact a sq n w hmap c1 hcap)
        (termOk_of_cap _ (by simp only [Array.size_append, hsz, c1]; omega))]
      rw [Nat.min_self, eod_ite]
      refine ⟨by rw [c3], by simp only [c3, c1], by simp only [c3, c1], ?_, hS.tok, ?_, rfl, ?_⟩
      · exact WF_of_blk (a := a) rfl w (by show a.bpos + _ ≤ a.nc; omega)
      · rw [fileFrom_bpos a w, c3]
        have : fileFrom a = (splitRes a.inmap (curBuf a) n).1 ++
            ((splitRes a.inmap (curBuf a) n).2 ++ (fileFrom a).drop (a.nc - a.bpos)) := by
          rw [← List.append_assoc, happ]; exact hsplit
        conv => lhs; rw [this]
        rw [List.drop_left]
      · intro h; rw [c3] at h; simp only [c1] at h; omega
    · -- the buffer is used up below the limit: next block
      rw [← hsplit] at c6
      have hst : st = .ok := hS.st_eq.trans c4
      have hn : n = nresOf a.inmap (curBuf a) := by rw [hS.n_eq, c3]
      rw [c3] at c1
      have hnm : n < m := by omega
      subst hst
      have hcond : ((Status.ok == Status.ok) && decide (m > n)) = true := by simp; omega
      simp only [hcond, if_true]
      have htake : (curBuf a).take (a.nc - a.bpos) = curBuf a := by
        rw [← hcl]; exact List.take_length
      have hdata : ∀ x ∈ curBuf a, isData a.inmap x = true := by
        intro x hx
        have := splitRes_data a.inmap (curBuf a) m x
        rw [c3] at this; exact this hx
      obtain ⟨b', hb'⟩ := addbuf_some a sq n (a.nc - a.bpos) w hmap (Nat.le_refl _) (by rw [htake]; exact hdata)
        (by rw [htake]; exact hn) (by omega)
      rw [htake] at hb'
      rw [hb']
      have e1 : (Status.ok == Status.fault) = false := by decide
      simp only [e1, Bool.false_eq_true, if_false]
      obtain ⟨l1, l2, l3, l4, l5, l6⟩ := loadbuf_next a { a with bpos := b' } w rfl
      have hcap1 : (sq.seq ++ resOf a.inmap (mapOf a sq) (curBuf a)).size + (m - n) + (if sq.digital then 2 else 1) ≤ sq.salloc := by
        simp only [Array.size_append, hsz, ← hn]; omega
      rcases l6 with ⟨o1, o2, o3⟩ | ⟨o1, o2, o3, o4⟩
      · -- more data
        have e2 : ((loadbuf { a with bpos := b' }).2 == Status.eof) = false := by rw [o1]; decide
        simp only [e2, Bool.false_eq_true, if_false]
        have hk2 : keep (loadbuf { a with bpos := b' }).1 = keep a := l4
        have hi2 : (loadbuf { a with bpos := b' }).1.inmap = a.inmap := keep_inmap hk2
        have htok2 : Track.Ok (loadbuf { a with bpos := b' }).1.trk := by rw [l5]; exact hS.tok
        obtain ⟨q1, q2, q3, q4, q5⟩ := seen_seebuf (loadbuf { a with bpos := b' }).1 l1 htok2 (by rw [hi2]; exact hS.hm) (m - n)
          (by rw [hi2, l3]; exact c5)
        have hk3 := q3.trans hk2
        have hi3 := keep_inmap hk3
        have hmap3 : mapOf (seebuf (loadbuf { a with bpos := b' }).1 (some (m - n))).1
            { sq with seq := sq.seq ++ resOf a.inmap (mapOf a sq) (curBuf a) } = mapOf a sq := by
          simp only [mapOf, hi3]
        have hff3 := q2.trans l3
        have hlenF : (fileFrom a).length = (a.nc - a.bpos) + ((fileFrom a).drop (a.nc - a.bpos)).length := by
          have := congrArg List.length hsplit
          rw [List.length_append, hcl] at this; exact this
        have key := ih _ { sq with seq := sq.seq ++ resOf a.inmap (mapOf a sq) (curBuf a) } (m - n) _ (actual + n) _ _ q1
          (by rw [hmap3, hi3]; exact hmap) (by rw [keep_eofIsOk hk3]; exact heof) (by rw [hi3, hff3]; exact c5) hcap1
          (by
            rw [hff3, q4, q5, l2]
            simp only [o2, if_true]
            by_cases hb : a.bpos < a.nc
            · simp only [hb, if_true] at hfuel; omega
            · simp only [hb, if_false] at hfuel; omega)
        exact Done.lift (curBuf a) ((fileFrom a).drop (a.nc - a.bpos)) hff3 hk3 hmap3 rfl hn hnm (by rw [hn]; exact c6) key
      · -- end of file
        have e2 : ((loadbuf { a with bpos := b' }).2 == Status.eof) = true := by rw [o1]; decide
        simp only [e2, if_true]
        rw [o3] at c6
        simp only [splitRes_nil, List.append_nil] at c6
        rw [finishT_eq, finish_eof _ _ _ _ _ _ (by rw [keep_eofIsOk l4]; exact heof)
          (termOk_of_cap _ (by simp only [Array.size_append, hsz, ← hn]; omega)), eod_ite]
        refine ⟨by rw [c6], by simp only [c6, hn], by simp only [c6, hn], l1, by rw [l5]; exact hS.tok, by rw [c6, l3, o3], l4,
          fun _ => Or.inr ⟨⟨o2, l2⟩, o4⟩⟩
    · -- end of data inside this buffer
      rw [← hsplit] at c4
      have hst : st = .eod := hS.st_eq.trans c3
      have hn := hS.n_eq
      subst hst
      have hcond : ((Status.eod == Status.ok) && decide (m > n)) = false := by simp
      simp only [hcond, Bool.false_eq_true, if_false]
      have hk : (splitRes a.inmap (curBuf a) m).1.length ≤ a.nc - a.bpos := by omega
      have htake : (curBuf a).take (splitRes a.inmap (curBuf a) m).1.length = (splitRes a.inmap (curBuf a) m).1 := by
        have e : (curBuf a).take (splitRes a.inmap (curBuf a) m).1.length =
            ((splitRes a.inmap (curBuf a) m).1 ++ (splitRes a.inmap (curBuf a) m).2).take (splitRes a.inmap (curBuf a) m).1.length := by
          rw [happ]
        exact e.trans (List.take_left' rfl)
      obtain ⟨b', hb'⟩ := addbuf_some a sq n _ w hmap hk (by rw [htake]; exact splitRes_data a.inmap (curBuf a) m)
        (by rw [htake]; exact hn) (by omega)
      rw [htake] at hb'
      have hmin : min m n = n := by omega
      rw [finishT_eq, finish_eod a sq m n actual epos _ _ (by rw [hmin]; exact hb')
        (termOk_of_cap _ (by simp only [Array.size_append, hsz, ← hn]; omega)), hmin, eod_ite]
      have hs2len : 0 < (splitRes a.inmap (curBuf a) m).2.length := by rw [c2]; simp
      have hepos : epos = a.bpos + (splitRes a.inmap (curBuf a) m).1.length := hS.epos_eq
      refine ⟨by rw [c4], by simp only [c4, hn], by simp only [c4, hn], ?_, hS.tok, ?_, rfl, fun _ => Or.inl ?_⟩
      · exact WF_of_blk (a := a) rfl w (by show epos ≤ a.nc; omega)
      · show fileFrom { a with bpos := epos } = _
        rw [hepos, fileFrom_bpos a w, c4]
        have : fileFrom a = (splitRes a.inmap (curBuf a) m).1 ++
            ((splitRes a.inmap (curBuf a) m).2 ++ (fileFrom a).drop (a.nc - a.bpos)) := by
          rw [← List.append_assoc, happ]; exact hsplit
        conv => lhs; rw [this]
        rw [List.drop_left]
      · show epos < a.nc
        omega

/-- `read_nres(sqfp, sq, 0, W, &actual)` in closed form, as a `Done` record (its last clause is stronger than the one of
    `readNres_zero_spec`: the cursor is on a byte, or at the end of the file, whenever fewer than `W` residues were found) -/
theorem readNres_zero_done (a : Ascii) (sq : Sq) (W : Nat) (w : WF a) (tok : Track.Ok a.trk) (hm : a.inmap.size = 128)
    (heof : a.eofIsOk = true) (hmap : MapOk a.inmap (mapOf a sq)) (hclean : Clean a.inmap (fileFrom a))
    (hcap : sq.seq.size + W + (if sq.digital then 2 else 1) ≤ sq.salloc) :
    Done a sq W 0 (readNres a sq 0 W) := by
  obtain ⟨q1, q2, q3, q4, q5⟩ := seen_seebuf a w tok hm W hclean
  have hi := keep_inmap q3
  have hst : (seebuf a (some W)).2.st = .ok ∨ (seebuf a (some W)).2.st = .eod := by
    have e := q1.st_eq
    rw [hi, curBuf_of_blk (seebuf_blk a (some W)).1 q4] at e
    rw [e]
    rcases split_cases a.inmap (curBuf a) ((fileFrom a).drop (a.nc - a.bpos)) W (by rw [← fileFrom_split]; exact hclean) with
      ⟨_, h, _⟩ | ⟨_, _, _, h, _⟩ | ⟨_, _, h, _⟩
    · exact Or.inl h
    · exact Or.inl h
    · exact Or.inr h
  rw [readNres_zero_eq a sq W hst]
  have hmap1 : mapOf (seebuf a (some W)).1 sq = mapOf a sq := by simp only [mapOf, hi]
  have hlen := (fileFrom_length a w).1
  have key := addLoop_spec (fuelOf (seebuf a (some W)).1) (seebuf a (some W)).1 sq W _ 0 _ _ q1
    (by rw [hmap1, hi]; exact hmap) (by rw [keep_eofIsOk q3]; exact heof) (by rw [hi, q2]; exact hclean) hcap
    (by
      rw [q2]
      show _ < (seebuf a (some W)).1.file.size + 2
      rw [keep_file q3]
      split <;> omega)
  obtain ⟨d1, d2, d3, d4, d5, d6, d7, d8⟩ := key
  rw [hi, q2] at d1 d2 d3 d6 d8
  rw [hmap1] at d1
  exact ⟨d1, d2, d3, d4, d5, d6, d7.trans q3, d8⟩

/-- **`read_nres` with `nskip = 0` (forward windows), for every block size**: on clean data, from any well-formed handle (the cursor
    may even stand at the very end of its buffer), it appends exactly the residues of the shortest prefix of the remaining file bytes
    that holds `W` residues (all the data bytes of the record if there are fewer), reports their number, returns `eslEOD` iff there
    were none, and leaves the cursor on the first byte not consumed. -/
theorem readNres_zero_spec (a : Ascii) (sq : Sq) (W : Nat) (hW : 1 ≤ W) (w : WF a) (tok : Track.Ok a.trk) (hm : a.inmap.size = 128)
    (heof : a.eofIsOk = true) (hmap : MapOk a.inmap (mapOf a sq)) (hclean : Clean a.inmap (fileFrom a))
    (hcap : sq.seq.size + W + (if sq.digital then 2 else 1) ≤ sq.salloc) :
    let s := splitRes a.inmap (fileFrom a) W
    let r := readNres a sq 0 W
    r.2.1 = { sq with seq := sq.seq ++ resOf a.inmap (mapOf a sq) s.1 } ∧
    r.2.2.2 = nresOf a.inmap s.1 ∧
    r.2.2.1 = (if nresOf a.inmap s.1 = 0 then .eod else .ok) ∧
    WF r.1 ∧ Track.Ok r.1.trk ∧ fileFrom r.1 = s.2 ∧ stat r.1 = stat a ∧ r.1.L = a.L ∧
    r.1.bookmarkOff = a.bookmarkOff ∧ r.1.bookmarkLine = a.bookmarkLine ∧ r.1.exc = a.exc ∧
    (nresOf a.inmap s.1 = 0 → (Sim.Live r.1 ∨ (Sim.AtEof r.1 ∧ pos r.1 = (r.1.file.size : Int)))) := by
  intro s r
  obtain ⟨d1, d2, d3, d4, d5, d6, d7, d8⟩ := readNres_zero_done a sq W w tok hm heof hmap hclean hcap
  simp only [Nat.zero_add] at d2 d3
  have k := d7
  simp only [keep, Prod.mk.injEq] at k
  obtain ⟨_, _, _, _, _, k6, k7, k8, k9⟩ := k
  exact ⟨d1, d2, d3, d4, d5, d6, keep_stat d7, k6, k8, k9, k7, fun h0 => d8 (by show nresOf a.inmap s.1 < W; omega)⟩

/-! ## Stage C: general `nskip` (subsequence fetches) -/

theorem splitRes_res (inmap : Bytes) (c : UInt8) (t : List UInt8) (n : Nat) (h0 : n ≠ 0) (hr : isRes inmap c = true) :
    splitRes inmap (c :: t) n = (c :: (splitRes inmap t (n - 1)).1, (splitRes inmap t (n - 1)).2) := by
  simp [splitRes, h0, hr]

theorem splitRes_skip (inmap : Bytes) (c : UInt8) (t : List UInt8) (n : Nat) (h0 : n ≠ 0) (hr : isRes inmap c = false)
    (hd : isData inmap c = true) : splitRes inmap (c :: t) n = (c :: (splitRes inmap t n).1, (splitRes inmap t n).2) := by
  simp [splitRes, h0, hr, hd]

theorem splitRes_stop (inmap : Bytes) (c : UInt8) (t : List UInt8) (n : Nat) (h0 : n ≠ 0) (hr : isRes inmap c = false)
    (hd : isData inmap c = false) : splitRes inmap (c :: t) n = ([], c :: t) := by
  simp [splitRes, h0, hr, hd]

/-- taking `p + q` residues = taking `p`, then `q` more from what follows (if `p` could be had at all) -/
theorem splitRes_add (inmap : Bytes) (l : List UInt8) : ∀ p q, splitRes inmap l (p + q) =
    if nresOf inmap (splitRes inmap l p).1 = p then
      ((splitRes inmap l p).1 ++ (splitRes inmap (splitRes inmap l p).2 q).1, (splitRes inmap (splitRes inmap l p).2 q).2)
    else splitRes inmap l p := by
  induction l with
  | nil =>
    intro p q
    by_cases hp : 0 = p <;> simp [splitRes, nresOf, hp]
  | cons c t ih =>
    intro p q
    by_cases hp : p = 0
    · subst hp; simp [splitRes_zero, nresOf]
    · have hpq0 : p + q ≠ 0 := by omega
      rcases splitRes_cons inmap c t p with ⟨k, _⟩ | ⟨_, hr, hd, e⟩ | ⟨_, hr, hd, e⟩ | ⟨_, hr, hd, e⟩
      · exact absurd k hp
      · have e' : splitRes inmap (c :: t) (p + q) =
            (c :: (splitRes inmap t (p + q - 1)).1, (splitRes inmap t (p + q - 1)).2) :=
          splitRes_res inmap c t (p + q) hpq0 hr
        have hpq : p + q - 1 = (p - 1) + q := by omega
        rw [e', e, hpq, ih (p - 1) q]
        simp only [nresOf_cons, hr, if_true]
        have hiff : (1 + nresOf inmap (splitRes inmap t (p - 1)).1 = p) = (nresOf inmap (splitRes inmap t (p - 1)).1 = p - 1) :=
          propext ⟨by omega, by omega⟩
        simp only [hiff]
        by_cases hc : nresOf inmap (splitRes inmap t (p - 1)).1 = p - 1
        · simp only [hc, if_true, List.cons_append]
        · simp only [hc, if_false]
      · have e' : splitRes inmap (c :: t) (p + q) = (c :: (splitRes inmap t (p + q)).1, (splitRes inmap t (p + q)).2) :=
          splitRes_skip inmap c t (p + q) hpq0 hr hd
        rw [e', e, ih p q]
        simp only [nresOf_cons, hr, Bool.false_eq_true, if_false, Nat.zero_add]
        by_cases hc : nresOf inmap (splitRes inmap t p).1 = p
        · simp only [hc, if_true, List.cons_append]
        · simp only [hc, if_false]
      · have e' : splitRes inmap (c :: t) (p + q) = ([], c :: t) := splitRes_stop inmap c t (p + q) hpq0 hr hd
        rw [e', e]
        have : ¬ (nresOf inmap ([] : List UInt8) = p) := by simp only [nresOf_nil]; omega
        simp only [this, if_false]

theorem splitRes_add_of_le (inmap : Bytes) (l : List UInt8) (p q : Nat) (h : p ≤ nresOf inmap (splitRes inmap l (p + q)).1) :
    nresOf inmap (splitRes inmap l p).1 = p ∧
    splitRes inmap l (p + q) =
      ((splitRes inmap l p).1 ++ (splitRes inmap (splitRes inmap l p).2 q).1, (splitRes inmap (splitRes inmap l p).2 q).2) := by
  have hadd := splitRes_add inmap l p q
  have hle := splitRes_nres_le inmap l p
  by_cases hc : nresOf inmap (splitRes inmap l p).1 = p
  · simp only [hc, if_true] at hadd
    exact ⟨hc, hadd⟩
  · simp only [hc, if_false] at hadd
    rw [hadd] at h
    omega

theorem splitRes_all_data (inmap : Bytes) (l : List UInt8) : ∀ n, (∀ c ∈ l, isData inmap c = true) → nresOf inmap l < n →
    splitRes inmap l n = (l, []) := by
  induction l with
  | nil => intro n _ _; rfl
  | cons c t ih =>
    intro n hd hn
    have hdc : isData inmap c = true := hd c (by simp)
    have hdt : ∀ x ∈ t, isData inmap x = true := fun x hx => hd x (by simp [hx])
    rw [nresOf_cons] at hn
    rcases splitRes_cons inmap c t n with ⟨k, _⟩ | ⟨_, hr, _, e⟩ | ⟨_, hr, _, e⟩ | ⟨_, _, hd', _⟩
    · omega
    · rw [hr] at hn; simp only [if_true] at hn
      rw [e, ih (n - 1) hdt (by omega)]
    · rw [hr] at hn; simp only [Bool.false_eq_true, if_false, Nat.zero_add] at hn
      rw [e, ih n hdt hn]
    · rw [hdc] at hd'; cases hd'

theorem Clean_of_data_append (inmap : Bytes) (d rest : List UInt8) (hd : ∀ c ∈ d, isData inmap c = true)
    (h : Clean inmap (d ++ rest)) : Clean inmap rest := by
  intro c t hc
  apply h c t
  induction d with
  | nil => exact hc
  | cons x d ih =>
    have hx : isData inmap x = true := hd x (by simp)
    rw [List.cons_append, List.dropWhile_cons_of_pos hx]
    exact ih (fun y hy => hd y (by simp [hy])) (fun c t e => h c t (by rw [List.cons_append, List.dropWhile_cons_of_pos hx]; exact e))

/-- `skipbuf` of `n` residues that are there stops right behind the `n`-th -/
theorem skipbufLoop_exact (a : Ascii) (hr : NoFault.Rd a) (hm : a.inmap.size = 128) :
    ∀ (l : List UInt8) (bpos n : Nat), bufList a bpos = l → nresOf a.inmap (splitRes a.inmap l n).1 = n →
      skipbufLoop a n bpos = (.ok, bpos + (splitRes a.inmap l n).1.length) := by
  have hmap := MapOk.self a.inmap hm
  intro l
  induction l with
  | nil =>
    intro bpos n _ hn
    have : n = 0 := by simpa [splitRes, nresOf] using hn.symm
    subst this
    rw [skipbufLoop]
    simp [splitRes]
  | cons c t ih =>
    intro bpos n hl hn
    by_cases h0 : n = 0
    · subst h0
      rw [skipbufLoop]
      simp [splitRes_zero]
    · have hlt : bpos < a.nc := by
        by_cases k : bpos < a.nc
        · exact k
        · rw [bufList_nil a bpos k] at hl; cases hl
      rw [bufList_cons a bpos hlt] at hl
      obtain ⟨x, hx⟩ := hr bpos hlt
      have hbx : byteAt a bpos = x := by simp [byteAt, hx]
      rw [hbx] at hl
      have hxc : x = c := (List.cons.inj hl).1
      have ht : bufList a (bpos + 1) = t := (List.cons.inj hl).2
      subst hxc
      have hz : (n == 0) = false := by simpa using h0
      rw [skipbufLoop]
      simp only [hz, Bool.false_eq_true, if_false, hlt, dite_true, hx]
      rcases splitRes_cons a.inmap x t n with ⟨k0, _⟩ | ⟨_, hres, hd, e⟩ | ⟨_, hres, hd, e⟩ | ⟨_, _, _, e⟩
      · exact absurd k0 h0
      · obtain ⟨y, hy, hyr⟩ := hmap x hd
        have hy127 : y ≤ 127 := by rw [hres] at hyr; simpa using hyr
        rw [e] at hn ⊢
        simp only [nresOf_cons, hres, if_true] at hn
        simp only [hy, hy127, if_true]
        rw [ih (bpos + 1) (n - 1) ht (by omega)]
        simp only [List.length_cons, Prod.mk.injEq, true_and]
        omega
      · obtain ⟨y, hy, hyr⟩ := hmap x hd
        have hy127 : ¬ y ≤ 127 := by rw [hres] at hyr; simpa using hyr
        rw [e] at hn ⊢
        simp only [nresOf_cons, hres, Bool.false_eq_true, if_false, Nat.zero_add] at hn
        simp only [hy, hy127, if_false]
        rw [ih (bpos + 1) n ht hn]
        simp only [List.length_cons, Prod.mk.injEq, true_and]
        omega
      · rw [e] at hn
        simp only [nresOf_nil] at hn
        exact absurd hn.symm h0

theorem skipbuf_exact (a : Ascii) (n : Nat) (w : WF a) (hm : a.inmap.size = 128)
    (hn : nresOf a.inmap (splitRes a.inmap (curBuf a) n).1 = n) :
    skipbuf a n = ({ a with bpos := a.bpos + (splitRes a.inmap (curBuf a) n).1.length }, .ok) := by
  unfold skipbuf
  rw [skipbufLoop_exact a (NoFault.WF.rd w) hm (curBuf a) a.bpos n (bufList_cur a w) hn]

theorem curBuf_bpos (a : Ascii) (w : WF a) (k : Nat) :
    curBuf { a with bpos := a.bpos + k } = (curBuf a).drop k := by
  unfold curBuf
  rw [fileFrom_bpos a w k, List.drop_take]
  show List.take (a.nc - (a.bpos + k)) _ = _
  congr 1
  omega

theorem nresSkipLoop_succ (fuel : Nat) (a : Ascii) (nskip nres : Nat) (see : See) :
    nresSkipLoop (fuel + 1) a nskip nres see =
      if (see.st == .ok && nskip > see.nres) = true then
        (if ((loadbuf a).2 == .eof) = true then ((loadbuf a).1, nskip - see.nres, see, Status.eof)
         else nresSkipLoop fuel (seebuf (loadbuf a).1 (some (nskip - see.nres + nres))).1 (nskip - see.nres) nres
           (seebuf (loadbuf a).1 (some (nskip - see.nres + nres))).2)
      else (a, nskip, see, see.st) := by
  rw [nresSkipLoop]

/-- **the first loop of `read_nres`**: whole buffers are skipped while they hold fewer residues than are still to be skipped; what
    remains to be done afterwards (`splitRes … nskip` of the rest of the file) is unchanged -/
theorem skipLoop_spec (nres : Nat) (fuel : Nat) : ∀ (a : Ascii) (nskip : Nat) (see : See),
    Seen a (nskip + nres) see.nres see.endpos see.st → Clean a.inmap (fileFrom a) →
    nskip < nresOf a.inmap (splitRes a.inmap (fileFrom a) (nskip + nres)).1 →
    (fileFrom a).length + (if a.bpos < a.nc then 0 else 1) < fuel →
    ∃ a' nskip' see', nresSkipLoop fuel a nskip nres see = (a', nskip', see', see'.st) ∧
      Seen a' (nskip' + nres) see'.nres see'.endpos see'.st ∧ nskip' ≤ see'.nres ∧ (see'.st = .ok ∨ see'.st = .eod) ∧
      keep a' = keep a ∧ Clean a'.inmap (fileFrom a') ∧
      (splitRes a.inmap (fileFrom a) nskip).2 = (splitRes a.inmap (fileFrom a') nskip').2 := by
  induction fuel with
  | zero => intro a nskip see _ _ _ hf; omega
  | succ fuel ih =>
    intro a nskip see hS hclean hskip hfuel
    have w := hS.wf
    have hsplit := fileFrom_split a
    have hcl := curBuf_length a w
    rw [nresSkipLoop_succ]
    have hcases := split_cases a.inmap (curBuf a) ((fileFrom a).drop (a.nc - a.bpos)) (nskip + nres) (by rw [← hsplit]; exact hclean)
    rw [← hsplit] at hcases
    by_cases hc : see.st = .ok ∧ nskip > see.nres
    · have hcond : (see.st == .ok && decide (nskip > see.nres)) = true := by simp [hc.1, hc.2]
      simp only [hcond, if_true]
      rcases hcases with ⟨c1, _, _⟩ | ⟨c1, c2, c3, c4, c5, c6⟩ | ⟨_, _, c3, _⟩
      · have := hS.n_eq; omega
      · have hn : see.nres = nresOf a.inmap (curBuf a) := by rw [hS.n_eq, c3]
        rw [c6] at hskip
        simp only [nresOf_append] at hskip
        have hdata : ∀ x ∈ curBuf a, isData a.inmap x = true := by
          intro x hx
          have := splitRes_data a.inmap (curBuf a) (nskip + nres) x
          rw [c3] at this; exact this hx
        have hM : nskip + nres - nresOf a.inmap (curBuf a) = nskip - see.nres + nres := by omega
        rw [hM] at c6 hskip
        obtain ⟨l1, l2, l3, l4, l5, l6⟩ := loadbuf_next a a w rfl
        rcases l6 with ⟨o1, o2, o3⟩ | ⟨o1, o2, o3, o4⟩
        · have e2 : ((loadbuf a).2 == Status.eof) = false := by rw [o1]; decide
          simp only [e2, Bool.false_eq_true, if_false]
          have hi2 : (loadbuf a).1.inmap = a.inmap := keep_inmap l4
          have htok2 : Track.Ok (loadbuf a).1.trk := by rw [l5]; exact hS.tok
          obtain ⟨q1, q2, q3, q4, q5⟩ := seen_seebuf (loadbuf a).1 l1 htok2 (by rw [hi2]; exact hS.hm) (nskip - see.nres + nres)
            (by rw [hi2, l3]; exact c5)
          have hk3 := q3.trans l4
          have hi3 := keep_inmap hk3
          have hff3 := q2.trans l3
          have hlenF : (fileFrom a).length = (a.nc - a.bpos) + ((fileFrom a).drop (a.nc - a.bpos)).length := by
            have := congrArg List.length hsplit
            rw [List.length_append, hcl] at this; exact this
          obtain ⟨a', nskip', see', r1, r2, r3, r4, r5, r6, r7⟩ := ih _ (nskip - see.nres) _ q1 (by rw [hi3, hff3]; exact c5)
            (by rw [hi3, hff3]; omega)
            (by
              rw [hff3, q4, q5, l2]
              simp only [o2, if_true]
              by_cases hb : a.bpos < a.nc
              · simp only [hb, if_true] at hfuel; omega
              · simp only [hb, if_false] at hfuel; omega)
          refine ⟨a', nskip', see', r1, r2, r3, r4, r5.trans hk3, r6, ?_⟩
          rw [hi3, hff3] at r7
          rw [← r7]
          conv => lhs; rw [hsplit]
          rw [splitRes_append, splitRes_all_data a.inmap (curBuf a) nskip hdata (by omega)]
          have : nresOf a.inmap (curBuf a) < nskip ∧ ([] : List UInt8) = [] := ⟨by omega, rfl⟩
          simp only [this, and_self, if_true, hn]
        · exfalso
          rw [o3] at hskip
          simp only [splitRes_nil, nresOf_nil] at hskip
          omega
      · rw [hS.st_eq, c3] at hc; cases hc.1
    · have hcond : (see.st == .ok && decide (nskip > see.nres)) = false := by
        by_cases h1 : see.st = .ok
        · have : ¬ nskip > see.nres := fun h2 => hc ⟨h1, h2⟩
          simp [h1, this]
        · have : (see.st == Status.ok) = false := by simpa using h1
          simp [this]
      simp only [hcond, Bool.false_eq_true, if_false]
      refine ⟨a, nskip, see, rfl, hS, ?_, ?_, rfl, hclean, rfl⟩
      · rcases hcases with ⟨c1, _, _⟩ | ⟨_, _, _, c4, _, _⟩ | ⟨_, _, _, c4⟩
        · have := hS.n_eq; omega
        · have hst : see.st = .ok := hS.st_eq.trans c4
          have : ¬ nskip > see.nres := fun h2 => hc ⟨hst, h2⟩
          omega
        · rw [c4] at hskip
          have hskip' : nskip < nresOf a.inmap (splitRes a.inmap (curBuf a) (nskip + nres)).1 := hskip
          have := hS.n_eq; omega
      · rcases hcases with ⟨_, c2, _⟩ | ⟨_, _, _, c4, _, _⟩ | ⟨_, _, c3, _⟩
        · exact Or.inl (hS.st_eq.trans c2)
        · exact Or.inl (hS.st_eq.trans c4)
        · exact Or.inr (hS.st_eq.trans c3)

theorem drop_of_append_eq {l x y : List UInt8} (h : x ++ y = l) : l.drop x.length = y := by
  subst h; exact List.drop_left

theorem Done.out {a0 : Ascii} {sq : Sq} {m act : Nat} {r : Ascii × Sq × Status × Nat} (d : Done a0 sq m act r)
    (inmap map : Bytes) (l : List UInt8) (kp : Bytes × Bytes × Bool × Nat × Nat × Int × Bool × Int × Int)
    (h1 : a0.inmap = inmap) (h2 : mapOf a0 sq = map) (h3 : fileFrom a0 = l) (h4 : keep a0 = kp) :
    r.2.1 = { sq with seq := sq.seq ++ resOf inmap map (splitRes inmap l m).1 } ∧
    r.2.2.2 = act + nresOf inmap (splitRes inmap l m).1 ∧
    r.2.2.1 = (if act + nresOf inmap (splitRes inmap l m).1 = 0 then .eod else .ok) ∧
    WF r.1 ∧ Track.Ok r.1.trk ∧ fileFrom r.1 = (splitRes inmap l m).2 ∧ keep r.1 = kp ∧
    (nresOf inmap (splitRes inmap l m).1 < m → Sim.Live r.1 ∨ (Sim.AtEof r.1 ∧ pos r.1 = (r.1.file.size : Int))) := by
  subst h1 h2 h3 h4
  exact ⟨d.sq_eq, d.act, d.st, d.wf, d.tok, d.ff, d.kp, d.cur⟩

theorem readNres_eq (a : Ascii) (sq : Sq) (nskip nres : Nat) (a' : Ascii) (nskip' : Nat) (see' : See) (a'' : Ascii)
    (h1 : nresSkipLoop (fuelOf (seebuf a (some (nskip + nres))).1) (seebuf a (some (nskip + nres))).1 nskip nres
      (seebuf a (some (nskip + nres))).2 = (a', nskip', see', see'.st))
    (hst : see'.st = .ok ∨ see'.st = .eod) (hle : nskip' ≤ see'.nres) (h2 : skipbuf a' nskip' = (a'', .ok)) :
    readNres a sq nskip nres = finishT (nresAddLoop (fuelOf a'') a'' sq nres (see'.nres - nskip') 0 see'.endpos see'.st) := by
  unfold readNres
  generalize seebuf a (some (nskip + nres)) = sb at h1 ⊢
  obtain ⟨a1, see⟩ := sb
  simp only at h1 ⊢
  rw [h1]
  have e1 : (Status.ok == Status.fault) = false := by decide
  have e2 : (Status.ok == Status.eof) = false := by decide
  have e3 : (Status.ok == Status.eod) = false := by decide
  have e4 : (Status.ok != Status.ok) = false := by decide
  have e5 : (Status.eod == Status.fault) = false := by decide
  have e6 : (Status.eod == Status.eof) = false := by decide
  have hlt : ¬ see'.nres < nskip' := by omega
  rcases hst with h | h
  · simp only [h, e1, e2, e3, e4, Bool.false_eq_true, if_false, h2]
    generalize nresAddLoop (fuelOf a'') a'' sq nres (see'.nres - nskip') 0 see'.endpos Status.ok = r
    obtain ⟨x1, x2, x3, x4, x5, x6, x7⟩ := r
    simp only [finishT, finish]
  · simp only [h, e1, e5, e6, Bool.false_eq_true, if_false, beq_self_eq_true, if_true, hlt, h2]
    generalize nresAddLoop (fuelOf a'') a'' sq nres (see'.nres - nskip') 0 see'.endpos Status.eod = r
    obtain ⟨x1, x2, x3, x4, x5, x6, x7⟩ := r
    simp only [finishT, finish]

/-- **`read_nres(sqfp, sq, nskip, nres, &actual)` in closed form, for every block size**: on clean data on which more than `nskip`
    residues are to be had, it skips the shortest prefix `k` of the remaining file bytes that holds `nskip` residues, appends the
    residues of the shortest prefix `s.1` of what follows that holds `nres` residues (all the data bytes left if there are fewer),
    reports their number with `eslOK`, and leaves the cursor on the first byte not consumed. -/
theorem readNres_skip_spec (a : Ascii) (sq : Sq) (nskip nres : Nat) (w : WF a) (tok : Track.Ok a.trk) (hm : a.inmap.size = 128)
    (heof : a.eofIsOk = true) (hmap : MapOk a.inmap (mapOf a sq)) (hclean : Clean a.inmap (fileFrom a))
    (hcap : sq.seq.size + nres + (if sq.digital then 2 else 1) ≤ sq.salloc)
    (hskip : nskip < nresOf a.inmap (splitRes a.inmap (fileFrom a) (nskip + nres)).1) :
    (readNres a sq nskip nres).2.1 =
      { sq with seq := sq.seq ++ resOf a.inmap (mapOf a sq) (splitRes a.inmap (splitRes a.inmap (fileFrom a) nskip).2 nres).1 } ∧
    (readNres a sq nskip nres).2.2.2 = nresOf a.inmap (splitRes a.inmap (splitRes a.inmap (fileFrom a) nskip).2 nres).1 ∧
    (readNres a sq nskip nres).2.2.1 = .ok ∧
    WF (readNres a sq nskip nres).1 ∧ Track.Ok (readNres a sq nskip nres).1.trk ∧
    fileFrom (readNres a sq nskip nres).1 = (splitRes a.inmap (splitRes a.inmap (fileFrom a) nskip).2 nres).2 ∧
    keep (readNres a sq nskip nres).1 = keep a ∧
    (nresOf a.inmap (splitRes a.inmap (splitRes a.inmap (fileFrom a) nskip).2 nres).1 < nres →
      Sim.Live (readNres a sq nskip nres).1 ∨
      (Sim.AtEof (readNres a sq nskip nres).1 ∧ pos (readNres a sq nskip nres).1 = ((readNres a sq nskip nres).1.file.size : Int))) := by
  obtain ⟨q1, q2, q3, q4, q5⟩ := seen_seebuf a w tok hm (nskip + nres) hclean
  have hi := keep_inmap q3
  have hlen1 := (fileFrom_length _ q1.wf).1
  obtain ⟨a', nskip', see', r1, r2, r3, r4, r5, r6, r7⟩ := skipLoop_spec nres (fuelOf (seebuf a (some (nskip + nres))).1)
    (seebuf a (some (nskip + nres))).1 nskip (seebuf a (some (nskip + nres))).2 q1 (by rw [hi, q2]; exact hclean)
    (by rw [hi, q2]; exact hskip)
    (by show _ < (seebuf a (some (nskip + nres))).1.file.size + 2; split <;> omega)
  rw [hi, q2] at r7
  have hk' := r5.trans q3
  have hi' := keep_inmap hk'
  have w' := r2.wf
  have hbl' := w'.bposLe
  have hcl' := curBuf_length a' w'
  have hsplit' := fileFrom_split a'
  obtain ⟨hK, hAdd⟩ := splitRes_add_of_le a'.inmap (curBuf a') nskip' nres (by rw [← r2.n_eq]; exact r3)
  have happK := splitRes_append_eq a'.inmap (curBuf a') nskip'
  have hlenK : (splitRes a'.inmap (curBuf a') nskip').1.length + (splitRes a'.inmap (curBuf a') nskip').2.length = a'.nc - a'.bpos := by
    rw [← hcl', ← List.length_append, happK]
  have hskipbuf := skipbuf_exact a' nskip' w' r2.hm hK
  rw [readNres_eq a sq nskip nres a' nskip' see' _ r1 r4 r3 hskipbuf]
  -- the handle after `skipbuf`
  have w'' : WF { a' with bpos := a'.bpos + (splitRes a'.inmap (curBuf a') nskip').1.length } :=
    WF_of_blk (a := a') rfl w' (by show a'.bpos + _ ≤ a'.nc; omega)
  have hcb'' : curBuf { a' with bpos := a'.bpos + (splitRes a'.inmap (curBuf a') nskip').1.length } =
      (splitRes a'.inmap (curBuf a') nskip').2 := by
    rw [curBuf_bpos a' w']
    exact drop_of_append_eq happK
  have hfile' : fileFrom a' = (splitRes a'.inmap (curBuf a') nskip').1 ++
      ((splitRes a'.inmap (curBuf a') nskip').2 ++ (fileFrom a').drop (a'.nc - a'.bpos)) := by
    rw [← List.append_assoc, happK]; exact hsplit'
  have hff'' : fileFrom { a' with bpos := a'.bpos + (splitRes a'.inmap (curBuf a') nskip').1.length } =
      (splitRes a'.inmap (curBuf a') nskip').2 ++ (fileFrom a').drop (a'.nc - a'.bpos) := by
    rw [fileFrom_bpos a' w']
    exact drop_of_append_eq hfile'.symm
  have hafter : (splitRes a.inmap (fileFrom a) nskip).2 =
      (splitRes a'.inmap (curBuf a') nskip').2 ++ (fileFrom a').drop (a'.nc - a'.bpos) := by
    rw [r7, ← hi']
    conv => lhs; rw [hsplit']
    rw [splitRes_append]
    have : ¬ (nresOf a'.inmap (splitRes a'.inmap (curBuf a') nskip').1 < nskip' ∧ (splitRes a'.inmap (curBuf a') nskip').2 = []) := by
      intro k; omega
    simp only [this, if_false]
  have hnresAdd : nresOf a'.inmap (splitRes a'.inmap (curBuf a') (nskip' + nres)).1 =
      nskip' + nresOf a'.inmap (splitRes a'.inmap (splitRes a'.inmap (curBuf a') nskip').2 nres).1 := by
    rw [hAdd]; simp only [nresOf_append, hK]
  have hseen : Seen { a' with bpos := a'.bpos + (splitRes a'.inmap (curBuf a') nskip').1.length } nres (see'.nres - nskip')
      see'.endpos see'.st := by
    refine ⟨w'', r2.tok, r2.hm, ?_, ?_, ?_⟩
    · rw [hcb'']
      show see'.nres - nskip' = nresOf a'.inmap (splitRes a'.inmap (splitRes a'.inmap (curBuf a') nskip').2 nres).1
      rw [r2.n_eq, hnresAdd]; omega
    · rw [hcb'']
      show see'.endpos = a'.bpos + (splitRes a'.inmap (curBuf a') nskip').1.length +
        (splitRes a'.inmap (splitRes a'.inmap (curBuf a') nskip').2 nres).1.length
      rw [r2.epos_eq, hAdd]; simp only [List.length_append]; omega
    · rw [hcb'']
      show see'.st = splitSt a'.inmap (splitRes a'.inmap (curBuf a') nskip').2 nres
      rw [r2.st_eq]
      unfold splitSt
      rw [hnresAdd, hAdd]
      have hiff : (nskip' + nresOf a'.inmap (splitRes a'.inmap (splitRes a'.inmap (curBuf a') nskip').2 nres).1 = nskip' + nres) =
          (nresOf a'.inmap (splitRes a'.inmap (splitRes a'.inmap (curBuf a') nskip').2 nres).1 = nres) := propext ⟨by omega, by omega⟩
      simp only [hiff]
  have hclean'' : Clean a'.inmap (fileFrom { a' with bpos := a'.bpos + (splitRes a'.inmap (curBuf a') nskip').1.length }) := by
    rw [hff'']
    apply Clean_of_data_append a'.inmap (splitRes a'.inmap (curBuf a') nskip').1 _ (splitRes_data a'.inmap (curBuf a') nskip')
    rw [← hfile']; exact r6
  have hlen'' := (fileFrom_length _ w'').1
  have key := addLoop_spec (fuelOf { a' with bpos := a'.bpos + (splitRes a'.inmap (curBuf a') nskip').1.length })
    { a' with bpos := a'.bpos + (splitRes a'.inmap (curBuf a') nskip').1.length } sq nres _ 0 _ _ hseen
    (by show MapOk a'.inmap (mapOf a' sq)
        have : mapOf a' sq = mapOf a sq := by simp only [mapOf, hi']
        rw [this, hi']; exact hmap)
    (by show a'.eofIsOk = true; rw [keep_eofIsOk hk']; exact heof) hclean'' hcap
    (by show _ < a'.file.size + 2
        have : ({ a' with bpos := a'.bpos + (splitRes a'.inmap (curBuf a') nskip').1.length } : Ascii).file = a'.file := rfl
        rw [this] at hlen''
        split <;> omega)
  have hmap'' : mapOf { a' with bpos := a'.bpos + (splitRes a'.inmap (curBuf a') nskip').1.length } sq = mapOf a sq := by
    simp only [mapOf, hi']
  obtain ⟨d1, d2, d3, d4, d5, d6, d7, d8⟩ := key.out a.inmap (mapOf a sq) (splitRes a.inmap (fileFrom a) nskip).2 (keep a)
    hi' hmap'' (hff''.trans hafter.symm) hk'
  simp only [Nat.zero_add] at d2 d3
  have hpos : 0 < nresOf a.inmap (splitRes a.inmap (splitRes a.inmap (fileFrom a) nskip).2 nres).1 := by
    obtain ⟨g1, g2⟩ := splitRes_add_of_le a.inmap (fileFrom a) nskip nres (by omega)
    rw [g2] at hskip
    simp only [nresOf_append, g1] at hskip
    omega
  have hne : ¬ (nresOf a.inmap (splitRes a.inmap (splitRes a.inmap (fileFrom a) nskip).2 nres).1 = 0) := by omega
  simp only [hne, if_false] at d3
  exact ⟨d1, d2, d3, d4, d5, d6, d7, d8⟩

/-- the same, stated on the one split `s := splitRes inmap (fileFrom a) (nskip + nres)`: the residues `nskip .. ` of `s.1` -/
theorem readNres_spec (a : Ascii) (sq : Sq) (nskip nres : Nat) (w : WF a) (tok : Track.Ok a.trk) (hm : a.inmap.size = 128)
    (heof : a.eofIsOk = true) (hmap : MapOk a.inmap (mapOf a sq)) (hclean : Clean a.inmap (fileFrom a))
    (hcap : sq.seq.size + nres + (if sq.digital then 2 else 1) ≤ sq.salloc)
    (hskip : nskip < nresOf a.inmap (splitRes a.inmap (fileFrom a) (nskip + nres)).1) :
    let s := splitRes a.inmap (fileFrom a) (nskip + nres)
    let r := readNres a sq nskip nres
    r.2.2.1 = .ok ∧ r.2.2.2 = nresOf a.inmap s.1 - nskip ∧
    r.2.1 = { sq with seq := sq.seq ++ (resOf a.inmap (mapOf a sq) s.1).extract nskip (nresOf a.inmap s.1) } ∧
    WF r.1 ∧ Track.Ok r.1.trk ∧ fileFrom r.1 = s.2 ∧ stat r.1 = stat a ∧ r.1.L = a.L ∧
    r.1.bookmarkOff = a.bookmarkOff ∧ r.1.bookmarkLine = a.bookmarkLine ∧ r.1.exc = a.exc := by
  intro s r
  obtain ⟨d1, d2, d3, d4, d5, d6, d7, _⟩ := readNres_skip_spec a sq nskip nres w tok hm heof hmap hclean hcap hskip
  obtain ⟨g1, g2⟩ := splitRes_add_of_le a.inmap (fileFrom a) nskip nres (by omega)
  have hs : s = ((splitRes a.inmap (fileFrom a) nskip).1 ++ (splitRes a.inmap (splitRes a.inmap (fileFrom a) nskip).2 nres).1,
      (splitRes a.inmap (splitRes a.inmap (fileFrom a) nskip).2 nres).2) := g2
  have k := d7
  simp only [keep, Prod.mk.injEq] at k
  obtain ⟨_, _, _, _, _, k6, k7, k8, k9⟩ := k
  have hsz : (resOf a.inmap (mapOf a sq) (splitRes a.inmap (fileFrom a) nskip).1).size = nskip := by
    rw [resOf_size]; exact g1
  have hsz2 : (resOf a.inmap (mapOf a sq) (splitRes a.inmap (splitRes a.inmap (fileFrom a) nskip).2 nres).1).size =
      nresOf a.inmap (splitRes a.inmap (splitRes a.inmap (fileFrom a) nskip).2 nres).1 := resOf_size _ _ _
  refine ⟨d3, ?_, ?_, d4, d5, ?_, keep_stat d7, k6, k8, k9, k7⟩
  · rw [hs]; simp only [nresOf_append, g1]; rw [d2]; omega
  · rw [hs]; simp only [nresOf_append, g1, resOf_append]
    rw [d1]
    congr 2
    rw [Array.extract_append, hsz]
    simp [← hsz2]
    omega
  · rw [hs]; exact d6

/-! ## non-vacuity: the data `AC\nGT\n>b\n` read through 2-byte blocks, three residues at a time -/

def demoData : Bytes := #[65, 67, 10, 71, 84, 10, 62, 98, 10]

example : ((readNres (ParseFasta.openFasta demoData 2 0) {} 0 3).2.1.seq, (readNres (ParseFasta.openFasta demoData 2 0) {} 0 3).2.2) =
    (#[65, 67, 71], Status.ok, 3) := by decide +kernel

example : (splitRes (inmapFasta 0) demoData.toList 3, splitRes (inmapFasta 0) demoData.toList 5) =
    (([65, 67, 10, 71], [84, 10, 62, 98, 10]), ([65, 67, 10, 71, 84, 10], [62, 98, 10])) := by decide +kernel

/-- the hypotheses of `readNres_zero_spec` hold for the handle `esl_sqfile_Open` returns on `demoData` (block size 2) -/
example : (readNres (ParseFasta.openFasta demoData 2 0) {} 0 3).2.2.2 =
    nresOf (inmapFasta 0) (splitRes (inmapFasta 0) demoData.toList 3).1 := by
  obtain ⟨R, hff, hi, _⟩ := ParseFasta.openFasta_ready demoData 2 0 (by decide) (by decide)
  have hclean : Clean (ParseFasta.openFasta demoData 2 0).inmap (fileFrom (ParseFasta.openFasta demoData 2 0)) := by
    rw [hi, hff]
    intro c t h
    have e : demoData.toList.dropWhile (isData (inmapFasta 0)) = [62, 98, 10] := by decide +kernel
    rw [e] at h
    have hc : c = 62 := ((List.cons.inj h).1).symm
    subst hc
    decide +kernel
  have key := (readNres_zero_spec (ParseFasta.openFasta demoData 2 0) {} 3 (by decide) R.cur.wf R.cur.tok R.hm R.eofOk
    (by show MapOk _ (ParseFasta.openFasta demoData 2 0).inmap; exact MapOk.self _ R.hm) hclean (by decide)).2.1
  rw [hi, hff] at key
  exact key

example : ((readNres (ParseFasta.openFasta demoData 2 0) {} 1 3).2.1.seq, (readNres (ParseFasta.openFasta demoData 2 0) {} 1 3).2.2) =
    (#[67, 71, 84], Status.ok, 3) := by decide +kernel

/-- the extra hypothesis of `readNres_skip_spec` / `readNres_spec` on that handle: skipping 1 residue, 4 are to be had -/
example : 1 < nresOf (inmapFasta 0) (splitRes (inmapFasta 0) demoData.toList (1 + 3)).1 := by decide +kernel

end EaselModel.Sqio.WindowSpec
