import EaselModel.Sqio.LineSpec
import EaselModel.Sqio.BodySpec
/-! # The EMBL / UniProt / GenBank / DDBJ readers are block-size independent (C04, line-based formats) -/
namespace EaselModel.Sqio.EmblSpec
open EaselModel.Sqio EaselModel.Sqio.LineSpec

/-! ## the buffer scanners see the handle only through `bufGet`, `nc` and `inmap` -/

theorem seebufLoop_congr (a b : Ascii) (hnc : a.nc = b.nc) (hin : a.inmap = b.inmap)
    (hg : ∀ i, i < a.nc → a.bufGet i = b.bufGet i) (maxn bpos nres nres2 le1 : Nat) (trk : Track) (ln : Int) :
    seebufLoop a maxn bpos nres nres2 le1 trk ln = seebufLoop b maxn bpos nres nres2 le1 trk ln := by
  fun_induction seebufLoop a maxn bpos nres nres2 le1 trk ln
  case case10 =>
    rename_i h
    conv => rhs; rw [seebufLoop]
    rw [hnc] at h
    simp only [h, dite_false]
  all_goals (
    have h := ‹_ < maxn ∧ _ < a.nc›
    have hb := h
    rw [hnc] at hb
    have hgb := (hg _ h.2).symm
    have hin' := hin.symm
    clear hg hin
    conv => rhs; rw [seebufLoop]
    simp only [hb, and_self, dite_true, hgb, hin']
    first
      | (simp only [*, if_true, if_false, Bool.false_eq_true]; done)
      | (simp only [*, if_true, if_false]; simp only [dite_eq_ite] at *; assumption))

/-! ## simulation: what preserves `LSim` -/

/-- the fields `LWF` talks about -/
def geoL (a : Ascii) : Bool × Int × Nat × Nat × Bytes × Nat × Nat × Int × Int × Nat × Bytes :=
  (a.linebased, a.recording, a.B, a.fpos, a.file, a.mn, a.mpos, a.moff, a.boff, a.nc, a.line)

theorem LWF_of_geoL {a b : Ascii} (h : geoL b = geoL a) (w : LWF a) : LWF b := by
  simp only [geoL, Prod.mk.injEq] at h
  obtain ⟨h1, h2, h3, h4, h5, h6, h7, h8, h9, h10, h11⟩ := h
  exact ⟨by rw [h1]; exact w.lb, by rw [h2]; exact w.norec, by rw [h3]; exact w.bpos1, by rw [h4, h5]; exact w.fposLe,
    by rw [h7, h6]; exact w.mposLe, by rw [h7, h6, h8, h4]; exact w.mem, by rw [h9, h10, h7, h6, h8, h4]; exact w.next,
    by rw [h11, h5, h9, h10]; exact w.lineEq, by rw [h9]; exact w.boff0⟩

/-- updating, on both sides, fields that are not block / line bookkeeping -/
theorem lsim_upd {a1 a2 b1 b2 : Ascii} (h : LSim a1 a2) (g1 : geoL b1 = geoL a1) (g2 : geoL b2 = geoL a2)
    (hk : keepP b1 = keepP b2) (hb : b1.bpos = b2.bpos) : LSim b1 b2 := by
  have e1 := g1; have e2 := g2
  simp only [geoL, Prod.mk.injEq] at e1 e2
  obtain ⟨_, _, _, _, _, _, _, _, x9, x10, x11⟩ := e1
  obtain ⟨_, _, _, _, _, _, _, _, y9, y10, y11⟩ := e2
  exact ⟨LWF_of_geoL g1 h.w1, LWF_of_geoL g2 h.w2, hk, by rw [x9, y9, h.boff], by rw [x10, y10, h.nc], by rw [x11, y11, h.line], hb⟩

theorem keepP_fields {a b : Ascii} (h : keepP a = keepP b) :
    a.file = b.file ∧ a.L = b.L ∧ a.linenumber = b.linenumber ∧ a.trk = b.trk ∧ a.inmap = b.inmap ∧ a.fmt = b.fmt ∧ a.abc = b.abc ∧
    a.eofIsOk = b.eofIsOk ∧ a.haveErr = b.haveErr ∧ a.exc = b.exc ∧ a.bookmarkOff = b.bookmarkOff ∧
    a.bookmarkLine = b.bookmarkLine ∧ a.linebased = b.linebased := by
  simp only [keepP, Prod.mk.injEq] at h
  exact h

theorem fail_lsim {a1 a2 : Ascii} (h : LSim a1 a2) : LSim a1.fail a2.fail := by
  obtain ⟨k1, k2, k3, k4, k5, k6, k7, k8, k9, k10, k11, k12, k13⟩ := keepP_fields h.keep
  refine lsim_upd h rfl rfl ?_ h.bpos
  simp only [keepP, Ascii.fail, k1, k2, k3, k4, k5, k6, k7, k8, k10, k11, k12, k13]

theorem fuelOf_lsim {a1 a2 : Ascii} (h : LSim a1 a2) : fuelOf a1 = fuelOf a2 := by
  have := (keepP_fields h.keep).1
  simp only [fuelOf, this]

theorem skipLinesWhile_lsim (cond : Bytes → Bool) (fuel : Nat) : ∀ {a1 a2 : Ascii}, LSim a1 a2 →
    LSim (skipLinesWhile cond fuel a1).1 (skipLinesWhile cond fuel a2).1 ∧
    (skipLinesWhile cond fuel a1).2 = (skipLinesWhile cond fuel a2).2 := by
  induction fuel with
  | zero => intro a1 a2 h; exact ⟨h, rfl⟩
  | succ fuel ih =>
    intro a1 a2 h
    simp only [skipLinesWhile]
    rw [h.line]
    by_cases hc : cond a2.line = true
    · simp only [hc, if_true]
      obtain ⟨hs, he⟩ := loadbuf_lsim h
      generalize loadbuf a1 = r1 at hs he
      generalize loadbuf a2 = r2 at hs he
      obtain ⟨b1, s1⟩ := r1
      obtain ⟨b2, s2⟩ := r2
      simp only at hs he ⊢
      subst he
      by_cases hk : (s1 != Status.ok) = true
      · simp only [hk, if_true]; exact ⟨hs, trivial⟩
      · simp only [hk]; exact ih hs
    · simp only [hc]; exact ⟨h, rfl⟩

/-- results of the header / record readers: same handle up to block bookkeeping, same `ESL_SQ`, same status -/
def Rel3 (r1 r2 : Ascii × Sq × Status) : Prop := LSim r1.1 r2.1 ∧ r1.2 = r2.2

theorem emblScan_lsim (parse : Bool) (fuel : Nat) : ∀ {a1 a2 : Ascii} (sq : Sq), LSim a1 a2 →
    Rel3 (emblScan parse fuel a1 sq) (emblScan parse fuel a2 sq) := by
  induction fuel with
  | zero => intro a1 a2 sq h; exact ⟨h, rfl⟩
  | succ fuel ih =>
    intro a1 a2 sq h
    simp only [emblScan]
    obtain ⟨hs, he⟩ := loadbuf_lsim h
    generalize loadbuf a1 = r1 at hs he
    generalize loadbuf a2 = r2 at hs he
    obtain ⟨b1, s1⟩ := r1
    obtain ⟨b2, s2⟩ := r2
    simp only at hs he ⊢
    subst he
    rw [hs.line, hs.nc]
    have hf := fail_lsim hs
    repeat' split
    all_goals first
      | exact ⟨hs, rfl⟩
      | exact ⟨hf, rfl⟩
      | exact ih _ hs

/-- the common tail of `header_embl` / `header_genbank`: after the scan to the `SQ` / `ORIGIN` line, load the first data line -/
def hdrTail (r : Ascii × Sq × Status) : Ascii × Sq × Status :=
  if r.2.2 != .ok then r else
  if (loadbuf r.1).2 == .fault then ((loadbuf r.1).1, r.2.1, .fault) else
  if (loadbuf r.1).2 != .ok then ((loadbuf r.1).1.fail, r.2.1, .eformat) else
  ((loadbuf r.1).1, { r.2.1 with hoff := (loadbuf r.1).1.boff - 1, doff := (loadbuf r.1).1.boff }, .ok)

theorem hdrTail_lsim {r1 r2 : Ascii × Sq × Status} (h : Rel3 r1 r2) : Rel3 (hdrTail r1) (hdrTail r2) := by
  obtain ⟨a1, q1, s1⟩ := r1
  obtain ⟨a2, q2, s2⟩ := r2
  obtain ⟨hs, he⟩ := h
  simp only at hs he
  obtain ⟨rfl, rfl⟩ := Prod.mk.inj he
  obtain ⟨hl, hst⟩ := loadbuf_lsim hs
  unfold hdrTail
  simp only []
  rw [hst, hl.boff]
  have hf := fail_lsim hl
  repeat' split
  all_goals first
    | exact ⟨hs, rfl⟩
    | exact ⟨hl, rfl⟩
    | exact ⟨hf, rfl⟩

/-- `header_embl` after the blank lines were skipped -/
def emblId (parse : Bool) (a : Ascii) (sq : Sq) : Ascii × Sq × Status :=
  if !hasPrefix a.line "ID   " then (a.fail, sq, .eformat) else
  match (if parse then
      match strtok (cstrFrom a.line 5) [32, 59] with
      | none => none
      | some tok => some { sq with name := tok }
    else some sq : Option Sq) with
  | none => (a.fail, sq, .eformat)
  | some sq =>
    hdrTail (emblScan parse (fuelOf a) a
      (if parse then { sq with roff := a.boff } else { { sq with roff := a.boff } with name := #[], acc := #[], desc := #[] }))

/-- closes `(let (a, sq, st) := e; if st != ok … let (a, st) := loadbuf a …) = hdrTail e` after `e` is generalized -/
macro "hdr_tail_tac" e:ident : tactic => `(tactic| (
  obtain ⟨x, y, z⟩ := $e:ident
  unfold hdrTail
  simp only []))

theorem headerEmbl_eq (parse : Bool) (a : Ascii) (sq : Sq) : headerEmbl parse a sq =
    if a.nc == 0 then (a, sq, .eof) else
    if (skipLinesWhile isBlankStr (fuelOf a) a).2 != .ok then
      ((skipLinesWhile isBlankStr (fuelOf a) a).1, sq, (skipLinesWhile isBlankStr (fuelOf a) a).2)
    else emblId parse (skipLinesWhile isBlankStr (fuelOf a) a).1 sq := by
  unfold headerEmbl emblId
  by_cases h0 : (a.nc == 0) = true
  · simp only [h0, if_true]
  · simp only [h0, Bool.false_eq_true, if_false]
    generalize skipLinesWhile isBlankStr (fuelOf a) a = r
    obtain ⟨b, st⟩ := r
    simp only []
    by_cases hst : (st != Status.ok) = true
    · simp only [hst, if_true]
    · simp only [hst, Bool.false_eq_true, if_false]
      by_cases hid : (!hasPrefix b.line "ID   ") = true
      · simp only [hid, if_true]
      · simp only [hid, Bool.false_eq_true, if_false]
        cases parse
        · simp only [Bool.false_eq_true, if_false]
          generalize emblScan false (fuelOf b) b _ = e
          hdr_tail_tac e
        · simp only [if_true]
          cases hs : strtok (cstrFrom b.line 5) [32, 59] with
          | none => simp only []
          | some tok =>
            simp only []
            generalize emblScan true (fuelOf b) b _ = e
            hdr_tail_tac e

theorem emblId_lsim (parse : Bool) {a1 a2 : Ascii} (sq : Sq) (h : LSim a1 a2) : Rel3 (emblId parse a1 sq) (emblId parse a2 sq) := by
  unfold emblId
  rw [h.line, h.boff, fuelOf_lsim h]
  have hf := fail_lsim h
  repeat' split
  all_goals first
    | exact ⟨hf, rfl⟩
    | exact hdrTail_lsim (emblScan_lsim parse _ _ h)

theorem headerEmbl_lsim (parse : Bool) {a1 a2 : Ascii} (sq : Sq) (h : LSim a1 a2) :
    Rel3 (headerEmbl parse a1 sq) (headerEmbl parse a2 sq) := by
  rw [headerEmbl_eq, headerEmbl_eq, h.nc, fuelOf_lsim h]
  obtain ⟨hs, he⟩ := skipLinesWhile_lsim isBlankStr (fuelOf a2) h
  generalize skipLinesWhile isBlankStr (fuelOf a2) a1 = r1 at hs he
  generalize skipLinesWhile isBlankStr (fuelOf a2) a2 = r2 at hs he
  obtain ⟨b1, s1⟩ := r1
  obtain ⟨b2, s2⟩ := r2
  simp only at hs he ⊢
  subst he
  repeat' split
  all_goals first
    | exact ⟨h, rfl⟩
    | exact ⟨hs, rfl⟩
    | exact emblId_lsim parse sq hs

/-- **`header_embl` / `skip_embl` are block-size independent**: from two handles on the same file standing on the same line —
    whatever their block sizes `B₁, B₂ ≥ 1` — the same status, the same `ESL_SQ` (name, accession, description, `roff`, `hoff`,
    `doff`), and the two handles again stand on the same line. -/
theorem headerEmbl_block_size_independent (parse : Bool) (a1 a2 : Ascii) (sq : Sq) (h : LSim a1 a2) :
    (headerEmbl parse a1 sq).2.2 = (headerEmbl parse a2 sq).2.2 ∧ (headerEmbl parse a1 sq).2.1 = (headerEmbl parse a2 sq).2.1 ∧
    LSim (headerEmbl parse a1 sq).1 (headerEmbl parse a2 sq).1 := by
  obtain ⟨h1, h2⟩ := headerEmbl_lsim parse sq h
  exact ⟨congrArg Prod.snd h2, congrArg Prod.fst h2, h1⟩

/-! ## GenBank / DDBJ header -/

theorem genbankScan_lsim (parse : Bool) (fuel : Nat) : ∀ {a1 a2 : Ascii} (sq : Sq), LSim a1 a2 →
    Rel3 (genbankScan parse fuel a1 sq) (genbankScan parse fuel a2 sq) := by
  induction fuel with
  | zero => intro a1 a2 sq h; exact ⟨h, rfl⟩
  | succ fuel ih =>
    intro a1 a2 sq h
    simp only [genbankScan]
    obtain ⟨hs, he⟩ := loadbuf_lsim h
    generalize loadbuf a1 = r1 at hs he
    generalize loadbuf a2 = r2 at hs he
    obtain ⟨b1, s1⟩ := r1
    obtain ⟨b2, s2⟩ := r2
    simp only at hs he ⊢
    subst he
    rw [hs.line, hs.nc]
    have hf := fail_lsim hs
    repeat' split
    all_goals first
      | exact ⟨hs, rfl⟩
      | exact ⟨hf, rfl⟩
      | exact ih _ hs

/-- `header_genbank` after the lines before `LOCUS` were skipped -/
def gbLocus (parse : Bool) (a : Ascii) (sq : Sq) : Ascii × Sq × Status :=
  match (if parse then
      if a.nc < 12 then none else
      match strtok (cstrFrom a.line 12) [32] with
      | none => none
      | some tok => some { sq with name := tok }
    else some sq : Option Sq) with
  | none => (a.fail, sq, .eformat)
  | some sq =>
    hdrTail (genbankScan parse (fuelOf a) a
      (if parse then { sq with roff := a.boff } else { { sq with roff := a.boff } with name := #[], acc := #[], desc := #[] }))

theorem headerGenbank_eq (parse : Bool) (a : Ascii) (sq : Sq) : headerGenbank parse a sq =
    if a.nc == 0 then (a, sq, .eof) else
    if (skipLinesWhile (fun l => !hasPrefix l "LOCUS   ") (fuelOf a) a).2 != .ok then
      ((skipLinesWhile (fun l => !hasPrefix l "LOCUS   ") (fuelOf a) a).1, sq,
       (skipLinesWhile (fun l => !hasPrefix l "LOCUS   ") (fuelOf a) a).2)
    else gbLocus parse (skipLinesWhile (fun l => !hasPrefix l "LOCUS   ") (fuelOf a) a).1 sq := by
  unfold headerGenbank gbLocus
  by_cases h0 : (a.nc == 0) = true
  · simp only [h0, if_true]
  · simp only [h0, Bool.false_eq_true, if_false]
    generalize skipLinesWhile (fun l => !hasPrefix l "LOCUS   ") (fuelOf a) a = r
    obtain ⟨b, st⟩ := r
    simp only []
    by_cases hst : (st != Status.ok) = true
    · simp only [hst, if_true]
    · simp only [hst, Bool.false_eq_true, if_false]
      cases parse
      · simp only [Bool.false_eq_true, if_false]
        generalize genbankScan false (fuelOf b) b _ = e
        hdr_tail_tac e
      · simp only [if_true]
        by_cases h12 : b.nc < 12
        · simp only [h12, if_true]
        · simp only [h12, if_false]
          cases hs : strtok (cstrFrom b.line 12) [32] with
          | none => simp only []
          | some tok =>
            simp only []
            generalize genbankScan true (fuelOf b) b _ = e
            hdr_tail_tac e

theorem gbLocus_lsim (parse : Bool) {a1 a2 : Ascii} (sq : Sq) (h : LSim a1 a2) : Rel3 (gbLocus parse a1 sq) (gbLocus parse a2 sq) := by
  unfold gbLocus
  rw [h.line, h.boff, h.nc, fuelOf_lsim h]
  have hf := fail_lsim h
  repeat' split
  all_goals first
    | exact ⟨hf, rfl⟩
    | exact hdrTail_lsim (genbankScan_lsim parse _ _ h)

theorem headerGenbank_lsim (parse : Bool) {a1 a2 : Ascii} (sq : Sq) (h : LSim a1 a2) :
    Rel3 (headerGenbank parse a1 sq) (headerGenbank parse a2 sq) := by
  rw [headerGenbank_eq, headerGenbank_eq, h.nc, fuelOf_lsim h]
  obtain ⟨hs, he⟩ := skipLinesWhile_lsim (fun l => !hasPrefix l "LOCUS   ") (fuelOf a2) h
  generalize skipLinesWhile (fun l => !hasPrefix l "LOCUS   ") (fuelOf a2) a1 = r1 at hs he
  generalize skipLinesWhile (fun l => !hasPrefix l "LOCUS   ") (fuelOf a2) a2 = r2 at hs he
  obtain ⟨b1, s1⟩ := r1
  obtain ⟨b2, s2⟩ := r2
  simp only at hs he ⊢
  subst he
  repeat' split
  all_goals first
    | exact ⟨h, rfl⟩
    | exact ⟨hs, rfl⟩
    | exact gbLocus_lsim parse sq hs

/-- **`header_genbank` / `skip_genbank` are block-size independent** -/
theorem headerGenbank_block_size_independent (parse : Bool) (a1 a2 : Ascii) (sq : Sq) (h : LSim a1 a2) :
    (headerGenbank parse a1 sq).2.2 = (headerGenbank parse a2 sq).2.2 ∧
    (headerGenbank parse a1 sq).2.1 = (headerGenbank parse a2 sq).2.1 ∧
    LSim (headerGenbank parse a1 sq).1 (headerGenbank parse a2 sq).1 := by
  obtain ⟨h1, h2⟩ := headerGenbank_lsim parse sq h
  exact ⟨congrArg Prod.snd h2, congrArg Prod.fst h2, h1⟩

/-! ## the data lines -/

theorem addbufLoop_congr (a b : Ascii) (hnc : a.nc = b.nc) (hg : ∀ i, i < a.nc → a.bufGet i = b.bufGet i)
    (map : Bytes) (digital : Bool) (salloc nres bpos : Nat) (seq : Bytes) :
    addbufLoop a map digital salloc nres bpos seq = addbufLoop b map digital salloc nres bpos seq := by
  fun_induction addbufLoop a map digital salloc nres bpos seq
  case case1 =>
    rename_i h
    conv => rhs; rw [addbufLoop]
    simp only [h, if_true]
  case case7 =>
    rename_i h1 h
    rw [hnc] at h
    conv => rhs; rw [addbufLoop]
    simp only [h1, h, dite_false, Bool.false_eq_true, if_false]
  all_goals (
    have h := ‹_ < a.nc›
    have hb := h
    rw [hnc] at hb
    have hgb := (hg _ h).symm
    clear hg
    conv => rhs; rw [addbufLoop]
    simp only [hb, dite_true, hgb]
    try simp only [dite_eq_ite] at *
    first
      | (simp only [*, if_true, if_false, Bool.false_eq_true]; done)
      | (simp only [*, if_true, if_false, Bool.false_eq_true]; assumption))

theorem bufGet_lsim {a1 a2 : Ascii} (h : LSim a1 a2) (i : Nat) (hi : i < a1.nc) : a1.bufGet i = a2.bufGet i := by
  have hi2 : i < a2.nc := by rw [← h.nc]; exact hi
  simp only [Ascii.bufGet, h.w1.lb, h.w2.lb, if_true, hi, hi2, h.line]

theorem seebuf_lsim {a1 a2 : Ascii} (h : LSim a1 a2) (m : Option Nat) :
    LSim (seebuf a1 m).1 (seebuf a2 m).1 ∧ (seebuf a1 m).2 = (seebuf a2 m).2 := by
  obtain ⟨k1, k2, k3, k4, k5, k6, k7, k8, k9, k10, k11, k12, k13⟩ := keepP_fields h.keep
  have key : ∀ mx1 mx2 : Nat, mx1 = mx2 → seebufLoop a1 mx1 a1.bpos 0 0 a1.bpos a1.trk a1.linenumber =
      seebufLoop a2 mx2 a2.bpos 0 0 a2.bpos a2.trk a2.linenumber := by
    intro mx1 mx2 e
    rw [e, h.bpos, k4, k3]
    exact seebufLoop_congr a1 a2 h.nc k5 (fun i hi => bufGet_lsim h i hi) _ _ _ _ _ _ _
  cases m with
  | none =>
    unfold seebuf
    simp only []
    rw [key a1.nc a2.nc h.nc]
    generalize seebufLoop a2 a2.nc a2.bpos 0 0 a2.bpos a2.trk a2.linenumber = r
    obtain ⟨st, failed, bp, nr, nr2, le, tk, l⟩ := r
    simp only []
    split
    · refine ⟨lsim_upd h rfl rfl ?_ h.bpos, rfl⟩
      simp only [keepP, k1, k2, k5, k6, k7, k8, k9, k10, k11, k12, k13]
    · refine ⟨lsim_upd h rfl rfl ?_ h.bpos, rfl⟩
      simp only [keepP, k1, k2, k5, k6, k7, k8, k9, k10, k11, k12, k13]
  | some m =>
    unfold seebuf
    simp only []
    rw [key m m rfl]
    generalize seebufLoop a2 m a2.bpos 0 0 a2.bpos a2.trk a2.linenumber = r
    obtain ⟨st, failed, bp, nr, nr2, le, tk, l⟩ := r
    simp only []
    split
    · refine ⟨lsim_upd h rfl rfl ?_ h.bpos, rfl⟩
      simp only [keepP, k1, k2, k5, k6, k7, k8, k9, k10, k11, k12, k13]
    · refine ⟨lsim_upd h rfl rfl ?_ h.bpos, rfl⟩
      simp only [keepP, k1, k2, k5, k6, k7, k8, k9, k10, k11, k12, k13]

theorem addbuf_lsim {a1 a2 : Ascii} (h : LSim a1 a2) (sq : Sq) (n : Nat) :
    LSim (addbuf a1 sq n).1 (addbuf a2 sq n).1 ∧ (addbuf a1 sq n).2 = (addbuf a2 sq n).2 := by
  obtain ⟨k1, k2, k3, k4, k5, k6, k7, k8, k9, k10, k11, k12, k13⟩ := keepP_fields h.keep
  rw [BodySpec.addbuf_eq, BodySpec.addbuf_eq, k5, h.bpos,
    addbufLoop_congr a1 a2 h.nc (fun i hi => bufGet_lsim h i hi)]
  refine ⟨lsim_upd h rfl rfl ?_ rfl, rfl⟩
  simp only [keepP, k1, k2, k3, k4, k6, k7, k8, k9, k10, k11, k12, k13]

theorem setL_lsim {a1 a2 : Ascii} (h : LSim a1 a2) (x : Int) : LSim { a1 with L := x } { a2 with L := x } := by
  obtain ⟨k1, k2, k3, k4, k5, k6, k7, k8, k9, k10, k11, k12, k13⟩ := keepP_fields h.keep
  refine lsim_upd h rfl rfl ?_ h.bpos
  simp only [keepP, k1, k3, k4, k5, k6, k7, k8, k9, k10, k11, k12, k13]

theorem setBpos_lsim {a1 a2 : Ascii} (h : LSim a1 a2) (x : Nat) : LSim { a1 with bpos := x } { a2 with bpos := x } :=
  lsim_upd h rfl rfl h.keep rfl

theorem endEmbl_lsim {a1 a2 : Ascii} (sq : Sq) (h : LSim a1 a2) : Rel3 (endEmbl a1 sq) (endEmbl a2 sq) := by
  unfold endEmbl
  rw [h.line, h.boff, h.nc]
  obtain ⟨hs, he⟩ := loadbuf_lsim h
  generalize loadbuf a1 = r1 at hs he
  generalize loadbuf a2 = r2 at hs he
  obtain ⟨b1, s1⟩ := r1
  obtain ⟨b2, s2⟩ := r2
  simp only at hs he ⊢
  subst he
  have hf := fail_lsim h
  repeat' split
  all_goals first
    | exact ⟨hf, rfl⟩
    | exact ⟨hs, rfl⟩

theorem scanStep_lsim {a1 a2 : Ascii} (h : LSim a1 a2) (sq : Sq) :
    LSim (scanStep true a1 sq).1 (scanStep true a2 sq).1 ∧ (scanStep true a1 sq).2 = (scanStep true a2 sq).2 := by
  rw [BodySpec.scanStep_true, BodySpec.scanStep_true]
  unfold BodySpec.adOf
  obtain ⟨hs, he⟩ := seebuf_lsim h none
  rw [he]
  generalize (seebuf a1 none).1 = b1 at hs
  generalize seebuf a2 none = s2 at hs
  obtain ⟨b2, see⟩ := s2
  simp only at hs ⊢
  obtain ⟨ha, hae⟩ := addbuf_lsim hs (sq.growTo (sq.n + see.nres)) see.nres
  rw [hae]
  generalize (addbuf b1 (sq.growTo (sq.n + see.nres)) see.nres).1 = c1 at ha
  generalize addbuf b2 (sq.growTo (sq.n + see.nres)) see.nres = ad2 at ha
  obtain ⟨c2, sq2, stA⟩ := ad2
  simp only at ha ⊢
  have hL : c1.L = c2.L := (keepP_fields ha.keep).2.1
  rw [hL]
  have hl := setL_lsim ha (c2.L + (see.nres : Int))
  obtain ⟨hb, hbe⟩ := loadbuf_lsim hl
  rw [hbe]
  have hbo := ha.boff
  repeat' split
  all_goals first
    | exact ⟨hs, rfl⟩
    | exact ⟨ha, rfl⟩
    | exact ⟨hl, by simp only [hbo]⟩
    | exact ⟨hb, by simp only [hbo]⟩

theorem scanLoop_lsim (fuel : Nat) : ∀ {a1 a2 : Ascii} (sq : Sq), LSim a1 a2 →
    LSim (scanLoop true fuel a1 sq).1 (scanLoop true fuel a2 sq).1 ∧ (scanLoop true fuel a1 sq).2 = (scanLoop true fuel a2 sq).2 := by
  induction fuel with
  | zero => intro a1 a2 sq h; exact ⟨h, rfl⟩
  | succ fuel ih =>
    intro a1 a2 sq h
    rw [DataScan.scanLoop_succ, DataScan.scanLoop_succ]
    obtain ⟨hs, he⟩ := scanStep_lsim h sq
    rw [he]
    generalize (scanStep true a1 sq).1 = b1 at hs
    generalize scanStep true a2 sq = r2 at hs
    obtain ⟨b2, q, st, ep, go⟩ := r2
    simp only at hs ⊢
    cases go
    · exact ⟨hs, rfl⟩
    · exact ih q hs

theorem bufGet_cur_lsim {a1 a2 : Ascii} (h : LSim a1 a2) (hlt : a1.bpos < a1.nc) : a1.bufGet a1.bpos = a2.bufGet a2.bpos := by
  rw [bufGet_lsim h a1.bpos hlt, h.bpos]

theorem bumpBpos_lsim {a1 a2 : Ascii} (h : LSim a1 a2) : LSim { a1 with bpos := a1.bpos + 1 } { a2 with bpos := a2.bpos + 1 } :=
  lsim_upd h rfl rfl h.keep (by show a1.bpos + 1 = a2.bpos + 1; rw [h.bpos])

theorem endFasta_lsim {a1 a2 : Ascii} (sq : Sq) (h : LSim a1 a2) : Rel3 (endFasta a1 sq) (endFasta a2 sq) := by
  unfold endFasta
  have hf := fail_lsim h
  have hbo := h.boff
  have hbp := h.bpos
  by_cases hlt : a1.bpos < a1.nc
  · have hlt2 : a2.bpos < a2.nc := by rw [← h.bpos, ← h.nc]; exact hlt
    rw [bufGet_cur_lsim h hlt]
    simp only [hlt, hlt2, if_true]
    repeat' split
    all_goals first
      | exact ⟨h, rfl⟩
      | exact ⟨hf, rfl⟩
      | exact ⟨h, by simp only [hbo, hbp]⟩
  · have hlt2 : ¬ a2.bpos < a2.nc := by rw [← h.bpos, ← h.nc]; exact hlt
    simp only [hlt, hlt2, if_false]
    exact ⟨h, by first | rfl | trivial⟩

theorem endDaemonSkip_lsim (p : UInt8 → Bool) (fuel : Nat) : ∀ {a1 a2 : Ascii}, LSim a1 a2 →
    LSim (endDaemonSkip p fuel a1).1 (endDaemonSkip p fuel a2).1 ∧ (endDaemonSkip p fuel a1).2 = (endDaemonSkip p fuel a2).2 := by
  induction fuel with
  | zero => intro a1 a2 h; exact ⟨h, rfl⟩
  | succ fuel ih =>
    intro a1 a2 h
    simp only [endDaemonSkip]
    by_cases hlt : a1.bpos < a1.nc
    · have hlt2 : a2.bpos < a2.nc := by rw [← h.bpos, ← h.nc]; exact hlt
      rw [bufGet_cur_lsim h hlt]
      simp only [hlt, hlt2, if_true]
      have hb := bumpBpos_lsim h
      repeat' split
      all_goals first
        | exact ⟨h, rfl⟩
        | exact ih hb
    · have hlt2 : ¬ a2.bpos < a2.nc := by rw [← h.bpos, ← h.nc]; exact hlt
      simp only [hlt, hlt2, if_false]
      exact ⟨h, by first | rfl | trivial⟩

/-! ## the format code is kept, so the end-of-record parser of a line-based format stays `end_embl` -/

theorem lsim_refl {a : Ascii} (w : LWF a) : LSim a a := ⟨w, w, rfl, rfl, rfl, rfl, rfl⟩

theorem keepL_fmt {a b : Ascii} (h : keepL a = keepL b) : a.fmt = b.fmt := congrArg (fun t => t.2.2.2.2.2.2.1) h

theorem scanStep_fmt (a : Ascii) (w : LWF a) (sq : Sq) : (scanStep true a sq).1.fmt = a.fmt ∧ LWF (scanStep true a sq).1 := by
  refine ⟨?_, (scanStep_lsim (lsim_refl w) sq).1.w1⟩
  have hsee := (seebuf_lsim (lsim_refl w) none).1.w1
  have f1 : (seebuf a none).1.fmt = a.fmt := (DataScan.seebuf_same a none).2.2.2.2.1
  have had := (addbuf_lsim (lsim_refl hsee) (sq.growTo (sq.n + (seebuf a none).2.nres)) (seebuf a none).2.nres).1.w1
  have f2 : (BodySpec.adOf a sq).1.fmt = a.fmt := by
    unfold BodySpec.adOf
    rw [BodySpec.addbuf_eq]
    exact f1
  have hl : LWF { (BodySpec.adOf a sq).1 with L := (BodySpec.adOf a sq).1.L + (seebuf a none).2.nres } :=
    (setL_lsim (lsim_refl had) _).w1
  have f3 : (loadbuf { (BodySpec.adOf a sq).1 with L := (BodySpec.adOf a sq).1.L + (seebuf a none).2.nres }).1.fmt = a.fmt := by
    rw [keepL_fmt (loadbuf_line _ hl).2.1]
    exact f2
  rw [BodySpec.scanStep_true]
  repeat' split
  all_goals first
    | exact f1
    | exact f2
    | exact f3

theorem scanLoop_fmt (fuel : Nat) : ∀ (a : Ascii) (sq : Sq), LWF a → (scanLoop true fuel a sq).1.fmt = a.fmt := by
  induction fuel with
  | zero => intro a sq _; rfl
  | succ fuel ih =>
    intro a sq w
    obtain ⟨f, w'⟩ := scanStep_fmt a w sq
    rw [DataScan.scanLoop_succ]
    split
    · rw [ih _ _ w', f]
    · exact f

theorem parseEnd_line (a : Ascii) (sq : Sq) (h : a.fmt = 2 ∨ a.fmt = 3 ∨ a.fmt = 4 ∨ a.fmt = 5) : parseEnd a sq = endEmbl a sq := by
  unfold parseEnd
  rcases h with h | h | h | h <;> simp [h]

/-! ## `end_daemon` (not a line-based format, but `parseEnd` dispatches on the format code) -/

def dmP1 : UInt8 → Bool := fun c => c != chNl && c != chCr
def dmP2 : UInt8 → Bool := fun c => c == chNl || c == chCr

def dmTail (a : Ascii) (sq : Sq) : Ascii × Sq × Status :=
  if !(endDaemonSkip dmP1 (a.nc + 1) a).2 then ((endDaemonSkip dmP1 (a.nc + 1) a).1, sq, .fault) else
  if !(endDaemonSkip dmP2 ((endDaemonSkip dmP1 (a.nc + 1) a).1.nc + 1) (endDaemonSkip dmP1 (a.nc + 1) a).1).2 then
    ((endDaemonSkip dmP2 ((endDaemonSkip dmP1 (a.nc + 1) a).1.nc + 1) (endDaemonSkip dmP1 (a.nc + 1) a).1).1, sq, .fault)
  else ((endDaemonSkip dmP2 ((endDaemonSkip dmP1 (a.nc + 1) a).1.nc + 1) (endDaemonSkip dmP1 (a.nc + 1) a).1).1, sq, .ok)

def dm2 (a : Ascii) (sq : Sq) : Ascii × Sq × Status :=
  match a.bufGet a.bpos with
  | none => (a, sq, .fault)
  | some c2 =>
    if c2 != 47 then (({ a with bpos := a.bpos + 1 } : Ascii).fail, sq, .eformat) else dmTail { a with bpos := a.bpos + 1 } sq

def dm1 (a : Ascii) (sq : Sq) : Ascii × Sq × Status :=
  match a.bufGet a.bpos with
  | none => (a, sq, .fault)
  | some c1 =>
    if c1 != 47 then (({ a with bpos := a.bpos + 1 } : Ascii).fail, sq, .eformat) else dm2 { a with bpos := a.bpos + 1 } sq

theorem endDaemon_eq (a : Ascii) (sq : Sq) : endDaemon a sq =
    if a.nc < 3 then (a.fail, sq, .eformat) else
    if a.bpos + 2 > a.nc then (a.fail, sq, .eformat) else dm1 a sq := by
  unfold endDaemon dm1 dm2 dmTail
  rfl

theorem dmTail_lsim {a1 a2 : Ascii} (sq : Sq) (h : LSim a1 a2) : Rel3 (dmTail a1 sq) (dmTail a2 sq) := by
  unfold dmTail
  rw [h.nc]
  obtain ⟨s1, e1⟩ := endDaemonSkip_lsim dmP1 (a2.nc + 1) h
  rw [e1]
  generalize (endDaemonSkip dmP1 (a2.nc + 1) a1).1 = b1 at s1
  generalize endDaemonSkip dmP1 (a2.nc + 1) a2 = r2 at s1
  obtain ⟨b2, ok⟩ := r2
  simp only at s1 ⊢
  rw [s1.nc]
  obtain ⟨s2, e2⟩ := endDaemonSkip_lsim dmP2 (b2.nc + 1) s1
  rw [e2]
  repeat' split
  all_goals first
    | exact ⟨s1, rfl⟩
    | exact ⟨s2, rfl⟩

theorem dm2_lsim {a1 a2 : Ascii} (sq : Sq) (h : LSim a1 a2) (hlt : a1.bpos < a1.nc) : Rel3 (dm2 a1 sq) (dm2 a2 sq) := by
  unfold dm2
  rw [bufGet_cur_lsim h hlt]
  have hb := bumpBpos_lsim h
  have hf := fail_lsim hb
  repeat' split
  all_goals first
    | exact ⟨h, rfl⟩
    | exact ⟨hf, rfl⟩
    | exact dmTail_lsim sq hb

theorem dm1_lsim {a1 a2 : Ascii} (sq : Sq) (h : LSim a1 a2) (hlt : a1.bpos + 1 < a1.nc) : Rel3 (dm1 a1 sq) (dm1 a2 sq) := by
  unfold dm1
  rw [bufGet_cur_lsim h (by omega)]
  have hb := bumpBpos_lsim h
  have hf := fail_lsim hb
  repeat' split
  all_goals first
    | exact ⟨h, rfl⟩
    | exact ⟨hf, rfl⟩
    | exact dm2_lsim sq hb hlt

theorem endDaemon_lsim {a1 a2 : Ascii} (sq : Sq) (h : LSim a1 a2) : Rel3 (endDaemon a1 sq) (endDaemon a2 sq) := by
  rw [endDaemon_eq, endDaemon_eq]
  have hf := fail_lsim h
  by_cases h3 : a1.nc < 3
  · have h3' : a2.nc < 3 := by rw [← h.nc]; exact h3
    simp only [h3, h3', if_true]
    exact ⟨hf, rfl⟩
  · have h3' : ¬ a2.nc < 3 := by rw [← h.nc]; exact h3
    simp only [h3, h3', if_false]
    by_cases h2 : a1.bpos + 2 > a1.nc
    · have h2' : a2.bpos + 2 > a2.nc := by rw [← h.nc, ← h.bpos]; exact h2
      simp only [h2, h2', if_true]
      exact ⟨hf, rfl⟩
    · have h2' : ¬ a2.bpos + 2 > a2.nc := by rw [← h.nc, ← h.bpos]; exact h2
      simp only [h2, h2', if_false]
      exact dm1_lsim sq h (by omega)

theorem parseEnd_lsim {a1 a2 : Ascii} (sq : Sq) (h : LSim a1 a2) : Rel3 (parseEnd a1 sq) (parseEnd a2 sq) := by
  unfold parseEnd
  rw [(keepP_fields h.keep).2.2.2.2.2.1]
  repeat' split
  all_goals first
    | exact endEmbl_lsim sq h
    | exact endDaemon_lsim sq h
    | exact endFasta_lsim sq h

/-! ## `readBody` and `sqascii_Read` -/

def bodyEnd (b : Ascii) (q : Sq) (st : Status) (ep : Nat) : Ascii × Sq × Status :=
  if st == .eof then (if !b.eofIsOk then (b.fail, q, Status.eformat) else parseEnd b q)
  else if st == .eod then parseEnd { b with bpos := ep } q
  else (b, q, st)

def bodyFin (r : Ascii × Sq × Status) : Ascii × Sq × Status :=
  if r.2.2 != .ok then r else if !r.2.1.termOk then (r.1, r.2.1, .fault) else (r.1, r.2.1.setWhole, .ok)

theorem readBody_eq (a : Ascii) (sq : Sq) : readBody a sq =
    if ((scanLoop true (fuelOf a) a sq).2.2.1 == .fault || (scanLoop true (fuelOf a) a sq).2.2.1 == .eformat) = true then
      ((scanLoop true (fuelOf a) a sq).1, (scanLoop true (fuelOf a) a sq).2.1, (scanLoop true (fuelOf a) a sq).2.2.1)
    else bodyFin (bodyEnd (scanLoop true (fuelOf a) a sq).1 (scanLoop true (fuelOf a) a sq).2.1
      (scanLoop true (fuelOf a) a sq).2.2.1 (scanLoop true (fuelOf a) a sq).2.2.2) := by
  unfold readBody bodyFin bodyEnd
  rfl

theorem bodyEnd_lsim {b1 b2 : Ascii} (q : Sq) (st : Status) (ep : Nat) (h : LSim b1 b2) :
    Rel3 (bodyEnd b1 q st ep) (bodyEnd b2 q st ep) := by
  unfold bodyEnd
  have hsb := setBpos_lsim h ep
  generalize ({ b1 with bpos := ep } : Ascii) = B1 at hsb ⊢
  generalize ({ b2 with bpos := ep } : Ascii) = B2 at hsb ⊢
  rw [(keepP_fields h.keep).2.2.2.2.2.2.2.1]
  have hf := fail_lsim h
  repeat' split
  all_goals first
    | exact ⟨h, rfl⟩
    | exact ⟨hf, rfl⟩
    | exact parseEnd_lsim q h
    | exact parseEnd_lsim q hsb

theorem bodyFin_lsim {r1 r2 : Ascii × Sq × Status} (h : Rel3 r1 r2) : Rel3 (bodyFin r1) (bodyFin r2) := by
  obtain ⟨a1, q1, s1⟩ := r1
  obtain ⟨a2, q2, s2⟩ := r2
  obtain ⟨hs, he⟩ := h
  simp only at hs he
  obtain ⟨rfl, rfl⟩ := Prod.mk.inj he
  unfold bodyFin
  simp only []
  repeat' split
  all_goals exact ⟨hs, rfl⟩

theorem readBody_lsim {a1 a2 : Ascii} (sq : Sq) (h : LSim a1 a2) : Rel3 (readBody a1 sq) (readBody a2 sq) := by
  rw [readBody_eq, readBody_eq, fuelOf_lsim h]
  obtain ⟨hs, he⟩ := scanLoop_lsim (fuelOf a2) sq h
  rw [he]
  generalize (scanLoop true (fuelOf a2) a1 sq).1 = b1 at hs
  generalize scanLoop true (fuelOf a2) a2 sq = r2 at hs
  obtain ⟨b2, q, st, ep⟩ := r2
  simp only at hs ⊢
  split
  · exact ⟨hs, rfl⟩
  · exact bodyFin_lsim (bodyEnd_lsim q st ep hs)

theorem read_eq (a : Ascii) (sq : Sq) : read a sq =
    if a.nc == 0 then (a, sq, .eof) else
    if (parseHeader a sq).2.2 != .ok then parseHeader a sq else readBody (parseHeader a sq).1 (parseHeader a sq).2.1 := rfl

theorem parseHeader_lsim {a1 a2 : Ascii} (sq : Sq) (h : LSim a1 a2) (hf : a1.fmt = 2 ∨ a1.fmt = 3 ∨ a1.fmt = 4 ∨ a1.fmt = 5) :
    Rel3 (parseHeader a1 sq) (parseHeader a2 sq) := by
  have hf2 := (keepP_fields h.keep).2.2.2.2.2.1
  unfold parseHeader
  rw [← hf2]
  rcases hf with k | k | k | k <;> simp only [k] <;> first
    | exact headerEmbl_lsim true sq h
    | exact headerGenbank_lsim true sq h

/-- **`sqascii_Read` on an EMBL / UniProt / GenBank / DDBJ file is block-size independent**: from two handles on the same file
    standing on the same line, whatever their block sizes, the same status and the same `ESL_SQ` (every field), and the two
    handles again stand on the same line. -/
theorem read_lsim {a1 a2 : Ascii} (sq : Sq) (h : LSim a1 a2) (hf : a1.fmt = 2 ∨ a1.fmt = 3 ∨ a1.fmt = 4 ∨ a1.fmt = 5) :
    Rel3 (read a1 sq) (read a2 sq) := by
  rw [read_eq, read_eq, h.nc]
  obtain ⟨hs, he⟩ := parseHeader_lsim sq h hf
  generalize parseHeader a1 sq = r1 at hs he
  generalize parseHeader a2 sq = r2 at hs he
  obtain ⟨b1, q1, s1⟩ := r1
  obtain ⟨b2, q2, s2⟩ := r2
  simp only at hs he ⊢
  obtain ⟨rfl, rfl⟩ := Prod.mk.inj he
  repeat' split
  all_goals first
    | exact ⟨h, rfl⟩
    | exact ⟨hs, rfl⟩
    | exact readBody_lsim q1 hs

theorem read_embl_block_size_independent (a1 a2 : Ascii) (sq : Sq) (h : LSim a1 a2)
    (hf : a1.fmt = 2 ∨ a1.fmt = 3 ∨ a1.fmt = 4 ∨ a1.fmt = 5) :
    (read a1 sq).2.2 = (read a2 sq).2.2 ∧ (read a1 sq).2.1 = (read a2 sq).2.1 ∧ LSim (read a1 sq).1 (read a2 sq).1 := by
  obtain ⟨h1, h2⟩ := read_lsim sq h hf
  exact ⟨congrArg Prod.snd h2, congrArg Prod.fst h2, h1⟩

/-! ## from `esl_sqfile_Open` on, and non-vacuity -/

/-- two handles opened on the same line-based file with block sizes `B₁, B₂ ≥ 1` stand on the same (first) line -/
theorem open_lsim (file : Bytes) (B1 B2 abc fmt : Nat) (eofOk : Bool) (inmap : Bytes) (h1 : 1 ≤ B1) (h2 : 1 ≤ B2) :
    LSim (loadbuf { file := file, B := B1, abc := abc, fmt := fmt, eofIsOk := eofOk, linebased := true, inmap := inmap }).1
      (loadbuf { file := file, B := B2, abc := abc, fmt := fmt, eofIsOk := eofOk, linebased := true, inmap := inmap }).1 ∧
    (loadbuf { file := file, B := B1, abc := abc, fmt := fmt, eofIsOk := eofOk, linebased := true, inmap := inmap }).2 =
      (loadbuf { file := file, B := B2, abc := abc, fmt := fmt, eofIsOk := eofOk, linebased := true, inmap := inmap }).2 := by
  apply loadbuf_lsim
  exact ⟨lwf_fresh _ rfl (by show (0 : Int) ≠ 1; omega) h1 rfl rfl rfl rfl rfl rfl,
    lwf_fresh _ rfl (by show (0 : Int) ≠ 1; omega) h2 rfl rfl rfl rfl rfl rfl, rfl, rfl, rfl, rfl, rfl⟩

/-- `ID   X\nSQ   \n     acgt\n//\n` -/
def demoE : Bytes := #[73, 68, 32, 32, 32, 88, 10, 83, 81, 32, 32, 32, 10, 32, 32, 32, 32, 32, 97, 99, 103, 116, 10, 47, 47, 10]

def readE (B : Nat) : Ascii × Sq × Status :=
  read (loadbuf { file := demoE, B := B, fmt := 2, linebased := true, inmap := inmapEmbl 0 }).1 {}

example : (readE 1).2.2 = .ok := by decide +kernel
example : (readE 1).2.1.name = #[88, 10] := by decide +kernel
example : (readE 1).2.1.seq = #[97, 99, 103, 116] := by decide +kernel
example : (readE 1).2.1.eoff = 25 := by decide +kernel
example : (readE 3).2.1.seq = (readE 1).2.1.seq := by decide +kernel
example : (readE 64).2.1.seq = (readE 1).2.1.seq := by decide +kernel

/-- the instance of `read_embl_block_size_independent` behind the evaluation above -/
example : (read (loadbuf { file := demoE, B := 1, fmt := 2, linebased := true, inmap := inmapEmbl 0 }).1 ({} : Sq)).2 =
    (read (loadbuf { file := demoE, B := 64, fmt := 2, linebased := true, inmap := inmapEmbl 0 }).1 ({} : Sq)).2 := by
  have h := (open_lsim demoE 1 64 0 2 false (inmapEmbl 0) (by decide) (by decide)).1
  have hf : (loadbuf { file := demoE, B := 1, abc := 0, fmt := 2, eofIsOk := false, linebased := true, inmap := inmapEmbl 0 }).1.fmt = 2 :=
    keepL_fmt (loadbuf_line _ (lwf_fresh _ rfl (by show (0 : Int) ≠ 1; omega) (by decide) rfl rfl rfl rfl rfl rfl)).2.1
  exact (read_lsim ({} : Sq) h (Or.inl hf)).2

end EaselModel.Sqio.EmblSpec
