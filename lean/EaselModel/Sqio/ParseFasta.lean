import EaselModel.Sqio.ReadSpec
import EaselModel.Sqio.DriverLogic
/-! # The whole FASTA reader = `parseFasta`, for every read-block size (C04 / C02 whole-reader refinement, layer iv)

`readAllM`: the client loop `while (esl_sqio_Read(sqfp, sq) == eslOK) { keep sq; esl_sq_Reuse(sq); }` on the model.
`parseAllL`: the same loop on the closed form `recL` over the list of file bytes — it does not mention the block size.
`readAll_spec`: they are equal from every ready handle; `read_all_eq_parseFasta`: from `esl_sqfile_Open` on, for every `B ≥ 1`. -/
namespace EaselModel.Sqio.ParseFasta
open EaselModel.Sqio.Refine EaselModel.Sqio.Fold EaselModel.Sqio.DataScan EaselModel.Sqio.Cursor EaselModel.Sqio.BodySpec
open EaselModel.Sqio.HeaderSpec EaselModel.Sqio.ReadSpec

/-- the client loop over `sqascii_Read` -/
def readAllM : Nat → Ascii → Sq → List Sq × Status
  | 0, _, _ => ([], .fault)
  | fuel + 1, a, sq =>
    if (read a sq.reuse).2.2 == .ok then
      ((read a sq.reuse).2.1 :: (readAllM fuel (read a sq.reuse).1 (read a sq.reuse).2.1).1,
       (readAllM fuel (read a sq.reuse).1 (read a sq.reuse).2.1).2)
    else ([], (read a sq.reuse).2.2)

/-- the same loop over the closed form: a function of the file bytes only -/
def parseAllL (inmap : Bytes) (N : Nat) : Nat → Sq → List UInt8 → List Sq × Status
  | 0, _, _ => ([], .fault)
  | fuel + 1, sq, l =>
    if (recL inmap N sq.reuse l).1 == .ok then
      ((recL inmap N sq.reuse l).2.1 :: (parseAllL inmap N fuel (recL inmap N sq.reuse l).2.1 (recL inmap N sq.reuse l).2.2).1,
       (parseAllL inmap N fuel (recL inmap N sq.reuse l).2.1 (recL inmap N sq.reuse l).2.2).2)
    else ([], (recL inmap N sq.reuse l).1)

theorem allocGrow_ge (alloc size n : Nat) : alloc ≤ allocGrow alloc size n := by
  induction n generalizing alloc size with
  | zero => exact Nat.le_refl _
  | succ n ih =>
    simp only [allocGrow]
    split
    · exact Nat.le_trans (by omega) (ih _ _)
    · exact ih _ _

/-- what `recL` keeps of the `ESL_SQ` it is given -/
theorem recL_keeps (inmap : Bytes) (N : Nat) (sq : Sq) (l : List UInt8) (h : (recL inmap N sq l).1 = .ok) :
    (recL inmap N sq l).2.1.digital = sq.digital ∧ (recL inmap N sq l).2.1.abc = sq.abc ∧
    sq.nalloc ≤ (recL inmap N sq l).2.1.nalloc ∧ sq.dalloc ≤ (recL inmap N sq l).2.1.dalloc := by
  unfold recL at h ⊢
  split at h
  · cases h
  · split at h
    · rename_i hne hok
      simp only [hne, hok, if_false, if_true, Bool.false_eq_true]
      have hok' : (headerL N sq l).1 = .ok := eq_of_beq hok
      have hk : (headerL N sq l).2.1.digital = sq.digital ∧ (headerL N sq l).2.1.abc = sq.abc ∧
          sq.nalloc ≤ (headerL N sq l).2.1.nalloc ∧ sq.dalloc ≤ (headerL N sq l).2.1.dalloc := by
        revert hok'
        unfold headerL
        split
        · intro k; cases k
        · split
          · intro k; cases k
          · split
            · intro k; cases k
            · rename_i r hr
              intro _
              unfold hfNameL at hr
              split at hr
              · cases hr
              · have := (Option.some.inj hr).symm
                subst this
                simp only [hfDescL, hfEndL]
                exact ⟨trivial, trivial, allocGrow_ge _ _ _, allocGrow_ge _ _ _⟩
      revert h
      unfold bodyL
      split
      · intro _; simp only [Sq.setWhole, stored, if_true]; exact hk
      · split
        · intro _; simp only [Sq.setWhole, stored, if_true]; exact hk
        · intro k; cases k
    · rename_i hne hnok
      exfalso
      exact hnok (by rw [h]; rfl)

theorem _root_.EaselModel.Sqio.ReadSpec.Ready.next {a a' : Ascii} {sq sq' : Sq} (R : Ready a sq) (hc : Cur a') (hs : stat a' = stat a)
    (hd : sq'.digital = sq.digital) (ha : sq'.abc = sq.abc) (hn : sq.nalloc ≤ sq'.nalloc) (hdl : sq.dalloc ≤ sq'.dalloc) :
    Ready a' sq' := by
  have hi := stat_inmap hs
  refine ⟨hc, (stat_fmt hs).trans R.fmt, (stat_eofIsOk hs).trans R.eofOk, by rw [hi]; exact R.hm, ?_, by rw [hi]; exact R.eodGt,
    Nat.le_trans R.nalloc hn, Nat.le_trans R.dalloc hdl⟩
  have : mapOf a' sq' = mapOf a sq := by simp only [mapOf, hd, ha, hi]
  rw [this, hi]; exact R.mapOk

/-- **The record loop of the model = the record loop of the closed form**, from every ready handle, for every fuel. -/
theorem readAll_spec (fuel : Nat) : ∀ (a : Ascii) (sq : Sq), Ready a sq.reuse →
    readAllM fuel a sq = parseAllL a.inmap a.file.size fuel sq (fileFrom a) := by
  induction fuel with
  | zero => intro a sq _; rfl
  | succ fuel ih =>
    intro a sq R
    obtain ⟨q1, q2, _, _⟩ := read_spec a sq.reuse R
    simp only [readAllM, parseAllL]
    rw [q1]
    by_cases hok : (recL a.inmap a.file.size sq.reuse (fileFrom a)).1 = .ok
    · obtain ⟨m1, m2, m3, m4⟩ := q2 hok
      obtain ⟨k1, k2, k3, k4⟩ := recL_keeps _ _ _ _ hok
      have hb : ((recL a.inmap a.file.size sq.reuse (fileFrom a)).1 == Status.ok) = true := by rw [hok]; rfl
      simp only [hb, if_true]
      have R' : Ready (read a sq.reuse).1 (read a sq.reuse).2.1.reuse := by
        rw [m1]
        exact R.next m2 m4 k1 k2 k3 k4
      rw [ih _ _ R', m1, m3, stat_inmap m4, stat_file m4]
    · have hb : ((recL a.inmap a.file.size sq.reuse (fileFrom a)).1 == Status.ok) = false := by simpa using hok
      simp only [hb, Bool.false_eq_true, if_false]


/-! ## the FASTA input maps (tables regenerated from `esl_alphabet.c` on every run) -/

theorem tables_fasta : ∀ abc ∈ [0, 1, 2, 3], (inmapFasta abc).size = 128 ∧ ∀ c : Fin 128,
    ((inmapFasta abc).getD c.val 254 = 251 → c.val = 62) ∧
    (abc ≠ 0 → ((inmapFasta abc).getD c.val 254 ≤ 127 ∨ (inmapFasta abc).getD c.val 254 = 252 ∨ (inmapFasta abc).getD c.val 254 = 253) →
      c.val < (abcInmap abc).size ∧
      (decide ((abcInmap abc).getD c.val 0 ≤ 127) = decide ((inmapFasta abc).getD c.val 254 ≤ 127))) := by decide +kernel

theorem code_lt (inmap : Bytes) (c : UInt8) (h : code inmap c ≠ 254) : c.toNat < 128 ∧ code inmap c = inmap.getD c.toNat 254 := by
  unfold code at *
  by_cases hc : c ≥ 128
  · simp [hc, Tables.dsqIllegal] at h
  · simp only [hc, if_false, Tables.dsqIllegal] at h ⊢
    exact ⟨by have : c < 128 := by simpa using hc
              exact this, trivial⟩

theorem eodGt_fasta (abc : Nat) (habc : abc ∈ [0, 1, 2, 3]) : EodGt (inmapFasta abc) := by
  intro c hc
  simp only [isEod, Tables.dsqEod, beq_iff_eq] at hc
  obtain ⟨h1, h2⟩ := code_lt (inmapFasta abc) c (by rw [hc]; decide)
  rw [h2] at hc
  have := ((tables_fasta abc habc).2 ⟨c.toNat, h1⟩).1 hc
  simp only at this
  apply UInt8.toNat_inj.mp
  rw [this]; rfl

theorem isData_code (inmap : Bytes) (c : UInt8) (h : isData inmap c = true) :
    code inmap c ≤ 127 ∨ code inmap c = 252 ∨ code inmap c = 253 := by
  simp only [isData, Tables.dsqEol, Tables.dsqIgnored, Bool.or_eq_true, decide_eq_true_eq, beq_iff_eq] at h
  rcases h with (h | h) | h
  · exact Or.inl h
  · exact Or.inr (Or.inl h)
  · exact Or.inr (Or.inr h)

theorem mapOk_fasta (abc : Nat) (habc : abc ∈ [0, 1, 2, 3]) : MapOk (inmapFasta abc) (mapFor (inmapFasta abc) (freshSq abc)) := by
  by_cases h0 : abc = 0
  · subst h0
    exact MapOk.self _ (tables_fasta 0 habc).1
  · have hmf : mapFor (inmapFasta abc) (freshSq abc) = abcInmap abc := by
      simp [mapFor, freshSq, h0]
    rw [hmf]
    intro c hd
    have hcode := isData_code _ c hd
    obtain ⟨h1, h2⟩ := code_lt (inmapFasta abc) c (by rcases hcode with h | h | h <;> (intro k; rw [k] at h; revert h; decide))
    rw [h2] at hcode
    obtain ⟨t1, t2⟩ := ((tables_fasta abc habc).2 ⟨c.toNat, h1⟩).2 h0 hcode
    simp only at t1 t2
    refine ⟨(abcInmap abc)[c.toNat], by simp [t1], ?_⟩
    have hg : (abcInmap abc).getD c.toNat 0 = (abcInmap abc)[c.toNat] := by simp [Array.getD, t1]
    rw [hg] at t2
    rw [t2]
    simp only [isRes, h2]

/-! ## from `esl_sqfile_Open` on -/

/-- `esl_sqfile_Open(…, eslSQFILE_FASTA, …)` / `OpenDigital` on a non-empty file: the handle after the first `loadbuf`
    (`DriverLogic.openModel` with `fmt = 1`) -/
def openFasta (bytes : Bytes) (B abc : Nat) : Ascii :=
  { (loadbuf { file := bytes, B := B, abc := abc, fmt := 1, eofIsOk := true, inmap := inmapFasta 0 }).1 with
      inmap := inmapFasta abc, haveErr := false }

theorem openModel_fasta (bytes : Bytes) (B abc : Nat) (hne : 0 < bytes.size) (hB : 1 ≤ B) :
    openModel bytes "fa" 1 abc B = some (openFasta bytes B abc, .ok) := by
  have hpre : Pre { file := bytes, B := B, abc := abc, fmt := 1, eofIsOk := true, inmap := inmapFasta 0 } :=
    ⟨rfl, by simp, hB, Nat.le_refl _, Nat.zero_le _⟩
  obtain ⟨_, _, _, _, _, o⟩ := loadbuf_wf _ hpre
  have hst : (loadbuf { file := bytes, B := B, abc := abc, fmt := 1, eofIsOk := true, inmap := inmapFasta 0 }).2 = .ok := by
    rcases o with ⟨o1, _⟩ | ⟨_, _, o3⟩
    · exact o1
    · exfalso; simp only at o3; omega
  unfold openModel openFasta
  simp only [inmapFor]
  simp [hst]

theorem Cur.setInmap {a : Ascii} (h : Cur a) (m : Bytes) : Cur { a with inmap := m, haveErr := false } :=
  ⟨⟨h.wf.block, h.wf.norec, h.wf.bpos1, h.wf.full, h.wf.moff0, h.wf.fposEq, h.wf.fposLe, h.wf.ncLe, h.wf.boffEq, h.wf.bposLe⟩,
   h.cur, h.tok⟩

theorem fileFrom_setInmap (a : Ascii) (m : Bytes) : fileFrom { a with inmap := m, haveErr := false } = fileFrom a := rfl

theorem inmap_setInmap (a : Ascii) (m : Bytes) : ({ a with inmap := m, haveErr := false } : Ascii).inmap = m := rfl
theorem file_setInmap (a : Ascii) (m : Bytes) : ({ a with inmap := m, haveErr := false } : Ascii).file = a.file := rfl

theorem ready_setInmap (a : Ascii) (m : Bytes) (sq : Sq) (h : Cur a) (hf : a.fmt = 1) (he : a.eofIsOk = true) (hm : m.size = 128)
    (hmo : MapOk m (mapFor m sq)) (hg : EodGt m) (hn : 2 ≤ sq.nalloc) (hd : 2 ≤ sq.dalloc) :
    Ready { a with inmap := m, haveErr := false } sq :=
  ⟨Cur.setInmap h m, hf, he, hm, hmo, hg, hn, hd⟩

theorem openFasta_ready (bytes : Bytes) (B abc : Nat) (hB : 1 ≤ B) (habc : abc ∈ [0, 1, 2, 3]) :
    Ready (openFasta bytes B abc) (freshSq abc).reuse ∧ fileFrom (openFasta bytes B abc) = bytes.toList ∧
    (openFasta bytes B abc).inmap = inmapFasta abc ∧ (openFasta bytes B abc).file = bytes := by
  have hpre : Pre { file := bytes, B := B, abc := abc, fmt := 1, eofIsOk := true, inmap := inmapFasta 0 } :=
    ⟨rfl, by simp, hB, Nat.le_refl _, Nat.zero_le _⟩
  obtain ⟨w, b0, hfile, _, hp, o⟩ := loadbuf_wf _ hpre
  have lr := Sim.loadbuf_rest _ hpre
  unfold openFasta
  generalize hlb : loadbuf { file := bytes, B := B, abc := abc, fmt := 1, eofIsOk := true, inmap := inmapFasta 0 } = lb at *
  have hfile' : lb.1.file = bytes := hfile
  have htrk : lb.1.trk = {} := congrArg (fun p => p.2.2.2.1) lr
  have hfmt : lb.1.fmt = 1 := congrArg (fun p => p.2.2.2.2.2.2.1) lr
  have heof : lb.1.eofIsOk = true := congrArg (fun p => p.2.2.2.2.2.1) lr
  have hpos : pos lb.1 = 0 := by rw [hp]; rfl
  have htok : Track.Ok lb.1.trk := by rw [htrk]; exact ⟨by decide, by decide, by decide⟩
  have hcur : Cur lb.1 := by
    refine ⟨w, ?_, htok⟩
    rcases o with ⟨_, o2, _⟩ | ⟨_, o2, o3⟩
    · left; show lb.1.bpos < lb.1.nc; omega
    · right
      refine ⟨⟨o2, b0⟩, ?_⟩
      rw [hpos, hfile']
      simp only at o3
      omega
  have hff : fileFrom lb.1 = bytes.toList := by
    unfold fileFrom
    rw [hpos, hfile']; rfl
  have hmo : MapOk (inmapFasta abc) (mapFor (inmapFasta abc) (freshSq abc).reuse) := mapOk_fasta abc habc
  have hn2 : 2 ≤ (freshSq abc).reuse.nalloc := by show 2 ≤ 32; decide
  have hd2 : 2 ≤ (freshSq abc).reuse.dalloc := by show 2 ≤ 128; decide
  exact ⟨ready_setInmap lb.1 (inmapFasta abc) (freshSq abc).reuse hcur hfmt heof (tables_fasta abc habc).1 hmo (eodGt_fasta abc habc) hn2 hd2,
    (fileFrom_setInmap lb.1 (inmapFasta abc)).trans hff, inmap_setInmap lb.1 (inmapFasta abc), (file_setInmap lb.1 (inmapFasta abc)).trans hfile'⟩

/-- the records of a FASTA file, as a function of its bytes (and of the alphabet selector): `recL` iterated -/
def parseFasta (abc : Nat) (bytes : Bytes) : List Sq × Status :=
  parseAllL (inmapFasta abc) bytes.size (bytes.size + 2) (freshSq abc) bytes.toList

/-- **Whole-reader refinement.** For every byte string, every alphabet selector and every read-block size `B ≥ 1`, reading all
    records with `sqascii_Read` from `esl_sqfile_Open` on returns exactly `parseFasta` — the records and the final status. -/
theorem read_all_eq_parseFasta (bytes : Bytes) (B abc : Nat) (hB : 1 ≤ B) (habc : abc ∈ [0, 1, 2, 3]) :
    readAllM (bytes.size + 2) (openFasta bytes B abc) (freshSq abc) = parseFasta abc bytes := by
  obtain ⟨R, hff, hi, hf⟩ := openFasta_ready bytes B abc hB habc
  rw [readAll_spec _ _ _ R, hff, hi, hf]
  rfl

/-- **Block-size independence of the whole reader**: any two block sizes give the same records and the same final status. -/
theorem read_all_block_size_independent (bytes : Bytes) (B1 B2 abc : Nat) (h1 : 1 ≤ B1) (h2 : 1 ≤ B2) (habc : abc ∈ [0, 1, 2, 3]) :
    readAllM (bytes.size + 2) (openFasta bytes B1 abc) (freshSq abc) = readAllM (bytes.size + 2) (openFasta bytes B2 abc) (freshSq abc) := by
  rw [read_all_eq_parseFasta bytes B1 abc h1 habc, read_all_eq_parseFasta bytes B2 abc h2 habc]

end EaselModel.Sqio.ParseFasta
