import EaselModel.Sqio.TrackLemmas
/-! # `seebuf` is a byte-by-byte fold (C04 block-size independence of the data scan, C07 tracker)

`seebuf` keeps the line-geometry counters in a batched way (`lasteol`, `nres2`: it adds to `curbpl` / `currpl` only at an end of
line and when it stops). `stepByte` is the obvious one-byte-at-a-time bookkeeping. `seebufLoop_fold`: what `seebuf` leaves in the
handle — tracker, line number, residue count, stop position and status — is what the byte fold gives on the same bytes. Because a
fold over `l₁ ++ l₂` is the fold over `l₁` continued over `l₂`, the result of scanning a record does not depend on how the bytes are
cut into buffers. -/
namespace EaselModel.Sqio.Fold
open Tables

/-- cur counters are "unset" (−1) or non-negative, and `seebuf_linegeometry()` has been applied to the current state (true after
    `header_*`, after `sqascii_Position` and after every `seebuf`) -/
def Track.Ok (t : Track) : Prop := -1 ≤ t.curbpl ∧ -1 ≤ t.currpl ∧ t.lineGeometry false = t

theorem Track.Ok.of_inactive (t : Track) (h1 : -1 ≤ t.curbpl) (h2 : -1 ≤ t.currpl) (h : t.curbpl ≤ 0 ∨ t.currpl = -1) : Track.Ok t :=
  ⟨h1, h2, lg_inactive t false h⟩

theorem onStop_onStop (t : Track) (a b c d : Int) (h : Track.Ok t) (ha : 0 ≤ a) (hb : 0 ≤ b) (hd : 0 ≤ d) (hc : d ≤ c) :
    (t.onStop a b).onStop c d = t.onStop (a + c) (b + d) := by
  obtain ⟨h1, h2, _⟩ := h
  obtain ⟨k1, k2⟩ := adv_bounds t a b h1 h2 ha hb
  unfold Track.onStop
  rw [lg_adv_lg _ c d false k1 k2 hd (by simpa using hc), adv_adv t a b c d h1 h2 ha hb]

theorem onStop_ok (t : Track) (a b : Int) (h : Track.Ok t) (ha : 0 ≤ a) (hb : 0 ≤ b) : Track.Ok (t.onStop a b) := by
  obtain ⟨h1, h2, _⟩ := h
  obtain ⟨k1, k2⟩ := adv_bounds t a b h1 h2 ha hb
  obtain ⟨g1, g2, _, _⟩ := lg_cur (t.advance a b) false
  exact ⟨by unfold Track.onStop; rw [g2]; exact k1, by unfold Track.onStop; rw [g1]; exact k2, lg_idem _ k1 k2⟩

theorem onStop_zero (t : Track) (h : Track.Ok t) : t.onStop 0 0 = t := by
  unfold Track.onStop; rw [adv_zero]; exact h.2.2

theorem onStop_onEol (t : Track) (a b c d : Int) (h : Track.Ok t) (ha : 0 ≤ a) (hb : 0 ≤ b) (hd : 0 ≤ d) (hc : d + 1 ≤ c) :
    (t.onStop a b).onEol c d = t.onEol (a + c) (b + d) := by
  obtain ⟨h1, h2, _⟩ := h
  obtain ⟨k1, k2⟩ := adv_bounds t a b h1 h2 ha hb
  unfold Track.onStop Track.onEol
  rw [lg_adv_lg _ c d true k1 k2 hd (by simpa using hc), adv_adv t a b c d h1 h2 ha hb]

/-- the scanner state the fold carries -/
structure SS where
  trk : Track
  ln : Int
  nres : Nat
  deriving Repr

/-- one byte of sequence data, the way `seebuf` classifies it; `.ok` = consumed, `.eod` / `.eformat` / `.fault` = stop before it -/
def stepByte (inmap : Bytes) (s : SS) (c : UInt8) : SS × Status :=
  if c ≥ 128 then (s, .eformat) else
  match inmap[c.toNat]? with
  | none => (s, .fault)
  | some x =>
    if x ≤ 127 then ({ s with trk := s.trk.onStop 1 1, nres := s.nres + 1 }, .ok)
    else if x == dsqEol then ({ s with trk := s.trk.onEol 1 0, ln := if s.ln != -1 then s.ln + 1 else s.ln }, .ok)
    else if x == dsqIllegal then (s, .eformat)
    else if x == dsqEod then (s, .eod)
    else if x != dsqIgnored then (s, .eformat)
    else ({ s with trk := s.trk.onStop 1 0 }, .ok)

/-- fold `stepByte` over the bytes while fewer than `maxn` residues have been seen; returns the state, the number of bytes consumed
    and the status (`.ok` = ran out of bytes or reached the residue limit) -/
def scanBytes (inmap : Bytes) (maxn : Nat) : List UInt8 → SS → Nat → SS × Nat × Status
  | [], s, k => (s, k, .ok)
  | c :: rest, s, k =>
    if s.nres < maxn then
      match stepByte inmap s c with
      | (s', .ok) => scanBytes inmap maxn rest s' (k + 1)
      | (s', st) => (s', k, st)
    else (s, k, .ok)

/-- scanning `l₁ ++ l₂` = scanning `l₁`, and if that neither stopped nor hit the residue limit, continuing over `l₂`: the cut between
    two buffers is invisible -/
theorem scanBytes_append (inmap : Bytes) (maxn : Nat) (l1 l2 : List UInt8) (s : SS) (k : Nat) :
    scanBytes inmap maxn (l1 ++ l2) s k =
      (if (scanBytes inmap maxn l1 s k).2.2 = .ok ∧ (scanBytes inmap maxn l1 s k).2.1 = k + l1.length then
         scanBytes inmap maxn l2 (scanBytes inmap maxn l1 s k).1 (k + l1.length)
       else scanBytes inmap maxn l1 s k) := by
  induction l1 generalizing s k with
  | nil => simp [scanBytes]
  | cons c rest ih =>
    by_cases hlim : s.nres < maxn
    · rcases hstep : stepByte inmap s c with ⟨s', st⟩
      by_cases hok : st = .ok
      · subst hok
        have e1 : scanBytes inmap maxn (c :: rest ++ l2) s k = scanBytes inmap maxn (rest ++ l2) s' (k + 1) := by
          simp [scanBytes, hlim, hstep]
        have e2 : scanBytes inmap maxn (c :: rest) s k = scanBytes inmap maxn rest s' (k + 1) := by
          simp [scanBytes, hlim, hstep]
        rw [e1, e2, ih s' (k + 1)]
        have hl : k + 1 + rest.length = k + (c :: rest).length := by simp; omega
        rw [hl]
      · have e1 : scanBytes inmap maxn (c :: rest ++ l2) s k = (s', k, st) := by
          cases st <;> simp_all [scanBytes]
        have e2 : scanBytes inmap maxn (c :: rest) s k = (s', k, st) := by
          cases st <;> simp_all [scanBytes]
        rw [e1, e2]
        simp [hok]
    · have e1 : scanBytes inmap maxn (c :: rest ++ l2) s k = (s, k, .ok) := by simp [scanBytes, hlim]
      have e2 : scanBytes inmap maxn (c :: rest) s k = (s, k, .ok) := by simp [scanBytes, hlim]
      rw [e1, e2]
      simp

/-- the byte at buffer index `i` -/
def byteAt (a : Ascii) (i : Nat) : UInt8 := (a.bufGet i).getD 0

/-- the buffer from index `lo` to its end, as a list -/
def bufList (a : Ascii) (lo : Nat) : List UInt8 := (List.range' lo (a.nc - lo)).map (byteAt a)

theorem bufList_cons (a : Ascii) (lo : Nat) (h : lo < a.nc) : bufList a lo = byteAt a lo :: bufList a (lo + 1) := by
  unfold bufList
  have : a.nc - lo = (a.nc - (lo + 1)) + 1 := by omega
  rw [this, List.range'_succ]
  rfl

theorem bufList_nil (a : Ascii) (lo : Nat) (h : ¬ lo < a.nc) : bufList a lo = [] := by
  unfold bufList
  have : a.nc - lo = 0 := by omega
  simp [this]

/-- the tracker as it would stand if `seebuf` stopped now -/
def virt (trk : Track) (bpos nres nres2 le1 : Nat) : Track := trk.onStop ((bpos : Int) - (le1 : Int)) ((nres : Int) - (nres2 : Int))

theorem onEol_ok (t : Track) (a b : Int) : Track.Ok (t.onEol a b) :=
  Track.Ok.of_inactive _ (by simp [Track.onEol]) (by simp [Track.onEol]) (Or.inl (by simp [Track.onEol]))

theorem virt_res (trk : Track) (bpos nres nres2 le1 : Nat) (hle : le1 ≤ bpos) (hn2 : nres2 ≤ nres) (hok : Track.Ok trk) :
    (virt trk bpos nres nres2 le1).onStop 1 1 = virt trk (bpos + 1) (nres + 1) nres2 le1 := by
  unfold virt
  rw [onStop_onStop trk _ _ 1 1 hok (by omega) (by omega) (by omega) (by omega)]
  congr 1 <;> (push_cast; omega)

theorem virt_ign (trk : Track) (bpos nres nres2 le1 : Nat) (hle : le1 ≤ bpos) (hn2 : nres2 ≤ nres) (hok : Track.Ok trk) :
    (virt trk bpos nres nres2 le1).onStop 1 0 = virt trk (bpos + 1) nres nres2 le1 := by
  unfold virt
  rw [onStop_onStop trk _ _ 1 0 hok (by omega) (by omega) (by omega) (by omega)]
  congr 1 <;> (push_cast; omega)

theorem virt_eol (trk : Track) (bpos nres nres2 le1 : Nat) (hle : le1 ≤ bpos) (hn2 : nres2 ≤ nres) (hok : Track.Ok trk) :
    (virt trk bpos nres nres2 le1).onEol 1 0 =
      virt (trk.onEol ((bpos : Int) - (le1 : Int) + 1) ((nres : Int) - (nres2 : Int))) (bpos + 1) nres nres (bpos + 1) := by
  unfold virt
  rw [onStop_onEol trk _ _ 1 0 hok (by omega) (by omega) (by omega) (by omega)]
  have z1 : ((bpos + 1 : Nat) : Int) - ((bpos + 1 : Nat) : Int) = 0 := by omega
  have z2 : (nres : Int) - (nres : Int) = 0 := by omega
  rw [z1, z2, onStop_zero _ (onEol_ok _ _ _)]
  congr 1; omega

/-- one step of the fold on the buffer list -/
theorem scanBytes_step (a : Ascii) (maxn bpos : Nat) (s : SS) (c : UInt8) (h1 : s.nres < maxn) (h2 : bpos < a.nc)
    (hb : a.bufGet bpos = some c) :
    scanBytes a.inmap maxn (bufList a bpos) s bpos =
      (match stepByte a.inmap s c with
       | (s', .ok) => scanBytes a.inmap maxn (bufList a (bpos + 1)) s' (bpos + 1)
       | (s', st) => (s', bpos, st)) := by
  rw [bufList_cons a bpos h2]
  have : byteAt a bpos = c := by simp [byteAt, hb]
  rw [this]
  simp [scanBytes, h1]

theorem scanBytes_stop (a : Ascii) (maxn bpos : Nat) (s : SS) (h : ¬ (s.nres < maxn ∧ bpos < a.nc)) :
    scanBytes a.inmap maxn (bufList a bpos) s bpos = (s, bpos, .ok) := by
  by_cases h2 : bpos < a.nc
  · rw [bufList_cons a bpos h2]
    have : ¬ s.nres < maxn := fun h1 => h ⟨h1, h2⟩
    simp [scanBytes, this]
  · rw [bufList_nil a bpos h2]; rfl

/-- **`seebuf`'s loop is the byte fold.** -/
theorem seebufLoop_fold (a : Ascii) (maxn bpos nres nres2 le1 : Nat) (trk : Track) (ln : Int)
    (hr : ∀ i, i < a.nc → ∃ x, a.bufGet i = some x) (hle : le1 ≤ bpos) (hn2 : nres2 ≤ nres) (hok : Track.Ok trk) :
    (seebufLoop a maxn bpos nres nres2 le1 trk ln).1 = (scanBytes a.inmap maxn (bufList a bpos) ⟨virt trk bpos nres nres2 le1, ln, nres⟩ bpos).2.2 ∧
    (seebufLoop a maxn bpos nres nres2 le1 trk ln).2.2.1 = (scanBytes a.inmap maxn (bufList a bpos) ⟨virt trk bpos nres nres2 le1, ln, nres⟩ bpos).2.1 ∧
    (seebufLoop a maxn bpos nres nres2 le1 trk ln).2.2.2.1 = (scanBytes a.inmap maxn (bufList a bpos) ⟨virt trk bpos nres nres2 le1, ln, nres⟩ bpos).1.nres ∧
    (seebufLoop a maxn bpos nres nres2 le1 trk ln).2.2.2.2.2.2.2 = (scanBytes a.inmap maxn (bufList a bpos) ⟨virt trk bpos nres nres2 le1, ln, nres⟩ bpos).1.ln ∧
    (let r := seebufLoop a maxn bpos nres nres2 le1 trk ln
     virt r.2.2.2.2.2.2.1 r.2.2.1 r.2.2.2.1 r.2.2.2.2.1 r.2.2.2.2.2.1) =
      (scanBytes a.inmap maxn (bufList a bpos) ⟨virt trk bpos nres nres2 le1, ln, nres⟩ bpos).1.trk := by
  fun_induction seebufLoop a maxn bpos nres nres2 le1 trk ln
  case case1 => exfalso; rename_i h hx; obtain ⟨y, hy⟩ := hr _ h.2; simp [hy] at hx
  case case2 =>
    rename_i h c hb hc
    rw [scanBytes_step a maxn _ _ c h.1 h.2 hb]
    simp [stepByte, hc]
  case case3 =>
    rename_i h c hb hc hnone
    rw [scanBytes_step a maxn _ _ c h.1 h.2 hb]
    simp [stepByte, hc, hnone]
  case case4 =>
    rename_i bpos nres nres2 le1 trk ln h c hb hc x hx hres ih
    rw [scanBytes_step a maxn bpos _ c h.1 h.2 hb]
    have hs : stepByte a.inmap ⟨virt trk bpos nres nres2 le1, ln, nres⟩ c = (⟨virt trk (bpos + 1) (nres + 1) nres2 le1, ln, nres + 1⟩, .ok) := by
      simp [stepByte, hc, hx, hres, virt_res trk bpos nres nres2 le1 hle hn2 hok]
    rw [hs]
    exact ih (by omega) (by omega) hok
  case case5 =>
    rename_i bpos nres nres2 le1 trk ln h c hb hc x hx hres heol trk' ih
    rw [scanBytes_step a maxn bpos _ c h.1 h.2 hb]
    have hs : stepByte a.inmap ⟨virt trk bpos nres nres2 le1, ln, nres⟩ c =
        (⟨virt (trk.onEol ((bpos : Int) - (le1 : Int) + 1) ((nres : Int) - (nres2 : Int))) (bpos + 1) nres nres (bpos + 1),
          (if ln != -1 then ln + 1 else ln), nres⟩, .ok) := by
      simp [stepByte, hc, hx, hres, heol, virt_eol trk bpos nres nres2 le1 hle hn2 hok]
    rw [hs]
    simp only [dite_eq_ite] at ih
    exact ih (Nat.le_refl _) (Nat.le_refl _) (onEol_ok _ _ _)
  case case6 =>
    rename_i bpos nres nres2 le1 trk ln h c hb hc x hx hres heol hill
    rw [scanBytes_step a maxn bpos _ c h.1 h.2 hb]
    simp [stepByte, hc, hx, hres, heol, hill]
  case case7 =>
    rename_i bpos nres nres2 le1 trk ln h c hb hc x hx hres heol hill heod
    rw [scanBytes_step a maxn bpos _ c h.1 h.2 hb]
    simp [stepByte, hc, hx, hres, heol, hill, heod]
  case case8 =>
    rename_i bpos nres nres2 le1 trk ln h c hb hc x hx hres heol hill heod hign
    rw [scanBytes_step a maxn bpos _ c h.1 h.2 hb]
    simp [stepByte, hc, hx, hres, heol, hill, heod, hign]
  case case9 =>
    rename_i bpos nres nres2 le1 trk ln h c hb hc x hx hres heol hill heod hign ih
    rw [scanBytes_step a maxn bpos _ c h.1 h.2 hb]
    have hs : stepByte a.inmap ⟨virt trk bpos nres nres2 le1, ln, nres⟩ c = (⟨virt trk (bpos + 1) nres nres2 le1, ln, nres⟩, .ok) := by
      simp [stepByte, hc, hx, hres, heol, hill, heod, hign, virt_ign trk bpos nres nres2 le1 hle hn2 hok]
    rw [hs]
    exact ih (by omega) hn2 hok
  case case10 =>
    rename_i bpos nres nres2 le1 trk ln h
    rw [scanBytes_stop a maxn bpos _ h]
    simp

/-- **`seebuf` is the byte fold** (for every residue limit): unless it fails, the status, the number of residues, the stop position,
    and the line-geometry tracker and line number it leaves in the handle are those of folding `stepByte` over the bytes of the
    buffer from the cursor on. -/
theorem seebuf_fold (a : Ascii) (maxn : Option Nat) (hr : ∀ i, i < a.nc → ∃ x, a.bufGet i = some x) (hok : Track.Ok a.trk) :
    let mx := match maxn with | none => a.nc | some m => m
    let f := scanBytes a.inmap mx (bufList a a.bpos) ⟨a.trk, a.linenumber, 0⟩ a.bpos
    (seebuf a maxn).2.st = f.2.2 ∧ (seebuf a maxn).2.endpos = f.2.1 ∧ (seebuf a maxn).2.nres = f.1.nres ∧
    (seebuf a maxn).1.linenumber = f.1.ln ∧
    ((seebuf a maxn).2.st ≠ .eformat → (seebuf a maxn).2.st ≠ .fault → (seebuf a maxn).1.trk = f.1.trk) := by
  intro mx f
  have key := seebufLoop_fold a mx a.bpos 0 0 a.bpos a.trk a.linenumber hr (Nat.le_refl _) (Nat.le_refl _) hok
  have hv : virt a.trk a.bpos 0 0 a.bpos = a.trk := by
    unfold virt
    have z1 : ((a.bpos : Nat) : Int) - ((a.bpos : Nat) : Int) = 0 := by omega
    have z2 : ((0 : Nat) : Int) - ((0 : Nat) : Int) = 0 := by omega
    rw [z1, z2, onStop_zero _ hok]
  rw [hv] at key
  obtain ⟨k1, k2, k3, k4, k5⟩ := key
  have hs : (seebuf a maxn).2.st = (seebufLoop a mx a.bpos 0 0 a.bpos a.trk a.linenumber).1 := by
    cases maxn <;> (simp only [seebuf]; split <;> rfl)
  have he : (seebuf a maxn).2.endpos = (seebufLoop a mx a.bpos 0 0 a.bpos a.trk a.linenumber).2.2.1 := by
    cases maxn <;> (simp only [seebuf]; split <;> rfl)
  have hn : (seebuf a maxn).2.nres = (seebufLoop a mx a.bpos 0 0 a.bpos a.trk a.linenumber).2.2.2.1 := by
    cases maxn <;> (simp only [seebuf]; split <;> rfl)
  have hl : (seebuf a maxn).1.linenumber = (seebufLoop a mx a.bpos 0 0 a.bpos a.trk a.linenumber).2.2.2.2.2.2.2 := by
    cases maxn <;> (simp only [seebuf]; split <;> rfl)
  refine ⟨by rw [hs, k1], by rw [he, k2], by rw [hn, k3], by rw [hl, k4], ?_⟩
  intro h1 h2
  rw [← k5]
  rw [hs] at h1 h2
  cases maxn <;> (simp only [seebuf]; split)
  all_goals first
    | rfl
    | (exfalso; rename_i hc; simp only [Bool.or_eq_true, beq_iff_eq] at hc
       rcases hc with hc | hc
       · exact h1 hc
       · exact h2 hc)

/-! ## re-basing the fold -/

theorem stepByte_nres (inmap : Bytes) (t : Track) (ln : Int) (n0 : Nat) (c : UInt8) :
    stepByte inmap ⟨t, ln, n0⟩ c =
      (⟨(stepByte inmap ⟨t, ln, 0⟩ c).1.trk, (stepByte inmap ⟨t, ln, 0⟩ c).1.ln, (stepByte inmap ⟨t, ln, 0⟩ c).1.nres + n0⟩,
       (stepByte inmap ⟨t, ln, 0⟩ c).2) := by
  unfold stepByte
  by_cases h1 : c ≥ 128
  · simp [h1]
  · simp only [h1, if_false]
    cases hx : inmap[c.toNat]? with
    | none => simp
    | some x =>
      simp only
      by_cases h2 : x ≤ 127
      · simp [h2]; omega
      · by_cases h3 : (x == dsqEol) = true
        · simp [h2, h3]
        · by_cases h4 : (x == dsqIllegal) = true
          · simp [h2, h3, h4]
          · by_cases h5 : (x == dsqEod) = true
            · simp [h2, h3, h4, h5]
            · by_cases h6 : (x != dsqIgnored) = true
              · simp [h2, h3, h4, h5, h6]
              · simp [h2, h3, h4, h5, h6]

/-- the residue limit does not matter once it exceeds what the bytes can hold -/
theorem scanBytes_limit (inmap : Bytes) (m1 m2 : Nat) (l : List UInt8) (s : SS) (k : Nat)
    (h1 : s.nres + l.length ≤ m1) (h2 : s.nres + l.length ≤ m2) :
    scanBytes inmap m1 l s k = scanBytes inmap m2 l s k := by
  induction l generalizing s k with
  | nil => rfl
  | cons c rest ih =>
    have a1 : s.nres < m1 := by simp at h1; omega
    have a2 : s.nres < m2 := by simp at h2; omega
    rcases hstep : stepByte inmap s c with ⟨s', st⟩
    have hn : s'.nres ≤ s.nres + 1 := by
      have := congrArg (fun r => r.1.nres) hstep
      simp only at this
      rw [← this]
      unfold stepByte
      split
      · simp
      · split
        · simp
        · repeat' split
          all_goals simp
    by_cases hok : st = .ok
    · subst hok
      have e1 : scanBytes inmap m1 (c :: rest) s k = scanBytes inmap m1 rest s' (k + 1) := by simp [scanBytes, a1, hstep]
      have e2 : scanBytes inmap m2 (c :: rest) s k = scanBytes inmap m2 rest s' (k + 1) := by simp [scanBytes, a2, hstep]
      rw [e1, e2]
      apply ih
      · simp at h1; omega
      · simp at h2; omega
    · have e1 : scanBytes inmap m1 (c :: rest) s k = (s', k, st) := by cases st <;> simp_all [scanBytes]
      have e2 : scanBytes inmap m2 (c :: rest) s k = (s', k, st) := by cases st <;> simp_all [scanBytes]
      rw [e1, e2]

/-- re-basing: start with `d` more residues already counted and `e` more bytes already consumed -/
theorem scanBytes_shift (inmap : Bytes) (m : Nat) (l : List UInt8) (t : Track) (ln : Int) (n d k e : Nat) (hd : d ≤ m) :
    scanBytes inmap m l ⟨t, ln, n + d⟩ (k + e) =
      (⟨(scanBytes inmap (m - d) l ⟨t, ln, n⟩ k).1.trk, (scanBytes inmap (m - d) l ⟨t, ln, n⟩ k).1.ln,
        (scanBytes inmap (m - d) l ⟨t, ln, n⟩ k).1.nres + d⟩,
       (scanBytes inmap (m - d) l ⟨t, ln, n⟩ k).2.1 + e, (scanBytes inmap (m - d) l ⟨t, ln, n⟩ k).2.2) := by
  induction l generalizing t ln n k with
  | nil => rfl
  | cons c rest ih =>
    by_cases hlim : n + d < m
    · have hlim' : n < m - d := by omega
      have h1 := stepByte_nres inmap t ln (n + d) c
      have h2 := stepByte_nres inmap t ln n c
      generalize stepByte inmap ⟨t, ln, 0⟩ c = base at h1 h2
      obtain ⟨⟨T, LN, N0⟩, ST⟩ := base
      simp only at h1 h2
      by_cases hok : ST = .ok
      · subst hok
        have e1 : scanBytes inmap m (c :: rest) ⟨t, ln, n + d⟩ (k + e) = scanBytes inmap m rest ⟨T, LN, N0 + (n + d)⟩ (k + e + 1) := by
          simp [scanBytes, hlim, h1]
        have e2 : scanBytes inmap (m - d) (c :: rest) ⟨t, ln, n⟩ k = scanBytes inmap (m - d) rest ⟨T, LN, N0 + n⟩ (k + 1) := by
          simp [scanBytes, hlim', h2]
        rw [e1, e2]
        have r1 : N0 + (n + d) = (N0 + n) + d := by omega
        have r2 : k + e + 1 = (k + 1) + e := by omega
        rw [r1, r2]
        exact ih T LN (N0 + n) (k + 1)
      · have e1 : scanBytes inmap m (c :: rest) ⟨t, ln, n + d⟩ (k + e) = (⟨T, LN, N0 + (n + d)⟩, k + e, ST) := by
          cases ST <;> simp_all [scanBytes]
        have e2 : scanBytes inmap (m - d) (c :: rest) ⟨t, ln, n⟩ k = (⟨T, LN, N0 + n⟩, k, ST) := by
          cases ST <;> simp_all [scanBytes]
        rw [e1, e2]
        simp; omega
    · have hlim' : ¬ n < m - d := by omega
      have e1 : scanBytes inmap m (c :: rest) ⟨t, ln, n + d⟩ (k + e) = (⟨t, ln, n + d⟩, k + e, .ok) := by simp [scanBytes, hlim]
      have e2 : scanBytes inmap (m - d) (c :: rest) ⟨t, ln, n⟩ k = (⟨t, ln, n⟩, k, .ok) := by simp [scanBytes, hlim']
      rw [e1, e2]

end EaselModel.Sqio.Fold
