import EaselModel.Sqio.TrackBytes
/-! # The reader loop leaves the tracker of the record's line counts (C07)

`scanLoop false` is the body loop of `sqascii_ReadInfo` — `loadbuf` / `seebuf` until the end of the record's data — i.e. what
`create_ssi_index` runs on every record. `DataScan.scanLoop_info` (C04): whatever the read-block size, it leaves the tracker of the byte
fold `dataFold` over the rest of the file. Here: that byte fold stops at the first byte that is not sequence data and is the fold of
`trkByte` over the record's data bytes (`scanBytes_trk`); every stretch of data bytes is terminated lines followed by an unterminated rest
(`splitEol`); so, with `TrackBytes.fold_record`, after `header_*` the loop leaves `scanRec` of the record's line counts (`infoBody_trk`):
the per-record step of `scanFile`, the object of `bplrpl_sound`. -/
namespace EaselModel.Sqio.TrackReader
open EaselModel.Sqio EaselModel.Sqio.Fold EaselModel.Sqio.BodySpec EaselModel.Sqio.Tracker EaselModel.Sqio.GeomBridge
open EaselModel.Sqio.TrackBytes EaselModel.Sqio.DataScan EaselModel.Sqio.Refine Tables

/-- a byte that is not sequence data stops the byte fold -/
theorem stepByte_stop (inmap : Bytes) (s : SS) (c : UInt8) (hd : isData inmap c = false) : (stepByte inmap s c).2 ≠ .ok := by
  unfold stepByte
  by_cases hc : c ≥ 128
  · simp [hc]
  · simp only [hc, if_false]
    cases hx : inmap[c.toNat]? with
    | none => simp
    | some x =>
      have hcode : code inmap c = x := by
        unfold code; simp only [hc, if_false]
        rw [Array.getD_eq_getD_getElem?, hx]; rfl
      simp only [isData, hcode, Bool.or_eq_false_iff, decide_eq_false_iff_not, beq_eq_false_iff_ne] at hd
      obtain ⟨⟨h1, h2⟩, h3⟩ := hd
      have e2 : (x == dsqEol) = false := by simpa using h2
      have e3 : (x != dsqIgnored) = true := by simpa using h3
      simp only [h1, if_false, e2, Bool.false_eq_true]
      split
      · simp
      · split
        · simp
        · simp [e3]

/-- the byte fold over `l` = the tracker fold over the data bytes in front of the first non-data byte -/
theorem scanBytes_trk (inmap : Bytes) (hm : inmap.size = 128) (M : Nat) (l : List UInt8) :
    ∀ (s : SS) (k : Nat), s.nres + l.length ≤ M →
    (scanBytes inmap M l s k).1.trk = (l.takeWhile (isData inmap)).foldl (trkByte inmap) s.trk := by
  induction l with
  | nil => intro s k _; rfl
  | cons c rest ih =>
    intro s k hM
    simp only [List.length_cons] at hM
    have hlt : s.nres < M := by omega
    obtain ⟨p1, p2, _, p4⟩ := stepByte_props inmap s c
    cases hd : isData inmap c
    · have hne := stepByte_stop inmap s c hd
      have hs := p4 hne
      simp only [List.takeWhile_cons, hd, Bool.false_eq_true, if_false, List.foldl_nil]
      unfold scanBytes
      simp only [hlt, if_true]
      rcases hstep : stepByte inmap s c with ⟨s', st⟩
      rw [hstep] at hne hs
      simp only at hne hs
      cases st <;> simp_all
    · obtain ⟨q1, q2⟩ := stepByte_trk inmap hm s c hd
      simp only [List.takeWhile_cons, hd, if_true, List.foldl_cons]
      unfold scanBytes
      simp only [hlt, if_true]
      rcases hstep : stepByte inmap s c with ⟨s', st⟩
      rw [hstep] at q1 q2 p2
      simp only at q1 q2 p2
      subst q1
      simp only
      rw [ih s' (k + 1) (by omega), q2]

/-- data bytes cut at their end-of-line bytes: terminated lines and the unterminated rest -/
def splitEol (inmap : Bytes) : List UInt8 → List UInt8 → List (List UInt8) × List UInt8
  | [], cur => ([], cur)
  | c :: t, cur =>
    if code inmap c == dsqEol then let r := splitEol inmap t []; ((cur ++ [c]) :: r.1, r.2)
    else splitEol inmap t (cur ++ [c])

theorem splitEol_spec (inmap : Bytes) (d : List UInt8) : ∀ cur : List UInt8, (∀ c ∈ cur, code inmap c ≠ dsqEol) →
    cur ++ d = (splitEol inmap d cur).1.flatten ++ (splitEol inmap d cur).2 ∧
    (∀ l ∈ (splitEol inmap d cur).1, Terminated inmap l) ∧ (∀ c ∈ (splitEol inmap d cur).2, code inmap c ≠ dsqEol) := by
  induction d with
  | nil => intro cur hc; exact ⟨by simp [splitEol], by simp [splitEol], by simpa [splitEol] using hc⟩
  | cons c t ih =>
    intro cur hc
    by_cases he : code inmap c = dsqEol
    · have hb : (code inmap c == dsqEol) = true := by simpa using he
      obtain ⟨i1, i2, i3⟩ := ih [] (by simp)
      simp only [splitEol, hb, if_true, List.flatten_cons, List.mem_cons]
      refine ⟨?_, ?_, i3⟩
      · simp only [List.nil_append] at i1
        rw [List.append_assoc, ← i1]; simp
      · intro l hl
        rcases hl with rfl | hl
        · exact ⟨cur, c, rfl, hc, he⟩
        · exact i2 l hl
    · have hb : (code inmap c == dsqEol) = false := by simpa using he
      have := ih (cur ++ [c]) (by
        intro x hx; rw [List.mem_append, List.mem_singleton] at hx
        rcases hx with hx | rfl
        · exact hc x hx
        · exact he)
      simp only [splitEol, hb, Bool.false_eq_true, if_false]
      simpa [List.append_assoc] using this

/-- the line counts of a stretch of data bytes, as the tracker sees them -/
def recOfData (inmap : Bytes) (d : List UInt8) : Rec :=
  recOf (isRes inmap) (splitEol inmap d []).1 (splitEol inmap d []).2

/-- **the byte fold over a record = `scanRec` of its line counts**: from the state `header_*` leaves (`Tracker.step t Ev.hdr`), the fold
    over the rest of the file `l` stops at the first non-data byte and leaves `scanRec t` of the data bytes' line counts -/
theorem scanBytes_record (inmap : Bytes) (hm : inmap.size = 128) (M : Nat) (l : List UInt8) (t : Track) (ln : Int) (hM : l.length ≤ M) :
    (scanBytes inmap M l ⟨Tracker.step t Ev.hdr, ln, 0⟩ 0).1.trk = scanRec t (recOfData inmap (l.takeWhile (isData inmap))) := by
  rw [scanBytes_trk inmap hm M l _ 0 (by simpa using hM)]
  obtain ⟨s1, s2, s3⟩ := splitEol_spec inmap (l.takeWhile (isData inmap)) [] (by simp)
  simp only [List.nil_append] at s1
  show List.foldl (trkByte inmap) (Tracker.step t Ev.hdr) (l.takeWhile (isData inmap)) = _
  conv => lhs; rw [s1]
  exact fold_record inmap _ _ s2 s3 t

/-- **the ReadInfo body loop, for every read-block size**: from a handle standing behind a record's header (`header_*` has just reset the
    tracker: `a.trk = step t hdr`), the loop `loadbuf`/`seebuf` to the end of the record's data leaves the tracker `scanRec t` of the
    line counts of the record's data bytes (the bytes from the cursor to the first byte that is not sequence data) -/
theorem infoBody_trk (a : Ascii) (sq : Sq) (t : Track) (fuel : Nat) (h : WF a) (ht : a.trk = Tracker.step t Ev.hdr)
    (hm : a.inmap.size = 128) (hfuel : (fileFrom a).length + 1 < fuel)
    (hst : (dataFold a (fileFrom a).length).2.2 ≠ .eformat) :
    (scanLoop false fuel a sq).1.trk = scanRec t (recOfData a.inmap ((fileFrom a).takeWhile (isData a.inmap))) := by
  have hok : Track.Ok a.trk := by rw [ht]; exact reset_ok t
  obtain ⟨_, _, k3⟩ := scanLoop_info fuel a sq (fileFrom a).length h hok hm (Nat.le_refl _) (by split <;> omega)
  obtain ⟨_, hp, _, _⟩ := k3 hst
  have htrk : (scanLoop false fuel a sq).1.trk = (dataFold a (fileFrom a).length).1.trk := congrArg (fun p => p.2.2.2.1) hp
  rw [htrk]
  unfold dataFold
  rw [ht]
  exact scanBytes_record a.inmap hm _ _ t _ (Nat.le_refl _)

end EaselModel.Sqio.TrackReader
