import EaselModel.Sqio.EmblTotalAll
import EaselModel.Sqio.EmblSeqTotal
/-! # Every history of whole-record calls on a line-based file is total (C02, round 6b)

`sqascii_Read` and `sqascii_ReadSequence` on EMBL / UniProt / GenBank / DDBJ files, in ANY order, each on a reused `ESL_SQ`: whatever the
bytes and the block size, the series ends with `eslOK` (every call succeeded), `eslEOF`, or `eslEFORMAT` with a message - never a fault,
no exception. (Each successful call leaves a handle the next call accepts: line-mode well-formedness, a sane line-geometry tracker, the
same input map.) -/
namespace EaselModel.Sqio.EmblTotalAll
open EaselModel.Sqio EaselModel.Sqio.LineSpec EaselModel.Sqio.EmblSpec EaselModel.Sqio.EmblAll EaselModel.Sqio.EmblTotal
open EaselModel.Sqio.Fold EaselModel.Sqio.BodySpec

theorem skipHeader_prog (a : Ascii) (sq : Sq) (w : LWF a) (hf : LineFmt a) (hnc : a.nc ≠ 0) : Prog a (skipHeader a sq) := by
  unfold skipHeader
  rcases hf with k | k | k | k <;> simp only [k] <;> first
    | exact headerEmbl_prog false a sq w hnc
    | exact headerGenbank_prog false a sq w hnc

theorem readSequence_more (a : Ascii) (sq : Sq) (w : LWF a) (hf : LineFmt a) (tok : Track.Ok a.trk) (hm : a.inmap.size = 128)
    (hmap : MapOk a.inmap (mapOf a sq)) (hok : (readSequence a sq).2.2 = .ok) :
    rl (readSequence a sq).1 < rl a ∧ Track.Ok (readSequence a sq).1.trk ∧ Same sq (readSequence a sq).2.1 := by
  rw [EmblTotal.readSequence_eq] at hok ⊢
  by_cases h0 : (a.nc == 0) = true
  · simp only [h0, if_true] at hok; cases hok
  have hnc : a.nc ≠ 0 := by simpa using h0
  simp only [h0, Bool.false_eq_true, if_false] at hok ⊢
  obtain ⟨g, _, _⟩ := skipHeader_good a sq w hf
  obtain ⟨sd, sa⟩ := skipHeader_same a sq hf
  obtain ⟨p1, p2⟩ := skipHeader_prog a sq w hf hnc
  generalize skipHeader a sq = p at g sd sa p1 p2 hok
  obtain ⟨b, q, st⟩ := p
  simp only at g sd sa p1 p2 hok ⊢
  by_cases hst : (st != Status.ok) = true
  · simp only [hst, if_true] at hok
    rw [hok] at hst; exact absurd hst (by decide)
  · have hst' : st = .ok := by simpa using hst
    simp only [hst, Bool.false_eq_true, if_false] at hok ⊢
    have hinv : BInv b q := ⟨g.w, by rw [g.trk]; exact tok, by rw [g.inm]; exact hm,
      by rw [mapOf_same g.inm sd sa, g.inm]; exact hmap⟩
    obtain ⟨m1, m2, m3⟩ := readBody_more b q hinv (hf.of_eq g.fmt)
    exact ⟨Nat.lt_of_le_of_lt m1 (p2 hst'), m2 hok, Same.trans ⟨sd, sa⟩ m3⟩

/-- a history of whole-record calls (`false` = `sqascii_Read`, `true` = `sqascii_ReadSequence`), each on the reused `ESL_SQ`; it stops
    at the first status that is not `eslOK` -/
def runCalls : List Bool → Ascii → Sq → Ascii × Status
  | [], a, _ => (a, .ok)
  | c :: cs, a, sq =>
    if (if c then readSequence a sq.reuse else read a sq.reuse).2.2 == Status.ok then
      runCalls cs (if c then readSequence a sq.reuse else read a sq.reuse).1 (if c then readSequence a sq.reuse else read a sq.reuse).2.1
    else ((if c then readSequence a sq.reuse else read a sq.reuse).1, (if c then readSequence a sq.reuse else read a sq.reuse).2.2)

/-- **every history of `sqascii_Read` / `sqascii_ReadSequence` calls on an EMBL / UniProt / GenBank / DDBJ file is total** -/
theorem runCalls_total : ∀ (cs : List Bool) (a : Ascii) (sq : Sq), LWF a → LineFmt a → Track.Ok a.trk → a.inmap.size = 128 →
    MapOk a.inmap (mapOf a sq) →
    ((runCalls cs a sq).2 = .ok ∨ (runCalls cs a sq).2 = .eof ∨ (runCalls cs a sq).2 = .eformat) ∧
    ((runCalls cs a sq).2 = .eformat → (runCalls cs a sq).1.haveErr = true) ∧ (runCalls cs a sq).1.exc = a.exc := by
  intro cs
  induction cs with
  | nil => intro a sq _ _ _ _ _; exact ⟨Or.inl rfl, fun k => (by cases k), rfl⟩
  | cons c cs ih =>
    intro a sq w hf tok hm hmap
    have hmap' : MapOk a.inmap (mapOf a sq.reuse) := hmap
    have tot : ∀ (r : Ascii × Sq × Status),
        ((r.2.2 = .ok ∨ r.2.2 = .eof ∨ r.2.2 = .eformat) ∧ (r.2.2 = .eformat → r.1.haveErr = true) ∧ r.1.exc = a.exc ∧ LWF r.1 ∧
          r.1.fmt = a.fmt ∧ r.1.file = a.file ∧ r.1.inmap = a.inmap) →
        (r.2.2 = .ok → rl r.1 < rl a ∧ Track.Ok r.1.trk ∧ Same sq.reuse r.2.1) →
        ((if r.2.2 == Status.ok then runCalls cs r.1 r.2.1 else (r.1, r.2.2)).2 = .ok ∨ (if r.2.2 == Status.ok then runCalls cs r.1 r.2.1 else (r.1, r.2.2)).2 = .eof ∨ (if r.2.2 == Status.ok then runCalls cs r.1 r.2.1 else (r.1, r.2.2)).2 = .eformat) ∧
        ((if r.2.2 == Status.ok then runCalls cs r.1 r.2.1 else (r.1, r.2.2)).2 = .eformat → (if r.2.2 == Status.ok then runCalls cs r.1 r.2.1 else (r.1, r.2.2)).1.haveErr = true) ∧ (if r.2.2 == Status.ok then runCalls cs r.1 r.2.1 else (r.1, r.2.2)).1.exc = a.exc := by
      intro r ⟨t1, t2, t3, t4, t5, _, t7⟩ hmore
      obtain ⟨b, q, st⟩ := r
      simp only at t1 t2 t3 t4 t5 t7 hmore ⊢
      rcases t1 with k | k | k
      · subst k
        obtain ⟨_, m2, m3⟩ := hmore rfl
        have e : (Status.ok == Status.ok) = true := by decide
        simp only [e, if_true]
        obtain ⟨i1, i2, i3⟩ := ih b q t4 (hf.of_eq t5) m2 (by rw [t7]; exact hm)
          (by rw [mapOf_same (a := a) (sq := sq) t7 m3.1 m3.2, t7]; exact hmap)
        exact ⟨i1, i2, i3.trans t3⟩
      · subst k
        have e : (Status.eof == Status.ok) = false := by decide
        simp only [e, Bool.false_eq_true, if_false]
        exact ⟨Or.inr (Or.inl (by first | trivial | rfl)), fun k => (by cases k), t3⟩
      · subst k
        have e : (Status.eformat == Status.ok) = false := by decide
        simp only [e, Bool.false_eq_true, if_false]
        exact ⟨Or.inr (Or.inr (by first | trivial | rfl)), fun _ => t2 (by first | trivial | rfl), t3⟩
    unfold runCalls
    cases c
    · simp only [Bool.false_eq_true, if_false]
      exact tot (read a sq.reuse) (read_linebased_total a sq.reuse w hf tok hm hmap') (read_more a sq.reuse w hf tok hm hmap')
    · simp only [if_true]
      exact tot (readSequence a sq.reuse) (readSequence_linebased_total a sq.reuse w hf tok hm hmap')
        (readSequence_more a sq.reuse w hf tok hm hmap')

/-- … from `esl_sqfile_Open` on (`openLine` = the handle open yields for EMBL / UniProt / GenBank / DDBJ): every byte string, every block
    size `B ≥ 1`, every history of `sqascii_Read` / `sqascii_ReadSequence` calls -/
theorem runCalls_open_total (file : Bytes) (B abc fmt : Nat) (eofOk : Bool) (inmap0 inmap1 : Bytes) (hB : 1 ≤ B)
    (hf : fmt = 2 ∨ fmt = 3 ∨ fmt = 4 ∨ fmt = 5) (hm : inmap1.size = 128) (sq : Sq)
    (hmap : MapOk inmap1 (if sq.digital then abcInmap sq.abc else inmap1)) (cs : List Bool) :
    ((runCalls cs (openLine file B abc fmt eofOk inmap0 inmap1) sq).2 = .ok ∨
     (runCalls cs (openLine file B abc fmt eofOk inmap0 inmap1) sq).2 = .eof ∨
     (runCalls cs (openLine file B abc fmt eofOk inmap0 inmap1) sq).2 = .eformat) ∧
    ((runCalls cs (openLine file B abc fmt eofOk inmap0 inmap1) sq).2 = .eformat →
      (runCalls cs (openLine file B abc fmt eofOk inmap0 inmap1) sq).1.haveErr = true) ∧
    (runCalls cs (openLine file B abc fmt eofOk inmap0 inmap1) sq).1.exc = false := by
  obtain ⟨hl, hfmt⟩ := openLine_lsim file B B abc fmt eofOk inmap0 inmap1 hB hB
  have w0 : LWF { file := file, B := B, abc := abc, fmt := fmt, eofIsOk := eofOk, linebased := true, inmap := inmap0 } :=
    lwf_fresh _ rfl (by show (0 : Int) ≠ 1; omega) hB rfl rfl rfl rfl rfl rfl
  have g := (loadbuf_good _ w0).1
  have htrk : (openLine file B abc fmt eofOk inmap0 inmap1).trk = ({} : Track) := g.trk
  have hexc : (openLine file B abc fmt eofOk inmap0 inmap1).exc = false := g.exc
  obtain ⟨r1, r2, r3⟩ := runCalls_total cs _ sq hl.w1 (by unfold LineFmt; rw [hfmt]; exact hf)
    (by rw [htrk]; exact ⟨by decide, by decide⟩) hm hmap
  exact ⟨r1, r2, r3.trans hexc⟩

/-- non-vacuity: an EMBL file with two records, B = 3: ReadSequence then Read succeed, the third call answers `eslEOF` -/
example : (runCalls [true, false, false]
    (openLine (("ID   X\nSQ   \n  ac\n//\nID   Y\nSQ   \n  gt\n//\n").toUTF8.data) 3 0 2 false (inmapEmbl 0) (inmapEmbl 0)) {}).2 = .eof := by
  decide +kernel

end EaselModel.Sqio.EmblTotalAll
