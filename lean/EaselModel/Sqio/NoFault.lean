import EaselModel.Sqio.Refine
/-! # The buffer scanners never leave the buffer (C02) -/
namespace EaselModel.Sqio.NoFault
open EaselModel.Sqio.Refine

/-- every position inside the buffer is readable -/
def Rd (a : Ascii) : Prop := ∀ i, i < a.nc → ∃ x, a.bufGet i = some x

theorem WF.rd {a : Ascii} (h : WF a) : Rd a := fun i hi =>
  let ⟨x, hx, _, _⟩ := bufGet_window a h i hi; ⟨x, hx⟩

theorem inmap_get (m : Bytes) (hm : m.size = 128) (sym : UInt8) (hs : ¬ sym ≥ 128) : ∃ x, m[sym.toNat]? = some x := by
  have : sym.toNat < m.size := by
    rw [hm]
    have : sym < 128 := by simpa using hs
    exact this
  exact ⟨m[sym.toNat], by simp [this]⟩

/-- `seebuf`'s loop: no fault, the scan position stays inside the buffer -/
theorem seebufLoop_safe (a : Ascii) (hr : Rd a) (hm : a.inmap.size = 128) (maxn bpos nres nres2 le : Nat) (trk : Track) (ln : Int)
    (hb : bpos ≤ a.nc) :
    (seebufLoop a maxn bpos nres nres2 le trk ln).1 ≠ .fault ∧
    bpos ≤ (seebufLoop a maxn bpos nres nres2 le trk ln).2.2.1 ∧ (seebufLoop a maxn bpos nres nres2 le trk ln).2.2.1 ≤ a.nc := by
  fun_induction seebufLoop a maxn bpos nres nres2 le trk ln
  case case1 => exfalso; rename_i h hx; obtain ⟨y, hy⟩ := hr _ h.2; simp [hy] at hx
  case case2 => refine ⟨by simp, Nat.le_refl _, ?_⟩; omega
  case case3 => exfalso; rename_i sym _ hlt hnone; obtain ⟨y, hy⟩ := inmap_get a.inmap hm sym hlt; simp [hy] at hnone
  case case4 => rename_i ih; have h3 := ih (by omega); exact ⟨h3.1, by omega, h3.2.2⟩
  case case5 => rename_i ih; simp only [dite_eq_ite] at ih; have h3 := ih (by omega); exact ⟨h3.1, by omega, h3.2.2⟩
  case case6 => refine ⟨by simp, Nat.le_refl _, ?_⟩; omega
  case case7 => refine ⟨by simp, Nat.le_refl _, ?_⟩; omega
  case case8 => refine ⟨by simp, Nat.le_refl _, ?_⟩; omega
  case case9 => rename_i ih; have h3 := ih (by omega); exact ⟨h3.1, by omega, h3.2.2⟩
  case case10 => refine ⟨by simp, Nat.le_refl _, ?_⟩; omega

/-- `seebuf` = its loop + bookkeeping: the result fields, and the fields of the handle that do not change -/
theorem seebuf_fields (a : Ascii) (maxn : Option Nat) :
    (seebuf a maxn).2.st = (seebufLoop a (match maxn with | none => a.nc | some m => m) a.bpos 0 0 a.bpos a.trk a.linenumber).1 ∧
    (seebuf a maxn).2.endpos = (seebufLoop a (match maxn with | none => a.nc | some m => m) a.bpos 0 0 a.bpos a.trk a.linenumber).2.2.1 ∧
    (seebuf a maxn).1.bpos = a.bpos ∧ (seebuf a maxn).1.nc = a.nc ∧ (seebuf a maxn).1.boff = a.boff ∧
    (seebuf a maxn).1.file = a.file ∧ (seebuf a maxn).1.linebased = a.linebased ∧ (seebuf a maxn).1.recording = a.recording ∧
    (seebuf a maxn).1.B = a.B ∧ (seebuf a maxn).1.mpos = a.mpos ∧ (seebuf a maxn).1.mn = a.mn ∧ (seebuf a maxn).1.moff = a.moff ∧
    (seebuf a maxn).1.fpos = a.fpos := by
  cases maxn <;> (simp only [seebuf]; split <;> simp)

/-- `seebuf()` itself: never a fault, `endpos` inside the buffer, and only bookkeeping fields change -/
theorem seebuf_safe (a : Ascii) (h : WF a) (hm : a.inmap.size = 128) (maxn : Option Nat) :
    (seebuf a maxn).2.st ≠ .fault ∧ a.bpos ≤ (seebuf a maxn).2.endpos ∧ (seebuf a maxn).2.endpos ≤ a.nc ∧
    WF (seebuf a maxn).1 ∧ (seebuf a maxn).1.bpos = a.bpos ∧ (seebuf a maxn).1.nc = a.nc ∧ (seebuf a maxn).1.boff = a.boff ∧
    (seebuf a maxn).1.file = a.file := by
  have key := seebufLoop_safe a (WF.rd h) hm (match maxn with | none => a.nc | some m => m) a.bpos 0 0 a.bpos a.trk a.linenumber h.bposLe
  obtain ⟨f1, f2, f3, f4, f5, f6, f7, f8, f9, f10, f11, f12, f13⟩ := seebuf_fields a maxn
  refine ⟨by rw [f1]; exact key.1, by rw [f2]; exact key.2.1, by rw [f2]; exact key.2.2, ?_, f3, f4, f5, f6⟩
  exact ⟨by rw [f7]; exact h.block, by rw [f8]; exact h.norec, by rw [f9]; exact h.bpos1, by rw [f10, f11]; exact h.full,
         by rw [f12]; exact h.moff0, by rw [f12, f11, f13]; exact h.fposEq, by rw [f13, f6]; exact h.fposLe,
         by rw [f4, f11]; exact h.ncLe, by rw [f5, f12, f11, f4]; exact h.boffEq, by rw [f3, f4]; exact h.bposLe⟩

/-- residues for `seebuf` are residues for `addbuf`, and what `seebuf` skips `addbuf` skips: the digital-mode `addbuf` uses the
    alphabet's own input map while `seebuf` used the file's; checked over all 128 symbols of the three standard alphabets
    (tables regenerated from esl_alphabet.c on every run) -/
theorem tables_residue_class_agree :
    ∀ abc ∈ [1, 2, 3], ∀ c : Fin 128,
      ((inmapFasta abc).getD c.val 0 ≤ 127 → (abcInmap abc).getD c.val 255 ≤ 127) ∧
      (((inmapFasta abc).getD c.val 0 = Tables.dsqIgnored ∨ (inmapFasta abc).getD c.val 0 = Tables.dsqEol) → (abcInmap abc).getD c.val 0 > 127) ∧
      (inmapFasta abc).size = 128 := by decide +kernel

theorem inmapFasta_text_size : (inmapFasta 0).size = 128 := by decide +kernel

end EaselModel.Sqio.NoFault
