import EaselModel.Msafile.Guess
import EaselModel.Sqio.Model
/-! # Alignment files read sequentially as sequences (C02)

`esl_sqfile_Open` with an alignment format (Stockholm, Pfam, A2M, PSI-BLAST, SELEX, aligned FASTA, Clustal, Clustal-like, PHYLIP
interleaved / sequential) - declared, or reached because `sqascii_GuessFileFormat` could not name an unaligned format - hands the
file to the msafile module (`esl_msafile_Open(NULL, filename, NULL, format, NULL, &afp)`, text mode; `esl_sqfile_OpenDigital` then
`esl_msafile_SetDigital`).  Every reading call of `esl_sqio_ascii.c` has an `esl_sqio_IsAlignment` branch: load the next alignment
with `esl_msafile_Read` when the current one is used up, take row `idx` with `esl_sq_FetchFromMSA` (dealigning), copy it into the
caller's `ESL_SQ`.

The alignment readers are NOT re-modelled here: `Opened.read` is the C01 model (`Msafile/*.lean`, imported, not edited), on the
abstract line reader (`splitLines`; its refinement by `esl_buffer_GetLine` for every page size is C05).  This file models
`esl_sq_FetchFromMSA`, `esl_strdealign` / `esl_abc_XDealign`, and the alignment branches of `sqascii_Read`, `sqascii_ReadInfo`,
`sqascii_ReadSequence`, `sqascii_ReadWindow`, `sqascii_ReadBlock` (short mode), line by line.  Memory accesses of that code that
depend on the alignment (row `idx`, the `alen + 2` codes of a digital row, the window slice) are bounds-checked: `Status.fault`. -/
namespace EaselModel.Sqio.MsaSeq
open EaselModel.Msafile (Msa Opened Res AbcType Fmt FmtSel AbcSel OpenRes Abc abcOfType)

abbrev LBytes := List UInt8

/-- Sqio alphabet selector (0 text, 1 DNA, 2 RNA, 3 amino) → the alphabet handed to `esl_msafile_SetDigital` -/
def abcTypeOf (abc : Nat) : Option AbcType :=
  if abc == 1 then some .dna else if abc == 2 then some .rna else if abc == 3 then some .amino else none

/-- `eslMSAFILE_*` -/
def fmtCodeOf : Fmt → Nat
  | .stockholm => 101 | .pfam => 102 | .a2m => 103 | .psiblast => 104 | .selex => 105
  | .afa => 106 | .clustal => 107 | .clustallike => 108 | .phylip => 109 | .phylips => 110

/-- `esl_sqio_EncodeFormat` falling through to `esl_msafile_EncodeFormat` -/
def fmtOfName (s : String) : Option Fmt :=
  match s with
  | "stockholm" => some .stockholm | "pfam" => some .pfam | "a2m" => some .a2m | "psiblast" => some .psiblast
  | "selex" => some .selex | "afa" => some .afa | "clustal" => some .clustal | "clustallike" => some .clustallike
  | "phylip" => some .phylip | "phylips" => some .phylips
  | _ => none

/-- the part of `ESL_SQASCII_DATA` the alignment branches use: `afp` (resolved format / alphabet / name width + the lines not yet
    consumed), `msa`, `idx`, the error buffer flag; `exc` = an `ESL_EXCEPTION` was raised -/
structure MsaH where
  o : Opened
  abc : Nat := 0
  lines : List LBytes := []
  msa : Option Msa := none
  idx : Int := 0
  haveErr : Bool := false
  exc : Bool := false

/-- `esl_sqfile_Open(filename, format, …)` (+ `esl_sqfile_SetDigital`) for an alignment format: `fsel = .auto` is the case "format
    still unknown after `sqascii_GuessFileFormat`".  Any failure of `esl_msafile_Open` is reported as `eslEFORMAT`. -/
def openMsa (file : Bytes) (fname : LBytes) (fsel : FmtSel) (abc : Nat) : Option MsaH × Status :=
  let lines := EaselModel.Msafile.splitLines file.toList
  match EaselModel.Msafile.openModel fsel .text (some fname) lines with
  | .ok o => (some { o := { o with abc := abcTypeOf abc }, abc := abc, lines := lines }, .ok)
  | .enoformat => (none, .eformat)
  | .enoalphabet => (none, .eformat)
  | .fault => (none, .fault)

/-! ## `esl_sq_FetchFromMSA` -/

def cstrL (b : LBytes) : LBytes := b.takeWhile (· != 0)

/-- `strchr("-_.~", c) != NULL` for a non-NUL `c` -/
def isGapChar (c : UInt8) : Bool := c == 45 || c == 95 || c == 46 || c == 126

/-- `esl_strdealign(sq->seq, sq->seq, "-_.~", &n)` on the C string `row` -/
def dealignText (row : LBytes) : LBytes := (cstrL row).filter (fun c => !isGapChar c)

/-- `esl_abc_XDealign(abc, dsq, dsq, &n)` on `dsq[1..]` up to the sentinel: gap (`K`) and missing-data (`Kp-1`) codes go -/
def dealignDigital (k kp : Nat) (codes : LBytes) : LBytes :=
  (codes.takeWhile (· != 255)).filter (fun x => !(x.toNat == k) && !(x.toNat == kp - 1))

def optRow (o : EaselModel.Msafile.OptRows) (i : Nat) : Option LBytes :=
  match o with
  | none => none
  | some l => l.getD i none

/-- what `esl_sq_FetchFromMSA(msa, which, &tmpsq)` builds, as far as the reading calls look at it: `eod` when `which` is not a row;
    `fault` when the row arrays do not hold row `which`, or a digital row does not hold `alen + 2` codes (`esl_abc_dsqdup` copies
    exactly that many).  `source` is the alignment's name. -/
def fetchFromMSA (abc : Option AbcType) (m : Msa) (which : Int) : Option Sq × Status :=
  if which ≥ (m.nseq : Int) || which < 0 then (none, .eod) else
  let i := which.toNat
  let name := cstrL (m.names.getD i [])
  let acc := (optRow m.sqacc i).map cstrL |>.getD []
  let desc := (optRow m.sqdesc i).map cstrL |>.getD []
  let src := (m.name.map cstrL).getD []
  if !m.digital then
    match m.aseq[i]? with
    | none => (none, .fault)
    | some row =>
      let seq := dealignText row
      (some { digital := false, abc := 0, name := name.toArray, acc := acc.toArray, desc := desc.toArray, source := src.toArray,
              nalloc := name.length + 1, dalloc := desc.length + 1, seq := seq.toArray, salloc := (cstrL row).length + 1,
              start := 1, end_ := seq.length, C := 0, W := seq.length, L := seq.length }, .ok)
  else
    match m.ax[i]?, abc with
    | some row, some t =>
      if row.length != m.alen + 2 then (none, .fault) else
      let a := abcOfType t
      let seq := dealignDigital a.k a.kp (row.drop 1)
      (some { digital := true, abc := (if t == .dna then 1 else if t == .rna then 2 else 3),
              name := name.toArray, acc := acc.toArray, desc := desc.toArray, source := src.toArray,
              nalloc := name.length + 1, dalloc := desc.length + 1, seq := seq.toArray, salloc := m.alen + 2,
              start := 1, end_ := seq.length, C := 0, W := seq.length, L := seq.length }, .ok)
    | _, _ => (none, .fault)

/-! ## the common prologue: "we need to load a new alignment?" -/

/-- `ascii->msa == NULL || ascii->idx >= ascii->msa->nseq` -/
def needsLoad (h : MsaH) : Bool :=
  match h.msa with
  | none => true
  | some m => h.idx ≥ (m.nseq : Int)

/-- `esl_msa_Destroy(ascii->msa); status = esl_msafile_Read(ascii->afp, &(ascii->msa)); … ascii->idx = 0` -/
def loadMsa (h : MsaH) : MsaH × Status :=
  match h.o.read h.lines with
  | (.ok m, rest) => ({ h with msa := some m, lines := rest, idx := 0 }, .ok)
  | (.eof, rest) => ({ h with msa := none, lines := rest }, .eof)
  | (.eformat _, rest) => ({ h with msa := none, lines := rest, haveErr := true }, .eformat)
  | (.fault, rest) => ({ h with msa := none, lines := rest }, .fault)
  | (.exc, rest) => ({ h with msa := none, lines := rest, exc := true }, .einconceivable)

/-- `if (ascii->msa == NULL || ascii->idx >= ascii->msa->nseq) { … }` -/
def needMsa (h : MsaH) : MsaH × Status := if needsLoad h then loadMsa h else (h, .ok)

/-- prologue + `esl_sq_FetchFromMSA(ascii->msa, ascii->idx, &tmpsq)` -/
def nextRow (h : MsaH) : MsaH × Option Sq × Status :=
  let (h, st) := needMsa h
  if st != .ok then (h, none, st) else
  match h.msa with
  | none => (h, none, .fault)
  | some m =>
    let (t, st) := fetchFromMSA h.o.abc m h.idx
    (h, t, st)

/-- `esl_sq_GrowTo(sq, tmpsq->n); esl_sq_Copy(tmpsq, sq)` (same mode on both sides): names through `esl_sq_Set*` (grow when the
    string does not fit), residues through `strcpy` / `esl_abc_dsqcpy` after `esl_sq_GrowTo` -/
def copyInto (dst src : Sq) : Sq :=
  let dst := dst.growTo src.n
  { dst with name := src.name, acc := src.acc, desc := src.desc, source := src.source,
             nalloc := if src.name.size ≥ dst.nalloc then src.name.size + 1 else dst.nalloc,
             dalloc := if src.desc.size ≥ dst.dalloc then src.desc.size + 1 else dst.dalloc,
             seq := src.seq, start := src.start, end_ := src.end_, C := src.C, W := src.W, L := src.L,
             roff := src.roff, doff := src.doff, hoff := src.hoff, eoff := src.eoff }

/-- `sqascii_Read()` = `sqascii_ReadSequence()`, alignment branch -/
def read (h : MsaH) (sq : Sq) : MsaH × Sq × Status :=
  let (h, t, st) := nextRow h
  match t with
  | none => (h, sq, st)
  | some t =>
    if sq.digital != t.digital then (h, sq, .fault) else
    let sq := copyInto sq t
    let n : Int := sq.n
    ({ h with idx := h.idx + 1 }, { sq with start := 1, end_ := n, C := 0, W := n, L := n }, .ok)

def readSequence (h : MsaH) (sq : Sq) : MsaH × Sq × Status := read h sq

/-- `sqascii_ReadInfo()`, alignment branch: the copy is made of the emptied `tmpsq` (its `n`, `L` are still the row's), then
    `n = start = end = C = W = 0` -/
def readInfo (h : MsaH) (sq : Sq) : MsaH × Sq × Status :=
  let (h, t, st) := nextRow h
  match t with
  | none => (h, sq, st)
  | some t =>
    if sq.digital != t.digital then (h, sq, .fault) else
    let sq := copyInto sq t
    ({ h with idx := h.idx + 1 }, { sq with seq := #[], start := 0, end_ := 0, C := 0, W := 0 }, .ok)

/-! ## `sqascii_ReadWindow()`, alignment branch -/

/-- forward strand: `C = MIN(sq->n, C); start = end - C + 1; end = MIN(L, end + W); n = end - start + 1; W = n - C`
    → (C, start, end, n, W) -/
def fwdCoords (n0 end0 L C W : Int) : Int × Int × Int × Int × Int :=
  let c := min n0 C
  let st := end0 - c + 1
  let en := min L (end0 + W)
  let n := en - st + 1
  (c, st, en, n, n - c)

/-- reverse strand (`W < 0`), as repaired (`fix:` C02-readwindow-msa-reverse): `C = MIN(sq->n, C);
    end = (start == 0 ? L : end + C - 1); start = MAX(1, end + W - C + 1); n = end - start + 1; W = n - C` -/
def revCoords (n0 start0 end0 L C W : Int) : Int × Int × Int × Int × Int :=
  let c := min n0 C
  let en := if start0 == 0 then L else end0 + c - 1
  let st := max 1 (en + W - c + 1)
  let n := en - st + 1
  (c, st, en, n, n - c)

/-- the arithmetic of the tree before the repair: `C = MIN(sq->n, sq->end + C - 1)`, `start = MAX(1, end + W - C - 1)` -/
def revCoordsOld (n0 start0 end0 L C W : Int) : Int × Int × Int × Int × Int :=
  let c := min n0 (end0 + C - 1)
  let en := if start0 == 0 then L else end0 + c - 1
  let st := max 1 (en + W - c - 1)
  let n := en - st + 1
  (c, st, en, n, n - c)

/-- `esl_sq_GrowTo(sq, sq->n); memcpy(sq->seq, tmpsq->seq + sq->start - 1, n)` (digital: `memcpy(sq->dsq + 1, tmpsq->dsq + sq->start, n)`)
    with the coordinates just computed -/
def windowSlice (sq t : Sq) (c st en n w : Int) : Sq :=
  let frag := t.seq.extract (st.toNat - 1) (st.toNat - 1 + n.toNat)
  -- a slice reaching the terminator (only from inconsistent caller state) copies it as a residue
  let frag := if frag.size < n.toNat then frag ++ (Array.range (n.toNat - frag.size)).map (fun _ => if t.digital then (255 : UInt8) else 0) else frag
  { sq.growTo n.toNat with seq := frag, start := st, end_ := en, C := c, W := w }

/-- "Copy annotation": `esl_sq_SetName(sq, tmpsq->name); esl_sq_SetSource(sq, tmpsq->name); SetAccession; SetDesc; roff = doff = eoff = hoff = -1` -/
def copyAnnot (q t : Sq) : Sq :=
  { q with name := t.name, source := t.name, acc := t.acc, desc := t.desc,
           nalloc := if t.name.size ≥ q.nalloc then t.name.size + 1 else q.nalloc,
           dalloc := if t.desc.size ≥ q.dalloc then t.desc.size + 1 else q.dalloc,
           roff := -1, doff := -1, eoff := -1, hoff := -1 }

/-- "Copy the sequence frag", reverse complement when `W < 0`, "Copy annotation": the tail of the alignment branch once the
    coordinates `(C, start, end, n, W)` of a non-empty window are known -/
def windowCopy (h : MsaH) (sq t : Sq) (W : Int) (c st en n w : Int) : MsaH × Sq × Status :=
  -- the memcpy source must lie inside tmpsq's residue array
  if n < 0 || st < 1 || st + n > (t.n : Int) + 2 then (h, sq, .fault) else
  let r := if W < 0 then revcomp (windowSlice sq t c st en n w) else (windowSlice sq t c st en n w, Status.ok, false)
  if r.2.1 == .fault then (h, r.1, .fault) else
  if r.2.1 != .ok then ({ h with haveErr := true, exc := h.exc || r.2.2 }, r.1, .einval) else
  ({ h with exc := h.exc || r.2.2 }, copyAnnot r.1 t, .ok)

/-- "special: if we're initializing a revcomp window read, back ascii->idx up one" -/
def adjIdx (h : MsaH) (sq : Sq) (W : Int) : MsaH := if W < 0 && sq.start == 0 then { h with idx := h.idx - 1 } else h

def readWindowWith (rev : Int → Int → Int → Int → Int → Int → Int × Int × Int × Int × Int)
    (h : MsaH) (sq : Sq) (C W : Int) : MsaH × Sq × Status :=
  match nextRow (adjIdx h sq W) with
  | (h, none, st) => (h, sq, st)
  | (h, some t, _) =>
    if sq.digital != t.digital then (h, sq, .fault) else
    if !(W > 0) && sq.L == -1 then ({ h with exc := true }, sq, .esyntax) else
    -- (the reverse branch starts from the caller's sq->L)
    let r := if W > 0 then fwdCoords sq.n sq.end_ t.L C W else rev sq.n sq.start sq.end_ sq.L C W
    if r.2.2.2.2 == 0 then
      ({ h with idx := h.idx + 1 }, { sq with seq := #[], start := 0, end_ := 0, C := 0, W := 0, L := t.L }, .eod)
    else windowCopy h sq t W r.1 r.2.1 r.2.2.1 r.2.2.2.1 r.2.2.2.2

/-- the working tree's `sqascii_ReadWindow` on an alignment file (46b16f4) -/
def readWindow (h : MsaH) (sq : Sq) (C W : Int) : MsaH × Sq × Status := readWindowWith revCoords h sq C W

/-! ## `sqascii_ReadBlock()`, `!long_target`, on an alignment file -/

def blockLoop : Nat → MsaH → Array Sq → (i size maxSeq : Nat) → MsaH × Array Sq × Nat × Status
  | 0, h, l, i, _, _ => (h, l, i, .ok)
  | fuel + 1, h, l, i, size, maxSeq =>
    if !(i < maxSeq && size < maxResidueCount) then (h, l, i, .ok) else
    match l[i]? with
    | none => (h, l, i, .fault)
    | some q =>
      let (h, q, st) := read h q
      if st != .ok then (h, l, i, st) else
      blockLoop fuel h (l.setIfInBounds i q) (i + 1) (size + q.n) maxSeq

def readBlock (h : MsaH) (b : Block) (maxSeq : Int) : MsaH × Block × Status :=
  let b := { b with count := 0 }
  let maxSeq : Nat := if maxSeq < 1 || maxSeq > b.listSize then b.listSize else maxSeq.toNat
  let (h, l, i, st) := blockLoop (maxSeq + 1) h b.list 0 0 maxSeq
  if st == .fault then (h, { b with list := l, count := i }, .fault) else
  if st != .ok && !(st == .eof && i > 0) then (h, { b with list := l, count := i, complete := true }, st) else
  (h, { b with list := l, count := i, complete := true }, .ok)

end EaselModel.Sqio.MsaSeq
