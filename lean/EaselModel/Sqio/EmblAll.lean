import EaselModel.Sqio.EmblSpec
import EaselModel.Sqio.ParseFasta
/-! # Line-based formats: `ReadSequence`, `ReadInfo` and the whole-file loop are block-size independent (C04) -/
namespace EaselModel.Sqio.EmblAll
open EaselModel.Sqio EaselModel.Sqio.LineSpec EaselModel.Sqio.EmblSpec

/-- the format code of a line-based format -/
def LineFmt (a : Ascii) : Prop := a.fmt = 2 ∨ a.fmt = 3 ∨ a.fmt = 4 ∨ a.fmt = 5

theorem LineFmt.of_eq {a b : Ascii} (h : b.fmt = a.fmt) (l : LineFmt a) : LineFmt b := by
  unfold LineFmt at *; rw [h]; exact l

/-! ## `skipHeader`, `sqascii_ReadSequence` -/

theorem skipHeader_lsim {a1 a2 : Ascii} (sq : Sq) (h : LSim a1 a2) (hf : LineFmt a1) :
    Rel3 (skipHeader a1 sq) (skipHeader a2 sq) := by
  have hf2 := (keepP_fields h.keep).2.2.2.2.2.1
  unfold skipHeader
  rw [← hf2]
  rcases hf with k | k | k | k <;> simp only [k] <;> first
    | exact headerEmbl_lsim false sq h
    | exact headerGenbank_lsim false sq h

theorem readSequence_eq (a : Ascii) (sq : Sq) : readSequence a sq =
    if a.nc == 0 then (a, sq, .eof) else
    if (skipHeader a sq).2.2 != .ok then skipHeader a sq else readBody (skipHeader a sq).1 (skipHeader a sq).2.1 := rfl

theorem readSequence_lsim {a1 a2 : Ascii} (sq : Sq) (h : LSim a1 a2) (hf : LineFmt a1) :
    Rel3 (readSequence a1 sq) (readSequence a2 sq) := by
  rw [readSequence_eq, readSequence_eq, h.nc]
  obtain ⟨hs, he⟩ := skipHeader_lsim sq h hf
  generalize skipHeader a1 sq = r1 at hs he
  generalize skipHeader a2 sq = r2 at hs he
  obtain ⟨b1, q1, s1⟩ := r1
  obtain ⟨b2, q2, s2⟩ := r2
  simp only at hs he ⊢
  obtain ⟨rfl, rfl⟩ := Prod.mk.inj he
  repeat' split
  all_goals first
    | exact ⟨h, rfl⟩
    | exact ⟨hs, rfl⟩
    | exact readBody_lsim q1 hs

/-! ## the format code (and line-mode well-formedness) is kept by every reading call -/

/-- `b` is a line-mode handle with the format code of `a` -/
def Keeps (a b : Ascii) : Prop := b.fmt = a.fmt ∧ LWF b

theorem Keeps.refl {a : Ascii} (w : LWF a) : Keeps a a := ⟨rfl, w⟩
theorem Keeps.trans {a b c : Ascii} (h1 : Keeps a b) (h2 : Keeps b c) : Keeps a c := ⟨h2.1.trans h1.1, h2.2⟩
theorem Keeps.fail {a b : Ascii} (h : Keeps a b) : Keeps a b.fail := ⟨h.1, (fail_lsim (lsim_refl h.2)).w1⟩

theorem loadbuf_keeps (a : Ascii) (w : LWF a) : Keeps a (loadbuf a).1 :=
  ⟨keepL_fmt (loadbuf_line a w).2.1, (loadbuf_line a w).1⟩

theorem skipLinesWhile_keeps (cond : Bytes → Bool) (fuel : Nat) : ∀ (a : Ascii), LWF a → Keeps a (skipLinesWhile cond fuel a).1 := by
  induction fuel with
  | zero => intro a w; exact Keeps.refl w
  | succ fuel ih =>
    intro a w
    simp only [skipLinesWhile]
    have hl := loadbuf_keeps a w
    generalize loadbuf a = r at hl
    obtain ⟨b, s⟩ := r
    simp only at hl ⊢
    repeat' split
    all_goals first
      | exact Keeps.refl w
      | exact hl
      | exact hl.trans (ih b hl.2)

theorem emblScan_keeps (parse : Bool) (fuel : Nat) : ∀ (a : Ascii) (sq : Sq), LWF a → Keeps a (emblScan parse fuel a sq).1 := by
  induction fuel with
  | zero => intro a sq w; exact Keeps.refl w
  | succ fuel ih =>
    intro a sq w
    simp only [emblScan]
    have hl := loadbuf_keeps a w
    generalize loadbuf a = r at hl
    obtain ⟨b, s⟩ := r
    simp only at hl ⊢
    repeat' split
    all_goals first
      | exact hl
      | exact hl.fail
      | exact hl.trans (ih b _ hl.2)

theorem genbankScan_keeps (parse : Bool) (fuel : Nat) : ∀ (a : Ascii) (sq : Sq), LWF a → Keeps a (genbankScan parse fuel a sq).1 := by
  induction fuel with
  | zero => intro a sq w; exact Keeps.refl w
  | succ fuel ih =>
    intro a sq w
    simp only [genbankScan]
    have hl := loadbuf_keeps a w
    generalize loadbuf a = r at hl
    obtain ⟨b, s⟩ := r
    simp only at hl ⊢
    repeat' split
    all_goals first
      | exact hl
      | exact hl.fail
      | exact hl.trans (ih b _ hl.2)

theorem hdrTail_keeps (r : Ascii × Sq × Status) (w : LWF r.1) : Keeps r.1 (hdrTail r).1 := by
  unfold hdrTail
  have hl := loadbuf_keeps r.1 w
  repeat' split
  all_goals first
    | exact Keeps.refl w
    | exact hl
    | exact hl.fail

theorem emblId_keeps (parse : Bool) (a : Ascii) (sq : Sq) (w : LWF a) : Keeps a (emblId parse a sq).1 := by
  unfold emblId
  repeat' split
  all_goals first
    | exact (Keeps.refl w).fail
    | exact (emblScan_keeps parse _ a _ w).trans (hdrTail_keeps _ (emblScan_keeps parse _ a _ w).2)

theorem gbLocus_keeps (parse : Bool) (a : Ascii) (sq : Sq) (w : LWF a) : Keeps a (gbLocus parse a sq).1 := by
  unfold gbLocus
  repeat' split
  all_goals first
    | exact (Keeps.refl w).fail
    | exact (genbankScan_keeps parse _ a _ w).trans (hdrTail_keeps _ (genbankScan_keeps parse _ a _ w).2)

theorem headerEmbl_keeps (parse : Bool) (a : Ascii) (sq : Sq) (w : LWF a) : Keeps a (headerEmbl parse a sq).1 := by
  rw [headerEmbl_eq]
  have hs := skipLinesWhile_keeps isBlankStr (fuelOf a) a w
  repeat' split
  all_goals first
    | exact Keeps.refl w
    | exact hs
    | exact hs.trans (emblId_keeps parse _ sq hs.2)

theorem headerGenbank_keeps (parse : Bool) (a : Ascii) (sq : Sq) (w : LWF a) : Keeps a (headerGenbank parse a sq).1 := by
  rw [headerGenbank_eq]
  have hs := skipLinesWhile_keeps (fun l => !hasPrefix l "LOCUS   ") (fuelOf a) a w
  repeat' split
  all_goals first
    | exact Keeps.refl w
    | exact hs
    | exact hs.trans (gbLocus_keeps parse _ sq hs.2)

theorem parseHeader_keeps (a : Ascii) (sq : Sq) (w : LWF a) (hf : LineFmt a) : Keeps a (parseHeader a sq).1 := by
  unfold parseHeader
  rcases hf with k | k | k | k <;> simp only [k] <;> first
    | exact headerEmbl_keeps true a sq w
    | exact headerGenbank_keeps true a sq w

theorem skipHeader_keeps (a : Ascii) (sq : Sq) (w : LWF a) (hf : LineFmt a) : Keeps a (skipHeader a sq).1 := by
  unfold skipHeader
  rcases hf with k | k | k | k <;> simp only [k] <;> first
    | exact headerEmbl_keeps false a sq w
    | exact headerGenbank_keeps false a sq w

theorem endEmbl_keeps (a : Ascii) (sq : Sq) (w : LWF a) : Keeps a (endEmbl a sq).1 := by
  unfold endEmbl
  have hl := loadbuf_keeps a w
  generalize loadbuf a = r at hl
  obtain ⟨b, s⟩ := r
  simp only at hl ⊢
  repeat' split
  all_goals first
    | exact (Keeps.refl w).fail
    | exact hl

theorem scanLoop_keeps (fuel : Nat) (a : Ascii) (sq : Sq) (w : LWF a) : Keeps a (scanLoop true fuel a sq).1 :=
  ⟨scanLoop_fmt fuel a sq w, (scanLoop_lsim fuel sq (lsim_refl w)).1.w1⟩

theorem bodyEnd_keeps (b : Ascii) (q : Sq) (st : Status) (ep : Nat) (w : LWF b) (hf : LineFmt b) : Keeps b (bodyEnd b q st ep).1 := by
  unfold bodyEnd
  have hb : LWF { b with bpos := ep } := (setBpos_lsim (lsim_refl w) ep).w1
  rw [parseEnd_line b q hf, parseEnd_line { b with bpos := ep } q hf]
  have h1 := endEmbl_keeps b q w
  have h2 : Keeps b (endEmbl { b with bpos := ep } q).1 := ⟨(endEmbl_keeps _ q hb).1, (endEmbl_keeps _ q hb).2⟩
  repeat' split
  all_goals first
    | exact Keeps.refl w
    | exact (Keeps.refl w).fail
    | exact h1
    | exact h2

theorem bodyFin_fst (r : Ascii × Sq × Status) : (bodyFin r).1 = r.1 := by
  unfold bodyFin
  repeat' split
  all_goals rfl

theorem readBody_keeps (a : Ascii) (sq : Sq) (w : LWF a) (hf : LineFmt a) : Keeps a (readBody a sq).1 := by
  rw [readBody_eq]
  have hs := scanLoop_keeps (fuelOf a) a sq w
  split
  · exact hs
  · rw [bodyFin_fst]
    exact hs.trans (bodyEnd_keeps _ _ _ _ hs.2 (hf.of_eq hs.1))

theorem read_keeps (a : Ascii) (sq : Sq) (w : LWF a) (hf : LineFmt a) : Keeps a (read a sq).1 := by
  rw [read_eq]
  have hp := parseHeader_keeps a sq w hf
  repeat' split
  all_goals first
    | exact Keeps.refl w
    | exact hp
    | exact hp.trans (readBody_keeps _ _ hp.2 (hf.of_eq hp.1))

/-! ## the whole-file loop -/

/-- **reading all records of a line-based file is block-size independent**: the client loop over `sqascii_Read`, from two handles
    on the same line with any block sizes, returns the same records and the same final status -/
theorem read_all_linebased_block_size_independent (fuel : Nat) : ∀ (a1 a2 : Ascii) (sq : Sq), LSim a1 a2 → LineFmt a1 →
    ParseFasta.readAllM fuel a1 sq = ParseFasta.readAllM fuel a2 sq := by
  induction fuel with
  | zero => intro a1 a2 sq _ _; rfl
  | succ fuel ih =>
    intro a1 a2 sq h hf
    simp only [ParseFasta.readAllM]
    obtain ⟨hs, he⟩ := read_lsim sq.reuse h hf
    have hk := read_keeps a1 sq.reuse h.w1 hf
    rw [he, ih _ _ _ hs (hf.of_eq hk.1)]

/-- the handle `esl_sqfile_Open` returns on a line-based file: first line loaded, then the input map of the alphabet installed -/
def openLine (file : Bytes) (B abc fmt : Nat) (eofOk : Bool) (inmap0 inmap1 : Bytes) : Ascii :=
  { (loadbuf { file := file, B := B, abc := abc, fmt := fmt, eofIsOk := eofOk, linebased := true, inmap := inmap0 }).1 with
      inmap := inmap1, haveErr := false }

theorem openLine_lsim (file : Bytes) (B1 B2 abc fmt : Nat) (eofOk : Bool) (inmap0 inmap1 : Bytes) (h1 : 1 ≤ B1) (h2 : 1 ≤ B2) :
    LSim (openLine file B1 abc fmt eofOk inmap0 inmap1) (openLine file B2 abc fmt eofOk inmap0 inmap1) ∧
    (openLine file B1 abc fmt eofOk inmap0 inmap1).fmt = fmt := by
  obtain ⟨hl, _⟩ := open_lsim file B1 B2 abc fmt eofOk inmap0 h1 h2
  obtain ⟨k1, k2, k3, k4, k5, k6, k7, k8, k9, k10, k11, k12, k13⟩ := keepP_fields hl.keep
  refine ⟨lsim_upd hl rfl rfl ?_ hl.bpos, ?_⟩
  · simp only [openLine, keepP, k1, k2, k3, k4, k6, k7, k8, k10, k11, k12, k13]
  · exact (loadbuf_keeps _ (lwf_fresh _ rfl (by show (0 : Int) ≠ 1; omega) h1 rfl rfl rfl rfl rfl rfl)).1

/-- **from `esl_sqfile_Open` on**: for any two block sizes `B₁, B₂ ≥ 1`, reading every record of an EMBL / UniProt / GenBank / DDBJ
    file gives the same records and the same final status -/
theorem read_all_linebased_open (file : Bytes) (B1 B2 abc fmt : Nat) (eofOk : Bool) (inmap0 inmap1 : Bytes) (h1 : 1 ≤ B1) (h2 : 1 ≤ B2)
    (hf : fmt = 2 ∨ fmt = 3 ∨ fmt = 4 ∨ fmt = 5) (fuel : Nat) (sq : Sq) :
    ParseFasta.readAllM fuel (openLine file B1 abc fmt eofOk inmap0 inmap1) sq =
      ParseFasta.readAllM fuel (openLine file B2 abc fmt eofOk inmap0 inmap1) sq := by
  obtain ⟨hl, hfmt⟩ := openLine_lsim file B1 B2 abc fmt eofOk inmap0 inmap1 h1 h2
  exact read_all_linebased_block_size_independent fuel _ _ sq hl (by unfold LineFmt; rw [hfmt]; exact hf)

/-! ## `sqascii_ReadInfo` (the counting loop) -/

theorem scanStep_false_lsim {a1 a2 : Ascii} (h : LSim a1 a2) (sq : Sq) :
    LSim (scanStep false a1 sq).1 (scanStep false a2 sq).1 ∧ (scanStep false a1 sq).2 = (scanStep false a2 sq).2 := by
  rw [DataScan.scanStep_false, DataScan.scanStep_false]
  obtain ⟨hs, he⟩ := seebuf_lsim h none
  rw [he]
  generalize (seebuf a1 none).1 = b1 at hs
  generalize seebuf a2 none = s2 at hs
  obtain ⟨b2, see⟩ := s2
  simp only at hs ⊢
  have hL : b1.L = b2.L := (keepP_fields hs.keep).2.1
  rw [hL]
  have hl := setL_lsim hs (b2.L + (see.nres : Int))
  obtain ⟨hb, hbe⟩ := loadbuf_lsim hl
  rw [hbe]
  have hbo := hs.boff
  repeat' split
  all_goals first
    | exact ⟨hs, rfl⟩
    | exact ⟨hl, by simp only [hbo]⟩
    | exact ⟨hb, by simp only [hbo]⟩

theorem scanLoop_false_lsim (fuel : Nat) : ∀ {a1 a2 : Ascii} (sq : Sq), LSim a1 a2 →
    LSim (scanLoop false fuel a1 sq).1 (scanLoop false fuel a2 sq).1 ∧ (scanLoop false fuel a1 sq).2 = (scanLoop false fuel a2 sq).2 := by
  induction fuel with
  | zero => intro a1 a2 sq h; exact ⟨h, rfl⟩
  | succ fuel ih =>
    intro a1 a2 sq h
    rw [DataScan.scanLoop_succ, DataScan.scanLoop_succ]
    obtain ⟨hs, he⟩ := scanStep_false_lsim h sq
    rw [he]
    generalize (scanStep false a1 sq).1 = b1 at hs
    generalize scanStep false a2 sq = r2 at hs
    obtain ⟨b2, q, st, ep, go⟩ := r2
    simp only at hs ⊢
    cases go
    · exact ⟨hs, rfl⟩
    · exact ih q hs

def infoEnd (b : Ascii) (q : Sq) (st : Status) (ep : Nat) : Ascii × Sq × Status :=
  if st == .eof then (if !b.eofIsOk then (b.fail, q, Status.eformat) else (b, q, Status.ok))
  else if st == .eod then parseEnd { b with bpos := ep } q
  else (b, q, st)

def infoFin (r : Ascii × Sq × Status) : Ascii × Sq × Status :=
  if r.2.2 != .ok then r else
  if !(if r.2.1.digital then 1 < r.2.1.salloc else 0 < r.2.1.salloc) then (r.1, r.2.1, .fault) else
  (r.1, { r.2.1 with L := r.1.L, seq := #[], start := 0, end_ := 0, C := 0, W := 0 }, .ok)

def infoBody (a : Ascii) (sq : Sq) : Ascii × Sq × Status :=
  if ((scanLoop false (fuelOf a) { a with L := 0 } sq).2.2.1 == .fault ||
      (scanLoop false (fuelOf a) { a with L := 0 } sq).2.2.1 == .eformat) = true then
    ((scanLoop false (fuelOf a) { a with L := 0 } sq).1, (scanLoop false (fuelOf a) { a with L := 0 } sq).2.1,
     (scanLoop false (fuelOf a) { a with L := 0 } sq).2.2.1)
  else infoFin (infoEnd (scanLoop false (fuelOf a) { a with L := 0 } sq).1 (scanLoop false (fuelOf a) { a with L := 0 } sq).2.1
    (scanLoop false (fuelOf a) { a with L := 0 } sq).2.2.1 (scanLoop false (fuelOf a) { a with L := 0 } sq).2.2.2)

theorem readInfo_eq (a : Ascii) (sq : Sq) : readInfo a sq =
    if a.nc == 0 then (a, sq, .eof) else
    if (parseHeader a sq).2.2 != .ok then parseHeader a sq else infoBody (parseHeader a sq).1 (parseHeader a sq).2.1 := by
  unfold readInfo infoBody infoFin infoEnd
  rfl

theorem infoEnd_lsim {b1 b2 : Ascii} (q : Sq) (st : Status) (ep : Nat) (h : LSim b1 b2) :
    Rel3 (infoEnd b1 q st ep) (infoEnd b2 q st ep) := by
  unfold infoEnd
  have hsb := setBpos_lsim h ep
  generalize ({ b1 with bpos := ep } : Ascii) = B1 at hsb ⊢
  generalize ({ b2 with bpos := ep } : Ascii) = B2 at hsb ⊢
  rw [(keepP_fields h.keep).2.2.2.2.2.2.2.1]
  have hf := fail_lsim h
  repeat' split
  all_goals first
    | exact ⟨h, rfl⟩
    | exact ⟨hf, rfl⟩
    | exact parseEnd_lsim q hsb

theorem infoFin_lsim {r1 r2 : Ascii × Sq × Status} (h : Rel3 r1 r2) : Rel3 (infoFin r1) (infoFin r2) := by
  obtain ⟨a1, q1, s1⟩ := r1
  obtain ⟨a2, q2, s2⟩ := r2
  obtain ⟨hs, he⟩ := h
  simp only at hs he
  obtain ⟨rfl, rfl⟩ := Prod.mk.inj he
  have hL : a1.L = a2.L := (keepP_fields hs.keep).2.1
  unfold infoFin
  simp only []
  repeat' split
  all_goals first
    | exact ⟨hs, rfl⟩
    | exact ⟨hs, by simp only [hL]⟩

theorem infoBody_lsim {a1 a2 : Ascii} (sq : Sq) (h : LSim a1 a2) : Rel3 (infoBody a1 sq) (infoBody a2 sq) := by
  unfold infoBody
  rw [fuelOf_lsim h]
  obtain ⟨hs, he⟩ := scanLoop_false_lsim (fuelOf a2) sq (setL_lsim h 0)
  rw [he]
  generalize (scanLoop false (fuelOf a2) { a1 with L := 0 } sq).1 = b1 at hs
  generalize scanLoop false (fuelOf a2) { a2 with L := 0 } sq = r2 at hs
  obtain ⟨b2, q, st, ep⟩ := r2
  simp only at hs ⊢
  split
  · exact ⟨hs, rfl⟩
  · exact infoFin_lsim (infoEnd_lsim q st ep hs)

/-- **`sqascii_ReadInfo` on a line-based file is block-size independent** -/
theorem readInfo_lsim {a1 a2 : Ascii} (sq : Sq) (h : LSim a1 a2) (hf : LineFmt a1) : Rel3 (readInfo a1 sq) (readInfo a2 sq) := by
  rw [readInfo_eq, readInfo_eq, h.nc]
  obtain ⟨hs, he⟩ := parseHeader_lsim sq h hf
  generalize parseHeader a1 sq = r1 at hs he
  generalize parseHeader a2 sq = r2 at hs he
  obtain ⟨b1, q1, s1⟩ := r1
  obtain ⟨b2, q2, s2⟩ := r2
  simp only at hs he ⊢
  obtain ⟨rfl, rfl⟩ := Prod.mk.inj he
  repeat' split
  all_goals first
    | exact ⟨h, rfl⟩
    | exact ⟨hs, rfl⟩
    | exact infoBody_lsim q1 hs

theorem readInfo_block_size_independent (a1 a2 : Ascii) (sq : Sq) (h : LSim a1 a2) (hf : LineFmt a1) :
    (readInfo a1 sq).2.2 = (readInfo a2 sq).2.2 ∧ (readInfo a1 sq).2.1 = (readInfo a2 sq).2.1 ∧
    LSim (readInfo a1 sq).1 (readInfo a2 sq).1 := by
  obtain ⟨h1, h2⟩ := readInfo_lsim sq h hf
  exact ⟨congrArg Prod.snd h2, congrArg Prod.fst h2, h1⟩

theorem readSequence_block_size_independent (a1 a2 : Ascii) (sq : Sq) (h : LSim a1 a2) (hf : LineFmt a1) :
    (readSequence a1 sq).2.2 = (readSequence a2 sq).2.2 ∧ (readSequence a1 sq).2.1 = (readSequence a2 sq).2.1 ∧
    LSim (readSequence a1 sq).1 (readSequence a2 sq).1 := by
  obtain ⟨h1, h2⟩ := readSequence_lsim sq h hf
  exact ⟨congrArg Prod.snd h2, congrArg Prod.fst h2, h1⟩

/-! ## non-vacuity: the one-record EMBL file of `EmblSpec.demoE` -/

example : ((ParseFasta.readAllM 5 (openLine demoE 1 0 2 false (inmapEmbl 0) (inmapEmbl 0)) {}).2,
    (ParseFasta.readAllM 5 (openLine demoE 1 0 2 false (inmapEmbl 0) (inmapEmbl 0)) {}).1.length) = (Status.eof, 1) := by
  decide +kernel

example : (readInfo (openLine demoE 3 0 2 false (inmapEmbl 0) (inmapEmbl 0)) {}).2.2 = .ok ∧
    (readInfo (openLine demoE 3 0 2 false (inmapEmbl 0) (inmapEmbl 0)) {}).2.1.L = 4 := by decide +kernel

example : ParseFasta.readAllM 5 (openLine demoE 1 0 2 false (inmapEmbl 0) (inmapEmbl 0)) {} =
    ParseFasta.readAllM 5 (openLine demoE 64 0 2 false (inmapEmbl 0) (inmapEmbl 0)) {} :=
  read_all_linebased_open demoE 1 64 0 2 false (inmapEmbl 0) (inmapEmbl 0) (by decide) (by decide) (Or.inl rfl) 5 {}

end EaselModel.Sqio.EmblAll
