import EaselModel.Sqio.RevWindowSpec
/-! # Reverse-strand windows with line geometry = reverse complement of the slice of the scanned record (C04 / C07)

`RevWindowSpec.revTail_brute` covers a handle without line geometry. Here the handle holds `bpl`, `rpl` and `subseqOffset` seeks into
the data: under the geometry hypotheses of `FetchSpec` (complete lines before the window start) the result is the same. -/
namespace EaselModel.Sqio.RevWindowGeo
open EaselModel.Sqio.Refine EaselModel.Sqio.Fold EaselModel.Sqio.DataScan EaselModel.Sqio.Cursor EaselModel.Sqio.BodySpec
open EaselModel.Sqio.HeaderSpec EaselModel.Sqio.ReadSpec EaselModel.Sqio.ParseFasta EaselModel.Sqio.WindowSpec EaselModel.Sqio.FetchSpec
open EaselModel.Sqio.RevWindowSpec

/-- **generic composition**: whenever the seek of `subseqOffset` lands (inside the record's data, and such that after skipping
    `start − actualStart` residues the residues continue as the record's from index `start − 1`), the reverse window is the reverse
    complement of `s.seq[start..end]` -/
theorem revTail_of_lands (bytes : Bytes) (abc : Nat) (habc : abc ∈ [0, 1, 2, 3]) (s : Sq) (hs : s ∈ (parseFasta abc bytes).1)
    (a : Ascii) (hf : a.file = bytes) (hb : a.linebased = false) (hr : a.recording ≠ 1) (hB : 1 ≤ a.B)
    (hi : a.inmap = inmapFasta abc) (heof : a.eofIsOk = true)
    (sq : Sq) (hdig : sq.digital = (abc != 0)) (hsabc : sq.abc = abc) (hdoff : sq.doff = s.doff)
    (h1 : 1 ≤ sq.start) (h2 : sq.start ≤ sq.end_) (h3 : sq.end_ ≤ s.L) (hcw : sq.C + sq.W = sq.end_ - sq.start + 1)
    (rel actualStart : Int) (hso : subseqOffset a.trk.bpl a.trk.rpl sq.start = (rel, actualStart)) (hrel : 0 ≤ rel)
    (pre : List UInt8) (hpre : ∀ c ∈ pre, isData (inmapFasta abc) c = true)
    (hin : bytes.toList.drop s.doff.toNat = pre ++ bytes.toList.drop (s.doff + rel).toNat)
    (hland : (((bytes.toList.drop (s.doff + rel).toNat).takeWhile (isData (inmapFasta abc))).filter (isRes (inmapFasta abc))).drop
        (sq.start - actualStart).toNat =
      (((bytes.toList.drop s.doff.toNat).takeWhile (isData (inmapFasta abc))).filter (isRes (inmapFasta abc))).drop (sq.start - 1).toNat) :
    (revTail a sq).2.1 = (revOf sq s.seq).1 ∧ (revTail a sq).2.2 = (revOf sq s.seq).2.1 := by
  unfold revOf
  obtain ⟨r1, r2, r3, r4, _, r6, r7, r8⟩ := record_shape bytes abc s hs
  have hRlen : ((((bytes.toList.drop s.doff.toNat).takeWhile (isData (inmapFasta abc))).filter (isRes (inmapFasta abc))).length : Int) = s.L := by
    rw [r7, r6, resOf_size]
  have hdlt : (s.doff + rel).toNat < a.file.size := by
    rw [hf]
    have hl := congrArg List.length hland
    simp only [List.length_drop] at hl
    by_cases k : (s.doff + rel).toNat < bytes.size
    · exact k
    · exfalso
      have : bytes.toList.drop (s.doff + rel).toNat = [] := List.drop_eq_nil_of_le (by simp; omega)
      rw [this] at hl
      simp at hl
      omega
  obtain ⟨p1, p2, p3, p4, p5, p6⟩ := position_full a (s.doff + rel).toNat hb hr hB hdlt
  rw [hf] at p4
  have hi1 : (position a (s.doff + rel).toNat).1.inmap = inmapFasta abc := (stat_inmap p5).trans hi
  have heof1 : (position a (s.doff + rel).toNat).1.eofIsOk = true := (stat_eofIsOk p5).trans heof
  generalize hSQ : ({ sq.growTo (sq.C + sq.W).toNat with seq := #[] } : Sq) = SQ
  have hSQdig : SQ.digital = sq.digital := by rw [← hSQ, growTo_eq]
  have hSQabc : SQ.abc = sq.abc := by rw [← hSQ, growTo_eq]
  have hSQseq : SQ.seq = #[] := by rw [← hSQ]
  have hmapeq : mapOf (position a (s.doff + rel).toNat).1 SQ = mapFor (inmapFasta abc) (freshSq abc) := by
    simp only [mapOf, mapFor, hSQdig, hSQabc, hdig, hsabc, hi1]
    rfl
  have hmapOk : MapOk (position a (s.doff + rel).toNat).1.inmap (mapOf (position a (s.doff + rel).toNat).1 SQ) := by
    rw [hmapeq, hi1]; exact mapOk_fasta abc habc
  have hm : (position a (s.doff + rel).toNat).1.inmap.size = 128 := by rw [hi1]; exact (tables_fasta abc habc).1
  have hclean : Clean (position a (s.doff + rel).toNat).1.inmap (fileFrom (position a (s.doff + rel).toNat).1) := by
    rw [hi1, p4]
    exact Clean_of_data_append _ pre _ hpre (by rw [← hin]; exact r8)
  have hcap : SQ.seq.size + (sq.end_ - sq.start + 1).toNat + (if SQ.digital then 2 else 1) ≤ SQ.salloc := by
    rw [hSQseq, hSQdig, ← hSQ, growTo_eq]
    show 0 + (sq.end_ - sq.start + 1).toNat + (if sq.digital then 2 else 1) ≤
      max sq.salloc ((sq.C + sq.W).toNat + (if sq.digital then 2 else 1))
    rw [hcw]; omega
  obtain ⟨ws1, ws2⟩ := window_slice (inmapFasta abc) (mapFor (inmapFasta abc) (freshSq abc)) (bytes.toList.drop (s.doff + rel).toNat)
    ((bytes.toList.drop s.doff.toNat).takeWhile (isData (inmapFasta abc))) (sq.start - actualStart).toNat (sq.start - 1).toNat
    (sq.end_ - sq.start + 1).toNat (by omega) hland (by omega)
  rw [← r6] at ws2
  obtain ⟨n1, n2, n3, _⟩ := readNres_spec (position a (s.doff + rel).toNat).1 SQ (sq.start - actualStart).toNat
    (sq.end_ - sq.start + 1).toNat p2.wf p2.tok hm heof1 hmapOk hclean hcap (by rw [hi1, p4, ws1]; omega)
  rw [hi1, p4] at n2 n3
  rw [hmapeq] at n3
  rw [ws1] at n2
  rw [ws2, hSQseq] at n3
  generalize hRC : revcomp { sq.growTo (sq.C + sq.W).toNat with seq := s.seq.extract (sq.start - 1).toNat sq.end_.toNat } = RC
  unfold revTail
  rw [hso]
  simp only [hdoff]
  have hnn : ¬ s.doff + rel < 0 := by omega
  have b1 : (Status.ok != Status.ok) = false := by decide
  simp only [hnn, if_false, p1, b1, Bool.false_eq_true, hSQ]
  have hgs : (sq.growTo (sq.C + sq.W).toNat).start = sq.start := by rw [growTo_eq]
  have hge : (sq.growTo (sq.C + sq.W).toNat).end_ = sq.end_ := by rw [growTo_eq]
  simp only [hgs, hge]
  generalize readNres (position a (s.doff + rel).toNat).1 SQ (sq.start - actualStart).toNat (sq.end_ - sq.start + 1).toNat = R at n1 n2 n3
  obtain ⟨a2, sq2, st2, nr2⟩ := R
  simp only [] at n1 n2 n3 ⊢
  subst n1 n2 n3
  have b2 : (Status.ok == Status.fault) = false := by decide
  have hnl : ¬ ((((sq.start - actualStart).toNat + (sq.end_ - sq.start + 1).toNat - (sq.start - actualStart).toNat : Nat) : Int) <
      sq.end_ - sq.start + 1) := by omega
  simp only [b2, Bool.false_eq_true, if_false, b1, Bool.false_or, hnl, decide_false]
  have hsqeq : ({ SQ with seq := #[] ++ s.seq.extract (sq.start - 1).toNat ((sq.start - 1).toNat + (sq.end_ - sq.start + 1).toNat) } : Sq) =
      { sq.growTo (sq.C + sq.W).toNat with seq := s.seq.extract (sq.start - 1).toNat sq.end_.toNat } := by
    rw [← hSQ]
    have : (sq.start - 1).toNat + (sq.end_ - sq.start + 1).toNat = sq.end_.toNat := by omega
    rw [this]; simp
  rw [hsqeq, hRC]
  obtain ⟨sq3, st3, ex3⟩ := RC
  simp only []
  by_cases e1 : st3 = .einval
  · subst e1; simp
  · have e1' : (st3 == Status.einval) = false := by simpa using e1
    simp only [e1', Bool.false_eq_true, if_false]
    by_cases e2 : st3 = .ok
    · subst e2; simp
    · have e2' : (st3 != Status.ok) = true := by simpa using e2
      simp only [e2', if_true]
      exact ⟨trivial, trivial⟩

theorem subseqOffset_line (bpl rpl start : Int) (hb : 0 < bpl) (hr : 0 < rpl) (hne : bpl ≠ rpl + 1) :
    subseqOffset bpl rpl start = ((start - 1) / rpl * bpl, 1 + (start - 1) / rpl * rpl) := by
  have c1 : (decide (bpl ≤ 0) || decide (rpl ≤ 0)) = false := by
    have a1 : ¬ bpl ≤ 0 := by omega
    have a2 : ¬ rpl ≤ 0 := by omega
    simp [a1, a2]
  simp [subseqOffset, c1, hne]

theorem subseqOffset_residue (bpl rpl start : Int) (_hb : 0 < bpl) (hr : 0 < rpl) (he : bpl = rpl + 1) :
    subseqOffset bpl rpl start = ((start - 1) / rpl * bpl + (start - 1) % rpl, start) := by
  have c1 : (decide (bpl ≤ 0) || decide (rpl ≤ 0)) = false := by
    have a1 : ¬ bpl ≤ 0 := by omega
    have a2 : ¬ rpl ≤ 0 := by omega
    simp [a1, a2]
  have c2 : (bpl == rpl + 1) = true := by simp [he]
  simp only [subseqOffset, c1, c2, Bool.false_eq_true, if_false, if_true]

/-- **line addressing** (`bpl ≠ rpl + 1`): the record's data begins with `(start−1)/rpl` complete lines of `bpl` bytes / `rpl` residues -/
theorem revTail_line (bytes : Bytes) (abc : Nat) (habc : abc ∈ [0, 1, 2, 3]) (s : Sq) (hs : s ∈ (parseFasta abc bytes).1)
    (a : Ascii) (hf : a.file = bytes) (hb : a.linebased = false) (hr : a.recording ≠ 1) (hB : 1 ≤ a.B)
    (hi : a.inmap = inmapFasta abc) (heof : a.eofIsOk = true)
    (b r : Nat) (hbpl : a.trk.bpl = (b : Int)) (hrpl : a.trk.rpl = (r : Int)) (hr0 : 0 < r) (hb0 : 0 < b) (hne : b ≠ r + 1)
    (sq : Sq) (hdig : sq.digital = (abc != 0)) (hsabc : sq.abc = abc) (hdoff : sq.doff = s.doff)
    (h1 : 1 ≤ sq.start) (h2 : sq.start ≤ sq.end_) (h3 : sq.end_ ≤ s.L) (hcw : sq.C + sq.W = sq.end_ - sq.start + 1)
    (lines : List (List UInt8)) (tail : List UInt8) (hgeo : bytes.toList.drop s.doff.toNat = lines.flatten ++ tail)
    (hfull : Geometry.FullLines (isRes (inmapFasta abc)) b r lines)
    (hdat : ∀ c ∈ lines.flatten, isData (inmapFasta abc) c = true) (hl : lines.length = (sq.start.toNat - 1) / r) :
    (revTail a sq).2.1 = (revOf sq s.seq).1 ∧ (revTail a sq).2.2 = (revOf sq s.seq).2.1 := by
  obtain ⟨_, _, r3, _⟩ := record_shape bytes abc s hs
  have hso := subseqOffset_line (b : Int) (r : Int) sq.start (by omega) (by omega) (by omega)
  have hq : (sq.start - 1) / (r : Int) = ((lines.length : Nat) : Int) := by
    have e1 : sq.start - 1 = ((sq.start.toNat - 1 : Nat) : Int) := by omega
    rw [e1, hl]
    first | exact (Int.natCast_ediv _ _).symm | exact (Int.ofNat_ediv _ _).symm | simp
  rw [hq, ← Int.natCast_mul, ← Int.natCast_mul] at hso
  have hdn : (s.doff + ((lines.length * b : Nat) : Int)).toNat = s.doff.toNat + lines.length * b := by omega
  have hle : lines.length * r ≤ sq.start.toNat - 1 := by rw [hl]; exact Nat.div_mul_le_self _ _
  have hk : (sq.start - (1 + ((lines.length * r : Nat) : Int))).toNat = sq.start.toNat - (1 + lines.length * r) := by omega
  have hp : (sq.start - 1).toNat = sq.start.toNat - 1 := by omega
  have hdrop : bytes.toList.drop (s.doff.toNat + lines.length * b) = (lines.flatten ++ tail).drop (lines.length * b) := by
    rw [← List.drop_drop, hgeo]
  have hso' : subseqOffset a.trk.bpl a.trk.rpl sq.start =
      (((lines.length * b : Nat) : Int), 1 + ((lines.length * r : Nat) : Int)) := by rw [hbpl, hrpl]; exact hso
  refine revTail_of_lands bytes abc habc s hs a hf hb hr hB hi heof sq hdig hsabc hdoff h1 h2 h3 hcw _ _ hso' (by omega)
    lines.flatten hdat ?_ ?_
  · rw [hdn, hdrop, hgeo, ← hfull.length_flatten, List.drop_left]
  · rw [hdn, hk, hp, hdrop, hgeo]
    exact land_line (inmapFasta abc) lines tail b r sq.start.toNat hfull hdat hl

/-- **residue addressing** (`bpl = rpl + 1`): moreover the line holding residue `start` begins with more than `(start−1) % rpl` residues -/
theorem revTail_residue (bytes : Bytes) (abc : Nat) (habc : abc ∈ [0, 1, 2, 3]) (s : Sq) (hs : s ∈ (parseFasta abc bytes).1)
    (a : Ascii) (hf : a.file = bytes) (hb : a.linebased = false) (hr : a.recording ≠ 1) (hB : 1 ≤ a.B)
    (hi : a.inmap = inmapFasta abc) (heof : a.eofIsOk = true)
    (r : Nat) (hbpl : a.trk.bpl = ((r + 1 : Nat) : Int)) (hrpl : a.trk.rpl = (r : Int)) (hr0 : 0 < r)
    (sq : Sq) (hdig : sq.digital = (abc != 0)) (hsabc : sq.abc = abc) (hdoff : sq.doff = s.doff)
    (h1 : 1 ≤ sq.start) (h2 : sq.start ≤ sq.end_) (h3 : sq.end_ ≤ s.L) (hcw : sq.C + sq.W = sq.end_ - sq.start + 1)
    (lines : List (List UInt8)) (res tail : List UInt8) (hgeo : bytes.toList.drop s.doff.toNat = lines.flatten ++ (res ++ tail))
    (hfull : Geometry.FullLines (isRes (inmapFasta abc)) (r + 1) r lines)
    (hdat : ∀ c ∈ lines.flatten, isData (inmapFasta abc) c = true) (hres : ∀ c ∈ res, isRes (inmapFasta abc) c = true)
    (hj : (sq.start.toNat - 1) % r ≤ res.length) (hl : lines.length = (sq.start.toNat - 1) / r) :
    (revTail a sq).2.1 = (revOf sq s.seq).1 ∧ (revTail a sq).2.2 = (revOf sq s.seq).2.1 := by
  obtain ⟨_, _, r3, _⟩ := record_shape bytes abc s hs
  have hso := subseqOffset_residue (((r + 1 : Nat) : Int)) (r : Int) sq.start (by omega) (by omega) (by omega)
  have e1 : sq.start - 1 = ((sq.start.toNat - 1 : Nat) : Int) := by omega
  have hq : (sq.start - 1) / (r : Int) = ((lines.length : Nat) : Int) := by
    rw [e1, hl]
    first | exact (Int.natCast_ediv _ _).symm | exact (Int.ofNat_ediv _ _).symm | simp
  have hm : (sq.start - 1) % (r : Int) = (((sq.start.toNat - 1) % r : Nat) : Int) := by
    rw [e1]
    first | exact (Int.natCast_emod _ _).symm | exact (Int.ofNat_emod _ _).symm | simp
  rw [hq, hm, ← Int.natCast_mul] at hso
  have hdn : (s.doff + (((lines.length * (r + 1) : Nat) : Int) + (((sq.start.toNat - 1) % r : Nat) : Int))).toNat =
      s.doff.toNat + (lines.length * (r + 1) + (sq.start.toNat - 1) % r) := by omega
  have hp : (sq.start - 1).toNat = sq.start.toNat - 1 := by omega
  have hk : (sq.start - sq.start).toNat = 0 := by omega
  have hdrop : bytes.toList.drop (s.doff.toNat + (lines.length * (r + 1) + (sq.start.toNat - 1) % r)) =
      (lines.flatten ++ (res ++ tail)).drop (lines.length * (r + 1) + (sq.start.toNat - 1) % r) := by
    rw [← List.drop_drop, hgeo]
  have hresd : ∀ c ∈ res, isData (inmapFasta abc) c = true := fun c hc => isRes_isData _ c (hres c hc)
  have hso' : subseqOffset a.trk.bpl a.trk.rpl sq.start =
      (((lines.length * (r + 1) : Nat) : Int) + (((sq.start.toNat - 1) % r : Nat) : Int), sq.start) := by rw [hbpl, hrpl]; exact hso
  refine revTail_of_lands bytes abc habc s hs a hf hb hr hB hi heof sq hdig hsabc hdoff h1 h2 h3 hcw _ _ hso' (by omega)
    (lines.flatten ++ res.take ((sq.start.toNat - 1) % r))
    (fun c hc => by
      rcases List.mem_append.mp hc with k | k
      · exact hdat c k
      · exact hresd c (List.mem_of_mem_take k)) ?_ ?_
  · rw [hdn, hdrop, hgeo, ← List.drop_drop, ← hfull.length_flatten, List.drop_left, List.drop_append_of_le_length hj,
      List.append_assoc, ← List.append_assoc (res.take _), List.take_append_drop]
  · rw [hdn, hk, hp, hdrop, hgeo]
    exact land_residue (inmapFasta abc) lines res tail (r + 1) r sq.start.toNat hfull hdat hres hj hl

/-! ## the window calls -/

/-- first reverse window, line addressing (geometry stated for the scheduled start `(revInit L W).1 = max 1 (L − W + 1)`) -/
theorem rev_first_window_line (bytes : Bytes) (abc : Nat) (habc : abc ∈ [0, 1, 2, 3]) (s : Sq) (hs : s ∈ (parseFasta abc bytes).1)
    (a : Ascii) (hf : a.file = bytes) (hb : a.linebased = false) (hr : a.recording ≠ 1) (hB : 1 ≤ a.B)
    (hi : a.inmap = inmapFasta abc) (heof : a.eofIsOk = true)
    (sq : Sq) (hdig : sq.digital = (abc != 0)) (hsabc : sq.abc = abc) (hdoff : sq.doff = s.doff)
    (hL : sq.L = s.L) (hL1 : 1 ≤ s.L) (hst : sq.start = 0) (hen : sq.end_ = 0) (C W : Int) (hW : 1 ≤ W)
    (b r : Nat) (hbpl : a.trk.bpl = (b : Int)) (hrpl : a.trk.rpl = (r : Int)) (hr0 : 0 < r) (hb0 : 0 < b) (hne : b ≠ r + 1)
    (lines : List (List UInt8)) (tail : List UInt8) (hgeo : bytes.toList.drop s.doff.toNat = lines.flatten ++ tail)
    (hfull : Geometry.FullLines (isRes (inmapFasta abc)) b r lines)
    (hdat : ∀ c ∈ lines.flatten, isData (inmapFasta abc) c = true) (hl : lines.length = ((revInit sq.L W).1.toNat - 1) / r) :
    (readWindow a sq C (-W)).2.1 =
      (revOf { sq with start := (revInit sq.L W).1, end_ := (revInit sq.L W).2, C := 0, W := (revInit sq.L W).2 - (revInit sq.L W).1 + 1 } s.seq).1 ∧
    (readWindow a sq C (-W)).2.2 =
      (revOf { sq with start := (revInit sq.L W).1, end_ := (revInit sq.L W).2, C := 0, W := (revInit sq.L W).2 - (revInit sq.L W).1 + 1 } s.seq).2.1 := by
  rw [readWindow_rev_first a sq C W hW (by omega) (by omega) (by omega) hst]
  generalize hA : ({ a with trk := a.trk.reset, linenumber := -1, L := -1 } : Ascii) = A
  generalize hS : ({ sq with start := (revInit sq.L W).1, end_ := (revInit sq.L W).2, C := 0,
                             W := (revInit sq.L W).2 - (revInit sq.L W).1 + 1 } : Sq) = SQ
  have a1 : A.file = bytes := by rw [← hA]; exact hf
  have a2 : A.linebased = false := by rw [← hA]; exact hb
  have a3 : A.recording ≠ 1 := by rw [← hA]; exact hr
  have a4 : 1 ≤ A.B := by rw [← hA]; exact hB
  have a5 : A.inmap = inmapFasta abc := by rw [← hA]; exact hi
  have a6 : A.eofIsOk = true := by rw [← hA]; exact heof
  have a7 : A.trk.bpl = a.trk.bpl := by rw [← hA]; rfl
  have a8 : A.trk.rpl = a.trk.rpl := by rw [← hA]; rfl
  have s1 : SQ.digital = (abc != 0) := by rw [← hS]; exact hdig
  have s2 : SQ.abc = abc := by rw [← hS]; exact hsabc
  have s3 : SQ.doff = s.doff := by rw [← hS]; exact hdoff
  have s4 : SQ.start = (revInit sq.L W).1 := by rw [← hS]
  have s5 : SQ.end_ = (revInit sq.L W).2 := by rw [← hS]
  have s6 : SQ.C = 0 := by rw [← hS]
  have s7 : SQ.W = (revInit sq.L W).2 - (revInit sq.L W).1 + 1 := by rw [← hS]
  have e1 : (revInit sq.L W).1 = max 1 (s.L - W + 1) := by rw [hL]; rfl
  have e2 : (revInit sq.L W).2 = s.L := by rw [hL]; rfl
  exact revTail_line bytes abc habc s hs A a1 a2 a3 a4 a5 a6 b r (a7.trans hbpl) (a8.trans hrpl) hr0 hb0 hne SQ s1 s2 s3 (by rw [s4, e1]; omega) (by rw [s4, s5, e1, e2]; omega)
    (by rw [s5, e2]; omega) (by rw [s6, s7, s4, s5]; omega)
    lines tail hgeo hfull hdat (by rw [s4]; exact hl)

/-- first reverse window, residue addressing -/
theorem rev_first_window_residue (bytes : Bytes) (abc : Nat) (habc : abc ∈ [0, 1, 2, 3]) (s : Sq) (hs : s ∈ (parseFasta abc bytes).1)
    (a : Ascii) (hf : a.file = bytes) (hb : a.linebased = false) (hr : a.recording ≠ 1) (hB : 1 ≤ a.B)
    (hi : a.inmap = inmapFasta abc) (heof : a.eofIsOk = true)
    (sq : Sq) (hdig : sq.digital = (abc != 0)) (hsabc : sq.abc = abc) (hdoff : sq.doff = s.doff)
    (hL : sq.L = s.L) (hL1 : 1 ≤ s.L) (hst : sq.start = 0) (hen : sq.end_ = 0) (C W : Int) (hW : 1 ≤ W)
    (r : Nat) (hbpl : a.trk.bpl = ((r + 1 : Nat) : Int)) (hrpl : a.trk.rpl = (r : Int)) (hr0 : 0 < r)
    (lines : List (List UInt8)) (res tail : List UInt8) (hgeo : bytes.toList.drop s.doff.toNat = lines.flatten ++ (res ++ tail))
    (hfull : Geometry.FullLines (isRes (inmapFasta abc)) (r + 1) r lines)
    (hdat : ∀ c ∈ lines.flatten, isData (inmapFasta abc) c = true) (hres : ∀ c ∈ res, isRes (inmapFasta abc) c = true)
    (hj : ((revInit sq.L W).1.toNat - 1) % r ≤ res.length) (hl : lines.length = ((revInit sq.L W).1.toNat - 1) / r) :
    (readWindow a sq C (-W)).2.1 =
      (revOf { sq with start := (revInit sq.L W).1, end_ := (revInit sq.L W).2, C := 0, W := (revInit sq.L W).2 - (revInit sq.L W).1 + 1 } s.seq).1 ∧
    (readWindow a sq C (-W)).2.2 =
      (revOf { sq with start := (revInit sq.L W).1, end_ := (revInit sq.L W).2, C := 0, W := (revInit sq.L W).2 - (revInit sq.L W).1 + 1 } s.seq).2.1 := by
  rw [readWindow_rev_first a sq C W hW (by omega) (by omega) (by omega) hst]
  generalize hA : ({ a with trk := a.trk.reset, linenumber := -1, L := -1 } : Ascii) = A
  generalize hS : ({ sq with start := (revInit sq.L W).1, end_ := (revInit sq.L W).2, C := 0,
                             W := (revInit sq.L W).2 - (revInit sq.L W).1 + 1 } : Sq) = SQ
  have a1 : A.file = bytes := by rw [← hA]; exact hf
  have a2 : A.linebased = false := by rw [← hA]; exact hb
  have a3 : A.recording ≠ 1 := by rw [← hA]; exact hr
  have a4 : 1 ≤ A.B := by rw [← hA]; exact hB
  have a5 : A.inmap = inmapFasta abc := by rw [← hA]; exact hi
  have a6 : A.eofIsOk = true := by rw [← hA]; exact heof
  have a7 : A.trk.bpl = a.trk.bpl := by rw [← hA]; rfl
  have a8 : A.trk.rpl = a.trk.rpl := by rw [← hA]; rfl
  have s1 : SQ.digital = (abc != 0) := by rw [← hS]; exact hdig
  have s2 : SQ.abc = abc := by rw [← hS]; exact hsabc
  have s3 : SQ.doff = s.doff := by rw [← hS]; exact hdoff
  have s4 : SQ.start = (revInit sq.L W).1 := by rw [← hS]
  have s5 : SQ.end_ = (revInit sq.L W).2 := by rw [← hS]
  have s6 : SQ.C = 0 := by rw [← hS]
  have s7 : SQ.W = (revInit sq.L W).2 - (revInit sq.L W).1 + 1 := by rw [← hS]
  have e1 : (revInit sq.L W).1 = max 1 (s.L - W + 1) := by rw [hL]; rfl
  have e2 : (revInit sq.L W).2 = s.L := by rw [hL]; rfl
  exact revTail_residue bytes abc habc s hs A a1 a2 a3 a4 a5 a6 r (a7.trans hbpl) (a8.trans hrpl) hr0 SQ s1 s2 s3 (by rw [s4, e1]; omega) (by rw [s4, s5, e1, e2]; omega)
    (by rw [s5, e2]; omega) (by rw [s6, s7, s4, s5]; omega)
    lines res tail hgeo hfull hdat hres (by rw [s4]; exact hj) (by rw [s4]; exact hl)

/-- later reverse windows, line addressing (geometry stated for the scheduled start `(revNext L C W prevLow).2.2.1`) -/
theorem rev_next_window_line (bytes : Bytes) (abc : Nat) (habc : abc ∈ [0, 1, 2, 3]) (s : Sq) (hs : s ∈ (parseFasta abc bytes).1)
    (a : Ascii) (hf : a.file = bytes) (hb : a.linebased = false) (hr : a.recording ≠ 1) (hB : 1 ≤ a.B)
    (hi : a.inmap = inmapFasta abc) (heof : a.eofIsOk = true)
    (sq : Sq) (hdig : sq.digital = (abc != 0)) (hsabc : sq.abc = abc) (hdoff : sq.doff = s.doff)
    (hL : sq.L = s.L) (hst : sq.start ≠ 0) (hlo : 2 ≤ sq.end_) (hhi : sq.end_ ≤ s.L) (C W : Int) (hC : 0 ≤ C) (hW : 1 ≤ W)
    (b r : Nat) (hbpl : a.trk.bpl = (b : Int)) (hrpl : a.trk.rpl = (r : Int)) (hr0 : 0 < r) (hb0 : 0 < b) (hne : b ≠ r + 1)
    (lines : List (List UInt8)) (tail : List UInt8) (hgeo : bytes.toList.drop s.doff.toNat = lines.flatten ++ tail)
    (hfull : Geometry.FullLines (isRes (inmapFasta abc)) b r lines)
    (hdat : ∀ c ∈ lines.flatten, isData (inmapFasta abc) c = true) (hl : lines.length = ((revNext sq.L C W sq.end_).2.2.1.toNat - 1) / r) :
    (readWindow a sq C (-W)).2.1 =
      (revOf { sq with C := (revNext sq.L C W sq.end_).1, end_ := (revNext sq.L C W sq.end_).2.1,
                       start := (revNext sq.L C W sq.end_).2.2.1, W := (revNext sq.L C W sq.end_).2.2.2 } s.seq).1 ∧
    (readWindow a sq C (-W)).2.2 =
      (revOf { sq with C := (revNext sq.L C W sq.end_).1, end_ := (revNext sq.L C W sq.end_).2.1,
                       start := (revNext sq.L C W sq.end_).2.2.1, W := (revNext sq.L C W sq.end_).2.2.2 } s.seq).2.1 := by
  rw [readWindow_rev_next a sq C W hW (by omega) (by omega) (by omega) hst]
  generalize hS : ({ sq with C := (revNext sq.L C W sq.end_).1, end_ := (revNext sq.L C W sq.end_).2.1,
                             start := (revNext sq.L C W sq.end_).2.2.1, W := (revNext sq.L C W sq.end_).2.2.2 } : Sq) = SQ
  have s1 : SQ.digital = (abc != 0) := by rw [← hS]; exact hdig
  have s2 : SQ.abc = abc := by rw [← hS]; exact hsabc
  have s3 : SQ.doff = s.doff := by rw [← hS]; exact hdoff
  have s4 : SQ.start = (revNext sq.L C W sq.end_).2.2.1 := by rw [← hS]
  have s5 : SQ.end_ = (revNext sq.L C W sq.end_).2.1 := by rw [← hS]
  have s6 : SQ.C = (revNext sq.L C W sq.end_).1 := by rw [← hS]
  have s7 : SQ.W = (revNext sq.L C W sq.end_).2.2.2 := by rw [← hS]
  have e1 : (revNext sq.L C W sq.end_).1 = min C (s.L - sq.end_ + 1) := by rw [hL]; rfl
  have e2 : (revNext sq.L C W sq.end_).2.1 = sq.end_ + min C (s.L - sq.end_ + 1) - 1 := by rw [hL]; rfl
  have e3 : (revNext sq.L C W sq.end_).2.2.1 = max 1 (sq.end_ + min C (s.L - sq.end_ + 1) - 1 - W - min C (s.L - sq.end_ + 1) + 1) := by
    rw [hL]; rfl
  have e4 : (revNext sq.L C W sq.end_).2.2.2 = sq.end_ + min C (s.L - sq.end_ + 1) - 1 -
      max 1 (sq.end_ + min C (s.L - sq.end_ + 1) - 1 - W - min C (s.L - sq.end_ + 1) + 1) + 1 - min C (s.L - sq.end_ + 1) := by
    rw [hL]; rfl
  exact revTail_line bytes abc habc s hs a hf hb hr hB hi heof b r hbpl hrpl hr0 hb0 hne SQ s1 s2 s3 (by rw [s4, e3]; omega) (by rw [s4, s5, e2, e3]; omega)
    (by rw [s5, e2]; omega) (by rw [s6, s7, s4, s5, e1, e2, e3, e4]; omega)
    lines tail hgeo hfull hdat (by rw [s4]; exact hl)

/-- later reverse windows, residue addressing -/
theorem rev_next_window_residue (bytes : Bytes) (abc : Nat) (habc : abc ∈ [0, 1, 2, 3]) (s : Sq) (hs : s ∈ (parseFasta abc bytes).1)
    (a : Ascii) (hf : a.file = bytes) (hb : a.linebased = false) (hr : a.recording ≠ 1) (hB : 1 ≤ a.B)
    (hi : a.inmap = inmapFasta abc) (heof : a.eofIsOk = true)
    (sq : Sq) (hdig : sq.digital = (abc != 0)) (hsabc : sq.abc = abc) (hdoff : sq.doff = s.doff)
    (hL : sq.L = s.L) (hst : sq.start ≠ 0) (hlo : 2 ≤ sq.end_) (hhi : sq.end_ ≤ s.L) (C W : Int) (hC : 0 ≤ C) (hW : 1 ≤ W)
    (r : Nat) (hbpl : a.trk.bpl = ((r + 1 : Nat) : Int)) (hrpl : a.trk.rpl = (r : Int)) (hr0 : 0 < r)
    (lines : List (List UInt8)) (res tail : List UInt8) (hgeo : bytes.toList.drop s.doff.toNat = lines.flatten ++ (res ++ tail))
    (hfull : Geometry.FullLines (isRes (inmapFasta abc)) (r + 1) r lines)
    (hdat : ∀ c ∈ lines.flatten, isData (inmapFasta abc) c = true) (hres : ∀ c ∈ res, isRes (inmapFasta abc) c = true)
    (hj : ((revNext sq.L C W sq.end_).2.2.1.toNat - 1) % r ≤ res.length) (hl : lines.length = ((revNext sq.L C W sq.end_).2.2.1.toNat - 1) / r) :
    (readWindow a sq C (-W)).2.1 =
      (revOf { sq with C := (revNext sq.L C W sq.end_).1, end_ := (revNext sq.L C W sq.end_).2.1,
                       start := (revNext sq.L C W sq.end_).2.2.1, W := (revNext sq.L C W sq.end_).2.2.2 } s.seq).1 ∧
    (readWindow a sq C (-W)).2.2 =
      (revOf { sq with C := (revNext sq.L C W sq.end_).1, end_ := (revNext sq.L C W sq.end_).2.1,
                       start := (revNext sq.L C W sq.end_).2.2.1, W := (revNext sq.L C W sq.end_).2.2.2 } s.seq).2.1 := by
  rw [readWindow_rev_next a sq C W hW (by omega) (by omega) (by omega) hst]
  generalize hS : ({ sq with C := (revNext sq.L C W sq.end_).1, end_ := (revNext sq.L C W sq.end_).2.1,
                             start := (revNext sq.L C W sq.end_).2.2.1, W := (revNext sq.L C W sq.end_).2.2.2 } : Sq) = SQ
  have s1 : SQ.digital = (abc != 0) := by rw [← hS]; exact hdig
  have s2 : SQ.abc = abc := by rw [← hS]; exact hsabc
  have s3 : SQ.doff = s.doff := by rw [← hS]; exact hdoff
  have s4 : SQ.start = (revNext sq.L C W sq.end_).2.2.1 := by rw [← hS]
  have s5 : SQ.end_ = (revNext sq.L C W sq.end_).2.1 := by rw [← hS]
  have s6 : SQ.C = (revNext sq.L C W sq.end_).1 := by rw [← hS]
  have s7 : SQ.W = (revNext sq.L C W sq.end_).2.2.2 := by rw [← hS]
  have e1 : (revNext sq.L C W sq.end_).1 = min C (s.L - sq.end_ + 1) := by rw [hL]; rfl
  have e2 : (revNext sq.L C W sq.end_).2.1 = sq.end_ + min C (s.L - sq.end_ + 1) - 1 := by rw [hL]; rfl
  have e3 : (revNext sq.L C W sq.end_).2.2.1 = max 1 (sq.end_ + min C (s.L - sq.end_ + 1) - 1 - W - min C (s.L - sq.end_ + 1) + 1) := by
    rw [hL]; rfl
  have e4 : (revNext sq.L C W sq.end_).2.2.2 = sq.end_ + min C (s.L - sq.end_ + 1) - 1 -
      max 1 (sq.end_ + min C (s.L - sq.end_ + 1) - 1 - W - min C (s.L - sq.end_ + 1) + 1) + 1 - min C (s.L - sq.end_ + 1) := by
    rw [hL]; rfl
  exact revTail_residue bytes abc habc s hs a hf hb hr hB hi heof r hbpl hrpl hr0 SQ s1 s2 s3 (by rw [s4, e3]; omega) (by rw [s4, s5, e2, e3]; omega)
    (by rw [s5, e2]; omega) (by rw [s6, s7, s4, s5, e1, e2, e3, e4]; omega)
    lines res tail hgeo hfull hdat hres (by rw [s4]; exact hj) (by rw [s4]; exact hl)

/-! ## non-vacuity: `>a\nACGT \nACGT \nAC\n` (`bpl = 6`, `rpl = 4`), 2-byte blocks, first reverse window of 3 residues (8..10 = `TAC`) -/

def hGeo : Ascii := { file := FetchSpec.demoB, B := 2, inmap := inmapFasta 0, fmt := 1, eofIsOk := true, trk := { bpl := 6, rpl := 4 } }

example : ((readWindow hGeo { L := 10, doff := 3, start := 0, end_ := 0 } 0 (-3)).2.2,
    (readWindow hGeo { L := 10, doff := 3, start := 0, end_ := 0 } 0 (-3)).2.1.seq) = (Status.ok, #[71, 84, 65]) := by decide +kernel

end EaselModel.Sqio.RevWindowGeo
