import EaselModel.Sqio.EmblTotal
/-! # `sqascii_ReadSequence` on the line-based formats (EMBL / UniProt / GenBank / DDBJ) is total (C02, round 6b)

`sqascii_ReadSequence` = `skip_header` (the header parsers with `parse = false`: same line scanning, nothing stored) followed by the
residue loop and the record end of `sqascii_Read` (`readBody`). The header lemmas of `EmblTotal.lean` are stated for both values of
`parse`, so the proof is the composition already used for `read_linebased_total`. -/
namespace EaselModel.Sqio.EmblTotal
open EaselModel.Sqio EaselModel.Sqio.Fold EaselModel.Sqio.BodySpec EaselModel.Sqio.LineSpec EaselModel.Sqio.EmblAll

theorem skipHeader_good (a : Ascii) (sq : Sq) (w : LWF a) (hf : LineFmt a) : PRes a (skipHeader a sq) := by
  unfold skipHeader
  rcases hf with k | k | k | k <;> simp only [k] <;> first
    | exact headerEmbl_good false a sq w
    | exact headerGenbank_good false a sq w

theorem skipHeader_same (a : Ascii) (sq : Sq) (hf : LineFmt a) : Same sq (skipHeader a sq).2.1 := by
  unfold skipHeader
  rcases hf with k | k | k | k <;> simp only [k] <;> first
    | exact headerEmbl_same false a sq
    | exact headerGenbank_same false a sq

theorem readSequence_eq (a : Ascii) (sq : Sq) : readSequence a sq =
    if a.nc == 0 then (a, sq, .eof) else
    if (skipHeader a sq).2.2 != .ok then skipHeader a sq else readBody (skipHeader a sq).1 (skipHeader a sq).2.1 := rfl

/-- **`sqascii_ReadSequence` on an EMBL / UniProt / GenBank / DDBJ file never faults**: for every byte string and every block size the
    outcome is `eslOK`, `eslEOF` or `eslEFORMAT` (then with a message); no exception; the handle stays a well-formed line-mode handle of
    the same format on the same file -/
theorem readSequence_linebased_total (a : Ascii) (sq : Sq) (w : LWF a) (hf : LineFmt a) (tok : Track.Ok a.trk) (hm : a.inmap.size = 128)
    (hmap : MapOk a.inmap (mapOf a sq)) :
    let r := readSequence a sq
    (r.2.2 = .ok ∨ r.2.2 = .eof ∨ r.2.2 = .eformat) ∧ (r.2.2 = .eformat → r.1.haveErr = true) ∧ r.1.exc = a.exc ∧ LWF r.1 ∧
    r.1.fmt = a.fmt ∧ r.1.file = a.file ∧ r.1.inmap = a.inmap := by
  intro r
  have key : RRes a (readSequence a sq) := by
    rw [readSequence_eq]
    obtain ⟨g, hs, he⟩ := skipHeader_good a sq w hf
    obtain ⟨sd, sa⟩ := skipHeader_same a sq hf
    generalize skipHeader a sq = p at g hs he sd sa
    obtain ⟨b, q, st⟩ := p
    simp only at g hs he sd sa ⊢
    by_cases h0 : (a.nc == 0) = true
    · simp only [h0, if_true]
      exact ⟨Good2.refl w, Or.inr (Or.inl rfl), fun k => (by cases k)⟩
    · simp only [h0, Bool.false_eq_true, if_false]
      rcases hs with k | k | k
      · subst k
        have e : (Status.ok != Status.ok) = false := by decide
        simp only [e, Bool.false_eq_true, if_false]
        have hinv : BInv b q := ⟨g.w, by rw [g.trk]; exact tok, by rw [g.inm]; exact hm,
          by rw [mapOf_same g.inm sd sa, g.inm]; exact hmap⟩
        obtain ⟨x1, x2, x3⟩ := readBody_good b q hinv (hf.of_eq g.fmt)
        refine ⟨g.to2.trans x1, ?_, x3⟩
        rcases x2 with k | k
        · exact Or.inl k
        · exact Or.inr (Or.inr k)
      · subst k
        have e : (Status.eof != Status.ok) = true := by decide
        simp only [e, if_true]
        exact ⟨g.to2, Or.inr (Or.inl rfl), fun k => (by cases k)⟩
      · subst k
        have e : (Status.eformat != Status.ok) = true := by decide
        simp only [e, if_true]
        exact ⟨g.to2, Or.inr (Or.inr rfl), he⟩
  obtain ⟨k1, k2, k3⟩ := key
  exact ⟨k2, k3, k1.exc, k1.w, k1.fmt, k1.file, k1.inm⟩

end EaselModel.Sqio.EmblTotal
