import EaselModel.Sqio.WindowSeries
import EaselModel.Sqio.SpecFasta
/-! # Windows over a whole file = the windows of the records of the declarative parser (C04)

`readFileWindowsM`: the client loop `for each record: while (esl_sqio_ReadWindow(...) == eslOK) …; until eslEOF`. `file_windows_eq_spec`:
on every file whose records all parse (`specAll … = (records, eslEOF)`), for every block size and every request stream, the windows
returned for the `i`-th record are the declarative windows `specWindows` of the residues of the `i`-th record of `specFasta`'s loop, and the
loop ends with `eslEOF`. -/
namespace EaselModel.Sqio.FileWindows
open EaselModel.Sqio.Refine EaselModel.Sqio.DataScan EaselModel.Sqio.Cursor EaselModel.Sqio.BodySpec EaselModel.Sqio.HeaderSpec
open EaselModel.Sqio.ReadSpec EaselModel.Sqio.WindowSeries EaselModel.Sqio.WinSpecPure EaselModel.Sqio.SpecFasta

def readFileWindowsM (req : Nat → Int × Int) : Nat → Ascii → Sq → List (List Sq) × Status
  | 0, _, _ => ([], .fault)
  | fuel + 1, a, sq =>
    if (readWindowsM req (a.file.size + 2) 0 a sq).2.2.2 == .eod then
      ((readWindowsM req (a.file.size + 2) 0 a sq).1 ::
         (readFileWindowsM req fuel (readWindowsM req (a.file.size + 2) 0 a sq).2.1 (readWindowsM req (a.file.size + 2) 0 a sq).2.2.1).1,
       (readFileWindowsM req fuel (readWindowsM req (a.file.size + 2) 0 a sq).2.1 (readWindowsM req (a.file.size + 2) 0 a sq).2.2.1).2)
    else ([], (readWindowsM req (a.file.size + 2) 0 a sq).2.2.2)

theorem dropWhile_len (p : UInt8 → Bool) (l : List UInt8) : (l.dropWhile p).length ≤ l.length := Totality.dropWhile_length_le p l

/-- the residues of a record are at most as many as the bytes it was parsed from -/
theorem specOne_seq_le (inmap map : Bytes) (N : Nat) (l : List UInt8) (r : Record) (rest : List UInt8)
    (h : specOne inmap map N l = (.ok, some r, rest)) : r.seq.length ≤ l.length := by
  unfold specOne at h
  split at h
  · cases h
  · rename_i c l2 hc
    simp only [] at h
    by_cases hg : (c != chGt) = true
    · simp [hg] at h
    · simp only [hg, Bool.false_eq_true, if_false] at h
      by_cases hn : ((l2.dropWhile isBlankTab).takeWhile pName).isEmpty = true
      · simp [hn] at h
      · simp only [hn, Bool.false_eq_true, if_false] at h
        have hl : (c :: l2).length ≤ l.length := by rw [← hc]; exact dropWhile_len _ _
        have key : ∀ (X : List UInt8), ((X.takeWhile (isData inmap)).filter (isRes inmap)).length ≤ X.length := by
          intro X
          exact Nat.le_trans (List.length_filter_le _ _) (by
            have := takeWhile_length_le (isData inmap) X; omega)
        have chain : ((((((l2.dropWhile isBlankTab).dropWhile pName).dropWhile isBlankTab).dropWhile pDesc).dropWhile pNotEol).dropWhile pEol).length
            ≤ l2.length := by
          have a1 := dropWhile_len isBlankTab l2
          have a2 := dropWhile_len pName (l2.dropWhile isBlankTab)
          have a3 := dropWhile_len isBlankTab ((l2.dropWhile isBlankTab).dropWhile pName)
          have a4 := dropWhile_len pDesc (((l2.dropWhile isBlankTab).dropWhile pName).dropWhile isBlankTab)
          have a5 := dropWhile_len pNotEol ((((l2.dropWhile isBlankTab).dropWhile pName).dropWhile isBlankTab).dropWhile pDesc)
          have a6 := dropWhile_len pEol (((((l2.dropWhile isBlankTab).dropWhile pName).dropWhile isBlankTab).dropWhile pDesc).dropWhile pNotEol)
          omega
        have k := key ((((((l2.dropWhile isBlankTab).dropWhile pName).dropWhile isBlankTab).dropWhile pDesc).dropWhile pNotEol).dropWhile pEol)
        simp only [List.length_cons] at hl
        split at h
        · have := (Prod.mk.inj (Prod.mk.inj h).2).1
          have hr := Option.some.inj this
          rw [← hr]; simp only [List.length_map]; omega
        · split at h
          · have := (Prod.mk.inj (Prod.mk.inj h).2).1
            have hr := Option.some.inj this
            rw [← hr]; simp only [List.length_map]; omega
          · cases (Prod.mk.inj h).1

/-- the first window call on what is left of a file that holds no further record: `eslEOF` -/
theorem readWindowsM_eof (req : Nat → Int × Int) (hreq : ∀ k, 0 ≤ (req k).1 ∧ 1 ≤ (req k).2) (a : Ascii) (sq : Sq) (R : Ready a sq)
    (hst : sq.start = 0) (heof : (read a sq).2.2 = .eof) (F : Nat) :
    (readWindowsM req (F + 1) 0 a sq).2.2.2 = .eof ∧ (readWindowsM req (F + 1) 0 a sq).1 = [] := by
  have hW := (hreq 0).2
  have key : (readWindow a sq (req 0).1 (req 0).2).2.2 = .eof := by
    by_cases hnc : a.nc = 0
    · unfold readWindow
      have h1 : ¬ (req 0).2 < 0 := by omega
      simp [h1, hst, hnc]
    · rw [readWindow_first a sq (req 0).1 (req 0).2 (by omega) hst hnc]
      have hr : read a sq = if (parseHeader a sq).2.2 != .ok then parseHeader a sq else readBody (parseHeader a sq).1 (parseHeader a sq).2.1 := by
        rw [read_eq]
        have : (a.nc == 0) = false := by simpa using hnc
        simp [this]
      by_cases hp : (parseHeader a sq).2.2 = .ok
      · exfalso
        have hb : ((parseHeader a sq).2.2 != Status.ok) = false := by rw [hp]; decide
        rw [hr] at heof
        simp only [hb, Bool.false_eq_true, if_false] at heof
        -- after a good header the record read cannot report eslEOF
        obtain ⟨q1, _, _, _⟩ := read_spec a sq R
        have hq : (read a sq).2.2 = .eof := by rw [hr]; simp only [hb, Bool.false_eq_true, if_false]; exact heof
        rw [q1] at hq
        have hl : Sim.Live a := by
          rcases R.cur.cur with hl | ⟨⟨e1, _⟩, _⟩
          · exact hl
          · exact absurd e1 hnc
        obtain ⟨x, t, _, hf, _⟩ := abs_of_live a R.cur hl
        obtain ⟨h1, _, _, _⟩ := headerFasta_spec a sq R.cur hl R.nalloc R.dalloc
        rw [parseHeader_fasta a sq R.fmt] at hp
        have hH : (headerL a.file.size sq (fileFrom a)).1 = .ok := by
          have := congrArg Prod.snd h1
          simp only [] at this
          rw [← this]; exact hp
        unfold recL at hq
        have hne : (fileFrom a).isEmpty = false := by rw [hf]; rfl
        have hbk : ((headerL a.file.size sq (fileFrom a)).1 == Status.ok) = true := by rw [hH]; rfl
        simp only [hne, Bool.false_eq_true, if_false, hbk, if_true] at hq
        rcases Totality.bodyL_status a.inmap (mapFor a.inmap sq) a.file.size (headerL a.file.size sq (fileFrom a)).2.1
          (headerL a.file.size sq (fileFrom a)).2.2 with k | k <;> rw [k] at hq <;> cases hq
      · have hb : ((parseHeader a sq).2.2 != Status.ok) = true := by simpa using hp
        rw [hr] at heof
        simp only [hb, if_true] at heof ⊢
        exact heof
  rw [readWindowsM_succ]
  have hb : ((readWindow a sq (req 0).1 (req 0).2).2.2 == Status.ok) = false := by rw [key]; decide
  simp only [hb, Bool.false_eq_true, if_false]
  exact ⟨key, trivial⟩


theorem readFileWindowsM_succ (req : Nat → Int × Int) (fuel : Nat) (a : Ascii) (sq : Sq) :
    readFileWindowsM req (fuel + 1) a sq =
    if (readWindowsM req (a.file.size + 2) 0 a sq).2.2.2 == .eod then
      ((readWindowsM req (a.file.size + 2) 0 a sq).1 ::
         (readFileWindowsM req fuel (readWindowsM req (a.file.size + 2) 0 a sq).2.1 (readWindowsM req (a.file.size + 2) 0 a sq).2.2.1).1,
       (readFileWindowsM req fuel (readWindowsM req (a.file.size + 2) 0 a sq).2.1 (readWindowsM req (a.file.size + 2) 0 a sq).2.2.1).2)
    else ([], (readWindowsM req (a.file.size + 2) 0 a sq).2.2.2) := rfl

/-- **Windows over a whole file, for every block size and every request stream**: if the records of the file (from the cursor on) all
    parse — `specAll` ends with `eslEOF` —, the window loop returns, record by record, exactly the declarative windows of the residues of
    `specAll`'s records, and ends with `eslEOF`. -/
theorem file_windows_eq_spec (req : Nat → Int × Int) (hreq : ∀ k, 0 ≤ (req k).1 ∧ 1 ≤ (req k).2) (N : Nat) (inmap map : Bytes) :
    ∀ (fuel : Nat) (a : Ascii) (sq : Sq), Ready a sq → sq.seq = #[] → sq.start = 0 → a.file.size = N → a.inmap = inmap →
      mapFor a.inmap sq = map → (fileFrom a).length < fuel →
      (specAll inmap map N fuel (fileFrom a)).2 = .eof →
      (readFileWindowsM req fuel a sq).1.map (fun ws => ws.map toWin) =
        (specAll inmap map N fuel (fileFrom a)).1.map (fun r => specWindows r.seq.toArray req (N + 2) 0 0 0) ∧
      (readFileWindowsM req fuel a sq).2 = .eof := by
  intro fuel
  induction fuel with
  | zero => intro a sq _ _ _ _ _ _ h; omega
  | succ fuel ih =>
    intro a sq R hs hst hN hi hm hf hspec
    obtain ⟨q1, q2, _, _⟩ := read_spec a sq R
    obtain ⟨e1, e2⟩ := recL_eq_specOne a.inmap a.file.size sq (fileFrom a) hs
    rw [hm, hi, hN] at e1 e2
    rw [hi, hN] at q1 q2
    rw [readFileWindowsM_succ, hN]
    simp only [specAll] at hspec ⊢
    generalize hSO : specOne inmap map N (fileFrom a) = SO at e1 e2 hspec ⊢
    obtain ⟨o1, o2, o3⟩ := SO
    simp only [] at e1 e2
    by_cases hok : o1 = .ok
    · subst hok
      have hrok : (recL inmap N sq (fileFrom a)).1 = .ok := e1
      obtain ⟨m1, m2, m3, m4⟩ := q2 hrok
      obtain ⟨f1, f2⟩ := e2 hrok
      subst f1
      simp only [] at hspec ⊢
      have hread : (read a sq).2.2 = .ok := by rw [q1]; exact hrok
      have hseqR : (read a sq).2.1.seq = (toRecord (recL inmap N sq (fileFrom a)).2.1).seq.toArray := by
        rw [m1]; simp [toRecord]
      have hle : (read a sq).2.1.seq.size + 2 ≤ N + 2 := by
        have := specOne_seq_le inmap map N (fileFrom a) _ _ hSO
        have hl := R.cur.len
        rw [hseqR]
        simp only [List.size_toArray]
        omega
      obtain ⟨w1, w2, _, _, _, w6, _, _, w9⟩ := windows_eq_read a sq R hs hst hread req hreq (N + 2) hle
      obtain ⟨r1, r2, r3, r4⟩ := windows_then_ready a sq R hs hst hread req hreq (N + 2) hle
      have hb : ((readWindowsM req (N + 2) 0 a sq).2.2.2 == Status.eod) = true := by rw [w2]; decide
      simp only [hb, if_true, List.map_cons]
      -- the next record
      have hfile' : (readWindowsM req (N + 2) 0 a sq).2.1.file.size = N := by rw [stat_file w9]; exact hN
      have hi' : (readWindowsM req (N + 2) 0 a sq).2.1.inmap = inmap := by rw [stat_inmap w9]; exact hi
      have hm' : mapFor (readWindowsM req (N + 2) 0 a sq).2.1.inmap (readWindowsM req (N + 2) 0 a sq).2.2.1 = map := by
        rw [hi', ← hm, hi]
        simp only [hdrOf, Prod.mk.injEq] at w6
        obtain ⟨d1, d2, _⟩ := w6
        obtain ⟨k1, k2, _, _⟩ := ParseFasta.recL_keeps inmap N sq (fileFrom a) hrok
        rw [m1] at d1 d2
        simp only [mapFor, d1, d2, k1, k2]
      have hrest : fileFrom (readWindowsM req (N + 2) 0 a sq).2.1 = o3 := by rw [r4, m3]; exact f2
      have hlt : o3.length < (fileFrom a).length := by
        have := (Totality.recL_wf inmap N sq (fileFrom a) (by have := R.cur.len; omega) R.nalloc R.dalloc hrok).2
        rw [f2] at this; exact this
      obtain ⟨i1, i2⟩ := ih _ _ r1 r2 r3 hfile' hi' hm' (by rw [hrest]; omega) (by rw [hrest]; exact hspec)
      rw [hrest] at i1
      refine ⟨?_, i2⟩
      rw [i1, w1, hseqR]
    · -- no further record: the hypothesis says the status is `eslEOF`
      have hst1 : o1 = .eof := by
        cases o1 <;> first | rfl | exact absurd rfl hok | (simp only [] at hspec; first | exact hspec | cases hspec)
      subst hst1
      simp only [List.map_nil]
      have hreof : (read a sq).2.2 = .eof := by rw [q1]; exact e1
      obtain ⟨z1, z2⟩ := readWindowsM_eof req hreq a sq R hst hreof (N + 1)
      have hb : ((readWindowsM req (N + 2) 0 a sq).2.2.2 == Status.eod) = false := by rw [z1]; decide
      simp only [hb, Bool.false_eq_true, if_false, List.map_nil]
      exact ⟨trivial, z1⟩


/-- **From `esl_sqfile_Open` on: the windows of a whole well-formed FASTA file are the declarative windows of `specFasta`'s records**, for every
    byte string whose records all parse, every alphabet mode, every block size `B ≥ 1` and every request stream. -/
theorem file_windows_from_open (bytes : Bytes) (B abc : Nat) (hB : 1 ≤ B) (habc : abc ∈ [0, 1, 2, 3])
    (req : Nat → Int × Int) (hreq : ∀ k, 0 ≤ (req k).1 ∧ 1 ≤ (req k).2) (hclean : (specFasta abc bytes.toList).2 = .eof) :
    (readFileWindowsM req (bytes.size + 2) (ParseFasta.openFasta bytes B abc) (freshSq abc).reuse).1.map (fun ws => ws.map toWin) =
      (specFasta abc bytes.toList).1.map (fun r => specWindows r.seq.toArray req (bytes.size + 2) 0 0 0) ∧
    (readFileWindowsM req (bytes.size + 2) (ParseFasta.openFasta bytes B abc) (freshSq abc).reuse).2 = .eof := by
  obtain ⟨R, hff, hi, hf⟩ := ParseFasta.openFasta_ready bytes B abc hB habc
  have hmap : mapFor (ParseFasta.openFasta bytes B abc).inmap (freshSq abc).reuse = (if abc = 0 then inmapFasta 0 else abcInmap abc) := by
    rw [hi]
    by_cases h0 : abc = 0
    · subst h0; simp [mapFor, freshSq, Sq.reuse]
    · simp [mapFor, freshSq, Sq.reuse, h0]
  have hlen : bytes.toList.length = bytes.size := Array.length_toList
  unfold specFasta at hclean ⊢
  rw [hlen] at hclean ⊢
  have key := file_windows_eq_spec req hreq bytes.size (inmapFasta abc) (if abc = 0 then inmapFasta 0 else abcInmap abc)
    (bytes.size + 2) (ParseFasta.openFasta bytes B abc) (freshSq abc).reuse R rfl rfl (by rw [hf]) hi hmap (by rw [hff, hlen]; omega)
    (by rw [hff]; exact hclean)
  rw [hff] at key
  exact key

end EaselModel.Sqio.FileWindows
