import EaselModel.Sqio.MsaSeqLemmas
import EaselModel.Msafile.GuessLemmas
/-! # `sqascii_ReadBlock` (short mode) and `sqascii_GuessAlphabet` on an alignment file are total (C02) -/
namespace EaselModel.Sqio.MsaSeq
open EaselModel.Msafile

/-- every slot of the block is an `ESL_SQ` of the handle's mode (`esl_sq_CreateBlock` / `esl_sq_CreateDigitalBlock`) -/
def SlotsOk (o : Opened) (l : Array Sq) : Prop := ∀ j (hj : j < l.size), l[j].digital = o.abc.isSome

theorem slotsOk_set (o : Opened) (l : Array Sq) (i : Nat) (q : Sq) (hl : SlotsOk o l) (hq : q.digital = o.abc.isSome) :
    SlotsOk o (l.setIfInBounds i q) := by
  intro j hj
  rw [Array.getElem_setIfInBounds]
  split
  · exact hq
  · exact hl j (by simpa using hj)

/-- the loop of the `!long_target` branch over an alignment file: never a fault, no exception; it stops with `eslOK` (block full),
    `eslEOF`, or `eslEFORMAT` with a message; the slots keep their mode and the handle its invariant -/
theorem blockLoop_total : ∀ (fuel : Nat) (h : MsaH) (l : Array Sq) (i size maxSeq : Nat),
    Inv h → ModeOk h.o → 0 ≤ h.idx → SlotsOk h.o l → maxSeq ≤ l.size →
    Inv (blockLoop fuel h l i size maxSeq).1 ∧ (blockLoop fuel h l i size maxSeq).1.o = h.o ∧
    (blockLoop fuel h l i size maxSeq).1.exc = h.exc ∧ 0 ≤ (blockLoop fuel h l i size maxSeq).1.idx ∧
    SlotsOk h.o (blockLoop fuel h l i size maxSeq).2.1 ∧ (blockLoop fuel h l i size maxSeq).2.1.size = l.size ∧
    ((blockLoop fuel h l i size maxSeq).2.2.2 = .ok ∨ (blockLoop fuel h l i size maxSeq).2.2.2 = .eof ∨
     ((blockLoop fuel h l i size maxSeq).2.2.2 = .eformat ∧ (blockLoop fuel h l i size maxSeq).1.haveErr = true)) := by
  intro fuel
  induction fuel with
  | zero =>
    intro h l i size maxSeq hi _ hidx hs _
    exact ⟨hi, rfl, rfl, hidx, hs, rfl, Or.inl rfl⟩
  | succ fuel ih =>
    intro h l i size maxSeq hi hm hidx hs hmax
    unfold blockLoop
    by_cases hc : (decide (i < maxSeq) && decide (size < maxResidueCount)) = true
    · rw [if_neg (by simp only [hc, Bool.not_true]; exact Bool.false_ne_true)]
      have hil : i < l.size := by
        simp only [Bool.and_eq_true, decide_eq_true_eq] at hc; omega
      rw [Array.getElem?_eq_getElem hil]
      simp only []
      obtain ⟨r1, r2, r3, r4, r5⟩ := read_total h l[i] hi hm hidx (hs i hil)
      generalize MsaSeq.read h l[i] = rr at r1 r2 r3 r4 r5
      obtain ⟨h', q, st⟩ := rr
      simp only at r1 r2 r3 r4 r5
      rcases r5 with ⟨hst, hqd, _⟩ | hst | ⟨hst, herr⟩
      · subst hst
        have e : (Status.ok != Status.ok) = false := rfl
        simp only [e, Bool.false_eq_true, if_false]
        have hs' : SlotsOk h'.o (l.setIfInBounds i q) := by
          rw [r2]; exact slotsOk_set h.o l i q hs (by rw [hqd]; exact hs i hil)
        obtain ⟨k1, k2, k3, k4, k5, k6, k7⟩ := ih h' (l.setIfInBounds i q) (i + 1) (size + q.n) maxSeq r1 (by rw [r2]; exact hm) r4 hs'
          (by simpa using hmax)
        refine ⟨k1, k2.trans r2, k3.trans r3, k4, by rw [← r2]; exact k5, by rw [k6]; simp, k7⟩
      · subst hst
        have e : (Status.eof != Status.ok) = true := rfl
        simp only [e, if_true]
        exact ⟨r1, r2, r3, r4, hs, (by first | trivial | rfl), Or.inr (Or.inl (by first | trivial | rfl))⟩
      · subst hst
        have e : (Status.eformat != Status.ok) = true := rfl
        simp only [e, if_true]
        exact ⟨r1, r2, r3, r4, hs, (by first | trivial | rfl), Or.inr (Or.inr ⟨(by first | trivial | rfl), herr⟩)⟩
    · rw [if_pos (by simp only [Bool.not_eq_true] at hc; simp only [hc, Bool.not_false])]
      exact ⟨hi, rfl, rfl, hidx, hs, rfl, Or.inl rfl⟩

/-- **`sqascii_ReadBlock` (`!long_target`) on an alignment file is total**: `eslOK` with a complete block, `eslEOF` (nothing read), or
    `eslEFORMAT` with a message; never a fault, no exception; every slot stays an `ESL_SQ` of the handle's mode; invariant kept -/
theorem readBlock_total (h : MsaH) (b : Block) (maxSeq : Int) (hi : Inv h) (hm : ModeOk h.o) (hidx : 0 ≤ h.idx)
    (hs : SlotsOk h.o b.list) (hls : b.listSize ≤ b.list.size) :
    Inv (readBlock h b maxSeq).1 ∧ (readBlock h b maxSeq).1.o = h.o ∧ (readBlock h b maxSeq).1.exc = h.exc ∧
    0 ≤ (readBlock h b maxSeq).1.idx ∧ SlotsOk h.o (readBlock h b maxSeq).2.1.list ∧
    (((readBlock h b maxSeq).2.2 = .ok ∧ (readBlock h b maxSeq).2.1.complete = true) ∨ (readBlock h b maxSeq).2.2 = .eof ∨
     ((readBlock h b maxSeq).2.2 = .eformat ∧ (readBlock h b maxSeq).1.haveErr = true)) := by
  unfold readBlock
  simp only []
  generalize hms : (if maxSeq < 1 || maxSeq > (b.listSize : Int) then b.listSize else maxSeq.toNat) = ms
  have hmsle : ms ≤ b.list.size := by
    rw [← hms]
    split
    · exact hls
    · rename_i hc
      simp only [Bool.or_eq_true, decide_eq_true_eq, not_or, Int.not_lt] at hc
      omega
  obtain ⟨k1, k2, k3, k4, k5, _, k7⟩ := blockLoop_total (ms + 1) h b.list 0 0 ms hi hm hidx hs hmsle
  generalize blockLoop (ms + 1) h b.list 0 0 ms = r at k1 k2 k3 k4 k5 k7
  obtain ⟨h', l, i, st⟩ := r
  simp only at k1 k2 k3 k4 k5 k7
  rcases k7 with hst | hst | ⟨hst, herr⟩
  · subst hst
    have e1 : (Status.ok == Status.fault) = false := rfl
    have e2 : (Status.ok != Status.ok) = false := rfl
    simp only [e1, e2, Bool.false_eq_true, if_false, Bool.false_and]
    exact ⟨k1, k2, k3, k4, k5, Or.inl ⟨(by first | trivial | rfl), (by first | trivial | rfl)⟩⟩
  · subst hst
    have e1 : (Status.eof == Status.fault) = false := rfl
    have e2 : (Status.eof != Status.ok) = true := rfl
    have e3 : (Status.eof == Status.eof) = true := rfl
    simp only [e1, e2, e3, Bool.false_eq_true, if_false, Bool.true_and]
    by_cases hpos : i > 0
    · simp only [hpos, decide_true, Bool.not_true, Bool.and_false, Bool.false_eq_true, if_false]
      exact ⟨k1, k2, k3, k4, k5, Or.inl ⟨(by first | trivial | rfl), (by first | trivial | rfl)⟩⟩
    · simp only [hpos, decide_false, Bool.not_false, Bool.and_true, if_true]
      exact ⟨k1, k2, k3, k4, k5, Or.inr (Or.inl (by first | trivial | rfl))⟩
  · subst hst
    have e1 : (Status.eformat == Status.fault) = false := rfl
    have e2 : (Status.eformat != Status.ok) = true := rfl
    have e3 : (Status.eformat == Status.eof) = false := rfl
    simp only [e1, e2, e3, Bool.false_eq_true, if_false, Bool.false_and, Bool.not_false, Bool.and_true, if_true]
    exact ⟨k1, k2, k3, k4, k5, Or.inr (Or.inr ⟨(by first | trivial | rfl), herr⟩)⟩

/-- **`sqascii_GuessAlphabet` on an alignment file** (= `esl_msafile_GuessAlphabet` on the lines not yet read) **is total**: an alphabet
    type or `eslENOALPHABET`; never a fault - whatever the lines, format and name width (C01 `guessAlphabet_no_fault`) -/
theorem guessAlphabet_total (h : MsaH) :
    (∃ t, guessAlphabet h.o.fmt h.o.namewidth h.lines = .ok t) ∨ guessAlphabet h.o.fmt h.o.namewidth h.lines = .fail := by
  have hnf := guessAlphabet_no_fault h.o.fmt h.o.namewidth h.lines
  cases hg : guessAlphabet h.o.fmt h.o.namewidth h.lines with
  | ok t => exact Or.inl ⟨t, rfl⟩
  | fail => exact Or.inr rfl
  | fault => exact absurd hg hnf

end EaselModel.Sqio.MsaSeq
