import EaselModel.Sqio.EmblAll
import EaselModel.Sqio.WindowSeries
/-! # Forward windows of the line-based formats are block-size independent (C04) -/
namespace EaselModel.Sqio.EmblWin
open EaselModel.Sqio EaselModel.Sqio.LineSpec EaselModel.Sqio.EmblSpec EaselModel.Sqio.EmblAll

/-- the status dispatch of `read_nres` after its first loop -/
def rnDispatch (a : Ascii) (nskip : Nat) (see : See) (st : Status) : Option (Ascii × Status) × Nat :=
  if st == .eof then
    if !a.eofIsOk then (some (a.fail, .eformat), 0)
    else if nskip > 0 then (some (a.raise, .ecorrupt), 0)
    else (none, 0)
  else if st == .eod then
    if see.nres < nskip then (some (a.raise, .ecorrupt), 0) else (none, see.nres)
  else if st != .ok then (some (a, st), 0)
  else (none, see.nres)

/-- `read_nres` after the dispatch said "go on" with `n` residues seen -/
def rnGo (a : Ascii) (sq : Sq) (nskip nres : Nat) (see : See) (st : Status) (n : Nat) : Ascii × Sq × Status × Nat :=
  if (skipbuf a nskip).2 == .fault then ((skipbuf a nskip).1, sq, .fault, 0) else
  WindowSpec.finishT (nresAddLoop (fuelOf (skipbuf a nskip).1) (skipbuf a nskip).1 sq nres (n - nskip) 0 see.endpos st)

def rnTail (k : Ascii × Nat × See × Status) (sq : Sq) (nres : Nat) : Ascii × Sq × Status × Nat :=
  if k.2.2.2 == .fault then (k.1, sq, .fault, 0) else
  match rnDispatch k.1 k.2.1 k.2.2.1 k.2.2.2 with
  | (some (a, s), _) => (a, sq, s, 0)
  | (none, n) => rnGo k.1 sq k.2.1 nres k.2.2.1 k.2.2.2 n

macro "rn_tail_tac" : tactic => `(tactic| (
  unfold rnGo
  generalize skipbuf _ _ = sk
  obtain ⟨a3, stS⟩ := sk
  simp only []
  by_cases hS : (stS == Status.fault) = true
  · simp only [hS, if_true]
  · simp only [hS, Bool.false_eq_true, if_false]
    generalize nresAddLoop _ _ _ _ _ _ _ _ = r
    obtain ⟨x1, x2, x3, x4, x5, x6, x7⟩ := r
    simp only [WindowSpec.finishT, WindowSpec.finish]))

theorem readNres_staged (a : Ascii) (sq : Sq) (nskip nres : Nat) : readNres a sq nskip nres =
    rnTail (nresSkipLoop (fuelOf (seebuf a (some (nskip + nres))).1) (seebuf a (some (nskip + nres))).1 nskip nres
      (seebuf a (some (nskip + nres))).2) sq nres := by
  unfold readNres rnTail
  generalize seebuf a (some (nskip + nres)) = sb
  obtain ⟨a1, see⟩ := sb
  simp only []
  generalize nresSkipLoop (fuelOf a1) a1 nskip nres see = k
  obtain ⟨a2, ns, see2, st⟩ := k
  simp only []
  by_cases hf : (st == Status.fault) = true
  · simp only [hf, if_true]
  simp only [hf, Bool.false_eq_true, if_false]
  unfold rnDispatch
  by_cases h1 : (st == Status.eof) = true
  · simp only [h1, if_true]
    by_cases h2 : (!a2.eofIsOk) = true
    · simp only [h2, if_true]
    · simp only [h2, Bool.false_eq_true, if_false]
      by_cases h3 : ns > 0
      · simp only [h3, if_true]
      · simp only [h3, if_false]
        rn_tail_tac
  · simp only [h1, Bool.false_eq_true, if_false]
    by_cases h4 : (st == Status.eod) = true
    · simp only [h4, if_true]
      by_cases h5 : see2.nres < ns
      · simp only [h5, if_true]
      · simp only [h5, if_false]
        rn_tail_tac
    · simp only [h4, Bool.false_eq_true, if_false]
      by_cases h6 : (st != Status.ok) = true
      · simp only [h6, if_true]
      · simp only [h6, Bool.false_eq_true, if_false]
        rn_tail_tac

/-! ## simulation of `read_nres` -/

theorem skipbufLoop_congr (a b : Ascii) (hnc : a.nc = b.nc) (hin : a.inmap = b.inmap)
    (hg : ∀ i, i < a.nc → a.bufGet i = b.bufGet i) (nskip bpos : Nat) :
    skipbufLoop a nskip bpos = skipbufLoop b nskip bpos := by
  fun_induction skipbufLoop a nskip bpos
  case case1 =>
    rename_i h
    conv => rhs; rw [skipbufLoop]
    simp only [h, if_true]
  case case6 =>
    rename_i h1 h
    rw [hnc] at h
    conv => rhs; rw [skipbufLoop]
    simp only [h1, h, dite_false, Bool.false_eq_true, if_false]
  all_goals (
    have h := ‹_ < a.nc›
    have hb := h
    rw [hnc] at hb
    have hgb := (hg _ h).symm
    have hin' := hin.symm
    clear hg hin
    conv => rhs; rw [skipbufLoop]
    simp only [hb, dite_true, hgb, hin']
    first
      | (simp only [*, if_true, if_false, Bool.false_eq_true]; done)
      | (simp only [*, if_true, if_false, Bool.false_eq_true]; assumption))

theorem skipbuf_lsim {a1 a2 : Ascii} (h : LSim a1 a2) (n : Nat) :
    LSim (skipbuf a1 n).1 (skipbuf a2 n).1 ∧ (skipbuf a1 n).2 = (skipbuf a2 n).2 := by
  have k5 := (keepP_fields h.keep).2.2.2.2.1
  unfold skipbuf
  rw [h.bpos, skipbufLoop_congr a1 a2 h.nc k5 (fun i hi => bufGet_lsim h i hi)]
  exact ⟨lsim_upd h rfl rfl h.keep rfl, rfl⟩

theorem raise_lsim {a1 a2 : Ascii} (h : LSim a1 a2) : LSim a1.raise a2.raise := by
  obtain ⟨k1, k2, k3, k4, k5, k6, k7, k8, k9, k10, k11, k12, k13⟩ := keepP_fields h.keep
  refine lsim_upd h rfl rfl ?_ h.bpos
  simp only [keepP, Ascii.raise, k1, k2, k3, k4, k5, k6, k7, k8, k9, k11, k12, k13]

/-- results of `read_nres` -/
def Rel4 (r1 r2 : Ascii × Sq × Status × Nat) : Prop := LSim r1.1 r2.1 ∧ r1.2 = r2.2

theorem finish_lsim {a1 a2 : Ascii} (h : LSim a1 a2) (sq : Sq) (nres n actual epos : Nat) (st : Status) :
    Rel4 (WindowSpec.finish a1 sq nres n actual epos st) (WindowSpec.finish a2 sq nres n actual epos st) := by
  unfold WindowSpec.finish
  obtain ⟨ha, hae⟩ := addbuf_lsim h sq (min nres (if st == .eof then 0 else n))
  rw [hae, (keepP_fields h.keep).2.2.2.2.2.2.2.1]
  have hb := setBpos_lsim ha epos
  generalize (addbuf a1 sq (min nres (if st == .eof then 0 else n))).1 = c1 at ha hb
  generalize addbuf a2 sq (min nres (if st == .eof then 0 else n)) = ad at ha hb
  obtain ⟨c2, q, sA⟩ := ad
  simp only at ha hb ⊢
  have hf := fail_lsim h
  repeat' split
  all_goals first
    | exact ⟨h, rfl⟩
    | exact ⟨hf, rfl⟩
    | exact ⟨ha, rfl⟩
    | exact ⟨hb, rfl⟩

theorem nresAddLoop_lsim (fuel : Nat) : ∀ {a1 a2 : Ascii} (sq : Sq) (nres n actual epos : Nat) (st : Status), LSim a1 a2 →
    LSim (nresAddLoop fuel a1 sq nres n actual epos st).1 (nresAddLoop fuel a2 sq nres n actual epos st).1 ∧
    (nresAddLoop fuel a1 sq nres n actual epos st).2 = (nresAddLoop fuel a2 sq nres n actual epos st).2 := by
  induction fuel with
  | zero => intro a1 a2 sq nres n actual epos st h; exact ⟨h, rfl⟩
  | succ fuel ih =>
    intro a1 a2 sq nres n actual epos st h
    rw [WindowSpec.nresAddLoop_succ, WindowSpec.nresAddLoop_succ]
    obtain ⟨ha, hae⟩ := addbuf_lsim h sq n
    rw [hae]
    generalize (addbuf a1 sq n).1 = c1 at ha
    generalize addbuf a2 sq n = ad at ha
    obtain ⟨c2, q, sA⟩ := ad
    simp only at ha ⊢
    obtain ⟨hl, hle⟩ := loadbuf_lsim ha
    rw [hle]
    generalize (loadbuf c1).1 = d1 at hl
    generalize loadbuf c2 = ld at hl
    obtain ⟨d2, sL⟩ := ld
    simp only at hl ⊢
    obtain ⟨hs, hse⟩ := seebuf_lsim hl (some (nres - n))
    rw [hse]
    repeat' split
    all_goals first
      | exact ⟨h, rfl⟩
      | exact ⟨ha, rfl⟩
      | exact ⟨hl, rfl⟩
      | exact ih _ _ _ _ _ _ hs

theorem nresSkipLoop_lsim (fuel : Nat) : ∀ {a1 a2 : Ascii} (nskip nres : Nat) (see : See), LSim a1 a2 →
    LSim (nresSkipLoop fuel a1 nskip nres see).1 (nresSkipLoop fuel a2 nskip nres see).1 ∧
    (nresSkipLoop fuel a1 nskip nres see).2 = (nresSkipLoop fuel a2 nskip nres see).2 := by
  induction fuel with
  | zero => intro a1 a2 nskip nres see h; exact ⟨h, rfl⟩
  | succ fuel ih =>
    intro a1 a2 nskip nres see h
    rw [WindowSpec.nresSkipLoop_succ, WindowSpec.nresSkipLoop_succ]
    obtain ⟨hl, hle⟩ := loadbuf_lsim h
    rw [hle]
    generalize (loadbuf a1).1 = d1 at hl
    generalize loadbuf a2 = ld at hl
    obtain ⟨d2, sL⟩ := ld
    simp only at hl ⊢
    obtain ⟨hs, hse⟩ := seebuf_lsim hl (some (nskip - see.nres + nres))
    rw [hse]
    repeat' split
    all_goals first
      | exact ⟨h, rfl⟩
      | exact ⟨hl, rfl⟩
      | exact ih _ _ _ hs

theorem rnGo_lsim {a1 a2 : Ascii} (h : LSim a1 a2) (sq : Sq) (nskip nres : Nat) (see : See) (st : Status) (n : Nat) :
    Rel4 (rnGo a1 sq nskip nres see st n) (rnGo a2 sq nskip nres see st n) := by
  unfold rnGo
  obtain ⟨hk, hke⟩ := skipbuf_lsim h nskip
  rw [hke, fuelOf_lsim hk]
  obtain ⟨hn, hne⟩ := nresAddLoop_lsim (fuelOf (skipbuf a2 nskip).1) sq nres (n - nskip) 0 see.endpos st hk
  split
  · exact ⟨hk, rfl⟩
  · unfold WindowSpec.finishT
    rw [hne]
    exact finish_lsim hn _ _ _ _ _ _

theorem rnTail_lsim {k1 k2 : Ascii × Nat × See × Status} (hk : LSim k1.1 k2.1) (he : k1.2 = k2.2) (sq : Sq) (nres : Nat) :
    Rel4 (rnTail k1 sq nres) (rnTail k2 sq nres) := by
  obtain ⟨a1, ns1, see1, st1⟩ := k1
  obtain ⟨a2, ns2, see2, st2⟩ := k2
  simp only at hk he
  obtain ⟨rfl, h2⟩ := Prod.mk.inj he
  obtain ⟨rfl, rfl⟩ := Prod.mk.inj h2
  unfold rnTail rnDispatch
  simp only []
  rw [(keepP_fields hk.keep).2.2.2.2.2.2.2.1]
  have hf := fail_lsim hk
  have hr := raise_lsim hk
  by_cases h0 : (st1 == Status.fault) = true
  · simp only [h0, if_true]; exact ⟨hk, rfl⟩
  simp only [h0, Bool.false_eq_true, if_false]
  by_cases h1 : (st1 == Status.eof) = true
  · simp only [h1, if_true]
    by_cases h2 : (!a2.eofIsOk) = true
    · simp only [h2, if_true]; exact ⟨hf, rfl⟩
    · simp only [h2, Bool.false_eq_true, if_false]
      by_cases h3 : ns1 > 0
      · simp only [h3, if_true]; exact ⟨hr, rfl⟩
      · simp only [h3, if_false]; exact rnGo_lsim hk _ _ _ _ _ _
  · simp only [h1, Bool.false_eq_true, if_false]
    by_cases h4 : (st1 == Status.eod) = true
    · simp only [h4, if_true]
      by_cases h5 : see1.nres < ns1
      · simp only [h5, if_true]; exact ⟨hr, rfl⟩
      · simp only [h5, if_false]; exact rnGo_lsim hk _ _ _ _ _ _
    · simp only [h4, Bool.false_eq_true, if_false]
      by_cases h6 : (st1 != Status.ok) = true
      · simp only [h6, if_true]; exact ⟨hk, rfl⟩
      · simp only [h6, Bool.false_eq_true, if_false]; exact rnGo_lsim hk _ _ _ _ _ _

/-- **`read_nres` on a line-based file is block-size independent** -/
theorem readNres_lsim {a1 a2 : Ascii} (h : LSim a1 a2) (sq : Sq) (nskip nres : Nat) :
    Rel4 (readNres a1 sq nskip nres) (readNres a2 sq nskip nres) := by
  rw [readNres_staged, readNres_staged]
  obtain ⟨hs, hse⟩ := seebuf_lsim h (some (nskip + nres))
  rw [hse, fuelOf_lsim hs]
  obtain ⟨hk, hke⟩ := nresSkipLoop_lsim (fuelOf (seebuf a2 (some (nskip + nres))).1) nskip nres (seebuf a2 (some (nskip + nres))).2 hs
  exact rnTail_lsim hk hke sq nres

/-! ## the forward `sqascii_ReadWindow` -/

open EaselModel.Sqio.WindowSeries in
/-- the end-of-record part of `winTail` (after `parseEnd`) -/
def wtEnd (r : Ascii × Sq × Status) : Ascii × Sq × Status :=
  if r.2.2 != .ok then r else
  if !(if r.2.1.digital then 1 < r.2.1.salloc else 0 < r.2.1.salloc) then
    ((if r.1.nc > 0 then { r.1 with bookmarkOff := r.1.boff + r.1.bpos } else { r.1 with bookmarkOff := 0, bookmarkLine := 0 }),
     r.2.1, .fault)
  else
    ((if r.1.nc > 0 then { r.1 with bookmarkOff := r.1.boff + r.1.bpos } else { r.1 with bookmarkOff := 0, bookmarkLine := 0 }),
     { r.2.1 with start := 0, end_ := 0, C := 0, W := 0,
                  L := (if r.1.nc > 0 then ({ r.1 with bookmarkOff := r.1.boff + r.1.bpos } : Ascii)
                        else { r.1 with bookmarkOff := 0, bookmarkLine := 0 }).L, seq := #[] }, .eod)

def wtAfter (r : Ascii × Sq × Status × Nat) : Ascii × Sq × Status :=
  if r.2.2.1 == .eod then wtEnd (parseEnd { r.1 with L := r.1.L + r.2.2.2 } r.2.1)
  else if r.2.2.1 == .ok then
    ({ r.1 with L := r.1.L + r.2.2.2 }, { r.2.1 with end_ := r.2.1.start + r.2.1.C + r.2.2.2 - 1, W := r.2.2.2 }, .ok)
  else ({ r.1 with L := r.1.L + r.2.2.2 }, r.2.1, r.2.2.1)

theorem winTail_eq (a : Ascii) (sq : Sq) (C W : Int) : WindowSeries.winTail a sq C W =
    if C < 0 || W < 0 then (a, sq, .fault) else wtAfter (readNres a (sq.growTo (C + W).toNat) 0 W.toNat) := by
  unfold WindowSeries.winTail wtAfter
  by_cases hc : (decide (C < 0) || decide (W < 0)) = true
  · simp only [hc, if_true]
  simp only [hc, Bool.false_eq_true, if_false]
  generalize readNres a (sq.growTo (C + W).toNat) 0 W.toNat = r
  obtain ⟨a1, q, st, n⟩ := r
  simp only []
  by_cases h1 : (st == Status.eod) = true
  · simp only [h1, if_true]
    generalize parseEnd { a1 with L := a1.L + (n : Int) } q = e
    obtain ⟨a2, q2, s2⟩ := e
    unfold wtEnd
    simp only []
  · simp only [h1, Bool.false_eq_true, if_false]

theorem wtEnd_lsim {r1 r2 : Ascii × Sq × Status} (h : Rel3 r1 r2) : Rel3 (wtEnd r1) (wtEnd r2) := by
  obtain ⟨a1, q1, s1⟩ := r1
  obtain ⟨a2, q2, s2⟩ := r2
  obtain ⟨hs, he⟩ := h
  simp only at hs he
  obtain ⟨rfl, rfl⟩ := Prod.mk.inj he
  obtain ⟨k1, k2, k3, k4, k5, k6, k7, k8, k9, k10, k11, k12, k13⟩ := keepP_fields hs.keep
  have hA : LSim (if a1.nc > 0 then { a1 with bookmarkOff := a1.boff + a1.bpos } else { a1 with bookmarkOff := 0, bookmarkLine := 0 })
      (if a2.nc > 0 then { a2 with bookmarkOff := a2.boff + a2.bpos } else { a2 with bookmarkOff := 0, bookmarkLine := 0 }) := by
    by_cases hn : a1.nc > 0
    · have hn2 : a2.nc > 0 := by rw [← hs.nc]; exact hn
      simp only [hn, hn2, if_true]
      refine lsim_upd hs rfl rfl ?_ hs.bpos
      simp only [keepP, k1, k2, k3, k4, k5, k6, k7, k8, k9, k10, k12, k13, hs.boff, hs.bpos]
    · have hn2 : ¬ a2.nc > 0 := by rw [← hs.nc]; exact hn
      simp only [hn, hn2, if_false]
      refine lsim_upd hs rfl rfl ?_ hs.bpos
      simp only [keepP, k1, k2, k3, k4, k5, k6, k7, k8, k9, k10, k13]
  have hL := (keepP_fields hA.keep).2.1
  unfold wtEnd
  simp only []
  generalize (if a1.nc > 0 then ({ a1 with bookmarkOff := a1.boff + a1.bpos } : Ascii) else { a1 with bookmarkOff := 0, bookmarkLine := 0 }) = A1 at hA hL ⊢
  generalize (if a2.nc > 0 then ({ a2 with bookmarkOff := a2.boff + a2.bpos } : Ascii) else { a2 with bookmarkOff := 0, bookmarkLine := 0 }) = A2 at hA hL ⊢
  repeat' split
  all_goals first
    | exact ⟨hs, rfl⟩
    | exact ⟨hA, rfl⟩
    | exact ⟨hA, by simp only [hL]⟩

theorem wtAfter_lsim {r1 r2 : Ascii × Sq × Status × Nat} (h : Rel4 r1 r2) : Rel3 (wtAfter r1) (wtAfter r2) := by
  obtain ⟨a1, q1, s1, n1⟩ := r1
  obtain ⟨a2, q2, s2, n2⟩ := r2
  obtain ⟨hs, he⟩ := h
  simp only at hs he
  obtain ⟨rfl, h2⟩ := Prod.mk.inj he
  obtain ⟨rfl, rfl⟩ := Prod.mk.inj h2
  have hL := (keepP_fields hs.keep).2.1
  have hl := setL_lsim hs (a2.L + (n1 : Int))
  unfold wtAfter
  simp only []
  rw [hL]
  generalize ({ a1 with L := a2.L + (n1 : Int) } : Ascii) = B1 at hl ⊢
  generalize ({ a2 with L := a2.L + (n1 : Int) } : Ascii) = B2 at hl ⊢
  repeat' split
  all_goals first
    | exact ⟨hl, rfl⟩
    | exact wtEnd_lsim (parseEnd_lsim q1 hl)

theorem winTail_lsim {a1 a2 : Ascii} (h : LSim a1 a2) (sq : Sq) (C W : Int) :
    Rel3 (WindowSeries.winTail a1 sq C W) (WindowSeries.winTail a2 sq C W) := by
  rw [winTail_eq, winTail_eq]
  split
  · exact ⟨h, rfl⟩
  · exact wtAfter_lsim (readNres_lsim h _ _ _)

/-- **the forward `sqascii_ReadWindow` on an EMBL / UniProt / GenBank / DDBJ file is block-size independent** (`W ≥ 0`): same
    status, same `ESL_SQ`, and the two handles again stand on the same line -/
theorem readWindow_fwd_lsim {a1 a2 : Ascii} (h : LSim a1 a2) (hf : LineFmt a1) (sq : Sq) (C W : Int) (hW : 0 ≤ W) :
    Rel3 (readWindow a1 sq C W) (readWindow a2 sq C W) := by
  by_cases hs : sq.start = 0
  · by_cases hnc : a1.nc = 0
    · have hnc2 : a2.nc = 0 := by rw [← h.nc]; exact hnc
      have h1 : ¬ W < 0 := by omega
      have e1 : readWindow a1 sq C W = (a1, sq, .eof) := by unfold readWindow; simp [h1, hs, hnc]
      have e2 : readWindow a2 sq C W = (a2, sq, .eof) := by unfold readWindow; simp [h1, hs, hnc2]
      rw [e1, e2]; exact ⟨h, rfl⟩
    · have hnc2 : a2.nc ≠ 0 := by rw [← h.nc]; exact hnc
      rw [WindowSeries.readWindow_first a1 sq C W hW hs hnc, WindowSeries.readWindow_first a2 sq C W hW hs hnc2]
      obtain ⟨hp, hpe⟩ := parseHeader_lsim sq h hf
      generalize parseHeader a1 sq = r1 at hp hpe
      generalize parseHeader a2 sq = r2 at hp hpe
      obtain ⟨b1, q1, s1⟩ := r1
      obtain ⟨b2, q2, s2⟩ := r2
      simp only at hp hpe ⊢
      obtain ⟨rfl, rfl⟩ := Prod.mk.inj hpe
      split
      · exact ⟨hp, rfl⟩
      · exact winTail_lsim (setL_lsim hp 0) _ C W
  · rw [WindowSeries.readWindow_next a1 sq C W hW hs, WindowSeries.readWindow_next a2 sq C W hW hs,
      (keepP_fields h.keep).2.1]
    exact winTail_lsim h _ C W

theorem readWindow_fwd_linebased_block_size_independent (a1 a2 : Ascii) (sq : Sq) (C W : Int) (h : LSim a1 a2) (hf : LineFmt a1)
    (hW : 0 ≤ W) :
    (readWindow a1 sq C W).2.2 = (readWindow a2 sq C W).2.2 ∧ (readWindow a1 sq C W).2.1 = (readWindow a2 sq C W).2.1 ∧
    LSim (readWindow a1 sq C W).1 (readWindow a2 sq C W).1 := by
  obtain ⟨h1, h2⟩ := readWindow_fwd_lsim h hf sq C W hW
  exact ⟨congrArg Prod.snd h2, congrArg Prod.fst h2, h1⟩

/-! ## `sqascii_ReadBlock`, short-target branch -/

theorem blockShortLoop_lsim (fuel : Nat) : ∀ {a1 a2 : Ascii} (b : Block) (i size maxSeq : Nat) (st : Status), LSim a1 a2 → LineFmt a1 →
    LSim (blockShortLoop fuel a1 b i size maxSeq st).1 (blockShortLoop fuel a2 b i size maxSeq st).1 ∧
    (blockShortLoop fuel a1 b i size maxSeq st).2 = (blockShortLoop fuel a2 b i size maxSeq st).2 := by
  induction fuel with
  | zero => intro a1 a2 b i size maxSeq st h _; exact ⟨h, rfl⟩
  | succ fuel ih =>
    intro a1 a2 b i size maxSeq st h hf
    simp only [blockShortLoop]
    obtain ⟨hr, hre⟩ := read_lsim (b.list.getD i {}) h hf
    have hk := read_keeps a1 (b.list.getD i {}) h.w1 hf
    generalize read a1 (b.list.getD i {}) = r1 at hr hre hk
    generalize read a2 (b.list.getD i {}) = r2 at hr hre
    obtain ⟨c1, q1, s1⟩ := r1
    obtain ⟨c2, q2, s2⟩ := r2
    simp only at hr hre hk ⊢
    obtain ⟨rfl, rfl⟩ := Prod.mk.inj hre
    repeat' split
    all_goals first
      | exact ⟨h, rfl⟩
      | exact ⟨hr, rfl⟩
      | exact ih _ _ _ _ _ hr (hf.of_eq hk.1)

/-- **`sqascii_ReadBlock` (short targets) on a line-based file is block-size independent** -/
theorem readBlock_short_linebased_block_size_independent (a1 a2 : Ascii) (b : Block) (maxRes maxSeq : Int) (maxInit : Bool)
    (h : LSim a1 a2) (hf : LineFmt a1) :
    (readBlock a1 b maxRes maxSeq maxInit false).2 = (readBlock a2 b maxRes maxSeq maxInit false).2 ∧
    LSim (readBlock a1 b maxRes maxSeq maxInit false).1 (readBlock a2 b maxRes maxSeq maxInit false).1 := by
  unfold readBlock
  simp only [Bool.not_false, if_true]
  rw [fuelOf_lsim h]
  obtain ⟨hs, he⟩ := blockShortLoop_lsim (fuelOf a2) { b with count := 0 } 0 0
    (if maxSeq < 1 || maxSeq > ({ b with count := 0 } : Block).listSize then ({ b with count := 0 } : Block).listSize else maxSeq.toNat)
    .ok h hf
  generalize blockShortLoop (fuelOf a2) a1 _ 0 0 _ Status.ok = r1 at hs he
  generalize blockShortLoop (fuelOf a2) a2 _ 0 0 _ Status.ok = r2 at hs he
  obtain ⟨c1, b1, i1, s1⟩ := r1
  obtain ⟨c2, b2, i2, s2⟩ := r2
  simp only at hs he ⊢
  obtain ⟨rfl, h2⟩ := Prod.mk.inj he
  obtain ⟨rfl, rfl⟩ := Prod.mk.inj h2
  split
  · exact ⟨rfl, hs⟩
  · exact ⟨rfl, hs⟩

end EaselModel.Sqio.EmblWin
