import EaselModel.Sqio.ReadInfo
/-! # The block loader as a cursor over the list of remaining file bytes (C04 / C02 whole-reader refinement, layer 0)

`Cur a`: the handle is well formed and its cursor is on a byte of the buffer, or the end of the file has been reached.
`fileFrom a` (from `DataScan`) is the list of file bytes from the cursor on; it does not mention the block size `B`.
`Abs a st c l`: the triple `(handle, status, c)` that every `while (status == eslOK && p(c)) status = nextchar(sqfp, &c)` loop
of `header_fasta` carries stands for the abstract cursor `l` (`st = eslOK` ⇒ `l = c :: _`; otherwise `st = eslEOF` and `l = []`).

`skipWhile_abs` / `storeWhile_abs`: such a loop is `List.dropWhile` / `List.takeWhile` on the abstract cursor — for every `B ≥ 1`,
wherever the block boundaries fall; `fault` is not an outcome. -/
namespace EaselModel.Sqio.Cursor
open EaselModel.Sqio.Refine EaselModel.Sqio.Fold EaselModel.Sqio.DataScan

/-- the fields of the handle that no reading call changes -/
def stat (a : Ascii) : Bytes × Bytes × Bool × Nat × Nat := (a.file, a.inmap, a.eofIsOk, a.fmt, a.abc)

theorem stat_of_payload {a b : Ascii} (h : Sim.payload a = Sim.payload b) : stat a = stat b := by
  simp only [Sim.payload, Prod.mk.injEq] at h
  obtain ⟨r1, _, _, _, r5, r6, r7, r8, _⟩ := h
  simp only [stat, r1, r5, r6, r7, r8]

structure Cur (a : Ascii) : Prop where
  wf : WF a
  cur : Sim.Live a ∨ (Sim.AtEof a ∧ pos a = (a.file.size : Int))
  tok : Track.Ok a.trk

theorem Cur.len {a : Ascii} (h : Cur a) : (fileFrom a).length + (pos a).toNat = a.file.size :=
  (fileFrom_length a h.wf).1

theorem Cur.posNonneg {a : Ascii} (h : Cur a) : 0 ≤ pos a := by
  have := (fileFrom_length a h.wf).2.2.2.2
  simp only [pos]; omega

/-- the cursor as a natural number: `size − (bytes left)` -/
theorem Cur.posEq {a : Ascii} (h : Cur a) : pos a = ((a.file.size - (fileFrom a).length : Nat) : Int) := by
  have h1 := h.len
  have h2 := h.posNonneg
  omega

theorem fileFrom_live (a : Ascii) (w : WF a) (l : Sim.Live a) :
    ∃ x, a.bufGet a.bpos = some x ∧ fileFrom a = x :: a.file.toList.drop ((pos a).toNat + 1) := by
  obtain ⟨x, g1, g2, g3⟩ := bufGet_window a w a.bpos l
  obtain ⟨_, _, l3, _, _⟩ := fileFrom_length a w
  refine ⟨x, g1, ?_⟩
  unfold fileFrom
  rw [l3]
  have hlt : a.boff.toNat + a.bpos < a.file.toList.length := by simpa using g3
  rw [List.drop_eq_getElem_cons hlt]
  congr 1
  rw [Array.getElem?_eq_getElem g3] at g2
  simpa using Option.some.inj g2

theorem fileFrom_eof (a : Ascii) (h : pos a = (a.file.size : Int)) : fileFrom a = [] := by
  unfold fileFrom
  apply List.drop_eq_nil_of_le
  simp only [Array.length_toList]
  omega

theorem Cur.live_of_cons {a : Ascii} (h : Cur a) {x : UInt8} {t : List UInt8} (e : fileFrom a = x :: t) : Sim.Live a := by
  rcases h.cur with l | ⟨_, p⟩
  · exact l
  · rw [fileFrom_eof a p] at e; cases e

theorem Cur.eof_of_nil {a : Ascii} (h : Cur a) (e : fileFrom a = []) : Sim.AtEof a ∧ pos a = (a.file.size : Int) := by
  rcases h.cur with l | r
  · obtain ⟨x, _, hx⟩ := fileFrom_live a h.wf l
    rw [hx] at e; cases e
  · exact r

structure Abs (a : Ascii) (st : Status) (c : UInt8) (l : List UInt8) : Prop where
  cur : Cur a
  ff : fileFrom a = l
  okc : st = .ok → ∃ t, l = c :: t
  eofc : st ≠ .ok → st = .eof ∧ l = []

theorem Abs.st_cases {a : Ascii} {st : Status} {c : UInt8} {l : List UInt8} (h : Abs a st c l) : st = .ok ∨ st = .eof := by
  by_cases e : st = .ok
  · exact Or.inl e
  · exact Or.inr (h.eofc e).1

theorem Abs.ok_iff {a : Ascii} {st : Status} {c : UInt8} {l : List UInt8} (h : Abs a st c l) : st = .ok ↔ l ≠ [] := by
  constructor
  · intro e; obtain ⟨t, ht⟩ := h.okc e; rw [ht]; simp
  · intro e; by_cases k : st = .ok
    · exact k
    · exact absurd (h.eofc k).2 e

/-- `nextchar` on the abstract cursor: drop one byte -/
theorem nextchar_abs (a : Ascii) (c : UInt8) (t : List UInt8) (h : Cur a) (e : fileFrom a = c :: t) :
    Abs (nextchar a c).1 (nextchar a c).2.1 (nextchar a c).2.2 t ∧ Sim.payload (nextchar a c).1 = Sim.payload a := by
  have hl := h.live_of_cons e
  obtain ⟨w', hfile, _, hcase⟩ := nextchar_refines a c h.wf hl
  have hr := Sim.nextchar_rest a c h.wf hl
  have htrk : (nextchar a c).1.trk = a.trk := congrArg (fun p => p.2.2.2.1) hr
  obtain ⟨x, _, hx⟩ := fileFrom_live a h.wf hl
  rw [e] at hx
  have ht : t = a.file.toList.drop ((pos a).toNat + 1) := (List.cons.inj hx).2
  have hp0 := h.posNonneg
  have hff : pos (nextchar a c).1 = pos a + 1 → fileFrom (nextchar a c).1 = t := by
    intro hp
    unfold fileFrom
    rw [hfile, hp, ht]
    congr 1
    omega
  refine ⟨?_, hr⟩
  rcases hcase with ⟨s1, l1, p1, g1⟩ | ⟨s1, c1, e1, n1, b1, q1⟩
  · have hff' := hff p1
    obtain ⟨y, _, hy⟩ := fileFrom_live _ w' l1
    have hyc : y = (nextchar a c).2.2 := by
      have := hy
      unfold fileFrom at this
      rw [hfile, p1] at this
      have hlt : (pos a + 1).toNat < a.file.toList.length := by
        by_cases hh : (pos a + 1).toNat < a.file.toList.length
        · exact hh
        · rw [List.drop_eq_nil_of_le (by omega)] at this; cases this
      rw [List.drop_eq_getElem_cons hlt] at this
      have h1 := (List.cons.inj this).1
      have hlt' : (pos a + 1).toNat < a.file.size := by simpa using hlt
      rw [Array.getElem?_eq_getElem hlt'] at g1
      have h2 := Option.some.inj g1
      rw [← h1, ← h2]; simp
    refine ⟨⟨w', Or.inl l1, by rw [htrk]; exact h.tok⟩, hff', fun _ => ⟨_, by rw [← hff', hy, hyc]⟩, fun k => absurd s1 k⟩
  · have hpe : pos (nextchar a c).1 = ((nextchar a c).1.file.size : Int) := by rw [q1, hfile]; exact e1
    have hnil : t = [] := by rw [← hff q1]; exact fileFrom_eof _ hpe
    refine ⟨⟨w', Or.inr ⟨⟨n1, b1⟩, hpe⟩, by rw [htrk]; exact h.tok⟩, hff q1, fun k => ?_, fun _ => ⟨s1, hnil⟩⟩
    rw [s1] at k; cases k

/-- **every skipping loop of the header parsers is `dropWhile` on the remaining file bytes**, for every block size -/
theorem skipWhile_abs (p : UInt8 → Bool) (fuel : Nat) (a : Ascii) (st : Status) (c : UInt8) (l : List UInt8)
    (h : Abs a st c l) (hf : l.length < fuel) :
    Abs (skipWhile p fuel a st c).1 (skipWhile p fuel a st c).2.1 (skipWhile p fuel a st c).2.2 (l.dropWhile p) ∧
    Sim.payload (skipWhile p fuel a st c).1 = Sim.payload a := by
  induction fuel generalizing a st c l with
  | zero => omega
  | succ fuel ih =>
    rw [Sim.skipWhile_succ]
    by_cases hc : (st == .ok && p c) = true
    · simp only [hc, if_true]
      have hst : st = .ok := eq_of_beq ((Bool.and_eq_true _ _).mp hc).1
      have hpc : p c = true := ((Bool.and_eq_true _ _).mp hc).2
      obtain ⟨t, rfl⟩ := h.okc hst
      obtain ⟨h', hp'⟩ := nextchar_abs a c t h.cur h.ff
      obtain ⟨i1, i2⟩ := ih _ _ _ t h' (by simp at hf; omega)
      refine ⟨?_, i2.trans hp'⟩
      rw [List.dropWhile_cons_of_pos hpc]
      exact i1
    · simp only [hc, Bool.false_eq_true, if_false]
      refine ⟨?_, by first | rfl | trivial⟩
      by_cases hst : st = .ok
      · obtain ⟨t, rfl⟩ := h.okc hst
        have hpc : ¬ p c = true := by
          intro k; apply hc; simp [hst, k]
        rw [List.dropWhile_cons_of_neg hpc]
        exact h
      · have := (h.eofc hst).2
        subst this
        exact h

/-- allocation after storing `n` more bytes into a string of `size` bytes held in `alloc` bytes (`if (pos == alloc-1) alloc *= 2`) -/
def allocGrow : Nat → Nat → Nat → Nat
  | alloc, _, 0 => alloc
  | alloc, size, n + 1 => allocGrow (if size + 1 == alloc - 1 then alloc * 2 else alloc) (size + 1) n

/-- **every storing loop (name, description) is `takeWhile` / `dropWhile`**; the store never leaves the allocation -/
theorem storeWhile_abs (p : UInt8 → Bool) (fuel : Nat) (a : Ascii) (st : Status) (c : UInt8) (l : List UInt8) (acc : Bytes) (alloc : Nat)
    (h : Abs a st c l) (hf : l.length < fuel) (ha : acc.size + 1 < alloc) :
    Abs (storeWhile p fuel a st c acc alloc).1 (storeWhile p fuel a st c acc alloc).2.1 (storeWhile p fuel a st c acc alloc).2.2.1
      (l.dropWhile p) ∧
    (storeWhile p fuel a st c acc alloc).2.2.2.1 = acc ++ (l.takeWhile p).toArray ∧
    (storeWhile p fuel a st c acc alloc).2.2.2.1.size + 1 < (storeWhile p fuel a st c acc alloc).2.2.2.2 ∧
    (storeWhile p fuel a st c acc alloc).2.2.2.2 = allocGrow alloc acc.size (l.takeWhile p).length ∧
    Sim.payload (storeWhile p fuel a st c acc alloc).1 = Sim.payload a := by
  induction fuel generalizing a st c l acc alloc with
  | zero => omega
  | succ fuel ih =>
    rw [Sim.storeWhile_succ]
    by_cases hc : (st == .ok && p c) = true
    · simp only [hc, if_true]
      have ha' : acc.size < alloc := by omega
      simp only [ha', if_true]
      have hst : st = .ok := eq_of_beq ((Bool.and_eq_true _ _).mp hc).1
      have hpc : p c = true := ((Bool.and_eq_true _ _).mp hc).2
      obtain ⟨t, rfl⟩ := h.okc hst
      obtain ⟨h', hp'⟩ := nextchar_abs a c t h.cur h.ff
      have hsz : (acc.push c).size = acc.size + 1 := by simp
      have hinv : (acc.push c).size + 1 < (if ((acc.push c).size == alloc - 1) = true then alloc * 2 else alloc) := by
        rw [hsz]
        by_cases k : (acc.size + 1 == alloc - 1) = true
        · simp only [k, if_true]
          have := eq_of_beq k
          omega
        · simp only [k]
          have : acc.size + 1 ≠ alloc - 1 := by simpa using k
          simp only [Bool.false_eq_true, if_false]
          omega
      obtain ⟨i1, i2, i3, i4, i5⟩ := ih _ _ _ t (acc.push c) _ h' (by simp at hf; omega) hinv
      rw [List.dropWhile_cons_of_pos hpc, List.takeWhile_cons_of_pos hpc]
      refine ⟨i1, ?_, i3, ?_, i5.trans hp'⟩
      · rw [i2]; simp
      · rw [i4, hsz]; simp only [List.length_cons, allocGrow]
    · simp only [hc, Bool.false_eq_true, if_false]
      by_cases hst : st = .ok
      · obtain ⟨t, rfl⟩ := h.okc hst
        have hpc : ¬ p c = true := by
          intro k; apply hc; simp [hst, k]
        rw [List.dropWhile_cons_of_neg hpc, List.takeWhile_cons_of_neg hpc]
        exact ⟨h, by simp, ha, by simp [allocGrow], by first | rfl | trivial⟩
      · have := (h.eofc hst).2
        subst this
        exact ⟨h, by simp, ha, by simp [allocGrow], by first | rfl | trivial⟩

/-- the fuel the model gives its loops is enough -/
theorem Cur.fuel {a : Ascii} (h : Cur a) : (fileFrom a).length < fuelOf a := by
  have := h.len
  unfold fuelOf
  omega

end EaselModel.Sqio.Cursor
