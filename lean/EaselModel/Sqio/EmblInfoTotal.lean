import EaselModel.Sqio.EmblSeqTotal
/-! # `sqascii_ReadInfo` on the line-based formats (EMBL / UniProt / GenBank / DDBJ) is total (C02, round 6b)

`sqascii_ReadInfo` = `parse_header` + the residue loop WITHOUT storing (`scanLoop false`: `seebuf` only, `L += n`, `eoff`) + the record
end + the info-only coordinates (whose terminator store needs `salloc ≥ 1` / `2`: the header parsers and the loop never touch the
residue allocation). -/
namespace EaselModel.Sqio.EmblTotal
open EaselModel.Sqio EaselModel.Sqio.LineSpec EaselModel.Sqio.EmblSpec EaselModel.Sqio.EmblAll
open EaselModel.Sqio.Fold EaselModel.Sqio.BodySpec

/-- the residue allocation and the mode of the `ESL_SQ` are untouched -/
def SameS (sq q : Sq) : Prop := q.salloc = sq.salloc ∧ q.digital = sq.digital
theorem SameS.rfl' (sq : Sq) : SameS sq sq := ⟨rfl, rfl⟩
theorem SameS.trans {s q r : Sq} (h1 : SameS s q) (h2 : SameS q r) : SameS s r := ⟨h2.1.trans h1.1, h2.2.trans h1.2⟩

theorem emblScan_salloc (parse : Bool) (fuel : Nat) : ∀ (a : Ascii) (sq : Sq), SameS sq (emblScan parse fuel a sq).2.1 := by
  induction fuel with
  | zero => intro a sq; exact SameS.rfl' sq
  | succ fuel ih =>
    intro a sq
    simp only [emblScan]
    generalize loadbuf a = r
    obtain ⟨b, s⟩ := r
    simp only []
    by_cases k1 : (s == Status.fault) = true
    · simp only [k1, if_true]; exact ⟨rfl, rfl⟩
    simp only [k1, Bool.false_eq_true, if_false]
    by_cases k2 : (s != Status.ok) = true
    · simp only [k2, if_true]; exact ⟨rfl, rfl⟩
    simp only [k2, Bool.false_eq_true, if_false]
    by_cases hc : (parse && hasPrefix b.line "AC   " && (cstr sq.acc).size == 0) = true
    · simp only [hc, if_true]
      cases hs : strtok (cstrFrom b.line 5) [59] with
      | none => simp only []; exact ⟨rfl, rfl⟩
      | some tok =>
        simp only []
        repeat' split
        all_goals first
          | exact ⟨rfl, rfl⟩
          | exact SameS.trans ⟨rfl, rfl⟩ (ih _ _)
    · simp only [hc, Bool.false_eq_true, if_false]
      repeat' split
      all_goals first
        | exact ⟨rfl, rfl⟩
        | exact SameS.trans ⟨rfl, rfl⟩ (ih _ _)

theorem genbankScan_salloc (parse : Bool) (fuel : Nat) : ∀ (a : Ascii) (sq : Sq), SameS sq (genbankScan parse fuel a sq).2.1 := by
  induction fuel with
  | zero => intro a sq; exact SameS.rfl' sq
  | succ fuel ih =>
    intro a sq
    simp only [genbankScan]
    generalize loadbuf a = r
    obtain ⟨b, s⟩ := r
    simp only []
    by_cases k1 : (s == Status.fault) = true
    · simp only [k1, if_true]; exact ⟨rfl, rfl⟩
    simp only [k1, Bool.false_eq_true, if_false]
    by_cases k2 : (s != Status.ok) = true
    · simp only [k2, if_true]; exact ⟨rfl, rfl⟩
    simp only [k2, Bool.false_eq_true, if_false]
    by_cases hc : (parse && hasPrefix b.line "VERSION   ") = true
    · simp only [hc, if_true]
      by_cases h12 : b.nc < 12
      · simp only [h12, if_true]; exact ⟨rfl, rfl⟩
      simp only [h12, if_false]
      cases hs : strtok (cstrFrom b.line 12) [32, 9, 10] with
      | none => simp only []; exact ⟨rfl, rfl⟩
      | some tok =>
        simp only []
        repeat' split
        all_goals first
          | exact ⟨rfl, rfl⟩
          | exact SameS.trans ⟨rfl, rfl⟩ (ih _ _)
    · simp only [hc, Bool.false_eq_true, if_false]
      repeat' split
      all_goals first
        | exact ⟨rfl, rfl⟩
        | exact SameS.trans ⟨rfl, rfl⟩ (ih _ _)

theorem hdrTail_salloc (r : Ascii × Sq × Status) : SameS r.2.1 (hdrTail r).2.1 := by
  unfold hdrTail
  repeat' split
  all_goals exact ⟨rfl, rfl⟩

theorem emblId_salloc (parse : Bool) (a : Ascii) (sq : Sq) : SameS sq (emblId parse a sq).2.1 := by
  unfold emblId
  by_cases hid : (!hasPrefix a.line "ID   ") = true
  · simp only [hid, if_true]; exact ⟨rfl, rfl⟩
  simp only [hid, Bool.false_eq_true, if_false]
  cases parse
  · simp only [Bool.false_eq_true, if_false]
    refine SameS.trans ?_ (hdrTail_salloc _)
    exact SameS.trans ⟨rfl, rfl⟩ (emblScan_salloc _ _ _ _)
  · simp only [if_true]
    cases hs : strtok (cstrFrom a.line 5) [32, 59] with
    | none => simp only []; exact ⟨rfl, rfl⟩
    | some tok =>
      simp only []
      refine SameS.trans ?_ (hdrTail_salloc _)
      exact SameS.trans ⟨rfl, rfl⟩ (emblScan_salloc _ _ _ _)

theorem gbLocus_salloc (parse : Bool) (a : Ascii) (sq : Sq) : SameS sq (gbLocus parse a sq).2.1 := by
  unfold gbLocus
  cases parse
  · simp only [Bool.false_eq_true, if_false]
    refine SameS.trans ?_ (hdrTail_salloc _)
    exact SameS.trans ⟨rfl, rfl⟩ (genbankScan_salloc _ _ _ _)
  · simp only [if_true]
    by_cases h12 : a.nc < 12
    · simp only [h12, if_true]; exact ⟨rfl, rfl⟩
    simp only [h12, if_false]
    cases hs : strtok (cstrFrom a.line 12) [32] with
    | none => simp only []; exact ⟨rfl, rfl⟩
    | some tok =>
      simp only []
      refine SameS.trans ?_ (hdrTail_salloc _)
      exact SameS.trans ⟨rfl, rfl⟩ (genbankScan_salloc _ _ _ _)

theorem headerEmbl_salloc (parse : Bool) (a : Ascii) (sq : Sq) : SameS sq (headerEmbl parse a sq).2.1 := by
  rw [headerEmbl_eq]
  repeat' split
  all_goals first
    | exact ⟨rfl, rfl⟩
    | exact emblId_salloc parse _ sq

theorem headerGenbank_salloc (parse : Bool) (a : Ascii) (sq : Sq) : SameS sq (headerGenbank parse a sq).2.1 := by
  rw [headerGenbank_eq]
  repeat' split
  all_goals first
    | exact ⟨rfl, rfl⟩
    | exact gbLocus_salloc parse _ sq

theorem parseHeader_salloc (a : Ascii) (sq : Sq) (hf : LineFmt a) : SameS sq (parseHeader a sq).2.1 := by
  unfold parseHeader
  rcases hf with k | k | k | k <;> simp only [k] <;> first
    | exact headerEmbl_salloc true a sq
    | exact headerGenbank_salloc true a sq


/-! ## the residue loop without storing -/

/-- one pass of the `ReadInfo` loop on a line: no fault; the `ESL_SQ` only gets its `eoff` -/
theorem scanStepF_good (a : Ascii) (sq : Sq) (w : LWF a) (tok : Track.Ok a.trk) (hm : a.inmap.size = 128) :
    Good2 a (scanStep false a sq).1 ∧ SameS sq (scanStep false a sq).2.1 ∧
    (((scanStep false a sq).2.2.1 = .eformat ∧ (scanStep false a sq).2.2.2.2 = false ∧ (scanStep false a sq).1.haveErr = true) ∨
     (((scanStep false a sq).2.2.1 = .eod ∨ (scanStep false a sq).2.2.1 = .eof) ∧ (scanStep false a sq).2.2.2.2 = false) ∨
     ((scanStep false a sq).2.2.1 = .ok ∧ (scanStep false a sq).2.2.2.2 = true ∧ Track.Ok (scanStep false a sq).1.trk ∧
        rl (scanStep false a sq).1 < rl a)) := by
  obtain ⟨f1, _, f4⟩ := seebuf_line_facts a w tok hm
  have gs := seebuf_good2 a w none
  have herr := DataScan.seebuf_haveErr a none
  obtain ⟨_, _, _, b4, _, b6, b7⟩ := seebuf_same_buf a none
  have hX : LWF { (seebuf a none).1 with L := (seebuf a none).1.L + ((seebuf a none).2.nres : Int) } :=
    (setL_lsim (lsim_refl gs.w) _).w1
  have gX : Good2 a { (seebuf a none).1 with L := (seebuf a none).1.L + ((seebuf a none).2.nres : Int) } :=
    ⟨gs.fmt, hX, gs.exc, gs.inm, gs.file⟩
  have hrlX : rl { (seebuf a none).1 with L := (seebuf a none).1.L + ((seebuf a none).2.nres : Int) } = rl a := by
    show (List.drop ((seebuf a none).1.boff.toNat + (seebuf a none).1.nc) (seebuf a none).1.file.toList).length = _
    rw [b7, b4, b6]; rfl
  rw [DataScan.scanStep_false]
  rcases stopSt_cases a.inmap ((bufList a a.bpos).dropWhile (isData a.inmap)) with k | k | k
  all_goals (rw [← f1] at k)
  · have e1 : (Status.ok == Status.fault) = false := by decide
    have e2 : (Status.ok == Status.eformat) = false := by decide
    have e3 : (Status.ok == Status.eod) = false := by decide
    simp only [k, e1, e2, e3, Bool.false_eq_true, if_false]
    obtain ⟨gl, hls, hr⟩ := loadbuf_good _ hX
    have g2 : Good2 a (loadbuf { (seebuf a none).1 with L := (seebuf a none).1.L + ((seebuf a none).2.nres : Int) }).1 :=
      ⟨gl.fmt.trans gX.fmt, gl.w, gl.exc.trans gX.exc, gl.inm.trans gX.inm, gl.file.trans gX.file⟩
    have htok : Track.Ok (loadbuf { (seebuf a none).1 with L := (seebuf a none).1.L + ((seebuf a none).2.nres : Int) }).1.trk := by
      rw [gl.trk]
      show Track.Ok (seebuf a none).1.trk
      exact f4 (by rw [k]; decide)
    refine ⟨g2, ⟨rfl, rfl⟩, ?_⟩
    rcases hls with k' | k'
    · right; right
      exact ⟨k', by rw [k']; rfl, htok, by rw [← hrlX]; exact hr k'⟩
    · right; left
      exact ⟨Or.inr k', by rw [k']; rfl⟩
  · have e1 : (Status.eod == Status.fault) = false := by decide
    have e2 : (Status.eod == Status.eformat) = false := by decide
    simp only [k, e1, e2, Bool.false_eq_true, if_false, beq_self_eq_true, if_true]
    exact ⟨gX, ⟨(by first | trivial | rfl), (by first | trivial | rfl)⟩, Or.inr (Or.inl ⟨Or.inl (by first | trivial | rfl), (by first | trivial | rfl)⟩)⟩
  · have e1 : (Status.eformat == Status.fault) = false := by decide
    simp only [k, e1, Bool.false_eq_true, if_false, beq_self_eq_true, if_true]
    refine ⟨gX, ⟨(by first | trivial | rfl), (by first | trivial | rfl)⟩, Or.inl ⟨(by first | trivial | rfl), (by first | trivial | rfl), ?_⟩⟩
    show (seebuf a none).1.haveErr = true
    rw [herr, k]; simp

/-- the `ReadInfo` residue loop: ends with `eslEFORMAT` (message written), `eslEOD` or `eslEOF` - never a fault: every pass consumes one
    line, so the fuel `size + 2` always suffices -/
theorem scanLoopF_good (fuel : Nat) : ∀ (a : Ascii) (sq : Sq), LWF a → Track.Ok a.trk → a.inmap.size = 128 → rl a < fuel →
    Good2 a (scanLoop false fuel a sq).1 ∧ SameS sq (scanLoop false fuel a sq).2.1 ∧
    (((scanLoop false fuel a sq).2.2.1 = .eformat ∧ (scanLoop false fuel a sq).1.haveErr = true) ∨
     ((scanLoop false fuel a sq).2.2.1 = .eod ∨ (scanLoop false fuel a sq).2.2.1 = .eof)) := by
  induction fuel with
  | zero => intro a sq _ _ _ h; omega
  | succ fuel ih =>
    intro a sq w tok hm hf
    obtain ⟨g, hs, hc⟩ := scanStepF_good a sq w tok hm
    rw [DataScan.scanLoop_succ]
    rcases hc with ⟨c1, c2, c3⟩ | ⟨c1, c2⟩ | ⟨c1, c2, c3, c4⟩
    · simp only [c2, Bool.false_eq_true, if_false]
      exact ⟨g, hs, Or.inl ⟨c1, c3⟩⟩
    · simp only [c2, Bool.false_eq_true, if_false]
      exact ⟨g, hs, Or.inr c1⟩
    · simp only [c2, if_true]
      obtain ⟨i1, i2, i3⟩ := ih _ (scanStep false a sq).2.1 g.w c3 (by rw [g.inm]; exact hm) (by omega)
      exact ⟨g.trans i1, hs.trans i2, i3⟩

theorem endEmbl_salloc (a : Ascii) (sq : Sq) : SameS sq (endEmbl a sq).2.1 := by
  unfold endEmbl
  repeat' split
  all_goals exact ⟨rfl, rfl⟩

/-- everything of `sqascii_ReadInfo` behind the header -/
theorem infoBody_good (a : Ascii) (sq : Sq) (w : LWF a) (tok : Track.Ok a.trk) (hm : a.inmap.size = 128) (hf : LineFmt a)
    (hsa : 2 ≤ sq.salloc) :
    Good2 a (infoBody a sq).1 ∧ ((infoBody a sq).2.2 = .ok ∨ (infoBody a sq).2.2 = .eformat) ∧
    ((infoBody a sq).2.2 = .eformat → (infoBody a sq).1.haveErr = true) := by
  have w0 : LWF { a with L := 0 } := (setL_lsim (lsim_refl w) 0).w1
  have g0 : Good2 a { a with L := 0 } := ⟨rfl, w0, rfl, rfl, rfl⟩
  obtain ⟨g, hs, hc⟩ := scanLoopF_good (fuelOf a) { a with L := 0 } sq w0 tok hm (rl_le { a with L := 0 })
  unfold infoBody
  generalize scanLoop false (fuelOf a) { a with L := 0 } sq = r at g hs hc
  obtain ⟨b, q, st, ep⟩ := r
  simp only at g hs hc ⊢
  have gb : Good2 a b := g0.trans g
  have hfb : LineFmt b := hf.of_eq gb.fmt
  have hq : 2 ≤ q.salloc := by rw [hs.1]; exact hsa
  rcases hc with ⟨c1, c2⟩ | c1
  · subst c1
    have e : (Status.eformat == Status.fault || Status.eformat == Status.eformat) = true := by decide
    simp only [e, if_true]
    exact ⟨gb, Or.inr (by first | trivial | rfl), fun _ => c2⟩
  · have e : (st == Status.fault || st == Status.eformat) = false := by rcases c1 with k | k <;> rw [k] <;> rfl
    simp only [e, Bool.false_eq_true, if_false]
    have hE : Good2 a (infoEnd b q st ep).1 ∧ ((infoEnd b q st ep).2.2 = .ok ∨ (infoEnd b q st ep).2.2 = .eformat) ∧
        ((infoEnd b q st ep).2.2 = .eformat → (infoEnd b q st ep).1.haveErr = true) ∧ 2 ≤ (infoEnd b q st ep).2.1.salloc := by
      unfold infoEnd
      have hb : LWF { b with bpos := ep } := (setBpos_lsim (lsim_refl gb.w) ep).w1
      rw [parseEnd_line { b with bpos := ep } q hfb]
      obtain ⟨y1, y2, y3, _, _⟩ := endEmbl_good { b with bpos := ep } q hb
      have y1' : Good2 a (endEmbl { b with bpos := ep } q).1 := gb.trans ⟨y1.fmt, y1.w, y1.exc, y1.inm, y1.file⟩
      rcases c1 with k | k
      · subst k
        have e1 : (Status.eod == Status.eof) = false := by decide
        simp only [e1, Bool.false_eq_true, if_false, beq_self_eq_true, if_true]
        exact ⟨y1', y2, y3, by rw [(endEmbl_salloc _ q).1]; exact hq⟩
      · subst k
        simp only [beq_self_eq_true, if_true]
        split
        · exact ⟨gb.fail, Or.inr rfl, fun _ => rfl, hq⟩
        · exact ⟨gb, Or.inl rfl, fun k => (by cases k), hq⟩
    obtain ⟨z1, z2, z3, z4⟩ := hE
    generalize infoEnd b q st ep = r' at z1 z2 z3 z4
    obtain ⟨b', q', s'⟩ := r'
    simp only at z1 z2 z3 z4
    unfold infoFin
    simp only []
    rcases z2 with k | k
    · subst k
      have e2 : (Status.ok != Status.ok) = false := by decide
      have hroom : (if q'.digital = true then decide (1 < q'.salloc) else decide (0 < q'.salloc)) = true := by
        split <;> simp <;> omega
      simp only [e2, Bool.false_eq_true, if_false, hroom, Bool.not_true]
      exact ⟨z1, Or.inl (by first | trivial | rfl), fun k => (by cases k)⟩
    · subst k
      have e2 : (Status.eformat != Status.ok) = true := by decide
      simp only [e2, if_true]
      exact ⟨z1, Or.inr (by first | trivial | rfl), fun _ => z3 (by first | trivial | rfl)⟩

/-- **`sqascii_ReadInfo` on an EMBL / UniProt / GenBank / DDBJ file never faults**: for every byte string and every block size the
    outcome is `eslOK`, `eslEOF` or `eslEFORMAT` (then with a message); no exception; the handle stays a well-formed line-mode handle of
    the same format on the same file. The `ESL_SQ` only needs the two bytes every `esl_sq_Create*` allocates (`salloc ≥ 2`). -/
theorem readInfo_linebased_total (a : Ascii) (sq : Sq) (w : LWF a) (hf : LineFmt a) (tok : Track.Ok a.trk) (hm : a.inmap.size = 128)
    (hsa : 2 ≤ sq.salloc) :
    let r := readInfo a sq
    (r.2.2 = .ok ∨ r.2.2 = .eof ∨ r.2.2 = .eformat) ∧ (r.2.2 = .eformat → r.1.haveErr = true) ∧ r.1.exc = a.exc ∧ LWF r.1 ∧
    r.1.fmt = a.fmt ∧ r.1.file = a.file ∧ r.1.inmap = a.inmap := by
  intro r
  have key : RRes a (readInfo a sq) := by
    rw [EmblAll.readInfo_eq]
    obtain ⟨g, hs, he⟩ := parseHeader_good a sq w hf
    obtain ⟨ss, _⟩ := parseHeader_salloc a sq hf
    generalize parseHeader a sq = p at g hs he ss
    obtain ⟨b, q, st⟩ := p
    simp only at g hs he ss ⊢
    by_cases h0 : (a.nc == 0) = true
    · simp only [h0, if_true]
      exact ⟨Good2.refl w, Or.inr (Or.inl rfl), fun k => (by cases k)⟩
    · simp only [h0, Bool.false_eq_true, if_false]
      rcases hs with k | k | k
      · subst k
        have e : (Status.ok != Status.ok) = false := by decide
        simp only [e, Bool.false_eq_true, if_false]
        obtain ⟨x1, x2, x3⟩ := infoBody_good b q g.w (by rw [g.trk]; exact tok) (by rw [g.inm]; exact hm) (hf.of_eq g.fmt)
          (by rw [ss]; exact hsa)
        refine ⟨g.to2.trans x1, ?_, x3⟩
        rcases x2 with k | k
        · exact Or.inl k
        · exact Or.inr (Or.inr k)
      · subst k
        have e : (Status.eof != Status.ok) = true := by decide
        simp only [e, if_true]
        exact ⟨g.to2, Or.inr (Or.inl rfl), fun k => (by cases k)⟩
      · subst k
        have e : (Status.eformat != Status.ok) = true := by decide
        simp only [e, if_true]
        exact ⟨g.to2, Or.inr (Or.inr rfl), he⟩
  obtain ⟨k1, k2, k3⟩ := key
  exact ⟨k2, k3, k1.exc, k1.w, k1.fmt, k1.file, k1.inm⟩

end EaselModel.Sqio.EmblTotal
