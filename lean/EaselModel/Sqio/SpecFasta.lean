import EaselModel.Sqio.Totality
/-! # `specFasta`: a small declarative FASTA parser over the list of file bytes, and `parseFasta = specFasta` (C04 / C02)

`Record` is what a client sees of a record: name, description, residues, the four offsets and `L` — no allocations, no buffer.
`specOne` parses one record from the remaining bytes of a file of `N` bytes with `dropWhile` / `takeWhile` / `filter` only;
`specFasta` iterates it. `parseFasta_eq_specFasta`: the closed form that the whole-reader refinement (`read_all_eq_parseFasta`)
reaches for every block size, projected to `Record`, IS `specFasta`; so `Read`-until-EOF = `specFasta` for every byte string and `B ≥ 1`. -/
namespace EaselModel.Sqio.SpecFasta
open EaselModel.Sqio.Cursor EaselModel.Sqio.BodySpec EaselModel.Sqio.HeaderSpec EaselModel.Sqio.ReadSpec EaselModel.Sqio.ParseFasta

structure Record where
  name : List UInt8
  desc : List UInt8
  seq : List UInt8
  roff : Int
  hoff : Int
  doff : Int
  eoff : Int
  L : Int
  deriving DecidableEq, Repr

/-- what a client sees of an `ESL_SQ` -/
def toRecord (s : Sq) : Record := ⟨s.name.toList, s.desc.toList, s.seq.toList, s.roff, s.hoff, s.doff, s.eoff, s.L⟩

/-- one FASTA record from the remaining bytes `l` of a file of `N` bytes. `inmap` classifies data bytes (residue / end of line /
    ignored / end of data `>` / illegal), `map` translates residues (identity-like in text mode, the alphabet's codes in digital mode).
    Returns the status (`eslOK`, `eslEOF` = only white space left, `eslEFORMAT`), the record, and the bytes that remain. -/
def specOne (inmap map : Bytes) (N : Nat) (l : List UInt8) : Status × Option Record × List UInt8 :=
  match l.dropWhile isSpace with
  | [] => (.eof, none, [])
  | c :: l2 =>
    if c != chGt then (.eformat, none, c :: l2) else
    let nameL := (l2.dropWhile isBlankTab).takeWhile pName
    if nameL.isEmpty then (.eformat, none, c :: l2) else
    let l4 := ((l2.dropWhile isBlankTab).dropWhile pName).dropWhile isBlankTab
    let descL := l4.takeWhile pDesc
    let l5 := (l4.dropWhile pDesc).dropWhile pNotEol      -- rest of the header line: hoff
    let l6 := l5.dropWhile pEol                           -- end-of-line characters: doff
    let data := l6.takeWhile (isData inmap)
    let rest := l6.dropWhile (isData inmap)
    let res := (data.filter (isRes inmap)).map (fun c => map.getD c.toNat 0)
    let r : Record := ⟨nameL, descL, res, offOf N (c :: l2), offOf N l5, offOf N l6, offOf N rest - 1, (res.length : Int)⟩
    match rest with
    | [] => (.ok, some r, [])
    | c' :: t => if isEod inmap c' then (.ok, some r, c' :: t) else (.eformat, none, c' :: t)

def specAll (inmap map : Bytes) (N : Nat) : Nat → List UInt8 → List Record × Status
  | 0, _ => ([], .fault)
  | fuel + 1, l =>
    match specOne inmap map N l with
    | (.ok, some r, rest) => (r :: (specAll inmap map N fuel rest).1, (specAll inmap map N fuel rest).2)
    | (st, _, _) => ([], st)

/-- the records of a FASTA file and the final status (`eslEOF` / `eslEFORMAT`), as a function of its bytes; `abc = 0` text mode,
    1 / 2 / 3 RNA / DNA / amino digital mode -/
def specFasta (abc : Nat) (bytes : List UInt8) : List Record × Status :=
  specAll (inmapFasta abc) (if abc = 0 then inmapFasta 0 else abcInmap abc) bytes.length (bytes.length + 2) bytes

/-- one step: `recL` (the closed form of `sqascii_Read`) on an `ESL_SQ` without residues = `specOne` -/
theorem recL_eq_specOne (inmap : Bytes) (N : Nat) (sq : Sq) (l : List UInt8) (hs : sq.seq = #[]) :
    (recL inmap N sq l).1 = (specOne inmap (mapFor inmap sq) N l).1 ∧
    ((recL inmap N sq l).1 = .ok →
      (specOne inmap (mapFor inmap sq) N l).2.1 = some (toRecord (recL inmap N sq l).2.1) ∧
      (recL inmap N sq l).2.2 = (specOne inmap (mapFor inmap sq) N l).2.2) := by
  unfold recL specOne
  by_cases he : l.isEmpty = true
  · have : l = [] := by simpa using he
    subst this
    simp
  · simp only [he, Bool.false_eq_true, if_false]
    unfold headerL
    cases hd : l.dropWhile isSpace with
    | nil => simp
    | cons c l2 =>
      simp only []
      by_cases hc : (c != chGt) = true
      · simp [hc]
      · simp only [hc, Bool.false_eq_true, if_false]
        unfold hfNameL
        by_cases hn : ((l2.dropWhile isBlankTab).takeWhile pName).isEmpty = true
        · simp [hn]
        · simp only [hn, Bool.false_eq_true, if_false, beq_self_eq_true, if_true]
          simp only [hfDescL, hfEndL, bodyL]
          cases hr : (((((l2.dropWhile isBlankTab).dropWhile pName).dropWhile isBlankTab).dropWhile pDesc).dropWhile pNotEol).dropWhile pEol
              |>.dropWhile (isData inmap) with
          | nil =>
            simp only []
            refine ⟨trivial, fun _ => ⟨?_, trivial⟩⟩
            simp [toRecord, Sq.setWhole, stored, hs, resOf, Sq.n, mapFor]
          | cons c' t =>
            simp only []
            by_cases hce : isEod inmap c' = true
            · simp only [hce, if_true]
              refine ⟨trivial, fun _ => ⟨?_, trivial⟩⟩
              simp [toRecord, Sq.setWhole, stored, hs, resOf, Sq.n, mapFor]
            · simp only [hce, Bool.false_eq_true, if_false]
              exact ⟨trivial, fun k => (by cases k)⟩

/-- the record loop of the closed form, projected to `Record`, is the record loop of `specOne` -/
theorem parseAllL_eq_specAll (inmap : Bytes) (N : Nat) (fuel : Nat) : ∀ (sq : Sq) (l : List UInt8),
    ((parseAllL inmap N fuel sq l).1.map toRecord, (parseAllL inmap N fuel sq l).2) = specAll inmap (mapFor inmap sq) N fuel l := by
  induction fuel with
  | zero => intro sq l; rfl
  | succ fuel ih =>
    intro sq l
    have hm : mapFor inmap sq.reuse = mapFor inmap sq := rfl
    obtain ⟨q1, q2⟩ := recL_eq_specOne inmap N sq.reuse l rfl
    rw [hm] at q1 q2
    simp only [parseAllL, specAll]
    by_cases hok : (recL inmap N sq.reuse l).1 = .ok
    · obtain ⟨m1, m2⟩ := q2 hok
      have hb : ((recL inmap N sq.reuse l).1 == Status.ok) = true := by rw [hok]; rfl
      simp only [hb, if_true]
      obtain ⟨k1, k2, _, _⟩ := recL_keeps inmap N sq.reuse l hok
      have hm2 : mapFor inmap (recL inmap N sq.reuse l).2.1 = mapFor inmap sq := by
        simp only [mapFor, k1, k2]; rfl
      have i := ih (recL inmap N sq.reuse l).2.1 (recL inmap N sq.reuse l).2.2
      rw [hm2, m2] at i
      rw [m2]
      have hst : (specOne inmap (mapFor inmap sq) N l).1 = .ok := by rw [← q1]; exact hok
      generalize specOne inmap (mapFor inmap sq) N l = S at m1 hst i ⊢
      obtain ⟨s1, s2, s3⟩ := S
      simp only [] at m1 hst i ⊢
      subst m1 hst
      simp only [List.map_cons]
      have i1 := congrArg Prod.fst i
      have i2 := congrArg Prod.snd i
      simp only [] at i1 i2
      rw [i1, i2]
    · have hb : ((recL inmap N sq.reuse l).1 == Status.ok) = false := by simpa using hok
      simp only [hb, Bool.false_eq_true, if_false, List.map_nil]
      have hst : (specOne inmap (mapFor inmap sq) N l).1 ≠ .ok := by rw [← q1]; exact hok
      generalize specOne inmap (mapFor inmap sq) N l = S at q1 hst ⊢
      obtain ⟨s1, s2, s3⟩ := S
      simp only [] at q1 hst ⊢
      cases s1 <;> first | exact absurd rfl hst | (cases s2 <;> simp [q1])

/-- **`parseFasta` (the closed form of the reader) projected to `Record` is `specFasta`** -/
theorem parseFasta_eq_specFasta (abc : Nat) (bytes : Bytes) :
    ((parseFasta abc bytes).1.map toRecord, (parseFasta abc bytes).2) = specFasta abc bytes.toList := by
  unfold parseFasta specFasta
  rw [parseAllL_eq_specAll]
  have : mapFor (inmapFasta abc) (freshSq abc) = (if abc = 0 then inmapFasta 0 else abcInmap abc) := by
    by_cases h0 : abc = 0
    · subst h0; simp [mapFor, freshSq]
    · simp [mapFor, freshSq, h0]
  rw [this]
  simp

/-- **Whole-reader refinement against the declarative parser.** For every byte string, every alphabet selector and every read-block
    size `B ≥ 1`: reading records with `sqascii_Read` from `esl_sqfile_Open` on until the first non-`eslOK` status returns exactly the
    records (name, description, residues, `roff`, `hoff`, `doff`, `eoff`, `L`) and the final status of `specFasta`. -/
theorem read_all_eq_specFasta (bytes : Bytes) (B abc : Nat) (hB : 1 ≤ B) (habc : abc ∈ [0, 1, 2, 3]) :
    ((readAllM (bytes.size + 2) (openFasta bytes B abc) (freshSq abc)).1.map toRecord,
     (readAllM (bytes.size + 2) (openFasta bytes B abc) (freshSq abc)).2) = specFasta abc bytes.toList := by
  rw [read_all_eq_parseFasta bytes B abc hB habc]
  exact parseFasta_eq_specFasta abc bytes

end EaselModel.Sqio.SpecFasta
