import EaselModel.Sqio.DataScan
/-! # `sqascii_ReadInfo` on a FASTA file returns the same record for every read-block size (C04)

`readInfo_sim`: header (`Sim.headerFasta_sim`) + counting loop (`DataScan.scanLoop_info`: the loop is a fold over the file bytes from the
cursor on, no block size in sight) + `end_fasta` + the final bookkeeping, composed. -/
namespace EaselModel.Sqio.DataScan
open EaselModel.Sqio.Refine EaselModel.Sqio.Fold

/-- the end of `sqascii_ReadInfo` -/
def infoTail (a : Ascii) (sq : Sq) (st : Status) : Ascii × Sq × Status :=
  if st != .ok then (a, sq, st) else
  if !(if sq.digital then 1 < sq.salloc else 0 < sq.salloc) then (a, sq, .fault) else
  (a, { sq with L := a.L, seq := #[], start := 0, end_ := 0, C := 0, W := 0 }, .ok)

/-- what `sqascii_ReadInfo` does after the header when the counting loop has returned -/
def infoEnd (r : Ascii × Sq × Status × Nat) : Ascii × Sq × Status :=
  if r.2.2.1 == .fault || r.2.2.1 == .eformat then (r.1, r.2.1, r.2.2.1) else
  let e := if r.2.2.1 == .eof then (if !r.1.eofIsOk then (r.1.fail, r.2.1, Status.eformat) else (r.1, r.2.1, Status.ok))
           else if r.2.2.1 == .eod then parseEnd { r.1 with bpos := r.2.2.2 } r.2.1
           else (r.1, r.2.1, r.2.2.1)
  infoTail e.1 e.2.1 e.2.2

theorem readInfo_eq (a : Ascii) (sq : Sq) : readInfo a sq =
    if a.nc == 0 then (a, sq, .eof) else
    if (parseHeader a sq).2.2 != .ok then parseHeader a sq else
    infoEnd (scanLoop false (fuelOf { (parseHeader a sq).1 with L := 0 }) { (parseHeader a sq).1 with L := 0 } (parseHeader a sq).2.1) := rfl

theorem infoTail_sim (a1 a2 : Ascii) (sq : Sq) (st : Status) (h : Sim.Sim a1 a2) :
    (infoTail a1 sq st).2 = (infoTail a2 sq st).2 ∧ Sim.Sim (infoTail a1 sq st).1 (infoTail a2 sq st).1 := by
  have hL : a1.L = a2.L := congrArg (fun p => p.2.1) h.rest
  unfold infoTail
  rw [hL]
  by_cases h1 : (st != Status.ok) = true
  · simp only [h1, if_true]; exact ⟨by first | trivial | rfl, h⟩
  · simp only [h1, Bool.false_eq_true, if_false]
    by_cases h2 : (!(if sq.digital then decide (1 < sq.salloc) else decide (0 < sq.salloc))) = true
    · simp only [h2, if_true]; exact ⟨by first | trivial | rfl, h⟩
    · simp only [h2, Bool.false_eq_true, if_false]; exact ⟨by first | trivial | rfl, h⟩

theorem parseEnd_fasta (a : Ascii) (sq : Sq) (hf : a.fmt = 1) : parseEnd a sq = endFasta a sq := by
  unfold parseEnd
  simp [hf]

theorem parseHeader_fasta (a : Ascii) (sq : Sq) (hf : a.fmt = 1) : parseHeader a sq = headerFasta a sq := by
  unfold parseHeader
  simp [hf]

theorem Sim.fmtEq {a1 a2 : Ascii} (h : Sim.Sim a1 a2) : a1.fmt = a2.fmt := congrArg (fun p => p.2.2.2.2.2.2.1) h.rest
theorem Sim.inmapEq {a1 a2 : Ascii} (h : Sim.Sim a1 a2) : a1.inmap = a2.inmap := congrArg (fun p => p.2.2.2.2.1) h.rest

/-! ### the header parser keeps the handle well formed and does not touch the format code or the input map -/

def Good (a0 a : Ascii) : Prop := WF a ∧ a.fmt = a0.fmt ∧ a.inmap = a0.inmap

theorem Good.fail {a0 a : Ascii} (g : Good a0 a) : Good a0 a.fail :=
  ⟨⟨g.1.block, g.1.norec, g.1.bpos1, g.1.full, g.1.moff0, g.1.fposEq, g.1.fposLe, g.1.ncLe, g.1.boffEq, g.1.bposLe⟩, g.2.1, g.2.2⟩

theorem Good.newRecord {a0 a : Ascii} (g : Good a0 a) (t : Track) (l : Int) : Good a0 { a with trk := t, linenumber := l } :=
  ⟨⟨g.1.block, g.1.norec, g.1.bpos1, g.1.full, g.1.moff0, g.1.fposEq, g.1.fposLe, g.1.ncLe, g.1.boffEq, g.1.bposLe⟩, g.2.1, g.2.2⟩

theorem nextchar_good (a0 a : Ascii) (c : UInt8) (g : Good a0 a) (l : Sim.Live a) :
    Good a0 (nextchar a c).1 ∧ ((nextchar a c).2.1 = .ok → Sim.Live (nextchar a c).1) := by
  obtain ⟨w', _, _, hcase⟩ := nextchar_refines a c g.1 l
  have hr := Sim.nextchar_rest a c g.1 l
  have e1 : (nextchar a c).1.fmt = a.fmt := congrArg (fun p => p.2.2.2.2.2.2.1) hr
  have e2 : (nextchar a c).1.inmap = a.inmap := congrArg (fun p => p.2.2.2.2.1) hr
  refine ⟨⟨w', e1.trans g.2.1, e2.trans g.2.2⟩, fun hok => ?_⟩
  rcases hcase with ⟨_, q, _⟩ | ⟨q0, _⟩
  · exact q
  · rw [q0] at hok; cases hok

theorem skipWhile_good (p : UInt8 → Bool) (fuel : Nat) (a0 a : Ascii) (st : Status) (c : UInt8) (g : Good a0 a)
    (hl : st = .ok → Sim.Live a) :
    Good a0 (skipWhile p fuel a st c).1 ∧ ((skipWhile p fuel a st c).2.1 = .ok → Sim.Live (skipWhile p fuel a st c).1) := by
  induction fuel generalizing a st c with
  | zero =>
    refine ⟨g, ?_⟩
    intro hok
    by_cases hc : (st == .ok && p c) = true
    · simp [skipWhile, hc] at hok
    · have : (skipWhile p 0 a st c).2.1 = st := by simp [skipWhile, hc]
      exact hl (by rw [← this]; exact hok)
  | succ fuel ih =>
    rw [Sim.skipWhile_succ]
    by_cases hc : (st == .ok && p c) = true
    · simp only [hc, if_true]
      have hst : st = .ok := eq_of_beq ((Bool.and_eq_true _ _).mp hc).1
      obtain ⟨g', l'⟩ := nextchar_good a0 a c g (hl hst)
      exact ih _ _ _ g' l'
    · simp only [hc, Bool.false_eq_true, if_false]
      exact ⟨g, hl⟩

theorem storeWhile_good (p : UInt8 → Bool) (fuel : Nat) (a0 a : Ascii) (st : Status) (c : UInt8) (acc : Bytes) (alloc : Nat)
    (g : Good a0 a) (hl : st = .ok → Sim.Live a) :
    Good a0 (storeWhile p fuel a st c acc alloc).1 ∧
    ((storeWhile p fuel a st c acc alloc).2.1 = .ok → Sim.Live (storeWhile p fuel a st c acc alloc).1) := by
  induction fuel generalizing a st c acc alloc with
  | zero =>
    refine ⟨g, ?_⟩
    intro hok
    by_cases hc : (st == .ok && p c) = true
    · simp [storeWhile, hc] at hok
    · have : (storeWhile p 0 a st c acc alloc).2.1 = st := by simp [storeWhile, hc]
      exact hl (by rw [← this]; exact hok)
  | succ fuel ih =>
    rw [Sim.storeWhile_succ]
    by_cases hc : (st == .ok && p c) = true
    · simp only [hc, if_true]
      by_cases ha : acc.size < alloc
      · simp only [ha, if_true]
        have hst : st = .ok := eq_of_beq ((Bool.and_eq_true _ _).mp hc).1
        obtain ⟨g', l'⟩ := nextchar_good a0 a c g (hl hst)
        exact ih _ _ _ _ _ g' l'
      · simp only [ha, if_false]
        exact ⟨g, fun hok => by cases hok⟩
    · simp only [hc, Bool.false_eq_true, if_false]
      exact ⟨g, hl⟩

theorem hfEnd_good (a0 a : Ascii) (sq : Sq) (st : Status) (c : UInt8) (g : Good a0 a) (hl : st = .ok → Sim.Live a) :
    Good a0 (hfEnd a sq st c).1 := by
  unfold hfEnd
  simp only
  have s1 := skipWhile_good (fun c => c != chNl && c != chCr) (fuelOf a) a0 a st c g hl
  generalize skipWhile (fun c => c != chNl && c != chCr) (fuelOf a) a st c = r1 at s1 ⊢
  obtain ⟨g1, l1⟩ := s1
  have s2 := skipWhile_good (fun c => c == chNl || c == chCr) (fuelOf r1.1) a0 r1.1 r1.2.1 r1.2.2 g1 l1
  generalize skipWhile (fun c => c == chNl || c == chCr) (fuelOf r1.1) r1.1 r1.2.1 r1.2.2 = r2 at s2 ⊢
  obtain ⟨g2, _⟩ := s2
  split
  · exact g2
  · split
    · exact g2.fail
    · exact g2.newRecord _ _

theorem hfDesc_good (a0 a : Ascii) (sq : Sq) (st : Status) (c : UInt8) (g : Good a0 a) (hl : st = .ok → Sim.Live a) :
    Good a0 (hfDesc a sq st c).1 := by
  unfold hfDesc
  simp only
  have s1 := skipWhile_good isBlankTab (fuelOf a) a0 a st c g hl
  generalize skipWhile isBlankTab (fuelOf a) a st c = r1 at s1 ⊢
  obtain ⟨g1, l1⟩ := s1
  have s2 := storeWhile_good (fun c => c != chNl && c != chCr && c != 1) (fuelOf r1.1) a0 r1.1 r1.2.1 r1.2.2 #[] sq.dalloc g1 l1
  generalize storeWhile (fun c => c != chNl && c != chCr && c != 1) (fuelOf r1.1) r1.1 r1.2.1 r1.2.2 #[] sq.dalloc = r2 at s2 ⊢
  obtain ⟨g2, l2⟩ := s2
  split
  · exact g2
  · split
    · exact g2
    · exact hfEnd_good a0 _ _ _ _ g2 l2

theorem hfName_good (a0 a : Ascii) (sq : Sq) (st : Status) (c : UInt8) (g : Good a0 a) (hl : st = .ok → Sim.Live a) :
    Good a0 (hfName a sq st c).1 := by
  unfold hfName
  simp only
  have s1 := skipWhile_good isBlankTab (fuelOf a) a0 a st c g hl
  generalize skipWhile isBlankTab (fuelOf a) a st c = r1 at s1 ⊢
  obtain ⟨g1, l1⟩ := s1
  have s2 := storeWhile_good (fun c => !isSpace c) (fuelOf r1.1) a0 r1.1 r1.2.1 r1.2.2 #[] sq.nalloc g1 l1
  generalize storeWhile (fun c => !isSpace c) (fuelOf r1.1) r1.1 r1.2.1 r1.2.2 #[] sq.nalloc = r2 at s2 ⊢
  obtain ⟨g2, l2⟩ := s2
  split
  · exact g2
  · split
    · exact g2.fail
    · split
      · exact g2
      · exact hfDesc_good a0 _ _ _ _ g2 l2

theorem hfGt_good (a0 a : Ascii) (sq : Sq) (st : Status) (c : UInt8) (g : Good a0 a) (hl : st = .ok → Sim.Live a) :
    Good a0 (hfGt a sq st c).1 := by
  unfold hfGt
  split
  · exact g
  · split
    · exact g.fail
    · split
      · exact g.fail
      · split
        · exact g
        · rename_i hne
          have hst : st = .ok := by simpa using hne
          obtain ⟨g', l'⟩ := nextchar_good a0 a c g (hl hst)
          exact hfName_good a0 _ _ _ _ g' l'

theorem headerFasta_good (a : Ascii) (sq : Sq) (w : WF a) (l : Sim.Live a) : Good a (headerFasta a sq).1 := by
  have hn : (a.nc == a.bpos) = false := by simp only [Sim.Live] at l; simp; omega
  obtain ⟨x, hx, _⟩ := bufGet_window a w a.bpos l
  unfold headerFasta
  simp only [hn, Bool.false_eq_true, if_false, hx]
  have hne : (Status.ok != Status.ok) = false := by decide
  simp only [hne, Bool.false_eq_true, if_false]
  have g : Good a a := ⟨w, rfl, rfl⟩
  have s1 := skipWhile_good isSpace (fuelOf a) a a .ok x g (fun _ => l)
  generalize skipWhile isSpace (fuelOf a) a .ok x = r1 at s1 ⊢
  obtain ⟨g1, l1⟩ := s1
  exact hfGt_good a _ _ _ _ g1 l1

/-- after the counting loop: both handles finish the record the same way -/
theorem infoEnd_sim (c1 c2 : Ascii) (sq : Sq) (h : Sim.Sim c1 c2) (hf : c1.fmt = 1) (hm : c1.inmap.size = 128) (hok : Track.Ok c1.trk) :
    (infoEnd (scanLoop false (fuelOf c1) c1 sq)).2 = (infoEnd (scanLoop false (fuelOf c2) c2 sq)).2 ∧
    ((infoEnd (scanLoop false (fuelOf c1) c1 sq)).2.2 = .ok →
      Sim.Sim (infoEnd (scanLoop false (fuelOf c1) c1 sq)).1 (infoEnd (scanLoop false (fuelOf c2) c2 sq)).1) := by
  have hfile := h.fileEq
  have hr := h.rest
  simp only [Sim.payload, Prod.mk.injEq] at hr
  obtain ⟨_, _, _, r4, r5, _⟩ := hr
  obtain ⟨m1, _, _, _, _⟩ := fileFrom_length c1 h.wf1
  obtain ⟨m2, _, _, _, _⟩ := fileFrom_length c2 h.wf2
  have i1 := scanLoop_info (fuelOf c1) c1 sq (c1.file.size + 1) h.wf1 hok hm (by omega) (by unfold fuelOf; split <;> omega)
  have i2 := scanLoop_info (fuelOf c2) c2 sq (c1.file.size + 1) h.wf2 (r4 ▸ hok) (r5 ▸ hm) (by rw [hfile]; omega)
    (by unfold fuelOf; split <;> omega)
  rw [← dataFold_sim h, ← h.pos] at i2
  have hst : (dataFold c1 (c1.file.size + 1)).2.2 = .ok ∨ (dataFold c1 (c1.file.size + 1)).2.2 = .eod ∨
      (dataFold c1 (c1.file.size + 1)).2.2 = .eformat ∨ (dataFold c1 (c1.file.size + 1)).2.2 = .fault :=
    scanBytes_status _ _ _ _ _
  generalize dataFold c1 (c1.file.size + 1) = f at *
  generalize scanLoop false (fuelOf c1) c1 sq = R1 at *
  generalize scanLoop false (fuelOf c2) c2 sq = R2 at *
  obtain ⟨A1, S1, T1, E1⟩ := R1
  obtain ⟨A2, S2, T2, E2⟩ := R2
  simp only at i1 i2
  obtain ⟨rfl, rfl, k1⟩ := i1
  obtain ⟨rfl, rfl, k2⟩ := i2
  have hpu := payload_upd c1 c2 (f.1.nres : Int) f.1.ln f.1.trk h.rest
  rcases hst with e | e | e | e
  · -- ran to the end of the file
    obtain ⟨w1, p1, _, q1⟩ := k1 (by rw [e]; decide)
    obtain ⟨w2, p2, _, q2⟩ := k2 (by rw [e]; decide)
    obtain ⟨at1, ps1⟩ := q1 e
    obtain ⟨at2, ps2⟩ := q2 e
    have hS : Sim.Sim A1 A2 := ⟨w1, w2, p1.trans (hpu.trans p2.symm), ps1.trans (by rw [ps2, hfile]), Or.inr ⟨at1, at2⟩⟩
    have hE : A1.eofIsOk = A2.eofIsOk := congrArg (fun p => p.2.2.2.2.2.1) hS.rest
    unfold infoEnd
    simp only [e, finalSt, hE]
    have b1 : (Status.eof == Status.fault) = false := by decide
    have b2 : (Status.eof == Status.eformat) = false := by decide
    simp only [b1, b2, Bool.or_self, Bool.false_eq_true, if_false, beq_self_eq_true, if_true]
    by_cases hk : A2.eofIsOk = true
    · simp only [hk, Bool.not_true, Bool.false_eq_true, if_false]
      exact ⟨(infoTail_sim A1 A2 _ _ hS).1, fun _ => (infoTail_sim A1 A2 _ _ hS).2⟩
    · have hk' : A2.eofIsOk = false := by simpa using hk
      simp only [hk', Bool.not_false, if_true]
      exact ⟨(infoTail_sim _ _ _ _ hS.fail).1, fun _ => (infoTail_sim _ _ _ _ hS.fail).2⟩
  · -- end of the record's data: `end_fasta`
    obtain ⟨w1, p1, q1, _⟩ := k1 (by rw [e]; decide)
    obtain ⟨w2, p2, q2, _⟩ := k2 (by rw [e]; decide)
    obtain ⟨ps1, lt1⟩ := q1 e
    obtain ⟨ps2, lt2⟩ := q2 e
    have hf1 : A1.fmt = 1 := (congrArg (fun p => p.2.2.2.2.2.2.1) p1).trans hf
    have hf2 : A2.fmt = 1 := (congrArg (fun p => p.2.2.2.2.2.2.1) p2).trans ((Sim.fmtEq h).symm.trans hf)
    have hS : Sim.Sim { A1 with bpos := E1 } { A2 with bpos := E2 } :=
      ⟨⟨w1.block, w1.norec, w1.bpos1, w1.full, w1.moff0, w1.fposEq, w1.fposLe, w1.ncLe, w1.boffEq, Nat.le_of_lt lt1⟩,
       ⟨w2.block, w2.norec, w2.bpos1, w2.full, w2.moff0, w2.fposEq, w2.fposLe, w2.ncLe, w2.boffEq, Nat.le_of_lt lt2⟩,
       p1.trans (hpu.trans p2.symm), ps1.trans ps2.symm, Or.inl ⟨lt1, lt2⟩⟩
    unfold infoEnd
    simp only [e, finalSt]
    have b1 : (Status.eod == Status.fault) = false := by decide
    have b2 : (Status.eod == Status.eformat) = false := by decide
    have b3 : (Status.eod == Status.eof) = false := by decide
    simp only [b1, b2, b3, Bool.or_self, Bool.false_eq_true, if_false, beq_self_eq_true, if_true]
    rw [parseEnd_fasta _ _ (show ({ A1 with bpos := E1 } : Ascii).fmt = 1 from hf1),
        parseEnd_fasta _ _ (show ({ A2 with bpos := E2 } : Ascii).fmt = 1 from hf2)]
    obtain ⟨ee, es⟩ := endFasta_sim _ _ { sq with eoff := pos c1 + (f.2.1 : Int) - 1 } hS lt1 lt2
    generalize endFasta { A1 with bpos := E1 } _ = r1 at *
    generalize endFasta { A2 with bpos := E2 } _ = r2 at *
    obtain ⟨x1, y1, z1⟩ := r1
    obtain ⟨x2, y2, z2⟩ := r2
    simp only at ee es ⊢
    obtain ⟨rfl, rfl⟩ := Prod.mk.inj ee
    exact ⟨(infoTail_sim _ _ _ _ es).1, fun _ => (infoTail_sim _ _ _ _ es).2⟩
  · unfold infoEnd
    simp only [e, finalSt]
    have b1 : (Status.eformat == Status.eformat) = true := by decide
    simp only [b1, Bool.or_true, if_true]
    exact ⟨by first | trivial | rfl, fun hk => by cases hk⟩
  · unfold infoEnd
    simp only [e, finalSt]
    have b1 : (Status.fault == Status.fault) = true := by decide
    simp only [b1, Bool.true_or, if_true]
    exact ⟨by first | trivial | rfl, fun hk => by cases hk⟩
/-- **`sqascii_ReadInfo` on a FASTA file is block-size independent**: from similar handles (same file, same absolute position, any two
    block sizes) it returns the same status and the same `ESL_SQ`, and when it succeeds the handles are similar again — so the next
    call starts from similar handles too. -/
theorem readInfo_sim (a1 a2 : Ascii) (sq : Sq) (h : Sim.Sim a1 a2) (hf : a1.fmt = 1) (hm : a1.inmap.size = 128) :
    (readInfo a1 sq).2 = (readInfo a2 sq).2 ∧
    ((readInfo a1 sq).2.2 = .ok → Sim.Sim (readInfo a1 sq).1 (readInfo a2 sq).1) := by
  have hf2 : a2.fmt = 1 := (Sim.fmtEq h).symm.trans hf
  rw [readInfo_eq, readInfo_eq, parseHeader_fasta a1 sq hf, parseHeader_fasta a2 sq hf2]
  rcases h.cur with ⟨l1, l2⟩ | ⟨e1, e2⟩
  · have n1 : (a1.nc == 0) = false := by simp only [Sim.Live] at l1; simp; omega
    have n2 : (a2.nc == 0) = false := by simp only [Sim.Live] at l2; simp; omega
    simp only [n1, n2, Bool.false_eq_true, if_false]
    obtain ⟨hd, hs⟩ := Sim.headerFasta_sim a1 a2 sq h l1 l2
    have k1 := headerFasta_ok_trk a1 sq
    obtain ⟨_, g2, g3⟩ := headerFasta_good a1 sq h.wf1 l1
    generalize headerFasta a1 sq = r1 at *
    generalize headerFasta a2 sq = r2 at *
    obtain ⟨b1, sq1, st1⟩ := r1
    obtain ⟨b2, sq2, st2⟩ := r2
    simp only at hd hs k1 g2 g3 ⊢
    obtain ⟨rfl, rfl⟩ := Prod.mk.inj hd
    by_cases hst : st1 = .ok
    · subst hst
      have hne : (Status.ok != Status.ok) = false := by decide
      simp only [hne, Bool.false_eq_true, if_false]
      exact infoEnd_sim { b1 with L := 0 } { b2 with L := 0 } sq1 (Sim.setL hs 0) (g2.trans hf) (by rw [g3]; exact hm) (k1 rfl)
    · have hne : (st1 != Status.ok) = true := by simpa using hst
      simp only [hne, if_true]
      exact ⟨by first | trivial | rfl, fun hk => absurd hk hst⟩
  · have n1 : (a1.nc == 0) = true := by simp [e1.1]
    have n2 : (a2.nc == 0) = true := by simp [e2.1]
    simp only [n1, n2, if_true]
    exact ⟨by first | trivial | rfl, fun hk => by cases hk⟩

end EaselModel.Sqio.DataScan
