import EaselModel.Sqio.TrackHeader
/-! # The whole index-building scan: `create_ssi_index`'s loop leaves `scanFile` of the records' line counts (C07)

`buildIndexLoop` = the `while (esl_sqio_ReadInfo(...) == eslOK)` loop of `create_ssi_index`. `buildIndex_trk`: from a ready FASTA
handle, for every read-block size, when the loop ends at EOF the handle's tracker is the fold of `scanRec` over the line counts
`countsL` of the records found on the remaining file bytes — so `bpl`, `rpl` which the tool then reads off the handle are those of
`Tracker.scanFile`, the object of `bplrpl_sound`. -/
namespace EaselModel.Sqio.TrackIndex
open EaselModel.Sqio EaselModel.Sqio.Tracker EaselModel.Sqio.Refine EaselModel.Sqio.DataScan EaselModel.Sqio.Cursor
open EaselModel.Sqio.ReadSpec EaselModel.Sqio.HeaderSpec EaselModel.Sqio.BodySpec EaselModel.Sqio.Fold EaselModel.Sqio.InfoSeqSpec
open EaselModel.Sqio.TrackHeader

/-- the line counts of the records a `ReadInfo` loop finds on the bytes `l` -/
def countsL (inmap : Bytes) (N : Nat) : Nat → List UInt8 → List Rec
  | 0, _ => []
  | fuel + 1, l =>
    if (infoL inmap N ({} : Sq) l).1 == .ok then
      TrackReader.recOfData inmap (((headerL N ({} : Sq) l).2.2).takeWhile (isData inmap)) :: countsL inmap N fuel (infoL inmap N ({} : Sq) l).2.2
    else []

/-- whatever its outcome, a header stage leaves the tracker as it was or as `header_*`'s reset leaves it -/
def Keeps (t0 t : Track) : Prop := t = t0 ∨ t = Tracker.step t0 Ev.hdr

theorem Keeps.of_eq {t0 t1 t : Track} (h : Keeps t1 t) (e : t1 = t0) : Keeps t0 t := by subst e; exact h

theorem hfEnd_any (a : Ascii) (sq : Sq) (st : Status) (c : UInt8) : Keeps a.trk (hfEnd a sq st c).1.trk := by
  have k1 := skipWhile_trk (fun c => c != chNl && c != chCr) (fuelOf a) a st c
  unfold hfEnd
  simp only
  generalize skipWhile (fun c => c != chNl && c != chCr) (fuelOf a) a st c = r1 at k1 ⊢
  have k2 := skipWhile_trk (fun c => c == chNl || c == chCr) (fuelOf r1.1) r1.1 r1.2.1 r1.2.2
  generalize skipWhile (fun c => c == chNl || c == chCr) (fuelOf r1.1) r1.1 r1.2.1 r1.2.2 = r2 at k2 ⊢
  split
  · exact Or.inl (k2.trans k1)
  · split
    · exact Or.inl (k2.trans k1)
    · right
      show ({ r2.1.trk with prvrpl := -1, prvbpl := -1, currpl := 0, curbpl := 0 } : Track) = _
      rw [k2, k1]; rfl

theorem hfDesc_any (a : Ascii) (sq : Sq) (st : Status) (c : UInt8) : Keeps a.trk (hfDesc a sq st c).1.trk := by
  have k1 := skipWhile_trk isBlankTab (fuelOf a) a st c
  unfold hfDesc
  simp only
  generalize skipWhile isBlankTab (fuelOf a) a st c = r1 at k1 ⊢
  have k2 := storeWhile_trk (fun c => c != chNl && c != chCr && c != 1) (fuelOf r1.1) r1.1 r1.2.1 r1.2.2 #[] sq.dalloc
  generalize storeWhile (fun c => c != chNl && c != chCr && c != 1) (fuelOf r1.1) r1.1 r1.2.1 r1.2.2 #[] sq.dalloc = r2 at k2 ⊢
  split
  · exact Or.inl (k2.trans k1)
  · split
    · exact Or.inl (k2.trans k1)
    · exact (hfEnd_any _ _ _ _).of_eq (k2.trans k1)

theorem hfName_any (a : Ascii) (sq : Sq) (st : Status) (c : UInt8) : Keeps a.trk (hfName a sq st c).1.trk := by
  have k1 := skipWhile_trk isBlankTab (fuelOf a) a st c
  unfold hfName
  simp only
  generalize skipWhile isBlankTab (fuelOf a) a st c = r1 at k1 ⊢
  have k2 := storeWhile_trk (fun c => !isSpace c) (fuelOf r1.1) r1.1 r1.2.1 r1.2.2 #[] sq.nalloc
  generalize storeWhile (fun c => !isSpace c) (fuelOf r1.1) r1.1 r1.2.1 r1.2.2 #[] sq.nalloc = r2 at k2 ⊢
  split
  · exact Or.inl (k2.trans k1)
  · split
    · exact Or.inl (k2.trans k1)
    · split
      · exact Or.inl (k2.trans k1)
      · exact (hfDesc_any _ _ _ _).of_eq (k2.trans k1)

theorem hfGt_any (a : Ascii) (sq : Sq) (st : Status) (c : UInt8) : Keeps a.trk (hfGt a sq st c).1.trk := by
  unfold hfGt
  split
  · exact Or.inl rfl
  · split
    · exact Or.inl rfl
    · split
      · exact Or.inl rfl
      · split
        · exact Or.inl rfl
        · exact (hfName_any _ _ _ _).of_eq (nextchar_trk a c)

theorem headerFasta_any (a : Ascii) (sq : Sq) : Keeps a.trk (headerFasta a sq).1.trk := by
  unfold headerFasta
  have k0 : (if a.nc == a.bpos then loadbuf a else (a, Status.ok)).1.trk = a.trk := by
    split
    · exact loadbuf_trk a
    · rfl
  generalize (if a.nc == a.bpos then loadbuf a else (a, Status.ok)) = r0 at k0 ⊢
  obtain ⟨a0, st0⟩ := r0
  simp only at k0 ⊢
  split
  · exact Or.inl k0
  · cases hb : a0.bufGet a0.bpos with
    | none => exact Or.inl k0
    | some c =>
      simp only
      exact (hfGt_any _ _ _ _).of_eq ((skipWhile_trk _ _ _ _ _).trans k0)

/-- the widths and maxima of the tracker do not depend on `prv*` / `cur*` having been reset -/
theorem Keeps.core {t0 t : Track} (h : Keeps t0 t) : t.rpl = t0.rpl ∧ t.bpl = t0.bpl ∧ t.maxrpl = t0.maxrpl ∧ t.maxxpl = t0.maxxpl := by
  rcases h with rfl | rfl
  · exact ⟨rfl, rfl, rfl, rfl⟩
  · exact ⟨rfl, rfl, rfl, rfl⟩

def core (t : Track) : Int × Int × Int × Int := (t.rpl, t.bpl, t.maxrpl, t.maxxpl)

theorem core_of_keeps {t0 t : Track} (h : Keeps t0 t) : core t = core t0 := by
  obtain ⟨h1, h2, h3, h4⟩ := h.core
  simp only [core, h1, h2, h3, h4]

/-- a `ReadInfo` that answers EOF has not changed the widths / maxima of the tracker -/
theorem readInfo_eof_core (a : Ascii) (sq : Sq) (R : Ready a sq) (hsa : 2 ≤ sq.salloc) (he : (readInfo a sq).2.2 = .eof) :
    core (readInfo a sq).1.trk = core a.trk := by
  by_cases hn : (a.nc == 0) = true
  · rw [DataScan.readInfo_eq, if_pos hn]
  · have hl : Sim.Live a := by
      rcases R.cur.cur with h | ⟨⟨h1, _⟩, _⟩
      · exact h
      · exact absurd (by simpa using h1) hn
    obtain ⟨x, t, _, hf, _⟩ := abs_of_live a R.cur hl
    obtain ⟨q1, _, _, _⟩ := headerFasta_spec a sq R.cur hl R.nalloc R.dalloc
    obtain ⟨r1, _, _, _⟩ := readInfo_spec a sq R hsa
    by_cases hh : ((headerFasta a sq).2.2 != Status.ok) = true
    · rw [DataScan.readInfo_eq, if_neg hn, parseHeader_fasta a sq R.fmt, if_pos hh]
      exact core_of_keeps (headerFasta_any a sq)
    · -- header ok: the status is that of the body, never EOF
      exfalso
      have hhok : (headerFasta a sq).2.2 = .ok := by simpa using hh
      have hLok : (headerL a.file.size sq (fileFrom a)).1 = .ok := by
        have := congrArg Prod.snd q1; simp only at this; rw [← this]; exact hhok
      rw [r1] at he
      unfold infoL at he
      have hne : (fileFrom a).isEmpty = false := by rw [hf]; rfl
      simp only [hne, Bool.false_eq_true, if_false, hLok, beq_self_eq_true, if_true] at he
      unfold infoBodyL at he
      split at he
      · cases he
      · split at he <;> cases he

/-- **`create_ssi_index`'s scan, for every read-block size**: when the `ReadInfo` loop ends at EOF, the widths `rpl`, `bpl` (and the
    two maxima) in the handle are those of the fold of `scanRec` over the line counts of the records on the remaining file bytes -/
theorem buildIndex_trk (fuel : Nat) : ∀ (a : Ascii) (s : Ssi) (a' : Ascii) (s' : Ssi), Ready a ({} : Sq) →
    buildIndexLoop fuel a s = some (a', s') →
    core a'.trk = core ((countsL a.inmap a.file.size fuel (fileFrom a)).foldl scanRec a.trk) := by
  induction fuel with
  | zero => intro a s a' s' _ h; simp [buildIndexLoop] at h
  | succ fuel ih =>
    intro a s a' s' R h
    have hsa : 2 ≤ ({} : Sq).salloc := by decide
    obtain ⟨r1, r2, _, _⟩ := readInfo_spec a ({} : Sq) R hsa
    unfold buildIndexLoop at h
    rcases hri : readInfo a ({} : Sq) with ⟨a1, sq1, st1⟩
    rw [hri] at h r1 r2
    simp only at h r1 r2
    by_cases he : (st1 == Status.eof) = true
    · rw [if_pos he] at h
      have he' : st1 = .eof := by simpa using he
      cases h
      have hc := readInfo_eof_core a ({} : Sq) R hsa (by rw [hri]; exact he')
      rw [hri] at hc
      simp only at hc
      have hnok : ((infoL a.inmap a.file.size ({} : Sq) (fileFrom a)).1 == Status.ok) = false := by
        rw [← r1, he']; rfl
      simp only [countsL, hnok, Bool.false_eq_true, if_false, List.foldl_nil]
      exact hc
    · rw [if_neg he] at h
      by_cases hk : (st1 != Status.ok) = true
      · rw [if_pos hk] at h; cases h
      · rw [if_neg hk] at h
        have hok : st1 = .ok := by simpa using hk
        have hLok : (infoL a.inmap a.file.size ({} : Sq) (fileFrom a)).1 = .ok := by rw [← r1]; exact hok
        obtain ⟨m1, m2, m3, m4⟩ := r2 hLok
        have hl : Sim.Live a := by
          rcases R.cur.cur with hh | ⟨⟨h1, _⟩, _⟩
          · exact hh
          · exfalso
            have hn : (a.nc == 0) = true := by simp [h1]
            have : (readInfo a ({} : Sq)).2.2 = .eof := by rw [DataScan.readInfo_eq, if_pos hn]
            rw [hri] at this; simp only at this; rw [hok] at this; cases this
        have htrk := readInfo_trk a ({} : Sq) R hl (by rw [hri]; exact hok)
        rw [hri] at htrk
        simp only at htrk
        have R1 : Ready a1 ({} : Sq) := R.next m2 m4 rfl rfl (Nat.le_refl _) (Nat.le_refl _)
        have := ih a1 _ a' s' R1 h
        have hi : a1.inmap = a.inmap := congrArg (fun p => p.2.1) m4
        have hfile : a1.file = a.file := congrArg (fun p => p.1) m4
        rw [this, hi, hfile, m3, htrk]
        have hokb : ((infoL a.inmap a.file.size ({} : Sq) (fileFrom a)).1 == Status.ok) = true := by rw [hLok]; rfl
        simp only [countsL, hokb, if_true, List.foldl_cons]

theorem recOfData_wf (inmap : Bytes) (d : List UInt8) : (TrackReader.recOfData inmap d).WF := by
  obtain ⟨_, s2, _⟩ := TrackReader.splitEol_spec inmap d [] (by simp)
  unfold TrackReader.recOfData GeomBridge.recOf Rec.WF
  constructor
  · intro l hl
    simp only [List.mem_map] at hl
    obtain ⟨x, hx, rfl⟩ := hl
    obtain ⟨body, e, rfl, _, he⟩ := s2 x hx
    have hre : isRes inmap e = false := by simp [isRes, he, Tables.dsqEol]
    have hle := List.length_filter_le (isRes inmap) body
    simp only [GeomBridge.cnt, List.filter_append, List.filter_cons, hre, Bool.false_eq_true, if_false, List.filter_nil, List.append_nil,
      List.length_append, List.length_singleton]
    omega
  · intro l hl
    cases h : (TrackReader.splitEol inmap d []).2.isEmpty
    · simp only [h, Bool.false_eq_true, if_false, Option.some.injEq] at hl
      subst hl
      have hle := List.length_filter_le (isRes inmap) (TrackReader.splitEol inmap d []).2
      have hpos : 0 < (TrackReader.splitEol inmap d []).2.length := by
        cases hh : (TrackReader.splitEol inmap d []).2 with
        | nil => rw [hh] at h; simp at h
        | cons _ _ => simp
      simp only [GeomBridge.cnt]
      omega
    · simp [h] at hl

theorem countsL_wf (inmap : Bytes) (N : Nat) (fuel : Nat) : ∀ l, ∀ rc ∈ countsL inmap N fuel l, rc.WF := by
  induction fuel with
  | zero => intro l rc h; simp [countsL] at h
  | succ fuel ih =>
    intro l rc h
    unfold countsL at h
    split at h
    · rcases List.mem_cons.mp h with rfl | h
      · exact recOfData_wf _ _
      · exact ih _ rc h
    · simp at h

/-- **the index-building scan is sound, end to end (FASTA, every read-block size).** A fresh handle (`trk = {}`), the `ReadInfo` loop of
    `create_ssi_index` run to EOF: if the handle then holds `rpl = p > 0` and `bpl = q > 0` — the test before `esl_newssi_SetSubseq` —
    every record the loop went over has the line geometry `(q, p)`. -/
theorem buildIndex_sound (fuel : Nat) (a : Ascii) (s : Ssi) (a' : Ascii) (s' : Ssi) (R : Ready a ({} : Sq)) (h0 : a.trk = {})
    (h : buildIndexLoop fuel a s = some (a', s')) (p q : Int) (hp : 0 < p) (hq : 0 < q) (hr : a'.trk.rpl = p) (hb : a'.trk.bpl = q) :
    ∀ rc ∈ countsL a.inmap a.file.size fuel (fileFrom a), Geom q p rc := by
  have hc := buildIndex_trk fuel a s a' s' R h
  rw [h0] at hc
  simp only [core, Prod.mk.injEq] at hc
  exact tracker_sound _ (countsL_wf _ _ _ _) p q hp hq (by unfold scanFile; rw [← hc.1]; exact hr) (by unfold scanFile; rw [← hc.2.1]; exact hb)

end EaselModel.Sqio.TrackIndex
