import EaselModel.Sqio.MsaSeq
import EaselModel.Props.C01
/-! # Lemmas about alignment files read as sequences (C02): totality and well-formedness of the alignment branches of the reading
calls, composed from the C01 theorem `opened_read_good` (every `esl_msafile_Read` of an opened file returns ok with a well-formed
alignment, eof, or eformat with a message; never a fault, never an exception - for every list of lines). -/
namespace EaselModel.Sqio.MsaSeq
open EaselModel.Msafile

/-- an alignment is in the mode of the handle: digital iff an alphabet was set (`esl_msafile_SetDigital`), and then `Kp` is that
    alphabet's -/
def ModeOf (o : Opened) (m : Msa) : Prop := m.digital = o.abc.isSome ∧ ∀ t, o.abc = some t → m.kp = (abcOfType t).kp

/-- the readers deliver alignments in the mode of the handle (every reader builds its result with `digital := cfg.digital,
    kp := cfg.kp`; proved in `MsaSeqMode.lean` for aligned FASTA, A2M, Clustal, Clustal-like and PSI-BLAST from the C03 read-domain
    lemmas; for Stockholm / Pfam / SELEX / PHYLIP it is tied by the differential run: the model answers `fault` on a mismatch) -/
def ModeOk (o : Opened) : Prop := ∀ lines m, (o.read lines).1 = .ok m → ModeOf o m

/-- invariant of the handle between calls: the alignment held (if any) is one the reader returned -/
def Inv (h : MsaH) : Prop := ∀ m, h.msa = some m → m.wellFormed = true ∧ ModeOf h.o m

/-- a record as `esl_sq_FetchFromMSA` builds it / as the whole-record calls return it: strings and residues inside their
    allocations with room for the terminator, whole-sequence coordinates, residues are symbols (text: no NUL, no gap character;
    digital: codes of the alignment's alphabet `< kp`, never a sentinel) -/
structure RowWF (kp : Nat) (t : Sq) : Prop where
  name : t.name.size < t.nalloc
  desc : t.desc.size < t.dalloc
  room : (if t.digital then t.n + 2 else t.n + 1) ≤ t.salloc
  start : t.start = 1
  end_ : t.end_ = t.n
  c : t.C = 0
  w : t.W = t.n
  l : t.L = t.n
  sym : ∀ x ∈ t.seq.toList, if t.digital then x.toNat < kp ∧ x ≠ 255 else x ≠ 0 ∧ isGapChar x = false

theorem takeWhile_snoc_length {α} (p : α → Bool) (l : List α) (x : α) (hx : p x = false) :
    ((l ++ [x]).takeWhile p).length ≤ l.length := by
  induction l with
  | nil => simp [List.takeWhile, hx]
  | cons a l ih =>
    simp only [List.cons_append, List.takeWhile]
    split
    · simp only [List.length_cons]; omega
    · simp

theorem mem_takeWhile {α} (p : α → Bool) (l : List α) (x : α) (h : x ∈ l.takeWhile p) : x ∈ l ∧ p x = true := by
  induction l with
  | nil => simp at h
  | cons a l ih =>
    simp only [List.takeWhile] at h
    split at h
    · rename_i ha
      rcases List.mem_cons.mp h with h1 | h1
      · subst h1; exact ⟨List.mem_cons_self, ha⟩
      · exact ⟨List.mem_cons_of_mem _ (ih h1).1, (ih h1).2⟩
    · simp at h

/-- the codes of a well-formed digital row, dealigned: all `< kp`, none a sentinel, at most `alen` of them -/
theorem dealignDigital_ok (k kpA kp alen : Nat) (row : LBytes) (h : dsqRowOk kp alen row = true) :
    (∀ x ∈ dealignDigital k kpA (row.drop 1), x.toNat < kp ∧ x ≠ 255) ∧ (dealignDigital k kpA (row.drop 1)).length ≤ alen ∧
    row.length = alen + 2 := by
  cases row with
  | nil => simp [dsqRowOk] at h
  | cons s0 rest =>
    simp only [dsqRowOk, Bool.and_eq_true, beq_iff_eq, List.all_eq_true, decide_eq_true_eq] at h
    obtain ⟨⟨⟨_, hlen⟩, hlast⟩, hall⟩ := h
    have hne : rest ≠ [] := by intro e; simp [e] at hlast
    have hsplit : rest.dropLast ++ [dsqSENTINEL] = rest := by
      have h1 := List.dropLast_concat_getLast hne
      have h2 := List.getLast?_eq_getLast hne
      rw [hlast] at h2
      rw [← Option.some.inj h2] at h1
      exact h1
    refine ⟨?_, ?_, by simp [hlen]⟩
    · intro x hx
      simp only [dealignDigital, List.drop_succ_cons, List.drop_zero, List.mem_filter] at hx
      have hm := mem_takeWhile _ _ _ hx.1
      have hne : x ≠ 255 := by simpa using hm.2
      refine ⟨?_, hne⟩
      have : x ∈ rest.dropLast ++ [dsqSENTINEL] := by rw [hsplit]; exact hm.1
      rcases List.mem_append.mp this with h1 | h1
      · exact hall x h1
      · simp [dsqSENTINEL] at h1; exact absurd h1 hne
    · simp only [dealignDigital, List.drop_succ_cons, List.drop_zero]
      refine Nat.le_trans (List.length_filter_le _ _) ?_
      rw [← hsplit]
      refine Nat.le_trans (takeWhile_snoc_length _ _ _ (by simp [dsqSENTINEL])) ?_
      simp only [List.length_dropLast]; omega

theorem dealignText_ok (row : LBytes) :
    (∀ x ∈ dealignText row, x ≠ 0 ∧ isGapChar x = false) ∧ (dealignText row).length ≤ (cstrL row).length := by
  refine ⟨?_, List.length_filter_le _ _⟩
  intro x hx
  simp only [dealignText, List.mem_filter] at hx
  have hm := mem_takeWhile _ _ _ (by simpa [cstrL] using hx.1)
  exact ⟨by simpa using hm.2, by simpa using hx.2⟩

theorem size_cstrL_toArray (b : LBytes) : (cstrL b).toArray.size = (cstrL b).length := by simp

/-- **`esl_sq_FetchFromMSA` on a well-formed alignment is total**: `eslEOD` exactly when `which` is not a row, otherwise a
    well-formed record in the alignment's mode - never a fault -/
theorem fetchFromMSA_total (abc : Option AbcType) (m : Msa) (which : Int) (hw : m.wellFormed = true) (hd : m.digital = abc.isSome) :
    (((which ≥ (m.nseq : Int) ∨ which < 0) ∧ fetchFromMSA abc m which = (none, .eod)) ∨
     (0 ≤ which ∧ which < (m.nseq : Int) ∧ ∃ t, fetchFromMSA abc m which = (some t, .ok) ∧ RowWF m.kp t ∧ t.digital = m.digital ∧
        t.n ≤ m.alen)) := by
  by_cases hr : which ≥ (m.nseq : Int) ∨ which < 0
  · left
    refine ⟨hr, ?_⟩
    unfold fetchFromMSA
    rw [if_pos (by rcases hr with h | h <;> simp [h])]
  · right
    have h0 : 0 ≤ which := by omega
    have h1 : which < (m.nseq : Int) := by omega
    refine ⟨h0, h1, ?_⟩
    have hi : which.toNat < m.nseq := by omega
    simp only [Msa.wellFormed, Bool.and_eq_true] at hw
    obtain ⟨⟨⟨⟨⟨⟨⟨⟨⟨⟨⟨⟨⟨_, hrows⟩, _⟩, _⟩, _⟩, _⟩, _⟩, _⟩, _⟩, _⟩, _⟩, _⟩, _⟩, _⟩ := hw
    unfold fetchFromMSA
    rw [if_neg (by simp; omega)]
    cases hdig : m.digital with
    | false =>
      simp only [hdig, Bool.false_eq_true, if_false, Bool.and_eq_true, beq_iff_eq, List.all_eq_true] at hrows
      have hlen : which.toNat < m.aseq.length := by rw [hrows.1]; exact hi
      simp only [Bool.not_false, if_true, List.getElem?_eq_getElem hlen]
      have hd' := dealignText_ok m.aseq[which.toNat]
      refine ⟨_, rfl, ⟨?_, ?_, ?_, rfl, ?_, rfl, ?_, ?_, ?_⟩, rfl, ?_⟩
      · simp
      · simp
      · simp only [Sq.n, Bool.false_eq_true, if_false, List.size_toArray]; have := hd'.2; omega
      · simp [Sq.n]
      · simp [Sq.n]
      · simp [Sq.n]
      · intro x hx
        simp only [Bool.false_eq_true, if_false]
        exact hd'.1 x (by simpa using hx)
      · have hr := hrows.2 _ (List.getElem_mem hlen)
        simp only [Sq.n, List.size_toArray]
        refine Nat.le_trans hd'.2 ?_
        rw [← hr.1]
        exact (List.takeWhile_sublist _).length_le
    | true =>
      simp only [hdig, if_true, Bool.and_eq_true, beq_iff_eq, List.all_eq_true] at hrows
      have hlen : which.toNat < m.ax.length := by rw [hrows.1]; exact hi
      have hsome : abc.isSome = true := by rw [← hd, hdig]
      obtain ⟨t, ht⟩ := Option.isSome_iff_exists.mp hsome
      subst ht
      have hrow := dealignDigital_ok (abcOfType t).k (abcOfType t).kp m.kp m.alen m.ax[which.toNat] (hrows.2 _ (List.getElem_mem hlen))
      simp only [Bool.not_true, Bool.false_eq_true, if_false, List.getElem?_eq_getElem hlen, hrow.2.2, bne_self_eq_false]
      refine ⟨_, rfl, ⟨?_, ?_, ?_, rfl, ?_, rfl, ?_, ?_, ?_⟩, rfl, ?_⟩
      · simp
      · simp
      · simp only [Sq.n, if_true, List.size_toArray]; have := hrow.2.1; omega
      · simp [Sq.n]
      · simp [Sq.n]
      · simp [Sq.n]
      · intro x hx
        simp only [if_true]
        exact hrow.1 x (by simpa using hx)
      · simp only [Sq.n, List.size_toArray]; exact hrow.2.1

/-- the prologue never faults and keeps the invariant: `eslOK` with an alignment to read from (`0 ≤ idx` is the caller's
    business), `eslEOF`, or `eslEFORMAT` with a message -/
theorem needMsa_total (h : MsaH) (hi : Inv h) (hm : ModeOk h.o) :
    Inv (needMsa h).1 ∧ (needMsa h).1.o = h.o ∧ (needMsa h).1.exc = h.exc ∧ (needMsa h).1.abc = h.abc ∧
    ((needMsa h).1.idx = h.idx ∨ (needMsa h).1.idx = 0) ∧
    (((needMsa h).2 = .ok ∧ ∃ m, (needMsa h).1.msa = some m ∧ (needMsa h).1.idx < (m.nseq : Int)) ∨
     ((needMsa h).2 = .eof ∧ (needMsa h).1.haveErr = h.haveErr) ∨
     ((needMsa h).2 = .eformat ∧ (needMsa h).1.haveErr = true)) := by
  unfold needMsa
  by_cases hneed : needsLoad h = true
  · rw [if_pos hneed]
    unfold loadMsa
    have hg := EaselModel.Props.C01.opened_read_good h.o h.lines
    have hmo := hm h.lines
    generalize h.o.read h.lines = r at hg hmo
    obtain ⟨r1, rest⟩ := r
    cases r1 with
    | ok m =>
      simp only [Good] at hg
      have hmd := hmo m rfl
      have hn : 1 ≤ m.nseq := by
        simp only [Msa.wellFormed, Bool.and_eq_true, decide_eq_true_eq] at hg
        exact hg.1.1.1.1.1.1.1.1.1.1.1.1.1
      refine ⟨?_, rfl, rfl, rfl, Or.inr rfl, Or.inl ⟨rfl, m, rfl, ?_⟩⟩
      · intro m' hm'
        simp only [Option.some.injEq] at hm'
        subst hm'
        exact ⟨hg, hmd⟩
      · show (0 : Int) < (m.nseq : Int)
        omega
    | eof =>
      refine ⟨?_, rfl, rfl, rfl, Or.inl rfl, Or.inr (Or.inl ⟨rfl, rfl⟩)⟩
      intro m' hm'; simp at hm'
    | eformat msg =>
      refine ⟨?_, rfl, rfl, rfl, Or.inl rfl, Or.inr (Or.inr ⟨rfl, rfl⟩)⟩
      intro m' hm'; simp at hm'
    | fault => exact absurd hg (by simp [Good])
    | exc => exact absurd hg (by simp [Good])
  · rw [if_neg hneed]
    refine ⟨hi, rfl, rfl, rfl, Or.inl rfl, Or.inl ⟨rfl, ?_⟩⟩
    unfold needsLoad at hneed
    cases hmsa : h.msa with
    | none => simp [hmsa] at hneed
    | some m =>
      simp only [hmsa, decide_eq_true_eq] at hneed
      exact ⟨m, rfl, by show h.idx < (m.nseq : Int); omega⟩

/-- what `nextRow` (prologue + `esl_sq_FetchFromMSA`) can answer from a handle with `0 ≤ idx` -/
theorem nextRow_total (h : MsaH) (hi : Inv h) (hm : ModeOk h.o) (hidx : 0 ≤ h.idx) :
    Inv (nextRow h).1 ∧ (nextRow h).1.o = h.o ∧ (nextRow h).1.exc = h.exc ∧ (nextRow h).1.abc = h.abc ∧ 0 ≤ (nextRow h).1.idx ∧
    ((∃ t m, (nextRow h).2 = (some t, .ok) ∧ (nextRow h).1.msa = some m ∧ RowWF m.kp t ∧ t.digital = h.o.abc.isSome ∧ t.n ≤ m.alen) ∨
     ((nextRow h).2 = (none, .eof)) ∨
     ((nextRow h).2 = (none, .eformat) ∧ (nextRow h).1.haveErr = true)) := by
  obtain ⟨n1, n2, n3, n4, hid, n5⟩ := needMsa_total h hi hm
  unfold nextRow
  generalize needMsa h = r at n1 n2 n3 n4 hid n5
  obtain ⟨h', st⟩ := r
  simp only at n1 n2 n3 n4 hid n5
  have h0 : 0 ≤ h'.idx := by rcases hid with h1 | h1 <;> omega
  rcases n5 with ⟨hst, m, hmsa, hlt⟩ | ⟨hst, _⟩ | ⟨hst, herr⟩
  · have hmw := n1 m hmsa
    have hmsa' := hmsa
    simp only [hst, bne_self_eq_false, Bool.false_eq_true, if_false, hmsa]
    rcases fetchFromMSA_total h'.o.abc m h'.idx hmw.1 hmw.2.1 with ⟨hr, _⟩ | ⟨_, _, t, ht, hwf, hdg, hn⟩
    · omega
    · rw [ht]
      refine ⟨n1, n2, n3, n4, h0, Or.inl ⟨t, m, rfl, rfl, hwf, ?_, hn⟩⟩
      rw [hdg, hmw.2.1, n2]
  · simp only [hst]
    exact ⟨n1, n2, n3, n4, h0, Or.inr (Or.inl rfl)⟩
  · simp only [hst]
    exact ⟨n1, n2, n3, n4, h0, Or.inr (Or.inr ⟨rfl, herr⟩)⟩

/-- `esl_sq_Copy` into an `ESL_SQ` of the same mode keeps the record well formed (strings and residues fit after the growth) -/
theorem copyInto_wf (kp : Nat) (dst t : Sq) (hw : RowWF kp t) (hd : dst.digital = t.digital) :
    RowWF kp { copyInto dst t with start := 1, end_ := ((copyInto dst t).n : Int), C := 0, W := ((copyInto dst t).n : Int), L := ((copyInto dst t).n : Int) } ∧
    (copyInto dst t).digital = dst.digital ∧ (copyInto dst t).seq = t.seq := by
  have hdg : (copyInto dst t).digital = dst.digital := by
    unfold copyInto Sq.growTo; simp only []; repeat' split
    all_goals rfl
  have hseq : (copyInto dst t).seq = t.seq := by unfold copyInto; rfl
  refine ⟨⟨?_, ?_, ?_, rfl, rfl, rfl, rfl, rfl, ?_⟩, hdg, hseq⟩
  · unfold copyInto; simp only []; split <;> omega
  · unfold copyInto; simp only []; split <;> omega
  · show (if (copyInto dst t).digital then (copyInto dst t).n + 2 else (copyInto dst t).n + 1) ≤ (copyInto dst t).salloc
    have hn : (copyInto dst t).n = t.n := by simp [Sq.n, hseq]
    have hsa : (copyInto dst t).salloc = (dst.growTo t.n).salloc := by unfold copyInto; rfl
    rw [hdg, hn, hsa]
    unfold Sq.growTo
    simp only [Sq.n]
    split <;> split <;> simp_all <;> omega
  · intro x hx
    show if (copyInto dst t).digital then _ else _
    rw [hdg, hd]
    exact hw.sym x (by simpa [hseq] using hx)

/-- **`sqascii_Read` / `sqascii_ReadSequence` on an alignment file are total**: from a handle that holds a reader-made alignment (or
    none) the outcome is `eslOK` with a well-formed record of the handle's mode, `eslEOF`, or `eslEFORMAT` with a message; no fault,
    no exception; the invariant is kept, so the statement holds after every history of such calls. -/
theorem read_total (h : MsaH) (sq : Sq) (hi : Inv h) (hm : ModeOk h.o) (hidx : 0 ≤ h.idx) (hsq : sq.digital = h.o.abc.isSome) :
    Inv (read h sq).1 ∧ (read h sq).1.o = h.o ∧ (read h sq).1.exc = h.exc ∧ 0 ≤ (read h sq).1.idx ∧
    (((read h sq).2.2 = .ok ∧ (read h sq).2.1.digital = sq.digital ∧ ∃ m, (read h sq).1.msa = some m ∧ RowWF m.kp (read h sq).2.1 ∧
        (read h sq).2.1.n ≤ m.alen) ∨
     (read h sq).2.2 = .eof ∨ ((read h sq).2.2 = .eformat ∧ (read h sq).1.haveErr = true)) := by
  obtain ⟨n1, n2, n3, _, n5, n6⟩ := nextRow_total h hi hm hidx
  unfold read
  generalize nextRow h = r at n1 n2 n3 n5 n6
  obtain ⟨h', t, st⟩ := r
  simp only at n1 n2 n3 n5 n6
  rcases n6 with ⟨t', m, hts, hmsa, hwf, hdg, hn⟩ | hts | ⟨hts, herr⟩
  · simp only [Prod.mk.injEq] at hts
    obtain ⟨ht, hst⟩ := hts
    subst ht hst
    have hd : sq.digital = t'.digital := by rw [hsq, hdg]
    simp only [hd, bne_self_eq_false, Bool.false_eq_true, if_false]
    obtain ⟨c1, c2, c3⟩ := copyInto_wf m.kp sq t' hwf hd
    refine ⟨n1, n2, n3, by show 0 ≤ h'.idx + 1; omega, Or.inl ⟨trivial, ?_, m, hmsa, c1, ?_⟩⟩
    · show (copyInto sq t').digital = t'.digital
      rw [c2, hd]
    · show (copyInto sq t').seq.size ≤ m.alen
      rw [c3]; exact hn
  · simp only [Prod.mk.injEq] at hts
    obtain ⟨ht, hst⟩ := hts
    subst ht hst
    exact ⟨n1, n2, n3, n5, Or.inr (Or.inl rfl)⟩
  · simp only [Prod.mk.injEq] at hts
    obtain ⟨ht, hst⟩ := hts
    subst ht hst
    exact ⟨n1, n2, n3, n5, Or.inr (Or.inr ⟨rfl, herr⟩)⟩

/-- an info-only record: no residues, `start = end = C = W = 0`, `L ≥ 0`, strings inside their allocations -/
structure InfoWF (t : Sq) : Prop where
  name : t.name.size < t.nalloc
  desc : t.desc.size < t.dalloc
  room : (if t.digital then 2 else 1) ≤ t.salloc
  n : t.seq = #[]
  coords : t.start = 0 ∧ t.end_ = 0 ∧ t.C = 0 ∧ t.W = 0
  l : 0 ≤ t.L

/-- **`sqascii_ReadInfo` on an alignment file is total**: `eslOK` with a well-formed info record (`L` = the dealigned length of the
    row), `eslEOF`, or `eslEFORMAT` with a message; no fault, no exception; invariant kept -/
theorem readInfo_total (h : MsaH) (sq : Sq) (hi : Inv h) (hm : ModeOk h.o) (hidx : 0 ≤ h.idx) (hsq : sq.digital = h.o.abc.isSome) :
    Inv (readInfo h sq).1 ∧ (readInfo h sq).1.o = h.o ∧ (readInfo h sq).1.exc = h.exc ∧ 0 ≤ (readInfo h sq).1.idx ∧
    (((readInfo h sq).2.2 = .ok ∧ InfoWF (readInfo h sq).2.1) ∨
     (readInfo h sq).2.2 = .eof ∨ ((readInfo h sq).2.2 = .eformat ∧ (readInfo h sq).1.haveErr = true)) := by
  obtain ⟨n1, n2, n3, _, n5, n6⟩ := nextRow_total h hi hm hidx
  unfold readInfo
  generalize nextRow h = r at n1 n2 n3 n5 n6
  obtain ⟨h', t, st⟩ := r
  simp only at n1 n2 n3 n5 n6
  rcases n6 with ⟨t', m, hts, hmsa, hwf, hdg, hn⟩ | hts | ⟨hts, herr⟩
  · simp only [Prod.mk.injEq] at hts
    obtain ⟨ht, hst⟩ := hts
    subst ht hst
    have hd : sq.digital = t'.digital := by rw [hsq, hdg]
    simp only [hd, bne_self_eq_false, Bool.false_eq_true, if_false]
    obtain ⟨c1, c2, c3⟩ := copyInto_wf m.kp sq t' hwf hd
    refine ⟨n1, n2, n3, by show 0 ≤ h'.idx + 1; omega, Or.inl ⟨trivial, ⟨c1.name, c1.desc, ?_, rfl, ⟨rfl, rfl, rfl, rfl⟩, ?_⟩⟩⟩
    · have := c1.room
      show (if (copyInto sq t').digital then 2 else 1) ≤ (copyInto sq t').salloc
      simp only [] at this
      split at this <;> simp_all <;> omega
    · show 0 ≤ (copyInto sq t').L
      have : (copyInto sq t').L = t'.L := by unfold copyInto; rfl
      rw [this, hwf.l]; omega
  · simp only [Prod.mk.injEq] at hts
    obtain ⟨ht, hst⟩ := hts
    subst ht hst
    exact ⟨n1, n2, n3, n5, Or.inr (Or.inl rfl)⟩
  · simp only [Prod.mk.injEq] at hts
    obtain ⟨ht, hst⟩ := hts
    subst ht hst
    exact ⟨n1, n2, n3, n5, Or.inr (Or.inr ⟨rfl, herr⟩)⟩

/-- right after `esl_sqfile_Open` the invariant holds (no alignment loaded yet, `idx = 0`) -/
theorem openMsa_inv (file : Bytes) (fname : LBytes) (fsel : FmtSel) (abc : Nat) (h : MsaH)
    (ho : (openMsa file fname fsel abc).1 = some h) : Inv h ∧ h.idx = 0 ∧ h.exc = false ∧ h.o.abc = abcTypeOf abc := by
  unfold openMsa at ho
  simp only [] at ho
  split at ho <;> simp only [Option.some.injEq, reduceCtorEq] at ho
  subst ho
  refine ⟨?_, rfl, rfl, rfl⟩
  intro m hm
  simp at hm

/-- **opening is total**: `eslOK` or `eslEFORMAT`, never a fault (C01: `openModel_no_fault`) -/
theorem openMsa_total (file : Bytes) (fname : LBytes) (fsel : FmtSel) (abc : Nat) :
    ((openMsa file fname fsel abc).2 = .ok ∧ (openMsa file fname fsel abc).1.isSome = true) ∨
    ((openMsa file fname fsel abc).2 = .eformat ∧ (openMsa file fname fsel abc).1 = none) := by
  have hnf := openModel_no_fault fsel .text (some fname) (splitLines file.toList)
  unfold openMsa
  simp only []
  split
  · exact Or.inl ⟨rfl, rfl⟩
  · exact Or.inr ⟨rfl, rfl⟩
  · exact Or.inr ⟨rfl, rfl⟩
  · rename_i hf
    exact absurd hf hnf

/-! ## window coordinates of the alignment branch of `sqascii_ReadWindow` -/

/-- the caller's `ESL_SQ` between forward windows over a row of `L` residues: fresh (`esl_sq_Reuse`, or after `eslEOD`), or holding
    residues `start..end` -/
def FwdState (n0 start0 end0 L : Int) : Prop :=
  (start0 = 0 ∧ end0 = 0 ∧ n0 = 0) ∨ (1 ≤ start0 ∧ start0 ≤ end0 ∧ end0 ≤ L ∧ n0 = end0 - start0 + 1)

/-- … between reverse-strand windows (after `esl_sq_ReverseComplement` swapped them: `start ≥ end`) -/
def RevState (n0 start0 end0 L : Int) : Prop :=
  (start0 = 0 ∧ end0 = 0 ∧ n0 = 0) ∨ (1 ≤ end0 ∧ end0 ≤ start0 ∧ start0 ≤ L ∧ n0 = start0 - end0 + 1)

/-- **forward windows over an alignment row**: context `0 ≤ C' ≤ C` taken from the previous window, `0 ≤ W' ≤ W` new residues
    `end0+1 .. end`, `n = C' + W'`, the slice `start..end` lies inside the row, `W' = 0` (the `eslEOD` case) exactly when the
    previous window ended at `L`; the state after a window is again a forward state -/
theorem fwdCoords_spec (n0 start0 end0 L C W : Int) (hL : 0 ≤ L) (hC : 0 ≤ C) (hW : 1 ≤ W) (hs : FwdState n0 start0 end0 L) :
    0 ≤ (fwdCoords n0 end0 L C W).1 ∧ (fwdCoords n0 end0 L C W).1 ≤ C ∧
    (fwdCoords n0 end0 L C W).2.1 + (fwdCoords n0 end0 L C W).1 = end0 + 1 ∧
    (fwdCoords n0 end0 L C W).2.2.2.1 = (fwdCoords n0 end0 L C W).1 + (fwdCoords n0 end0 L C W).2.2.2.2 ∧
    0 ≤ (fwdCoords n0 end0 L C W).2.2.2.2 ∧ (fwdCoords n0 end0 L C W).2.2.2.2 ≤ W ∧
    ((fwdCoords n0 end0 L C W).2.2.2.2 = 0 ↔ end0 = L) ∧
    1 ≤ (fwdCoords n0 end0 L C W).2.1 ∧
    (fwdCoords n0 end0 L C W).2.1 + (fwdCoords n0 end0 L C W).2.2.2.1 = (fwdCoords n0 end0 L C W).2.2.1 + 1 ∧
    (fwdCoords n0 end0 L C W).2.2.1 ≤ L ∧
    (fwdCoords n0 end0 L C W).2.2.1 = end0 + (fwdCoords n0 end0 L C W).2.2.2.2 ∧
    ((fwdCoords n0 end0 L C W).2.2.2.2 ≠ 0 →
      FwdState (fwdCoords n0 end0 L C W).2.2.2.1 (fwdCoords n0 end0 L C W).2.1 (fwdCoords n0 end0 L C W).2.2.1 L) := by
  simp only [fwdCoords, FwdState] at *
  rcases Int.le_total n0 C with h1 | h1
  · rw [Int.min_eq_left h1]
    rcases Int.le_total L (end0 + W) with h2 | h2
    · rw [Int.min_eq_left h2]; refine ⟨?_, ?_, ?_, ?_, ?_, ?_, ?_, ?_, ?_, ?_, ?_, ?_⟩ <;> first | omega | trivial | (intro _; trivial) | (simp <;> omega) | (intro hw; right; refine ⟨?_, ?_, ?_, ?_⟩ <;> first | trivial | omega)
    · rw [Int.min_eq_right h2]; refine ⟨?_, ?_, ?_, ?_, ?_, ?_, ?_, ?_, ?_, ?_, ?_, ?_⟩ <;> first | omega | trivial | (intro _; trivial) | (simp <;> omega) | (intro hw; right; refine ⟨?_, ?_, ?_, ?_⟩ <;> first | trivial | omega)
  · rw [Int.min_eq_right h1]
    rcases Int.le_total L (end0 + W) with h2 | h2
    · rw [Int.min_eq_left h2]; refine ⟨?_, ?_, ?_, ?_, ?_, ?_, ?_, ?_, ?_, ?_, ?_, ?_⟩ <;> first | omega | trivial | (intro _; trivial) | (simp <;> omega) | (intro hw; right; refine ⟨?_, ?_, ?_, ?_⟩ <;> first | trivial | omega)
    · rw [Int.min_eq_right h2]; refine ⟨?_, ?_, ?_, ?_, ?_, ?_, ?_, ?_, ?_, ?_, ?_, ?_⟩ <;> first | omega | trivial | (intro _; trivial) | (simp <;> omega) | (intro hw; right; refine ⟨?_, ?_, ?_, ?_⟩ <;> first | trivial | omega)

/-- **reverse-strand windows over an alignment row, as repaired (46b16f4)**: context `0 ≤ C' ≤ C` from the previous window, `0 ≤ W' ≤ |W|`
    new residues going down from `end0 - 1` (from `L` on the first window), `n = C' + W'`, the slice `start..end` inside `1..L`,
    `W' = 0` (the `eslEOD` case) exactly when the strand is finished (the previous window reached residue 1, or the row is empty);
    after the swap done by `esl_sq_ReverseComplement` the state is again a reverse state -/
theorem revCoords_spec (n0 start0 end0 L C W : Int) (hL : 0 ≤ L) (hC : 0 ≤ C) (hW : W ≤ -1) (hs : RevState n0 start0 end0 L) :
    0 ≤ (revCoords n0 start0 end0 L C W).1 ∧ (revCoords n0 start0 end0 L C W).1 ≤ C ∧
    (start0 = 0 → (revCoords n0 start0 end0 L C W).2.2.1 = L) ∧
    (start0 ≠ 0 → (revCoords n0 start0 end0 L C W).2.2.1 - (revCoords n0 start0 end0 L C W).1 = end0 - 1) ∧
    (revCoords n0 start0 end0 L C W).2.2.2.1 = (revCoords n0 start0 end0 L C W).1 + (revCoords n0 start0 end0 L C W).2.2.2.2 ∧
    0 ≤ (revCoords n0 start0 end0 L C W).2.2.2.2 ∧ (revCoords n0 start0 end0 L C W).2.2.2.2 ≤ -W ∧
    ((revCoords n0 start0 end0 L C W).2.2.2.2 = 0 ↔ (start0 = 0 ∧ L = 0) ∨ (start0 ≠ 0 ∧ end0 = 1)) ∧
    1 ≤ (revCoords n0 start0 end0 L C W).2.1 ∧
    (revCoords n0 start0 end0 L C W).2.1 + (revCoords n0 start0 end0 L C W).2.2.2.1 = (revCoords n0 start0 end0 L C W).2.2.1 + 1 ∧
    (revCoords n0 start0 end0 L C W).2.2.1 ≤ L ∧
    ((revCoords n0 start0 end0 L C W).2.2.2.2 ≠ 0 →
      RevState (revCoords n0 start0 end0 L C W).2.2.2.1 (revCoords n0 start0 end0 L C W).2.2.1 (revCoords n0 start0 end0 L C W).2.1 L) := by
  simp only [revCoords, RevState] at *
  by_cases h0 : start0 = 0
  · have hn : n0 = 0 := by omega
    subst h0 hn
    have hmin : min 0 C = 0 := Int.min_eq_left hC
    simp only [hmin, beq_self_eq_true, if_true]
    rcases Int.le_total 1 (L + W - 0 + 1) with h2 | h2
    · rw [Int.max_eq_right h2]; refine ⟨?_, ?_, ?_, ?_, ?_, ?_, ?_, ?_, ?_, ?_, ?_, ?_⟩ <;> first | omega | trivial | (intro _; trivial) | (simp <;> omega) | (intro hw; right; refine ⟨?_, ?_, ?_, ?_⟩ <;> first | trivial | omega)
    · rw [Int.max_eq_left h2]; refine ⟨?_, ?_, ?_, ?_, ?_, ?_, ?_, ?_, ?_, ?_, ?_, ?_⟩ <;> first | omega | trivial | (intro _; trivial) | (simp <;> omega) | (intro hw; right; refine ⟨?_, ?_, ?_, ?_⟩ <;> first | trivial | omega)
  · have hb : (start0 == 0) = false := by simpa using h0
    simp only [hb, Bool.false_eq_true, if_false]
    rcases Int.le_total n0 C with h1 | h1
    · rw [Int.min_eq_left h1]
      rcases Int.le_total 1 (end0 + n0 - 1 + W - n0 + 1) with h2 | h2
      · rw [Int.max_eq_right h2]; refine ⟨?_, ?_, ?_, ?_, ?_, ?_, ?_, ?_, ?_, ?_, ?_, ?_⟩ <;> first | omega | trivial | (intro _; trivial) | (simp <;> omega) | (intro hw; right; refine ⟨?_, ?_, ?_, ?_⟩ <;> first | trivial | omega)
      · rw [Int.max_eq_left h2]; refine ⟨?_, ?_, ?_, ?_, ?_, ?_, ?_, ?_, ?_, ?_, ?_, ?_⟩ <;> first | omega | trivial | (intro _; trivial) | (simp <;> omega) | (intro hw; right; refine ⟨?_, ?_, ?_, ?_⟩ <;> first | trivial | omega)
    · rw [Int.min_eq_right h1]
      rcases Int.le_total 1 (end0 + C - 1 + W - C + 1) with h2 | h2
      · rw [Int.max_eq_right h2]; refine ⟨?_, ?_, ?_, ?_, ?_, ?_, ?_, ?_, ?_, ?_, ?_, ?_⟩ <;> first | omega | trivial | (intro _; trivial) | (simp <;> omega) | (intro hw; right; refine ⟨?_, ?_, ?_, ?_⟩ <;> first | trivial | omega)
      · rw [Int.max_eq_left h2]; refine ⟨?_, ?_, ?_, ?_, ?_, ?_, ?_, ?_, ?_, ?_, ?_, ?_⟩ <;> first | omega | trivial | (intro _; trivial) | (simp <;> omega) | (intro hw; right; refine ⟨?_, ?_, ?_, ?_⟩ <;> first | trivial | omega)

/-- the arithmetic before the repair, at the witness of the retired finding (fresh state after `eslEOD`, `L = 10`, `C = 0`,
    `W = -3`): context `-1`, `n = 4`, `5` new residues -/
theorem revCoordsOld_illformed : revCoordsOld 0 0 0 10 0 (-3) = (-1, 7, 10, 4, 5) := by decide

/-- … where the repaired arithmetic gives residues `8..10`: no context, 3 new residues -/
theorem revCoords_witness : revCoords 0 0 0 10 0 (-3) = (0, 8, 10, 3, 3) := by decide

end EaselModel.Sqio.MsaSeq
