import EaselModel.Sqio.Model
/-! # Read and ReadInfo scan the data identically (C04)

`sqascii_Read` / `sqascii_ReadSequence` (store = true) and `sqascii_ReadInfo` (store = false) run the same
`do { seebuf; [GrowTo; addbuf;] L += n; eoff = …; } while (loadbuf == OK)` loop. The two facts that make them agree are proved
here for every handle: storing residues (`addbuf`) changes nothing of the handle but `bpos`, and the next `loadbuf` does not
look at `bpos` (block mode). The loop-level corollary (same status, `epos`, `L`, end offset) is NOT proved (term size); it is
tied by the differential run and the agreement monitor. -/
namespace EaselModel.Sqio.Agree

/-- the handle with `bpos` forgotten -/
def core (a : Ascii) : Ascii := { a with bpos := 0 }

theorem loadmem_bpos (a : Ascii) (b : Nat) :
    loadmem { a with bpos := b } = ({ (loadmem a).1 with bpos := b }, (loadmem a).2) := by
  unfold loadmem
  by_cases h : (a.recording == 1) = true
  · simp only [h, if_true]
    by_cases h2 : a.memValid = true <;> simp [h2]
  · simp only [h]
    rfl

/-- the block-mode branch of `loadbuf` -/
def loadbufBlock (a : Ascii) : Ascii × Status :=
  let a := if a.mpos ≥ a.mn then (loadmem a).1 else a
  let nc := a.mn - a.mpos
  let a := { a with boff := a.moff + a.mpos, bpos := 0, nc := nc, mpos := a.mpos + nc }
  (a, if nc == 0 then .eof else .ok)

theorem loadbuf_eq_block (a : Ascii) (hb : a.linebased = false) : loadbuf a = loadbufBlock a := by
  unfold loadbuf loadbufBlock
  rw [if_pos (by simp [hb])]

theorem loadmem_linebased (a : Ascii) : (loadmem a).1.linebased = a.linebased := by
  unfold loadmem
  by_cases h1 : (a.recording == 1) = true
  · simp only [h1, if_true]; by_cases h2 : a.memValid = true <;> simp [h2]
  · simp only [h1]; rfl

theorem loadbufBlock_bpos (a : Ascii) (b : Nat) : loadbufBlock { a with bpos := b } = loadbufBlock a := by
  unfold loadbufBlock
  by_cases h : a.mpos ≥ a.mn
  · have h' : ({ a with bpos := b } : Ascii).mpos ≥ ({ a with bpos := b } : Ascii).mn := h
    simp only [h, h', if_true, loadmem_bpos]
  · have h' : ¬ (({ a with bpos := b } : Ascii).mpos ≥ ({ a with bpos := b } : Ascii).mn) := h
    simp only [h, h', if_false]

/-- `loadbuf` does not look at `bpos` (block mode) -/
theorem loadbuf_bpos (a : Ascii) (b : Nat) (hb : a.linebased = false) : loadbuf { a with bpos := b } = loadbuf a := by
  rw [loadbuf_eq_block a hb, loadbuf_eq_block _ (show ({ a with bpos := b } : Ascii).linebased = false from hb), loadbufBlock_bpos]

theorem loadbuf_linebased (a : Ascii) (hb : a.linebased = false) : (loadbuf a).1.linebased = false := by
  rw [loadbuf_eq_block a hb]
  unfold loadbufBlock
  by_cases h : a.mpos ≥ a.mn
  · simp only [h, if_true]; show (loadmem a).1.linebased = false; rw [loadmem_linebased]; exact hb
  · simp only [h, if_false]; exact hb

theorem seebuf_linebased (a : Ascii) (m : Option Nat) : (seebuf a m).1.linebased = a.linebased := by
  cases m <;> (simp only [seebuf]; split <;> simp)

theorem addbuf_handle (a : Ascii) (sq : Sq) (n : Nat) : ∃ b, (addbuf a sq n).1 = { a with bpos := b } := by
  simp only [addbuf]
  exact ⟨_, rfl⟩

end EaselModel.Sqio.Agree
