import EaselModel.Sqio.WindowSpec
import EaselModel.Sqio.EchoSpec
import EaselModel.Sqio.Geometry
/-! # `sqascii_FetchSubseq` = a slice of the record the sequential scan yields, for every block size (C07 clause 3) -/
namespace EaselModel.Sqio.FetchSpec
open EaselModel.Sqio EaselModel.Sqio.Refine EaselModel.Sqio.Fold EaselModel.Sqio.DataScan EaselModel.Sqio.Cursor
open EaselModel.Sqio.BodySpec EaselModel.Sqio.HeaderSpec EaselModel.Sqio.ReadSpec EaselModel.Sqio.ParseFasta
open EaselModel.Sqio.WindowSpec

/-! ## the header of a record does not depend on the `ESL_SQ` it is parsed into, nor on leading white space -/

theorem drop_of_suffix {l L : List UInt8} (h : l <:+ L) : L.drop (L.length - l.length) = l := by
  obtain ⟨t, rfl⟩ := h
  have : (t ++ l).length - l.length = t.length := by simp
  rw [this, List.drop_left]

theorem isSpace_gt : isSpace chGt = false := by decide

theorem headerL_ok (N : Nat) (sq : Sq) (l : List UInt8) (h : (headerL N sq l).1 = .ok) :
    ∃ c l2, l.dropWhile isSpace = c :: l2 ∧ (headerL N sq l).2.1.roff = offOf N (c :: l2) ∧
      (headerL N sq l).2.1.doff = offOf N (headerL N sq l).2.2 ∧ (headerL N sq l).2.2 <:+ l2 ∧
      ∀ sq' : Sq, (headerL N sq' (c :: l2)).1 = .ok ∧ (headerL N sq' (c :: l2)).2.2 = (headerL N sq l).2.2 ∧
        (headerL N sq' (c :: l2)).2.1.desc = (headerL N sq l).2.1.desc ∧
        (headerL N sq' (c :: l2)).2.1.name = (headerL N sq l).2.1.name := by
  revert h
  unfold headerL
  split
  · intro k; cases k
  · rename_i c l2 hc
    split
    · intro k; cases k
    · rename_i hgt
      have hcgt : c = chGt := by simpa using hgt
      split
      · intro k; cases k
      · rename_i r hr
        intro _
        have hdw : (c :: l2).dropWhile isSpace = c :: l2 := by
          rw [hcgt, List.dropWhile_cons_of_neg (by rw [isSpace_gt]; simp)]
        unfold hfNameL at hr
        split at hr
        · cases hr
        · rename_i hne
          have := (Option.some.inj hr).symm
          subst this
          refine ⟨c, l2, hc, ?_, ?_, ?_, ?_⟩
          · simp [hfDescL, hfEndL]
          · simp [hfDescL, hfEndL]
          · simp only [hfDescL, hfEndL]
            exact (List.dropWhile_suffix _).trans ((List.dropWhile_suffix _).trans ((List.dropWhile_suffix _).trans
              ((List.dropWhile_suffix _).trans ((List.dropWhile_suffix _).trans (List.dropWhile_suffix _)))))
          · intro sq'
            rw [hdw]
            simp only [hgt, hfNameL, hne, Bool.false_eq_true, if_false]
            simp [hfDescL, hfEndL]

/-! ## the records of the scan, in terms of the file bytes -/

theorem headerL_suffix (N : Nat) (sq : Sq) (l : List UInt8) : (headerL N sq l).2.2 <:+ l := by
  by_cases h : (headerL N sq l).1 = .ok
  · obtain ⟨c, l2, h1, _, _, h4, _⟩ := headerL_ok N sq l h
    have : c :: l2 <:+ l := by rw [← h1]; exact List.dropWhile_suffix _
    exact h4.trans ((List.suffix_cons c l2).trans this)
  · revert h
    unfold headerL
    split
    · intro _; exact List.nil_suffix
    · rename_i c l2 hc
      have : c :: l2 <:+ l := by rw [← hc]; exact List.dropWhile_suffix _
      split
      · intro _; exact this
      · split
        · intro _; exact this
        · intro k; exact absurd rfl k

theorem recL_suffix (inmap : Bytes) (N : Nat) (sq : Sq) (l : List UInt8) : (recL inmap N sq l).2.2 <:+ l := by
  unfold recL
  split
  · exact List.nil_suffix
  · split
    · unfold bodyL
      split
      · exact List.nil_suffix
      · rename_i c t hr
        have : c :: t <:+ (headerL N sq l).2.2 := by rw [← hr]; exact List.dropWhile_suffix _
        split
        · exact this.trans (headerL_suffix N sq l)
        · exact this.trans (headerL_suffix N sq l)
    · exact headerL_suffix N sq l

theorem parseAllL_mem (inmap : Bytes) (N : Nat) (fuel : Nat) : ∀ (sq : Sq) (l : List UInt8) (s : Sq),
    s ∈ (parseAllL inmap N fuel sq l).1 →
    ∃ (sq' : Sq) (l' : List UInt8), l' <:+ l ∧ sq'.digital = sq.digital ∧ sq'.abc = sq.abc ∧ (recL inmap N sq'.reuse l').1 = .ok ∧
      s = (recL inmap N sq'.reuse l').2.1 := by
  induction fuel with
  | zero => intro sq l s hs; cases hs
  | succ fuel ih =>
    intro sq l s
    simp only [parseAllL]
    by_cases hok : (recL inmap N sq.reuse l).1 = .ok
    · have hb : ((recL inmap N sq.reuse l).1 == Status.ok) = true := by rw [hok]; rfl
      simp only [hb, if_true]
      intro hs
      rcases List.mem_cons.mp hs with e | e
      · exact ⟨sq, l, List.suffix_refl l, rfl, rfl, hok, e⟩
      · obtain ⟨sq', l', i1, i2, i3, i4, i5⟩ := ih _ _ s e
        obtain ⟨k1, k2, _, _⟩ := recL_keeps inmap N sq.reuse l hok
        exact ⟨sq', l', i1.trans (recL_suffix inmap N sq.reuse l), i2.trans k1, i3.trans k2, i4, i5⟩
    · have hb : ((recL inmap N sq.reuse l).1 == Status.ok) = false := by simpa using hok
      simp only [hb, Bool.false_eq_true, if_false]
      intro hs; cases hs

theorem bodyL_ok (inmap map : Bytes) (N : Nat) (sq : Sq) (l : List UInt8) (h : (bodyL inmap map N sq l).1 = .ok) :
    (bodyL inmap map N sq l).2.1.seq = sq.seq ++ resOf inmap map (l.takeWhile (isData inmap)) ∧
    (bodyL inmap map N sq l).2.1.L = ((bodyL inmap map N sq l).2.1.seq.size : Int) ∧
    (bodyL inmap map N sq l).2.1.roff = sq.roff ∧ (bodyL inmap map N sq l).2.1.doff = sq.doff ∧
    (bodyL inmap map N sq l).2.1.desc = sq.desc ∧ (bodyL inmap map N sq l).2.1.name = sq.name ∧ Clean inmap l := by
  revert h
  unfold bodyL
  split
  · rename_i hr
    intro _
    refine ⟨by simp [Sq.setWhole, stored], by simp [Sq.setWhole, stored, Sq.n], by simp [Sq.setWhole, stored],
      by simp [Sq.setWhole, stored], by simp [Sq.setWhole, stored], by simp [Sq.setWhole, stored], ?_⟩
    intro c t hc; rw [hr] at hc; cases hc
  · rename_i c t hr
    split
    · rename_i he
      intro _
      refine ⟨by simp [Sq.setWhole, stored], by simp [Sq.setWhole, stored, Sq.n], by simp [Sq.setWhole, stored],
        by simp [Sq.setWhole, stored], by simp [Sq.setWhole, stored], by simp [Sq.setWhole, stored], ?_⟩
      intro c' t' hc; rw [hr] at hc
      have := (List.cons.inj hc).1
      subst this; exact he
    · intro k; cases k

/-- **a record of the sequential scan, in terms of the file bytes**: its `roff` is the offset of a `>` at which `header_fasta`
    succeeds (into whatever `ESL_SQ`) with the same name and description, its `doff` the offset of its data, its residues are
    those of the data bytes from `doff` on, and the data end at the end of the file or at an end-of-data byte -/
theorem record_shape (bytes : Bytes) (abc : Nat) (s : Sq) (hs : s ∈ (parseFasta abc bytes).1) :
    0 ≤ s.roff ∧ s.roff < (bytes.size : Int) ∧ 0 < s.doff ∧ s.doff ≤ (bytes.size : Int) ∧
    (∀ sq : Sq, (headerL bytes.size sq (bytes.toList.drop s.roff.toNat)).1 = .ok ∧
       (headerL bytes.size sq (bytes.toList.drop s.roff.toNat)).2.1.desc = s.desc ∧
       (headerL bytes.size sq (bytes.toList.drop s.roff.toNat)).2.1.name = s.name) ∧
    s.seq = resOf (inmapFasta abc) (mapFor (inmapFasta abc) (freshSq abc))
      ((bytes.toList.drop s.doff.toNat).takeWhile (isData (inmapFasta abc))) ∧
    s.L = (s.seq.size : Int) ∧ Clean (inmapFasta abc) (bytes.toList.drop s.doff.toNat) := by
  unfold parseFasta at hs
  obtain ⟨sq', l', suf, hd, ha, hok, hseq⟩ := parseAllL_mem (inmapFasta abc) bytes.size (bytes.size + 2) (freshSq abc) bytes.toList s hs
  have hmapeq : mapFor (inmapFasta abc) sq'.reuse = mapFor (inmapFasta abc) (freshSq abc) := by
    have e1 : sq'.reuse.digital = sq'.digital := rfl
    have e2 : sq'.reuse.abc = sq'.abc := rfl
    simp only [mapFor, e1, e2, hd, ha]
  have hrs : sq'.reuse.seq = #[] := rfl
  revert hok hseq
  unfold recL
  split
  · intro k; cases k
  · split
    · rename_i hhok
      have hhok' : (headerL bytes.size sq'.reuse l').1 = .ok := eq_of_beq hhok
      obtain ⟨c, l2, h1, h2, h3, h4, h5⟩ := headerL_ok bytes.size sq'.reuse l' hhok'
      obtain ⟨_, _, k3, _, _⟩ := headerL_keeps bytes.size sq'.reuse l'
      rw [hmapeq]
      generalize headerL bytes.size sq'.reuse l' = H at h2 h3 h4 h5 k3 ⊢
      obtain ⟨hst, hsq, l6⟩ := H
      simp only at h2 h3 h4 h5 k3 ⊢
      intro hbok hseq
      obtain ⟨b1, b2, b3, b4, b5, b6, b7⟩ := bodyL_ok _ _ _ _ _ hbok
      rw [← hseq] at b1 b2 b3 b4 b5 b6
      have sgt : c :: l2 <:+ bytes.toList := by
        have : c :: l2 <:+ l' := by rw [← h1]; exact List.dropWhile_suffix _
        exact this.trans suf
      have s6 : l6 <:+ bytes.toList := h4.trans ((List.suffix_cons c l2).trans sgt)
      have hN : bytes.toList.length = bytes.size := Array.length_toList
      have lgt := sgt.length_le
      have l6le := h4.length_le
      rw [hN] at lgt
      simp only [List.length_cons] at lgt
      have hroff : s.roff = ((bytes.size - (l2.length + 1) : Nat) : Int) := by rw [b3, h2]; simp [offOf]
      have hdoff : s.doff = ((bytes.size - l6.length : Nat) : Int) := by rw [b4, h3]; simp [offOf]
      have dgt : bytes.toList.drop s.roff.toNat = c :: l2 := by
        have := drop_of_suffix sgt
        rw [hN] at this
        rw [hroff]; simpa using this
      have d6 : bytes.toList.drop s.doff.toNat = l6 := by
        have := drop_of_suffix s6
        rw [hN] at this
        rw [hdoff]; simpa using this
      refine ⟨by omega, by omega, by omega, by omega, fun sq => ?_, ?_, b2, ?_⟩
      · rw [dgt]
        obtain ⟨g1, _, g3, g4⟩ := h5 sq
        exact ⟨g1, by rw [g3, b5], by rw [g4, b6]⟩
      · rw [d6, b1, k3, hrs]; simp
      · rw [d6]; exact b7
    · rename_i hne hnok
      intro h
      exact absurd (by rw [h]; rfl) hnok

/-! ## list arithmetic: the residues a window delivers -/

theorem splitRes_filter (inmap : Bytes) (l : List UInt8) : ∀ n,
    (splitRes inmap l n).1.filter (isRes inmap) = ((l.takeWhile (isData inmap)).filter (isRes inmap)).take n := by
  induction l with
  | nil => intro n; simp [splitRes]
  | cons c t ih =>
    intro n
    rcases splitRes_cons inmap c t n with ⟨h0, e⟩ | ⟨h0, hr, hd, e⟩ | ⟨h0, hr, hd, e⟩ | ⟨h0, hr, hd, e⟩
    · subst h0; rw [e]; simp
    · obtain ⟨m, rfl⟩ : ∃ m, n = m + 1 := ⟨n - 1, by omega⟩
      rw [e, List.takeWhile_cons_of_pos hd, List.filter_cons_of_pos hr, List.filter_cons_of_pos hr, List.take_succ_cons]
      simp only [Nat.add_sub_cancel, ih m]
    · have hr' : ¬ isRes inmap c = true := by simp [hr]
      rw [e, List.takeWhile_cons_of_pos hd, List.filter_cons_of_neg hr', List.filter_cons_of_neg hr']
      exact ih n
    · have hd' : ¬ isData inmap c = true := by simp [hd]
      rw [e, List.takeWhile_cons_of_neg hd']
      simp

theorem resOf_extract (inmap map : Bytes) (d : List UInt8) (i j : Nat) :
    (resOf inmap map d).extract i j =
      ((((d.filter (isRes inmap)).drop i).take (j - i)).map (fun c => map.getD c.toNat 0)).toArray := by
  simp [resOf, List.extract_toArray, List.extract_eq_take_drop, List.map_take, List.map_drop]

/-- seeking into the data at a point from which, after skipping `k` residues, the residues continue as those of `D` from index `p`:
    a window of `nres` residues taken there is the slice `p .. p + nres` of the residues of `D` -/
theorem window_slice (inmap map : Bytes) (lt D : List UInt8) (k p nres : Nat) (hn : 1 ≤ nres)
    (hland : ((lt.takeWhile (isData inmap)).filter (isRes inmap)).drop k = (D.filter (isRes inmap)).drop p)
    (hlen : p + nres ≤ (D.filter (isRes inmap)).length) :
    nresOf inmap (splitRes inmap lt (k + nres)).1 = k + nres ∧
    (resOf inmap map (splitRes inmap lt (k + nres)).1).extract k (nresOf inmap (splitRes inmap lt (k + nres)).1) =
      (resOf inmap map D).extract p (p + nres) := by
  have hl := congrArg List.length hland
  simp only [List.length_drop] at hl
  have hnr : nresOf inmap (splitRes inmap lt (k + nres)).1 = k + nres := by
    unfold nresOf
    rw [splitRes_filter, List.length_take]
    omega
  refine ⟨hnr, ?_⟩
  rw [hnr, resOf_extract, resOf_extract, splitRes_filter, List.drop_take, hland]
  have e1 : k + nres - k = nres := by omega
  have e2 : p + nres - p = nres := by omega
  rw [e1, e2, List.take_take, Nat.min_self]

/-! ## `sqascii_Position` inside the file -/

theorem position_full (a : Ascii) (off : Nat) (hb : a.linebased = false) (hr : a.recording ≠ 1) (hB : 1 ≤ a.B)
    (hoff : off < a.file.size) :
    (position a off).2 = .ok ∧ Cur (position a off).1 ∧ Sim.Live (position a off).1 ∧
    fileFrom (position a off).1 = a.file.toList.drop off ∧ stat (position a off).1 = stat a ∧
    (position a off).1.B = a.B := by
  obtain ⟨hwf, hbp, hfile, hB', hboff, hst, hnc⟩ := EchoSpec.position_spec a off hb hr hB hoff
  have hpre : Pre { a with fpos := off, trk := a.trk.reset, linenumber := if off == 0 then 1 else -1, L := -1, mpos := a.mn } :=
    ⟨hb, hr, hB, Nat.le_refl _, Nat.le_of_lt hoff⟩
  have hrest : (position a off).1.trk = a.trk.reset ∧ stat (position a off).1 = stat a := by
    show (loadbuf _).1.trk = _ ∧ stat (loadbuf _).1 = _
    rw [loadbuf_block _ hpre.block hpre.norec hpre.full]
    exact ⟨rfl, rfl⟩
  have hlive : Sim.Live (position a off).1 := by unfold Sim.Live; omega
  have htok : Track.Ok (position a off).1.trk := by
    rw [hrest.1]; exact Track.Ok.of_inactive _ (by simp [Track.reset]) (by simp [Track.reset]) (Or.inl (by simp [Track.reset]))
  refine ⟨hst, ⟨hwf, Or.inl hlive, htok⟩, hlive, ?_, hrest.2, hB'⟩
  unfold fileFrom
  rw [hfile]
  congr 1
  simp only [pos, hboff, hbp]
  omega

/-! ## `sqascii_FetchSubseq`, unfolded along its successful path -/

theorem fetchSubseq_unfold (a : Ascii) (ssi : Ssi) (sq : Sq) (source : Bytes) (start end_ roff doff len actualStart : Int)
    (hfs : findSubseq ssi source start = .ok (roff, doff, len, actualStart))
    (he0 : end_ ≠ 0) (hse : start ≤ end_) (hlen : end_ ≤ len) (hlen0 : 0 < len) (hr0 : 0 ≤ roff)
    (a1 : Ascii) (hp1 : position a roff.toNat = (a1, .ok)) (a2 : Ascii) (sq1 : Sq) (hh : parseHeader a1 sq = (a2, sq1, .ok))
    (hd0 : doff ≠ 0) (a3 : Ascii) (hp3 : position a2 doff.toNat = (a3, .ok))
    (a4 : Ascii) (sq4 : Sq) (n : Nat)
    (hrn : readNres a3 (sq1.growTo (end_ - start + 1).toNat) (start - actualStart).toNat (end_ - start + 1).toNat = (a4, sq4, .ok, n))
    (hn : ¬ (n : Int) < end_ - start + 1) :
    fetchSubseq a ssi sq source start end_ =
      (a4, { sq4 with start := start, end_ := end_, C := 0, W := sq4.n, L := len,
                      name := source ++ #[47] ++ decBytes start ++ #[45] ++ decBytes end_, source := source }, .ok) := by
  have e1 : (Status.ok != Status.ok) = false := by decide
  have e2 : (Status.ok == Status.eof) = false := by decide
  have e3 : (Status.ok == Status.fault) = false := by decide
  have e4 : (Status.ok == Status.eformat) = false := by decide
  have h1 : (end_ == 0) = false := by simpa using he0
  have h2 : ¬ start > end_ := by omega
  have h3 : ¬ end_ > len := by omega
  have h4 : ¬ roff < 0 := by omega
  have h5 : (doff != 0) = true := by simpa using hd0
  unfold fetchSubseq
  simp only [hfs, h1, h2, h3, h4, h5, hp1, hh, hp3, hrn, hn, hlen0, e1, e2, e3, e4, Bool.false_eq_true, if_false, if_true,
    decide_false, decide_true, Bool.and_false, Bool.or_false]

/-! ## Stage 1: the generic composition -/

/-- **`sqascii_FetchSubseq` = a slice of the scanned record, whenever the index lands.** `s` is a record of the sequential scan of
    the file; `findSubseq` returns the record's `roff`, its length, and some data offset `doff'` / `actualStart`. LANDING hypothesis:
    `doff'` lies inside the record's data (`pre` = the data bytes between `s.doff` and `doff'`), and from `doff'` on, after skipping
    `start - actualStart` residues, the residues continue as the record's residues from index `start - 1`. Then, for every block
    size, on any block-mode handle on the file, the fetch returns `eslOK` and residues `start..end_` of the record, with the
    coordinates, length, description, source and name `esl-sfetch` reports. -/
theorem fetchSubseq_of_lands (bytes : Bytes) (abc : Nat) (habc : abc ∈ [0, 1, 2, 3]) (s : Sq) (hs : s ∈ (parseFasta abc bytes).1)
    (ssi : Ssi) (key : Bytes) (start end_ doff' actualStart : Int)
    (hfs : findSubseq ssi key start = .ok (s.roff, doff', s.L, actualStart))
    (a : Ascii) (hf : a.file = bytes) (hb : a.linebased = false) (hr : a.recording ≠ 1) (hB : 1 ≤ a.B)
    (hi : a.inmap = inmapFasta abc) (hfmt : a.fmt = 1) (heof : a.eofIsOk = true)
    (sq : Sq) (hdig : sq.digital = (abc != 0)) (hsabc : sq.abc = abc) (hseq : sq.seq = #[]) (hna : 2 ≤ sq.nalloc) (hda : 2 ≤ sq.dalloc)
    (h1 : 1 ≤ start) (h2 : start ≤ end_) (h3 : end_ ≤ s.L) (hd0 : 0 < doff')
    (pre : List UInt8) (hpre : ∀ c ∈ pre, isData (inmapFasta abc) c = true)
    (hin : bytes.toList.drop s.doff.toNat = pre ++ bytes.toList.drop doff'.toNat)
    (hland : (((bytes.toList.drop doff'.toNat).takeWhile (isData (inmapFasta abc))).filter (isRes (inmapFasta abc))).drop
        (start - actualStart).toNat =
      (((bytes.toList.drop s.doff.toNat).takeWhile (isData (inmapFasta abc))).filter (isRes (inmapFasta abc))).drop (start - 1).toNat) :
    (fetchSubseq a ssi sq key start end_).2.2 = .ok ∧
    (fetchSubseq a ssi sq key start end_).2.1.seq = s.seq.extract (start - 1).toNat end_.toNat ∧
    (fetchSubseq a ssi sq key start end_).2.1.start = start ∧ (fetchSubseq a ssi sq key start end_).2.1.end_ = end_ ∧
    (fetchSubseq a ssi sq key start end_).2.1.L = s.L ∧ (fetchSubseq a ssi sq key start end_).2.1.desc = s.desc ∧
    (fetchSubseq a ssi sq key start end_).2.1.source = key ∧
    (fetchSubseq a ssi sq key start end_).2.1.name = key ++ #[47] ++ decBytes start ++ #[45] ++ decBytes end_ := by
  subst hf
  obtain ⟨r1, r2, r3, r4, r5, r6, r7, r8⟩ := record_shape a.file abc s hs
  have hmsz : (inmapFasta abc).size = 128 := (tables_fasta abc habc).1
  -- sizes
  have hsz : s.seq.size = (((a.file.toList.drop s.doff.toNat).takeWhile (isData (inmapFasta abc))).filter (isRes (inmapFasta abc))).length := by
    rw [r6, resOf_size]
  have hL : s.L = ((((a.file.toList.drop s.doff.toNat).takeWhile (isData (inmapFasta abc))).filter (isRes (inmapFasta abc))).length : Int) := by
    rw [r7, hsz]
  -- the seek position is inside the file
  have hdlt : doff'.toNat < a.file.size := by
    have hl := congrArg List.length hland
    simp only [List.length_drop] at hl
    by_cases k : doff'.toNat < a.file.size
    · exact k
    · exfalso
      have : a.file.toList.drop doff'.toNat = [] := List.drop_eq_nil_of_le (by simp; omega)
      rw [this] at hl
      simp at hl
      omega
  -- Position(roff)
  obtain ⟨p1, p2, p3, p4, p5, p6⟩ := position_full a s.roff.toNat hb hr hB (by omega)
  generalize hP1 : position a s.roff.toNat = P1 at p1 p2 p3 p4 p5 p6
  obtain ⟨a1, st1⟩ := P1
  simp only at p1 p2 p3 p4 p5 p6
  subst p1
  have hfile1 : a1.file = a.file := stat_file p5
  -- header
  obtain ⟨q1, q2, _, _⟩ := headerFasta_spec a1 sq p2 p3 hna hda
  rw [p4, hfile1] at q1 q2
  obtain ⟨g1, g2, _⟩ := r5 sq
  obtain ⟨c1, _, c3⟩ := q2 g1
  obtain ⟨k1, k2, k3, k4, _⟩ := headerL_keeps a.file.size sq (a.file.toList.drop s.roff.toNat)
  have hph : parseHeader a1 sq = ((headerFasta a1 sq).1, (headerL a.file.size sq (a.file.toList.drop s.roff.toNat)).2.1, .ok) := by
    rw [parseHeader_fasta a1 sq ((stat_fmt p5).trans hfmt)]
    have : headerFasta a1 sq = ((headerFasta a1 sq).1, (headerFasta a1 sq).2) := rfl
    rw [this, q1, g1]
  generalize (headerL a.file.size sq (a.file.toList.drop s.roff.toNat)).2.1 = sq1 at hph g2 k1 k2 k3 k4
  generalize headerFasta a1 sq = HF at hph c1 c3
  obtain ⟨a2, hf2⟩ := HF
  simp only at hph c1 c3
  have hst2 : stat a2 = stat a := c3.trans p5
  -- Position(doff')
  obtain ⟨t1, t2, t3, t4, t5, t6⟩ := position_full a2 doff'.toNat c1.wf.block c1.wf.norec c1.wf.bpos1
    (by rw [stat_file hst2]; exact hdlt)
  generalize hP3 : position a2 doff'.toNat = P3 at t1 t2 t3 t4 t5 t6
  obtain ⟨a3, st3⟩ := P3
  simp only at t1 t2 t3 t4 t5 t6
  subst t1
  have hst3 : stat a3 = stat a := t5.trans hst2
  have hi3 : a3.inmap = inmapFasta abc := (stat_inmap hst3).trans hi
  rw [stat_file hst2] at t4
  -- the window
  have hnres1 : 1 ≤ (end_ - start + 1).toNat := by omega
  obtain ⟨w1, w2⟩ := window_slice (inmapFasta abc) (mapFor (inmapFasta abc) (freshSq abc)) (a.file.toList.drop doff'.toNat)
    ((a.file.toList.drop s.doff.toNat).takeWhile (isData (inmapFasta abc))) (start - actualStart).toNat (start - 1).toNat
    (end_ - start + 1).toNat hnres1 hland (by omega)
  have hgrow := growTo_eq sq1 (end_ - start + 1).toNat
  have hmapg : mapOf a3 (sq1.growTo (end_ - start + 1).toNat) = mapFor (inmapFasta abc) (freshSq abc) := by
    rw [hgrow]
    simp only [mapOf, mapFor, hi3, k1, k2, hdig, hsabc, freshSq]
    first | rfl | congr 1
  have hclean3 : Clean a3.inmap (fileFrom a3) := by
    rw [hi3, t4]
    exact Clean_of_data_append _ pre _ hpre (by rw [← hin]; exact r8)
  obtain ⟨z1, z2, z3, _⟩ := readNres_spec a3 (sq1.growTo (end_ - start + 1).toNat) (start - actualStart).toNat
    (end_ - start + 1).toNat t2.wf t2.tok (by rw [hi3]; exact hmsz) ((stat_eofIsOk hst3).trans heof)
    (by rw [hmapg, hi3]; exact mapOk_fasta abc habc) hclean3
    (by rw [hgrow]; simp only [k3, hseq]; simp; omega)
    (by rw [hi3, t4, w1]; omega)
  simp only [hi3, t4, hmapg] at z1 z2 z3
  rw [w2] at z3
  rw [w1] at z2
  have hrn : readNres a3 (sq1.growTo (end_ - start + 1).toNat) (start - actualStart).toNat (end_ - start + 1).toNat =
      ((readNres a3 (sq1.growTo (end_ - start + 1).toNat) (start - actualStart).toNat (end_ - start + 1).toNat).1,
       { sq1.growTo (end_ - start + 1).toNat with
           seq := (sq1.growTo (end_ - start + 1).toNat).seq ++
             (resOf (inmapFasta abc) (mapFor (inmapFasta abc) (freshSq abc))
               ((a.file.toList.drop s.doff.toNat).takeWhile (isData (inmapFasta abc)))).extract (start - 1).toNat
                 ((start - 1).toNat + (end_ - start + 1).toNat) },
       .ok, (start - actualStart).toNat + (end_ - start + 1).toNat - (start - actualStart).toNat) := by
    rw [← z1, ← z2, ← z3]
  rw [fetchSubseq_unfold a ssi sq key start end_ s.roff doff' s.L actualStart hfs (by omega) h2 h3 (by omega) r1 a1 hP1 a2 sq1 hph
    (by omega) a3 hP3 _ _ _ hrn (by omega)]
  have hend : (start - 1).toNat + (end_ - start + 1).toNat = end_.toNat := by omega
  refine ⟨rfl, ?_, rfl, rfl, rfl, ?_, rfl, rfl⟩
  · show (sq1.growTo (end_ - start + 1).toNat).seq ++ _ = _
    rw [hgrow]
    show sq1.seq ++ _ = _
    rw [k3, hseq, hend, ← r6]
    simp
  · show (sq1.growTo (end_ - start + 1).toNat).desc = s.desc
    rw [hgrow]; exact g2

/-! ## Stage 2: discharging the landing hypothesis -/

theorem findSubseq_brute (ssi : Ssi) (key : Bytes) (start : Int) (e : SsiEntry) (he : ssi.findName key = some e)
    (hfast : ssi.fast = false) (h1 : 1 ≤ start) (h2 : start ≤ e.len) :
    findSubseq ssi key start = .ok (e.roff, e.doff, e.len, 1) := by
  have c1 : (decide (start < 1) || decide (start > e.len)) = false := by
    have a1 : ¬ start < 1 := by omega
    have a2 : ¬ start > e.len := by omega
    simp [a1, a2]
  simp [findSubseq, he, c1, hfast]

theorem findSubseq_line (ssi : Ssi) (key : Bytes) (start : Int) (e : SsiEntry) (he : ssi.findName key = some e)
    (hfast : ssi.fast = true) (hd : e.doff ≠ 0) (hr : ssi.rpl ≠ 0) (hb : ssi.bpl ≠ 0) (hne : ssi.bpl ≠ ssi.rpl + 1)
    (h1 : 1 ≤ start) (h2 : start ≤ e.len) :
    findSubseq ssi key start =
      .ok (e.roff, e.doff + (start - 1) / ssi.rpl * ssi.bpl, e.len, 1 + (start - 1) / ssi.rpl * ssi.rpl) := by
  have c1 : (decide (start < 1) || decide (start > e.len)) = false := by
    have a1 : ¬ start < 1 := by omega
    have a2 : ¬ start > e.len := by omega
    simp [a1, a2]
  simp [findSubseq, he, c1, hfast, hd, hr, hb, hne]

theorem findSubseq_residue (ssi : Ssi) (key : Bytes) (start : Int) (e : SsiEntry) (he : ssi.findName key = some e)
    (hfast : ssi.fast = true) (hd : e.doff ≠ 0) (hr : ssi.rpl ≠ 0) (hb0 : ssi.bpl ≠ 0) (hb : ssi.bpl = ssi.rpl + 1)
    (h1 : 1 ≤ start) (h2 : start ≤ e.len) :
    findSubseq ssi key start =
      .ok (e.roff, e.doff + (start - 1) / ssi.rpl * ssi.bpl + (start - 1) % ssi.rpl, e.len, start) := by
  have c1 : (decide (start < 1) || decide (start > e.len)) = false := by
    have a1 : ¬ start < 1 := by omega
    have a2 : ¬ start > e.len := by omega
    simp [a1, a2]
  have hb0' : ¬ ssi.rpl + 1 = 0 := by rw [← hb]; exact hb0
  simp [findSubseq, he, c1, hfast, hd, hr, hb0', hb]

/-- (a) **brute force** (no fast-subseq addressing in the index): unconditional -/
theorem fetchSubseq_eq_slice_brute (bytes : Bytes) (abc : Nat) (habc : abc ∈ [0, 1, 2, 3]) (s : Sq) (hs : s ∈ (parseFasta abc bytes).1)
    (ssi : Ssi) (key : Bytes) (e : SsiEntry) (he : ssi.findName key = some e) (her : e.roff = s.roff) (hed : e.doff = s.doff)
    (hel : e.len = s.L) (hfast : ssi.fast = false) (start end_ : Int)
    (a : Ascii) (hf : a.file = bytes) (hb : a.linebased = false) (hr : a.recording ≠ 1) (hB : 1 ≤ a.B)
    (hi : a.inmap = inmapFasta abc) (hfmt : a.fmt = 1) (heof : a.eofIsOk = true)
    (sq : Sq) (hdig : sq.digital = (abc != 0)) (hsabc : sq.abc = abc) (hseq : sq.seq = #[]) (hna : 2 ≤ sq.nalloc) (hda : 2 ≤ sq.dalloc)
    (h1 : 1 ≤ start) (h2 : start ≤ end_) (h3 : end_ ≤ s.L) :
    (fetchSubseq a ssi sq key start end_).2.2 = .ok ∧
    (fetchSubseq a ssi sq key start end_).2.1.seq = s.seq.extract (start - 1).toNat end_.toNat ∧
    (fetchSubseq a ssi sq key start end_).2.1.start = start ∧ (fetchSubseq a ssi sq key start end_).2.1.end_ = end_ ∧
    (fetchSubseq a ssi sq key start end_).2.1.L = s.L ∧ (fetchSubseq a ssi sq key start end_).2.1.desc = s.desc ∧
    (fetchSubseq a ssi sq key start end_).2.1.source = key ∧
    (fetchSubseq a ssi sq key start end_).2.1.name = key ++ #[47] ++ decBytes start ++ #[45] ++ decBytes end_ := by
  have hfs := findSubseq_brute ssi key start e he hfast h1 (by omega)
  rw [her, hed, hel] at hfs
  obtain ⟨_, _, r3, _⟩ := record_shape bytes abc s hs
  exact fetchSubseq_of_lands bytes abc habc s hs ssi key start end_ s.doff 1 hfs a hf hb hr hB hi hfmt heof sq hdig hsabc hseq hna hda
    h1 h2 h3 r3 [] (fun c hc => by cases hc) rfl rfl

theorem takeWhile_append_all (p : UInt8 → Bool) (x y : List UInt8) (h : ∀ c ∈ x, p c = true) :
    (x ++ y).takeWhile p = x ++ y.takeWhile p := by
  induction x with
  | nil => rfl
  | cons c t ih =>
    rw [List.cons_append, List.takeWhile_cons_of_pos (h c (by simp)), ih (fun z hz => h z (by simp [hz]))]
    rfl

/-- landing under line addressing, in the form `fetchSubseq_of_lands` wants (from `Geometry.FullLines`) -/
theorem land_line (inmap : Bytes) (lines : List (List UInt8)) (tail : List UInt8) (b r st : Nat)
    (hfull : Geometry.FullLines (isRes inmap) b r lines) (hdat : ∀ c ∈ lines.flatten, isData inmap c = true)
    (hl : lines.length = (st - 1) / r) :
    ((((lines.flatten ++ tail).drop (lines.length * b)).takeWhile (isData inmap)).filter (isRes inmap)).drop
        (st - (1 + lines.length * r)) =
      (((lines.flatten ++ tail).takeWhile (isData inmap)).filter (isRes inmap)).drop (st - 1) := by
  have hb := hfull.length_flatten
  have hr := hfull.count_flatten
  have hle : lines.length * r ≤ st - 1 := by rw [hl]; exact Nat.div_mul_le_self _ _
  rw [← hb, List.drop_left, takeWhile_append_all _ _ _ hdat, List.filter_append]
  have : st - 1 = (lines.flatten.filter (isRes inmap)).length + (st - (1 + lines.length * r)) := by rw [hr]; omega
  conv => rhs; rw [this, ← List.drop_drop, List.drop_left]

/-- landing under residue addressing -/
theorem land_residue (inmap : Bytes) (lines : List (List UInt8)) (res tail : List UInt8) (b r st : Nat)
    (hfull : Geometry.FullLines (isRes inmap) b r lines) (hdat : ∀ c ∈ lines.flatten, isData inmap c = true)
    (hres : ∀ c ∈ res, isRes inmap c = true) (hj : (st - 1) % r ≤ res.length) (hl : lines.length = (st - 1) / r) :
    ((((lines.flatten ++ (res ++ tail)).drop (lines.length * b + (st - 1) % r)).takeWhile (isData inmap)).filter (isRes inmap)).drop 0 =
      (((lines.flatten ++ (res ++ tail)).takeWhile (isData inmap)).filter (isRes inmap)).drop (st - 1) := by
  have hb := hfull.length_flatten
  have hr := hfull.count_flatten
  have hresd : ∀ c ∈ res, isData inmap c = true := fun c hc => isRes_isData inmap c (hres c hc)
  have hdm := Nat.div_add_mod (st - 1) r
  have hst : st - 1 = (lines.flatten.filter (isRes inmap)).length + (st - 1) % r := by
    rw [hr, hl, Nat.mul_comm]; omega
  rw [List.drop_zero, ← List.drop_drop, ← hb, List.drop_left, List.drop_append_of_le_length hj,
    takeWhile_append_all _ _ _ hdat, takeWhile_append_all _ _ _ hresd,
    takeWhile_append_all _ _ _ (fun c hc => hresd c (List.mem_of_mem_drop hc)),
    List.filter_append, List.filter_append, List.filter_append,
    List.filter_eq_self.mpr hres, List.filter_eq_self.mpr (fun c hc => hres c (List.mem_of_mem_drop hc))]
  conv => rhs; rw [hst, ← List.drop_drop, List.drop_left, List.drop_append_of_le_length hj]

/-- (b) **line addressing** (`bpl ≠ rpl + 1`): under the geometry hypothesis — the record's data begins with
    `(start-1)/rpl` complete lines of `bpl` bytes holding `rpl` residues each (all of them data bytes) — the fetch is the slice.
    The hypothesis is explicit: the tracker does not always guarantee it (known finding C07:seebuf:line-geometry-accepts-long-last-line). -/
theorem fetchSubseq_eq_slice_line (bytes : Bytes) (abc : Nat) (habc : abc ∈ [0, 1, 2, 3]) (s : Sq) (hs : s ∈ (parseFasta abc bytes).1)
    (ssi : Ssi) (key : Bytes) (e : SsiEntry) (he : ssi.findName key = some e) (her : e.roff = s.roff) (hed : e.doff = s.doff)
    (hel : e.len = s.L) (hfast : ssi.fast = true) (b r : Nat) (hbpl : ssi.bpl = (b : Int)) (hrpl : ssi.rpl = (r : Int))
    (hr0 : 0 < r) (hb0 : 0 < b) (hne : b ≠ r + 1) (start end_ : Int)
    (a : Ascii) (hf : a.file = bytes) (hb : a.linebased = false) (hr : a.recording ≠ 1) (hB : 1 ≤ a.B)
    (hi : a.inmap = inmapFasta abc) (hfmt : a.fmt = 1) (heof : a.eofIsOk = true)
    (sq : Sq) (hdig : sq.digital = (abc != 0)) (hsabc : sq.abc = abc) (hseq : sq.seq = #[]) (hna : 2 ≤ sq.nalloc) (hda : 2 ≤ sq.dalloc)
    (h1 : 1 ≤ start) (h2 : start ≤ end_) (h3 : end_ ≤ s.L)
    (lines : List (List UInt8)) (tail : List UInt8) (hgeo : bytes.toList.drop s.doff.toNat = lines.flatten ++ tail)
    (hfull : Geometry.FullLines (isRes (inmapFasta abc)) b r lines)
    (hdat : ∀ c ∈ lines.flatten, isData (inmapFasta abc) c = true) (hl : lines.length = (start.toNat - 1) / r) :
    (fetchSubseq a ssi sq key start end_).2.2 = .ok ∧
    (fetchSubseq a ssi sq key start end_).2.1.seq = s.seq.extract (start - 1).toNat end_.toNat ∧
    (fetchSubseq a ssi sq key start end_).2.1.start = start ∧ (fetchSubseq a ssi sq key start end_).2.1.end_ = end_ ∧
    (fetchSubseq a ssi sq key start end_).2.1.L = s.L ∧ (fetchSubseq a ssi sq key start end_).2.1.desc = s.desc ∧
    (fetchSubseq a ssi sq key start end_).2.1.source = key ∧
    (fetchSubseq a ssi sq key start end_).2.1.name = key ++ #[47] ++ decBytes start ++ #[45] ++ decBytes end_ := by
  obtain ⟨_, _, r3, _⟩ := record_shape bytes abc s hs
  have hfs := findSubseq_line ssi key start e he hfast (by rw [hed]; omega) (by rw [hrpl]; omega) (by rw [hbpl]; omega)
    (by rw [hbpl, hrpl]; omega) h1 (by rw [hel]; omega)
  rw [her, hed, hel, hbpl, hrpl] at hfs
  have hq : (start - 1) / (r : Int) = ((lines.length : Nat) : Int) := by
    have e1 : start - 1 = ((start.toNat - 1 : Nat) : Int) := by omega
    rw [e1, hl]
    first | exact (Int.natCast_ediv _ _).symm | exact (Int.ofNat_ediv _ _).symm | simp
  rw [hq, ← Int.natCast_mul, ← Int.natCast_mul] at hfs
  have hdn : (s.doff + ((lines.length * b : Nat) : Int)).toNat = s.doff.toNat + lines.length * b := by omega
  have hle : lines.length * r ≤ start.toNat - 1 := by rw [hl]; exact Nat.div_mul_le_self _ _
  have hk : (start - (1 + ((lines.length * r : Nat) : Int))).toNat = start.toNat - (1 + lines.length * r) := by omega
  have hp : (start - 1).toNat = start.toNat - 1 := by omega
  have hdrop : bytes.toList.drop (s.doff.toNat + lines.length * b) = (lines.flatten ++ tail).drop (lines.length * b) := by
    rw [← List.drop_drop, hgeo]
  refine fetchSubseq_of_lands bytes abc habc s hs ssi key start end_ _ _ hfs a hf hb hr hB hi hfmt heof sq hdig hsabc hseq hna hda
    h1 h2 h3 (by omega) lines.flatten hdat ?_ ?_
  · rw [hdn, hdrop, hgeo, ← hfull.length_flatten, List.drop_left]
  · rw [hdn, hk, hp, hdrop, hgeo]
    exact land_line (inmapFasta abc) lines tail b r start.toNat hfull hdat hl

/-- (c) **residue addressing** (`bpl = rpl + 1`): moreover the line holding residue `start` begins with more than `(start-1) % rpl`
    residues and nothing else before them -/
theorem fetchSubseq_eq_slice_residue (bytes : Bytes) (abc : Nat) (habc : abc ∈ [0, 1, 2, 3]) (s : Sq) (hs : s ∈ (parseFasta abc bytes).1)
    (ssi : Ssi) (key : Bytes) (e : SsiEntry) (he : ssi.findName key = some e) (her : e.roff = s.roff) (hed : e.doff = s.doff)
    (hel : e.len = s.L) (hfast : ssi.fast = true) (r : Nat) (hbpl : ssi.bpl = ((r + 1 : Nat) : Int)) (hrpl : ssi.rpl = (r : Int))
    (hr0 : 0 < r) (start end_ : Int)
    (a : Ascii) (hf : a.file = bytes) (hb : a.linebased = false) (hr : a.recording ≠ 1) (hB : 1 ≤ a.B)
    (hi : a.inmap = inmapFasta abc) (hfmt : a.fmt = 1) (heof : a.eofIsOk = true)
    (sq : Sq) (hdig : sq.digital = (abc != 0)) (hsabc : sq.abc = abc) (hseq : sq.seq = #[]) (hna : 2 ≤ sq.nalloc) (hda : 2 ≤ sq.dalloc)
    (h1 : 1 ≤ start) (h2 : start ≤ end_) (h3 : end_ ≤ s.L)
    (lines : List (List UInt8)) (res tail : List UInt8) (hgeo : bytes.toList.drop s.doff.toNat = lines.flatten ++ (res ++ tail))
    (hfull : Geometry.FullLines (isRes (inmapFasta abc)) (r + 1) r lines)
    (hdat : ∀ c ∈ lines.flatten, isData (inmapFasta abc) c = true) (hres : ∀ c ∈ res, isRes (inmapFasta abc) c = true)
    (hj : (start.toNat - 1) % r ≤ res.length) (hl : lines.length = (start.toNat - 1) / r) :
    (fetchSubseq a ssi sq key start end_).2.2 = .ok ∧
    (fetchSubseq a ssi sq key start end_).2.1.seq = s.seq.extract (start - 1).toNat end_.toNat ∧
    (fetchSubseq a ssi sq key start end_).2.1.start = start ∧ (fetchSubseq a ssi sq key start end_).2.1.end_ = end_ ∧
    (fetchSubseq a ssi sq key start end_).2.1.L = s.L ∧ (fetchSubseq a ssi sq key start end_).2.1.desc = s.desc ∧
    (fetchSubseq a ssi sq key start end_).2.1.source = key ∧
    (fetchSubseq a ssi sq key start end_).2.1.name = key ++ #[47] ++ decBytes start ++ #[45] ++ decBytes end_ := by
  obtain ⟨_, _, r3, _⟩ := record_shape bytes abc s hs
  have hfs := findSubseq_residue ssi key start e he hfast (by rw [hed]; omega) (by rw [hrpl]; omega) (by rw [hbpl]; omega)
    (by rw [hbpl, hrpl]; omega) h1 (by rw [hel]; omega)
  rw [her, hed, hel, hbpl, hrpl] at hfs
  have e1 : start - 1 = ((start.toNat - 1 : Nat) : Int) := by omega
  have hq : (start - 1) / (r : Int) = ((lines.length : Nat) : Int) := by
    rw [e1, hl]
    first | exact (Int.natCast_ediv _ _).symm | exact (Int.ofNat_ediv _ _).symm | simp
  have hm : (start - 1) % (r : Int) = (((start.toNat - 1) % r : Nat) : Int) := by
    rw [e1]
    first | exact (Int.natCast_emod _ _).symm | exact (Int.ofNat_emod _ _).symm | simp
  rw [hq, hm, ← Int.natCast_mul] at hfs
  have hdn : (s.doff + ((lines.length * (r + 1) : Nat) : Int) + (((start.toNat - 1) % r : Nat) : Int)).toNat =
      s.doff.toNat + (lines.length * (r + 1) + (start.toNat - 1) % r) := by omega
  have hp : (start - 1).toNat = start.toNat - 1 := by omega
  have hk : (start - start).toNat = 0 := by omega
  have hdrop : bytes.toList.drop (s.doff.toNat + (lines.length * (r + 1) + (start.toNat - 1) % r)) =
      (lines.flatten ++ (res ++ tail)).drop (lines.length * (r + 1) + (start.toNat - 1) % r) := by
    rw [← List.drop_drop, hgeo]
  have hresd : ∀ c ∈ res, isData (inmapFasta abc) c = true := fun c hc => isRes_isData _ c (hres c hc)
  refine fetchSubseq_of_lands bytes abc habc s hs ssi key start end_ _ _ hfs a hf hb hr hB hi hfmt heof sq hdig hsabc hseq hna hda
    h1 h2 h3 (by omega) (lines.flatten ++ res.take ((start.toNat - 1) % r))
    (fun c hc => by
      rcases List.mem_append.mp hc with k | k
      · exact hdat c k
      · exact hresd c (List.mem_of_mem_take k)) ?_ ?_
  · rw [hdn, hdrop, hgeo, ← List.drop_drop, ← hfull.length_flatten, List.drop_left, List.drop_append_of_le_length hj,
      List.append_assoc, ← List.append_assoc (res.take _), List.take_append_drop]
  · rw [hdn, hk, hp, hdrop, hgeo]
    exact land_residue (inmapFasta abc) lines res tail (r + 1) r start.toNat hfull hdat hres hj hl

/-- the range checks of `sqascii_FetchSubseq`: `start > end` or `end > L` is `eslERANGE` -/
theorem fetchSubseq_erange (a : Ascii) (ssi : Ssi) (sq : Sq) (key : Bytes) (start end_ roff doff len actualStart : Int)
    (hfs : findSubseq ssi key start = .ok (roff, doff, len, actualStart)) (he0 : end_ ≠ 0)
    (h : start > end_ ∨ (0 < len ∧ end_ > len)) :
    (fetchSubseq a ssi sq key start end_).2.2 = .erange := by
  have h1 : (end_ == 0) = false := by simpa using he0
  unfold fetchSubseq
  simp only [hfs, h1, Bool.false_eq_true, if_false]
  by_cases hc : start > end_
  · simp only [hc, if_true]
  · simp only [hc, if_false]
    rcases h with k | ⟨k1, k2⟩
    · exact absurd k hc
    · simp [k1, k2]

/-! ## non-vacuity: `>a\nACGT\nACGT\nAC\n` and `>a\nACGT \nACGT \nAC\n`, fetched through 2-byte blocks -/

def demoA : Bytes := #[62, 97, 10, 65, 67, 71, 84, 10, 65, 67, 71, 84, 10, 65, 67, 10]
def demoB : Bytes := #[62, 97, 10, 65, 67, 71, 84, 32, 10, 65, 67, 71, 84, 32, 10, 65, 67, 10]
def demoEntry : SsiEntry := ⟨#[97], 0, 3, 10⟩
def hA : Ascii := { file := demoA, B := 2, inmap := inmapFasta 0, fmt := 1, eofIsOk := true }
def hB : Ascii := { file := demoB, B := 2, inmap := inmapFasta 0, fmt := 1, eofIsOk := true }

/-- the scan finds one record with these offsets and length in both files -/
example : ((parseFasta 0 demoA).1.map fun s => (s.roff, s.doff, s.L, s.seq)) = [(0, 3, 10, #[65, 67, 71, 84, 65, 67, 71, 84, 65, 67])] ∧
    ((parseFasta 0 demoB).1.map fun s => (s.roff, s.doff, s.L)) = [(0, 3, 10)] := by decide +kernel

/-- brute force, residue addressing (`bpl = 5 = rpl + 1`) and line addressing (`bpl = 6`, `rpl = 4`): residues 3..7 / 6..9 -/
example : ((fetchSubseq hA { prim := #[demoEntry] } {} #[97] 3 7).2.2, (fetchSubseq hA { prim := #[demoEntry] } {} #[97] 3 7).2.1.seq) =
    (Status.ok, #[71, 84, 65, 67, 71]) := by decide +kernel
example : ((fetchSubseq hA { prim := #[demoEntry], fast := true, bpl := 5, rpl := 4 } {} #[97] 3 7).2.2,
    (fetchSubseq hA { prim := #[demoEntry], fast := true, bpl := 5, rpl := 4 } {} #[97] 3 7).2.1.seq) =
    (Status.ok, #[71, 84, 65, 67, 71]) := by decide +kernel
example : ((fetchSubseq hB { prim := #[demoEntry], fast := true, bpl := 6, rpl := 4 } {} #[97] 6 9).2.2,
    (fetchSubseq hB { prim := #[demoEntry], fast := true, bpl := 6, rpl := 4 } {} #[97] 6 9).2.1.seq) =
    (Status.ok, #[67, 71, 84, 65]) := by decide +kernel
example : (fetchSubseq hA { prim := #[demoEntry] } {} #[97] 3 11).2.2 = .erange := by decide +kernel

/-- the geometry hypothesis of `fetchSubseq_eq_slice_line` for `demoB`, `start = 6`: one complete line `ACGT \n` -/
example : Geometry.FullLines (isRes (inmapFasta 0)) 6 4 [[65, 67, 71, 84, 32, 10]] ∧ [[65, 67, 71, 84, 32, 10]].length = ((6 : Int).toNat - 1) / 4 ∧
    demoB.toList.drop 3 = [[65, 67, 71, 84, 32, 10]].flatten ++ [65, 67, 71, 84, 32, 10, 65, 67, 10] := by
  refine ⟨⟨?_, ?_⟩, by decide, by decide⟩ <;> (intro ln h; simp at h; subst h; decide +kernel)

/-- `fetchSubseq_eq_slice_brute` instantiated: its hypotheses hold for the record of `demoA` -/
example : (fetchSubseq hA { prim := #[demoEntry] } {} #[97] 3 7).2.1.seq =
    ((parseFasta 0 demoA).1.head (by decide +kernel)).seq.extract 2 7 :=
  (fetchSubseq_eq_slice_brute demoA 0 (by decide) _ (List.head_mem _) { prim := #[demoEntry] } #[97] demoEntry (by rfl)
    (by decide +kernel) (by decide +kernel) (by decide +kernel) rfl 3 7 hA rfl rfl (by decide) (by decide) rfl rfl rfl {} rfl rfl rfl
    (by decide) (by decide) (by decide) (by decide) (by decide +kernel)).2.1

end EaselModel.Sqio.FetchSpec
