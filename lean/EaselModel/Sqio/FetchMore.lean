import EaselModel.Sqio.FetchWhole
/-! # More of C07: fetch to the end of the sequence (`end = 0`), fetch by number

* `fetchSubseq_end_zero`: `sqascii_FetchSubseq(key, start, 0)` is `sqascii_FetchSubseq(key, start, L)` — same handle, same object,
  same status, same name `key/start-L` — whatever the file and the index.
* `Ssi.findNumber` = `esl_ssi_FindNumber`: the `n`-th primary key in index order (the index stores its primary keys sorted by key). -/
namespace EaselModel.Sqio.FetchMore
open EaselModel.Sqio

/-- **fetch to the end**: `end = 0` means "to the end of the sequence": the call is the call with `end = L` (the length the index
    stored for the record), for every handle, index, key and start — so every statement about `start..L` is a statement about `start..0` -/
theorem fetchSubseq_end_zero (a : Ascii) (ssi : Ssi) (sq : Sq) (key : Bytes) (start roff doff len actualStart : Int)
    (hfs : findSubseq ssi key start = .ok (roff, doff, len, actualStart)) :
    fetchSubseq a ssi sq key start 0 = fetchSubseq a ssi sq key start len := by
  unfold fetchSubseq
  simp only [hfs]
  by_cases h : len = 0
  · subst h; rfl
  · have h1 : (len == 0) = false := by simpa using h
    simp only [h1, Bool.false_eq_true, if_false, beq_self_eq_true, if_true]

/-- … and when the key is absent or `start` is out of range the answer does not depend on `end` at all -/
theorem fetchSubseq_error_any_end (a : Ascii) (ssi : Ssi) (sq : Sq) (key : Bytes) (start e1 e2 : Int) (st : Status)
    (hfs : findSubseq ssi key start = .error st) :
    fetchSubseq a ssi sq key start e1 = fetchSubseq a ssi sq key start e2 := by
  unfold fetchSubseq; simp only [hfs]

/-! ## `esl_ssi_FindNumber` / `sqascii_PositionByNumber` -/

theorem sortedPrim_perm (s : Ssi) : (sortedPrim s).Perm s.prim.toList := List.mergeSort_perm _ _

theorem findNumber_none_iff (s : Ssi) (n : Nat) : findNumber s n = none ↔ s.prim.size ≤ n := by
  unfold findNumber
  rw [List.getElem?_eq_none_iff, (sortedPrim_perm s).length_eq, Array.length_toList]

theorem findNumber_mem (s : Ssi) (n : Nat) (e : SsiEntry) (h : findNumber s n = some e) : e ∈ s.prim.toList :=
  (sortedPrim_perm s).mem_iff.mp (List.mem_of_getElem? h)


theorem keyLe_iff (x y : SsiEntry) : keyLe x y = true ↔ x.key.toList ≤ y.key.toList := by
  unfold keyLe; simp [List.not_lt]

/-- index order: the keys are in non-decreasing byte-wise order; with `sortedPrim_perm` (the same entries) this determines which
    entry number `n` is whenever the keys are distinct -/
theorem sortedPrim_sorted (s : Ssi) : (sortedPrim s).Pairwise (fun x y => x.key.toList ≤ y.key.toList) := by
  have h := List.pairwise_mergeSort (le := keyLe)
    (fun a b c h1 h2 => (keyLe_iff a c).mpr (List.le_trans ((keyLe_iff a b).mp h1) ((keyLe_iff b c).mp h2)))
    (fun a b => by
      rcases List.le_total a.key.toList b.key.toList with h | h
      · simp [(keyLe_iff a b).mpr h]
      · simp [(keyLe_iff b a).mpr h])
    s.prim.toList
  exact h.imp (fun {a b} hab => (keyLe_iff a b).mp hab)

open EaselModel.Sqio.ParseFasta EaselModel.Sqio.SpecFasta in
/-- **FETCH BY NUMBER = SCAN**: `sqascii_PositionByNumber(n)` + `sqascii_Read`. For an index whose entry `e` (the `n`-th primary key
    in index order) carries the record offset of the scanned record `s`, positioning by number succeeds and the read returns `s` —
    for every block size; and `n ≥ nprimary` is `eslENOTFOUND` with the handle untouched. -/
theorem fetch_by_number_eq_scan (bytes : Bytes) (abc : Nat) (habc : abc ∈ [0, 1, 2, 3]) (s : Sq) (hs : s ∈ (parseFasta abc bytes).1)
    (ssi : Ssi) (n : Nat) (e : SsiEntry) (hn : findNumber ssi n = some e) (her : e.roff = s.roff)
    (a : Ascii) (hf : a.file = bytes) (hb : a.linebased = false) (hr : a.recording ≠ 1) (hB : 1 ≤ a.B)
    (hi : a.inmap = inmapFasta abc) (hfmt : a.fmt = 1) (heof : a.eofIsOk = true)
    (sq : Sq) (hdig : sq.digital = (abc != 0)) (hsabc : sq.abc = abc) (hseq : sq.seq = #[]) (hna : 2 ≤ sq.nalloc) (hda : 2 ≤ sq.dalloc) :
    e ∈ ssi.prim.toList ∧ (positionByNumber a ssi n).2 = .ok ∧
    (read (positionByNumber a ssi n).1 sq).2.2 = .ok ∧
    toRecord (read (positionByNumber a ssi n).1 sq).2.1 = toRecord s := by
  have h := FetchWhole.fetch_eq_scan bytes abc habc s hs a hf hb hr hB hi hfmt heof sq hdig hsabc hseq hna hda
  unfold positionByNumber
  rw [hn]
  simp only [her]
  exact ⟨findNumber_mem ssi n e hn, h⟩

theorem positionByNumber_out_of_range (a : Ascii) (ssi : Ssi) (n : Nat) (h : ssi.prim.size ≤ n) :
    positionByNumber a ssi n = (a, .enotfound) := by
  unfold positionByNumber; rw [(findNumber_none_iff ssi n).mpr h]

end EaselModel.Sqio.FetchMore
