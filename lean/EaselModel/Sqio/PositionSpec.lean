import EaselModel.Sqio.FetchWhole
/-! # `esl_sqfile_Position` agrees with the sequential reader (C04)

`rewind_read_all`: after `sqascii_Position(sqfp, 0)` on ANY block-mode FASTA handle on the file (any block size, cursor anywhere, any
history that left the handle usable), the read loop returns exactly `parseFasta` — the records and final status of a fresh sequential
scan. (`FetchWhole.fetch_eq_scan` is the single-record statement: Position at a record's `roff`, then Read = that record.) -/
namespace EaselModel.Sqio.PositionSpec
open EaselModel.Sqio.Refine EaselModel.Sqio.DataScan EaselModel.Sqio.Cursor EaselModel.Sqio.BodySpec EaselModel.Sqio.HeaderSpec
open EaselModel.Sqio.ReadSpec EaselModel.Sqio.ParseFasta EaselModel.Sqio.FetchSpec EaselModel.Sqio.SpecFasta

theorem rewind_read_all (bytes : Bytes) (abc : Nat) (habc : abc ∈ [0, 1, 2, 3]) (hne : 0 < bytes.size)
    (a : Ascii) (hf : a.file = bytes) (hb : a.linebased = false) (hr : a.recording ≠ 1) (hB : 1 ≤ a.B)
    (hi : a.inmap = inmapFasta abc) (hfmt : a.fmt = 1) (heof : a.eofIsOk = true) :
    (position a 0).2 = .ok ∧
    readAllM (bytes.size + 2) (position a 0).1 (freshSq abc) = parseFasta abc bytes := by
  have hlt : 0 < a.file.size := by rw [hf]; exact hne
  obtain ⟨p1, p2, p3, p4, p5, _⟩ := position_full a 0 hb hr hB hlt
  rw [hf] at p4
  have hi1 : (position a 0).1.inmap = inmapFasta abc := (stat_inmap p5).trans hi
  have hfile1 : (position a 0).1.file = bytes := (stat_file p5).trans hf
  have R : Ready (position a 0).1 (freshSq abc).reuse := by
    refine ⟨p2, (stat_fmt p5).trans hfmt, (stat_eofIsOk p5).trans heof, by rw [hi1]; exact (tables_fasta abc habc).1, ?_,
      by rw [hi1]; exact eodGt_fasta abc habc, by show 2 ≤ 32; decide, by show 2 ≤ 128; decide⟩
    rw [mapOf_eq, hi1]; exact mapOk_fasta abc habc
  refine ⟨p1, ?_⟩
  rw [readAll_spec _ _ _ R, p4, hi1, hfile1]
  rfl

end EaselModel.Sqio.PositionSpec
