import EaselModel.Sqio.Model
/-! # Algebra of the line-geometry tracker `seebuf_linegeometry()` (C07, C04; used by `Sqio/Fold.lean`)

`Track.lineGeometry` may be called any number of times per line: calling it on a partial line and again after more bytes of the
same line have gone by gives what a single call at the end gives (`lg_adv_lg`). -/
namespace EaselModel.Sqio
open Tables

theorem Track.eq_of_fields (a b : Track) (h1 : a.rpl = b.rpl) (h2 : a.bpl = b.bpl) (h3 : a.prvrpl = b.prvrpl) (h4 : a.prvbpl = b.prvbpl)
    (h5 : a.currpl = b.currpl) (h6 : a.curbpl = b.curbpl) (h7 : a.maxrpl = b.maxrpl) (h8 : a.maxxpl = b.maxxpl) : a = b := by
  cases a; cases b; simp_all

theorem fullLine_idem (p q w : Int) : Track.fullLine p q (Track.fullLine p q w) = Track.fullLine p q w := by
  unfold Track.fullLine; omega
theorem fullLine_zero (p q : Int) : Track.fullLine p q 0 = 0 := by
  unfold Track.fullLine; omega

def Track.mxR (t : Track) : Int := if t.currpl > t.maxrpl then t.currpl else t.maxrpl
def Track.mxX (t : Track) (e : Bool) : Int :=
  if t.curbpl - t.currpl - (if e then 1 else 0) > t.maxxpl then t.curbpl - t.currpl - (if e then 1 else 0) else t.maxxpl
def Track.R (t : Track) : Int := Track.fullLine t.prvrpl t.prvbpl t.rpl
def Track.Bq (t : Track) : Int := Track.fullLine t.prvbpl t.prvrpl t.bpl

theorem lg_cur (t : Track) (e : Bool) :
    (t.lineGeometry e).currpl = t.currpl ∧ (t.lineGeometry e).curbpl = t.curbpl ∧
    (t.lineGeometry e).prvrpl = t.prvrpl ∧ (t.lineGeometry e).prvbpl = t.prvbpl := by
  unfold Track.lineGeometry
  by_cases h : t.curbpl ≤ 0 ∨ t.currpl = -1
  · simp only [h, if_true, and_self]
  · simp only [h, if_false, apply_ite Track.currpl, apply_ite Track.curbpl, apply_ite Track.prvrpl, apply_ite Track.prvbpl, ite_self, and_self]

theorem lg_rpl (t : Track) (e : Bool) : (t.lineGeometry e).rpl =
    if t.curbpl ≤ 0 ∨ t.currpl = -1 then t.rpl
    else if t.R > 0 ∧ t.Bq > 0 ∧ (t.mxR > t.R ∨ t.mxX e > t.Bq - t.R - 1) then 0 else t.R := by
  unfold Track.lineGeometry Track.R Track.Bq Track.mxR Track.mxX
  by_cases h : t.curbpl ≤ 0 ∨ t.currpl = -1
  · simp only [h, if_true]
  · simp only [h, if_false, apply_ite Track.rpl]

theorem lg_bpl (t : Track) (e : Bool) : (t.lineGeometry e).bpl =
    if t.curbpl ≤ 0 ∨ t.currpl = -1 then t.bpl
    else if t.R > 0 ∧ t.Bq > 0 ∧ (t.mxR > t.R ∨ t.mxX e > t.Bq - t.R - 1) then 0 else t.Bq := by
  unfold Track.lineGeometry Track.R Track.Bq Track.mxR Track.mxX
  by_cases h : t.curbpl ≤ 0 ∨ t.currpl = -1
  · simp only [h, if_true]
  · simp only [h, if_false, apply_ite Track.bpl]

theorem lg_maxrpl (t : Track) (e : Bool) : (t.lineGeometry e).maxrpl =
    if t.curbpl ≤ 0 ∨ t.currpl = -1 then t.maxrpl else t.mxR := by
  unfold Track.lineGeometry Track.mxR
  by_cases h : t.curbpl ≤ 0 ∨ t.currpl = -1
  · simp only [h, if_true]
  · simp only [h, if_false, apply_ite Track.maxrpl, ite_self]

theorem lg_maxxpl (t : Track) (e : Bool) : (t.lineGeometry e).maxxpl =
    if t.curbpl ≤ 0 ∨ t.currpl = -1 then t.maxxpl else t.mxX e := by
  unfold Track.lineGeometry Track.mxX
  by_cases h : t.curbpl ≤ 0 ∨ t.currpl = -1
  · simp only [h, if_true]
  · simp only [h, if_false, apply_ite Track.maxxpl, ite_self]

theorem lg_inactive (t : Track) (e : Bool) (h : t.curbpl ≤ 0 ∨ t.currpl = -1) : t.lineGeometry e = t := by
  unfold Track.lineGeometry; simp only [h, if_true]

theorem mx_mono (m a b : Int) (h : a ≤ b) :
    (if b > (if a > m then a else m) then b else (if a > m then a else m)) = (if b > m then b else m) := by omega

theorem bad_arith (R B M N M2 N2 : Int) (hM : M ≤ M2) (hN : N ≤ N2) :
    (if (if R > 0 ∧ B > 0 ∧ (M > R ∨ N > B - R - 1) then 0 else R) > 0 ∧ (if R > 0 ∧ B > 0 ∧ (M > R ∨ N > B - R - 1) then 0 else B) > 0 ∧
        (M2 > (if R > 0 ∧ B > 0 ∧ (M > R ∨ N > B - R - 1) then 0 else R) ∨
         N2 > (if R > 0 ∧ B > 0 ∧ (M > R ∨ N > B - R - 1) then 0 else B) - (if R > 0 ∧ B > 0 ∧ (M > R ∨ N > B - R - 1) then 0 else R) - 1)
      then (0:Int) else (if R > 0 ∧ B > 0 ∧ (M > R ∨ N > B - R - 1) then 0 else R))
      = (if R > 0 ∧ B > 0 ∧ (M2 > R ∨ N2 > B - R - 1) then 0 else R) ∧
    (if (if R > 0 ∧ B > 0 ∧ (M > R ∨ N > B - R - 1) then 0 else R) > 0 ∧ (if R > 0 ∧ B > 0 ∧ (M > R ∨ N > B - R - 1) then 0 else B) > 0 ∧
        (M2 > (if R > 0 ∧ B > 0 ∧ (M > R ∨ N > B - R - 1) then 0 else R) ∨
         N2 > (if R > 0 ∧ B > 0 ∧ (M > R ∨ N > B - R - 1) then 0 else B) - (if R > 0 ∧ B > 0 ∧ (M > R ∨ N > B - R - 1) then 0 else R) - 1)
      then (0:Int) else (if R > 0 ∧ B > 0 ∧ (M > R ∨ N > B - R - 1) then 0 else B))
      = (if R > 0 ∧ B > 0 ∧ (M2 > R ∨ N2 > B - R - 1) then 0 else B) := by
  by_cases h : R > 0 ∧ B > 0 ∧ (M > R ∨ N > B - R - 1)
  · have h2 : R > 0 ∧ B > 0 ∧ (M2 > R ∨ N2 > B - R - 1) := by omega
    simp only [if_pos h, if_pos h2]
    constructor <;> omega
  · simp only [if_neg h]
    exact ⟨trivial, trivial⟩

theorem adv_zero (t : Track) : t.advance 0 0 = t := by
  cases t; simp [Track.advance]

theorem adv_adv (t : Track) (a b c d : Int) (h1 : -1 ≤ t.curbpl) (h2 : -1 ≤ t.currpl) (ha : 0 ≤ a) (hb : 0 ≤ b) :
    (t.advance a b).advance c d = t.advance (a + c) (b + d) := by
  apply Track.eq_of_fields <;> simp only [Track.advance] <;> omega

theorem adv_bounds (t : Track) (a b : Int) (h1 : -1 ≤ t.curbpl) (h2 : -1 ≤ t.currpl) (ha : 0 ≤ a) (hb : 0 ≤ b) :
    -1 ≤ (t.advance a b).curbpl ∧ -1 ≤ (t.advance a b).currpl := by
  simp only [Track.advance]; omega

theorem lg_adv_lg (x : Track) (c d : Int) (e : Bool) (h1 : -1 ≤ x.curbpl) (h2 : -1 ≤ x.currpl)
    (hd : 0 ≤ d) (hc : d + (if e then 1 else 0) ≤ c) :
    ((x.lineGeometry false).advance c d).lineGeometry e = (x.advance c d).lineGeometry e := by
  by_cases hx : x.curbpl ≤ 0 ∨ x.currpl = -1
  · rw [lg_inactive x false hx]
  obtain ⟨g1, g2, g3, g4⟩ := lg_cur x false
  have a1 := lg_rpl x false
  have a2 := lg_bpl x false
  have a3 := lg_maxrpl x false
  have a4 := lg_maxxpl x false
  simp only [hx, if_false] at a1 a2 a3 a4
  have n1 : x.currpl ≠ -1 := by omega
  have n2 : x.curbpl ≠ -1 := by omega
  have n3 : 0 < x.curbpl := by omega
  have n4 : 0 ≤ x.currpl := by omega
  have he : (0:Int) ≤ (if e then 1 else 0) := by split <;> omega
  generalize hy : (x.lineGeometry false).advance c d = y
  generalize hz : x.advance c d = z
  have y1 : y.rpl = (x.lineGeometry false).rpl := by rw [← hy]; rfl
  have y2 : y.bpl = (x.lineGeometry false).bpl := by rw [← hy]; rfl
  have y3 : y.prvrpl = x.prvrpl := by rw [← hy, ← g3]; rfl
  have y4 : y.prvbpl = x.prvbpl := by rw [← hy, ← g4]; rfl
  have y5 : y.currpl = x.currpl + d := by rw [← hy]; simp only [Track.advance, g1]; rw [if_pos n1]
  have y6 : y.curbpl = x.curbpl + c := by rw [← hy]; simp only [Track.advance, g2]; rw [if_pos n2]
  have y7 : y.maxrpl = x.mxR := by rw [← hy, ← a3]; rfl
  have y8 : y.maxxpl = x.mxX false := by rw [← hy, ← a4]; rfl
  have z1 : z.rpl = x.rpl := by rw [← hz]; rfl
  have z2 : z.bpl = x.bpl := by rw [← hz]; rfl
  have z3 : z.prvrpl = x.prvrpl := by rw [← hz]; rfl
  have z4 : z.prvbpl = x.prvbpl := by rw [← hz]; rfl
  have z5 : z.currpl = x.currpl + d := by rw [← hz]; simp only [Track.advance]; rw [if_pos n1]
  have z6 : z.curbpl = x.curbpl + c := by rw [← hz]; simp only [Track.advance]; rw [if_pos n2]
  have z7 : z.maxrpl = x.maxrpl := by rw [← hz]; rfl
  have z8 : z.maxxpl = x.maxxpl := by rw [← hz]; rfl
  have hya : ¬(y.curbpl ≤ 0 ∨ y.currpl = -1) := by rw [y5, y6]; omega
  have hza : ¬(z.curbpl ≤ 0 ∨ z.currpl = -1) := by rw [z5, z6]; omega
  have zR : z.R = x.R := by unfold Track.R; rw [z1, z3, z4]
  have zB : z.Bq = x.Bq := by unfold Track.Bq; rw [z2, z3, z4]
  have yR : y.R = if x.R > 0 ∧ x.Bq > 0 ∧ (x.mxR > x.R ∨ x.mxX false > x.Bq - x.R - 1) then 0 else x.R := by
    unfold Track.R; rw [y1, y3, y4, a1]; unfold Track.R Track.Bq; split
    · exact fullLine_zero _ _
    · exact fullLine_idem _ _ _
  have yB : y.Bq = if x.R > 0 ∧ x.Bq > 0 ∧ (x.mxR > x.R ∨ x.mxX false > x.Bq - x.R - 1) then 0 else x.Bq := by
    unfold Track.Bq; rw [y2, y3, y4, a2]; unfold Track.R Track.Bq; split
    · exact fullLine_zero _ _
    · exact fullLine_idem _ _ _
  have xmR : x.mxR = if x.currpl > x.maxrpl then x.currpl else x.maxrpl := rfl
  have xmX : x.mxX false = if x.curbpl - x.currpl > x.maxxpl then x.curbpl - x.currpl else x.maxxpl := by
    unfold Track.mxX; simp
  have ymR : y.mxR = z.mxR := by
    show (if y.currpl > y.maxrpl then y.currpl else y.maxrpl) = (if z.currpl > z.maxrpl then z.currpl else z.maxrpl)
    rw [y5, y7, z5, z7, xmR]; exact mx_mono _ _ _ (by omega)
  have ymX : y.mxX e = z.mxX e := by
    show (if y.curbpl - y.currpl - (if e then 1 else 0) > y.maxxpl then y.curbpl - y.currpl - (if e then 1 else 0) else y.maxxpl) =
         (if z.curbpl - z.currpl - (if e then 1 else 0) > z.maxxpl then z.curbpl - z.currpl - (if e then 1 else 0) else z.maxxpl)
    rw [y5, y6, y8, z5, z6, z8, xmX]; exact mx_mono _ _ _ (by omega)
  have mR : x.mxR ≤ z.mxR := by
    show _ ≤ (if z.currpl > z.maxrpl then z.currpl else z.maxrpl)
    rw [z5, z7, xmR]; omega
  have mX : x.mxX false ≤ z.mxX e := by
    show _ ≤ (if z.curbpl - z.currpl - (if e then 1 else 0) > z.maxxpl then z.curbpl - z.currpl - (if e then 1 else 0) else z.maxxpl)
    rw [z5, z6, z8, xmX]; omega
  obtain ⟨p1, p2, p3, p4⟩ := lg_cur y e
  obtain ⟨q1, q2, q3, q4⟩ := lg_cur z e
  have b1 := lg_rpl y e
  have b2 := lg_bpl y e
  have b3 := lg_maxrpl y e
  have b4 := lg_maxxpl y e
  have c1 := lg_rpl z e
  have c2 := lg_bpl z e
  have c3 := lg_maxrpl z e
  have c4 := lg_maxxpl z e
  simp only [hya, hza, if_false] at b1 b2 b3 b4 c1 c2 c3 c4
  rw [zR, zB] at c1 c2
  rw [yR, yB, ymR, ymX] at b1 b2
  have key := bad_arith x.R x.Bq x.mxR (x.mxX false) z.mxR (z.mxX e) mR mX
  apply Track.eq_of_fields
  · rw [b1, c1]; exact key.1
  · rw [b2, c2]; exact key.2
  · rw [p3, q3, y3, z3]
  · rw [p4, q4, y4, z4]
  · rw [p1, q1, y5, z5]
  · rw [p2, q2, y6, z6]
  · rw [b3, c3]; exact ymR
  · rw [b4, c4]; exact ymX

/-- calling `seebuf_linegeometry()` twice in a row is calling it once -/
theorem lg_idem (x : Track) (h1 : -1 ≤ x.curbpl) (h2 : -1 ≤ x.currpl) :
    (x.lineGeometry false).lineGeometry false = x.lineGeometry false := by
  have := lg_adv_lg x 0 0 false h1 h2 (by omega) (by simp)
  rwa [adv_zero, adv_zero] at this

end EaselModel.Sqio
