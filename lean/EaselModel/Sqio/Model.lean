import EaselModel.Sqio.Basic
/-! # Executable model of the reader core of `esl_sqio_ascii.c` (kind H). Core Lean only.

The model follows the C functions line by line (`loadmem loadbuf nextchar seebuf addbuf skipbuf read_nres
header_fasta skip_fasta end_fasta sqascii_Read ReadInfo ReadSequence ReadWindow Position`).
`B` is the read-block size (`eslREADBUFSIZE`, hook H2). Memory is modelled as follows:

* the file is an immutable byte array; `fpos` is the `FILE*` position; `fread` returns `min B (size - fpos)` bytes;
* `mem` always holds the file bytes `[moff, moff+mn)` (true in recording and in overwrite mode), so the model keeps
  only the numbers; `buf` (block mode) is the window `[boff, boff+nc)`;
* every read of `buf[i]` goes through `bufGet`, which fails (`Status.fault`) unless `i < nc`
  (line mode: `i ≤ nc`, the terminating NUL); every store into `sq` checks the allocation the C code made.
-/
namespace EaselModel.Sqio
open Tables

/-- `rpl bpl prvrpl prvbpl currpl curbpl maxrpl maxxpl` of `ESL_SQASCII_DATA` (−1 = unset, 0 = invalidated) -/
structure Track where
  rpl : Int := -1
  bpl : Int := -1
  prvrpl : Int := -1
  prvbpl : Int := -1
  currpl : Int := -1
  curbpl : Int := -1
  maxrpl : Int := 0
  maxxpl : Int := 0
  deriving Repr, DecidableEq, Inhabited

/-- the "a line that is followed by another must be a full line" test of `seebuf_linegeometry()` for one of the two widths:
    `p` = that count on the previous line, `q` = the other count on the previous line (−1 = no previous line), `w` = the width so far -/
def Track.fullLine (p q w : Int) : Int :=
  if p ≠ -1 ∧ q ≠ -1 then (if w = -1 then p else if p ≠ w then 0 else w) else w

/-- `seebuf_linegeometry(ascii, at_eol)`: bring `rpl`/`bpl` up to date with the current line (complete or not) and the line before
    it in the same record: a line that is followed by another must be a full line; no line at all may hold more residues than `rpl`
    or more ignored bytes (the newline not counted) than a full line (`maxrpl`, `maxxpl` remember the worst line seen so far). -/
def Track.lineGeometry (t : Track) (atEol : Bool) : Track :=
  if t.curbpl ≤ 0 ∨ t.currpl = -1 then t else
  let xpl := t.curbpl - t.currpl - (if atEol then 1 else 0)
  let maxrpl := if t.currpl > t.maxrpl then t.currpl else t.maxrpl
  let maxxpl := if xpl > t.maxxpl then xpl else t.maxxpl
  let rpl := Track.fullLine t.prvrpl t.prvbpl t.rpl
  let bpl := Track.fullLine t.prvbpl t.prvrpl t.bpl
  if rpl > 0 ∧ bpl > 0 ∧ (maxrpl > rpl ∨ maxxpl > bpl - rpl - 1) then
    { t with rpl := 0, bpl := 0, maxrpl := maxrpl, maxxpl := maxxpl }
  else
    { t with rpl := rpl, bpl := bpl, maxrpl := maxrpl, maxxpl := maxxpl }

/-- the `cur*` counters advanced by `dB` bytes and `dR` residues (not when "unknown", −1) -/
def Track.advance (t : Track) (dB dR : Int) : Track :=
  { t with curbpl := if t.curbpl ≠ -1 then t.curbpl + dB else t.curbpl,
           currpl := if t.currpl ≠ -1 then t.currpl + dR else t.currpl }

/-- what `seebuf` does to the line-geometry bookkeeping when it sees an end-of-line symbol;
    `dB`/`dR` = bytes (inclusive of the EOL) and residues seen on this line since the last update -/
def Track.onEol (t : Track) (dB dR : Int) : Track :=
  let t2 := (t.advance dB dR).lineGeometry true
  { t2 with prvrpl := t2.currpl, prvbpl := t2.curbpl, currpl := 0, curbpl := 0 }

/-- the tail of `seebuf`: account for the partial line at the end of the examined stretch (a record's last line may end at EOF
    or at the EOD character, without a newline) -/
def Track.onStop (t : Track) (dB dR : Int) : Track := (t.advance dB dR).lineGeometry false

def Track.reset (t : Track) : Track := { t with currpl := -1, curbpl := -1, prvrpl := -1, prvbpl := -1 }

structure Ascii where
  file : Bytes := #[]
  B : Nat := 4096
  fpos : Nat := 0
  memValid : Bool := false
  moff : Int := -1
  mn : Nat := 0
  mpos : Nat := 0
  recording : Int := 0          -- FALSE 0, TRUE 1, −1 "no more recording possible"
  linebased : Bool := false
  line : Bytes := #[]           -- line mode: private copy of the current line (without the NUL)
  boff : Int := 0
  nc : Nat := 0
  bpos : Nat := 0
  L : Int := 0
  linenumber : Int := 1
  bookmarkOff : Int := 0
  bookmarkLine : Int := 0
  eofIsOk : Bool := false
  trk : Track := {}
  inmap : Bytes := #[]
  fmt : Nat := 1
  abc : Nat := 0
  haveErr : Bool := false       -- errbuf was written by the last failing call
  exc : Bool := false           -- an ESL_EXCEPTION was raised
  deriving Inhabited

/-- `ascii->buf[i]` -/
def Ascii.bufGet (a : Ascii) (i : Nat) : Option UInt8 :=
  if a.linebased then
    if i < a.nc then a.line[i]? else if i == a.nc && a.memValid then some 0 else none
  else
    if i < a.nc then a.file[(a.boff.toNat + i)]? else none

def Ascii.fail (a : Ascii) : Ascii := { a with haveErr := true }
def Ascii.raise (a : Ascii) : Ascii := { a with exc := true }

/-- `loadmem()`; `do_buffer` is never set by the file-based open and is not modelled -/
def loadmem (a : Ascii) : Ascii × Status :=
  let n := min a.B (a.file.size - a.fpos)
  if a.recording == 1 then
    let a := if !a.memValid then { a with moff := a.fpos, memValid := true } else a
    ({ a with mn := a.mn + n, fpos := a.fpos + n }, if n == 0 then .eof else .ok)
  else
    ({ a with memValid := true, recording := -1, mpos := 0, moff := a.fpos, mn := n, fpos := a.fpos + n },
     if n == 0 then .eof else .ok)

/-- position of the first `\n` in file[lo, hi), as `memchr` -/
def findNl (file : Bytes) (lo hi : Nat) : Option Nat :=
  if h : lo < hi then
    if file.getD lo 0 == chNl then some lo else findNl file (lo + 1) hi
  else none
termination_by hi - lo

/-- the line-mode branch of `loadbuf()`: the `while (nlp == NULL)` loop. Returns the state, the status of the last
    `loadmem` (`.ok` if none failed) and whether a newline was found. -/
def loadLineLoop : Nat → Ascii → Ascii × Status × Option Nat
  | 0, a => (a, .fault, none)
  | fuel + 1, a =>
    match findNl a.file (a.moff.toNat + a.mpos) (a.moff.toNat + a.mn) with
    | some p => (a, .ok, some p)
    | none =>
      let n := a.mn - a.mpos
      let a := { a with line := a.line ++ a.file.extract (a.moff.toNat + a.mpos) (a.moff.toNat + a.mpos + n),
                        mpos := a.mpos + n, nc := a.nc + n }
      let (a, st) := loadmem a
      if st == .eof then (a, .eof, none) else loadLineLoop fuel a

/-- `loadbuf()` -/
def loadbuf (a : Ascii) : Ascii × Status :=
  if !a.linebased then
    let a := if a.mpos ≥ a.mn then (loadmem a).1 else a
    let nc := a.mn - a.mpos
    let a := { a with boff := a.moff + a.mpos, bpos := 0, nc := nc, mpos := a.mpos + nc }
    (a, if nc == 0 then .eof else .ok)
  else
    let a := if a.mpos ≥ a.mn then (loadmem a).1 else a
    let a := { a with boff := a.moff + a.mpos, nc := 0, line := #[] }
    let (a, st, nl) := loadLineLoop (a.file.size + 2) a
    if st == .fault then (a, .fault) else
    let a :=
      match nl with
      | some p =>
        let n := p - (a.moff.toNat + a.mpos) + 1
        { a with line := a.line ++ a.file.extract (a.moff.toNat + a.mpos) (a.moff.toNat + a.mpos + n),
                 mpos := a.mpos + n, nc := a.nc + n }
      | none => a
    let a := { a with bpos := 0 }
    (a, if a.nc == 0 then .eof else .ok)

/-- `nextchar()`: on a non-OK status the caller's `c` is left as it was -/
def nextchar (a : Ascii) (c : UInt8) : Ascii × Status × UInt8 :=
  let a := { a with bpos := a.bpos + 1 }
  if a.nc == a.bpos then
    let (a, st) := loadbuf a
    if st != .ok then (a, st, c) else
    match a.bufGet a.bpos with
    | some x => (a, .ok, x)
    | none => (a, .fault, c)
  else
    match a.bufGet a.bpos with
    | some x => (a, .ok, x)
    | none => (a, .fault, c)

/-- result of `seebuf()` -/
structure See where
  st : Status
  nres : Nat
  endpos : Nat
  deriving Repr, Inhabited

/-- the `for` loop of `seebuf()`: `bpos` runs over the buffer; `lasteol` is kept as `lasteol+1` (a `Nat`). -/
def seebufLoop (a : Ascii) (maxn : Nat) (bpos nres nres2 lasteol1 : Nat) (trk : Track) (ln : Int) :
    Status × Bool × Nat × Nat × Nat × Nat × Track × Int :=
  -- returns (status, failedWithMessage, bpos, nres, nres2, lasteol1, trk, linenumber)
  if h : nres < maxn ∧ bpos < a.nc then
    match a.bufGet bpos with
    | none => (.fault, false, bpos, nres, nres2, lasteol1, trk, ln)
    | some sym =>
      if sym ≥ 128 then (.eformat, true, bpos, nres, nres2, lasteol1, trk, ln) else
      match a.inmap[sym.toNat]? with
      | none => (.fault, false, bpos, nres, nres2, lasteol1, trk, ln)
      | some x =>
        if x ≤ 127 then seebufLoop a maxn (bpos + 1) (nres + 1) nres2 lasteol1 trk ln
        else if x == dsqEol then
          let trk := trk.onEol ((bpos : Int) - (lasteol1 : Int) + 1) ((nres : Int) - (nres2 : Int))
          seebufLoop a maxn (bpos + 1) nres nres (bpos + 1) trk (if ln != -1 then ln + 1 else ln)
        else if x == dsqIllegal then (.eformat, true, bpos, nres, nres2, lasteol1, trk, ln)
        else if x == dsqEod then (.eod, false, bpos, nres, nres2, lasteol1, trk, ln)
        else if x != dsqIgnored then (.eformat, true, bpos, nres, nres2, lasteol1, trk, ln)
        else seebufLoop a maxn (bpos + 1) nres nres2 lasteol1 trk ln
  else (.ok, false, bpos, nres, nres2, lasteol1, trk, ln)
termination_by a.nc - bpos

/-- `seebuf(sqfp, maxn, &nres, &endpos)`; `maxn = none` is the C `-1` -/
def seebuf (a : Ascii) (maxn : Option Nat) : Ascii × See :=
  let mx := match maxn with | none => a.nc | some m => m
  let (st, failed, bpos, nres, nres2, lasteol1, trk, ln) := seebufLoop a mx a.bpos 0 0 a.bpos a.trk a.linenumber
  if st == .eformat || st == .fault then
    ({ a with trk := trk, linenumber := ln, haveErr := a.haveErr || failed }, ⟨st, nres, bpos⟩)
  else
    let trk := trk.onStop ((bpos : Int) - (lasteol1 : Int)) ((nres : Int) - (nres2 : Int))
    ({ a with trk := trk, linenumber := ln }, ⟨st, nres, bpos⟩)

/-- an `ESL_SQ`; `seq` holds the `n` residues (text characters, or digital codes `dsq[1..n]`), `salloc` the allocation -/
structure Sq where
  digital : Bool := false
  abc : Nat := 0
  name : Bytes := #[]
  acc : Bytes := #[]
  desc : Bytes := #[]
  source : Bytes := #[]
  nalloc : Nat := 32
  dalloc : Nat := 128
  seq : Bytes := #[]
  salloc : Nat := 256
  start : Int := 0
  end_ : Int := 0
  C : Int := 0
  W : Int := 0
  L : Int := -1
  roff : Int := -1
  hoff : Int := -1
  doff : Int := -1
  eoff : Int := -1
  deriving Inhabited

def Sq.n (s : Sq) : Nat := s.seq.size

/-- `esl_sq_Reuse()` (allocations are kept) -/
def Sq.reuse (s : Sq) : Sq :=
  { s with name := #[], acc := #[], desc := #[], source := #[], seq := #[], start := 0, end_ := 0, C := 0, W := 0,
           L := -1, roff := -1, hoff := -1, doff := -1, eoff := -1 }

/-- `esl_sq_GrowTo(sq, n)` -/
def Sq.growTo (s : Sq) (n : Nat) : Sq :=
  let need := if s.digital then n + 2 else n + 1
  if need > s.salloc then { s with salloc := need } else s

/-- index at which the terminator (`\0` resp. sentinel) is written is inside the allocation -/
def Sq.termOk (s : Sq) : Bool := if s.digital then s.n + 1 < s.salloc else s.n < s.salloc

/-- the loops of `addbuf()`; `nres` residues are appended to `sq`, `bpos` advances past the last one -/
def addbufLoop (a : Ascii) (map : Bytes) (digital : Bool) (salloc : Nat) (nres bpos : Nat) (seq : Bytes) : Status × Nat × Bytes :=
  if nres == 0 then (.ok, bpos, seq) else
  if h : bpos < a.nc then
    match a.bufGet bpos with
    | none => (.fault, bpos, seq)
    | some c =>
      match map[c.toNat]? with
      | none => (.fault, bpos, seq)
      | some x =>
        if x ≤ 127 then
          if (if digital then seq.size + 1 < salloc else seq.size < salloc) then
            addbufLoop a map digital salloc (nres - 1) (bpos + 1) (seq.push x)
          else (.fault, bpos, seq)
        else addbufLoop a map digital salloc nres (bpos + 1) seq
  else (.fault, bpos, seq)
termination_by a.nc - bpos

def addbuf (a : Ascii) (sq : Sq) (nres : Nat) : Ascii × Sq × Status :=
  let map := if sq.digital then abcInmap sq.abc else a.inmap
  let (st, bpos, seq) := addbufLoop a map sq.digital sq.salloc nres a.bpos sq.seq
  ({ a with bpos := bpos }, { sq with seq := seq }, st)

def skipbufLoop (a : Ascii) (nskip bpos : Nat) : Status × Nat :=
  if nskip == 0 then (.ok, bpos) else
  if h : bpos < a.nc then
    match a.bufGet bpos with
    | none => (.fault, bpos)
    | some c =>
      match a.inmap[c.toNat]? with
      | none => (.fault, bpos)
      | some x => if x ≤ 127 then skipbufLoop a (nskip - 1) (bpos + 1) else skipbufLoop a nskip (bpos + 1)
  else (.fault, bpos)
termination_by a.nc - bpos

def skipbuf (a : Ascii) (nskip : Nat) : Ascii × Status :=
  let (st, bpos) := skipbufLoop a nskip a.bpos
  ({ a with bpos := bpos }, st)

/-! ## header loops (all are `while (status == eslOK && p(c)) status = nextchar(sqfp, &c);`) -/

def skipWhile (p : UInt8 → Bool) : Nat → Ascii → Status → UInt8 → Ascii × Status × UInt8
  | 0, a, st, c => (a, if st == .ok && p c then .fault else st, c)
  | fuel + 1, a, st, c =>
    if st == .ok && p c then
      let (a, st, c) := nextchar a c
      skipWhile p fuel a st c
    else (a, st, c)

/-- `while (status == eslOK && p(c)) { dst[pos++] = c; if (pos == alloc-1) { realloc; alloc *= 2; } status = nextchar(); }`
    the accumulated bytes are `acc` (`pos = acc.size`); a store at an index ≥ alloc is a fault -/
def storeWhile (p : UInt8 → Bool) : Nat → Ascii → Status → UInt8 → Bytes → Nat → Ascii × Status × UInt8 × Bytes × Nat
  | 0, a, st, c, acc, alloc => (a, if st == .ok && p c then .fault else st, c, acc, alloc)
  | fuel + 1, a, st, c, acc, alloc =>
    if st == .ok && p c then
      if acc.size < alloc then
        let acc := acc.push c
        let alloc := if acc.size == alloc - 1 then alloc * 2 else alloc
        let (a, st, c) := nextchar a c
        storeWhile p fuel a st c acc alloc
      else (a, .fault, c, acc, alloc)
    else (a, st, c, acc, alloc)

def fuelOf (a : Ascii) : Nat := a.file.size + 2

/-! `header_fasta()` is written in stages (the same statements in the same order; each stage holds at most two of the C loops,
    which keeps the block-size-independence proof of every stage small — `Sqio/Sim.lean`). -/

/-- stage 5: skip to the end of the header line (`hoff`), past the end-of-line characters (`doff`), reset the line-geometry
    bookkeeping of the record -/
def hfEnd (a : Ascii) (sq : Sq) (st : Status) (c : UInt8) : Ascii × Sq × Status :=
  let r1 := skipWhile (fun c => c != chNl && c != chCr) (fuelOf a) a st c
  let sq := { sq with hoff := r1.1.boff + r1.1.bpos }
  let r2 := skipWhile (fun c => c == chNl || c == chCr) (fuelOf r1.1) r1.1 r1.2.1 r1.2.2
  if r2.2.1 == .fault then (r2.1, sq, .fault) else
  if r2.2.1 != .ok && r2.2.1 != .eof then (r2.1.fail, sq, .eformat) else
  let sq := { sq with doff := r2.1.boff + r2.1.bpos }
  ({ r2.1 with trk := { r2.1.trk with prvrpl := -1, prvbpl := -1, currpl := 0, curbpl := 0 }, linenumber := r2.1.linenumber + 1 }, sq, .ok)

/-- stage 4: skip blanks, store the description (end-of-line or ctrl-A delimited) -/
def hfDesc (a : Ascii) (sq : Sq) (st : Status) (c : UInt8) : Ascii × Sq × Status :=
  let r1 := skipWhile isBlankTab (fuelOf a) a st c
  let r2 := storeWhile (fun c => c != chNl && c != chCr && c != 1) (fuelOf r1.1) r1.1 r1.2.1 r1.2.2 #[] sq.dalloc
  if r2.2.1 == .fault then (r2.1, sq, .fault) else
  if !(r2.2.2.2.1.size < r2.2.2.2.2) then (r2.1, sq, .fault) else
  hfEnd r2.1 { sq with desc := r2.2.2.2.1, dalloc := r2.2.2.2.2 } r2.2.1 r2.2.2.1

/-- stage 3: skip blanks after `>`, store the name (space delimited) -/
def hfName (a : Ascii) (sq : Sq) (st : Status) (c : UInt8) : Ascii × Sq × Status :=
  let r1 := skipWhile isBlankTab (fuelOf a) a st c
  let r2 := storeWhile (fun c => !isSpace c) (fuelOf r1.1) r1.1 r1.2.1 r1.2.2 #[] sq.nalloc
  if r2.2.1 == .fault then (r2.1, sq, .fault) else
  if r2.2.2.2.1.size == 0 then (r2.1.fail, sq, .eformat) else
  if !(r2.2.2.2.1.size < r2.2.2.2.2) then (r2.1, sq, .fault) else
  hfDesc r2.1 { sq with name := r2.2.2.2.1, nalloc := r2.2.2.2.2 } r2.2.1 r2.2.2.1

/-- stage 2: after the leading white space: accept the `>` (`roff`), take the next character -/
def hfGt (a : Ascii) (sq : Sq) (st : Status) (c : UInt8) : Ascii × Sq × Status :=
  if st == .eof then (a, sq, .eof) else
  if st == .ok && c != chGt then (a.fail, sq, .eformat) else
  if st != .ok && c != chGt then (a.fail, sq, .eformat) else
  -- here c == '>' (status may be a fault that happened while c was already '>': propagate)
  if st != .ok then (a, sq, st) else
  let r := nextchar a c
  hfName r.1 { sq with roff := a.boff + a.bpos } r.2.1 r.2.2

/-- `header_fasta()` -/
def headerFasta (a : Ascii) (sq : Sq) : Ascii × Sq × Status :=
  let (a, st0) := if a.nc == a.bpos then loadbuf a else (a, .ok)
  if st0 != .ok then (a, sq, st0) else
  match a.bufGet a.bpos with
  | none => (a, sq, .fault)
  | some c =>
  let r := skipWhile isSpace (fuelOf a) a .ok c
  hfGt r.1 sq r.2.1 r.2.2

/-- `skip_fasta()` -/
def skipFasta (a : Ascii) (sq : Sq) : Ascii × Sq × Status :=
  -- make sure there are characters in the buffer, as header_fasta does (end_daemon can leave bpos == nc)
  let (a, st0) := if a.nc == a.bpos then loadbuf a else (a, .ok)
  if st0 != .ok then (a, sq, st0) else
  match a.bufGet a.bpos with
  | none => (a, sq, .fault)
  | some c =>
  let (a, st, c) := skipWhile isSpace (fuelOf a) a .ok c
  if st == .eof then (a, sq, .eof) else
  if st == .fault then (a, sq, .fault) else
  if st != .ok then (a.fail, sq, .eformat) else
  if c != chGt then (a.fail, sq, .eformat) else
  let sq := { sq with roff := a.boff + a.bpos, name := #[], acc := #[], desc := #[] }
  let (a, st, c) := nextchar a c
  let (a, st, c) := skipWhile (fun c => c != chNl && c != chCr) (fuelOf a) a st c
  let sq := { sq with doff := a.boff + a.bpos }
  let (a, st, _) := skipWhile (fun c => c == chNl || c == chCr) (fuelOf a) a st c
  if st == .fault then (a, sq, .fault) else
  -- edge case as in header_fasta: the last record of the file may be empty (EOF right after the header line)
  if st != .ok && st != .eof then (a.fail, sq, .eformat) else
  let sq := { sq with doff := a.boff + a.bpos }
  ({ a with linenumber := a.linenumber + 1 }, sq, .ok)

/-- `end_fasta()` -/
def endFasta (a : Ascii) (sq : Sq) : Ascii × Sq × Status :=
  if a.bpos < a.nc then
    match a.bufGet a.bpos with
    | none => (a, sq, .fault)
    | some c => if c != chGt then (a.fail, sq, .eformat) else (a, { sq with eoff := a.boff + a.bpos - 1 }, .ok)
  else (a, sq, .ok)

/-! ## line-based formats: EMBL / UniProt, GenBank / DDBJ -/

/-- `while (cond(buf)) { if ((status = loadbuf(sqfp)) == eslEOF) return eslEOF; }` — returns `.ok` when a line failing `cond` is current -/
def skipLinesWhile (cond : Bytes → Bool) : Nat → Ascii → Ascii × Status
  | 0, a => (a, .fault)
  | fuel + 1, a =>
    if cond a.line then
      let (a, st) := loadbuf a
      if st != .ok then (a, st) else skipLinesWhile cond fuel a
    else (a, .ok)

/-- `esl_sq_AppendDesc` -/
def appendDesc (sq : Sq) (piece : Bytes) : Sq :=
  { sq with desc := if (cstr sq.desc).size > 0 then cstr sq.desc ++ #[32] ++ piece else piece }

/-- the `do { loadbuf; [AC line] [DE line] } while (not SQ line)` loop of `header_embl` (`parse = true`) / `skip_embl` -/
def emblScan (parse : Bool) : Nat → Ascii → Sq → Ascii × Sq × Status
  | 0, a, sq => (a, sq, .fault)
  | fuel + 1, a, sq =>
    let (a, st) := loadbuf a
    if st == .fault then (a, sq, .fault) else
    if st != .ok then (a.fail, sq, .eformat) else
    let r : Option Sq :=
      if parse && hasPrefix a.line "AC   " && (cstr sq.acc).size == 0 then
        match strtok (cstrFrom a.line 5) [59] with
        | none => none
        | some tok => some { sq with acc := tok }
      else some sq
    match r with
    | none => (a.fail, sq, .eformat)
    | some sq =>
    let sq := if parse && hasPrefix a.line "DE   " then appendDesc sq (chopped (a.line.extract 5 a.nc)) else sq
    if hasPrefix a.line "SQ   " then (a, sq, .ok) else emblScan parse fuel a sq

/-- `header_embl()` (`parse = true`) and `skip_embl()` (`parse = false`) -/
def headerEmbl (parse : Bool) (a : Ascii) (sq : Sq) : Ascii × Sq × Status :=
  if a.nc == 0 then (a, sq, .eof) else
  let (a, st) := skipLinesWhile isBlankStr (fuelOf a) a
  if st != .ok then (a, sq, st) else
  if !hasPrefix a.line "ID   " then (a.fail, sq, .eformat) else
  let r : Option Sq :=
    if parse then
      match strtok (cstrFrom a.line 5) [32, 59] with
      | none => none
      | some tok => some { sq with name := tok }
    else some sq
  match r with
  | none => (a.fail, sq, .eformat)
  | some sq =>
  let sq := { sq with roff := a.boff }
  let sq := if parse then sq else { sq with name := #[], acc := #[], desc := #[] }
  let (a, sq, st) := emblScan parse (fuelOf a) a sq
  if st != .ok then (a, sq, st) else
  let (a, st) := loadbuf a
  if st == .fault then (a, sq, .fault) else
  if st != .ok then (a.fail, sq, .eformat) else
  (a, { sq with hoff := a.boff - 1, doff := a.boff }, .ok)

/-- `end_embl()` = `end_genbank()`: the terminator is looked for at the start of the line buffer -/
def endEmbl (a : Ascii) (sq : Sq) : Ascii × Sq × Status :=
  if !hasPrefix a.line "//" then (a.fail, sq, .eformat) else
  let sq := { sq with eoff := a.boff + a.nc - 1 }
  let (a, st) := loadbuf a
  if st == .fault then (a, sq, .fault) else (a, sq, .ok)

/-- the `do { loadbuf; [VERSION] [DEFINITION] } while (not ORIGIN)` loop of `header_genbank` / `skip_genbank` -/
def genbankScan (parse : Bool) : Nat → Ascii → Sq → Ascii × Sq × Status
  | 0, a, sq => (a, sq, .fault)
  | fuel + 1, a, sq =>
    let (a, st) := loadbuf a
    if st == .fault then (a, sq, .fault) else
    if st != .ok then (a.fail, sq, .eformat) else
    let r : Option Sq :=
      if parse && hasPrefix a.line "VERSION   " then
        if a.nc < 12 then none else
        match strtok (cstrFrom a.line 12) [32, 9, 10] with
        | none => none
        | some tok => some { sq with acc := tok }
      else some sq
    match r with
    | none => (a.fail, sq, .eformat)
    | some sq =>
    let sq := if parse && hasPrefix a.line "DEFINITION " && a.nc ≥ 12 then appendDesc sq (chopped (a.line.extract 12 a.nc)) else sq
    if hasPrefix a.line "ORIGIN" then (a, sq, .ok) else genbankScan parse fuel a sq

/-- `header_genbank()` (`parse = true`, with the short-LOCUS repair 742bef8) and `skip_genbank()` -/
def headerGenbank (parse : Bool) (a : Ascii) (sq : Sq) : Ascii × Sq × Status :=
  if a.nc == 0 then (a, sq, .eof) else
  let (a, st) := skipLinesWhile (fun l => !hasPrefix l "LOCUS   ") (fuelOf a) a
  if st != .ok then (a, sq, st) else
  let r : Option Sq :=
    if parse then
      if a.nc < 12 then none else
      match strtok (cstrFrom a.line 12) [32] with
      | none => none
      | some tok => some { sq with name := tok }
    else some sq
  match r with
  | none => (a.fail, sq, .eformat)
  | some sq =>
  let sq := { sq with roff := a.boff }
  let sq := if parse then sq else { sq with name := #[], acc := #[], desc := #[] }
  let (a, sq, st) := genbankScan parse (fuelOf a) a sq
  if st != .ok then (a, sq, st) else
  let (a, st) := loadbuf a
  if st == .fault then (a, sq, .fault) else
  if st != .ok then (a.fail, sq, .eformat) else
  (a, { sq with hoff := a.boff - 1, doff := a.boff }, .ok)

/-- `end_daemon()`'s two skipping loops (after bb4a275): `while (bpos < nc && p(buf[bpos])) bpos++` -/
def endDaemonSkip (p : UInt8 → Bool) : Nat → Ascii → Ascii × Bool
  | 0, a => (a, false)
  | fuel + 1, a =>
    if a.bpos < a.nc then
      match a.bufGet a.bpos with
      | none => (a, false)
      | some x => if p x then endDaemonSkip p fuel { a with bpos := a.bpos + 1 } else (a, true)
    else (a, true)

/-- `end_daemon()`: the `//` terminator, the rest of its line, and the end-of-line characters; stops ON the first character after them -/
def endDaemon (a : Ascii) (sq : Sq) : Ascii × Sq × Status :=
  if a.nc < 3 then (a.fail, sq, .eformat) else
  if a.bpos + 2 > a.nc then (a.fail, sq, .eformat) else       -- both terminator characters must lie in the buffer (b20bbb4)
  match a.bufGet a.bpos with
  | none => (a, sq, .fault)
  | some c1 =>
  let a := { a with bpos := a.bpos + 1 }
  if c1 != 47 then (a.fail, sq, .eformat) else
  match a.bufGet a.bpos with
  | none => (a, sq, .fault)
  | some c2 =>
  let a := { a with bpos := a.bpos + 1 }
  if c2 != 47 then (a.fail, sq, .eformat) else
  let (a, ok1) := endDaemonSkip (fun c => c != chNl && c != chCr) (a.nc + 1) a
  if !ok1 then (a, sq, .fault) else
  let (a, ok2) := endDaemonSkip (fun c => c == chNl || c == chCr) (a.nc + 1) a
  if !ok2 then (a, sq, .fault) else (a, sq, .ok)

/-- `fileheader_hmmpgmd()` -/
def fileheaderHmmpgmd (a : Ascii) : Ascii × Status :=
  match a.bufGet a.bpos with
  | none => (a, .fault)
  | some c =>
  let (a, st, c) := skipWhile isSpace (fuelOf a) a .ok c
  if st == .eof then (a, .eof) else
  if st == .fault then (a, .fault) else
  if c != 35 then (a.fail, .eformat) else
  let (a, st, _) := skipWhile (fun c => c != chNl && c != chCr) (fuelOf a) a st c
  if st == .eof then (a, .eof) else
  if st == .fault then (a, .fault) else (a, .ok)

/-- format dispatch (`ascii->parse_header`, `skip_header`, `parse_end`): FASTA 1, EMBL 2, GenBank 3, DDBJ 4, UniProt 5,
    daemon 7, hmmpgmd 8 -/
def parseHeader (a : Ascii) (sq : Sq) : Ascii × Sq × Status :=
  if a.fmt == 2 || a.fmt == 5 then headerEmbl true a sq
  else if a.fmt == 3 || a.fmt == 4 then headerGenbank true a sq
  else headerFasta a sq
def skipHeader (a : Ascii) (sq : Sq) : Ascii × Sq × Status :=
  if a.fmt == 2 || a.fmt == 5 then headerEmbl false a sq
  else if a.fmt == 3 || a.fmt == 4 then headerGenbank false a sq
  else skipFasta a sq
def parseEnd (a : Ascii) (sq : Sq) : Ascii × Sq × Status :=
  if a.fmt == 2 || a.fmt == 5 || a.fmt == 3 || a.fmt == 4 then endEmbl a sq
  else if a.fmt == 7 then endDaemon a sq
  else endFasta a sq

/-- the `do { seebuf; [GrowTo; addbuf;] L += n; eoff = …; if EOD break; } while (loadbuf == OK)` loop shared (as three
    textual copies) by `sqascii_Read`, `ReadSequence` (`store = true`) and `ReadInfo` (`store = false`).
    Returns the final status (`.eod`, `.eof`, `.eformat`, `.fault`) and `epos`. -/
def scanStep (store : Bool) (a : Ascii) (sq : Sq) : Ascii × Sq × Status × Nat × Bool :=
  -- one pass of the loop body; the last component says whether `loadbuf` returned `eslOK` (go round again)
  let (a, see) := seebuf a none
  if see.st == .fault then (a, sq, .fault, see.endpos, false) else
  if see.st == .eformat && store then (a, sq, .eformat, see.endpos, false) else
  let (a, sq, stA) :=
    if store then
      let sq := sq.growTo (sq.n + see.nres)
      addbuf a sq see.nres
    else (a, sq, Status.ok)
  if stA == .fault then (a, sq, .fault, see.endpos, false) else
  let a := { a with L := a.L + see.nres }
  let sq := { sq with eoff := a.boff + see.endpos - 1 }
  if see.st == .eformat then (a, sq, .eformat, see.endpos, false) else
  if see.st == .eod then (a, sq, .eod, see.endpos, false) else
  let (a, st) := loadbuf a
  (a, sq, st, see.endpos, st == .ok)

def scanLoop (store : Bool) : Nat → Ascii → Sq → Ascii × Sq × Status × Nat
  | 0, a, sq => (a, sq, .fault, 0)
  | fuel + 1, a, sq =>
    let r := scanStep store a sq
    if r.2.2.2.2 then scanLoop store fuel r.1 r.2.1 else (r.1, r.2.1, r.2.2.1, r.2.2.2.1)

/-- coordinates of a complete sequence -/
def Sq.setWhole (sq : Sq) : Sq :=
  let n : Int := sq.n
  { sq with start := 1, end_ := n, C := 0, W := n, L := n }

/-- common part of `sqascii_Read` / `sqascii_ReadSequence` after the header -/
def readBody (a : Ascii) (sq : Sq) : Ascii × Sq × Status :=
  let (a, sq, st, epos) := scanLoop true (fuelOf a) a sq
  if st == .fault || st == .eformat then (a, sq, st) else
  let (a, sq, st) :=
    if st == .eof then
      if !a.eofIsOk then (a.fail, sq, Status.eformat) else parseEnd a sq
    else if st == .eod then parseEnd { a with bpos := epos } sq
    else (a, sq, st)
  if st != .ok then (a, sq, st) else
  if !sq.termOk then (a, sq, .fault) else
  (a, sq.setWhole, .ok)

/-- `sqascii_Read()` (unaligned formats) -/
def read (a : Ascii) (sq : Sq) : Ascii × Sq × Status :=
  if a.nc == 0 then (a, sq, .eof) else
  let (a, sq, st) := parseHeader a sq
  if st != .ok then (a, sq, st) else readBody a sq

/-- `sqascii_ReadSequence()` -/
def readSequence (a : Ascii) (sq : Sq) : Ascii × Sq × Status :=
  if a.nc == 0 then (a, sq, .eof) else
  let (a, sq, st) := skipHeader a sq
  if st != .ok then (a, sq, st) else readBody a sq

/-- `sqascii_ReadInfo()` -/
def readInfo (a : Ascii) (sq : Sq) : Ascii × Sq × Status :=
  if a.nc == 0 then (a, sq, .eof) else
  let (a, sq, st) := parseHeader a sq
  if st != .ok then (a, sq, st) else
  let a := { a with L := 0 }
  let (a, sq, st, epos) := scanLoop false (fuelOf a) a sq
  if st == .fault || st == .eformat then (a, sq, st) else
  let (a, sq, st) :=
    if st == .eof then
      if !a.eofIsOk then (a.fail, sq, Status.eformat) else (a, sq, Status.ok)
    else if st == .eod then parseEnd { a with bpos := epos } sq
    else (a, sq, st)
  if st != .ok then (a, sq, st) else
  if !(if sq.digital then 1 < sq.salloc else 0 < sq.salloc) then (a, sq, .fault) else
  (a, { sq with L := a.L, seq := #[], start := 0, end_ := 0, C := 0, W := 0 }, .ok)

/-- `sqascii_Position()` for an unaligned file -/
def position (a : Ascii) (offset : Nat) : Ascii × Status :=
  let a := { a with fpos := offset, trk := a.trk.reset, linenumber := if offset == 0 then 1 else -1, L := -1, mpos := a.mn }
  loadbuf a

/-! ## read_nres -/

/-- first loop of `read_nres` -/
def nresSkipLoop : Nat → Ascii → (nskip nres : Nat) → See → Ascii × Nat × See × Status
  | 0, a, nskip, _, see => (a, nskip, see, .fault)
  | fuel + 1, a, nskip, nres, see =>
    if see.st == .ok && nskip > see.nres then
      let nskip := nskip - see.nres
      let (a, st) := loadbuf a
      if st == .eof then (a, nskip, see, .eof) else
      let (a, see) := seebuf a (some (nskip + nres))
      nresSkipLoop fuel a nskip nres see
    else (a, nskip, see, see.st)

/-- second loop of `read_nres` -/
def nresAddLoop : Nat → Ascii → Sq → (nres n actual epos : Nat) → Status → Ascii × Sq × Nat × Nat × Nat × Nat × Status
  | 0, a, sq, nres, n, actual, epos, _ => (a, sq, nres, n, actual, epos, .fault)
  | fuel + 1, a, sq, nres, n, actual, epos, st =>
    if st == .ok && nres > n then
      let (a, sq, stA) := addbuf a sq n
      if stA == .fault then (a, sq, nres, n, actual, epos, .fault) else
      let actual := actual + n
      let nres := nres - n
      let (a, st) := loadbuf a
      if st == .eof then (a, sq, nres, n, actual, epos, .eof) else
      let (a, see) := seebuf a (some nres)
      nresAddLoop fuel a sq nres see.nres actual see.endpos see.st
    else (a, sq, nres, n, actual, epos, st)

/-- `read_nres(sqfp, sq, nskip, nres, &actual_nres)` -/
def readNres (a : Ascii) (sq : Sq) (nskip nres : Nat) : Ascii × Sq × Status × Nat :=
  let (a, see) := seebuf a (some (nskip + nres))
  let (a, nskip, see, st) := nresSkipLoop (fuelOf a) a nskip nres see
  if st == .fault then (a, sq, .fault, 0) else
  -- status dispatch after the first loop
  let r : Option (Ascii × Status) × Nat :=      -- (early return, n)
    if st == .eof then
      if !a.eofIsOk then (some (a.fail, .eformat), 0)
      else if nskip > 0 then (some (a.raise, .ecorrupt), 0)
      else (none, 0)
    else if st == .eod then
      if see.nres < nskip then (some (a.raise, .ecorrupt), 0) else (none, see.nres)
    else if st != .ok then (some (a, st), 0)
    else (none, see.nres)
  match r with
  | (some (a, s), _) => (a, sq, s, 0)
  | (none, n) =>
  let (a, stS) := skipbuf a nskip
  if stS == .fault then (a, sq, .fault, 0) else
  let n := n - nskip
  let (a, sq, nres, n, actual, epos, st) := nresAddLoop (fuelOf a) a sq nres n 0 see.endpos st
  if st == .fault then (a, sq, .fault, 0) else
  if st == .eof && !a.eofIsOk then (a.fail, sq, .eformat, 0) else
  if st == .eformat then (a, sq, .eformat, 0) else
  let n := if st == .eof then 0 else n
  let n := min nres n
  let (a, sq, stA) := addbuf a sq n
  if stA == .fault then (a, sq, .fault, 0) else
  let actual := actual + n
  if !sq.termOk then (a, sq, .fault, 0) else
  let a := if st == .eod then { a with bpos := epos } else a
  (a, sq, if actual == 0 then .eod else .ok, actual)

/-! ## reverse complement (`esl_sq_ReverseComplement`) -/

def compText (c : UInt8) : UInt8 × Bool :=
  -- (complement, valid)
  let tbl : List (Char × Char) := [('A','T'),('C','G'),('G','C'),('T','A'),('U','A'),('R','Y'),('Y','R'),('M','K'),('K','M'),
    ('S','S'),('W','W'),('H','D'),('B','V'),('V','B'),('D','H'),('N','N'),('X','X'),
    ('a','t'),('c','g'),('g','c'),('t','a'),('u','a'),('r','y'),('y','r'),('m','k'),('k','m'),
    ('s','s'),('w','w'),('h','d'),('b','v'),('v','b'),('d','h'),('n','n'),('x','x'),
    ('.','.'),('_','_'),('-','-'),('~','~'),('*','*')]
  match tbl.find? (fun p => p.1.toNat == c.toNat) with
  | some p => (UInt8.ofNat p.2.toNat, true)
  | none => (78, false)

/-- returns the new `sq` and the status (`einval` text with a non-nucleic symbol, `eincompat` + exception for an
    alphabet without complement, `fault` if a digital code is outside the complement table) -/
def revcomp (sq : Sq) : Sq × Status × Bool :=
  if !sq.digital then
    let cs := sq.seq.map compText
    let ok := cs.all (·.2)
    ({ sq with seq := (cs.map (·.1)).reverse, start := sq.end_, end_ := sq.start }, if ok then .ok else .einval, false)
  else
    let tbl := abcComp sq.abc
    if tbl.size == 0 then (sq, .eincompat, true) else
    if sq.seq.all (fun x => x.toNat < tbl.size) then
      ({ sq with seq := (sq.seq.map fun x => tbl.getD x.toNat 0).reverse, start := sq.end_, end_ := sq.start }, .ok, false)
    else (sq, .fault, false)

/-! ## ReadWindow -/

/-- the three-way offset computation used by the reverse-strand window reader (same arithmetic as `esl_ssi_FindSubseq`):
    returns (byte offset relative to `doff`, actual_start) -/
def subseqOffset (bpl rpl : Int) (start : Int) : Int × Int :=
  if bpl ≤ 0 || rpl ≤ 0 then (0, 1)      -- unset (−1) or invalidated (0): brute force
  else if bpl == rpl + 1 then
    (((start - 1) / rpl) * bpl + (start - 1) % rpl, start)
  else
    (((start - 1) / rpl) * bpl, 1 + ((start - 1) / rpl) * rpl)

/-- forward strand, window other than the first: `sq->C = MIN(C, sq->n); if (sq->C >= C) { memmove…; sq->start = ascii->L - sq->C + 1; sq->n = C; }`.
    Arguments: the caller's `C`, the residues held (`sq->n`), the residues delivered so far (`ascii->L`), `sq->start`.
    Returns the new `sq->C`, `sq->start` and the number of trailing residues kept as context. -/
def fwdSlide (C : Int) (n : Nat) (L start : Int) : Int × Int × Nat :=
  let c := min C (n : Int)
  if c ≥ C then (c, L - c + 1, c.toNat) else (c, start, n)

/-- reverse strand, first window: `sq->start = ESL_MAX(1, L-W+1); sq->end = L; C = 0; W = end-start+1` → (start, end) -/
def revInit (L W : Int) : Int × Int := (max 1 (L - W + 1), L)

/-- reverse strand, later windows; `prevLow` is `sq->end` of the previous window (its lower coordinate, after the swap done by
    `esl_sq_ReverseComplement`). Returns (C, end, start, W). -/
def revNext (L C W prevLow : Int) : Int × Int × Int × Int :=
  let c := min C (L - prevLow + 1)
  let e := prevLow + c - 1
  let st := max 1 (e - W - c + 1)
  (c, e, st, e - st + 1 - c)

/-- `sqascii_ReadWindow()` (unaligned formats). `W < 0` reads the reverse strand. -/
def readWindow (a : Ascii) (sq : Sq) (C W : Int) : Ascii × Sq × Status :=
  if W < 0 then
    if sq.L == -1 then (a.raise, sq, .esyntax) else
    if sq.end_ == 1 || sq.L == 0 then
      let (a, stp) :=
        if a.bookmarkOff > 0 then
          let (a, st) := position a a.bookmarkOff.toNat
          if st != .ok then (a.raise, Status.ecorrupt) else ({ a with linenumber := a.bookmarkLine }, Status.ok)
        else ({ a with nc := 0 }, Status.ok)
      if stp != .ok then (a, sq, stp) else
      let a := { a with bookmarkOff := 0, bookmarkLine := 0 }
      if !(if sq.digital then 1 < sq.salloc else 0 < sq.salloc) then (a, sq, .fault) else
      (a, { sq with start := 0, end_ := 0, C := 0, W := 0, seq := #[] }, .eod)
    else
    let W := -W
    let (a, sq) :=
      if sq.start == 0 then
        let (st, e) := revInit sq.L W
        ({ a with trk := a.trk.reset, linenumber := -1, L := -1 },
         { sq with start := st, end_ := e, C := 0, W := e - st + 1 })
      else
        let (c, e, st, w) := revNext sq.L C W sq.end_
        (a, { sq with C := c, end_ := e, start := st, W := w })
    let (rel, actualStart) := subseqOffset a.trk.bpl a.trk.rpl sq.start
    let offset := sq.doff + rel
    if offset < 0 then (a.raise, sq, .einval) else
    let (a, st) := position a offset.toNat
    if st != .ok then (a.raise, sq, .ecorrupt) else
    let sq := sq.growTo (sq.C + sq.W).toNat
    let sq := { sq with seq := #[] }
    let want := sq.end_ - sq.start + 1
    let (a, sq, st, nres) := readNres a sq (sq.start - actualStart).toNat want.toNat
    if st == .fault then (a, sq, .fault) else
    if st != .ok || (nres : Int) < want then (a.raise, sq, .ecorrupt) else
    let (sq, st, exc) := revcomp sq
    let a := if exc then a.raise else a
    if st == .einval then (a.fail, sq, .einval) else
    if st != .ok then (a, sq, st) else
    (a, sq, .ok)
  else
    -- forward strand
    let r : Option (Ascii × Sq × Status) × Ascii × Sq :=
      if sq.start == 0 then
        if a.nc == 0 then (some (a, sq, .eof), a, sq) else
        let (a, sq, st) := parseHeader a sq
        if st != .ok then (some (a, sq, st), a, sq) else
        (none, { a with L := 0 }, { sq with start := 1, C := 0, L := -1, source := cstr sq.name })
      else
        -- context full: slide it to the front (keep = C); else keep everything read so far
        let (c, st, keep) := fwdSlide C sq.n a.L sq.start
        (none, a, { sq with C := c, seq := sq.seq.extract (sq.n - keep) sq.n, start := st })
    match r with
    | (some res, _, _) => res
    | (none, a, sq) =>
    if C < 0 || W < 0 then (a, sq, .fault) else
    -- in the full-context branch the C code sets sq->n = C (the caller's C, equal to sq->C there)
    let sq := sq.growTo (C + W).toNat
    let (a, sq, st, nres) := readNres a sq 0 W.toNat
    let a := { a with L := a.L + nres }
    if st == .eod then
      let (a, sq, st) := parseEnd a sq
      if st != .ok then (a, sq, st) else
      let a :=
        if a.nc > 0 then { a with bookmarkOff := a.boff + a.bpos }
        else { a with bookmarkOff := 0, bookmarkLine := 0 }
      if !(if sq.digital then 1 < sq.salloc else 0 < sq.salloc) then (a, sq, .fault) else
      (a, { sq with start := 0, end_ := 0, C := 0, W := 0, L := a.L, seq := #[] }, .eod)
    else if st == .ok then
      (a, { sq with end_ := sq.start + sq.C + nres - 1, W := nres }, .ok)
    else (a, sq, st)

/-! ## ReadBlock -/

/-- `skip_whitespace()` -/
def skipWsLoop : Nat → Ascii → UInt8 → Ascii × Status × UInt8
  | 0, a, c => (a, .fault, c)
  | fuel + 1, a, c =>
    if isSpace c then
      let a := { a with bpos := a.bpos + 1 }
      let (a, st) := if a.bpos == a.nc then loadbuf a else (a, Status.ok)
      if st == .eof then (a, .eof, c) else
      if st == .fault then (a, .fault, c) else
      match a.bufGet a.bpos with
      | none => (a, .fault, c)
      | some c' => skipWsLoop fuel a c'      -- a byte ≥ 0x80 is not white space: the loop ends on it
    else (a, .ok, c)

def skipWhitespace (a : Ascii) : Ascii × Status :=
  if a.nc == 0 then (a, .eof) else
  let (a, st) := if a.bpos == a.nc then loadbuf a else (a, Status.ok)
  if st == .eof then (a, .eof) else
  if st == .fault then (a, .fault) else
  match a.bufGet a.bpos with
  | none => (a, .fault)
  | some c =>
    let (a, st, c) := skipWsLoop (fuelOf a) a c
    if st != .ok then (a, st) else
    if c ≥ 128 then (a, .ok) else         -- x = isascii(c) ? inmap[c] : ILLEGAL (repair): not EOD
    match a.inmap[c.toNat]? with
    | none => (a, .fault)
    | some x => if x == dsqEod then (a, .eod) else (a, .ok)

/-- an `ESL_SQ_BLOCK` -/
structure Block where
  count : Nat := 0
  listSize : Nat := 0
  complete : Bool := true
  list : Array Sq := #[]
  deriving Inhabited

def maxResidueCount : Nat := 1024 * 1024

/-- `esl_sq_Copy(src, dst)` between objects of the same mode (allocations of `dst` are kept / grown) -/
def Sq.copyFrom (dst src : Sq) : Sq :=
  let dst := dst.growTo src.n
  { dst with name := cstr src.name, source := cstr src.source, acc := cstr src.acc, desc := cstr src.desc, seq := src.seq,
             start := src.start, end_ := src.end_, C := src.C, W := src.W, L := src.L,
             roff := src.roff, doff := src.doff, hoff := src.hoff, eoff := src.eoff }

/-- the loop of the `!long_target` branch -/
def blockShortLoop : Nat → Ascii → Block → (i size maxSeq : Nat) → Status → Ascii × Block × Nat × Status
  | 0, a, b, i, _, _, _ => (a, b, i, .fault)
  | fuel + 1, a, b, i, size, maxSeq, st =>
    if i < maxSeq && size < maxResidueCount then
      let (a, sq, st) := read a (b.list.getD i {})
      let b := { b with list := b.list.setIfInBounds i sq }
      if st != .ok then (a, b, i, st) else
      blockShortLoop fuel a { b with count := b.count + 1 } (i + 1) (size + sq.n) maxSeq st
    else (a, b, i, st)

/-- the main loop of the `long_target` branch; returns `(…, some status)` for an early `return` -/
def blockLongLoop : Nat → Ascii → Block → Sq → (i size maxSeq maxRes : Nat) → (maxInit : Bool) → Status →
    Ascii × Block × Nat × Status × Bool
  | 0, a, b, _, i, _, _, _, _, _ => (a, b, i, .fault, true)
  | fuel + 1, a, b, tmp, i, size, maxSeq, maxRes, maxInit, st =>
    if i < maxSeq && size < maxRes then
      let request : Nat := if maxInit then maxRes else max (maxRes - size) (maxRes / 20)
      let tmp := tmp.reuse
      let li := (b.list.getD i {}).reuse
      let (a, tmp, st) := readWindow a tmp 0 request
      let li := li.copyFrom tmp
      let b := { b with list := b.list.setIfInBounds i li }
      if st != .ok && st != .eod then (a, b, i, st, false) else
      let size := size + (li.n - li.C.toNat)
      let li := { li with L := a.L }
      let b := { b with list := b.list.setIfInBounds i li, count := b.count + 1 }
      if size ≥ maxRes then
        let (a, st2) := skipWhitespace a
        if st2 == .fault then (a, b, i, .fault, true) else
        (a, { b with complete := st2 != .ok }, i, .ok, true)
      else if st == .eod then
        let b := { b with list := b.list.setIfInBounds i { li with L := 0 } }
        blockLongLoop fuel a b tmp (i + 1) size maxSeq maxRes maxInit .ok
      else
        let tmp := { tmp.reuse with start := li.start, C := 0 }
        let (a, tmp, st) := readWindow a tmp 0 maxRes
        if st != .eod then (a, b, i, st, true) else
        blockLongLoop fuel a b tmp (i + 1) size maxSeq maxRes maxInit .ok
    else (a, b, i, st, false)

/-- `sqascii_ReadBlock()` -/
def readBlock (a : Ascii) (b : Block) (maxRes maxSeq : Int) (maxInit longT : Bool) : Ascii × Block × Status :=
  let b := { b with count := 0 }
  let maxSeq : Nat := if maxSeq < 1 || maxSeq > b.listSize then b.listSize else maxSeq.toNat
  if !longT then
    let (a, b, i, st) := blockShortLoop (fuelOf a) a b 0 0 maxSeq .ok
    if st == .fault then (a, b, .fault) else
    let st := if st == .eof && i > 0 then Status.ok else st
    (a, { b with complete := true }, st)
  else
    let maxRes : Nat := if maxRes < 1 then maxResidueCount else maxRes.toNat
    let l0 := b.list.getD 0 {}
    let tmp : Sq := { digital := true, abc := l0.abc }
    -- continuation of an incomplete window
    let pre : Ascii × Block × Nat × Nat × Status × Option Status :=     -- (a, b, i, size, status, early return)
      if !b.complete then
        let (a, l0, st) := readWindow a l0 l0.C maxRes
        let b := { b with list := b.list.setIfInBounds 0 l0 }
        if st == .ok then
          let size := l0.n - l0.C.toNat
          let l0 := { l0 with L := a.L }
          let b := { b with list := b.list.setIfInBounds 0 l0, count := 1 }
          if size == maxRes then
            let (a, st2) := skipWhitespace a
            if st2 == .fault then (a, b, 1, size, .fault, some .fault) else
            (a, { b with complete := st2 != .ok }, 1, size, .ok, some .ok)
          else
            let tmp := { tmp.reuse with start := l0.start, C := 0 }
            let (a, _, st) := readWindow a tmp 0 maxRes
            if st != .eod then (a, b, 1, size, st, some st) else (a, b, 1, size, .ok, none)
        else if st == .eod then (a, b, 0, 0, .eod, none)
        else (a, b, 0, 0, st, some st)
      else (a, b, 0, 0, .ok, none)
    match pre with
    | (a, b, _, _, _, some st) => (a, b, st)
    | (a, b, i, size, st, none) =>
      let (a, b, i, st, early) := blockLongLoop (fuelOf a) a b tmp i size maxSeq maxRes maxInit st
      if early then (a, b, st) else
      let st := if st == .eof && i > 0 then Status.ok else st
      (a, { b with complete := true }, st)

/-! ## esl_sqascii_WriteFasta -/

def chunk60 (l : List UInt8) : Nat → List UInt8
  | 0 => []
  | fuel + 1 => if l.isEmpty then [] else l.take 60 ++ [chNl] ++ chunk60 (l.drop 60) fuel

/-- bytes written by `esl_sqascii_WriteFasta` for a text-mode record, or a digital one (textized through `sym`) -/
def writeFasta (sq : Sq) : List UInt8 :=
  let name := (cstr sq.name).toList
  let acc := (cstr sq.acc).toList
  let desc := (cstr sq.desc).toList
  let res : List UInt8 :=
    if sq.digital then sq.seq.toList.map (fun x => (abcSym sq.abc).getD x.toNat 63) else sq.seq.toList
  [chGt] ++ name ++ (if acc.isEmpty then [] else 32 :: acc) ++ (if desc.isEmpty then [] else 32 :: desc) ++ [chNl]
    ++ chunk60 res (res.length + 1)

end EaselModel.Sqio
