import EaselModel.Sqio.Model
/-! # What the bytes/residues-per-line tracker of `seebuf` does and does not guarantee (C07, C04) -/
namespace EaselModel.Sqio.Tracker

/-- the tracker-relevant events of a scan: a record header (`header_*` resets `prv*` to −1, `cur*` to 0) and an
    end-of-line seen by `seebuf` with the line's bytes and residues -/
inductive Ev
  | hdr
  | eol (b r : Int)
  deriving Repr, DecidableEq

def step (t : Track) : Ev → Track
  | .hdr => { t with prvrpl := -1, prvbpl := -1, currpl := 0, curbpl := 0 }
  | .eol b r => t.onEol b r

def run (t : Track) (evs : List Ev) : Track := evs.foldl step t

/-- the events of a file given as records of terminated lines -/
def events (recs : List (List (Int × Int))) : List Ev :=
  recs.flatMap fun lines => Ev.hdr :: lines.map fun ln => Ev.eol ln.1 ln.2

theorem onEol_rpl (t : Track) (b r : Int) :
    (t.onEol b r).rpl =
      if t.rpl ≠ 0 ∧ t.prvrpl ≠ -1 then
        (if t.rpl = -1 then t.prvrpl else if t.prvrpl ≠ t.rpl then 0
         else if (if t.currpl ≠ -1 then t.currpl + r else t.currpl) > t.rpl then 0 else t.rpl)
      else t.rpl := by
  simp only [Track.onEol, bne_iff_ne, ne_eq, Bool.and_eq_true, beq_iff_eq, ite_not]

theorem onEol_prvrpl (t : Track) (b r : Int) :
    (t.onEol b r).prvrpl = if t.currpl ≠ -1 then t.currpl + r else t.currpl := by
  simp [Track.onEol]

theorem onEol_currpl (t : Track) (b r : Int) : (t.onEol b r).currpl = 0 := by simp [Track.onEol]

theorem step_currpl (t : Track) (e : Ev) : (step t e).currpl = 0 := by
  cases e <;> simp [step, onEol_currpl]

theorem step_rpl_cases (t : Track) (e : Ev) :
    (step t e).rpl = t.rpl ∨ (step t e).rpl = 0 ∨ t.rpl = -1 := by
  cases e with
  | hdr => left; rfl
  | eol b r =>
    simp only [step, onEol_rpl]
    repeat' split
    all_goals first | (left; rfl) | (right; left; rfl) | (right; right; assumption)

theorem run_rpl_mono (evs : List Ev) (t : Track) (p : Int) (hp : p > 0) (h : (run t evs).rpl = p) :
    t.rpl = p ∨ t.rpl = -1 := by
  induction evs generalizing t with
  | nil => left; exact h
  | cons e rest ih =>
    have h' : (run (step t e) rest).rpl = p := h
    rcases ih (step t e) h' with h1 | h1
    · rcases step_rpl_cases t e with h2 | h2 | h2
      · left; omega
      · omega
      · right; exact h2
    · rcases step_rpl_cases t e with h2 | h2 | h2
      · right; omega
      · omega
      · right; exact h2

theorem run_append (t : Track) (a b : List Ev) : run t (a ++ b) = run (run t a) b := by
  simp [run, List.foldl_append]

/-- **What the tracker guarantees.** If a scan ends with `rpl = p > 0`, every line that was followed by another terminated
    line of the same record (two consecutive end-of-line events, something before them) has exactly `p` residues. -/
theorem checked_lines_have_rpl (pre post : List Ev) (b1 r1 b2 r2 : Int) (t0 : Track) (p : Int)
    (hpre : pre ≠ []) (hr1 : r1 ≥ 0) (hp : p > 0)
    (h : (run t0 (pre ++ [Ev.eol b1 r1, Ev.eol b2 r2] ++ post)).rpl = p) : r1 = p := by
  rw [run_append, run_append] at h
  -- state before the two lines: currpl = 0
  have hcur : (run t0 pre).currpl = 0 := by
    obtain ⟨init, e, rfl⟩ : ∃ init e, pre = init ++ [e] := ⟨pre.dropLast, pre.getLast hpre, (List.dropLast_concat_getLast hpre).symm⟩
    rw [run_append]; simp [run, step_currpl]
  generalize run t0 pre = t at h hcur
  have hrun : run t [Ev.eol b1 r1, Ev.eol b2 r2] = (t.onEol b1 r1).onEol b2 r2 := rfl
  rw [hrun] at h
  have hm := run_rpl_mono post _ p hp h
  have hprv : (t.onEol b1 r1).prvrpl = r1 := by rw [onEol_prvrpl, hcur]; simp
  rw [onEol_rpl, hprv] at hm
  split at hm
  · split at hm
    · omega
    · split at hm
      · omega
      · split at hm
        · omega
        · rename_i h3 _; omega
  · rename_i h1
    have hz : (t.onEol b1 r1).rpl = 0 := by
      by_cases hz : (t.onEol b1 r1).rpl = 0
      · exact hz
      · exact absurd ⟨hz, by omega⟩ h1
    omega

/-- the same statement for bytes per line -/
theorem onEol_bpl (t : Track) (b r : Int) :
    (t.onEol b r).bpl =
      if t.bpl ≠ 0 ∧ t.prvbpl ≠ -1 then
        (if t.bpl = -1 then t.prvbpl else if t.prvbpl ≠ t.bpl then 0
         else if (if t.curbpl ≠ -1 then t.curbpl + b else t.curbpl) > t.bpl then 0 else t.bpl)
      else t.bpl := by
  simp only [Track.onEol, bne_iff_ne, ne_eq, Bool.and_eq_true, beq_iff_eq, ite_not]

end EaselModel.Sqio.Tracker
