import EaselModel.Sqio.TrackLemmas
/-! # What the bytes/residues-per-line tracker of `seebuf` guarantees (C07, C04)

The tracker as repaired by 283ccd7 (`seebuf_linegeometry()`): events of a scan, one per line (`Sqio/Fold.lean`: the batched
bookkeeping of `seebuf` over buffers is the same as one update per line). `tracker_sound`: if a scan of ANY file ends with
`rpl = p > 0`, `bpl = q > 0`, every record has the geometry `(q, p)`: each line followed by another line of its record has exactly
`q` bytes and `p` residues, no line (last, only, unterminated) has more than `p` residues or more ignored bytes than a full line. -/
namespace EaselModel.Sqio.Tracker
open EaselModel.Sqio

/-- the tracker-relevant events of a scan: a record header (`header_*` resets `prv*` to −1, `cur*` to 0), an end-of-line seen by
    `seebuf` with the line's bytes (newline included) and residues, and the end of `seebuf` on an unterminated stretch (the last
    line of a record that ends at EOF or at the EOD character) -/
inductive Ev
  | hdr
  | eol (b r : Int)
  | stop (b r : Int)
  deriving Repr, DecidableEq

def step (t : Track) : Ev → Track
  | .hdr => { t with prvrpl := -1, prvbpl := -1, currpl := 0, curbpl := 0 }
  | .eol b r => t.onEol b r
  | .stop b r => t.onStop b r

def run (t : Track) (evs : List Ev) : Track := evs.foldl step t

/-- the events of a file given as records of terminated lines -/
def events (recs : List (List (Int × Int))) : List Ev :=
  recs.flatMap fun lines => Ev.hdr :: lines.map fun ln => Ev.eol ln.1 ln.2

theorem run_append (t : Track) (a b : List Ev) : run t (a ++ b) = run (run t a) b := by
  simp [run, List.foldl_append]

/-- the tracker is between two lines of a record: `cur*` = 0 and `prv*` describe the previous line `pl` of the record (none: −1) -/
structure Ready (t : Track) (pl : Option (Int × Int)) : Prop where
  cr : t.currpl = 0
  cb : t.curbpl = 0
  pr : t.prvrpl = match pl with | none => -1 | some l => l.2
  pb : t.prvbpl = match pl with | none => -1 | some l => l.1
  pw : ∀ l, pl = some l → 0 ≤ l.2 ∧ 1 ≤ l.1

/-- closed form of one more line (`atEol`: terminated, `b` counts the newline) from a `Ready` state, before the `prv`/`cur` shift -/
theorem lg_ready (t : Track) (b r : Int) (e : Bool) (hcr : t.currpl = 0) (hcb : t.curbpl = 0) (hb : 0 < b) (hr : 0 ≤ r) :
    let u := (t.advance b r).lineGeometry e
    let x := b - r - (if e then 1 else 0)
    let R := Track.fullLine t.prvrpl t.prvbpl t.rpl
    let B := Track.fullLine t.prvbpl t.prvrpl t.bpl
    let M := if r > t.maxrpl then r else t.maxrpl
    let N := if x > t.maxxpl then x else t.maxxpl
    u.maxrpl = M ∧ u.maxxpl = N ∧
    u.rpl = (if R > 0 ∧ B > 0 ∧ (M > R ∨ N > B - R - 1) then 0 else R) ∧
    u.bpl = (if R > 0 ∧ B > 0 ∧ (M > R ∨ N > B - R - 1) then 0 else B) ∧
    u.currpl = r ∧ u.curbpl = b ∧ u.prvrpl = t.prvrpl ∧ u.prvbpl = t.prvbpl := by
  intro u x R B M N
  generalize hv : t.advance b r = v
  have a5 : v.currpl = r := by rw [← hv]; simp [Track.advance, hcr]
  have a6 : v.curbpl = b := by rw [← hv]; simp [Track.advance, hcb]
  have a1 : v.rpl = t.rpl := by rw [← hv]; rfl
  have a2 : v.bpl = t.bpl := by rw [← hv]; rfl
  have a3 : v.prvrpl = t.prvrpl := by rw [← hv]; rfl
  have a4 : v.prvbpl = t.prvbpl := by rw [← hv]; rfl
  have a7 : v.maxrpl = t.maxrpl := by rw [← hv]; rfl
  have a8 : v.maxxpl = t.maxxpl := by rw [← hv]; rfl
  have act : ¬(v.curbpl ≤ 0 ∨ v.currpl = -1) := by rw [a5, a6]; omega
  have vR : v.R = R := by show Track.fullLine v.prvrpl v.prvbpl v.rpl = _; rw [a1, a3, a4]
  have vB : v.Bq = B := by show Track.fullLine v.prvbpl v.prvrpl v.bpl = _; rw [a2, a3, a4]
  have vM : v.mxR = M := by show (if v.currpl > v.maxrpl then v.currpl else v.maxrpl) = _; rw [a5, a7]
  have vN : v.mxX e = N := by
    show (if v.curbpl - v.currpl - (if e then 1 else 0) > v.maxxpl then v.curbpl - v.currpl - (if e then 1 else 0) else v.maxxpl) = _
    rw [a5, a6, a8]
  obtain ⟨g1, g2, g3, g4⟩ := lg_cur v e
  have b1 := lg_rpl v e
  have b2 := lg_bpl v e
  have b3 := lg_maxrpl v e
  have b4 := lg_maxxpl v e
  simp only [act, if_false] at b1 b2 b3 b4
  rw [vR, vB, vM, vN] at b1 b2
  rw [vM] at b3
  rw [vN] at b4
  have hu : u = v.lineGeometry e := by show (t.advance b r).lineGeometry e = _; rw [hv]
  rw [hu]
  exact ⟨b3, b4, b1, b2, by rw [g1, a5], by rw [g2, a6], by rw [g3, a3], by rw [g4, a4]⟩

/-- a line as (bytes, residues, ignored bytes: neither residue nor the newline) -/
abbrev Line := Int × Int × Int
/-- a terminated line given as (bytes incl. the newline, residues) -/
def tl (l : Int × Int) : Line := (l.1, l.2, l.1 - l.2 - 1)
/-- an unterminated line -/
def ul (l : Int × Int) : Line := (l.1, l.2, l.1 - l.2)

/-- what the tracker state knows about the lines seen so far (`lines`) and those of them that were followed by another line of
    their record (`nl`) -/
structure Good (t : Track) (lines nl : List Line) : Prop where
  cov : ∀ l ∈ lines, l.2.1 ≤ t.maxrpl ∧ l.2.2 ≤ t.maxxpl
  full : t.rpl > 0 → t.bpl > 0 → (∀ l ∈ nl, l.1 = t.bpl ∧ l.2.1 = t.rpl) ∧ t.maxrpl ≤ t.rpl ∧ t.maxxpl ≤ t.bpl - t.rpl - 1
  fresh : t.rpl = -1 → nl = []
  both : t.rpl = -1 ↔ t.bpl = -1

theorem good_line (t : Track) (lines nl : List Line) (pl : Option (Int × Int)) (b r : Int) (e : Bool)
    (hg : Good t lines nl) (hrd : Ready t pl) (hb : 0 < b) (h0 : 0 ≤ r) :
    Good ((t.advance b r).lineGeometry e) (lines ++ [(b, r, b - r - (if e then 1 else 0))]) (nl ++ pl.toList.map tl) := by
  obtain ⟨u1, u2, u3, u4, _, _, _, _⟩ := lg_ready t b r e hrd.cr hrd.cb hb h0
  generalize (t.advance b r).lineGeometry e = u at *
  generalize b - r - (if e then 1 else 0) = x at *
  have hM : t.maxrpl ≤ (if r > t.maxrpl then r else t.maxrpl) ∧ r ≤ (if r > t.maxrpl then r else t.maxrpl) := by
    split <;> omega
  have hN : t.maxxpl ≤ (if x > t.maxxpl then x else t.maxxpl) ∧ x ≤ (if x > t.maxxpl then x else t.maxxpl) := by
    split <;> omega
  generalize (if r > t.maxrpl then r else t.maxrpl) = M at *
  generalize (if x > t.maxxpl then x else t.maxxpl) = N at *
  obtain ⟨cov, full, fresh, both⟩ := hg
  have hpr := hrd.pr
  have hpb := hrd.pb
  have hpw := hrd.pw
  -- the widths after the "previous line is a full line" test, and what they say about the previous line
  have hRB : (pl = none → Track.fullLine t.prvrpl t.prvbpl t.rpl = t.rpl ∧ Track.fullLine t.prvbpl t.prvrpl t.bpl = t.bpl) ∧
      (∀ l, pl = some l →
        (t.rpl = -1 → Track.fullLine t.prvrpl t.prvbpl t.rpl = l.2 ∧ Track.fullLine t.prvbpl t.prvrpl t.bpl = l.1) ∧
        (t.rpl ≠ -1 → (Track.fullLine t.prvrpl t.prvbpl t.rpl = t.rpl ∧ l.2 = t.rpl ∨ Track.fullLine t.prvrpl t.prvbpl t.rpl = 0) ∧
                      (Track.fullLine t.prvbpl t.prvrpl t.bpl = t.bpl ∧ l.1 = t.bpl ∨ Track.fullLine t.prvbpl t.prvrpl t.bpl = 0))) := by
    constructor
    · intro h; subst h; simp only at hpr hpb; unfold Track.fullLine; rw [hpr]; simp
    · intro l h; subst h; simp only at hpr hpb
      have := hpw l rfl
      unfold Track.fullLine; rw [hpr, hpb]
      constructor
      · intro h1; have h2 := both.mp h1; rw [h1, h2]; simp; omega
      · intro h1; have h2 : t.bpl ≠ -1 := fun h => h1 (both.mpr h)
        constructor <;> omega
  generalize Track.fullLine t.prvrpl t.prvbpl t.rpl = R at *
  generalize Track.fullLine t.prvbpl t.prvrpl t.bpl = B at *
  by_cases hbad : R > 0 ∧ B > 0 ∧ (M > R ∨ N > B - R - 1)
  · rw [if_pos hbad] at u3 u4
    refine ⟨?_, ?_, ?_, ?_⟩
    · intro l hl
      rw [List.mem_append, List.mem_singleton] at hl
      rcases hl with hl | rfl
      · have := cov l hl; omega
      · simp only; omega
    · intro hp; omega
    · intro h1; omega
    · omega
  · rw [if_neg hbad] at u3 u4
    refine ⟨?_, ?_, ?_, ?_⟩
    · intro l hl
      rw [List.mem_append, List.mem_singleton] at hl
      rcases hl with hl | rfl
      · have := cov l hl; omega
      · simp only; omega
    · intro hp hq
      refine ⟨?_, by omega, by omega⟩
      intro l hl
      rw [List.mem_append] at hl
      cases pl with
      | none =>
        have := hRB.1 rfl
        simp at hl
        have f := (full (by omega) (by omega)).1 l hl
        omega
      | some l0 =>
        have k := hRB.2 l0 rfl
        by_cases h1 : t.rpl = -1
        · have := fresh h1
          subst this
          simp [tl] at hl
          subst hl
          have := k.1 h1
          simp only; omega
        · have k2 := k.2 h1
          have h2 : t.bpl ≠ -1 := fun h => h1 (both.mpr h)
          rcases hl with hl | hl
          · have f := (full (by omega) (by omega)).1 l hl
            omega
          · simp [tl] at hl
            subst hl
            simp only; omega
    · intro h1
      cases pl with
      | none =>
        have := hRB.1 rfl
        simp
        exact fresh (by omega)
      | some l0 =>
        have k := hRB.2 l0 rfl
        have := hpw l0 rfl
        by_cases h1' : t.rpl = -1
        · have := k.1 h1'; omega
        · have := k.2 h1'; omega
    · cases pl with
      | none => have := hRB.1 rfl; omega
      | some l0 =>
        have k := hRB.2 l0 rfl
        have := hpw l0 rfl
        by_cases h1' : t.rpl = -1
        · have := k.1 h1'; omega
        · have := k.2 h1'
          have h2 : t.bpl ≠ -1 := fun h => h1' (both.mpr h)
          omega

theorem good_shift (t : Track) (lines nl : List Line) (a b c d : Int) (h : Good t lines nl) :
    Good { t with prvrpl := a, prvbpl := b, currpl := c, curbpl := d } lines nl :=
  ⟨h.cov, h.full, h.fresh, h.both⟩

/-- the lines a scan of terminated lines `ls` adds to the "followed by another line" list, `pl` being the line before them -/
def adds (pl : Option (Int × Int)) : List (Int × Int) → List Line
  | [] => []
  | l :: ls => pl.toList.map tl ++ adds (some l) ls
def lastOf (pl : Option (Int × Int)) : List (Int × Int) → Option (Int × Int)
  | [] => pl
  | l :: ls => lastOf (some l) ls

theorem adds_lastOf (pl : Option (Int × Int)) (ls : List (Int × Int)) :
    adds pl ls ++ (lastOf pl ls).toList.map tl = pl.toList.map tl ++ ls.map tl := by
  induction ls generalizing pl with
  | nil => simp [adds, lastOf]
  | cons l ls ih => simp [adds, lastOf, ih, List.append_assoc]

theorem lastOf_some (x : Int × Int) (ls : List (Int × Int)) : ∃ y, lastOf (some x) ls = some y := by
  induction ls generalizing x with
  | nil => exact ⟨x, rfl⟩
  | cons l ls ih => exact ih l

theorem lastOf_none (ls : List (Int × Int)) (h : lastOf none ls = none) : ls = [] := by
  cases ls with
  | nil => rfl
  | cons l ls => obtain ⟨y, hy⟩ := lastOf_some l ls; simp [lastOf, hy] at h

/-- the terminated lines of a record, one `onEol` each -/
theorem good_lines (ls : List (Int × Int)) : ∀ (t : Track) (lines nl : List Line) (pl : Option (Int × Int)),
    Good t lines nl → Ready t pl → (∀ l ∈ ls, 0 ≤ l.2 ∧ l.2 + 1 ≤ l.1) →
    Good (ls.foldl (fun t l => t.onEol l.1 l.2) t) (lines ++ ls.map tl) (nl ++ adds pl ls) ∧
    Ready (ls.foldl (fun t l => t.onEol l.1 l.2) t) (lastOf pl ls) := by
  induction ls with
  | nil => intro t lines nl pl hg hr _; simpa [adds, lastOf] using ⟨hg, hr⟩
  | cons l ls ih =>
    intro t lines nl pl hg hr hw
    have hl := hw l (by simp)
    have g1 := good_line t lines nl pl l.1 l.2 true hg hr (by omega) hl.1
    obtain ⟨_, _, _, _, c5, c6, _, _⟩ := lg_ready t l.1 l.2 true hr.cr hr.cb (by omega) hl.1
    have g2 : Good (t.onEol l.1 l.2) (lines ++ [tl l]) (nl ++ pl.toList.map tl) := by
      unfold Track.onEol
      exact good_shift _ _ _ _ _ _ _ (by simpa [tl] using g1)
    have r2 : Ready (t.onEol l.1 l.2) (some l) := by
      unfold Track.onEol
      exact ⟨rfl, rfl, c5, c6, fun l' h => by cases h; omega⟩
    have := ih (t.onEol l.1 l.2) _ _ (some l) g2 r2 (fun l' h' => hw l' (by simp [h']))
    simpa [adds, lastOf, List.append_assoc] using this

/-- one record as the scan sees it: terminated lines (bytes incl. the newline, residues), then possibly an unterminated last stretch
    (the record ends at EOF or at the EOD character without a newline) -/
structure Rec where
  lines : List (Int × Int)
  last : Option (Int × Int)
  deriving DecidableEq, Repr

def Rec.WF (rc : Rec) : Prop :=
  (∀ l ∈ rc.lines, 0 ≤ l.2 ∧ l.2 + 1 ≤ l.1) ∧ (∀ l, rc.last = some l → 0 ≤ l.2 ∧ l.2 ≤ l.1 ∧ 0 < l.1)

def Rec.events (rc : Rec) : List Ev :=
  Ev.hdr :: rc.lines.map (fun l => Ev.eol l.1 l.2) ++ (match rc.last with | none => [] | some l => [Ev.stop l.1 l.2])

/-- all lines of the record: (bytes, residues, ignored bytes) -/
def Rec.all (rc : Rec) : List Line := rc.lines.map tl ++ rc.last.toList.map ul

/-- the tracker over one record -/
def scanRec (t : Track) (rc : Rec) : Track := run t rc.events

theorem run_eols (ls : List (Int × Int)) (t : Track) :
    run t (ls.map (fun l => Ev.eol l.1 l.2)) = ls.foldl (fun t l => t.onEol l.1 l.2) t := by
  induction ls generalizing t with
  | nil => rfl
  | cons l ls ih => simp only [List.map_cons, run, List.foldl_cons, step] at *; exact ih _

theorem good_rec (t : Track) (lines nl : List Line) (rc : Rec) (hg : Good t lines nl) (hw : rc.WF) :
    Good (scanRec t rc) (lines ++ rc.all) (nl ++ rc.all.dropLast) := by
  obtain ⟨w1, w2⟩ := hw
  unfold scanRec Rec.events
  rw [show (Ev.hdr :: rc.lines.map (fun l => Ev.eol l.1 l.2) ++ (match rc.last with | none => [] | some l => [Ev.stop l.1 l.2]))
        = [Ev.hdr] ++ (rc.lines.map (fun l => Ev.eol l.1 l.2) ++ (match rc.last with | none => [] | some l => [Ev.stop l.1 l.2])) from rfl,
      run_append, run_append, run_eols]
  have h0 : Good (run t [Ev.hdr]) lines nl := good_shift _ _ _ _ _ _ _ hg
  have r0 : Ready (run t [Ev.hdr]) none := ⟨rfl, rfl, rfl, rfl, fun l h => by cases h⟩
  obtain ⟨g1, r1⟩ := good_lines rc.lines _ _ _ none h0 r0 w1
  generalize rc.lines.foldl (fun t l => t.onEol l.1 l.2) (run t [Ev.hdr]) = t1 at *
  have hal := adds_lastOf none rc.lines
  simp only [Option.toList_none, List.map_nil, List.nil_append] at hal
  unfold Rec.all
  cases hlast : rc.last with
  | none =>
    simp only [Option.toList_none, List.map_nil, List.append_nil]
    have : (rc.lines.map tl).dropLast = adds none rc.lines := by
      rw [← hal]
      cases h : lastOf none rc.lines with
      | none => rw [lastOf_none rc.lines h]; rfl
      | some x => simp
    rw [this]
    exact g1
  | some l =>
    have wl := w2 l hlast
    simp only [Option.toList_some, List.map_cons, List.map_nil]
    have g2 := good_line t1 _ _ _ l.1 l.2 false g1 r1 wl.2.2 wl.1
    have : (rc.lines.map tl ++ [ul l]).dropLast = adds none rc.lines ++ (lastOf none rc.lines).toList.map tl := by
      rw [List.dropLast_concat, hal]
    rw [this, ← List.append_assoc, ← List.append_assoc]
    simpa [run, step, Track.onStop, ul] using g2

/-- the tracker over a whole file, from the state `esl_sqfile_Open` leaves -/
def scanFile (recs : List Rec) : Track := recs.foldl scanRec {}

theorem scanFile_eq_run (recs : List Rec) : scanFile recs = run {} (recs.flatMap Rec.events) := by
  unfold scanFile
  generalize ({} : Track) = t
  induction recs generalizing t with
  | nil => rfl
  | cons rc rs ih => rw [List.foldl_cons, List.flatMap_cons, run_append, ih]; rfl

theorem good_file (recs : List Rec) (hw : ∀ rc ∈ recs, rc.WF) :
    Good (scanFile recs) (recs.flatMap Rec.all) (recs.flatMap fun rc => rc.all.dropLast) := by
  unfold scanFile
  have h0 : Good ({} : Track) [] [] := ⟨by simp, by decide, by simp, by decide⟩
  suffices ∀ (t : Track) (lines nl : List Line), Good t lines nl →
      Good (recs.foldl scanRec t) (lines ++ recs.flatMap Rec.all) (nl ++ recs.flatMap fun rc => rc.all.dropLast) by
    simpa using this {} [] [] h0
  induction recs with
  | nil => intro t lines nl h; simpa using h
  | cons rc rs ih =>
    intro t lines nl h
    have g := good_rec t lines nl rc h (hw rc (by simp))
    have := ih (fun r hr => hw r (by simp [hr])) _ _ _ g
    simpa [List.append_assoc] using this

/-- the line geometry `bpl = q`, `rpl = p` promises for a record: every line that is followed by another line of the record has
    exactly `q` bytes and `p` residues; no line has more than `p` residues or more ignored bytes than a full line (`q − p − 1`) -/
def Geom (q p : Int) (rc : Rec) : Prop :=
  (∀ l ∈ rc.all.dropLast, l.1 = q ∧ l.2.1 = p) ∧ (∀ l ∈ rc.all, l.2.1 ≤ p ∧ l.2.2 ≤ q - p - 1)

/-- **Soundness of the line-geometry tracker (full).** If a scan of any file ends with `rpl = p > 0` and `bpl = q > 0`, EVERY
    record of the file has the geometry `(q, p)`. -/
theorem tracker_sound (recs : List Rec) (hw : ∀ rc ∈ recs, rc.WF) (p q : Int) (hp : 0 < p) (hq : 0 < q)
    (hr : (scanFile recs).rpl = p) (hb : (scanFile recs).bpl = q) : ∀ rc ∈ recs, Geom q p rc := by
  have g := good_file recs hw
  obtain ⟨f1, f2, f3⟩ := g.full (by omega) (by omega)
  intro rc hrc
  constructor
  · intro l hl
    have := f1 l (List.mem_flatMap.mpr ⟨rc, hrc, hl⟩)
    rw [hr, hb] at this; exact this
  · intro l hl
    have := g.cov l (List.mem_flatMap.mpr ⟨rc, hrc, hl⟩)
    rw [hr] at f2
    rw [hr, hb] at f3
    omega
/-- formats whose data scanner never sees an end-of-line symbol (EMBL / UniProt / GenBank / DDBJ: the newline is an ignored byte):
    the tracker never establishes a width, so their index never carries the fast-subsequence flag (always brute-force addressing) -/
theorem no_eol_no_geometry (evs : List Ev) (h : ∀ e ∈ evs, e = Ev.hdr ∨ ∃ b r, e = Ev.stop b r) :
    (run {} evs).rpl = -1 ∧ (run {} evs).bpl = -1 := by
  suffices ∀ t : Track, t.rpl = -1 → t.bpl = -1 → t.prvrpl = -1 → t.prvbpl = -1 →
      (run t evs).rpl = -1 ∧ (run t evs).bpl = -1 by exact this {} rfl rfl rfl rfl
  induction evs with
  | nil => intro t h1 h2 _ _; exact ⟨h1, h2⟩
  | cons e es ih =>
    intro t h1 h2 h3 h4
    have he := h e (by simp)
    have hes : ∀ e' ∈ es, e' = Ev.hdr ∨ ∃ b r, e' = Ev.stop b r := fun e' h' => h e' (by simp [h'])
    show (run (step t e) es).rpl = -1 ∧ _
    rcases he with rfl | ⟨b, r, rfl⟩
    · exact ih hes _ h1 h2 rfl rfl
    · obtain ⟨g1, g2, g3, g4⟩ := lg_cur (t.advance b r) false
      have a3 : (t.advance b r).prvrpl = -1 := h3
      have a4 : (t.advance b r).prvbpl = -1 := h4
      have a1 : (t.advance b r).rpl = -1 := h1
      have a2 : (t.advance b r).bpl = -1 := h2
      have fR : (t.advance b r).R = -1 := by unfold Track.R Track.fullLine; rw [a3, a1]; simp
      have fB : (t.advance b r).Bq = -1 := by unfold Track.Bq Track.fullLine; rw [a3, a2]; simp
      have r1 := lg_rpl (t.advance b r) false
      have r2 := lg_bpl (t.advance b r) false
      rw [fR, fB, a1] at r1
      rw [fR, fB, a2] at r2
      have e1 : (step t (Ev.stop b r)).rpl = -1 := by
        show ((t.advance b r).lineGeometry false).rpl = -1
        rw [r1]; split <;> simp
      have e2 : (step t (Ev.stop b r)).bpl = -1 := by
        show ((t.advance b r).lineGeometry false).bpl = -1
        rw [r2]; split <;> simp
      exact ih hes _ e1 e2 (by show ((t.advance b r).lineGeometry false).prvrpl = -1; rw [g3]; exact a3)
        (by show ((t.advance b r).lineGeometry false).prvbpl = -1; rw [g4]; exact a4)

end EaselModel.Sqio.Tracker
