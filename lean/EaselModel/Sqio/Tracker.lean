import EaselModel.Sqio.TrackLemmas
/-! # What the bytes/residues-per-line tracker of `seebuf` guarantees (C07, C04)

The tracker as repaired by 283ccd7 (`seebuf_linegeometry()`): events of a scan, one per line. -/
namespace EaselModel.Sqio.Tracker

/-- the tracker-relevant events of a scan: a record header (`header_*` resets `prv*` to −1, `cur*` to 0), an end-of-line seen by
    `seebuf` with the line's bytes (newline included) and residues, and the end of `seebuf` on an unterminated stretch (the last
    line of a record that ends at EOF or at the EOD character) -/
inductive Ev
  | hdr
  | eol (b r : Int)
  | stop (b r : Int)
  deriving Repr, DecidableEq

def step (t : Track) : Ev → Track
  | .hdr => { t with prvrpl := -1, prvbpl := -1, currpl := 0, curbpl := 0 }
  | .eol b r => t.onEol b r
  | .stop b r => t.onStop b r

def run (t : Track) (evs : List Ev) : Track := evs.foldl step t

/-- the events of a file given as records of terminated lines -/
def events (recs : List (List (Int × Int))) : List Ev :=
  recs.flatMap fun lines => Ev.hdr :: lines.map fun ln => Ev.eol ln.1 ln.2

theorem run_append (t : Track) (a b : List Ev) : run t (a ++ b) = run (run t a) b := by
  simp [run, List.foldl_append]

end EaselModel.Sqio.Tracker
