import EaselModel.Sqio.DriverLogic
import EaselModel.Sqio.MsaSeq
/-! Line-protocol step of the C02 driver: the shared sequence-file step (`DriverLogic.step`) + the alignment-as-sequences sessions
    (`MsaSeq`).  An `open` that the shared step declares outside its model (an alignment format name, or format autodetection that
    finds no unaligned format) is answered here through the C01 open/reader models; every later op of that session is routed to
    `MsaSeq`. -/
namespace EaselModel.Sqio
open EaselModel.Proto EaselModel.Sqio.MsaSeq

structure DS2 where
  base : DS := {}
  m : Option MsaH := none       -- an alignment file is open
  msq : Sq := {}
  mblk : Option Block := none
  mdead : Bool := false
  deriving Inhabited

instance : Inhabited MsaH := ⟨{ o := ⟨.stockholm, none, 0⟩ }⟩

/-- result line of a reading call on an alignment file; the line number of a parse error is the msafile module's
    (`afp->linenumber`), which the C01 reader models do not carry: printed as `*` -/
def fmtResM (h : MsaH) (sq : Sq) (st : Status) : String :=
  let exc := if h.exc then " exc" else ""
  match st with
  | .ok => "ok " ++ fmtSq sq
  | .eod => "eod " ++ fmtSq sq
  | .eof => "eof"
  | .eformat => "eformat line=* " ++ (if h.haveErr then "msg" else "nomsg") ++ exc
  | .fault => "fault"
  | s => s.name ++ (if h.haveErr then " msg" else " nomsg") ++ exc

def finishM (s : DS2) (h : MsaH) (sq : Sq) (st : Status) : DS2 × String :=
  ({ s with m := some h, msq := sq, mdead := !(st == .ok || st == .eof || st == .eod) }, fmtResM h sq st)

def withM (s : DS2) (h : MsaH) (f : MsaH → DS2 × String) : DS2 × String :=
  if s.mdead then (s, "dead") else f { h with exc := false }

def stepM (s : DS2) (h : MsaH) (ws : List String) : DS2 × String :=
  match ws with
  | "close" :: _ => ({ s with m := none, mblk := none, mdead := false }, "ok")
  | "reuse" :: _ => ({ s with msq := s.msq.reuse }, "ok")
  | "read" :: _ => withM s h fun h => let (h, sq, st) := MsaSeq.read h s.msq.reuse; finishM s h sq st
  | "readseq" :: _ => withM s h fun h => let (h, sq, st) := MsaSeq.readSequence h s.msq.reuse; finishM s h sq st
  | "readinfo" :: _ => withM s h fun h => let (h, sq, st) := MsaSeq.readInfo h s.msq.reuse; finishM s h sq st
  | "readwin" :: _ =>
    match argInt? ws "C", argInt? ws "W" with
    | some C, some W => withM s h fun h => let (h, sq, st) := MsaSeq.readWindow h s.msq C W; finishM s h sq st
    | _, _ => (s, "bad-op")
  | "geom" :: _ => withM s h fun _ => (s, "ok bpl=0 rpl=0")
  | "guessabc" :: _ => withM s h fun h =>
      -- sqascii_GuessAlphabet hands alignment files to esl_msafile_GuessAlphabet (C01 model); the read position is kept
      match EaselModel.Msafile.guessAlphabet h.o.fmt h.o.namewidth h.lines with
      | .ok t => (s, s!"ok type={match t with | .rna => 1 | .dna => 2 | .amino => 3}")
      | .fail => ({ s with mdead := true }, "enoalphabet type=0")
      | .fault => ({ s with mdead := true }, "fault")
  | "readblock" :: _ =>
    match argNat? ws "list", argInt? ws "maxseq", argNat? ws "long" with
    | some ls, some ms, some lng =>
      if lng != 0 then (s, "unmodelled") else     -- long-target mode is documented for unaligned DNA files only
      withM s h fun h =>
        let blk : Block := match s.mblk with
          | some b => b
          | none => { listSize := ls, complete := true, list := (Array.range ls).map fun _ => freshSq h.abc }
        let blk := { blk with list := blk.list.map Sq.reuse }
        let (h, blk, st) := MsaSeq.readBlock h blk ms
        let exc := if h.exc then " exc" else ""
        if st == .ok then
          let items := (List.range blk.count).map fun i =>
            let q := blk.list.getD i {}
            s!" | name={hexB (cstr q.name)} n={q.n} L={q.L} start={q.start} end={q.end_} C={q.C} W={q.W} seq={hexB q.seq}"
          ({ s with m := some h, mblk := some blk }, s!"ok count={blk.count} complete={if blk.complete then 1 else 0}" ++ String.join items ++ " | wf=1")
        else if st == .eof then ({ s with m := some h, mblk := some blk }, "eof")
        else if st == .fault then ({ s with m := some h, mblk := some blk, mdead := true }, "fault")
        else ({ s with m := some h, mblk := some blk, mdead := true },
              st.name ++ (if st == .eformat then (if h.haveErr then " msg" else " nomsg") else "") ++ exc)
    | _, _, _ => (s, "bad-op")
  | _ => (s, "unmodelled")

def step2 (s : DS2) (line : String) : DS2 × String :=
  let ws := words line
  match ws with
  | "file" :: _ =>
    let (b, out) := step s.base line
    ({ base := b }, out)
  | "open" :: _ =>
    let (b, out) := step s.base line
    let s : DS2 := { base := b }
    if out != "unmodelled" then (s, out) else
    match arg? ws "fmt", (arg? ws "abc").bind abcCode with
    | some fname, some abc =>
      let fsel : Option EaselModel.Msafile.FmtSel :=
        if fname == "unknown" then some .auto else (fmtOfName fname).map .decl
      match fsel with
      | none => (s, "unmodelled")
      | some fsel =>
        match openMsa b.file ("t." ++ b.ext).toUTF8.toList fsel abc with
        | (some h, _) => ({ s with m := some h, msq := freshSq abc, mblk := none, mdead := false }, s!"ok fmt={fmtCodeOf h.o.fmt}")
        | (none, st) => (s, st.name)
    | _, _ => (s, "unmodelled")
  | _ =>
    match s.m with
    | some h => stepM s h ws
    | none =>
      let (b, out) := step s.base line
      ({ s with base := b }, out)

end EaselModel.Sqio
