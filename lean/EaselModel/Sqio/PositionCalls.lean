import EaselModel.Sqio.PositionAny
import EaselModel.Sqio.WindowSeries
import EaselModel.Sqio.Totality
/-! # After `esl_sqfile_Position` at a scanned record: every read call returns THAT record (C04, round 6b)

`FetchWhole.fetch_eq_scan` is the whole-record statement. Here the other calls, for every block size: `ReadInfo` and `ReadSequence`
(`position_info_seq`), and the whole forward `ReadWindow` series for every request stream (`position_windows`: the windows are
`specWindows` of the scanned record's residues, then `eslEOD` with `L` = its length). -/
namespace EaselModel.Sqio.PositionCalls
open EaselModel.Sqio.Refine EaselModel.Sqio.DataScan EaselModel.Sqio.Cursor EaselModel.Sqio.BodySpec EaselModel.Sqio.HeaderSpec
open EaselModel.Sqio.ReadSpec EaselModel.Sqio.ParseFasta EaselModel.Sqio.FetchSpec EaselModel.Sqio.SpecFasta
open EaselModel.Sqio.WindowSeries EaselModel.Sqio.WinSpecPure

theorem toRecord_seq {s t : Sq} (h : toRecord s = toRecord t) : s.seq = t.seq := by
  have := congrArg Record.seq h
  simp only [toRecord] at this
  exact Array.ext' this

/-- `ReadInfo` / `ReadSequence` after Position at a scanned record `s`: both succeed; `ReadInfo` reports `s`'s name, description, the
    four offsets and `L`; `ReadSequence` its residues, `roff` / `doff` / `eoff` and `L`. -/
theorem position_info_seq (bytes : Bytes) (abc : Nat) (habc : abc ∈ [0, 1, 2, 3]) (s : Sq) (hs : s ∈ (parseFasta abc bytes).1)
    (a : Ascii) (hf : a.file = bytes) (hb : a.linebased = false) (hr : a.recording ≠ 1) (hB : 1 ≤ a.B)
    (hi : a.inmap = inmapFasta abc) (hfmt : a.fmt = 1) (heof : a.eofIsOk = true)
    (sq : Sq) (hdig : sq.digital = (abc != 0)) (hsabc : sq.abc = abc) (hseq : sq.seq = #[]) (hna : 2 ≤ sq.nalloc) (hda : 2 ≤ sq.dalloc)
    (hsa : 2 ≤ sq.salloc) :
    let p := (position a s.roff.toNat).1
    (readInfo p sq).2.2 = .ok ∧ (readSequence p sq).2.2 = .ok ∧
    (readInfo p sq).2.1.name.toList = s.name.toList ∧ (readInfo p sq).2.1.desc.toList = s.desc.toList ∧
    (readInfo p sq).2.1.roff = s.roff ∧ (readInfo p sq).2.1.hoff = s.hoff ∧ (readInfo p sq).2.1.doff = s.doff ∧
    (readInfo p sq).2.1.eoff = s.eoff ∧ (readInfo p sq).2.1.L = s.L ∧
    (readSequence p sq).2.1.seq = s.seq ∧ (readSequence p sq).2.1.roff = s.roff ∧ (readSequence p sq).2.1.doff = s.doff ∧
    (readSequence p sq).2.1.eoff = s.eoff ∧ (readSequence p sq).2.1.L = s.L := by
  intro p
  obtain ⟨r1, r2, _⟩ := record_shape bytes abc s hs
  have hoff : s.roff.toNat < bytes.size := by omega
  obtain ⟨_, R, _, _⟩ := PositionAny.position_ready bytes abc habc s.roff.toNat hoff a hf hb hr hB hi hfmt heof sq hdig hsabc hna hda
  obtain ⟨_, hok, hrec⟩ := FetchWhole.fetch_eq_scan bytes abc habc s hs a hf hb hr hB hi hfmt heof sq hdig hsabc hseq hna hda
  obtain ⟨t1, t2, _, _, t5, t6, t7, t8, t9, t10, t11, _, t13, t14, t15, t16, t17, _, _⟩ := Totality.three_calls_agree p sq R hseq hsa hok
  have e := hrec
  simp only [toRecord, Record.mk.injEq] at e
  obtain ⟨e1, e2, _, e4, e5, e6, e7, e8⟩ := e
  refine ⟨t1, t2, by rw [t5]; exact e1, by rw [t6]; exact e2, by rw [t7]; exact e4, by rw [t8]; exact e5, by rw [t9]; exact e6,
    by rw [t10]; exact e7, by rw [t11]; exact e8, by rw [t13]; exact toRecord_seq hrec, by rw [t14]; exact e4, by rw [t15]; exact e6,
    by rw [t16]; exact e7, by rw [t17]; exact e8⟩

/-- the forward `ReadWindow` series after Position at a scanned record `s`, for every request stream `(C_k ≥ 0, W_k ≥ 1)`: exactly the
    declarative windows `specWindows` of `s`'s residues, then `eslEOD` with `L = s.L` -/
theorem position_windows (bytes : Bytes) (abc : Nat) (habc : abc ∈ [0, 1, 2, 3]) (s : Sq) (hs : s ∈ (parseFasta abc bytes).1)
    (a : Ascii) (hf : a.file = bytes) (hb : a.linebased = false) (hr : a.recording ≠ 1) (hB : 1 ≤ a.B)
    (hi : a.inmap = inmapFasta abc) (hfmt : a.fmt = 1) (heof : a.eofIsOk = true)
    (sq : Sq) (hdig : sq.digital = (abc != 0)) (hsabc : sq.abc = abc) (hseq : sq.seq = #[]) (hna : 2 ≤ sq.nalloc) (hda : 2 ≤ sq.dalloc)
    (hst : sq.start = 0) (req : Nat → Int × Int) (hreq : ∀ k, 0 ≤ (req k).1 ∧ 1 ≤ (req k).2) (F : Nat) (hF : s.seq.size + 2 ≤ F) :
    let p := (position a s.roff.toNat).1
    (readWindowsM req F 0 p sq).1.map toWin = specWindows s.seq req F 0 0 0 ∧
    (readWindowsM req F 0 p sq).2.2.2 = .eod ∧ (readWindowsM req F 0 p sq).2.2.1.L = s.L := by
  intro p
  obtain ⟨r1, r2, _⟩ := record_shape bytes abc s hs
  have hoff : s.roff.toNat < bytes.size := by omega
  obtain ⟨_, R, _, _⟩ := PositionAny.position_ready bytes abc habc s.roff.toNat hoff a hf hb hr hB hi hfmt heof sq hdig hsabc hna hda
  obtain ⟨_, hok, hrec⟩ := FetchWhole.fetch_eq_scan bytes abc habc s hs a hf hb hr hB hi hfmt heof sq hdig hsabc hseq hna hda
  have hsq : (read p sq).2.1.seq = s.seq := toRecord_seq hrec
  have hL : (read p sq).2.1.L = s.L := by
    have := congrArg Record.L hrec
    simpa [toRecord] using this
  obtain ⟨w1, w2, _, w4, _⟩ := windows_eq_read p sq R hseq hst hok req hreq F (by rw [hsq]; exact hF)
  exact ⟨by rw [w1, hsq], w2, by rw [w4, hL]⟩

end EaselModel.Sqio.PositionCalls
