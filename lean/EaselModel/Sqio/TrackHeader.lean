import EaselModel.Sqio.TrackReader
import EaselModel.Sqio.InfoSeqSpec
/-! # `header_fasta` changes nothing of the line-geometry tracker but `prv*` / `cur*` (C07)

`loadmem`, `loadbuf`, `nextchar` and the header loops never touch the tracker; a successful `header_fasta` ends with the reset of
`prv*` to −1 and `cur*` to 0: `(headerFasta a sq).1.trk = Tracker.step a.trk Ev.hdr`. With `TrackReader.infoBody_trk` this gives the
tracker after one `sqascii_ReadInfo`-style pass over a record (`header_then_body_trk`). -/
namespace EaselModel.Sqio.TrackHeader
open EaselModel.Sqio EaselModel.Sqio.Tracker EaselModel.Sqio.Refine EaselModel.Sqio.DataScan EaselModel.Sqio.Cursor
open EaselModel.Sqio.ReadSpec EaselModel.Sqio.HeaderSpec EaselModel.Sqio.BodySpec EaselModel.Sqio.Fold

theorem loadmem_trk (a : Ascii) : (loadmem a).1.trk = a.trk := by
  unfold loadmem
  split
  · split <;> rfl
  · rfl

theorem loadLineLoop_trk (fuel : Nat) : ∀ a : Ascii, (loadLineLoop fuel a).1.trk = a.trk := by
  induction fuel with
  | zero => intro a; rfl
  | succ fuel ih =>
    intro a
    unfold loadLineLoop
    split
    · rfl
    · simp only
      split
      · rw [loadmem_trk]
      · rw [ih, loadmem_trk]

theorem loadbuf_trk (a : Ascii) : (loadbuf a).1.trk = a.trk := by
  unfold loadbuf
  split
  · simp only
    split
    · exact loadmem_trk a
    · rfl
  · simp only
    have h1 : (if a.mpos ≥ a.mn then (loadmem a).1 else a).trk = a.trk := by split; exact loadmem_trk a; rfl
    generalize (if a.mpos ≥ a.mn then (loadmem a).1 else a) = a1 at h1
    have h2 := loadLineLoop_trk (({ a1 with boff := a1.moff + a1.mpos, nc := 0, line := #[] } : Ascii).file.size + 2)
      { a1 with boff := a1.moff + a1.mpos, nc := 0, line := #[] }
    generalize loadLineLoop (({ a1 with boff := a1.moff + a1.mpos, nc := 0, line := #[] } : Ascii).file.size + 2)
      { a1 with boff := a1.moff + a1.mpos, nc := 0, line := #[] } = r at h2
    obtain ⟨a3, st, nl⟩ := r
    simp only at h2 ⊢
    split
    · exact h2.trans h1
    · cases nl <;> exact h2.trans h1

theorem nextchar_trk (a : Ascii) (c : UInt8) : (nextchar a c).1.trk = a.trk := by
  unfold nextchar
  simp only
  split
  · have := loadbuf_trk { a with bpos := a.bpos + 1 }
    generalize loadbuf { a with bpos := a.bpos + 1 } = r at this
    obtain ⟨a1, st⟩ := r
    simp only at this ⊢
    split
    · exact this
    · split <;> exact this
  · split <;> rfl

theorem skipWhile_trk (p : UInt8 → Bool) (fuel : Nat) : ∀ (a : Ascii) (st : Status) (c : UInt8),
    (skipWhile p fuel a st c).1.trk = a.trk := by
  induction fuel with
  | zero => intro a st c; rfl
  | succ fuel ih =>
    intro a st c
    unfold skipWhile
    split
    · have := nextchar_trk a c
      generalize nextchar a c = r at this
      obtain ⟨a1, st1, c1⟩ := r
      simp only at this ⊢
      rw [ih, this]
    · rfl

theorem storeWhile_trk (p : UInt8 → Bool) (fuel : Nat) : ∀ (a : Ascii) (st : Status) (c : UInt8) (acc : Bytes) (alloc : Nat),
    (storeWhile p fuel a st c acc alloc).1.trk = a.trk := by
  induction fuel with
  | zero => intro a st c acc alloc; rfl
  | succ fuel ih =>
    intro a st c acc alloc
    unfold storeWhile
    split
    · split
      · have := nextchar_trk a c
        generalize nextchar a c = r at this
        obtain ⟨a1, st1, c1⟩ := r
        simp only at this ⊢
        rw [ih, this]
      · rfl
    · rfl

theorem hfEnd_trk (a : Ascii) (sq : Sq) (st : Status) (c : UInt8) (h : (hfEnd a sq st c).2.2 = .ok) :
    (hfEnd a sq st c).1.trk = Tracker.step a.trk Ev.hdr := by
  have k1 := skipWhile_trk (fun c => c != chNl && c != chCr) (fuelOf a) a st c
  unfold hfEnd at h ⊢
  simp only at h ⊢
  generalize skipWhile (fun c => c != chNl && c != chCr) (fuelOf a) a st c = r1 at k1 h ⊢
  have k2 := skipWhile_trk (fun c => c == chNl || c == chCr) (fuelOf r1.1) r1.1 r1.2.1 r1.2.2
  generalize skipWhile (fun c => c == chNl || c == chCr) (fuelOf r1.1) r1.1 r1.2.1 r1.2.2 = r2 at k2 h ⊢
  split at h
  · cases h
  · split at h
    · cases h
    · rename_i h1 h2
      simp only [h1, h2, if_false, Bool.false_eq_true]
      show ({ r2.1.trk with prvrpl := -1, prvbpl := -1, currpl := 0, curbpl := 0 } : Track) = _
      rw [k2, k1]; rfl

theorem hfDesc_trk (a : Ascii) (sq : Sq) (st : Status) (c : UInt8) (h : (hfDesc a sq st c).2.2 = .ok) :
    (hfDesc a sq st c).1.trk = Tracker.step a.trk Ev.hdr := by
  have k1 := skipWhile_trk isBlankTab (fuelOf a) a st c
  unfold hfDesc at h ⊢
  simp only at h ⊢
  generalize skipWhile isBlankTab (fuelOf a) a st c = r1 at k1 h ⊢
  have k2 := storeWhile_trk (fun c => c != chNl && c != chCr && c != 1) (fuelOf r1.1) r1.1 r1.2.1 r1.2.2 #[] sq.dalloc
  generalize storeWhile (fun c => c != chNl && c != chCr && c != 1) (fuelOf r1.1) r1.1 r1.2.1 r1.2.2 #[] sq.dalloc = r2 at k2 h ⊢
  split at h
  · cases h
  · split at h
    · cases h
    · rename_i h1 h2
      simp only [h1, h2, if_false, Bool.false_eq_true]
      rw [hfEnd_trk _ _ _ _ h, k2, k1]

theorem hfName_trk (a : Ascii) (sq : Sq) (st : Status) (c : UInt8) (h : (hfName a sq st c).2.2 = .ok) :
    (hfName a sq st c).1.trk = Tracker.step a.trk Ev.hdr := by
  have k1 := skipWhile_trk isBlankTab (fuelOf a) a st c
  unfold hfName at h ⊢
  simp only at h ⊢
  generalize skipWhile isBlankTab (fuelOf a) a st c = r1 at k1 h ⊢
  have k2 := storeWhile_trk (fun c => !isSpace c) (fuelOf r1.1) r1.1 r1.2.1 r1.2.2 #[] sq.nalloc
  generalize storeWhile (fun c => !isSpace c) (fuelOf r1.1) r1.1 r1.2.1 r1.2.2 #[] sq.nalloc = r2 at k2 h ⊢
  split at h
  · cases h
  · split at h
    · cases h
    · split at h
      · cases h
      · rename_i h1 h2 h3
        simp only [h1, h2, h3, if_false, Bool.false_eq_true]
        rw [hfDesc_trk _ _ _ _ h, k2, k1]

theorem hfGt_trk (a : Ascii) (sq : Sq) (st : Status) (c : UInt8) (h : (hfGt a sq st c).2.2 = .ok) :
    (hfGt a sq st c).1.trk = Tracker.step a.trk Ev.hdr := by
  unfold hfGt at h ⊢
  split at h
  · cases h
  · split at h
    · cases h
    · split at h
      · cases h
      · split at h
        · rename_i hne
          simp only at h
          rw [h] at hne
          exact absurd hne (by decide)
        · rename_i h1 h2 h3 h4
          rw [if_neg h1, if_neg h2, if_neg h3, if_neg h4]
          rw [hfName_trk _ _ _ _ h, nextchar_trk]

/-- **a successful `header_fasta` resets `prv*` / `cur*` and changes nothing else of the tracker** -/
theorem headerFasta_trk (a : Ascii) (sq : Sq) (h : (headerFasta a sq).2.2 = .ok) :
    (headerFasta a sq).1.trk = Tracker.step a.trk Ev.hdr := by
  unfold headerFasta at h ⊢
  have k0 : (if a.nc == a.bpos then loadbuf a else (a, Status.ok)).1.trk = a.trk := by
    split
    · exact loadbuf_trk a
    · rfl
  generalize (if a.nc == a.bpos then loadbuf a else (a, Status.ok)) = r0 at k0 h ⊢
  obtain ⟨a0, st0⟩ := r0
  simp only at k0 h ⊢
  by_cases h1 : (st0 != Status.ok) = true
  · rw [if_pos h1] at h
    simp only at h
    rw [h] at h1
    exact absurd h1 (by decide)
  · rw [if_neg h1] at h ⊢
    cases hb : a0.bufGet a0.bpos with
    | none => rw [hb] at h; cases h
    | some c =>
      rw [hb] at h
      simp only at h ⊢
      rw [hfGt_trk _ _ _ _ h, skipWhile_trk, k0]

theorem infoTail_fst (a : Ascii) (sq : Sq) (st : Status) : (infoTail a sq st).1 = a := by
  unfold infoTail
  split
  · rfl
  · split <;> (split <;> rfl)

theorem infoEnd_trk (r : Ascii × Sq × Status × Nat) (hf : r.1.fmt = 1) : (infoEnd r).1.trk = r.1.trk := by
  unfold infoEnd
  simp only
  split
  · rfl
  · have he : ∀ (b : Ascii) (q : Sq), b.fmt = 1 → (parseEnd b q).1.trk = b.trk := by
      intro b q hb
      unfold parseEnd
      simp only [hb]
      simp only [show ((1 : Nat) == 2 || (1 : Nat) == 5 || (1 : Nat) == 3 || (1 : Nat) == 4) = false from by decide,
        show ((1 : Nat) == 7) = false from by decide, Bool.false_eq_true, if_false]
      unfold endFasta
      split
      · split
        · rfl
        · split <;> rfl
      · rfl
    have key : (if r.2.2.1 == Status.eof then (if !r.1.eofIsOk then (r.1.fail, r.2.1, Status.eformat) else (r.1, r.2.1, Status.ok))
           else if r.2.2.1 == Status.eod then parseEnd { r.1 with bpos := r.2.2.2 } r.2.1
           else (r.1, r.2.1, r.2.2.1)).1.trk = r.1.trk := by
      split
      · split <;> rfl
      · split
        · exact he _ _ hf
        · rfl
    generalize (if r.2.2.1 == Status.eof then (if !r.1.eofIsOk then (r.1.fail, r.2.1, Status.eformat) else (r.1, r.2.1, Status.ok))
           else if r.2.2.1 == Status.eod then parseEnd { r.1 with bpos := r.2.2.2 } r.2.1
           else (r.1, r.2.1, r.2.2.1)) = e at key ⊢
    rw [infoTail_fst]; exact key

/-- **one `sqascii_ReadInfo` of `create_ssi_index`, for every read-block size.** From a ready FASTA handle standing in front of a
    record, a successful `ReadInfo` leaves the tracker `scanRec` of (the tracker before the call, the line counts of the record's data
    bytes): exactly one step of `scanFile`. The data bytes are those behind the header line (`headerL` = the header parser on the
    remaining file bytes) up to the first byte that is not sequence data. -/
theorem readInfo_trk (a : Ascii) (sq : Sq) (R : Ready a sq) (hl : Sim.Live a) (hok : (readInfo a sq).2.2 = .ok) :
    (readInfo a sq).1.trk =
      scanRec a.trk (TrackReader.recOfData a.inmap (((headerL a.file.size sq (fileFrom a)).2.2).takeWhile (isData a.inmap))) := by
  have hn : (a.nc == 0) = false := by simp only [Sim.Live] at hl; simp; omega
  obtain ⟨q1, q2, _, _⟩ := headerFasta_spec a sq R.cur hl R.nalloc R.dalloc
  rw [DataScan.readInfo_eq, parseHeader_fasta a sq R.fmt] at hok ⊢
  simp only [hn, Bool.false_eq_true, if_false] at hok ⊢
  by_cases hh : ((headerFasta a sq).2.2 != Status.ok) = true
  · rw [if_pos hh] at hok
    rw [hok] at hh; exact absurd hh (by decide)
  rw [if_neg hh] at hok ⊢
  have hhok : (headerFasta a sq).2.2 = .ok := by simpa using hh
  have hLok : (headerL a.file.size sq (fileFrom a)).1 = .ok := by
    have := congrArg Prod.snd q1; simp only at this; rw [← this]; exact hhok
  obtain ⟨c1, c2, c3⟩ := q2 hLok
  have htrk := headerFasta_trk a sq hhok
  -- the handle the counting loop starts from
  generalize ha1 : ({ (headerFasta a sq).1 with L := 0 } : Ascii) = a1 at hok ⊢
  have w1 : WF a1 := by rw [← ha1]; exact WF_L _ 0 c1.wf
  have t1 : a1.trk = Tracker.step a.trk Ev.hdr := by rw [← ha1]; exact htrk
  have f1 : fileFrom a1 = (headerL a.file.size sq (fileFrom a)).2.2 := by rw [← ha1]; exact c2
  have s1 : stat a1 = stat a := by rw [← ha1]; exact c3
  have m1 : a1.inmap = a.inmap := congrArg (fun p => p.2.1) s1
  have fm1 : a1.fmt = 1 := (congrArg (fun p => p.2.2.2.1) s1).trans R.fmt
  have fl1 : a1.file = a.file := congrArg (fun p => p.1) s1
  have hm1 : a1.inmap.size = 128 := by rw [m1]; exact R.hm
  have hlen := (fileFrom_length a1 w1).1
  have hfuel : (fileFrom a1).length + 1 < fuelOf a1 := by unfold fuelOf; omega
  have tok1 : Track.Ok a1.trk := by rw [t1]; exact reset_ok _
  obtain ⟨k1, _, k3⟩ := scanLoop_info (fuelOf a1) a1 (headerFasta a sq).2.1 (fileFrom a1).length w1 tok1 hm1 (Nat.le_refl _)
    (by split <;> omega)
  -- the loop did not stop on an illegal character (ReadInfo would have failed)
  have hne : (dataFold a1 (fileFrom a1).length).2.2 ≠ .eformat := by
    intro he
    have hs : (scanLoop false (fuelOf a1) a1 (headerFasta a sq).2.1).2.2.1 = .eformat := by rw [k1, he]; rfl
    unfold infoEnd at hok
    simp only [hs] at hok
    simp at hok
  obtain ⟨_, hp, _, _⟩ := k3 hne
  have hfmt : (scanLoop false (fuelOf a1) a1 (headerFasta a sq).2.1).1.fmt = 1 := by
    have := congrArg (fun p => p.2.2.2.2.2.2.1) hp
    simp only [Sim.payload] at this
    rw [this]; exact fm1
  rw [infoEnd_trk _ hfmt, TrackReader.infoBody_trk a1 _ a.trk (fuelOf a1) w1 t1 hm1 hfuel hne, m1, f1]

end EaselModel.Sqio.TrackHeader
