import EaselModel.Sqio.Cursor
/-! # The residue loop of `sqascii_Read` / `ReadSequence` / `ReadInfo` in closed form (whole-reader refinement, layers i and iv)

`isData` / `isRes` / `isEod`: what the input map says about one byte. The `do { seebuf; [GrowTo; addbuf]; … } while (loadbuf == eslOK)`
loop, run from a handle whose cursor stands on the list `l` of remaining file bytes, consumes exactly `l.takeWhile isData`, appends
exactly its residues (`filter isRes`, mapped), sets `eoff` to the position of the last consumed byte and ends with `eslEOD` on an
end-of-data byte, `eslEOF` at the end of the file, `eslEFORMAT` on anything else — whatever the block size. -/
namespace EaselModel.Sqio.BodySpec
open EaselModel.Sqio.Refine EaselModel.Sqio.Fold EaselModel.Sqio.DataScan EaselModel.Sqio.Cursor
open Tables

/-- the input-map entry of a byte (`eslDSQ_ILLEGAL` for a byte ≥ 0x80) -/
def code (inmap : Bytes) (c : UInt8) : UInt8 := if c ≥ 128 then dsqIllegal else inmap.getD c.toNat dsqIllegal
/-- the data scanner counts this byte as a residue -/
def isRes (inmap : Bytes) (c : UInt8) : Bool := code inmap c ≤ 127
/-- the data scanner consumes this byte: residue, end of line, or ignored -/
def isData (inmap : Bytes) (c : UInt8) : Bool := code inmap c ≤ 127 || code inmap c == dsqEol || code inmap c == dsqIgnored
/-- the data scanner stops with `eslEOD` before this byte -/
def isEod (inmap : Bytes) (c : UInt8) : Bool := code inmap c == dsqEod

theorem isRes_isData (inmap : Bytes) (c : UInt8) (h : isRes inmap c = true) : isData inmap c = true := by
  simp only [isRes] at h; simp [isData, h]

theorem stepByte_cls (inmap : Bytes) (hm : inmap.size = 128) (s : SS) (c : UInt8) :
    (isData inmap c = true → (stepByte inmap s c).2 = .ok ∧ (stepByte inmap s c).1.nres = s.nres + (if isRes inmap c then 1 else 0)) ∧
    (isData inmap c = false → (stepByte inmap s c).2 = (if isEod inmap c then .eod else .eformat)) := by
  unfold stepByte isData isRes isEod code
  by_cases h1 : c ≥ 128
  · simp [h1, dsqIllegal, dsqEol, dsqIgnored, dsqEod]
  · obtain ⟨x, hx⟩ := NoFault.inmap_get inmap hm c h1
    have hg : inmap.getD c.toNat dsqIllegal = x := by
      rw [Array.getD_eq_getD_getElem?, hx]; rfl
    simp only [h1, if_false, hx, hg]
    by_cases h2 : x ≤ 127
    · simp [h2]
    · by_cases h3 : (x == dsqEol) = true
      · simp [h2, h3]
      · by_cases h4 : (x == dsqIllegal) = true
        · have : x = dsqIllegal := eq_of_beq h4
          subst this
          simp [dsqIllegal, dsqEol, dsqIgnored, dsqEod]
        · by_cases h5 : (x == dsqEod) = true
          · have : x = dsqEod := eq_of_beq h5
            subst this
            simp [dsqIllegal, dsqEol, dsqIgnored, dsqEod]
          · by_cases h6 : (x != dsqIgnored) = true
            · have h6' : (x == dsqIgnored) = false := by simpa using h6
              simp [h2, h3, h4, h5, h6, h6']
            · have h6' : (x == dsqIgnored) = true := by simpa using h6
              simp [h2, h3, h4, h5, h6, h6']

/-- status of the data scan at the first byte it does not consume -/
def stopSt (inmap : Bytes) : List UInt8 → Status
  | [] => .ok
  | c :: _ => if isEod inmap c then .eod else .eformat

/-- the byte fold of `seebuf`, without the bookkeeping: bytes consumed, residues counted, status -/
theorem scanBytes_simple (inmap : Bytes) (hm : inmap.size = 128) (M : Nat) (l : List UInt8) (s : SS) (k : Nat) (hM : s.nres + l.length ≤ M) :
    (scanBytes inmap M l s k).2.1 = k + (l.takeWhile (isData inmap)).length ∧
    (scanBytes inmap M l s k).1.nres = s.nres + ((l.takeWhile (isData inmap)).filter (isRes inmap)).length ∧
    (scanBytes inmap M l s k).2.2 = stopSt inmap (l.dropWhile (isData inmap)) := by
  induction l generalizing s k with
  | nil => simp [scanBytes, stopSt]
  | cons c rest ih =>
    obtain ⟨c1, c2⟩ := stepByte_cls inmap hm s c
    obtain ⟨_, p2, _, p4⟩ := stepByte_props inmap s c
    simp only [List.length_cons] at hM
    rcases scanBytes_cons inmap M c rest s k with ⟨h, _⟩ | ⟨h, hs, e⟩ | ⟨h, hs, e⟩
    · omega
    · have hd : isData inmap c = true := by
        cases hh : isData inmap c with
        | true => rfl
        | false => have := c2 hh; rw [hs] at this; split at this <;> cases this
      obtain ⟨_, d2⟩ := c1 hd
      obtain ⟨i1, i2, i3⟩ := ih (stepByte inmap s c).1 (k + 1) (by omega)
      rw [e, List.takeWhile_cons_of_pos hd, List.dropWhile_cons_of_pos hd]
      refine ⟨by rw [i1]; simp; omega, ?_, i3⟩
      rw [i2, d2]
      by_cases hr : isRes inmap c = true
      · simp [hr]; omega
      · simp [hr]
    · have hd : isData inmap c = false := by
        cases hh : isData inmap c with
        | false => rfl
        | true => exact absurd (c1 hh).1 hs
      have hd' : ¬ isData inmap c = true := by simp [hd]
      rw [e, List.takeWhile_cons_of_neg hd', List.dropWhile_cons_of_neg hd']
      refine ⟨by simp, by simp [p4 hs], ?_⟩
      simp only [stopSt]
      exact c2 hd

/-- the residues `addbuf` stores for a stretch of consumed bytes -/
def resOf (inmap map : Bytes) (d : List UInt8) : Bytes := ((d.filter (isRes inmap)).map (fun c => map.getD c.toNat 0)).toArray

theorem resOf_append (inmap map : Bytes) (d1 d2 : List UInt8) : resOf inmap map (d1 ++ d2) = resOf inmap map d1 ++ resOf inmap map d2 := by
  simp [resOf, List.filter_append]

theorem resOf_size (inmap map : Bytes) (d : List UInt8) : (resOf inmap map d).size = (d.filter (isRes inmap)).length := by
  simp [resOf]

/-- the map `addbuf` uses agrees with the file map `seebuf` used about which consumed bytes are residues -/
def MapOk (inmap map : Bytes) : Prop :=
  ∀ c : UInt8, isData inmap c = true → ∃ y, map[c.toNat]? = some y ∧ (decide (y ≤ 127) = isRes inmap c)

theorem MapOk.self (inmap : Bytes) (hm : inmap.size = 128) : MapOk inmap inmap := by
  intro c hd
  by_cases h1 : c ≥ 128
  · simp [isData, code, h1, dsqIllegal, dsqEol, dsqIgnored] at hd
  · obtain ⟨x, hx⟩ := NoFault.inmap_get inmap hm c h1
    refine ⟨x, hx, ?_⟩
    have hg : inmap.getD c.toNat dsqIllegal = x := by
      rw [Array.getD_eq_getD_getElem?, hx]; rfl
    simp [isRes, code, h1, hg]

/-- `addbuf`'s loop on a stretch of bytes that `seebuf` accepted: stores exactly their residues, inside the allocation -/
theorem addbufLoop_spec (a : Ascii) (hr : NoFault.Rd a) (map : Bytes) (digital : Bool) (salloc : Nat) (hmap : MapOk a.inmap map) :
    ∀ (k bpos nres : Nat) (seq : Bytes), bpos + k ≤ a.nc →
      (∀ c ∈ (bufList a bpos).take k, isData a.inmap c = true) →
      nres = (((bufList a bpos).take k).filter (isRes a.inmap)).length →
      seq.size + nres + (if digital then 2 else 1) ≤ salloc →
      ∃ b', (addbufLoop a map digital salloc nres bpos seq).1 = .ok ∧ (addbufLoop a map digital salloc nres bpos seq).2.1 = b' ∧
        (addbufLoop a map digital salloc nres bpos seq).2.2 = seq ++ resOf a.inmap map ((bufList a bpos).take k) := by
  intro k
  induction k with
  | zero =>
    intro bpos nres seq _ _ hn _
    simp only [List.take_zero, List.filter_nil, List.length_nil] at hn
    subst hn
    rw [addbufLoop]
    simp [resOf]
  | succ k ih =>
    intro bpos nres seq hb hd hn hal
    have hlt : bpos < a.nc := by omega
    rw [bufList_cons a bpos hlt, List.take_succ_cons] at hd hn ⊢
    obtain ⟨x, hx⟩ := hr bpos hlt
    have hbx : byteAt a bpos = x := by simp [byteAt, hx]
    rw [hbx] at hd hn ⊢
    have hdx : isData a.inmap x = true := hd x (by simp)
    have hd' : ∀ c ∈ (bufList a (bpos + 1)).take k, isData a.inmap c = true := fun c hc => hd c (by simp [hc])
    obtain ⟨y, hy, hyr⟩ := hmap x hdx
    rw [addbufLoop]
    by_cases hz : (nres == 0) = true
    · have hz' : nres = 0 := eq_of_beq hz
      subst hz'
      simp only [beq_self_eq_true, if_true]
      have hnil : (x :: (bufList a (bpos + 1)).take k).filter (isRes a.inmap) = [] := List.length_eq_zero_iff.mp hn.symm
      simp [resOf, hnil]
    · simp only [hz, Bool.false_eq_true, if_false, hlt, dite_true, hx, hy]
      by_cases hres : isRes a.inmap x = true
      · have hy127 : y ≤ 127 := by rw [hres] at hyr; simpa using hyr
        rw [List.filter_cons_of_pos hres, List.length_cons] at hn
        have hal' : (if digital then seq.size + 1 < salloc else seq.size < salloc) := by
          cases digital <;> simp at hal ⊢ <;> omega
        simp only [hy127, if_true, hal']
        obtain ⟨b', e1, e2, e3⟩ := ih (bpos + 1) (nres - 1) (seq.push y) (by omega) hd' (by omega)
          (by simp only [Array.size_push]; cases digital <;> simp at hal ⊢ <;> omega)
        refine ⟨b', e1, e2, ?_⟩
        rw [e3]
        simp [resOf, List.filter_cons_of_pos hres, hy]
      · have hy127 : ¬ y ≤ 127 := by
          have : isRes a.inmap x = false := by simpa using hres
          rw [this] at hyr; simpa using hyr
        rw [List.filter_cons_of_neg hres] at hn
        simp only [hy127, if_false]
        obtain ⟨b', e1, e2, e3⟩ := ih (bpos + 1) nres seq (by omega) hd' hn hal
        refine ⟨b', e1, e2, ?_⟩
        rw [e3]
        simp [resOf, List.filter_cons_of_neg hres]


/-! ## one pass of the loop body -/

theorem growTo_eq (s : Sq) (n : Nat) : s.growTo n = { s with salloc := max s.salloc (n + (if s.digital then 2 else 1)) } := by
  unfold Sq.growTo
  have e : (if s.digital = true then n + 2 else n + 1) = n + (if s.digital then 2 else 1) := by split <;> rfl
  simp only [e]
  by_cases h : n + (if s.digital then 2 else 1) > s.salloc
  · simp only [h, if_true]; congr 1; omega
  · simp only [h, if_false]
    have : max s.salloc (n + (if s.digital then 2 else 1)) = s.salloc := by omega
    rw [this]

theorem addbuf_eq (a : Ascii) (sq : Sq) (n : Nat) : addbuf a sq n =
    ({ a with bpos := (addbufLoop a (if sq.digital then abcInmap sq.abc else a.inmap) sq.digital sq.salloc n a.bpos sq.seq).2.1 },
     { sq with seq := (addbufLoop a (if sq.digital then abcInmap sq.abc else a.inmap) sq.digital sq.salloc n a.bpos sq.seq).2.2 },
     (addbufLoop a (if sq.digital then abcInmap sq.abc else a.inmap) sq.digital sq.salloc n a.bpos sq.seq).1) := rfl

/-- what `Read` / `ReadSequence` do with the residues of one buffer -/
def adOf (a : Ascii) (sq : Sq) : Ascii × Sq × Status :=
  addbuf (seebuf a none).1 (sq.growTo (sq.n + (seebuf a none).2.nres)) (seebuf a none).2.nres

theorem scanStep_true (a : Ascii) (sq : Sq) : scanStep true a sq =
    if (seebuf a none).2.st == .fault then ((seebuf a none).1, sq, .fault, (seebuf a none).2.endpos, false) else
    if (seebuf a none).2.st == .eformat then ((seebuf a none).1, sq, .eformat, (seebuf a none).2.endpos, false) else
    if (adOf a sq).2.2 == .fault then ((adOf a sq).1, (adOf a sq).2.1, .fault, (seebuf a none).2.endpos, false) else
    if (seebuf a none).2.st == .eod then
      ({ (adOf a sq).1 with L := (adOf a sq).1.L + (seebuf a none).2.nres },
       { (adOf a sq).2.1 with eoff := (adOf a sq).1.boff + (seebuf a none).2.endpos - 1 }, .eod, (seebuf a none).2.endpos, false) else
    ((loadbuf { (adOf a sq).1 with L := (adOf a sq).1.L + (seebuf a none).2.nres }).1,
      { (adOf a sq).2.1 with eoff := (adOf a sq).1.boff + (seebuf a none).2.endpos - 1 },
      (loadbuf { (adOf a sq).1 with L := (adOf a sq).1.L + (seebuf a none).2.nres }).2, (seebuf a none).2.endpos,
      (loadbuf { (adOf a sq).1 with L := (adOf a sq).1.L + (seebuf a none).2.nres }).2 == .ok) := by
  unfold scanStep adOf
  generalize seebuf a none = sb
  obtain ⟨a1, see⟩ := sb
  simp only [Bool.and_true, if_true]
  generalize addbuf a1 (sq.growTo (sq.n + see.nres)) see.nres = ad
  obtain ⟨a2, sq2, stA⟩ := ad
  by_cases h1 : (see.st == .fault) = true <;> by_cases h2 : (see.st == .eformat) = true <;>
    by_cases h3 : (stA == .fault) = true <;> by_cases h4 : (see.st == .eod) = true <;> simp [h1, h2, h3, h4]

theorem take_takeWhile_length (p : UInt8 → Bool) (l : List UInt8) : l.take (l.takeWhile p).length = l.takeWhile p := by
  have h := @List.takeWhile_append_dropWhile _ p l
  have e : l.take (l.takeWhile p).length = (l.takeWhile p ++ l.dropWhile p).take (l.takeWhile p).length := by rw [h]
  exact e.trans (List.take_left' rfl)

theorem drop_takeWhile_length (p : UInt8 → Bool) (l : List UInt8) : l.drop (l.takeWhile p).length = l.dropWhile p := by
  have h := @List.takeWhile_append_dropWhile _ p l
  have e : l.drop (l.takeWhile p).length = (l.takeWhile p ++ l.dropWhile p).drop (l.takeWhile p).length := by rw [h]
  exact e.trans (List.drop_left' rfl)

theorem takeWhile_length_le (p : UInt8 → Bool) (l : List UInt8) : (l.takeWhile p).length + (l.dropWhile p).length = l.length := by
  have h := congrArg List.length (@List.takeWhile_append_dropWhile _ p l)
  rw [List.length_append] at h
  exact h

theorem mem_takeWhile_imp (p : UInt8 → Bool) (l : List UInt8) (c : UInt8) (h : c ∈ l.takeWhile p) : p c = true := by
  induction l with
  | nil => simp at h
  | cons x t ih =>
    by_cases hx : p x = true
    · rw [List.takeWhile_cons_of_pos hx] at h
      rcases List.mem_cons.mp h with e | e
      · rw [e]; exact hx
      · exact ih e
    · rw [List.takeWhile_cons_of_neg hx] at h; simp at h

theorem bufList_cur (a : Ascii) (w : WF a) : bufList a a.bpos = (fileFrom a).take (a.nc - a.bpos) := by
  obtain ⟨_, _, l3, _, _⟩ := fileFrom_length a w
  rw [bufList_eq a w a.bpos, fileFrom, l3]


/-- the rest of the current buffer, as file bytes -/
def curBuf (a : Ascii) : List UInt8 := (fileFrom a).take (a.nc - a.bpos)
def nresOf (inmap : Bytes) (d : List UInt8) : Nat := (d.filter (isRes inmap)).length
def mapOf (a : Ascii) (sq : Sq) : Bytes := if sq.digital then abcInmap sq.abc else a.inmap
/-- the `ESL_SQ` after the residues of the consumed bytes `d` were appended (`esl_sq_GrowTo` + `addbuf`) -/
def stored (store : Bool) (inmap map : Bytes) (sq : Sq) (d : List UInt8) : Sq :=
  if store then
    { sq with seq := sq.seq ++ resOf inmap map d,
              salloc := max sq.salloc (sq.n + nresOf inmap d + (if sq.digital then 2 else 1)) }
  else sq

theorem seebuf_facts (a : Ascii) (h : Cur a) (hm : a.inmap.size = 128) :
    (seebuf a none).2.st = stopSt a.inmap ((curBuf a).dropWhile (isData a.inmap)) ∧
    (seebuf a none).2.endpos = a.bpos + ((curBuf a).takeWhile (isData a.inmap)).length ∧
    (seebuf a none).2.nres = nresOf a.inmap ((curBuf a).takeWhile (isData a.inmap)) ∧
    ((seebuf a none).2.st ≠ .eformat → Track.Ok (seebuf a none).1.trk) ∧
    (curBuf a).length = a.nc - a.bpos := by
  obtain ⟨_, l2, _, _, _⟩ := fileFrom_length a h.wf
  have hlen : (curBuf a).length = a.nc - a.bpos := by simp only [curBuf, List.length_take]; omega
  obtain ⟨s1, s2, s3, _, s5⟩ := seebuf_file a h.wf h.tok (a.nc - a.bpos) (Nat.le_refl _)
  obtain ⟨z1, z2, z3⟩ := scanBytes_simple a.inmap hm (a.nc - a.bpos) (curBuf a) ⟨a.trk, a.linenumber, 0⟩ 0 (by simp [hlen])
  have q7 := (scanBytes_bounds a.inmap (a.nc - a.bpos) (curBuf a) ⟨a.trk, a.linenumber, 0⟩ 0).2.2.2.2.2.2 h.tok
  have t1 := (NoFault.seebuf_safe a h.wf hm none).1
  simp only [curBuf] at *
  refine ⟨s1.trans z3, by rw [s2, z1]; omega, by rw [s3, z2]; simp [nresOf], fun hne => ?_, hlen⟩
  rw [s5 hne t1]; exact q7

/-- **one pass of the residue loop**, in terms of the remaining file bytes: either the whole buffer is data and the next block is loaded
    (or the end of the file is found), or the scan stops inside the buffer at an end-of-data byte, or at an illegal byte -/
theorem scanStep_spec (store : Bool) (a : Ascii) (sq : Sq) (h : Cur a) (hm : a.inmap.size = 128)
    (hmap : store = true → MapOk a.inmap (mapOf a sq)) (d : List UInt8) (hd : d = (curBuf a).takeWhile (isData a.inmap)) :
    ((curBuf a).dropWhile (isData a.inmap) = [] ∧
       (scanStep store a sq).2.1 = { stored store a.inmap (mapOf a sq) sq d with eoff := pos a + ((a.nc - a.bpos : Nat) : Int) - 1 } ∧
       Cur (scanStep store a sq).1 ∧ fileFrom (scanStep store a sq).1 = (fileFrom a).drop (a.nc - a.bpos) ∧
       stat (scanStep store a sq).1 = stat a ∧ (scanStep store a sq).1.L = a.L + (nresOf a.inmap d : Int) ∧
       (scanStep store a sq).2.2.2.2 = !((fileFrom a).drop (a.nc - a.bpos)).isEmpty ∧
       (scanStep store a sq).2.2.1 = (if ((fileFrom a).drop (a.nc - a.bpos)).isEmpty then .eof else .ok) ∧
       ((scanStep store a sq).2.2.2.2 = true → 0 < a.nc - a.bpos)) ∨
    (∃ c t, (curBuf a).dropWhile (isData a.inmap) = c :: t ∧ isEod a.inmap c = true ∧
       (scanStep store a sq).2.2.1 = .eod ∧ (scanStep store a sq).2.2.2.2 = false ∧
       (scanStep store a sq).2.2.2.1 = a.bpos + d.length ∧ d.length < a.nc - a.bpos ∧
       (scanStep store a sq).2.1 = { stored store a.inmap (mapOf a sq) sq d with eoff := pos a + (d.length : Int) - 1 } ∧
       (∃ b, WF { (scanStep store a sq).1 with bpos := b }) ∧ Track.Ok (scanStep store a sq).1.trk ∧ stat (scanStep store a sq).1 = stat a ∧
       (scanStep store a sq).1.L = a.L + (nresOf a.inmap d : Int) ∧ (scanStep store a sq).1.boff = a.boff ∧
       (scanStep store a sq).1.nc = a.nc) ∨
    (∃ c t, (curBuf a).dropWhile (isData a.inmap) = c :: t ∧ isEod a.inmap c = false ∧
       (scanStep store a sq).2.2.1 = .eformat ∧ (scanStep store a sq).2.2.2.2 = false ∧ (scanStep store a sq).1.haveErr = true) := by
  obtain ⟨f1, f2, f3, f4, f5⟩ := seebuf_facts a h hm
  rw [← hd] at f2 f3
  obtain ⟨t1, t2, t3, t4, t5, t6, t7, t8⟩ := NoFault.seebuf_safe a h.wf hm none
  have t9 := NoFault.seebuf_fields a none
  obtain ⟨u1, u2, u3, u4, u5, u6, _⟩ := seebuf_same a none
  have hE := seebuf_haveErr a none
  have w := h.wf
  have hfp : pos a + ((a.nc - a.bpos : Nat) : Int) = (a.fpos : Int) := by
    have := w.fposEq; have := w.boffEq; have := w.ncLe; have := w.bposLe; simp only [pos]; omega
  have htw := takeWhile_length_le (isData a.inmap) (curBuf a)
  rw [← hd, f5] at htw
  -- the bytes `addbuf` goes over
  have hbl : (bufList (seebuf a none).1 (seebuf a none).1.bpos).take d.length = d := by
    rw [bufList_eq _ t4, t5, t6, t7, t8, ← bufList_eq a w, bufList_cur a w, hd]
    exact take_takeWhile_length _ _
  have hadd : store = true → ∃ b', adOf a sq = ({ (seebuf a none).1 with bpos := b' },
      stored true a.inmap (mapOf a sq) sq d, .ok) := by
    intro hs
    have hmp := hmap hs
    unfold adOf
    rw [addbuf_eq, growTo_eq]
    have hk := addbufLoop_spec (seebuf a none).1 (NoFault.WF.rd t4) (mapOf a sq) sq.digital
      (max sq.salloc (sq.n + (seebuf a none).2.nres + (if sq.digital then 2 else 1))) (by rw [u3]; exact hmp)
      d.length (seebuf a none).1.bpos (seebuf a none).2.nres sq.seq (by rw [t5, t6]; omega)
      (by rw [hbl, u3, hd]; intro c hc; exact mem_takeWhile_imp _ _ c hc)
      (by rw [hbl, u3, f3]; rfl) (by simp only [Sq.n]; omega)
    obtain ⟨b', e1, e2, e3⟩ := hk
    refine ⟨b', ?_⟩
    simp only [mapOf, u3] at e1 e2 e3 ⊢
    rw [e1, e2, e3, hbl, f3]
    simp only [stored, if_true, mapOf]
  -- the next block
  have hload : ∀ X : Ascii, (∃ b, X = { (seebuf a none).1 with bpos := b, L := a.L + (nresOf a.inmap d : Int) }) →
      (seebuf a none).2.st ≠ .eformat →
      Cur (loadbuf X).1 ∧ fileFrom (loadbuf X).1 = (fileFrom a).drop (a.nc - a.bpos) ∧ stat (loadbuf X).1 = stat a ∧
      (loadbuf X).1.L = a.L + (nresOf a.inmap d : Int) ∧
      (loadbuf X).2 = (if ((fileFrom a).drop (a.nc - a.bpos)).isEmpty then .eof else .ok) ∧
      ((loadbuf X).2 = .ok → 0 < a.nc - a.bpos) := by
    rintro X ⟨b, rfl⟩ hne
    obtain ⟨_, _, _, _, _, _, t97, t98, t99, t910, t911, t912, t913⟩ := t9
    have hpre : Pre { (seebuf a none).1 with bpos := b, L := a.L + (nresOf a.inmap d : Int) } :=
      ⟨by show (seebuf a none).1.linebased = false; rw [t97]; exact w.block,
       by show (seebuf a none).1.recording ≠ 1; rw [t98]; exact w.norec,
       by show 1 ≤ (seebuf a none).1.B; rw [t99]; exact w.bpos1,
       by show (seebuf a none).1.mpos ≥ (seebuf a none).1.mn; rw [t910, t911, w.full]; exact Nat.le_refl _,
       by show (seebuf a none).1.fpos ≤ (seebuf a none).1.file.size; rw [t913, t8]; exact w.fposLe⟩
    obtain ⟨w3, b3, f3', _, p3, o⟩ := loadbuf_wf _ hpre
    have lr := Sim.loadbuf_rest _ hpre
    generalize loadbuf { (seebuf a none).1 with bpos := b, L := a.L + (nresOf a.inmap d : Int) } = lb at *
    have hfile : lb.1.file = a.file := by rw [f3']; exact t8
    have hfpos : pos lb.1 = (a.fpos : Int) := by rw [p3]; show (((seebuf a none).1.fpos : Nat) : Int) = _; rw [t913]
    have hposN : (pos lb.1).toNat = (pos a).toNat + (a.nc - a.bpos) := by
      have := h.posNonneg; omega
    have hff : fileFrom lb.1 = (fileFrom a).drop (a.nc - a.bpos) := by
      unfold fileFrom; rw [hposN, hfile, List.drop_drop]
    have hlenr : ((fileFrom a).drop (a.nc - a.bpos)).length + a.fpos = a.file.size := by
      have e1 := h.len; have e2 := h.posNonneg; have e3 := hfp; have e4 := (fileFrom_length a w).2.1
      rw [List.length_drop]
      generalize (fileFrom a).length = FL at *
      generalize pos a = P at *
      omega
    have htrk : lb.1.trk = (seebuf a none).1.trk := congrArg (fun p => p.2.2.2.1) lr
    have hL : lb.1.L = a.L + (nresOf a.inmap d : Int) := congrArg (fun p => p.2.1) lr
    have hstat : stat lb.1 = stat a := by
      have := stat_of_payload lr
      rw [this]
      simp only [stat, t8, u3, u4, u5, u6]
    have hfp' : ((seebuf a none).1.fpos : Nat) = a.fpos := t913
    rcases o with ⟨o1, o2, o3⟩ | ⟨o1, o2, o3⟩
    · have o3' : a.fpos < a.file.size := by
        have : ({ (seebuf a none).1 with bpos := b, L := a.L + (nresOf a.inmap d : Int) } : Ascii).fpos = a.fpos := hfp'
        rw [this] at o3
        have : ({ (seebuf a none).1 with bpos := b, L := a.L + (nresOf a.inmap d : Int) } : Ascii).file = a.file := t8
        rw [this] at o3; exact o3
      have hne' : ((fileFrom a).drop (a.nc - a.bpos)).isEmpty = false := by
        cases hh : ((fileFrom a).drop (a.nc - a.bpos)) with
        | nil => rw [hh] at hlenr; simp at hlenr; omega
        | cons _ _ => rfl
      refine ⟨⟨w3, Or.inl (by unfold Sim.Live; omega), by rw [htrk]; exact f4 hne⟩, hff, hstat, hL, by rw [o1, hne']; rfl, fun _ => ?_⟩
      rcases h.cur with l | ⟨⟨e1, e2⟩, e3⟩
      · unfold Sim.Live at l; omega
      · omega
    · have o3' : a.fpos = a.file.size := by
        have : ({ (seebuf a none).1 with bpos := b, L := a.L + (nresOf a.inmap d : Int) } : Ascii).fpos = a.fpos := hfp'
        rw [this] at o3
        have : ({ (seebuf a none).1 with bpos := b, L := a.L + (nresOf a.inmap d : Int) } : Ascii).file = a.file := t8
        rw [this] at o3; exact o3
      have hnil : (fileFrom a).drop (a.nc - a.bpos) = [] := List.eq_nil_of_length_eq_zero (by omega)
      refine ⟨⟨w3, Or.inr ⟨⟨o2, b3⟩, by rw [hfpos, hfile, o3']⟩, by rw [htrk]; exact f4 hne⟩, hff, hstat, hL, by rw [o1, hnil]; rfl,
        fun hk => by rw [o1] at hk; cases hk⟩
  have b1 : (Status.eod == Status.fault) = false := by decide
  have b2 : (Status.eod == Status.eformat) = false := by decide
  have b3 : (Status.ok == Status.fault) = false := by decide
  have b4 : (Status.ok == Status.eformat) = false := by decide
  have b5 : (Status.ok == Status.eod) = false := by decide
  have b6 : (Status.eformat == Status.fault) = false := by decide
  cases hr : (curBuf a).dropWhile (isData a.inmap) with
  | nil =>
    refine Or.inl ⟨rfl, ?_⟩
    have hst : (seebuf a none).2.st = .ok := by rw [f1, hr]; rfl
    have hdn : d.length = a.nc - a.bpos := by rw [hr] at htw; simpa using htw
    have he : (seebuf a none).1.boff + ((seebuf a none).2.endpos : Int) - 1 = pos a + ((a.nc - a.bpos : Nat) : Int) - 1 := by
      rw [t7, f2, hdn]; simp only [pos]; have := w.bposLe; omega
    cases store with
    | false =>
      obtain ⟨c1, c2, c3, c4, c5, c6⟩ := hload { (seebuf a none).1 with L := (seebuf a none).1.L + ((seebuf a none).2.nres : Int) }
        ⟨(seebuf a none).1.bpos, by rw [u2, f3]⟩ (by rw [hst]; decide)
      rw [scanStep_false]
      simp only [hst, b3, b4, b5, Bool.false_eq_true, if_false]
      refine ⟨?_, c1, c2, c3, c4, ?_, c5, ?_⟩
      · rw [he]; simp only [stored, Bool.false_eq_true, if_false]
      · rw [c5]; cases ((fileFrom a).drop (a.nc - a.bpos)).isEmpty <;> rfl
      · intro hk; exact c6 (eq_of_beq hk)
    | true =>
      obtain ⟨b', hb'⟩ := hadd rfl
      obtain ⟨c1, c2, c3, c4, c5, c6⟩ := hload { (adOf a sq).1 with L := (adOf a sq).1.L + ((seebuf a none).2.nres : Int) }
        ⟨b', by rw [hb']; simp only [u2, f3]⟩ (by rw [hst]; decide)
      have hA : ((adOf a sq).2.2 == Status.fault) = false := by rw [hb']; rfl
      rw [scanStep_true]
      simp only [hst, b3, b4, b5, hA, Bool.false_eq_true, if_false]
      refine ⟨?_, c1, c2, c3, c4, ?_, c5, ?_⟩
      · rw [hb']; simp only []; rw [he]
      · rw [c5]; cases ((fileFrom a).drop (a.nc - a.bpos)).isEmpty <;> rfl
      · intro hk; exact c6 (eq_of_beq hk)
  | cons c t =>
    have hdl : d.length < a.nc - a.bpos := by rw [hr] at htw; simp at htw; omega
    have he : (seebuf a none).1.boff + ((seebuf a none).2.endpos : Int) - 1 = pos a + (d.length : Int) - 1 := by
      rw [t7, f2]; simp only [pos]; omega
    by_cases hce : isEod a.inmap c = true
    · refine Or.inr (Or.inl ⟨c, t, rfl, hce, ?_⟩)
      have hst : (seebuf a none).2.st = .eod := by rw [f1, hr]; simp [stopSt, hce]
      have htk : Track.Ok (seebuf a none).1.trk := f4 (by rw [hst]; decide)
      cases store with
      | false =>
        rw [scanStep_false]
        simp only [hst, b1, b2, Bool.false_eq_true, if_false, beq_self_eq_true, if_true]
        refine ⟨trivial, trivial, f2, hdl, ?_, ⟨(seebuf a none).1.bpos, WF_L _ _ t4⟩, htk, ?_, ?_, t7, t6⟩
        · rw [he]; simp only [stored, Bool.false_eq_true, if_false]
        · simp only [stat, t8, u3, u4, u5, u6]
        · rw [u2, f3]
      | true =>
        obtain ⟨b', hb'⟩ := hadd rfl
        have hA : ((adOf a sq).2.2 == Status.fault) = false := by rw [hb']; rfl
        rw [scanStep_true]
        simp only [hst, b1, b2, hA, Bool.false_eq_true, if_false, beq_self_eq_true, if_true]
        rw [hb']
        refine ⟨trivial, trivial, f2, hdl, ?_, ⟨(seebuf a none).1.bpos, WF_L _ _ t4⟩, htk, ?_, ?_, t7, t6⟩
        · simp only []; rw [he]
        · simp only [stat, t8, u3, u4, u5, u6]
        · simp only [u2, f3]
    · have hce' : isEod a.inmap c = false := by simpa using hce
      refine Or.inr (Or.inr ⟨c, t, rfl, hce', ?_⟩)
      have hst : (seebuf a none).2.st = .eformat := by rw [f1, hr]; simp [stopSt, hce']
      have hErr : (seebuf a none).1.haveErr = true := by rw [hE, hst]; simp
      cases store with
      | false =>
        rw [scanStep_false]
        simp only [hst, b6, Bool.false_eq_true, if_false, beq_self_eq_true, if_true]
        exact ⟨trivial, trivial, hErr⟩
      | true =>
        rw [scanStep_true]
        simp only [hst, b6, Bool.false_eq_true, if_false, beq_self_eq_true, if_true]
        exact ⟨trivial, trivial, hErr⟩


/-! ## the whole loop -/

theorem split_data (p : UInt8 → Bool) (l : List UInt8) (n : Nat) :
    ((l.take n).dropWhile p = [] →
       l.takeWhile p = l.take n ++ (l.drop n).takeWhile p ∧ l.dropWhile p = (l.drop n).dropWhile p ∧ (l.take n).takeWhile p = l.take n) ∧
    (∀ c t, (l.take n).dropWhile p = c :: t → l.takeWhile p = (l.take n).takeWhile p ∧ l.dropWhile p = c :: (t ++ l.drop n)) := by
  have h := List.take_append_drop n l
  have hl := takeWhile_length_le p (l.take n)
  have e1 : l.takeWhile p = (l.take n ++ l.drop n).takeWhile p := by rw [h]
  have e2 : l.dropWhile p = (l.take n ++ l.drop n).dropWhile p := by rw [h]
  rw [List.takeWhile_append] at e1
  rw [List.dropWhile_append] at e2
  constructor
  · intro hnil
    rw [hnil] at hl e2
    simp only [List.length_nil, Nat.add_zero] at hl
    simp only [List.isEmpty_nil, if_true] at e2
    simp only [hl, if_true] at e1
    refine ⟨e1, e2, ?_⟩
    have := @List.takeWhile_append_dropWhile _ p (l.take n)
    rw [hnil, List.append_nil] at this
    exact this
  · intro c t hc
    rw [hc] at hl e2
    simp only [List.length_cons] at hl
    have hne : ¬ ((l.take n).takeWhile p).length = (l.take n).length := by omega
    simp only [hne, if_false] at e1
    simp only [List.isEmpty_cons, Bool.false_eq_true, if_false, List.cons_append] at e2
    exact ⟨e1, e2⟩

theorem stored_stored (store : Bool) (inmap map : Bytes) (sq : Sq) (d0 d1 : List UInt8) (e0 e1 : Int) :
    { stored store inmap map { stored store inmap map sq d0 with eoff := e0 } d1 with eoff := e1 } =
      { stored store inmap map sq (d0 ++ d1) with eoff := e1 } := by
  cases store with
  | false => simp only [stored, Bool.false_eq_true, if_false]
  | true =>
    simp only [stored, if_true, Sq.n, resOf_append, nresOf, List.filter_append, List.length_append, Array.size_append, resOf_size,
      Array.append_assoc]
    congr 1
    omega

theorem mapOf_stored (store : Bool) (inmap map : Bytes) (a a3 : Ascii) (sq : Sq) (d : List UInt8) (e : Int) (hi : a3.inmap = a.inmap) :
    mapOf a3 { stored store inmap map sq d with eoff := e } = mapOf a sq := by
  cases store <;> simp [mapOf, stored, hi]

theorem stat_inmap {a b : Ascii} (h : stat a = stat b) : a.inmap = b.inmap := congrArg (fun p => p.2.1) h
theorem stat_file {a b : Ascii} (h : stat a = stat b) : a.file = b.file := congrArg (fun p => p.1) h

/-- **The residue loop in closed form, for every block size.** `d` = the bytes consumed (`takeWhile isData` of the remaining file),
    `r` = what follows. -/
theorem scanLoop_spec (store : Bool) (fuel : Nat) : ∀ (a : Ascii) (sq : Sq), Cur a → a.inmap.size = 128 →
    (store = true → MapOk a.inmap (mapOf a sq)) → (fileFrom a).length + 1 < fuel →
    ∀ d r, d = (fileFrom a).takeWhile (isData a.inmap) → r = (fileFrom a).dropWhile (isData a.inmap) →
    (r = [] → (scanLoop store fuel a sq).2.2.1 = .eof ∧
       (scanLoop store fuel a sq).2.1 = { stored store a.inmap (mapOf a sq) sq d with eoff := pos a + (d.length : Int) - 1 } ∧
       Cur (scanLoop store fuel a sq).1 ∧ fileFrom (scanLoop store fuel a sq).1 = [] ∧
       stat (scanLoop store fuel a sq).1 = stat a ∧ (scanLoop store fuel a sq).1.L = a.L + (nresOf a.inmap d : Int)) ∧
    (∀ c t, r = c :: t → isEod a.inmap c = true → (scanLoop store fuel a sq).2.2.1 = .eod ∧
       (scanLoop store fuel a sq).2.1 = { stored store a.inmap (mapOf a sq) sq d with eoff := pos a + (d.length : Int) - 1 } ∧
       (∃ b, WF { (scanLoop store fuel a sq).1 with bpos := b }) ∧ Track.Ok (scanLoop store fuel a sq).1.trk ∧
       stat (scanLoop store fuel a sq).1 = stat a ∧ (scanLoop store fuel a sq).1.L = a.L + (nresOf a.inmap d : Int) ∧
       (scanLoop store fuel a sq).1.boff + ((scanLoop store fuel a sq).2.2.2 : Int) = pos a + (d.length : Int) ∧
       (scanLoop store fuel a sq).2.2.2 < (scanLoop store fuel a sq).1.nc) ∧
    (∀ c t, r = c :: t → isEod a.inmap c = false → (scanLoop store fuel a sq).2.2.1 = .eformat ∧
       (scanLoop store fuel a sq).1.haveErr = true) := by
  induction fuel with
  | zero => intro a sq _ _ _ hf; omega
  | succ fuel ih =>
    intro a sq h hm hmap hfuel d r hd hr
    have hn := (fileFrom_length a h.wf).2.1
    obtain ⟨sp1, sp2⟩ := split_data (isData a.inmap) (fileFrom a) (a.nc - a.bpos)
    rw [scanLoop_succ]
    rcases scanStep_spec store a sq h hm hmap _ rfl with ⟨A0, A1, A2, A3, A4, A5, A6, A7, A8⟩ | ⟨c, t, B0, B1, B2, B3, B4, B5, B6, B7, B8, B9, B10, B11, B12⟩ | ⟨c, t, C0, C1, C2, C3, C4⟩
    · obtain ⟨x1, x2, x3⟩ := sp1 A0
      simp only [curBuf] at A1 A5
      rw [x3] at A1 A5
      have hlen : ((fileFrom a).take (a.nc - a.bpos)).length = a.nc - a.bpos := by rw [List.length_take]; omega
      cases hrest : (fileFrom a).drop (a.nc - a.bpos) with
      | nil =>
        rw [hrest] at A6 A7 x1 x2 A3
        simp only [List.isEmpty_nil, Bool.not_true, if_true] at A6 A7
        simp only [A6, Bool.false_eq_true, if_false]
        simp only [List.takeWhile_nil, List.append_nil, List.dropWhile_nil] at x1 x2
        rw [x1] at hd; rw [x2] at hr
        subst hd hr
        refine ⟨fun _ => ⟨A7, ?_, A2, A3, A4, A5⟩, fun c t hc _ => (by cases hc), fun c t hc _ => (by cases hc)⟩
        rw [A1, hlen]
      | cons y ys =>
        rw [hrest] at A6 A7
        simp only [List.isEmpty_cons, Bool.not_false] at A6
        simp only [A6, if_true]
        have hpos : 0 < a.nc - a.bpos := A8 A6
        have hi3 : (scanStep store a sq).1.inmap = a.inmap := stat_inmap A4
        have hf3 : (scanStep store a sq).1.file = a.file := stat_file A4
        have hmap3 : store = true → MapOk (scanStep store a sq).1.inmap (mapOf (scanStep store a sq).1 (scanStep store a sq).2.1) := by
          intro hs; rw [A1, mapOf_stored _ _ _ a _ _ _ _ hi3, hi3]; exact hmap hs
        have hfuel3 : (fileFrom (scanStep store a sq).1).length + 1 < fuel := by rw [A3, List.length_drop]; omega
        have key := ih (scanStep store a sq).1 (scanStep store a sq).2.1 A2 (by rw [hi3]; exact hm) hmap3 hfuel3 _ _ rfl rfl
        rw [A3, hi3, hrest] at key
        rw [hrest] at x1 x2
        have hp3 : pos (scanStep store a sq).1 = pos a + ((a.nc - a.bpos : Nat) : Int) := by
          have e1 := A2.posEq; have e2 := h.posEq; have e3 := h.len
          rw [A3, hf3, List.length_drop] at e1
          rw [e1, e2]; omega
        have hdd : d = (fileFrom a).take (a.nc - a.bpos) ++ (y :: ys).takeWhile (isData a.inmap) := by rw [hd, x1]
        have hee : pos (scanStep store a sq).1 + (((y :: ys).takeWhile (isData a.inmap)).length : Int) - 1 = pos a + (d.length : Int) - 1 := by
          rw [hp3, hdd, List.length_append, hlen]; omega
        have hsq : ∀ e, { stored store a.inmap (mapOf (scanStep store a sq).1 (scanStep store a sq).2.1) (scanStep store a sq).2.1
              ((y :: ys).takeWhile (isData a.inmap)) with eoff := e } = { stored store a.inmap (mapOf a sq) sq d with eoff := e } := by
          intro e
          rw [A1, mapOf_stored _ _ _ a _ _ _ _ hi3, stored_stored, ← hdd]
        have hL : ∀ x : Int, x = (scanStep store a sq).1.L + (nresOf a.inmap ((y :: ys).takeWhile (isData a.inmap)) : Int) →
            x = a.L + (nresOf a.inmap d : Int) := by
          intro x hx
          rw [hx, A5, hdd]; simp only [nresOf, List.filter_append, List.length_append]; omega
        obtain ⟨k1, k2, k3⟩ := key
        rw [x2] at hr
        refine ⟨fun hnil => ?_, fun c t hc he => ?_, fun c t hc he => ?_⟩
        · obtain ⟨j1, j2, j3, j4, j5, j6⟩ := k1 (by rw [← hr]; exact hnil)
          exact ⟨j1, by rw [j2, hee, hsq], j3, j4, j5.trans A4, hL _ j6⟩
        · obtain ⟨j1, j2, j3, j4, j5, j6, j7, j8⟩ := k2 c t (by rw [← hr]; exact hc) he
          exact ⟨j1, by rw [j2, hee, hsq], j3, j4, j5.trans A4, hL _ j6, by rw [j7]; omega, j8⟩
        · exact k3 c t (by rw [← hr]; exact hc) he
    · obtain ⟨x1, x2⟩ := sp2 c t B0
      simp only [B3, Bool.false_eq_true, if_false]
      simp only [curBuf] at B4 B5 B6 B10
      rw [← x1, ← hd] at B4 B5 B6 B10
      rw [x2] at hr
      refine ⟨fun hnil => (by rw [hnil] at hr; cases hr), fun c' t' hc he => ⟨B2, B6, B7, B8, B9, B10, ?_, ?_⟩, fun c' t' hc he => ?_⟩
      · rw [B11, B4]; simp only [pos]; omega
      · rw [B4, B12]; omega
      · rw [hc] at hr; have := (List.cons.inj hr).1; subst this; rw [B1] at he; cases he
    · obtain ⟨x1, x2⟩ := sp2 c t C0
      simp only [C3, Bool.false_eq_true, if_false]
      rw [x2] at hr
      refine ⟨fun hnil => (by rw [hnil] at hr; cases hr), fun c' t' hc he => ?_, fun c' t' hc he => ⟨C2, C4⟩⟩
      rw [hc] at hr; have := (List.cons.inj hr).1; subst this; rw [C1] at he; cases he

end EaselModel.Sqio.BodySpec
