import EaselModel.Sqio.ParseFasta
import EaselModel.Sqio.GeomBridge
/-! # The tracker over the BYTES of a record = the tracker over its per-line counts (C07)

`seebuf` is a byte fold (`Sqio/Fold.lean`: `seebuf_fold`, `stepByte`). Here: folding the tracker part of `stepByte` over the data bytes
of a record — terminated lines `segs` (each ending in its end-of-line byte) and an unterminated rest — from the state `header_*` leaves
is `scanRec` on the record's line counts `GeomBridge.recOf`: the object `bplrpl_sound` speaks about. -/
namespace EaselModel.Sqio.TrackBytes
open EaselModel.Sqio EaselModel.Sqio.Fold EaselModel.Sqio.BodySpec EaselModel.Sqio.Tracker EaselModel.Sqio.GeomBridge Tables

/-- what `stepByte` does to the tracker for a byte of sequence data -/
def trkByte (inmap : Bytes) (t : Track) (c : UInt8) : Track :=
  if isRes inmap c then t.onStop 1 1 else if code inmap c == dsqEol then t.onEol 1 0 else t.onStop 1 0

theorem stepByte_trk (inmap : Bytes) (hm : inmap.size = 128) (s : SS) (c : UInt8) (hd : isData inmap c = true) :
    (stepByte inmap s c).2 = .ok ∧ (stepByte inmap s c).1.trk = trkByte inmap s.trk c := by
  have hcode := ParseFasta.isData_code inmap c hd
  have hne : code inmap c ≠ 254 := by
    rcases hcode with h | h | h
    · intro e; rw [e] at h; exact absurd h (by decide)
    · rw [h]; decide
    · rw [h]; decide
  obtain ⟨hlt, hget⟩ := ParseFasta.code_lt inmap c hne
  have hc128 : ¬ c ≥ 128 := by
    intro h; have : (128 : UInt8).toNat ≤ c.toNat := UInt8.le_iff_toNat_le.mp h
    simp at this; omega
  have hsome : inmap[c.toNat]? = some (code inmap c) := by
    rw [hget, Array.getD_eq_getD_getElem?, Array.getElem?_eq_getElem (by omega)]; rfl
  unfold stepByte trkByte isRes
  simp only [hc128, if_false, hsome]
  rcases hcode with h | h | h
  · simp [h]
  · have h1 : ¬ code inmap c ≤ 127 := by rw [h]; decide
    simp [h1, h, dsqEol]
  · have h1 : ¬ code inmap c ≤ 127 := by rw [h]; decide
    simp [h1, h, dsqEol, dsqIllegal, dsqEod, dsqIgnored]

/-- a stretch of data bytes without an end-of-line byte: one `onStop` with its length and residue count -/
theorem fold_body (inmap : Bytes) (body : List UInt8) (hb : ∀ c ∈ body, code inmap c ≠ dsqEol) :
    ∀ (t : Track), Track.Ok t →
    body.foldl (trkByte inmap) t = t.onStop (body.length : Int) ((body.filter (isRes inmap)).length : Int) := by
  induction body with
  | nil => intro t hok; simp [onStop_zero t hok]
  | cons c rest ih =>
    intro t hok
    have hc := hb c (by simp)
    have hle := List.length_filter_le (isRes inmap) rest
    rw [List.foldl_cons]
    by_cases hr : isRes inmap c = true
    · have e : trkByte inmap t c = t.onStop 1 1 := by simp [trkByte, hr]
      rw [e, ih (fun x hx => hb x (by simp [hx])) _ (onStop_ok t 1 1 hok (by omega) (by omega)),
        onStop_onStop t 1 1 _ _ hok (by omega) (by omega) (by omega) (by omega)]
      simp only [List.filter_cons, hr, if_true, List.length_cons]
      congr 1 <;> (push_cast; omega)
    · have e : trkByte inmap t c = t.onStop 1 0 := by
        have : (code inmap c == dsqEol) = false := by simpa using hc
        simp [trkByte, hr, this]
      rw [e, ih (fun x hx => hb x (by simp [hx])) _ (onStop_ok t 1 0 hok (by omega) (by omega)),
        onStop_onStop t 1 0 _ _ hok (by omega) (by omega) (by omega) (by omega)]
      simp only [List.filter_cons, hr, Bool.false_eq_true, if_false, List.length_cons]
      congr 1 <;> (push_cast; omega)

/-- a terminated line `body ++ [eol]`: one `onEol` with the line's bytes (newline included) and residues -/
theorem fold_line (inmap : Bytes) (body : List UInt8) (e : UInt8) (hb : ∀ c ∈ body, code inmap c ≠ dsqEol) (he : code inmap e = dsqEol)
    (t : Track) (hok : Track.Ok t) :
    (body ++ [e]).foldl (trkByte inmap) t =
      t.onEol (((body ++ [e]).length : Nat) : Int) ((((body ++ [e]).filter (isRes inmap)).length : Nat) : Int) := by
  have hle := List.length_filter_le (isRes inmap) body
  have hre : isRes inmap e = false := by simp [isRes, he, dsqEol]
  rw [List.foldl_append, fold_body inmap body hb t hok]
  have e1 : trkByte inmap (t.onStop (body.length : Int) ((body.filter (isRes inmap)).length : Int)) e =
      (t.onStop (body.length : Int) ((body.filter (isRes inmap)).length : Int)).onEol 1 0 := by
    simp [trkByte, hre, he]
  simp only [List.foldl_cons, List.foldl_nil, e1]
  rw [onStop_onEol t _ _ 1 0 hok (by omega) (by omega) (by omega) (by omega)]
  simp only [List.filter_append, List.filter_cons, hre, Bool.false_eq_true, if_false, List.filter_nil, List.append_nil,
    List.length_append, List.length_singleton]
  congr 1 <;> (push_cast; omega)

/-- a terminated line: a stretch without end-of-line bytes, then one end-of-line byte -/
def Terminated (inmap : Bytes) (l : List UInt8) : Prop :=
  ∃ body e, l = body ++ [e] ∧ (∀ c ∈ body, code inmap c ≠ dsqEol) ∧ code inmap e = dsqEol

theorem fold_lines (inmap : Bytes) (segs : List (List UInt8)) (hs : ∀ l ∈ segs, Terminated inmap l) :
    ∀ (t : Track), Track.Ok t →
    segs.flatten.foldl (trkByte inmap) t = (segs.map (cnt (isRes inmap))).foldl (fun t l => t.onEol l.1 l.2) t ∧
    Track.Ok (segs.flatten.foldl (trkByte inmap) t) := by
  induction segs with
  | nil => intro t hok; exact ⟨rfl, hok⟩
  | cons l segs ih =>
    intro t hok
    obtain ⟨body, e, rfl, hb, he⟩ := hs l (by simp)
    have h1 := fold_line inmap body e hb he t hok
    have hok1 : Track.Ok ((body ++ [e]).foldl (trkByte inmap) t) := by rw [h1]; exact onEol_ok _ _ _
    obtain ⟨i1, i2⟩ := ih (fun x hx => hs x (by simp [hx])) _ hok1
    rw [List.flatten_cons, List.foldl_append]
    refine ⟨?_, i2⟩
    rw [i1, h1]
    rfl

/-- **the tracker over the bytes of a record = the tracker over its line counts**: folding the tracker part of `stepByte` over the data
    bytes `segs.flatten ++ rest` of a record, from the state `header_*` leaves, is `scanRec` on `recOf … segs rest` -/
theorem fold_record (inmap : Bytes) (segs : List (List UInt8)) (rest : List UInt8) (hs : ∀ l ∈ segs, Terminated inmap l)
    (hrest : ∀ c ∈ rest, code inmap c ≠ dsqEol) (t : Track) :
    (segs.flatten ++ rest).foldl (trkByte inmap) (Tracker.step t Ev.hdr) = scanRec t (recOf (isRes inmap) segs rest) := by
  have hok0 : Track.Ok (Tracker.step t Ev.hdr) := DataScan.reset_ok t
  obtain ⟨l1, l2⟩ := fold_lines inmap segs hs _ hok0
  have hbody := fold_body inmap rest hrest _ l2
  have hrun : run t [Ev.hdr] = Tracker.step t Ev.hdr := rfl
  have hcons : ∀ (X Y : List Ev), run t (Ev.hdr :: X ++ Y) = run (run (run t [Ev.hdr]) X) Y := by
    intro X Y
    rw [show (Ev.hdr :: X ++ Y) = [Ev.hdr] ++ (X ++ Y) from rfl, run_append, run_append]
  unfold scanRec Rec.events recOf
  simp only []
  cases h : rest.isEmpty
  · simp only [Bool.false_eq_true, if_false]
    rw [hcons, run_eols, List.foldl_append, hbody, hrun, ← l1]
    rfl
  · have hr : rest = [] := List.isEmpty_iff.mp h
    subst hr
    simp only [if_true]
    rw [hcons, run_eols, hrun, ← l1, List.append_nil]
    rfl

end EaselModel.Sqio.TrackBytes
