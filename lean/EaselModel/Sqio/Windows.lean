import EaselModel.Sqio.Model
/-! # The window schedule of `sqascii_ReadWindow` (C04): coordinates tile the sequence -/
namespace EaselModel.Sqio.Windows

/-- a window as `ESL_SQ` describes it: `start..end` (1-based, inclusive of the context), `C` context residues, `n` residues held -/
structure Win where
  start : Int
  end_ : Int
  C : Int
  n : Int
  deriving Repr, DecidableEq

/-- first forward window of a record after `nres` residues were read: `start = 1, C = 0, end = start + C + nres − 1` -/
def fwdFirst (nres : Int) : Win := ⟨1, 1 + 0 + nres - 1, 0, nres⟩

/-- next forward window: caller asks context `C`; `d` residues were delivered so far (`ascii->L`); `nres` new residues are read -/
def fwdNext (w : Win) (C d nres : Int) : Win :=
  let r := fwdSlide C w.n.toNat d w.start
  ⟨r.2.1, r.2.1 + r.1 + nres - 1, r.1, r.2.2 + nres⟩

/-- the window holds exactly the residues `start..end`, and `end` is the number of residues delivered so far -/
def Inv (w : Win) (d : Int) : Prop := w.end_ = d ∧ w.n = w.end_ - w.start + 1 ∧ 0 ≤ w.C ∧ w.C ≤ w.n ∧ 1 ≤ w.start

theorem fwdFirst_inv (nres : Int) (h : 0 ≤ nres) : Inv (fwdFirst nres) nres := by
  simp only [Inv, fwdFirst]; omega

/-- **Forward windows tile the sequence.** The next window's context is the `min C n` residues just before position `d+1`,
    its new part is exactly residues `d+1 .. d+nres`, and it again holds exactly `start..end`. -/
theorem fwdNext_tiles (w : Win) (C d nres : Int) (hC : 0 ≤ C) (hn : 0 ≤ nres) (h : Inv w d) :
    let w' := fwdNext w C d nres
    Inv w' (d + nres) ∧ w'.C = min C w.n ∧ w'.start + w'.C = d + 1 ∧ w'.end_ = d + nres := by
  obtain ⟨h1, h2, h3, h4, h5⟩ := h
  have hn0 : 0 ≤ w.n := by omega
  have htn : ((w.n.toNat : Nat) : Int) = w.n := Int.toNat_of_nonneg hn0
  simp only [fwdNext, fwdSlide, Inv, htn]
  by_cases hc : C ≤ w.n
  · have hmin : min C w.n = C := Int.min_eq_left hc
    have htc : ((C.toNat : Nat) : Int) = C := Int.toNat_of_nonneg hC
    simp only [hmin, ge_iff_le, Int.le_refl, if_true, htc]
    refine ⟨⟨?_, ?_, ?_, ?_, ?_⟩, ?_, ?_, ?_⟩ <;> first | trivial | omega | (trace_state; omega)
  · have hlt : w.n < C := by omega
    have hmin : min C w.n = w.n := Int.min_eq_right (by omega)
    have hnot : ¬ (w.n ≥ C) := by omega
    simp only [hmin, hnot, if_false, htn]
    refine ⟨⟨?_, ?_, ?_, ?_, ?_⟩, ?_, ?_, ?_⟩ <;> first | trivial | omega | (trace_state; omega)

/-- **Reverse windows, first.** `[start..end]` is the top `min W L` residues. -/
theorem revInit_spec (L W : Int) (hL : 1 ≤ L) (hW : 1 ≤ W) :
    let r := revInit L W
    r.2 = L ∧ 1 ≤ r.1 ∧ r.1 ≤ L ∧ r.2 - r.1 + 1 = min W L := by
  simp only [revInit, Int.max_def, Int.min_def]
  repeat' split
  all_goals (simp only [true_and]; omega)

/-- **Reverse windows tile downwards.** With the previous window's lower end `prevLow ≥ 2`, the next window is
    `[start..end]` with `end = prevLow + C' − 1` (context = the `C'` lowest residues of the previous window), its new part is
    `[start .. prevLow−1]`: non-empty, at most `W` long, exactly `W` long unless it reaches residue 1. -/
theorem revNext_tiles (L C W prevLow : Int) (hC : 0 ≤ C) (hW : 1 ≤ W) (hlo : 2 ≤ prevLow) (hhi : prevLow ≤ L) :
    let r := revNext L C W prevLow
    r.1 = min C (L - prevLow + 1) ∧ r.2.1 = prevLow + r.1 - 1 ∧ r.2.1 ≤ L ∧ 1 ≤ r.2.2.1 ∧
    r.2.2.2 = prevLow - r.2.2.1 ∧ 1 ≤ r.2.2.2 ∧ r.2.2.2 ≤ W ∧ (r.2.2.1 > 1 → r.2.2.2 = W) := by
  simp only [revNext, Int.max_def, Int.min_def]
  repeat' split
  all_goals (refine ⟨?_, ?_, ?_, ?_, ?_, ?_, ?_, ?_⟩ <;> first | trivial | omega)

end EaselModel.Sqio.Windows
