import EaselModel.Sqio.MsaSeqLemmas
import EaselModel.Msafile.AfaReadDomain
import EaselModel.Msafile.A2mReadDomain
import EaselModel.Msafile.ClustalReadDomain
import EaselModel.Msafile.PsiblastReadDomain
import EaselModel.Msafile.PhylipReadDomain
import EaselModel.Msafile.SelexLemmas
/-! # `ModeOk` for the readers whose result mode is already a lemma (C03 read-domain files, imported only): aligned FASTA, A2M,
Clustal, Clustal-like, PSI-BLAST - every alphabet selection, every name width, every list of lines. -/
namespace EaselModel.Sqio.MsaSeq
open EaselModel.Msafile

theorem modeOf_of_cfg (fmt : Fmt) (abc : Option AbcType) (nw : Nat) (m : Msa)
    (hd : m.digital = (cfgOf fmt (abc.map abcOfType)).digital) (hk : m.kp = (cfgOf fmt (abc.map abcOfType)).kp)
    (hcd : (cfgOf fmt (abc.map abcOfType)).digital = abc.isSome)
    (hck : ∀ t, abc = some t → (cfgOf fmt (abc.map abcOfType)).kp = (abcOfType t).kp) : ModeOf ⟨fmt, abc, nw⟩ m :=
  ⟨by rw [hd, hcd], fun t ht => by rw [hk]; exact hck t ht⟩

theorem cfg_digital (fmt : Fmt) (abc : Option AbcType) : (cfgOf fmt (abc.map abcOfType)).digital = abc.isSome := by
  cases fmt <;> cases abc <;> rfl

theorem cfg_kp (fmt : Fmt) (abc : Option AbcType) (t : AbcType) (h : abc = some t) :
    (cfgOf fmt (abc.map abcOfType)).kp = (abcOfType t).kp := by
  subst h; cases fmt <;> rfl

theorem modeOk_afa (abc : Option AbcType) (nw : Nat) : ModeOk ⟨.afa, abc, nw⟩ := by
  intro lines m h
  have hn := afaRead_nd (cfgOf .afa (abc.map abcOfType)) (fun hd => by
    cases abc with
    | none => exact afaTextGraphB_true
    | some t => rw [cfg_digital] at hd; simp at hd) lines
  obtain ⟨_, _, hd, hk, _⟩ := hn m h
  exact modeOf_of_cfg .afa abc nw m hd hk (cfg_digital _ _) (cfg_kp _ _)

theorem modeOk_a2m (abc : Option AbcType) (nw : Nat) : ModeOk ⟨.a2m, abc, nw⟩ := by
  intro lines m h
  obtain ⟨_, _, hd, hk⟩ := a2mRead_nd (cfgOf .a2m (abc.map abcOfType)) lines m h
  exact modeOf_of_cfg .a2m abc nw m hd hk (cfg_digital _ _) (cfg_kp _ _)

theorem modeOk_clustal (abc : Option AbcType) (nw : Nat) : ModeOk ⟨.clustal, abc, nw⟩ := by
  intro lines m h
  have hn := clustalRead_nd false (cfgOf .clustal (abc.map abcOfType)) (fun hd => by
    cases abc with
    | none => exact cluTextGraphB_true
    | some t => rw [cfg_digital] at hd; simp at hd) lines
  obtain ⟨_, hd, hk, _⟩ := hn m h
  exact modeOf_of_cfg .clustal abc nw m hd hk (cfg_digital _ _) (cfg_kp _ _)

theorem modeOk_clustallike (abc : Option AbcType) (nw : Nat) : ModeOk ⟨.clustallike, abc, nw⟩ := by
  intro lines m h
  have hn := clustalRead_nd true (cfgOf .clustallike (abc.map abcOfType)) (fun hd => by
    cases abc with
    | none => exact cluTextGraphB_true
    | some t => rw [cfg_digital] at hd; simp at hd) lines
  obtain ⟨_, hd, hk, _⟩ := hn m h
  exact modeOf_of_cfg .clustallike abc nw m hd hk (cfg_digital _ _) (cfg_kp _ _)

theorem modeOk_psiblast (abc : Option AbcType) (nw : Nat) : ModeOk ⟨.psiblast, abc, nw⟩ := by
  intro lines m h
  have hn := psiblastRead_nd (cfgOf .psiblast (abc.map abcOfType)) (fun hd => by
    cases abc with
    | none => exact psiTextGraphB_true
    | some t => rw [cfg_digital] at hd; simp at hd) lines
  obtain ⟨_, hd, hk, _⟩ := hn m h
  exact modeOf_of_cfg .psiblast abc nw m hd hk (cfg_digital _ _) (cfg_kp _ _)

/-- PHYLIP (interleaved and sequential) with the default name width (a declared format: `afp->fmtd.namewidth = 0`, i.e. 10) -/
theorem modeOk_phylip (abc : Option AbcType) : ModeOk ⟨.phylip, abc, 0⟩ := by
  intro lines m h
  have hr : phylipRead false (cfgOf .phylip (abc.map abcOfType)) lines = (.ok m, (phylipRead false (cfgOf .phylip (abc.map abcOfType)) lines).2) := by
    have : (phylipRead false (cfgOf .phylip (abc.map abcOfType)) lines).1 = .ok m := h
    rw [← this]
  obtain ⟨_, _, hd, hk, _⟩ := phylipRead_nd false _ lines m _ hr
  exact modeOf_of_cfg .phylip abc 0 m hd hk (cfg_digital _ _) (cfg_kp _ _)

theorem modeOk_phylips (abc : Option AbcType) : ModeOk ⟨.phylips, abc, 0⟩ := by
  intro lines m h
  have hr : phylipRead true (cfgOf .phylips (abc.map abcOfType)) lines = (.ok m, (phylipRead true (cfgOf .phylips (abc.map abcOfType)) lines).2) := by
    have : (phylipRead true (cfgOf .phylips (abc.map abcOfType)) lines).1 = .ok m := h
    rw [← this]
  obtain ⟨_, _, hd, hk, _⟩ := phylipRead_nd true _ lines m _ hr
  exact modeOf_of_cfg .phylips abc 0 m hd hk (cfg_digital _ _) (cfg_kp _ _)

/-- a line-at-a-time reader whose steps never declare success returns `eslOK` only from its end-of-input function -/
theorem runLines_ok_from_finish {σ : Type} (step : σ → Msafile.Bytes → Sum σ (Res Msa)) (finish : σ → Res Msa)
    (hstep : ∀ st l, NotOk (step st l)) :
    ∀ (ls : List Msafile.Bytes) (st : σ) (m : Msa), (runLines step finish st ls).1 = .ok m → ∃ st', finish st' = .ok m := by
  intro ls
  induction ls with
  | nil => intro st m h; exact ⟨st, by simpa [runLines] using h⟩
  | cons l ls ih =>
    intro st m h
    unfold runLines at h
    cases hs : step st l with
    | inl st' => rw [hs] at h; exact ih st' m h
    | inr r =>
      rw [hs] at h
      simp only at h
      subst h
      exact absurd hs (hstep st l m)

theorem selexFinal_mode (cfg : Cfg) (st : SxSt) (m : Msa) (h : selexFinal cfg st = .ok m) : m.digital = cfg.digital ∧ m.kp = cfg.kp := by
  unfold selexFinal at h
  split at h
  · simp at h
  · split at h
    · simp at h
    · split at h
      · simp at h
      · simp only [Res.ok.injEq] at h
        subst h
        exact ⟨rfl, rfl⟩

/-- SELEX, every alphabet selection and name width -/
theorem modeOk_selex (abc : Option AbcType) (nw : Nat) : ModeOk ⟨.selex, abc, nw⟩ := by
  intro lines m h
  obtain ⟨st', hf⟩ := runLines_ok_from_finish (selexStep (cfgOf .selex (abc.map abcOfType))) (selexFinish (cfgOf .selex (abc.map abcOfType)))
    (fun st l => selexStep_notOk _ st l) lines {} m h
  have hmode : m.digital = (cfgOf .selex (abc.map abcOfType)).digital ∧ m.kp = (cfgOf .selex (abc.map abcOfType)).kp := by
    unfold selexFinish at hf
    split at hf
    · split at hf
      · rename_i r hpb
        subst hf
        exact absurd hpb (processBlock_notOk _ _ m)
      · exact selexFinal_mode _ _ m hf
    · exact selexFinal_mode _ _ m hf
  exact modeOf_of_cfg .selex abc nw m hmode.1 hmode.2 (cfg_digital _ _) (cfg_kp _ _)

end EaselModel.Sqio.MsaSeq
