import EaselModel.Sqio.MsaSeqLemmas
import EaselModel.Msafile.AfaReadDomain
import EaselModel.Msafile.A2mReadDomain
import EaselModel.Msafile.ClustalReadDomain
import EaselModel.Msafile.PsiblastReadDomain
import EaselModel.Msafile.PhylipReadDomain
/-! # `ModeOk` for the readers whose result mode is already a lemma (C03 read-domain files, imported only): aligned FASTA, A2M,
Clustal, Clustal-like, PSI-BLAST - every alphabet selection, every name width, every list of lines. -/
namespace EaselModel.Sqio.MsaSeq
open EaselModel.Msafile

theorem modeOf_of_cfg (fmt : Fmt) (abc : Option AbcType) (nw : Nat) (m : Msa)
    (hd : m.digital = (cfgOf fmt (abc.map abcOfType)).digital) (hk : m.kp = (cfgOf fmt (abc.map abcOfType)).kp)
    (hcd : (cfgOf fmt (abc.map abcOfType)).digital = abc.isSome)
    (hck : ∀ t, abc = some t → (cfgOf fmt (abc.map abcOfType)).kp = (abcOfType t).kp) : ModeOf ⟨fmt, abc, nw⟩ m :=
  ⟨by rw [hd, hcd], fun t ht => by rw [hk]; exact hck t ht⟩

theorem cfg_digital (fmt : Fmt) (abc : Option AbcType) : (cfgOf fmt (abc.map abcOfType)).digital = abc.isSome := by
  cases fmt <;> cases abc <;> rfl

theorem cfg_kp (fmt : Fmt) (abc : Option AbcType) (t : AbcType) (h : abc = some t) :
    (cfgOf fmt (abc.map abcOfType)).kp = (abcOfType t).kp := by
  subst h; cases fmt <;> rfl

theorem modeOk_afa (abc : Option AbcType) (nw : Nat) : ModeOk ⟨.afa, abc, nw⟩ := by
  intro lines m h
  have hn := afaRead_nd (cfgOf .afa (abc.map abcOfType)) (fun hd => by
    cases abc with
    | none => exact afaTextGraphB_true
    | some t => rw [cfg_digital] at hd; simp at hd) lines
  obtain ⟨_, _, hd, hk, _⟩ := hn m h
  exact modeOf_of_cfg .afa abc nw m hd hk (cfg_digital _ _) (cfg_kp _ _)

theorem modeOk_a2m (abc : Option AbcType) (nw : Nat) : ModeOk ⟨.a2m, abc, nw⟩ := by
  intro lines m h
  obtain ⟨_, _, hd, hk⟩ := a2mRead_nd (cfgOf .a2m (abc.map abcOfType)) lines m h
  exact modeOf_of_cfg .a2m abc nw m hd hk (cfg_digital _ _) (cfg_kp _ _)

theorem modeOk_clustal (abc : Option AbcType) (nw : Nat) : ModeOk ⟨.clustal, abc, nw⟩ := by
  intro lines m h
  have hn := clustalRead_nd false (cfgOf .clustal (abc.map abcOfType)) (fun hd => by
    cases abc with
    | none => exact cluTextGraphB_true
    | some t => rw [cfg_digital] at hd; simp at hd) lines
  obtain ⟨_, hd, hk, _⟩ := hn m h
  exact modeOf_of_cfg .clustal abc nw m hd hk (cfg_digital _ _) (cfg_kp _ _)

theorem modeOk_clustallike (abc : Option AbcType) (nw : Nat) : ModeOk ⟨.clustallike, abc, nw⟩ := by
  intro lines m h
  have hn := clustalRead_nd true (cfgOf .clustallike (abc.map abcOfType)) (fun hd => by
    cases abc with
    | none => exact cluTextGraphB_true
    | some t => rw [cfg_digital] at hd; simp at hd) lines
  obtain ⟨_, hd, hk, _⟩ := hn m h
  exact modeOf_of_cfg .clustallike abc nw m hd hk (cfg_digital _ _) (cfg_kp _ _)

theorem modeOk_psiblast (abc : Option AbcType) (nw : Nat) : ModeOk ⟨.psiblast, abc, nw⟩ := by
  intro lines m h
  have hn := psiblastRead_nd (cfgOf .psiblast (abc.map abcOfType)) (fun hd => by
    cases abc with
    | none => exact psiTextGraphB_true
    | some t => rw [cfg_digital] at hd; simp at hd) lines
  obtain ⟨_, hd, hk, _⟩ := hn m h
  exact modeOf_of_cfg .psiblast abc nw m hd hk (cfg_digital _ _) (cfg_kp _ _)

/-- PHYLIP (interleaved and sequential) with the default name width (a declared format: `afp->fmtd.namewidth = 0`, i.e. 10) -/
theorem modeOk_phylip (abc : Option AbcType) : ModeOk ⟨.phylip, abc, 0⟩ := by
  intro lines m h
  have hr : phylipRead false (cfgOf .phylip (abc.map abcOfType)) lines = (.ok m, (phylipRead false (cfgOf .phylip (abc.map abcOfType)) lines).2) := by
    have : (phylipRead false (cfgOf .phylip (abc.map abcOfType)) lines).1 = .ok m := h
    rw [← this]
  obtain ⟨_, _, hd, hk, _⟩ := phylipRead_nd false _ lines m _ hr
  exact modeOf_of_cfg .phylip abc 0 m hd hk (cfg_digital _ _) (cfg_kp _ _)

theorem modeOk_phylips (abc : Option AbcType) : ModeOk ⟨.phylips, abc, 0⟩ := by
  intro lines m h
  have hr : phylipRead true (cfgOf .phylips (abc.map abcOfType)) lines = (.ok m, (phylipRead true (cfgOf .phylips (abc.map abcOfType)) lines).2) := by
    have : (phylipRead true (cfgOf .phylips (abc.map abcOfType)) lines).1 = .ok m := h
    rw [← this]
  obtain ⟨_, _, hd, hk, _⟩ := phylipRead_nd true _ lines m _ hr
  exact modeOf_of_cfg .phylips abc 0 m hd hk (cfg_digital _ _) (cfg_kp _ _)

end EaselModel.Sqio.MsaSeq
