import EaselModel.Sqio.WindowSpec
import EaselModel.Sqio.WinSpecPure
/-! # Forward `sqascii_ReadWindow` series = the declarative windows of the residues that `sqascii_Read` returns (C04)

`winTail`: the part of `sqascii_ReadWindow` (forward strand) after the header has been parsed (first call) or the context has been slid
to the front (later calls): `GrowTo(C+W)`, `read_nres(0, W)`, `L += nres`, end-of-data handling. `winTail_spec`: its closed form on the
remaining file bytes, for every block size. `windows_eq_spec`: the whole series of one record, for every request stream `(C_k, W_k)`. -/
namespace EaselModel.Sqio.WindowSeries
open EaselModel.Sqio.Refine EaselModel.Sqio.Fold EaselModel.Sqio.DataScan EaselModel.Sqio.Cursor EaselModel.Sqio.BodySpec
open EaselModel.Sqio.HeaderSpec EaselModel.Sqio.ReadSpec EaselModel.Sqio.WindowSpec EaselModel.Sqio.WinSpecPure

/-! ## `splitRes` and `takeWhile isData` -/

theorem takeWhile_all_append (p : UInt8 → Bool) (l1 l2 : List UInt8) (h : ∀ c ∈ l1, p c = true) :
    (l1 ++ l2).takeWhile p = l1 ++ l2.takeWhile p ∧ (l1 ++ l2).dropWhile p = l2.dropWhile p := by
  induction l1 with
  | nil => exact ⟨rfl, rfl⟩
  | cons x xs ih =>
    have hx := h x (by simp)
    obtain ⟨i1, i2⟩ := ih (fun c hc => h c (by simp [hc]))
    simp only [List.cons_append, List.takeWhile_cons_of_pos hx, List.dropWhile_cons_of_pos hx, i1, i2]
    exact ⟨trivial, trivial⟩

theorem sr_prefix (inmap : Bytes) (l : List UInt8) (n : Nat) :
    ∃ t, l.takeWhile (isData inmap) = (splitRes inmap l n).1 ++ t ∧ (splitRes inmap l n).2 = t ++ l.dropWhile (isData inmap) ∧
      nresOf inmap (splitRes inmap l n).1 ≤ n ∧ (nresOf inmap (splitRes inmap l n).1 < n → t = []) := by
  have h1 := splitRes_append_eq inmap l n
  have h2 := splitRes_data inmap l n
  obtain ⟨a1, a2⟩ := takeWhile_all_append (isData inmap) (splitRes inmap l n).1 (splitRes inmap l n).2 h2
  rw [h1] at a1 a2
  refine ⟨(splitRes inmap l n).2.takeWhile (isData inmap), a1, ?_, splitRes_nres_le inmap l n, fun hlt => ?_⟩
  · rw [a2]; exact (List.takeWhile_append_dropWhile).symm
  · obtain ⟨e1, _⟩ := splitRes_lt inmap l n hlt
    rw [← e1] at a1
    have := congrArg List.length a1
    simp only [List.length_append] at this
    exact List.eq_nil_of_length_eq_zero (by omega)

theorem isEod_not_isData (inmap : Bytes) (c : UInt8) (h : isEod inmap c = true) : isData inmap c = false := by
  simp only [isEod, Tables.dsqEod, beq_iff_eq] at h
  simp [isData, h, Tables.dsqEol, Tables.dsqIgnored]

/-- data bytes followed by nothing or by an end-of-data byte: `takeWhile` / `dropWhile` split exactly there -/
theorem take_drop_data (inmap : Bytes) (D rest : List UInt8) (hD : ∀ c ∈ D, isData inmap c = true)
    (hr : ∀ c t, rest = c :: t → isEod inmap c = true) :
    (D ++ rest).takeWhile (isData inmap) = D ∧ (D ++ rest).dropWhile (isData inmap) = rest := by
  induction D with
  | nil =>
    cases rest with
    | nil => simp
    | cons c t =>
      have := isEod_not_isData inmap c (hr c t rfl)
      simp [this]
  | cons x xs ih =>
    have hx := hD x (by simp)
    obtain ⟨i1, i2⟩ := ih (fun c hc => hD c (by simp [hc]))
    simp only [List.cons_append, List.takeWhile_cons_of_pos hx, List.dropWhile_cons_of_pos hx, i1, i2]
    exact ⟨trivial, trivial⟩

/-! ## the common tail of the forward branch -/

/-- `sqascii_ReadWindow`, forward strand, from `esl_sq_GrowTo(sq, C+W)` on -/
def winTail (a : Ascii) (sq : Sq) (C W : Int) : Ascii × Sq × Status :=
  if C < 0 || W < 0 then (a, sq, .fault) else
  let sq := sq.growTo (C + W).toNat
  let (a, sq, st, nres) := readNres a sq 0 W.toNat
  let a := { a with L := a.L + nres }
  if st == .eod then
    let (a, sq, st) := parseEnd a sq
    if st != .ok then (a, sq, st) else
    let a :=
      if a.nc > 0 then { a with bookmarkOff := a.boff + a.bpos }
      else { a with bookmarkOff := 0, bookmarkLine := 0 }
    if !(if sq.digital then 1 < sq.salloc else 0 < sq.salloc) then (a, sq, .fault) else
    (a, { sq with start := 0, end_ := 0, C := 0, W := 0, L := a.L, seq := #[] }, .eod)
  else if st == .ok then
    (a, { sq with end_ := sq.start + sq.C + nres - 1, W := nres }, .ok)
  else (a, sq, st)

/-- first call on a record (`sq->start == 0`, as after `esl_sq_Reuse`): parse the header, then the common tail -/
theorem readWindow_first (a : Ascii) (sq : Sq) (C W : Int) (hW : 0 ≤ W) (hs : sq.start = 0) (hnc : a.nc ≠ 0) :
    readWindow a sq C W =
      if (parseHeader a sq).2.2 != .ok then parseHeader a sq else
      winTail { (parseHeader a sq).1 with L := 0 }
        { (parseHeader a sq).2.1 with start := 1, C := 0, L := -1, source := cstr (parseHeader a sq).2.1.name } C W := by
  have h1 : ¬ W < 0 := by omega
  have h2 : (a.nc == 0) = false := by simpa using hnc
  rcases hph : parseHeader a sq with ⟨a1, sq1, st1⟩
  unfold readWindow winTail
  simp only [h1, if_false, hs, beq_self_eq_true, if_true, h2, Bool.false_eq_true, hph]
  by_cases hst : (st1 != .ok) = true
  · simp only [hst, if_true]
  · simp only [hst, Bool.false_eq_true, if_false]

/-- later calls: slide the context to the front, then the common tail -/
theorem readWindow_next (a : Ascii) (sq : Sq) (C W : Int) (hW : 0 ≤ W) (hs : sq.start ≠ 0) :
    readWindow a sq C W =
      winTail a { sq with C := (fwdSlide C sq.n a.L sq.start).1,
                          seq := sq.seq.extract (sq.n - (fwdSlide C sq.n a.L sq.start).2.2) sq.n,
                          start := (fwdSlide C sq.n a.L sq.start).2.1 } C W := by
  have h1 : ¬ W < 0 := by omega
  have h2 : (sq.start == 0) = false := by simpa using hs
  unfold readWindow winTail
  simp only [h1, if_false, h2, Bool.false_eq_true]


/-! ## closed form of the common tail -/

/-- what the window calls need of the handle between two calls on one record (weaker than `Cur`: the cursor may stand at the very end
    of the buffer, which happens when a window ends with the last byte of a block) -/
structure HOk (a : Ascii) : Prop where
  w : WF a
  tok : Track.Ok a.trk
  hm : a.inmap.size = 128
  eofOk : a.eofIsOk = true
  fmt : a.fmt = 1
  eodGt : EodGt a.inmap

theorem HOk.of_stat {a b : Ascii} (h : HOk a) (w : WF b) (tok : Track.Ok b.trk) (hs : stat b = stat a) : HOk b :=
  ⟨w, tok, by rw [stat_inmap hs]; exact h.hm, by rw [stat_eofIsOk hs]; exact h.eofOk, by rw [stat_fmt hs]; exact h.fmt,
   by rw [stat_inmap hs]; exact h.eodGt⟩

theorem mapOf_growTo (a : Ascii) (sq : Sq) (k : Nat) : mapOf a (sq.growTo k) = mapOf a sq := by
  rw [growTo_eq]; rfl

theorem WF_bookmark (a : Ascii) (x y : Int) (h : WF a) : WF { a with bookmarkOff := x, bookmarkLine := y } :=
  ⟨h.block, h.norec, h.bpos1, h.full, h.moff0, h.fposEq, h.fposLe, h.ncLe, h.boffEq, h.bposLe⟩

theorem WF_bookmark1 (a : Ascii) (x : Int) (h : WF a) : WF { a with bookmarkOff := x } :=
  ⟨h.block, h.norec, h.bpos1, h.full, h.moff0, h.fposEq, h.fposLe, h.ncLe, h.boffEq, h.bposLe⟩

/-- the fields of the `ESL_SQ` that the window calls never touch after the header -/
def hdrOf (s : Sq) : Bool × Nat × Bytes × Bytes × Bytes × Nat × Nat × Int × Int × Int :=
  (s.digital, s.abc, s.name, s.acc, s.desc, s.nalloc, s.dalloc, s.roff, s.hoff, s.doff)

theorem winTail_spec (a : Ascii) (sq : Sq) (C W : Int) (D2 rest0 : List UInt8) (H : HOk a) (ff : fileFrom a = D2 ++ rest0)
    (hD : ∀ c ∈ D2, isData a.inmap c = true) (hr : ∀ c t, rest0 = c :: t → isEod a.inmap c = true)
    (hmap : MapOk a.inmap (mapOf a sq)) (hC : 0 ≤ C) (hW : 1 ≤ W) (hcap : sq.seq.size ≤ C.toNat) :
    ∃ D2', D2 = (splitRes a.inmap (D2 ++ rest0) W.toNat).1 ++ D2' ∧
      nresOf a.inmap (splitRes a.inmap (D2 ++ rest0) W.toNat).1 = min W.toNat (nresOf a.inmap D2) ∧
      (0 < nresOf a.inmap (splitRes a.inmap (D2 ++ rest0) W.toNat).1 →
        (winTail a sq C W).2.2 = .ok ∧
        (winTail a sq C W).2.1 = { sq.growTo (C + W).toNat with
            seq := sq.seq ++ resOf a.inmap (mapOf a sq) (splitRes a.inmap (D2 ++ rest0) W.toNat).1,
            end_ := sq.start + sq.C + (nresOf a.inmap (splitRes a.inmap (D2 ++ rest0) W.toNat).1 : Int) - 1,
            W := (nresOf a.inmap (splitRes a.inmap (D2 ++ rest0) W.toNat).1 : Int) } ∧
        HOk (winTail a sq C W).1 ∧ fileFrom (winTail a sq C W).1 = D2' ++ rest0 ∧
        (winTail a sq C W).1.L = a.L + (nresOf a.inmap (splitRes a.inmap (D2 ++ rest0) W.toNat).1 : Int) ∧
        stat (winTail a sq C W).1 = stat a) ∧
      (nresOf a.inmap (splitRes a.inmap (D2 ++ rest0) W.toNat).1 = 0 →
        (winTail a sq C W).2.2 = .eod ∧ (winTail a sq C W).2.1.seq = #[] ∧ (winTail a sq C W).2.1.L = a.L ∧
        (winTail a sq C W).2.1.start = 0 ∧ hdrOf (winTail a sq C W).2.1 = hdrOf sq ∧
        Cur (winTail a sq C W).1 ∧ fileFrom (winTail a sq C W).1 = rest0 ∧ stat (winTail a sq C W).1 = stat a) := by
  have hWn : 1 ≤ W.toNat := by omega
  have hk : (C + W).toNat = C.toNat + W.toNat := by omega
  obtain ⟨td1, td2⟩ := take_drop_data a.inmap D2 rest0 hD hr
  obtain ⟨t, p1, p2, p3, p4⟩ := sr_prefix a.inmap (D2 ++ rest0) W.toNat
  rw [td1] at p1
  rw [td2] at p2
  have hclean : Clean a.inmap (fileFrom a) := by
    intro c t' hc
    rw [ff, td2] at hc
    exact hr c t' hc
  have hcapN : (sq.growTo (C + W).toNat).seq.size + W.toNat + (if (sq.growTo (C + W).toNat).digital then 2 else 1) ≤
      (sq.growTo (C + W).toNat).salloc := by
    rw [growTo_eq, hk]
    show sq.seq.size + W.toNat + (if sq.digital then 2 else 1) ≤ max sq.salloc (C.toNat + W.toNat + (if sq.digital then 2 else 1))
    omega
  obtain ⟨r1, r2, r3, r4, r5, r6, r7, r8, r9, r10, r11, r12⟩ :=
    readNres_zero_spec a (sq.growTo (C + W).toNat) W.toNat hWn H.w H.tok H.hm H.eofOk (by rw [mapOf_growTo]; exact hmap) hclean hcapN
  rw [ff] at r1 r2 r3 r6 r12
  rw [mapOf_growTo] at r1
  have hnm : nresOf a.inmap (splitRes a.inmap (D2 ++ rest0) W.toNat).1 = min W.toNat (nresOf a.inmap D2) := by
    have e : nresOf a.inmap D2 = nresOf a.inmap (splitRes a.inmap (D2 ++ rest0) W.toNat).1 + nresOf a.inmap t := by
      have e0 := congrArg (fun l => (l.filter (isRes a.inmap)).length) p1
      simp only [List.filter_append, List.length_append] at e0
      exact e0
    by_cases hlt : nresOf a.inmap (splitRes a.inmap (D2 ++ rest0) W.toNat).1 < W.toNat
    · have := p4 hlt; subst this
      simp only [nresOf, List.filter_nil, List.length_nil] at e
      simp only [nresOf] at hlt ⊢; omega
    · omega
  refine ⟨t, p1, hnm, ?_, ?_⟩
  · intro hpos
    have hne : ¬ nresOf a.inmap (splitRes a.inmap (D2 ++ rest0) W.toNat).1 = 0 := by omega
    simp only [hne, if_false] at r3
    have hneg : (decide (C < 0) || decide (W < 0)) = false := by simp; omega
    unfold winTail
    simp only [hneg, Bool.false_eq_true, if_false]
    generalize readNres a (sq.growTo (C + W).toNat) 0 W.toNat = R at *
    obtain ⟨a1, sq1, st1, n1⟩ := R
    simp only [] at r1 r2 r3 r4 r5 r6 r7 r8 ⊢
    subst r1 r2 r3
    have b1 : (Status.ok == Status.eod) = false := by decide
    simp only [b1, Bool.false_eq_true, if_false, beq_self_eq_true, if_true]
    refine ⟨trivial, ?_, HOk.of_stat H (WF_L a1 _ r4) r5 r7, ?_, ?_, r7⟩
    · rw [growTo_eq]
    · show fileFrom a1 = t ++ rest0
      rw [r6, p2]
    · show a1.L + _ = _
      rw [r8]
  · intro hz
    simp only [hz, if_true] at r3
    have ht : t = [] := p4 (by omega)
    subst ht
    simp only [List.nil_append] at p2
    have hneg : (decide (C < 0) || decide (W < 0)) = false := by simp; omega
    unfold winTail
    simp only [hneg, Bool.false_eq_true, if_false]
    generalize readNres a (sq.growTo (C + W).toNat) 0 W.toNat = R at *
    obtain ⟨a1, sq1, st1, n1⟩ := R
    simp only [] at r1 r2 r3 r4 r5 r6 r7 r8 r9 r10 r11 r12 ⊢
    subst r1 r2 r3
    simp only [beq_self_eq_true, if_true]
    have hfmt1 : a1.fmt = 1 := by rw [stat_fmt r7]; exact H.fmt
    have hcur := r12 hz
    have w2 : WF { a1 with L := a1.L + ((nresOf a.inmap (splitRes a.inmap (D2 ++ rest0) W.toNat).1 : Nat) : Int) } := WF_L a1 _ r4
    rw [parseEnd_fasta _ _ (show ({ a1 with L := a1.L + ((nresOf a.inmap (splitRes a.inmap (D2 ++ rest0) W.toNat).1 : Nat) : Int) } : Ascii).fmt = 1 from hfmt1)]
    have hsal : (if (sq.growTo (C + W).toNat).digital then 1 < (sq.growTo (C + W).toNat).salloc else 0 < (sq.growTo (C + W).toNat).salloc) := by
      rw [growTo_eq, hk]
      show (if sq.digital then 1 < max sq.salloc (C.toNat + W.toNat + (if sq.digital then 2 else 1))
            else 0 < max sq.salloc (C.toNat + W.toNat + (if sq.digital then 2 else 1)))
      cases sq.digital <;> simp <;> omega
    rcases hcur with hl | ⟨⟨e1, e2⟩, e3⟩
    · -- on the end-of-data byte
      have hl' : Sim.Live { a1 with L := a1.L + ((nresOf a.inmap (splitRes a.inmap (D2 ++ rest0) W.toNat).1 : Nat) : Int) } := hl
      obtain ⟨x, hx, hfx⟩ := fileFrom_live _ w2 hl'
      have hff1 : fileFrom { a1 with L := a1.L + ((nresOf a.inmap (splitRes a.inmap (D2 ++ rest0) W.toNat).1 : Nat) : Int) } = rest0 := by
        show fileFrom a1 = rest0
        rw [r6, p2]
      rw [hff1] at hfx
      have hxe : isEod a.inmap x = true := hr x _ hfx
      have hxg : x = chGt := H.eodGt x hxe
      have hlt : ({ a1 with L := a1.L + ((nresOf a.inmap (splitRes a.inmap (D2 ++ rest0) W.toNat).1 : Nat) : Int) } : Ascii).bpos <
          ({ a1 with L := a1.L + ((nresOf a.inmap (splitRes a.inmap (D2 ++ rest0) W.toNat).1 : Nat) : Int) } : Ascii).nc := hl
      unfold endFasta
      simp only [hlt, if_true, hx, hxg]
      have b0 : (chGt != chGt) = false := by simp
      have b2 : (Status.ok != Status.ok) = false := by decide
      have hnc : a1.nc > 0 := by unfold Sim.Live at hl; omega
      simp only [b0, Bool.false_eq_true, if_false, b2, hnc, if_true]
      have hsal' : (if (sq.growTo (C + W).toNat).digital = true then decide (1 < (sq.growTo (C + W).toNat).salloc)
          else decide (0 < (sq.growTo (C + W).toNat).salloc)) = true := by
        cases hdg : (sq.growTo (C + W).toNat).digital <;> simp [hdg] at hsal ⊢ <;> exact hsal
      simp only [hsal', Bool.not_true, Bool.false_eq_true, if_false]
      refine ⟨trivial, trivial, ?_, trivial, ?_, ⟨WF_bookmark1 _ _ w2, Or.inl hl, r5⟩, hff1, r7⟩
      · show a1.L + _ = a.L
        rw [r8, hz]; simp
      · rw [growTo_eq]; rfl
    · -- at the end of the file
      have hnl : ¬ ({ a1 with L := a1.L + ((nresOf a.inmap (splitRes a.inmap (D2 ++ rest0) W.toNat).1 : Nat) : Int) } : Ascii).bpos <
          ({ a1 with L := a1.L + ((nresOf a.inmap (splitRes a.inmap (D2 ++ rest0) W.toNat).1 : Nat) : Int) } : Ascii).nc := by
        show ¬ a1.bpos < a1.nc
        omega
      unfold endFasta
      have b2 : (Status.ok != Status.ok) = false := by decide
      have hnc : ¬ a1.nc > 0 := by omega
      simp only [hnl, if_false, b2, Bool.false_eq_true, hnc]
      have hsal' : (if (sq.growTo (C + W).toNat).digital = true then decide (1 < (sq.growTo (C + W).toNat).salloc)
          else decide (0 < (sq.growTo (C + W).toNat).salloc)) = true := by
        cases hdg : (sq.growTo (C + W).toNat).digital <;> simp [hdg] at hsal ⊢ <;> exact hsal
      simp only [hsal', Bool.not_true, Bool.false_eq_true, if_false]
      have hff1 : fileFrom a1 = rest0 := by rw [r6, p2]
      refine ⟨trivial, trivial, ?_, trivial, ?_, ⟨WF_bookmark _ _ _ w2, Or.inr ⟨⟨e1, e2⟩, e3⟩, r5⟩, hff1, r7⟩
      · show a1.L + _ = a.L
        rw [r8, hz]; simp
      · rw [growTo_eq]; rfl


/-! ## one window call on the record's data -/

theorem extract_mid (A B C : Bytes) : (A ++ B ++ C).extract A.size (A.size + B.size) = B := by
  rw [Array.append_assoc, Array.extract_append]
  simp

/-- between two window calls of one record whose data bytes are `D = D1 ++ D2` (`D1` consumed, `D2` to come), followed by `rest0`;
    `R = resOf inmap map D` are the record's residues; the `ESL_SQ` holds the last `sq.seq.size` residues delivered -/
structure InWin (a : Ascii) (sq : Sq) (inmap map : Bytes) (D D1 D2 rest0 : List UInt8) : Prop where
  H : HOk a
  im : a.inmap = inmap
  mp : mapOf a sq = map
  hmap : MapOk inmap map
  split : D = D1 ++ D2
  ff : fileFrom a = D2 ++ rest0
  hD : ∀ c ∈ D2, isData inmap c = true
  hr : ∀ c t, rest0 = c :: t → isEod inmap c = true
  hL : a.L = (nresOf inmap D1 : Int)
  nle : sq.seq.size ≤ nresOf inmap D1
  hseq : sq.seq = (resOf inmap map D).extract (nresOf inmap D1 - sq.seq.size) (nresOf inmap D1)
  hstart : sq.start = (nresOf inmap D1 : Int) - (sq.seq.size : Int) + 1

/-- the common tail from a state whose `ESL_SQ` holds exactly `c` residues of context (`c ≤ C`): either a window with `w = min W (left)`
    new residues — exactly the declarative window — and the invariant again, or (nothing left) `eslEOD` with the record's `L`. -/
theorem winTail_step (a : Ascii) (sq : Sq) (C W : Int) (inmap map : Bytes) (D D1 D2 rest0 : List UInt8)
    (I : InWin a sq inmap map D D1 D2 rest0) (hC : 0 ≤ C) (hW : 1 ≤ W) (hc : sq.seq.size ≤ C.toNat) (hsC : sq.C = (sq.seq.size : Int)) :
    (0 < min W.toNat (nresOf inmap D2) →
      (winTail a sq C W).2.2 = .ok ∧
      toWin (winTail a sq C W).2.1 =
        ⟨(nresOf inmap D1 : Int) - (sq.seq.size : Nat) + 1, ((nresOf inmap D1 + min W.toNat (nresOf inmap D2) : Nat) : Int), (sq.seq.size : Nat),
         (min W.toNat (nresOf inmap D2) : Nat),
         (resOf inmap map D).extract (nresOf inmap D1 - sq.seq.size) (nresOf inmap D1 + min W.toNat (nresOf inmap D2))⟩ ∧
      hdrOf (winTail a sq C W).2.1 = hdrOf sq ∧
      (winTail a sq C W).2.1.seq.size = sq.seq.size + min W.toNat (nresOf inmap D2) ∧
      stat (winTail a sq C W).1 = stat a ∧
      ∃ D1' D2', InWin (winTail a sq C W).1 (winTail a sq C W).2.1 inmap map D D1' D2' rest0 ∧
        nresOf inmap D1' = nresOf inmap D1 + min W.toNat (nresOf inmap D2) ∧
        nresOf inmap D2' = nresOf inmap D2 - min W.toNat (nresOf inmap D2)) ∧
    (min W.toNat (nresOf inmap D2) = 0 →
      (winTail a sq C W).2.2 = .eod ∧ (winTail a sq C W).2.1.seq = #[] ∧ (winTail a sq C W).2.1.L = (nresOf inmap D1 : Int) ∧
      (winTail a sq C W).2.1.start = 0 ∧ hdrOf (winTail a sq C W).2.1 = hdrOf sq ∧
      Cur (winTail a sq C W).1 ∧ fileFrom (winTail a sq C W).1 = rest0 ∧ stat (winTail a sq C W).1 = stat a) := by
  obtain ⟨H, im, mp, hmap, split, ff, hD, hr, hL, nle, hseq, hstart⟩ := I
  subst im
  obtain ⟨D2', q1, q2, q3, q4⟩ := winTail_spec a sq C W D2 rest0 H ff hD hr (by rw [mp]; exact hmap) hC hW hc
  rw [mp] at q3
  rw [q2] at q3 q4
  refine ⟨fun hpos => ?_, fun hz => ?_⟩
  · obtain ⟨k1, k2, k3, k4, k5, k6⟩ := q3 hpos
    generalize hs1 : (splitRes a.inmap (D2 ++ rest0) W.toNat).1 = S1 at q1 q2 k2
    generalize hw : min W.toNat (nresOf a.inmap D2) = w at *
    -- the residues: R = resOf D1 ++ resOf S1 ++ resOf D2'
    have hR : resOf a.inmap map D = resOf a.inmap map D1 ++ resOf a.inmap map S1 ++ resOf a.inmap map D2' := by
      rw [split, q1, resOf_append, resOf_append, Array.append_assoc]
    have hs1sz : (resOf a.inmap map S1).size = w := by rw [resOf_size]; exact q2
    have hd1sz : (resOf a.inmap map D1).size = nresOf a.inmap D1 := resOf_size _ _ _
    have hnew : resOf a.inmap map S1 = (resOf a.inmap map D).extract (nresOf a.inmap D1) (nresOf a.inmap D1 + w) := by
      rw [hR, ← hd1sz, ← hs1sz, extract_mid]
    have hseq' : (winTail a sq C W).2.1.seq =
        (resOf a.inmap map D).extract (nresOf a.inmap D1 - sq.seq.size) (nresOf a.inmap D1 + w) := by
      rw [k2]
      show sq.seq ++ resOf a.inmap map S1 = _
      rw [hnew]
      conv => lhs; rw [hseq]
      rw [Array.extract_append_extract]
      congr 1 <;> omega
    have hRsz : nresOf a.inmap D1 + w ≤ (resOf a.inmap map D).size := by
      rw [hR]; simp only [Array.size_append]; omega
    have hsz : (winTail a sq C W).2.1.seq.size = sq.seq.size + w := by
      rw [hseq', Array.size_extract]; omega
    have hst : (winTail a sq C W).2.1.start = sq.start := by rw [k2, growTo_eq]
    have hCC : (winTail a sq C W).2.1.C = sq.C := by rw [k2, growTo_eq]
    have hEnd : (winTail a sq C W).2.1.end_ = sq.start + sq.C + (w : Int) - 1 := by rw [k2]
    have hWW : (winTail a sq C W).2.1.W = (w : Int) := by rw [k2]
    have hmp' : mapOf (winTail a sq C W).1 (winTail a sq C W).2.1 = map := by
      rw [← mp, k2, growTo_eq]
      simp only [mapOf, stat_inmap k6]
    have e : nresOf a.inmap (D1 ++ S1) = nresOf a.inmap D1 + w := by
      have : nresOf a.inmap (D1 ++ S1) = nresOf a.inmap D1 + nresOf a.inmap S1 := by
        simp only [nresOf, List.filter_append, List.length_append]
      omega
    refine ⟨k1, ?_, by rw [k2, growTo_eq]; rfl, hsz, k6, D1 ++ S1, D2', ?_, ?_, ?_⟩
    · unfold toWin
      rw [hEnd, hst, hCC, hWW, hseq', hstart, hsC]
      congr 1
      omega
    · refine ⟨k3, stat_inmap k6, hmp', hmap, by rw [split, q1, List.append_assoc], k4, fun c hc' => hD c (by rw [q1]; simp [hc']), hr, ?_, ?_, ?_, ?_⟩
      · rw [k5, hL, e]; omega
      · rw [hsz, e]; omega
      · rw [e, hsz, hseq']
        congr 1; omega
      · rw [e, hsz, hst, hstart]; omega
    · exact e
    · have e2 : nresOf a.inmap D2 = nresOf a.inmap S1 + nresOf a.inmap D2' := by
        rw [q1]; simp only [nresOf, List.filter_append, List.length_append]
      omega
  · obtain ⟨k1, k2, k3, k4, k5, k6, k7, k8⟩ := q4 hz
    exact ⟨k1, k2, by rw [k3, hL], k4, k5, k6, k7, k8⟩


/-! ## the series of one record -/

theorem fwdSlide_eq (C : Int) (n : Nat) (L start : Int) (hC : 0 ≤ C) (hst : start = L - (n : Int) + 1) :
    fwdSlide C n L start = (((min C.toNat n : Nat) : Int), L - ((min C.toNat n : Nat) : Int) + 1, min C.toNat n) := by
  unfold fwdSlide
  by_cases h : C ≤ (n : Int)
  · have e1 : min C (n : Int) = C := by omega
    have e2 : min C.toNat n = C.toNat := by omega
    have e3 : ((C.toNat : Nat) : Int) = C := by omega
    simp only [e1, e2, e3, ge_iff_le, Int.le_refl, if_true]
  · have e1 : min C (n : Int) = (n : Int) := by omega
    have e2 : min C.toNat n = n := by omega
    have e4 : ¬ (n : Int) ≥ C := by omega
    simp only [e1, e2, e4, if_false, hst]

theorem resOf_total (inmap map : Bytes) (D D1 D2 : List UInt8) (h : D = D1 ++ D2) :
    (resOf inmap map D).size = nresOf inmap D1 + nresOf inmap D2 := by
  rw [resOf_size, h]; simp only [nresOf, List.filter_append, List.length_append]

/-- a later call (`sq->start ≠ 0`): slide the context, then the common tail -/
theorem readWindow_next_step (a : Ascii) (sq : Sq) (C W : Int) (inmap map : Bytes) (D D1 D2 rest0 : List UInt8)
    (I : InWin a sq inmap map D D1 D2 rest0) (hC : 0 ≤ C) (hW : 1 ≤ W) :
    (0 < min W.toNat (nresOf inmap D2) →
      (readWindow a sq C W).2.2 = .ok ∧
      toWin (readWindow a sq C W).2.1 =
        ⟨(nresOf inmap D1 : Int) - (min C.toNat sq.seq.size : Nat) + 1, ((nresOf inmap D1 + min W.toNat (nresOf inmap D2) : Nat) : Int),
         (min C.toNat sq.seq.size : Nat), (min W.toNat (nresOf inmap D2) : Nat),
         (resOf inmap map D).extract (nresOf inmap D1 - min C.toNat sq.seq.size) (nresOf inmap D1 + min W.toNat (nresOf inmap D2))⟩ ∧
      hdrOf (readWindow a sq C W).2.1 = hdrOf sq ∧
      (readWindow a sq C W).2.1.seq.size = min C.toNat sq.seq.size + min W.toNat (nresOf inmap D2) ∧
      stat (readWindow a sq C W).1 = stat a ∧
      ∃ D1' D2', InWin (readWindow a sq C W).1 (readWindow a sq C W).2.1 inmap map D D1' D2' rest0 ∧
        nresOf inmap D1' = nresOf inmap D1 + min W.toNat (nresOf inmap D2) ∧
        nresOf inmap D2' = nresOf inmap D2 - min W.toNat (nresOf inmap D2)) ∧
    (min W.toNat (nresOf inmap D2) = 0 →
      (readWindow a sq C W).2.2 = .eod ∧ (readWindow a sq C W).2.1.seq = #[] ∧ (readWindow a sq C W).2.1.L = (nresOf inmap D1 : Int) ∧
      (readWindow a sq C W).2.1.start = 0 ∧ hdrOf (readWindow a sq C W).2.1 = hdrOf sq ∧
      Cur (readWindow a sq C W).1 ∧ fileFrom (readWindow a sq C W).1 = rest0 ∧ stat (readWindow a sq C W).1 = stat a) := by
  have hs0 : sq.start ≠ 0 := by have := I.hstart; have := I.nle; omega
  rw [readWindow_next a sq C W (by omega) hs0]
  have hst : sq.start = a.L - ((sq.n : Nat) : Int) + 1 := by rw [I.hstart, I.hL]; rfl
  rw [fwdSlide_eq C sq.n a.L sq.start hC hst]
  simp only []
  have hn : sq.n = sq.seq.size := rfl
  rw [hn]
  generalize hc : min C.toNat sq.seq.size = c
  have hRs := resOf_total inmap map D D1 D2 I.split
  have hseq' : sq.seq.extract (sq.seq.size - c) sq.seq.size = (resOf inmap map D).extract (nresOf inmap D1 - c) (nresOf inmap D1) := by
    have := I.nle
    conv => lhs; rw [I.hseq]
    rw [Array.extract_extract, Array.size_extract]
    congr 1 <;> omega
  have hsz' : (sq.seq.extract (sq.seq.size - c) sq.seq.size).size = c := by
    rw [Array.size_extract]; omega
  have I' : InWin a { sq with C := (c : Int), seq := sq.seq.extract (sq.seq.size - c) sq.seq.size, start := a.L - (c : Int) + 1 }
      inmap map D D1 D2 rest0 := by
    refine ⟨I.H, I.im, I.mp, I.hmap, I.split, I.ff, I.hD, I.hr, I.hL, ?_, ?_, ?_⟩
    · show (sq.seq.extract (sq.seq.size - c) sq.seq.size).size ≤ _
      rw [hsz']; have := I.nle; omega
    · show sq.seq.extract (sq.seq.size - c) sq.seq.size = _
      rw [hsz']; exact hseq'
    · show a.L - (c : Int) + 1 = _
      rw [hsz', I.hL]
  have key := winTail_step a { sq with C := (c : Int), seq := sq.seq.extract (sq.seq.size - c) sq.seq.size, start := a.L - (c : Int) + 1 }
    C W inmap map D D1 D2 rest0 I' hC hW (by show (sq.seq.extract (sq.seq.size - c) sq.seq.size).size ≤ _; rw [hsz']; omega)
    (by show (c : Int) = ((sq.seq.extract (sq.seq.size - c) sq.seq.size).size : Int); rw [hsz'])
  have hsz'' : ({ sq with C := (c : Int), seq := sq.seq.extract (sq.seq.size - c) sq.seq.size, start := a.L - (c : Int) + 1 } : Sq).seq.size = c := hsz'
  rw [hsz''] at key
  exact key

/-- the client loop over the windows of ONE record: `while ((st = esl_sqio_ReadWindow(sqfp, C_k, W_k, sq)) == eslOK) { use the window }`;
    returns the windows (the `ESL_SQ` after every successful call), the handle, the `ESL_SQ` and the status after the last call -/
def readWindowsM (req : Nat → Int × Int) : Nat → Nat → Ascii → Sq → List Sq × Ascii × Sq × Status
  | 0, _, a, sq => ([], a, sq, .fault)
  | fuel + 1, k, a, sq =>
    if (readWindow a sq (req k).1 (req k).2).2.2 == .ok then
      ((readWindow a sq (req k).1 (req k).2).2.1 ::
          (readWindowsM req fuel (k + 1) (readWindow a sq (req k).1 (req k).2).1 (readWindow a sq (req k).1 (req k).2).2.1).1,
       (readWindowsM req fuel (k + 1) (readWindow a sq (req k).1 (req k).2).1 (readWindow a sq (req k).1 (req k).2).2.1).2)
    else ([], (readWindow a sq (req k).1 (req k).2).1, (readWindow a sq (req k).1 (req k).2).2.1, (readWindow a sq (req k).1 (req k).2).2.2)

theorem readWindowsM_succ (req : Nat → Int × Int) (fuel k : Nat) (a : Ascii) (sq : Sq) :
    readWindowsM req (fuel + 1) k a sq =
    if (readWindow a sq (req k).1 (req k).2).2.2 == .ok then
      ((readWindow a sq (req k).1 (req k).2).2.1 ::
          (readWindowsM req fuel (k + 1) (readWindow a sq (req k).1 (req k).2).1 (readWindow a sq (req k).1 (req k).2).2.1).1,
       (readWindowsM req fuel (k + 1) (readWindow a sq (req k).1 (req k).2).1 (readWindow a sq (req k).1 (req k).2).2.1).2)
    else ([], (readWindow a sq (req k).1 (req k).2).1, (readWindow a sq (req k).1 (req k).2).2.1, (readWindow a sq (req k).1 (req k).2).2.2) := rfl

/-- **the rest of a window series** (calls after the first): the windows are the declarative ones, and the series ends with `eslEOD`,
    `L` = the number of residues of the record, the cursor on what follows the record's data -/
theorem windows_rest (req : Nat → Int × Int) (hreq : ∀ k, 0 ≤ (req k).1 ∧ 1 ≤ (req k).2) (inmap map : Bytes) (D rest0 : List UInt8) :
    ∀ (fuel k : Nat) (a : Ascii) (sq : Sq) (D1 D2 : List UInt8), InWin a sq inmap map D D1 D2 rest0 → nresOf inmap D2 < fuel →
      (readWindowsM req fuel k a sq).1.map toWin = specWindows (resOf inmap map D) req fuel k (nresOf inmap D1) sq.seq.size ∧
      (readWindowsM req fuel k a sq).2.2.2 = .eod ∧ (readWindowsM req fuel k a sq).2.2.1.seq = #[] ∧
      (readWindowsM req fuel k a sq).2.2.1.L = ((resOf inmap map D).size : Int) ∧ (readWindowsM req fuel k a sq).2.2.1.start = 0 ∧
      hdrOf (readWindowsM req fuel k a sq).2.2.1 = hdrOf sq ∧
      Cur (readWindowsM req fuel k a sq).2.1 ∧ fileFrom (readWindowsM req fuel k a sq).2.1 = rest0 ∧
      stat (readWindowsM req fuel k a sq).2.1 = stat a := by
  intro fuel
  induction fuel with
  | zero => intro k a sq D1 D2 _ h; omega
  | succ fuel ih =>
    intro k a sq D1 D2 I hf
    obtain ⟨hC, hW⟩ := hreq k
    obtain ⟨s1, s2⟩ := readWindow_next_step a sq (req k).1 (req k).2 inmap map D D1 D2 rest0 I hC hW
    have hRs := resOf_total inmap map D D1 D2 I.split
    have hleft : (resOf inmap map D).size - nresOf inmap D1 = nresOf inmap D2 := by omega
    simp only [readWindowsM]
    rw [specWindows_succ]
    by_cases hz : min (req k).2.toNat (nresOf inmap D2) = 0
    · obtain ⟨k1, k2, k3, k4, k5, k6, k7, k8⟩ := s2 hz
      have hb : ((readWindow a sq (req k).1 (req k).2).2.2 == Status.ok) = false := by rw [k1]; decide
      have hd0 : nresOf inmap D2 = 0 := by omega
      have hle : (resOf inmap map D).size ≤ nresOf inmap D1 := by omega
      simp only [hb, Bool.false_eq_true, if_false, hle, if_true, List.map_nil]
      exact ⟨trivial, k1, k2, by rw [k3]; omega, k4, k5, k6, k7, k8⟩
    · obtain ⟨k1, k2, k3, k4, k5, D1', D2', I', e1, e2⟩ := s1 (by omega)
      have hb : ((readWindow a sq (req k).1 (req k).2).2.2 == Status.ok) = true := by rw [k1]; decide
      have hle : ¬ (resOf inmap map D).size ≤ nresOf inmap D1 := by omega
      simp only [hb, if_true, hle, if_false, List.map_cons]
      obtain ⟨j1, j2, j3, j4, j5, j6, j7, j8, j9⟩ := ih (k + 1) _ _ D1' D2' I' (by omega)
      rw [hleft]
      refine ⟨?_, j2, j3, j4, j5, j6.trans k3, j7, j8, j9.trans k5⟩
      rw [j1, k2, e1, k4]


/-- the fields of an `ESL_SQ` that identify the record (what `ReadWindow` reports besides the window itself) -/
def idOf (s : Sq) : Bytes × Bytes × Bytes × Int × Int × Int := (s.name, s.acc, s.desc, s.roff, s.hoff, s.doff)

theorem idOf_of_hdrOf {s t : Sq} (h : hdrOf s = hdrOf t) : idOf s = idOf t := by
  simp only [hdrOf, Prod.mk.injEq] at h
  obtain ⟨_, _, h3, h4, h5, _, _, h8, h9, h10⟩ := h
  simp only [idOf, h3, h4, h5, h8, h9, h10]

/-- **Forward windows = the declarative windows of the residues `sqascii_Read` returns — for every file, cursor position, block size
    `B ≥ 1` and every request stream `(C_k ≥ 0, W_k ≥ 1)`.** From a ready handle and an `ESL_SQ` as after `esl_sq_Reuse`, if the
    whole-record read succeeds with residues `R`, then the window loop on the same handle returns exactly `specWindows R req` (context
    `min C_k (previous window size)`, `min W_k (left)` new residues, 1-based contiguous coordinates, the residues `R[start..end]`), then
    `eslEOD` with `L = |R|`, the same name / accession / description / `roff` / `hoff` / `doff`, and leaves the cursor where `Read` leaves it. -/
theorem windows_eq_read (a : Ascii) (sq : Sq) (R : Ready a sq) (hs : sq.seq = #[]) (hst : sq.start = 0)
    (hok : (read a sq).2.2 = .ok) (req : Nat → Int × Int) (hreq : ∀ k, 0 ≤ (req k).1 ∧ 1 ≤ (req k).2)
    (F : Nat) (hF : (read a sq).2.1.seq.size + 2 ≤ F) :
    (readWindowsM req F 0 a sq).1.map toWin =
      specWindows (read a sq).2.1.seq req F 0 0 0 ∧
    (readWindowsM req F 0 a sq).2.2.2 = .eod ∧
    (readWindowsM req F 0 a sq).2.2.1.seq = #[] ∧
    (readWindowsM req F 0 a sq).2.2.1.L = (read a sq).2.1.L ∧
    (readWindowsM req F 0 a sq).2.2.1.start = 0 ∧
    hdrOf (readWindowsM req F 0 a sq).2.2.1 = hdrOf (read a sq).2.1 ∧
    Cur (readWindowsM req F 0 a sq).2.1 ∧
    fileFrom (readWindowsM req F 0 a sq).2.1 = fileFrom (read a sq).1 ∧
    stat (readWindowsM req F 0 a sq).2.1 = stat a := by
  obtain ⟨q1, q2, _, _⟩ := read_spec a sq R
  rw [q1] at hok
  obtain ⟨m1, _, m3, _⟩ := q2 hok
  have hl : Sim.Live a := by
    rcases R.cur.cur with hl | ⟨_, e3⟩
    · exact hl
    · exfalso
      have := fileFrom_eof a e3
      rw [this] at hok
      simp [recL] at hok
  have hnc : a.nc ≠ 0 := by unfold Sim.Live at hl; omega
  obtain ⟨x, t, _, hf, _⟩ := abs_of_live a R.cur hl
  have hne : (fileFrom a).isEmpty = false := by rw [hf]; rfl
  obtain ⟨h1, h2, _, _⟩ := headerFasta_spec a sq R.cur hl R.nalloc R.dalloc
  obtain ⟨u1, u2, u3, _, _⟩ := headerL_keeps a.file.size sq (fileFrom a)
  rw [m1, m3]
  rw [m1] at hF
  unfold recL at hok hF ⊢
  simp only [hne, Bool.false_eq_true, if_false] at hok hF ⊢
  have hH : (headerL a.file.size sq (fileFrom a)).1 = .ok := by
    by_cases hh : (headerL a.file.size sq (fileFrom a)).1 = .ok
    · exact hh
    · have hb : ((headerL a.file.size sq (fileFrom a)).1 == Status.ok) = false := by simpa using hh
      simp only [hb, Bool.false_eq_true, if_false] at hok
      exact absurd hok hh
  have hb : ((headerL a.file.size sq (fileFrom a)).1 == Status.ok) = true := by rw [hH]; rfl
  simp only [hb, if_true] at hok hF ⊢
  obtain ⟨c1, c2, c3⟩ := h2 hH
  generalize headerL a.file.size sq (fileFrom a) = HL at *
  obtain ⟨hstt, hsq, l0⟩ := HL
  simp only [] at h1 hH c1 c2 c3 u1 u2 u3 hok hF ⊢
  subst hH
  -- the data of the record
  have hsplit : l0 = l0.takeWhile (isData a.inmap) ++ l0.dropWhile (isData a.inmap) := (List.takeWhile_append_dropWhile).symm
  have hrest : ∀ c t', l0.dropWhile (isData a.inmap) = c :: t' → isEod a.inmap c = true := by
    intro c t' hc
    unfold bodyL at hok
    rw [hc] at hok
    simp only [] at hok
    by_cases he : isEod a.inmap c = true
    · exact he
    · simp [he] at hok
  have hseqR : (bodyL a.inmap (mapFor a.inmap sq) a.file.size hsq l0).2.1.seq = resOf a.inmap (mapFor a.inmap sq) (l0.takeWhile (isData a.inmap)) ∧
      (bodyL a.inmap (mapFor a.inmap sq) a.file.size hsq l0).2.1.L = ((resOf a.inmap (mapFor a.inmap sq) (l0.takeWhile (isData a.inmap))).size : Int) ∧
      (bodyL a.inmap (mapFor a.inmap sq) a.file.size hsq l0).2.2 = l0.dropWhile (isData a.inmap) ∧
      hdrOf (bodyL a.inmap (mapFor a.inmap sq) a.file.size hsq l0).2.1 = hdrOf hsq := by
    unfold bodyL
    cases hc : l0.dropWhile (isData a.inmap) with
    | nil => simp [Sq.setWhole, stored, u3, hs, Sq.n, hdrOf]
    | cons c t' =>
      have := hrest c t' hc
      simp [this, Sq.setWhole, stored, u3, hs, Sq.n, hdrOf]
  obtain ⟨g1, g2, g3, g4⟩ := hseqR
  rw [g1, g2, g3, g4]
  rw [g1] at hF
  generalize hD : l0.takeWhile (isData a.inmap) = D at *
  generalize hr0 : l0.dropWhile (isData a.inmap) = rest0 at *
  -- the first call
  have hph : parseHeader a sq = headerFasta a sq := parseHeader_fasta a sq R.fmt
  generalize hhf : headerFasta a sq = HF at *
  obtain ⟨a1, sq1, st1⟩ := HF
  simp only [] at h1 c1 c2 c3
  obtain ⟨rfl, rfl⟩ := Prod.mk.inj h1
  obtain ⟨hC0, hW0⟩ := hreq 0
  have hfirst := readWindow_first a sq (req 0).1 (req 0).2 (by omega) hst hnc
  rw [hph] at hfirst
  have b1 : (Status.ok != Status.ok) = false := by decide
  simp only [b1, Bool.false_eq_true, if_false] at hfirst
  have hi1 : a1.inmap = a.inmap := stat_inmap c3
  have I : InWin { a1 with L := 0 } { sq1 with start := 1, C := 0, L := -1, source := cstr sq1.name } a.inmap (mapFor a.inmap sq)
      D [] D rest0 := by
    refine ⟨HOk.of_stat ⟨R.cur.wf, R.cur.tok, R.hm, R.eofOk, R.fmt, R.eodGt⟩ (WF_L a1 0 c1.wf) c1.tok c3, hi1, ?_, R.mapOk, rfl, ?_, ?_,
      hrest, rfl, ?_, ?_, ?_⟩
    · show (if sq1.digital then abcInmap sq1.abc else a1.inmap) = _
      rw [u1, u2, hi1]; rfl
    · show fileFrom a1 = D ++ rest0
      rw [c2]; exact hsplit
    · intro c hc; rw [← hD] at hc; exact mem_takeWhile_imp _ _ c hc
    · show sq1.seq.size ≤ _
      rw [u3, hs]; simp
    · show sq1.seq = _
      rw [u3, hs]; simp [nresOf]
    · show (1 : Int) = _
      rw [u3, hs]; simp [nresOf]
  obtain ⟨s1, s2⟩ := winTail_step _ _ (req 0).1 (req 0).2 a.inmap (mapFor a.inmap sq) D [] D rest0 I hC0 hW0
    (by show sq1.seq.size ≤ _; rw [u3, hs]; simp) (by show (0 : Int) = (sq1.seq.size : Int); rw [u3, hs]; rfl)
  rw [← hfirst] at s1 s2
  have hsz0 : ({ sq1 with start := 1, C := 0, L := -1, source := cstr sq1.name } : Sq).seq.size = 0 := by
    show sq1.seq.size = 0; rw [u3, hs]; rfl
  rw [hsz0] at s1
  have hn0 : nresOf a.inmap ([] : List UInt8) = 0 := rfl
  rw [hn0] at s1 s2
  have hRs : (resOf a.inmap (mapFor a.inmap sq) D).size = nresOf a.inmap D := resOf_size _ _ _
  have hid1 : hdrOf ({ sq1 with start := 1, C := 0, L := -1, source := cstr sq1.name } : Sq) = hdrOf sq1 := rfl
  have hstat1 : stat ({ a1 with L := 0 } : Ascii) = stat a := c3
  obtain ⟨F', rfl⟩ : ∃ F', F = F' + 1 := ⟨F - 1, by omega⟩
  rw [readWindowsM_succ, specWindows_succ]
  by_cases hz : min (req 0).2.toNat (nresOf a.inmap D) = 0
  · obtain ⟨k1, k2, k3, k4, k5, k6, k7, k8⟩ := s2 hz
    have hb2 : ((readWindow a sq (req 0).1 (req 0).2).2.2 == Status.ok) = false := by rw [k1]; decide
    have hd0 : nresOf a.inmap D = 0 := by omega
    have hle : (resOf a.inmap (mapFor a.inmap sq) D).size ≤ 0 := by omega
    simp only [hb2, Bool.false_eq_true, if_false, hle, if_true, List.map_nil]
    exact ⟨trivial, k1, k2, by rw [k3]; omega, k4, k5.trans hid1, k6, k7, k8.trans hstat1⟩
  · obtain ⟨k1, k2, k3, k4, k5, D1', D2', I', e1, e2⟩ := s1 (by omega)
    have hb2 : ((readWindow a sq (req 0).1 (req 0).2).2.2 == Status.ok) = true := by rw [k1]; decide
    have hle : ¬ (resOf a.inmap (mapFor a.inmap sq) D).size ≤ 0 := by omega
    simp only [hb2, if_true, hle, if_false, List.map_cons]
    obtain ⟨j1, j2, j3, j4, j5, j6, j7, j8, j9⟩ := windows_rest req hreq a.inmap (mapFor a.inmap sq) D rest0
      F' 1 _ _ D1' D2' I' (by omega)
    refine ⟨?_, j2, j3, j4, j5, (j6.trans k3).trans hid1, j7, j8, (j9.trans k5).trans hstat1⟩
    rw [j1, k2, e1, k4]
    simp [hRs]


/-- **`windows_concat_eq_read`: the windows deliver the residues of `Read`** — the new (non-context) parts of the windows, concatenated
    in order, are exactly the residue array that the whole-record read returns; for every file, block size and request stream. -/
theorem windows_concat_eq_read (a : Ascii) (sq : Sq) (R : Ready a sq) (hs : sq.seq = #[]) (hst : sq.start = 0)
    (hok : (read a sq).2.2 = .ok) (req : Nat → Int × Int) (hreq : ∀ k, 0 ≤ (req k).1 ∧ 1 ≤ (req k).2) :
    ((readWindowsM req ((read a sq).2.1.seq.size + 2) 0 a sq).1.map toWin).foldl (fun acc x => acc ++ newPart x) #[] =
      (read a sq).2.1.seq := by
  rw [(windows_eq_read a sq R hs hst hok req hreq _ (Nat.le_refl _)).1,
    specWindows_concat (read a sq).2.1.seq req (fun k => (hreq k).2) _ 0 0 0 #[] (Nat.le_refl _) (by omega)]
  simp

/-- every window returned is `[start .. end]`, 1-based, inside `1..L`, holds exactly `C + W = end − start + 1` residues -/
theorem windows_coords (a : Ascii) (sq : Sq) (R : Ready a sq) (hs : sq.seq = #[]) (hst : sq.start = 0)
    (hok : (read a sq).2.2 = .ok) (req : Nat → Int × Int) (hreq : ∀ k, 0 ≤ (req k).1 ∧ 1 ≤ (req k).2) :
    ∀ x ∈ (readWindowsM req ((read a sq).2.1.seq.size + 2) 0 a sq).1.map toWin,
      x.end_ - x.start + 1 = x.C + x.W ∧ (x.seq.size : Int) = x.C + x.W ∧ 1 ≤ x.start ∧
      x.end_ ≤ ((read a sq).2.1.seq.size : Int) ∧ 0 ≤ x.C := by
  rw [(windows_eq_read a sq R hs hst hok req hreq _ (Nat.le_refl _)).1]
  exact specWindows_coords _ req _ 0 0 0 (Nat.le_refl _)


/-- **the window loop composes over records**: after the `eslEOD` that ends a record's series, handle and `ESL_SQ` are ready for the
    next record exactly as after `sqascii_Read` + `esl_sq_Reuse` (cursor on the same byte, `start = 0`, no residues, allocations at
    least as large), so `windows_eq_read` applies again — record after record through the file -/
theorem windows_then_ready (a : Ascii) (sq : Sq) (R : Ready a sq) (hs : sq.seq = #[]) (hst : sq.start = 0)
    (hok : (read a sq).2.2 = .ok) (req : Nat → Int × Int) (hreq : ∀ k, 0 ≤ (req k).1 ∧ 1 ≤ (req k).2)
    (F : Nat) (hF : (read a sq).2.1.seq.size + 2 ≤ F) :
    Ready (readWindowsM req F 0 a sq).2.1 (readWindowsM req F 0 a sq).2.2.1 ∧
    (readWindowsM req F 0 a sq).2.2.1.seq = #[] ∧
    (readWindowsM req F 0 a sq).2.2.1.start = 0 ∧
    fileFrom (readWindowsM req F 0 a sq).2.1 = fileFrom (read a sq).1 := by
  obtain ⟨_, _, w3, _, w5, w6, w7, w8, w9⟩ := windows_eq_read a sq R hs hst hok req hreq F hF
  obtain ⟨q1, _, _, _⟩ := read_spec a sq R
  rw [q1] at hok
  obtain ⟨k1, k2, k3, k4⟩ := ParseFasta.recL_keeps a.inmap a.file.size sq (fileFrom a) hok
  obtain ⟨_, q2, _, _⟩ := read_spec a sq R
  obtain ⟨m1, _, _, _⟩ := q2 hok
  rw [← m1] at k1 k2 k3 k4
  simp only [hdrOf, Prod.mk.injEq] at w6
  obtain ⟨e1, e2, _, _, _, e6, e7, _, _, _⟩ := w6
  refine ⟨R.next w7 w9 (e1.trans k1) (e2.trans k2) (by rw [e6]; exact k3) (by rw [e7]; exact k4), w3, w5, w8⟩

end EaselModel.Sqio.WindowSeries
