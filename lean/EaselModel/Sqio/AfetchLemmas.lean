import EaselModel.Sqio.AfetchSpec
import EaselModel.Props.C06
/-! # The indexing scan of `esl-afetch` on a database of well-formed records, the history of `esl_newssi_*` calls it makes,
    and the composition with the C06 theorems about the index that history writes. -/
namespace EaselModel.Afetch
open EaselModel.Msafile (Bytes isSpace isBlankLine memstrpfx memstrcmp memtok blankTab splitLinesT bHash bSto bSto1 bSto10 bSlash bGF bID bAC)
open EaselModel.Ssi hiding Bytes cstr

/-! ## the scan -/

theorem gfKeys_isSome (p : Bytes) (n a : Option Bytes) (h : (gfKeys p none none).isSome = true) : (gfKeys p n a).isSome = true := by
  unfold gfKeys at h ⊢
  split
  · simp_all
  · rename_i gf p1 h1
    simp only [h1] at h
    split
    · simp_all
    · rename_i tag p2 h2
      simp only [h2] at h
      by_cases c1 : memstrcmp gf bGF = true
      · simp only [c1, Bool.not_true, Bool.false_eq_true, if_false] at h ⊢
        by_cases c2 : memstrcmp tag bID = true
        · simp only [c2, if_true] at h ⊢
          split
          · simp_all
          · rename_i tok p3 h3
            simp only [h3] at h
            by_cases c3 : p3.isEmpty = true <;> simp_all
        · simp only [c2, Bool.false_eq_true, if_false] at h ⊢
          by_cases c4 : memstrcmp tag bAC = true
          · simp only [c4, if_true] at h ⊢
            split
            · simp_all
            · rename_i tok p3 h3
              simp only [h3] at h
              by_cases c3 : p3.isEmpty = true <;> simp_all
          · simp [c4]
      · simp_all

theorem scanStep_lead (pos start : Nat) (recs : List Rec) (l : TLine) (h : leadLine l.1 = true) :
    scanStep { pos := pos, start := start, mode := .lead, recs := recs, dead := false } l
      = { pos := pos + l.size, start := start, mode := .lead, recs := recs, dead := false } := by
  unfold leadLine at h
  simp [scanStep, h]

theorem scanLines_lead (ls : List TLine) (pos start : Nat) (recs : List Rec) (h : ∀ l ∈ ls, leadLine l.1 = true) :
    scanLines { pos := pos, start := start, mode := .lead, recs := recs, dead := false } ls
      = { pos := pos + linesSize ls, start := start, mode := .lead, recs := recs, dead := false } := by
  induction ls generalizing pos with
  | nil => simp [scanLines, linesSize]
  | cons l ls ih =>
    have := ih (pos + l.size) (fun l' hl' => h l' (by simp [hl']))
    simp only [scanLines, List.foldl_cons] at this ⊢
    rw [scanStep_lead pos start recs l (h l (by simp)), this]
    simp only [linesSize, List.map_cons, List.sum_cons]
    congr 1
    omega

theorem sto1_sto (b : Bytes) (h : memstrpfx b bSto1 = true) : memstrpfx b bSto = true := by
  simp only [memstrpfx, bSto1, bSto] at h ⊢
  have e : ([35,32,83,84,79,67,75,72,79,76,77,32,49,46] : Bytes) = [35,32,83,84,79,67,75,72,79,76,77] ++ [32,49,46] := rfl
  rw [e] at h
  rw [List.isPrefixOf_iff_prefix] at h ⊢
  exact List.IsPrefix.trans (List.prefix_append _ _) h

theorem sto1_not_blank (b : Bytes) (h : memstrpfx b bSto1 = true) : isBlankLine b = false := by
  cases b with
  | nil => simp [memstrpfx, bSto1, List.isPrefixOf] at h
  | cons c b =>
    simp only [memstrpfx, bSto1, List.isPrefixOf, Bool.and_eq_true, beq_iff_eq] at h
    simp only [isBlankLine, List.all_cons, ← h.1]
    rfl

theorem scanStep_hdr (pos start : Nat) (recs : List Rec) (l : TLine) (h : memstrpfx l.1 bSto1 = true) :
    scanStep { pos := pos, start := start, mode := .lead, recs := recs, dead := false } l
      = { pos := pos + l.size, start := start, mode := .body none none, recs := recs, dead := false } := by
  simp [scanStep, h, sto1_sto _ h, sto1_not_blank _ h]

theorem scanStep_body (pos start : Nat) (recs : List Rec) (k : Option Bytes × Option Bytes) (l : TLine) (h : bodyLineOk l.1 = true) :
    scanStep { pos := pos, start := start, mode := .body k.1 k.2, recs := recs, dead := false } l
      = { pos := pos + l.size, start := start, mode := .body (gfFold k l).1 (gfFold k l).2, recs := recs, dead := false } := by
  unfold bodyLineOk at h
  simp only [Bool.and_eq_true, Bool.not_eq_true'] at h
  obtain ⟨h1, h2⟩ := h
  by_cases hg : memstrpfx (skipBlank l.1) bGF = true
  · simp only [hg, if_true] at h2
    have h3 := gfKeys_isSome _ k.1 k.2 h2
    obtain ⟨v, hv⟩ := Option.isSome_iff_exists.mp h3
    simp [scanStep, h1, hg, gfFold, hv]
  · simp only [hg, Bool.false_eq_true, if_false, Bool.not_eq_true'] at h2
    simp [scanStep, h1, hg, gfFold, h2]

theorem scanLines_body (ls : List TLine) (pos start : Nat) (recs : List Rec) (k : Option Bytes × Option Bytes)
    (h : ∀ l ∈ ls, bodyLineOk l.1 = true) :
    scanLines { pos := pos, start := start, mode := .body k.1 k.2, recs := recs, dead := false } ls
      = { pos := pos + linesSize ls, start := start, mode := .body (ls.foldl gfFold k).1 (ls.foldl gfFold k).2, recs := recs, dead := false } := by
  induction ls generalizing pos k with
  | nil => simp [scanLines, linesSize]
  | cons l ls ih =>
    have := ih (pos + l.size) (gfFold k l) (fun l' hl' => h l' (by simp [hl']))
    simp only [scanLines, List.foldl_cons] at this ⊢
    rw [scanStep_body pos start recs k l (h l (by simp)), this]
    simp only [linesSize, List.map_cons, List.sum_cons]
    congr 1
    omega

theorem scanStep_term (pos start : Nat) (recs : List Rec) (nm : Bytes) (a : Option Bytes) (l : TLine)
    (h : memstrpfx (skipBlank l.1) bSlash = true) :
    scanStep { pos := pos, start := start, mode := .body (some nm) a, recs := recs, dead := false } l
      = { pos := pos + l.size, start := pos + l.size, mode := .lead, recs := recs ++ [⟨start, nm, a⟩], dead := false } := by
  simp [scanStep, h]

/-- one well-formed record: the scan records (offset at which the read began, name, accession) and stands behind the terminator -/
theorem scanLines_record (r : SRec) (h : r.WF) (p : Nat) (recs : List Rec) :
    scanLines { pos := p, start := p, mode := .lead, recs := recs, dead := false } r.lines
      = { pos := p + linesSize r.lines, start := p + linesSize r.lines, mode := .lead,
          recs := recs ++ [⟨p, r.name, r.acc⟩], dead := false } := by
  obtain ⟨nm, hnm⟩ := Option.isSome_iff_exists.mp h.named
  have hname : r.name = nm := by simp [SRec.name, hnm]
  unfold SRec.lines
  simp only [scanLines, List.foldl_append, List.foldl_cons, List.foldl_nil]
  have h1 := scanLines_lead r.lead p p recs h.lead
  simp only [scanLines] at h1
  rw [h1, scanStep_hdr _ _ _ _ h.hdr]
  have h2 := scanLines_body r.body (p + linesSize r.lead + r.hdr.size) p recs (none, none) h.body
  simp only [scanLines] at h2
  rw [h2]
  have e : (r.body.foldl gfFold (none, none)).1 = some nm := hnm
  rw [e, scanStep_term _ _ _ _ _ _ h.term, hname]
  have hs : linesSize (r.lead ++ r.hdr :: (r.body ++ [r.term])) = linesSize r.lead + r.hdr.size + linesSize r.body + r.term.size := by
    simp [linesSize]; omega
  rw [hs]
  simp only [SRec.acc, SRec.keys, Nat.add_assoc]

theorem scanLines_records (rs : List SRec) (h : ∀ r ∈ rs, r.WF) (p : Nat) (recs : List Rec) :
    scanLines { pos := p, start := p, mode := .lead, recs := recs, dead := false } (rs.flatMap SRec.lines)
      = { pos := p + linesSize (rs.flatMap SRec.lines), start := p + linesSize (rs.flatMap SRec.lines), mode := .lead,
          recs := recs ++ (entries p rs).map (·.1), dead := false } := by
  induction rs generalizing p recs with
  | nil => simp [scanLines, linesSize, entries]
  | cons r rs ih =>
    have h1 := scanLines_record r (h r (by simp)) p recs
    have h2 := ih (fun r' hr' => h r' (by simp [hr'])) (p + linesSize r.lines) (recs ++ [⟨p, r.name, r.acc⟩])
    simp only [scanLines, List.flatMap_cons, List.foldl_append] at h1 h2 ⊢
    rw [h1, h2]
    simp only [linesSize_append, entries, List.map_cons, List.append_assoc, List.singleton_append]
    congr 1 <;> omega

/-- THE SCAN: on a database of well-formed records (followed by any number of skipped lines) the indexing loop sees exactly the
    records of the specification, with the offsets at which each `esl_msafile_Read` began -/
theorem scanDb_records (rs : List SRec) (trail : List TLine) (h : ∀ r ∈ rs, r.WF)
    (ht : ∀ l ∈ trail, leadLine l.1 = true ∧ LineWF l) :
    scanDb (dbBytes rs trail) = some ((entries 0 rs).map (·.1)) := by
  have hw : ∀ l ∈ dbLines rs trail, LineWF l := by
    intro l hl
    simp only [dbLines, List.mem_append, List.mem_flatMap] at hl
    rcases hl with ⟨r, hr, hl⟩ | hl
    · exact (h r hr).lines l hl
    · exact (ht l hl).2
  have hs := splitLinesT_wf (dbLines rs trail) hw []
  simp only [List.append_nil] at hs
  have hs' : splitLinesT [] [] = ([] : List (Bytes × Bytes)) := by simp [splitLinesT]
  rw [hs', List.append_nil] at hs
  unfold scanDb dbBytes
  rw [hs]
  unfold dbLines
  have h1 := scanLines_records rs h 0 []
  have e0 : ({} : Scan) = { pos := 0, start := 0, mode := .lead, recs := [], dead := false } := rfl
  simp only [scanLines, List.foldl_append] at h1 ⊢
  rw [e0, h1]
  have h2 := scanLines_lead trail (0 + linesSize (rs.flatMap SRec.lines)) (0 + linesSize (rs.flatMap SRec.lines))
    ([] ++ (entries 0 rs).map (·.1)) (fun l hl => (ht l hl).1)
  simp only [scanLines] at h2
  rw [h2]
  simp [scanEnd]

/-! ## where the records lie in the file -/

theorem entries_off_ge (rs : List SRec) (p : Nat) : ∀ e ∈ entries p rs, p ≤ e.1.off ∧ e.1.off ≤ p + linesSize (rs.flatMap SRec.lines) := by
  induction rs generalizing p with
  | nil => intro e he; simp [entries] at he
  | cons r rs ih =>
    intro e he
    simp only [entries, List.mem_cons] at he
    simp only [List.flatMap_cons, linesSize_append]
    rcases he with rfl | he
    · simp
    · have := ih (p + linesSize r.lines) e he
      omega

/-- positioned at a record's stored offset, the fetch path returns that record's text: every line once, LF-terminated -/
theorem regurg_at_entry (rs : List SRec) (h : ∀ r ∈ rs, r.WF) (tailLines : List TLine) (ht : ∀ l ∈ tailLines, LineWF l)
    (pre : Bytes) : ∀ e ∈ entries pre.length rs,
      regurg (splitLinesT ((pre ++ linesBytes (rs.flatMap SRec.lines ++ tailLines)).drop e.1.off) []) [] = some e.2 := by
  induction rs generalizing pre with
  | nil => intro e he; simp [entries] at he
  | cons r rs ih =>
    intro e he
    simp only [entries, List.mem_cons] at he
    have hr := h r (by simp)
    rcases he with rfl | he
    · simp only
      rw [List.drop_left' rfl]
      have hw : ∀ l ∈ r.lines, LineWF l := hr.lines
      have e1 : linesBytes ((r :: rs).flatMap SRec.lines ++ tailLines) = linesBytes r.lines ++ linesBytes (rs.flatMap SRec.lines ++ tailLines) := by
        simp [linesBytes]
      rw [e1, splitLinesT_wf _ hw]
      exact regurg_record r hr _
    · have e1 : pre ++ linesBytes ((r :: rs).flatMap SRec.lines ++ tailLines)
          = (pre ++ linesBytes r.lines) ++ linesBytes (rs.flatMap SRec.lines ++ tailLines) := by
        simp [linesBytes]
      rw [e1]
      have hl : (pre ++ linesBytes r.lines).length = pre.length + linesSize r.lines := by
        rw [List.length_append, linesBytes_length]
      have := ih (fun r' hr' => h r' (by simp [hr'])) (pre ++ linesBytes r.lines)
      rw [hl] at this
      exact this e he

/-! ## the history of `esl_newssi_*` calls -/

def toPKey (r : Rec) : PKey := ⟨r.name, 0, r.off, 0, 0⟩
def toSKey (r : Rec) : Option SKey := r.acc.map (fun a => ⟨a, r.name⟩)

theorem logical_recOps (recs : List Rec) (l : NewSsi) (hp : l.nprimary = l.pkeys.length) (hs : l.nsecondary = l.skeys.length)
    (hn : l.pkeys.length + recs.length < 2^62) (hm : l.skeys.length + recs.length < 2^62) :
    let l' := (recs.flatMap recOps).foldl stepL l
    l'.pkeys = l.pkeys ++ recs.map toPKey ∧ l'.skeys = l.skeys ++ recs.filterMap toSKey ∧ l'.files = l.files := by
  induction recs generalizing l with
  | nil => simp
  | cons r recs ih =>
    simp only [List.flatMap_cons, List.foldl_append]
    have hk : ¬ (l.nprimary ≥ MAXKEYS) := by simp only [MAXKEYS, hp]; simp at hn; omega
    have hk0 : ¬ ((0 : Nat) ≥ MAXFILES) := by decide
    cases hacc : r.acc with
    | none =>
      simp only [recOps, hacc, List.foldl_cons, List.foldl_nil, stepL, hk, hk0, if_false]
      have := ih { l with plen := if r.name.length + 1 > l.plen then r.name.length + 1 else l.plen,
                          pkeys := l.pkeys ++ [{ key := r.name, fnum := 0, roff := r.off, doff := 0, len := 0 }],
                          nprimary := l.nprimary + 1 }
        (by simp [hp]) (by simpa using hs) (by simp at hn ⊢; omega) (by simp at hm ⊢; omega)
      simp only at this
      obtain ⟨h1, h2, h3⟩ := this
      refine ⟨?_, ?_, h3⟩
      · rw [h1]; simp [toPKey]
      · rw [h2]; simp [toSKey, hacc]
    | some a =>
      have hk2 : ¬ (l.nsecondary ≥ MAXKEYS) := by simp only [MAXKEYS, hs]; simp at hm; omega
      simp only [recOps, hacc, List.foldl_cons, List.foldl_nil, stepL, hk, hk0, hk2, if_false]
      have := ih { l with plen := if r.name.length + 1 > l.plen then r.name.length + 1 else l.plen,
                          pkeys := l.pkeys ++ [{ key := r.name, fnum := 0, roff := r.off, doff := 0, len := 0 }],
                          nprimary := l.nprimary + 1,
                          slen := if a.length + 1 > l.slen then a.length + 1 else l.slen,
                          skeys := l.skeys ++ [{ key := a, pkey := r.name }], nsecondary := l.nsecondary + 1 }
        (by simp [hp]) (by simp [hs]) (by simp at hn ⊢; omega) (by simp at hm ⊢; omega)
      simp only at this
      obtain ⟨h1, h2, h3⟩ := this
      refine ⟨?_, ?_, h3⟩
      · rw [h1]; simp [toPKey]
      · rw [h2]; simp [toSKey, hacc]

/-- the logical content of the index the tool builds: one primary key per alignment (offset of its read, no data offset, length 0),
    one alias per accession, one file -/
theorem logical_indexOps (fname : Bytes) (fmt : Nat) (recs : List Rec) (hn : recs.length < 2^61) :
    (logical (indexOps fname fmt recs)).pkeys = recs.map toPKey ∧
    (logical (indexOps fname fmt recs)).skeys = recs.filterMap toSKey ∧
    (logical (indexOps fname fmt recs)).files ≠ [] := by
  unfold logical indexOps
  simp only [List.foldl_cons]
  generalize hl0 : stepL {} (.addFile fname fmt) = l0
  have hl0' : l0.pkeys = [] ∧ l0.skeys = [] ∧ l0.nprimary = 0 ∧ l0.nsecondary = 0 ∧ l0.files ≠ [] := by
    subst hl0
    have h0 : ¬ (({} : NewSsi).nfiles ≥ MAXFILES) := by decide
    simp [stepL, h0]
  obtain ⟨g1, g2, g3, g4, g5⟩ := hl0'
  have := logical_recOps recs l0 (by rw [g1, g3]; rfl) (by rw [g2, g4]; rfl) (by rw [g1]; simp; omega) (by rw [g2]; simp; omega)
  simp only at this
  obtain ⟨h1, h2, h3⟩ := this
  refine ⟨?_, ?_, ?_⟩
  · rw [h1, g1]; rfl
  · rw [h2, g2]; rfl
  · rw [h3]; exact g5

/-- keys that may be stored: non-empty, bytes above newline, shorter than 64 KB -/
def KeyOk (k : Bytes) : Prop := k ≠ [] ∧ KeyChars k ∧ k.length < 65535

theorem indexOps_valid (fname : Bytes) (fmt : Nat) (recs : List Rec) (hf : (0 : UInt8) ∉ fname ∧ fname.length < 65535 ∧ fmt < 2^32)
    (hr : ∀ r ∈ recs, KeyOk r.name ∧ (∀ a, r.acc = some a → KeyOk a) ∧ r.off < 2^64) :
    ∀ op ∈ indexOps fname fmt recs, op.Valid := by
  intro op hop
  simp only [indexOps, List.mem_cons, List.mem_flatMap] at hop
  rcases hop with rfl | ⟨r, hr', hop⟩
  · exact hf
  · obtain ⟨⟨h1, h2, h3⟩, h4, h5⟩ := hr r hr'
    cases hacc : r.acc with
    | none =>
      simp only [recOps, hacc, List.mem_cons, List.not_mem_nil, or_false] at hop
      subst hop
      exact ⟨h1, h2, h3, h5, by decide, by decide⟩
    | some a =>
      simp only [recOps, hacc, List.mem_cons, List.not_mem_nil, or_false] at hop
      obtain ⟨g1, g2, g3⟩ := h4 a hacc
      rcases hop with rfl | rfl
      · exact ⟨h1, h2, h3, h5, by decide, by decide⟩
      · exact ⟨g1, g2, g3, h1, h2⟩

theorem indexOps_length (fname : Bytes) (fmt : Nat) (recs : List Rec) : (indexOps fname fmt recs).length ≤ 1 + 2 * recs.length := by
  unfold indexOps
  simp only [List.length_cons]
  have : (recs.flatMap recOps).length ≤ 2 * recs.length := by
    induction recs with
    | nil => simp
    | cons r recs ih =>
      simp only [List.flatMap_cons, List.length_append, List.length_cons]
      have : (recOps r).length ≤ 2 := by unfold recOps; cases r.acc <;> simp
      omega
  omega

end EaselModel.Afetch
