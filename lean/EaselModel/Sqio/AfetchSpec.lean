import EaselModel.Sqio.AfetchModel
import EaselModel.Msafile.RoundTrip
/-! # Stockholm databases as text (the specification side of C07 theorem 5) and what the indexing scan, the line splitter and
    `regurgitate_one_stockholm_entry` do on them. -/
namespace EaselModel.Afetch
open EaselModel.Msafile (Bytes isSpace isBlankLine memstrpfx memstrcmp memtok blankTab splitLinesT bHash bSto bSto1 bSto10 bSlash bGF bID bAC
  lineOfAcc splitLinesT_line lineOfAcc_noCR inDelim)

/-- one alignment of the database as text: the lines the reader skips in front of the header, the header, the body, the terminator -/
structure SRec where
  lead : List TLine
  hdr : TLine
  body : List TLine
  term : TLine
  deriving Repr, DecidableEq, Inhabited

def SRec.lines (r : SRec) : List TLine := r.lead ++ r.hdr :: (r.body ++ [r.term])

/-- the bytes of a list of lines -/
def linesBytes (ls : List TLine) : Bytes := ls.flatMap (fun l => l.1 ++ l.2)

def linesSize (ls : List TLine) : Nat := (ls.map TLine.size).sum

/-- what `regurgitate_one_stockholm_entry` writes for these lines: every line followed by one LF -/
def linesText (ls : List TLine) : Bytes := ls.flatMap (fun l => l.1 ++ [10])

/-- a line the reader skips while it looks for the header -/
def leadLine (b : Bytes) : Bool := isBlankLine b || (memstrpfx b bHash && !memstrpfx b bSto)

/-- a body line on which the reader continues (as far as the index is concerned): not a terminator, a `#=GF` line parses,
    not a second `# STOCKHOLM 1.0` -/
def bodyLineOk (b : Bytes) : Bool :=
  let p := skipBlank b
  !memstrpfx p bSlash && (if memstrpfx p bGF then (gfKeys p none none).isSome else !memstrcmp p bSto10)

/-- `msa->name`, `msa->acc` after one more body line -/
def gfFold (k : Option Bytes × Option Bytes) (l : TLine) : Option Bytes × Option Bytes :=
  let p := skipBlank l.1
  if memstrpfx p bGF then (gfKeys p k.1 k.2).getD k else k

/-- name and accession of the alignment, as the reader sets them (last `#=GF ID` / `#=GF AC` line wins) -/
def SRec.keys (r : SRec) : Option Bytes × Option Bytes := r.body.foldl gfFold (none, none)

def SRec.name (r : SRec) : Bytes := r.keys.1.getD []
def SRec.acc (r : SRec) : Option Bytes := r.keys.2

/-- a line as it stands in a file: no LF inside, terminated by LF (then no CR at its end) or by CR LF -/
def LineWF (l : TLine) : Prop := (10 : UInt8) ∉ l.1 ∧ ((l.2 = [10] ∧ l.1.getLast? ≠ some 13) ∨ l.2 = [13, 10])

/-- a well-formed record.  `noStop` is the only clause about the fetch path: no body line may look like a terminator to
    `regurgitate_one_stockholm_entry` (which skips `isspace()` bytes, the parser only blank and TAB). -/
structure SRec.WF (r : SRec) : Prop where
  lines : ∀ l ∈ r.lines, LineWF l
  lead : ∀ l ∈ r.lead, leadLine l.1 = true
  hdr : memstrpfx r.hdr.1 bSto1 = true
  body : ∀ l ∈ r.body, bodyLineOk l.1 = true
  term : memstrpfx (skipBlank r.term.1) bSlash = true
  named : r.keys.1.isSome = true
  noStop : ∀ l ∈ r.body, regurgStop l.1 = false

/-- the records with their offsets and their text, as a sequential pass over the database meets them -/
def entries : Nat → List SRec → List (Rec × Bytes)
  | _, [] => []
  | p, r :: rs => (⟨p, r.name, r.acc⟩, linesText r.lines) :: entries (p + linesSize r.lines) rs

def dbLines (rs : List SRec) (trail : List TLine) : List TLine := rs.flatMap SRec.lines ++ trail

/-- the database file -/
def dbBytes (rs : List SRec) (trail : List TLine) : Bytes := linesBytes (dbLines rs trail)

/-- SPEC: what a sequential scan finds under `key`: the text of the first alignment whose name or accession is `key` -/
def seqFetch (rs : List SRec) (key : Bytes) : Option Bytes :=
  ((entries 0 rs).find? (fun e => e.1.name == key || e.1.acc == some key)).map (·.2)

/-! ## sizes -/

theorem linesBytes_length (ls : List TLine) : (linesBytes ls).length = linesSize ls := by
  induction ls with
  | nil => rfl
  | cons l ls ih =>
    simp only [linesBytes, List.flatMap_cons, List.length_append, linesSize, List.map_cons, List.sum_cons, TLine.size] at ih ⊢
    omega

theorem linesBytes_append (a b : List TLine) : linesBytes (a ++ b) = linesBytes a ++ linesBytes b := by
  simp [linesBytes]

theorem linesSize_append (a b : List TLine) : linesSize (a ++ b) = linesSize a + linesSize b := by
  simp [linesSize]

theorem linesText_append (a b : List TLine) : linesText (a ++ b) = linesText a ++ linesText b := by
  simp [linesText]

/-! ## the line splitter on a file made of well-formed lines -/

theorem splitLinesT_wf_line (l : TLine) (h : LineWF l) (rest : Bytes) :
    splitLinesT (l.1 ++ l.2 ++ rest) [] = l :: splitLinesT rest [] := by
  obtain ⟨b, t⟩ := l
  obtain ⟨h10, h | h⟩ := h
  · obtain ⟨ht, hcr⟩ := h
    simp only at ht hcr h10 ⊢
    subst ht
    have := splitLinesT_line b rest [] h10
    simp only [List.append_nil] at this
    rw [List.append_assoc]
    simp only [List.singleton_append]
    rw [this, lineOfAcc_noCR b hcr]
  · simp only at h h10 ⊢
    subst h
    have h10' : (10 : UInt8) ∉ b ++ [13] := by simp [h10]
    have := splitLinesT_line (b ++ [13]) rest [] h10'
    have e : b ++ [13, 10] ++ rest = (b ++ [13]) ++ 10 :: rest := by simp
    rw [e, this]
    simp [lineOfAcc]

theorem splitLinesT_wf (ls : List TLine) (h : ∀ l ∈ ls, LineWF l) (rest : Bytes) :
    splitLinesT (linesBytes ls ++ rest) [] = ls ++ splitLinesT rest [] := by
  induction ls with
  | nil => simp [linesBytes]
  | cons l ls ih =>
    have e : linesBytes (l :: ls) ++ rest = l.1 ++ l.2 ++ (linesBytes ls ++ rest) := by simp [linesBytes]
    rw [e, splitLinesT_wf_line l (h l (by simp)), ih (fun l' hl' => h l' (by simp [hl']))]
    rfl

/-! ## `regurgitate_one_stockholm_entry` -/

theorem regurg_lines (ls : List TLine) (t : TLine) (rest : List TLine) (out : Bytes)
    (h : ∀ l ∈ ls, regurgStop l.1 = false) (ht : regurgStop t.1 = true) :
    regurg (ls ++ t :: rest) out = some (out ++ linesText (ls ++ [t])) := by
  induction ls generalizing out with
  | nil => simp [regurg, ht, linesText]
  | cons l ls ih =>
    have hl := h l (by simp)
    simp only [List.cons_append, regurg, hl, Bool.false_eq_true, if_false]
    rw [ih _ (fun l' hl' => h l' (by simp [hl']))]
    simp [linesText]

/-- what the proofs need to know about the skip loop of the working tree (fails to compile for a tree that skips nothing: that is
    the defect repaired by 986143b) -/
theorem regurgSkip_facts : regurgSkip 32 = true ∧ regurgSkip 9 = true ∧ regurgSkip 47 = false ∧ regurgSkip 35 = false ∧ regurgSkip 0 = false := by
  decide

/-- bytes that the parser skips are skipped by the fetch too -/
theorem dropWhile_skip_skipBlank (b : Bytes) : (skipBlank b).dropWhile regurgSkip = b.dropWhile regurgSkip := by
  induction b with
  | nil => rfl
  | cons c b ih =>
    unfold skipBlank at ih ⊢
    by_cases hc : (c == 32 || c == 9) = true
    · have hs : regurgSkip c = true := by
        simp only [Bool.or_eq_true, beq_iff_eq] at hc
        rcases hc with rfl | rfl
        · exact regurgSkip_facts.1
        · exact regurgSkip_facts.2.1
      simp only [List.dropWhile_cons, hc, if_true, hs, ih]
    · simp only [List.dropWhile_cons, hc, Bool.false_eq_true, if_false]

theorem dropWhile_skip_of_pfx (p s : Bytes) (hs : s ≠ []) (h : memstrpfx p s = true) (h0 : ∀ c, s.head? = some c → regurgSkip c = false) :
    p.dropWhile regurgSkip = p := by
  cases p with
  | nil => rfl
  | cons c p =>
    cases s with
    | nil => exact absurd rfl hs
    | cons d s =>
      simp only [memstrpfx, List.isPrefixOf, Bool.and_eq_true, beq_iff_eq] at h
      have : regurgSkip c = false := by rw [← h.1]; exact h0 d rfl
      simp [List.dropWhile_cons, this]

/-- the parser's terminator is a terminator for the fetch -/
theorem regurgStop_of_term (b : Bytes) (h : memstrpfx (skipBlank b) bSlash = true) : regurgStop b = true := by
  unfold regurgStop
  rw [← dropWhile_skip_skipBlank, dropWhile_skip_of_pfx _ bSlash (by decide) h
    (by intro c hc; simp [bSlash] at hc; subst hc; exact regurgSkip_facts.2.2.1)]
  exact h

theorem not_stop_of_hash (b : Bytes) (h : memstrpfx b bHash = true) : regurgStop b = false := by
  unfold regurgStop
  rw [dropWhile_skip_of_pfx _ bHash (by decide) h (by intro c hc; simp [bHash] at hc; subst hc; exact regurgSkip_facts.2.2.2.1)]
  cases b with
  | nil => rfl
  | cons c b =>
    simp only [memstrpfx, bHash, List.isPrefixOf, Bool.and_eq_true, beq_iff_eq] at h
    simp only [memstrpfx, bSlash, List.isPrefixOf]
    rw [← h.1]; rfl

theorem not_stop_of_blank (b : Bytes) (h : isBlankLine b = true) : regurgStop b = false := by
  unfold regurgStop
  induction b with
  | nil => rfl
  | cons c b ih =>
    simp only [isBlankLine, List.all_cons, Bool.and_eq_true] at h
    have hb : (b.all (inDelim blankTab)) = true := h.2
    have hc := h.1
    simp only [inDelim, blankTab, Bool.or_eq_true, beq_iff_eq, List.contains_cons, List.contains_nil, Bool.or_false] at hc
    rcases hc with rfl | rfl | rfl
    · simp [List.dropWhile_cons, regurgSkip_facts.2.2.2.2, memstrpfx, bSlash, List.isPrefixOf]
    · simp only [List.dropWhile_cons, regurgSkip_facts.1, if_true]
      exact ih hb
    · simp only [List.dropWhile_cons, regurgSkip_facts.2.1, if_true]
      exact ih hb

/-- when the working tree skips exactly what the parser skips (`skipKind = 1`, the proposed repair), no body line the parser accepts
    can stop the fetch: the `noStop` clause of `SRec.WF` then follows from `body` -/
theorem noStop_of_parser_skip (hk : Generated.AfetchSrc.skipKind = 1) (b : Bytes) (h : bodyLineOk b = true) : regurgStop b = false := by
  have e : b.dropWhile regurgSkip = skipBlank b := by
    have hf : regurgSkip = (fun c => c == 32 || c == 9) := by funext c; simp [regurgSkip, hk]
    exact congrArg (fun f => b.dropWhile f) hf
  unfold regurgStop
  rw [e]
  unfold bodyLineOk at h
  simp only [Bool.and_eq_true, Bool.not_eq_true'] at h
  exact h.1

theorem sto1_hash (b : Bytes) (h : memstrpfx b bSto1 = true) : memstrpfx b bHash = true := by
  cases b with
  | nil => simp [memstrpfx, bSto1, List.isPrefixOf] at h
  | cons c b =>
    simp only [memstrpfx, bSto1, List.isPrefixOf, Bool.and_eq_true, beq_iff_eq] at h
    simp [memstrpfx, bHash, List.isPrefixOf, h.1]

theorem not_stop_of_lead (b : Bytes) (h : leadLine b = true) : regurgStop b = false := by
  unfold leadLine at h
  simp only [Bool.or_eq_true, Bool.and_eq_true] at h
  rcases h with h | h
  · exact not_stop_of_blank b h
  · exact not_stop_of_hash b h.1

/-- the fetch copies exactly the record's lines -/
theorem regurg_record (r : SRec) (h : r.WF) (rest : List TLine) :
    regurg (r.lines ++ rest) [] = some (linesText r.lines) := by
  have e : r.lines ++ rest = (r.lead ++ r.hdr :: r.body) ++ r.term :: rest := by simp [SRec.lines]
  have e2 : r.lines = (r.lead ++ r.hdr :: r.body) ++ [r.term] := by simp [SRec.lines]
  rw [e, regurg_lines _ _ _ _ ?_ (regurgStop_of_term _ h.term), ← e2]
  · simp
  · intro l hl
    simp only [List.mem_append, List.mem_cons] at hl
    rcases hl with hl | rfl | hl
    · exact not_stop_of_lead _ (h.lead l hl)
    · exact not_stop_of_hash _ (sto1_hash _ h.hdr)
    · exact h.noStop l hl

end EaselModel.Afetch
