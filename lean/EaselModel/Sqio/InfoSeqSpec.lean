import EaselModel.Sqio.ParseFasta
/-! # `sqascii_ReadInfo` and `sqascii_ReadSequence` in closed form, and their agreement with `sqascii_Read` (C04)

`infoL` / `seqL`: the closed forms (functions of the remaining file bytes). `readInfo_spec` / `readSequence_spec`: the model's calls
return them for every block size. `info_seq_agree_L`: on every input where `Read` succeeds, `ReadInfo` and `ReadSequence` succeed too,
leave the cursor on the same byte, and agree field by field (name, description, offsets, `L`; residues, `roff`, `doff`, `eoff`, `L`). -/
namespace EaselModel.Sqio.InfoSeqSpec
open EaselModel.Sqio.Refine EaselModel.Sqio.Fold EaselModel.Sqio.DataScan EaselModel.Sqio.Cursor EaselModel.Sqio.BodySpec
open EaselModel.Sqio.HeaderSpec EaselModel.Sqio.ReadSpec EaselModel.Sqio.ParseFasta

/-- what `sqascii_ReadInfo` leaves in the `ESL_SQ`: no residues, `L` = their number -/
def infoOf (s : Sq) (e L : Int) : Sq := { s with eoff := e, L := L, seq := #[], start := 0, end_ := 0, C := 0, W := 0 }

/-- the data part of `ReadInfo` -/
def infoBodyL (inmap : Bytes) (N : Nat) (sq : Sq) (l : List UInt8) : Status × Sq × List UInt8 :=
  match l.dropWhile (isData inmap) with
  | [] => (.ok, infoOf sq (offOf N [] - 1) (nresOf inmap (l.takeWhile (isData inmap))), [])
  | c :: t =>
    if isEod inmap c then (.ok, infoOf sq (offOf N (c :: t) - 1) (nresOf inmap (l.takeWhile (isData inmap))), c :: t)
    else (.eformat, sq, c :: t)

/-- `sqascii_ReadInfo` on the remaining bytes `l` -/
def infoL (inmap : Bytes) (N : Nat) (sq : Sq) (l : List UInt8) : Status × Sq × List UInt8 :=
  if l.isEmpty then (.eof, sq, []) else
  if (headerL N sq l).1 == .ok then infoBodyL inmap N (headerL N sq l).2.1 (headerL N sq l).2.2
  else headerL N sq l

/-- `sqascii_ReadSequence` on the remaining bytes `l` -/
def seqL (inmap : Bytes) (N : Nat) (sq : Sq) (l : List UInt8) : Status × Sq × List UInt8 :=
  if l.isEmpty then (.eof, sq, []) else
  if (skipL N sq l).1 == .ok then bodyL inmap (mapFor inmap sq) N (skipL N sq l).2.1 (skipL N sq l).2.2
  else skipL N sq l

theorem Cur.setL {a : Ascii} (h : Cur a) (x : Int) : Cur { a with L := x } := ⟨WF_L a x h.wf, h.cur, h.tok⟩

theorem infoBody_spec (a : Ascii) (sq : Sq) (h : Cur a) (hfmt : a.fmt = 1) (heof : a.eofIsOk = true) (hm : a.inmap.size = 128)
    (hgt : EodGt a.inmap) (hL : a.L = 0) (hsa : 2 ≤ sq.salloc) :
    (infoEnd (scanLoop false (fuelOf a) a sq)).2.2 = (infoBodyL a.inmap a.file.size sq (fileFrom a)).1 ∧
    ((infoBodyL a.inmap a.file.size sq (fileFrom a)).1 = .ok →
      (infoEnd (scanLoop false (fuelOf a) a sq)).2.1 = (infoBodyL a.inmap a.file.size sq (fileFrom a)).2.1 ∧
      Cur (infoEnd (scanLoop false (fuelOf a) a sq)).1 ∧
      fileFrom (infoEnd (scanLoop false (fuelOf a) a sq)).1 = (infoBodyL a.inmap a.file.size sq (fileFrom a)).2.2 ∧
      stat (infoEnd (scanLoop false (fuelOf a) a sq)).1 = stat a) ∧
    ((infoBodyL a.inmap a.file.size sq (fileFrom a)).1 = .eformat → (infoEnd (scanLoop false (fuelOf a) a sq)).1.haveErr = true) := by
  have hfuel : (fileFrom a).length + 1 < fuelOf a := by have := h.len; unfold fuelOf; omega
  obtain ⟨k1, k2, k3⟩ := scanLoop_spec false (fuelOf a) a sq h hm (fun k => by cases k) hfuel _ _ rfl rfl
  have hlen := takeWhile_length_le (isData a.inmap) (fileFrom a)
  have halloc : (!(if sq.digital then decide (1 < sq.salloc) else decide (0 < sq.salloc))) = false := by
    cases sq.digital <;> simp <;> omega
  unfold infoEnd infoBodyL
  generalize scanLoop false (fuelOf a) a sq = R at k1 k2 k3 ⊢
  obtain ⟨A, S, T, E⟩ := R
  simp only [] at k1 k2 k3 ⊢
  cases hr : (fileFrom a).dropWhile (isData a.inmap) with
  | nil =>
    obtain ⟨j1, j2, j3, j4, j5, j6⟩ := k1 hr
    subst j1
    have hA : A.eofIsOk = true := (stat_eofIsOk j5).trans heof
    have b1 : (Status.eof == Status.fault || Status.eof == Status.eformat) = false := by decide
    have b2 : (Status.ok != Status.ok) = false := by decide
    have hoff : pos a + (((fileFrom a).takeWhile (isData a.inmap)).length : Int) - 1 = offOf a.file.size [] - 1 := by
      rw [offOf_drop a h _ [] (by rw [hr] at hlen; exact hlen)]
    simp only [b1, Bool.false_eq_true, if_false, beq_self_eq_true, if_true, hA, Bool.not_true, infoTail, b2]
    rw [j2, hoff]
    simp only [stored, Bool.false_eq_true, if_false, halloc]
    refine ⟨trivial, fun _ => ⟨?_, j3, j4, j5⟩, fun k => (by cases k)⟩
    rw [j6, hL]; simp only [infoOf, Int.zero_add]
  | cons c t =>
    by_cases hce : isEod a.inmap c = true
    · obtain ⟨j1, j2, j3, j4, j5, j6, j7, j8⟩ := k2 c t hr hce
      subst j1
      have hAf : A.fmt = 1 := (stat_fmt j5).trans hfmt
      have hAfile : A.file = a.file := stat_file j5
      have hcur : Cur { A with bpos := E } := Cur.at E j3 j8 j4
      have hff : fileFrom { A with bpos := E } = c :: t := by
        rw [fileFrom_drop a { A with bpos := E } ((fileFrom a).takeWhile (isData a.inmap)).length hAfile j7 h.posNonneg,
          drop_takeWhile_length, hr]
      obtain ⟨x, hx, hfx⟩ := fileFrom_live _ hcur.wf (show Sim.Live { A with bpos := E } from j8)
      rw [hff] at hfx
      have hxc : x = c := ((List.cons.inj hfx).1).symm
      have hcgt : c = chGt := hgt c hce
      have hend : parseEnd { A with bpos := E } S = ({ A with bpos := E }, { S with eoff := A.boff + (E : Int) - 1 }, .ok) := by
        rw [parseEnd_fasta _ S (show ({ A with bpos := E } : Ascii).fmt = 1 from hAf)]; unfold endFasta
        have hlt : ({ A with bpos := E } : Ascii).bpos < ({ A with bpos := E } : Ascii).nc := j8
        simp only [hlt, if_true, hx, hxc, hcgt]
        simp
      have b1 : (Status.eod == Status.fault || Status.eod == Status.eformat) = false := by decide
      have b2 : (Status.ok != Status.ok) = false := by decide
      have b3 : (Status.eod == Status.eof) = false := by decide
      have hoff : pos a + (((fileFrom a).takeWhile (isData a.inmap)).length : Int) - 1 = offOf a.file.size (c :: t) - 1 := by
        rw [offOf_drop a h _ (c :: t) (by rw [hr] at hlen; exact hlen)]
      simp only [b1, b3, Bool.false_eq_true, if_false, beq_self_eq_true, if_true, hend, infoTail, b2, hce]
      rw [j7, j2, hoff]
      simp only [stored, Bool.false_eq_true, if_false, halloc]
      refine ⟨trivial, fun _ => ⟨?_, hcur, hff, j5⟩, fun k => (by cases k)⟩
      show infoOf sq (offOf a.file.size (c :: t) - 1) A.L = _
      rw [j6, hL]; simp only [Int.zero_add]
    · have hce' : isEod a.inmap c = false := by simpa using hce
      obtain ⟨j1, j2⟩ := k3 c t hr hce'
      subst j1
      have b1 : (Status.eformat == Status.fault || Status.eformat == Status.eformat) = true := by decide
      simp only [b1, if_true, hce', Bool.false_eq_true, if_false]
      exact ⟨trivial, fun k => (by cases k), fun _ => j2⟩

/-- **`sqascii_ReadInfo` on a FASTA file = `infoL` on the remaining file bytes, for every block size.** -/
theorem readInfo_spec (a : Ascii) (sq : Sq) (R : Ready a sq) (hsa : 2 ≤ sq.salloc) :
    (readInfo a sq).2.2 = (infoL a.inmap a.file.size sq (fileFrom a)).1 ∧
    ((infoL a.inmap a.file.size sq (fileFrom a)).1 = .ok →
      (readInfo a sq).2.1 = (infoL a.inmap a.file.size sq (fileFrom a)).2.1 ∧ Cur (readInfo a sq).1 ∧
      fileFrom (readInfo a sq).1 = (infoL a.inmap a.file.size sq (fileFrom a)).2.2 ∧ stat (readInfo a sq).1 = stat a) ∧
    ((infoL a.inmap a.file.size sq (fileFrom a)).1 = .eformat → (readInfo a sq).1.haveErr = true) ∧
    ((infoL a.inmap a.file.size sq (fileFrom a)).1 = .eof → Cur (readInfo a sq).1 ∧ fileFrom (readInfo a sq).1 = [] ∧
      stat (readInfo a sq).1 = stat a) := by
  rw [readInfo_eq, parseHeader_fasta a sq R.fmt]
  rcases R.cur.cur with hl | ⟨⟨e1, e2⟩, e3⟩
  · have hn : (a.nc == 0) = false := by simp only [Sim.Live] at hl; simp; omega
    obtain ⟨x, t, _, hf, _⟩ := abs_of_live a R.cur hl
    obtain ⟨q1, q2, q3, q4⟩ := headerFasta_spec a sq R.cur hl R.nalloc R.dalloc
    obtain ⟨_, _, _, u4, _⟩ := headerL_keeps a.file.size sq (fileFrom a)
    have hne : (fileFrom a).isEmpty = false := by rw [hf]; rfl
    unfold infoL
    simp only [hn, hne, Bool.false_eq_true, if_false]
    generalize headerL a.file.size sq (fileFrom a) = H at q1 q2 q3 q4 u4 ⊢
    obtain ⟨hst, hsq, hrest⟩ := H
    generalize headerFasta a sq = r0 at q1 q2 q3 q4 ⊢
    obtain ⟨a1, sq1, st1⟩ := r0
    simp only [] at q1 q2 q3 q4 u4 ⊢
    obtain ⟨rfl, rfl⟩ := Prod.mk.inj q1
    by_cases hok : st1 = .ok
    · subst hok
      obtain ⟨c1, c2, c3⟩ := q2 rfl
      have b1 : (Status.ok != Status.ok) = false := by decide
      have b2 : (Status.ok == Status.ok) = true := by decide
      simp only [b1, b2, Bool.false_eq_true, if_false, if_true]
      have hi : a1.inmap = a.inmap := stat_inmap c3
      have hfile : a1.file = a.file := stat_file c3
      obtain ⟨X, hX⟩ : ∃ X, X = ({ a1 with L := 0 } : Ascii) := ⟨_, rfl⟩
      have x1 : X.inmap = a.inmap := by rw [hX]; exact hi
      have x2 : X.file = a.file := by rw [hX]; exact hfile
      have x3 : fileFrom X = hrest := by rw [hX]; exact c2
      have x4 : stat X = stat a := by rw [hX]; exact c3
      have x5 : X.L = 0 := by rw [hX]
      have x6 : Cur X := by rw [hX]; exact Cur.setL c1 0
      rw [← hX]
      obtain ⟨d1, d2, d3⟩ := infoBody_spec X sq1 x6 ((stat_fmt x4).trans R.fmt)
        ((stat_eofIsOk x4).trans R.eofOk) (by rw [x1]; exact R.hm) (by rw [x1]; exact R.eodGt) x5 (by rw [u4]; exact hsa)
      rw [x1, x2, x3] at d1 d2 d3
      refine ⟨d1, fun k => ?_, d3, fun k => ?_⟩
      · obtain ⟨m1, m2, m3, m4⟩ := d2 k
        exact ⟨m1, m2, m3, m4.trans x4⟩
      · exfalso
        revert k
        unfold infoBodyL
        split
        · intro k; cases k
        · split <;> (intro k; cases k)
    · have b1 : (st1 != Status.ok) = true := by simpa using hok
      have b2 : (st1 == Status.ok) = false := by simpa using hok
      simp only [b1, b2, if_true, Bool.false_eq_true, if_false]
      exact ⟨trivial, fun k => absurd k hok, q3, q4⟩
  · have hn : (a.nc == 0) = true := by simp [e1]
    have hnil := fileFrom_eof a e3
    unfold infoL
    simp only [hn, if_true, hnil, List.isEmpty_nil]
    exact ⟨trivial, fun k => (by cases k), fun k => (by cases k), fun _ => ⟨R.cur, by first | exact hnil | trivial, by first | rfl | trivial⟩⟩


theorem skipHeader_fasta (a : Ascii) (sq : Sq) (hf : a.fmt = 1) : skipHeader a sq = skipFasta a sq := by
  unfold skipHeader
  simp [hf]

theorem readSequence_eq (a : Ascii) (sq : Sq) : readSequence a sq =
    if a.nc == 0 then (a, sq, .eof) else
    if (skipHeader a sq).2.2 != .ok then skipHeader a sq else readBody (skipHeader a sq).1 (skipHeader a sq).2.1 := rfl

theorem skipL_keeps (N : Nat) (sq : Sq) (l : List UInt8) :
    (skipL N sq l).2.1.digital = sq.digital ∧ (skipL N sq l).2.1.abc = sq.abc ∧ (skipL N sq l).2.1.seq = sq.seq ∧
    (skipL N sq l).2.1.salloc = sq.salloc := by
  unfold skipL
  split
  · simp
  · split <;> simp

/-- **`sqascii_ReadSequence` on a FASTA file = `seqL` on the remaining file bytes, for every block size.** -/
theorem readSequence_spec (a : Ascii) (sq : Sq) (R : Ready a sq) :
    (readSequence a sq).2.2 = (seqL a.inmap a.file.size sq (fileFrom a)).1 ∧
    ((seqL a.inmap a.file.size sq (fileFrom a)).1 = .ok →
      (readSequence a sq).2.1 = (seqL a.inmap a.file.size sq (fileFrom a)).2.1 ∧ Cur (readSequence a sq).1 ∧
      fileFrom (readSequence a sq).1 = (seqL a.inmap a.file.size sq (fileFrom a)).2.2 ∧ stat (readSequence a sq).1 = stat a) ∧
    ((seqL a.inmap a.file.size sq (fileFrom a)).1 = .eformat → (readSequence a sq).1.haveErr = true) ∧
    ((seqL a.inmap a.file.size sq (fileFrom a)).1 = .eof → Cur (readSequence a sq).1 ∧ fileFrom (readSequence a sq).1 = [] ∧
      stat (readSequence a sq).1 = stat a) := by
  rw [readSequence_eq, skipHeader_fasta a sq R.fmt]
  rcases R.cur.cur with hl | ⟨⟨e1, e2⟩, e3⟩
  · have hn : (a.nc == 0) = false := by simp only [Sim.Live] at hl; simp; omega
    obtain ⟨x, t, _, hf, _⟩ := abs_of_live a R.cur hl
    obtain ⟨q1, q2, q3, q4⟩ := skipFasta_spec a sq R.cur hl
    obtain ⟨u1, u2, _, _⟩ := skipL_keeps a.file.size sq (fileFrom a)
    have hne : (fileFrom a).isEmpty = false := by rw [hf]; rfl
    unfold seqL
    simp only [hn, hne, Bool.false_eq_true, if_false]
    generalize skipL a.file.size sq (fileFrom a) = H at q1 q2 q3 q4 u1 u2 ⊢
    obtain ⟨hst, hsq, hrest⟩ := H
    generalize skipFasta a sq = r0 at q1 q2 q3 q4 ⊢
    obtain ⟨a1, sq1, st1⟩ := r0
    simp only [] at q1 q2 q3 q4 u1 u2 ⊢
    obtain ⟨rfl, rfl⟩ := Prod.mk.inj q1
    by_cases hok : st1 = .ok
    · subst hok
      obtain ⟨c1, c2, c3⟩ := q2 rfl
      have b1 : (Status.ok != Status.ok) = false := by decide
      have b2 : (Status.ok == Status.ok) = true := by decide
      simp only [b1, b2, Bool.false_eq_true, if_false, if_true]
      have hi : a1.inmap = a.inmap := stat_inmap c3
      have hfile : a1.file = a.file := stat_file c3
      have hmapeq : mapOf a1 sq1 = mapFor a.inmap sq := by
        simp only [mapOf, mapFor, u1, u2, hi]
      obtain ⟨d1, d2, d3⟩ := readBody_spec a1 sq1 c1 ((stat_fmt c3).trans R.fmt) ((stat_eofIsOk c3).trans R.eofOk)
        (by rw [hi]; exact R.hm) (by rw [hmapeq, hi]; exact R.mapOk) (by rw [hi]; exact R.eodGt)
      rw [hmapeq, hi, hfile, c2] at d1 d2 d3
      refine ⟨d1, fun k => ?_, d3, fun k => ?_⟩
      · obtain ⟨m1, m2, m3, m4⟩ := d2 k
        exact ⟨m1, m2, m3, m4.trans c3⟩
      · exfalso
        revert k
        unfold bodyL
        split
        · intro k; cases k
        · split <;> (intro k; cases k)
    · have b1 : (st1 != Status.ok) = true := by simpa using hok
      have b2 : (st1 == Status.ok) = false := by simpa using hok
      simp only [b1, b2, if_true, Bool.false_eq_true, if_false]
      exact ⟨trivial, fun k => absurd k hok, q3, q4⟩
  · have hn : (a.nc == 0) = true := by simp [e1]
    have hnil := fileFrom_eof a e3
    unfold seqL
    simp only [hn, if_true, hnil, List.isEmpty_nil]
    exact ⟨trivial, fun k => (by cases k), fun k => (by cases k), fun _ => ⟨R.cur, by first | exact hnil | trivial, by first | rfl | trivial⟩⟩

/-! ## agreement of the three closed forms -/

/-- **Read / ReadInfo / ReadSequence agree, field by field** — on the closed forms, i.e. for every byte string and (through
    `read_spec`, `readInfo_spec`, `readSequence_spec`) for every block size. Whenever `Read` succeeds on the remaining bytes `l`
    (starting from an `ESL_SQ` without residues, as after `esl_sq_Reuse`): `ReadInfo` and `ReadSequence` succeed, leave the cursor on
    the same remaining bytes, and
    * `ReadInfo`: same name, description, `roff`, `hoff`, `doff`, `eoff`, and `L` = the number of residues `Read` returns;
    * `ReadSequence`: same residues, `roff`, `doff`, `eoff`, `L`, coordinates. -/
theorem info_seq_agree_L (inmap : Bytes) (N : Nat) (sq sq' : Sq) (l : List UInt8) (hs : sq.seq = #[])
    (hd' : sq'.digital = sq.digital) (ha' : sq'.abc = sq.abc) (hs' : sq'.seq = #[])
    (h : (recL inmap N sq l).1 = .ok) :
    (infoL inmap N sq l).1 = .ok ∧ (infoL inmap N sq l).2.2 = (recL inmap N sq l).2.2 ∧
    (infoL inmap N sq l).2.1.name = (recL inmap N sq l).2.1.name ∧ (infoL inmap N sq l).2.1.desc = (recL inmap N sq l).2.1.desc ∧
    (infoL inmap N sq l).2.1.roff = (recL inmap N sq l).2.1.roff ∧ (infoL inmap N sq l).2.1.hoff = (recL inmap N sq l).2.1.hoff ∧
    (infoL inmap N sq l).2.1.doff = (recL inmap N sq l).2.1.doff ∧ (infoL inmap N sq l).2.1.eoff = (recL inmap N sq l).2.1.eoff ∧
    (infoL inmap N sq l).2.1.L = (recL inmap N sq l).2.1.L ∧ (infoL inmap N sq l).2.1.L = ((recL inmap N sq l).2.1.seq.size : Int) ∧
    (seqL inmap N sq' l).1 = .ok ∧ (seqL inmap N sq' l).2.2 = (recL inmap N sq l).2.2 ∧
    (seqL inmap N sq' l).2.1.seq = (recL inmap N sq l).2.1.seq ∧ (seqL inmap N sq' l).2.1.roff = (recL inmap N sq l).2.1.roff ∧
    (seqL inmap N sq' l).2.1.doff = (recL inmap N sq l).2.1.doff ∧ (seqL inmap N sq' l).2.1.eoff = (recL inmap N sq l).2.1.eoff ∧
    (seqL inmap N sq' l).2.1.L = (recL inmap N sq l).2.1.L ∧ (seqL inmap N sq' l).2.1.start = (recL inmap N sq l).2.1.start ∧
    (seqL inmap N sq' l).2.1.end_ = (recL inmap N sq l).2.1.end_ := by
  unfold recL at h ⊢
  unfold infoL seqL
  by_cases hne : l.isEmpty = true
  · simp only [hne, if_true] at h; cases h
  · simp only [hne, Bool.false_eq_true, if_false] at h ⊢
    by_cases hok : ((headerL N sq l).1 == .ok) = true
    · simp only [hok, if_true] at h ⊢
      obtain ⟨g1, g2, g3, g4⟩ := headerL_skipL_agree N sq sq' l (eq_of_beq hok)
      obtain ⟨u1, u2, u3, _, _⟩ := headerL_keeps N sq l
      obtain ⟨v1, v2, v3, _⟩ := skipL_keeps N sq' l
      have hok2 : ((skipL N sq' l).1 == .ok) = true := by rw [g1]; rfl
      simp only [hok2, if_true]
      have hmf : mapFor inmap sq' = mapFor inmap sq := by simp only [mapFor, hd', ha']
      rw [g2, hmf]
      generalize (headerL N sq l).2.2 = l1 at h ⊢
      generalize (headerL N sq l).2.1 = s1 at h u1 u2 u3 g3 g4 ⊢
      generalize (skipL N sq' l).2.1 = s2 at v1 v2 v3 g3 g4 ⊢
      unfold bodyL at h ⊢
      unfold infoBodyL
      have hseq1 : s1.seq = #[] := u3.trans hs
      have hseq2 : s2.seq = #[] := v3.trans hs'
      cases hr : l1.dropWhile (isData inmap) with
      | nil =>
        simp only [Sq.setWhole, stored, if_true, infoOf, Sq.n, hseq1, hseq2, g3, g4, resOf_size, nresOf, Array.size_append]
        simp
      | cons c t =>
        rw [hr] at h
        simp only [] at h ⊢
        by_cases hce : isEod inmap c = true
        · simp only [hce, if_true, Sq.setWhole, stored, infoOf, Sq.n, hseq1, hseq2, g3, g4, resOf_size, nresOf, Array.size_append]
          simp
        · simp only [hce, Bool.false_eq_true, if_false] at h; cases h
    · have hok' : ((headerL N sq l).1 == .ok) = false := by simpa using hok
      simp only [hok', Bool.false_eq_true, if_false] at h
      rw [h] at hok; exact absurd rfl hok

end EaselModel.Sqio.InfoSeqSpec
