import EaselModel.Sqio.FetchSpec
/-! # Reverse-strand `sqascii_ReadWindow` = reverse complement of the slice of the scanned record (C04), brute-force addressing

`revTail`: the part of the reverse-strand branch after the window schedule (`revInit` / `revNext`, whose tiling is `Windows.lean`) has set
`start`, `end`, `C`, `W`: compute the seek offset, `Position`, `read_nres(start − actual_start, end − start + 1)`, reverse-complement.
`revTail_brute`: when the handle holds no line geometry (`bpl ≤ 0 ∨ rpl ≤ 0`: unset or invalidated — the case the repair 2dacdd7 made
the fallback), the window delivered is `esl_sq_ReverseComplement` of the residues `start..end` of the record the sequential scan yields,
for every read-block size. -/
namespace EaselModel.Sqio.RevWindowSpec
open EaselModel.Sqio.Refine EaselModel.Sqio.Fold EaselModel.Sqio.DataScan EaselModel.Sqio.Cursor EaselModel.Sqio.BodySpec
open EaselModel.Sqio.HeaderSpec EaselModel.Sqio.ReadSpec EaselModel.Sqio.ParseFasta EaselModel.Sqio.WindowSpec EaselModel.Sqio.FetchSpec

/-- the reverse-strand branch from the offset computation on -/
def revTail (a : Ascii) (sq : Sq) : Ascii × Sq × Status :=
  let (rel, actualStart) := subseqOffset a.trk.bpl a.trk.rpl sq.start
  let offset := sq.doff + rel
  if offset < 0 then (a.raise, sq, .einval) else
  let (a, st) := position a offset.toNat
  if st != .ok then (a.raise, sq, .ecorrupt) else
  let sq := sq.growTo (sq.C + sq.W).toNat
  let sq := { sq with seq := #[] }
  let want := sq.end_ - sq.start + 1
  let (a, sq, st, nres) := readNres a sq (sq.start - actualStart).toNat want.toNat
  if st == .fault then (a, sq, .fault) else
  if st != .ok || (nres : Int) < want then (a.raise, sq, .ecorrupt) else
  let (sq, st, exc) := revcomp sq
  let a := if exc then a.raise else a
  if st == .einval then (a.fail, sq, .einval) else
  if st != .ok then (a, sq, st) else
  (a, sq, .ok)

/-- first reverse window of a record (`sq->start == 0` after the forward pass ended with `eslEOD`) -/
theorem readWindow_rev_first (a : Ascii) (sq : Sq) (C W : Int) (hW : 1 ≤ W) (hL1 : sq.L ≠ -1) (hL0 : sq.L ≠ 0) (he : sq.end_ ≠ 1)
    (hs : sq.start = 0) :
    readWindow a sq C (-W) =
      revTail { a with trk := a.trk.reset, linenumber := -1, L := -1 }
        { sq with start := (revInit sq.L W).1, end_ := (revInit sq.L W).2, C := 0, W := (revInit sq.L W).2 - (revInit sq.L W).1 + 1 } := by
  have h1 : -W < 0 := by omega
  have h2 : (sq.L == -1) = false := by simpa using hL1
  have h3 : (sq.end_ == 1 || sq.L == 0) = false := by simp [he, hL0]
  have h4 : - -W = W := by omega
  unfold readWindow revTail
  simp only [h1, if_true, h2, Bool.false_eq_true, if_false, h3, hs, beq_self_eq_true, h4]

/-- later reverse windows -/
theorem readWindow_rev_next (a : Ascii) (sq : Sq) (C W : Int) (hW : 1 ≤ W) (hL1 : sq.L ≠ -1) (hL0 : sq.L ≠ 0) (he : sq.end_ ≠ 1)
    (hs : sq.start ≠ 0) :
    readWindow a sq C (-W) =
      revTail a { sq with C := (revNext sq.L C W sq.end_).1, end_ := (revNext sq.L C W sq.end_).2.1,
                          start := (revNext sq.L C W sq.end_).2.2.1, W := (revNext sq.L C W sq.end_).2.2.2 } := by
  have h1 : -W < 0 := by omega
  have h2 : (sq.L == -1) = false := by simpa using hL1
  have h3 : (sq.end_ == 1 || sq.L == 0) = false := by simp [he, hL0]
  have h4 : - -W = W := by omega
  have h5 : (sq.start == 0) = false := by simpa using hs
  unfold readWindow revTail
  simp only [h1, if_true, h2, Bool.false_eq_true, if_false, h3, h5, h4]


theorem subseqOffset_brute (bpl rpl start : Int) (h : bpl ≤ 0 ∨ rpl ≤ 0) : subseqOffset bpl rpl start = (0, 1) := by
  unfold subseqOffset
  have : (decide (bpl ≤ 0) || decide (rpl ≤ 0)) = true := by rcases h with h | h <;> simp [h]
  simp [this]

/-- **Reverse window = reverse complement of the slice of the scanned record, brute-force addressing, for every block size.**
    `s` is a record of the sequential scan of `bytes`; `a` any block-mode handle on the file without line geometry; `sq` carries the
    window `[start .. end]` (`1 ≤ start ≤ end ≤ L`, `C + W = end − start + 1`, as `revInit` / `revNext` set them) and the record's
    data offset. The call seeks to `doff`, skips `start − 1` residues, reads `end − start + 1`, and returns
    `esl_sq_ReverseComplement` of exactly the residues `s.seq[start..end]`, with its status. -/
theorem revTail_brute (bytes : Bytes) (abc : Nat) (habc : abc ∈ [0, 1, 2, 3]) (s : Sq) (hs : s ∈ (parseFasta abc bytes).1)
    (a : Ascii) (hf : a.file = bytes) (hb : a.linebased = false) (hr : a.recording ≠ 1) (hB : 1 ≤ a.B)
    (hi : a.inmap = inmapFasta abc) (heof : a.eofIsOk = true) (hgeo : a.trk.bpl ≤ 0 ∨ a.trk.rpl ≤ 0)
    (sq : Sq) (hdig : sq.digital = (abc != 0)) (hsabc : sq.abc = abc) (hdoff : sq.doff = s.doff)
    (h1 : 1 ≤ sq.start) (h2 : sq.start ≤ sq.end_) (h3 : sq.end_ ≤ s.L) (hcw : sq.C + sq.W = sq.end_ - sq.start + 1) :
    (revTail a sq).2.1 = (revcomp { sq.growTo (sq.C + sq.W).toNat with seq := s.seq.extract (sq.start - 1).toNat sq.end_.toNat }).1 ∧
    (revTail a sq).2.2 = (revcomp { sq.growTo (sq.C + sq.W).toNat with seq := s.seq.extract (sq.start - 1).toNat sq.end_.toNat }).2.1 := by
  obtain ⟨r1, r2, r3, r4, _, r6, r7, r8⟩ := record_shape bytes abc s hs
  -- the data offset lies inside the file
  have hLpos : 1 ≤ s.L := by omega
  have hdlt : s.doff.toNat < a.file.size := by
    rw [hf]
    by_cases hlt : s.doff.toNat < bytes.size
    · exact hlt
    · exfalso
      have : bytes.toList.drop s.doff.toNat = [] := List.drop_eq_nil_of_le (by simp; omega)
      rw [this] at r6
      rw [r6] at r7
      simp [resOf] at r7
      omega
  obtain ⟨p1, p2, p3, p4, p5, p6⟩ := position_full a s.doff.toNat hb hr hB hdlt
  rw [hf] at p4
  have hi1 : (position a s.doff.toNat).1.inmap = inmapFasta abc := (stat_inmap p5).trans hi
  have heof1 : (position a s.doff.toNat).1.eofIsOk = true := (stat_eofIsOk p5).trans heof
  -- the ESL_SQ handed to read_nres
  generalize hSQ : ({ sq.growTo (sq.C + sq.W).toNat with seq := #[] } : Sq) = SQ
  have hSQdig : SQ.digital = sq.digital := by rw [← hSQ, growTo_eq]
  have hSQabc : SQ.abc = sq.abc := by rw [← hSQ, growTo_eq]
  have hSQseq : SQ.seq = #[] := by rw [← hSQ]
  have hSQst : SQ.start = sq.start := by rw [← hSQ, growTo_eq]
  have hSQen : SQ.end_ = sq.end_ := by rw [← hSQ, growTo_eq]
  have hmapeq : mapOf (position a s.doff.toNat).1 SQ = mapFor (inmapFasta abc) (freshSq abc) := by
    simp only [mapOf, mapFor, hSQdig, hSQabc, hdig, hsabc, hi1]
    rfl
  have hmapOk : MapOk (position a s.doff.toNat).1.inmap (mapOf (position a s.doff.toNat).1 SQ) := by
    rw [hmapeq, hi1]; exact mapOk_fasta abc habc
  have hm : (position a s.doff.toNat).1.inmap.size = 128 := by rw [hi1]; exact (tables_fasta abc habc).1
  have hclean : Clean (position a s.doff.toNat).1.inmap (fileFrom (position a s.doff.toNat).1) := by rw [hi1, p4]; exact r8
  have hwantN : (sq.end_ - sq.start + 1).toNat = sq.end_.toNat - (sq.start - 1).toNat := by omega
  have hcap : SQ.seq.size + (sq.end_ - sq.start + 1).toNat + (if SQ.digital then 2 else 1) ≤ SQ.salloc := by
    rw [hSQseq, hSQdig, ← hSQ, growTo_eq]
    show 0 + (sq.end_ - sq.start + 1).toNat + (if sq.digital then 2 else 1) ≤
      max sq.salloc ((sq.C + sq.W).toNat + (if sq.digital then 2 else 1))
    rw [hcw]; omega
  have hRlen : ((((bytes.toList.drop s.doff.toNat).takeWhile (isData (inmapFasta abc))).filter (isRes (inmapFasta abc))).length : Int) = s.L := by
    rw [r7, r6, resOf_size]
  obtain ⟨ws1, ws2⟩ := window_slice (inmapFasta abc) (mapFor (inmapFasta abc) (freshSq abc)) (bytes.toList.drop s.doff.toNat)
    ((bytes.toList.drop s.doff.toNat).takeWhile (isData (inmapFasta abc))) (sq.start - 1).toNat (sq.start - 1).toNat
    (sq.end_ - sq.start + 1).toNat (by omega) rfl (by omega)
  rw [← r6] at ws2
  obtain ⟨n1, n2, n3, _⟩ := readNres_spec (position a s.doff.toNat).1 SQ (sq.start - 1).toNat (sq.end_ - sq.start + 1).toNat
    p2.wf p2.tok hm heof1 hmapOk hclean hcap (by rw [hi1, p4, ws1]; omega)
  rw [hi1, p4] at n2 n3
  rw [hmapeq] at n3
  rw [ws1] at n2
  rw [ws2, hSQseq] at n3
  -- run the code
  generalize hRC : revcomp { sq.growTo (sq.C + sq.W).toNat with seq := s.seq.extract (sq.start - 1).toNat sq.end_.toNat } = RC
  unfold revTail
  rw [subseqOffset_brute _ _ _ hgeo]
  simp only [Int.add_zero, hdoff]
  have hnn : ¬ s.doff < 0 := by omega
  have b1 : (Status.ok != Status.ok) = false := by decide
  simp only [hnn, if_false, p1, b1, Bool.false_eq_true, hSQ]
  have hgs : (sq.growTo (sq.C + sq.W).toNat).start = sq.start := by rw [growTo_eq]
  have hge : (sq.growTo (sq.C + sq.W).toNat).end_ = sq.end_ := by rw [growTo_eq]
  simp only [hgs, hge]
  generalize readNres (position a s.doff.toNat).1 SQ (sq.start - 1).toNat (sq.end_ - sq.start + 1).toNat = R at n1 n2 n3
  obtain ⟨a2, sq2, st2, nr2⟩ := R
  simp only [] at n1 n2 n3 ⊢
  subst n1 n2 n3
  have b2 : (Status.ok == Status.fault) = false := by decide
  have hnl : ¬ ((((sq.start - 1).toNat + (sq.end_ - sq.start + 1).toNat - (sq.start - 1).toNat : Nat) : Int) < sq.end_ - sq.start + 1) := by
    omega
  simp only [b2, Bool.false_eq_true, if_false, b1, Bool.false_or, hnl, decide_false]
  have hsqeq : ({ SQ with seq := #[] ++ s.seq.extract (sq.start - 1).toNat ((sq.start - 1).toNat + (sq.end_ - sq.start + 1).toNat) } : Sq) =
      { sq.growTo (sq.C + sq.W).toNat with seq := s.seq.extract (sq.start - 1).toNat sq.end_.toNat } := by
    rw [← hSQ]
    have : (sq.start - 1).toNat + (sq.end_ - sq.start + 1).toNat = sq.end_.toNat := by omega
    rw [this]; simp
  rw [hsqeq, hRC]
  obtain ⟨sq3, st3, ex3⟩ := RC
  simp only []
  by_cases e1 : st3 = .einval
  · subst e1; simp
  · have e1' : (st3 == Status.einval) = false := by simpa using e1
    simp only [e1', Bool.false_eq_true, if_false]
    by_cases e2 : st3 = .ok
    · subst e2; simp
    · have e2' : (st3 != Status.ok) = true := by simpa using e2
      simp only [e2', if_true]
      exact ⟨trivial, trivial⟩


/-- the window an `ESL_SQ` describes, cut out of the residues `R` and reverse-complemented: what a reverse-strand call must return -/
def revOf (sq : Sq) (R : Bytes) : Sq × Status × Bool :=
  revcomp { sq.growTo (sq.C + sq.W).toNat with seq := R.extract (sq.start - 1).toNat sq.end_.toNat }

/-- **first reverse-strand window** (after the forward pass reported `eslEOD`: `start = 0`, `L` known): the top `min W L` residues of
    the scanned record (`revInit L W = (max 1 (L − W + 1), L)`), reverse-complemented — for every block size, when the handle holds no
    line geometry -/
theorem rev_first_window_brute (bytes : Bytes) (abc : Nat) (habc : abc ∈ [0, 1, 2, 3]) (s : Sq) (hs : s ∈ (parseFasta abc bytes).1)
    (a : Ascii) (hf : a.file = bytes) (hb : a.linebased = false) (hr : a.recording ≠ 1) (hB : 1 ≤ a.B)
    (hi : a.inmap = inmapFasta abc) (heof : a.eofIsOk = true) (hgeo : a.trk.bpl ≤ 0 ∨ a.trk.rpl ≤ 0)
    (sq : Sq) (hdig : sq.digital = (abc != 0)) (hsabc : sq.abc = abc) (hdoff : sq.doff = s.doff)
    (hL : sq.L = s.L) (hL1 : 1 ≤ s.L) (hst : sq.start = 0) (hen : sq.end_ = 0) (C W : Int) (hW : 1 ≤ W) :
    (readWindow a sq C (-W)).2.1 =
      (revOf { sq with start := (revInit sq.L W).1, end_ := (revInit sq.L W).2, C := 0, W := (revInit sq.L W).2 - (revInit sq.L W).1 + 1 } s.seq).1 ∧
    (readWindow a sq C (-W)).2.2 =
      (revOf { sq with start := (revInit sq.L W).1, end_ := (revInit sq.L W).2, C := 0, W := (revInit sq.L W).2 - (revInit sq.L W).1 + 1 } s.seq).2.1 := by
  rw [readWindow_rev_first a sq C W hW (by omega) (by omega) (by omega) hst]
  generalize hA : ({ a with trk := a.trk.reset, linenumber := -1, L := -1 } : Ascii) = A
  generalize hS : ({ sq with start := (revInit sq.L W).1, end_ := (revInit sq.L W).2, C := 0,
                             W := (revInit sq.L W).2 - (revInit sq.L W).1 + 1 } : Sq) = SQ
  have a1 : A.file = bytes := by rw [← hA]; exact hf
  have a2 : A.linebased = false := by rw [← hA]; exact hb
  have a3 : A.recording ≠ 1 := by rw [← hA]; exact hr
  have a4 : 1 ≤ A.B := by rw [← hA]; exact hB
  have a5 : A.inmap = inmapFasta abc := by rw [← hA]; exact hi
  have a6 : A.eofIsOk = true := by rw [← hA]; exact heof
  have a7 : A.trk.bpl ≤ 0 ∨ A.trk.rpl ≤ 0 := by rw [← hA]; exact hgeo
  have s1 : SQ.digital = (abc != 0) := by rw [← hS]; exact hdig
  have s2 : SQ.abc = abc := by rw [← hS]; exact hsabc
  have s3 : SQ.doff = s.doff := by rw [← hS]; exact hdoff
  have s4 : SQ.start = (revInit sq.L W).1 := by rw [← hS]
  have s5 : SQ.end_ = (revInit sq.L W).2 := by rw [← hS]
  have s6 : SQ.C = 0 := by rw [← hS]
  have s7 : SQ.W = (revInit sq.L W).2 - (revInit sq.L W).1 + 1 := by rw [← hS]
  have e1 : (revInit sq.L W).1 = max 1 (s.L - W + 1) := by rw [hL]; rfl
  have e2 : (revInit sq.L W).2 = s.L := by rw [hL]; rfl
  exact revTail_brute bytes abc habc s hs A a1 a2 a3 a4 a5 a6 a7 SQ s1 s2 s3 (by rw [s4, e1]; omega) (by rw [s4, s5, e1, e2]; omega)
    (by rw [s5, e2]; omega) (by rw [s6, s7, s4, s5]; omega)

/-- **later reverse-strand windows**: `sq` holds the previous window (`end_` = its lower coordinate `prevLow`, `2 ≤ prevLow ≤ L`); the
    call returns the reverse complement of the residues `[start .. prevLow + c − 1]` of the scanned record, `c = min C (L − prevLow + 1)`
    residues of context and `start = max 1 (prevLow − W)` (`Windows.revNext_tiles`: these windows tile `1..L` downwards) -/
theorem rev_next_window_brute (bytes : Bytes) (abc : Nat) (habc : abc ∈ [0, 1, 2, 3]) (s : Sq) (hs : s ∈ (parseFasta abc bytes).1)
    (a : Ascii) (hf : a.file = bytes) (hb : a.linebased = false) (hr : a.recording ≠ 1) (hB : 1 ≤ a.B)
    (hi : a.inmap = inmapFasta abc) (heof : a.eofIsOk = true) (hgeo : a.trk.bpl ≤ 0 ∨ a.trk.rpl ≤ 0)
    (sq : Sq) (hdig : sq.digital = (abc != 0)) (hsabc : sq.abc = abc) (hdoff : sq.doff = s.doff)
    (hL : sq.L = s.L) (hst : sq.start ≠ 0) (hlo : 2 ≤ sq.end_) (hhi : sq.end_ ≤ s.L) (C W : Int) (hC : 0 ≤ C) (hW : 1 ≤ W) :
    (readWindow a sq C (-W)).2.1 =
      (revOf { sq with C := (revNext sq.L C W sq.end_).1, end_ := (revNext sq.L C W sq.end_).2.1,
                       start := (revNext sq.L C W sq.end_).2.2.1, W := (revNext sq.L C W sq.end_).2.2.2 } s.seq).1 ∧
    (readWindow a sq C (-W)).2.2 =
      (revOf { sq with C := (revNext sq.L C W sq.end_).1, end_ := (revNext sq.L C W sq.end_).2.1,
                       start := (revNext sq.L C W sq.end_).2.2.1, W := (revNext sq.L C W sq.end_).2.2.2 } s.seq).2.1 := by
  rw [readWindow_rev_next a sq C W hW (by omega) (by omega) (by omega) hst]
  generalize hS : ({ sq with C := (revNext sq.L C W sq.end_).1, end_ := (revNext sq.L C W sq.end_).2.1,
                             start := (revNext sq.L C W sq.end_).2.2.1, W := (revNext sq.L C W sq.end_).2.2.2 } : Sq) = SQ
  have s1 : SQ.digital = (abc != 0) := by rw [← hS]; exact hdig
  have s2 : SQ.abc = abc := by rw [← hS]; exact hsabc
  have s3 : SQ.doff = s.doff := by rw [← hS]; exact hdoff
  have s4 : SQ.start = (revNext sq.L C W sq.end_).2.2.1 := by rw [← hS]
  have s5 : SQ.end_ = (revNext sq.L C W sq.end_).2.1 := by rw [← hS]
  have s6 : SQ.C = (revNext sq.L C W sq.end_).1 := by rw [← hS]
  have s7 : SQ.W = (revNext sq.L C W sq.end_).2.2.2 := by rw [← hS]
  have e1 : (revNext sq.L C W sq.end_).1 = min C (s.L - sq.end_ + 1) := by rw [hL]; rfl
  have e2 : (revNext sq.L C W sq.end_).2.1 = sq.end_ + min C (s.L - sq.end_ + 1) - 1 := by rw [hL]; rfl
  have e3 : (revNext sq.L C W sq.end_).2.2.1 = max 1 (sq.end_ + min C (s.L - sq.end_ + 1) - 1 - W - min C (s.L - sq.end_ + 1) + 1) := by
    rw [hL]; rfl
  have e4 : (revNext sq.L C W sq.end_).2.2.2 = sq.end_ + min C (s.L - sq.end_ + 1) - 1 -
      max 1 (sq.end_ + min C (s.L - sq.end_ + 1) - 1 - W - min C (s.L - sq.end_ + 1) + 1) + 1 - min C (s.L - sq.end_ + 1) := by
    rw [hL]; rfl
  exact revTail_brute bytes abc habc s hs a hf hb hr hB hi heof hgeo SQ s1 s2 s3 (by rw [s4, e3]; omega) (by rw [s4, s5, e2, e3]; omega)
    (by rw [s5, e2]; omega) (by rw [s6, s7, s4, s5, e1, e2, e3, e4]; omega)

end EaselModel.Sqio.RevWindowSpec
