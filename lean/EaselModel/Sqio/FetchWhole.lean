import EaselModel.Sqio.FetchSpec
import EaselModel.Sqio.SpecFasta
/-! # Whole-record fetch = scan (C07): `sqascii_Position(roff)` + `sqascii_Read` returns the record the sequential scan yields

`esl_sqio_Fetch` / `PositionByKey` + `Read` (and `esl-sfetch`'s whole-record path) position the handle at the record offset the index
stored and read one record. `fetch_eq_scan`: for every record `s` of the sequential scan, every block-mode handle on the file (any block
size, cursor anywhere) and every reused `ESL_SQ` of the right mode, that read succeeds and returns `s` — name, description, residues,
offsets, `L` (`toRecord`; allocations may differ). -/
namespace EaselModel.Sqio.FetchWhole
open EaselModel.Sqio.Refine EaselModel.Sqio.DataScan EaselModel.Sqio.Cursor EaselModel.Sqio.BodySpec EaselModel.Sqio.HeaderSpec
open EaselModel.Sqio.ReadSpec EaselModel.Sqio.ParseFasta EaselModel.Sqio.FetchSpec EaselModel.Sqio.SpecFasta

theorem headerL_dropSpace (N : Nat) (sq : Sq) (l : List UInt8) : headerL N sq (l.dropWhile isSpace) = headerL N sq l := by
  unfold headerL
  rw [dropWhile_dropWhile_of_imp isSpace isSpace (fun _ h => h) l]

/-- leading white space in front of a record is invisible to the record parser -/
theorem recL_dropSpace (inmap : Bytes) (N : Nat) (sq : Sq) (l : List UInt8) (c : UInt8) (t : List UInt8)
    (h : l.dropWhile isSpace = c :: t) : recL inmap N sq (c :: t) = recL inmap N sq l := by
  have hne : l.isEmpty = false := by
    cases l with
    | nil => cases h
    | cons _ _ => rfl
  unfold recL
  rw [← h, headerL_dropSpace]
  simp [hne, h]

/-- **FETCH (whole record) = SCAN, for every block size** -/
theorem fetch_eq_scan (bytes : Bytes) (abc : Nat) (habc : abc ∈ [0, 1, 2, 3]) (s : Sq) (hs : s ∈ (parseFasta abc bytes).1)
    (a : Ascii) (hf : a.file = bytes) (hb : a.linebased = false) (hr : a.recording ≠ 1) (hB : 1 ≤ a.B)
    (hi : a.inmap = inmapFasta abc) (hfmt : a.fmt = 1) (heof : a.eofIsOk = true)
    (sq : Sq) (hdig : sq.digital = (abc != 0)) (hsabc : sq.abc = abc) (hseq : sq.seq = #[]) (hna : 2 ≤ sq.nalloc) (hda : 2 ≤ sq.dalloc) :
    (position a s.roff.toNat).2 = .ok ∧
    (read (position a s.roff.toNat).1 sq).2.2 = .ok ∧
    toRecord (read (position a s.roff.toNat).1 sq).2.1 = toRecord s := by
  obtain ⟨r1, r2, _, _, _, _, _, _⟩ := record_shape bytes abc s hs
  have hlt : s.roff.toNat < a.file.size := by rw [hf]; omega
  obtain ⟨p1, p2, p3, p4, p5, _⟩ := position_full a s.roff.toNat hb hr hB hlt
  rw [hf] at p4
  have hi1 : (position a s.roff.toNat).1.inmap = inmapFasta abc := (stat_inmap p5).trans hi
  have hfile1 : (position a s.roff.toNat).1.file = bytes := (stat_file p5).trans hf
  have hmapSq : mapFor (inmapFasta abc) sq = mapFor (inmapFasta abc) (freshSq abc) := by
    simp only [mapFor, hdig, hsabc]; rfl
  have R : Ready (position a s.roff.toNat).1 sq := by
    refine ⟨p2, (stat_fmt p5).trans hfmt, (stat_eofIsOk p5).trans heof, by rw [hi1]; exact (tables_fasta abc habc).1, ?_,
      by rw [hi1]; exact eodGt_fasta abc habc, hna, hda⟩
    rw [mapOf_eq, hi1, hmapSq]; exact mapOk_fasta abc habc
  obtain ⟨q1, q2, _, _⟩ := read_spec _ sq R
  rw [hi1, hfile1, p4] at q1 q2
  -- the scan's record
  unfold parseFasta at hs
  obtain ⟨sq', l', suf, hd', ha', hok, hsq⟩ := parseAllL_mem (inmapFasta abc) bytes.size (bytes.size + 2) (freshSq abc) bytes.toList s hs
  have hmapSq' : mapFor (inmapFasta abc) sq'.reuse = mapFor (inmapFasta abc) (freshSq abc) := by
    have e1 : sq'.reuse.digital = sq'.digital := rfl
    have e2 : sq'.reuse.abc = sq'.abc := rfl
    simp only [mapFor, e1, e2, hd', ha']
  -- where the record starts
  have hhok : (headerL bytes.size sq'.reuse l').1 = .ok := by
    revert hok
    unfold recL
    split
    · intro k; cases k
    · split
      · rename_i h; intro _; exact eq_of_beq h
      · rename_i h; intro k; exact absurd (by rw [k]; rfl) h
  obtain ⟨c, l2, h1, h2, _, _, _⟩ := headerL_ok bytes.size sq'.reuse l' hhok
  have sgt : c :: l2 <:+ bytes.toList := by
    have : c :: l2 <:+ l' := by rw [← h1]; exact List.dropWhile_suffix _
    exact this.trans suf
  have hN : bytes.toList.length = bytes.size := Array.length_toList
  have lgt := sgt.length_le
  rw [hN] at lgt
  simp only [List.length_cons] at lgt
  have hroff : s.roff = ((bytes.size - (l2.length + 1) : Nat) : Int) := by
    have e : s.roff = (headerL bytes.size sq'.reuse l').2.1.roff := by
      rw [hsq]
      unfold recL
      have hne : l'.isEmpty = false := by
        cases l' with
        | nil => simp at h1
        | cons _ _ => rfl
      have hbk : ((headerL bytes.size sq'.reuse l').1 == Status.ok) = true := by rw [hhok]; rfl
      simp only [hne, Bool.false_eq_true, if_false, hbk, if_true]
      have hbok : (bodyL (inmapFasta abc) (mapFor (inmapFasta abc) sq'.reuse) bytes.size (headerL bytes.size sq'.reuse l').2.1
          (headerL bytes.size sq'.reuse l').2.2).1 = .ok := by
        have := hok
        unfold recL at this
        simpa only [hne, Bool.false_eq_true, if_false, hbk, if_true] using this
      exact (bodyL_ok _ _ _ _ _ hbok).2.2.1
    rw [e, h2]; simp [offOf]
  have dgt : bytes.toList.drop s.roff.toNat = c :: l2 := by
    have := drop_of_suffix sgt
    rw [hN] at this
    rw [hroff]; simpa using this
  rw [dgt] at q1 q2
  -- both are `specOne` on the same bytes with the same residue map
  have e1 := recL_dropSpace (inmapFasta abc) bytes.size sq l' c l2 h1
  have e2 := recL_dropSpace (inmapFasta abc) bytes.size sq'.reuse l' c l2 h1
  obtain ⟨a1, a2⟩ := recL_eq_specOne (inmapFasta abc) bytes.size sq (c :: l2) hseq
  obtain ⟨b1, b2⟩ := recL_eq_specOne (inmapFasta abc) bytes.size sq'.reuse (c :: l2) rfl
  rw [hmapSq] at a1 a2
  rw [hmapSq'] at b1 b2
  have hok2 : (recL (inmapFasta abc) bytes.size sq'.reuse (c :: l2)).1 = .ok := by rw [e2]; exact hok
  have hok1 : (recL (inmapFasta abc) bytes.size sq (c :: l2)).1 = .ok := by rw [a1, ← b1]; exact hok2
  obtain ⟨m1, _⟩ := q2 hok1
  refine ⟨p1, by rw [q1]; exact hok1, ?_⟩
  rw [m1, hsq, ← e2]
  have x1 := (a2 hok1).1
  have x2 := (b2 hok2).1
  rw [x1] at x2
  exact (Option.some.inj x2)

end EaselModel.Sqio.FetchWhole
