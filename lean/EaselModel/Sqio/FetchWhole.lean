import EaselModel.Sqio.FetchSpec
import EaselModel.Sqio.SpecFasta
import EaselModel.Sqio.InfoSeqSpec
/-! # Whole-record fetch = scan (C07): `sqascii_Position(roff)` + `sqascii_Read` returns the record the sequential scan yields

`esl_sqio_Fetch` / `PositionByKey` + `Read` (and `esl-sfetch`'s whole-record path) position the handle at the record offset the index
stored and read one record. `fetch_eq_scan`: for every record `s` of the sequential scan, every block-mode handle on the file (any block
size, cursor anywhere) and every reused `ESL_SQ` of the right mode, that read succeeds and returns `s` — name, description, residues,
offsets, `L` (`toRecord`; allocations may differ). -/
namespace EaselModel.Sqio.FetchWhole
open EaselModel.Sqio.Refine EaselModel.Sqio.DataScan EaselModel.Sqio.Cursor EaselModel.Sqio.BodySpec EaselModel.Sqio.HeaderSpec
open EaselModel.Sqio.ReadSpec EaselModel.Sqio.ParseFasta EaselModel.Sqio.FetchSpec EaselModel.Sqio.SpecFasta

theorem headerL_dropSpace (N : Nat) (sq : Sq) (l : List UInt8) : headerL N sq (l.dropWhile isSpace) = headerL N sq l := by
  unfold headerL
  rw [dropWhile_dropWhile_of_imp isSpace isSpace (fun _ h => h) l]

/-- leading white space in front of a record is invisible to the record parser -/
theorem recL_dropSpace (inmap : Bytes) (N : Nat) (sq : Sq) (l : List UInt8) (c : UInt8) (t : List UInt8)
    (h : l.dropWhile isSpace = c :: t) : recL inmap N sq (c :: t) = recL inmap N sq l := by
  have hne : l.isEmpty = false := by
    cases l with
    | nil => cases h
    | cons _ _ => rfl
  unfold recL
  rw [← h, headerL_dropSpace]
  simp [hne, h]

/-- after `sqascii_Position(roff)` of a scanned record `s`: the handle is ready, stands on the record's first byte, and the FASTA
    record parser `recL` on the remaining bytes succeeds with the record `s` -/
theorem positioned_rec (bytes : Bytes) (abc : Nat) (habc : abc ∈ [0, 1, 2, 3]) (s : Sq) (hs : s ∈ (parseFasta abc bytes).1)
    (a : Ascii) (hf : a.file = bytes) (hb : a.linebased = false) (hr : a.recording ≠ 1) (hB : 1 ≤ a.B)
    (hi : a.inmap = inmapFasta abc) (hfmt : a.fmt = 1) (heof : a.eofIsOk = true)
    (sq : Sq) (hdig : sq.digital = (abc != 0)) (hsabc : sq.abc = abc) (hseq : sq.seq = #[]) (hna : 2 ≤ sq.nalloc) (hda : 2 ≤ sq.dalloc) :
    (position a s.roff.toNat).2 = .ok ∧ Ready (position a s.roff.toNat).1 sq ∧
    (position a s.roff.toNat).1.inmap = inmapFasta abc ∧ (position a s.roff.toNat).1.file = bytes ∧
    (recL (inmapFasta abc) bytes.size sq (fileFrom (position a s.roff.toNat).1)).1 = .ok ∧
    toRecord (recL (inmapFasta abc) bytes.size sq (fileFrom (position a s.roff.toNat).1)).2.1 = toRecord s := by
  obtain ⟨r1, r2, _, _, _, _, _, _⟩ := record_shape bytes abc s hs
  have hlt : s.roff.toNat < a.file.size := by rw [hf]; omega
  obtain ⟨p1, p2, p3, p4, p5, _⟩ := position_full a s.roff.toNat hb hr hB hlt
  rw [hf] at p4
  have hi1 : (position a s.roff.toNat).1.inmap = inmapFasta abc := (stat_inmap p5).trans hi
  have hfile1 : (position a s.roff.toNat).1.file = bytes := (stat_file p5).trans hf
  have hmapSq : mapFor (inmapFasta abc) sq = mapFor (inmapFasta abc) (freshSq abc) := by
    simp only [mapFor, hdig, hsabc]; rfl
  have R : Ready (position a s.roff.toNat).1 sq := by
    refine ⟨p2, (stat_fmt p5).trans hfmt, (stat_eofIsOk p5).trans heof, by rw [hi1]; exact (tables_fasta abc habc).1, ?_,
      by rw [hi1]; exact eodGt_fasta abc habc, hna, hda⟩
    rw [mapOf_eq, hi1, hmapSq]; exact mapOk_fasta abc habc
  -- the scan's record
  unfold parseFasta at hs
  obtain ⟨sq', l', suf, hd', ha', hok, hsq⟩ := parseAllL_mem (inmapFasta abc) bytes.size (bytes.size + 2) (freshSq abc) bytes.toList s hs
  have hmapSq' : mapFor (inmapFasta abc) sq'.reuse = mapFor (inmapFasta abc) (freshSq abc) := by
    have e1 : sq'.reuse.digital = sq'.digital := rfl
    have e2 : sq'.reuse.abc = sq'.abc := rfl
    simp only [mapFor, e1, e2, hd', ha']
  -- where the record starts
  have hhok : (headerL bytes.size sq'.reuse l').1 = .ok := by
    revert hok
    unfold recL
    split
    · intro k; cases k
    · split
      · rename_i h; intro _; exact eq_of_beq h
      · rename_i h; intro k; exact absurd (by rw [k]; rfl) h
  obtain ⟨c, l2, h1, h2, _, _, _⟩ := headerL_ok bytes.size sq'.reuse l' hhok
  have sgt : c :: l2 <:+ bytes.toList := by
    have : c :: l2 <:+ l' := by rw [← h1]; exact List.dropWhile_suffix _
    exact this.trans suf
  have hN : bytes.toList.length = bytes.size := Array.length_toList
  have lgt := sgt.length_le
  rw [hN] at lgt
  simp only [List.length_cons] at lgt
  have hroff : s.roff = ((bytes.size - (l2.length + 1) : Nat) : Int) := by
    have e : s.roff = (headerL bytes.size sq'.reuse l').2.1.roff := by
      rw [hsq]
      unfold recL
      have hne : l'.isEmpty = false := by
        cases l' with
        | nil => simp at h1
        | cons _ _ => rfl
      have hbk : ((headerL bytes.size sq'.reuse l').1 == Status.ok) = true := by rw [hhok]; rfl
      simp only [hne, Bool.false_eq_true, if_false, hbk, if_true]
      have hbok : (bodyL (inmapFasta abc) (mapFor (inmapFasta abc) sq'.reuse) bytes.size (headerL bytes.size sq'.reuse l').2.1
          (headerL bytes.size sq'.reuse l').2.2).1 = .ok := by
        have := hok
        unfold recL at this
        simpa only [hne, Bool.false_eq_true, if_false, hbk, if_true] using this
      exact (bodyL_ok _ _ _ _ _ hbok).2.2.1
    rw [e, h2]; simp [offOf]
  have dgt : bytes.toList.drop s.roff.toNat = c :: l2 := by
    have := drop_of_suffix sgt
    rw [hN] at this
    rw [hroff]; simpa using this
  -- both are `specOne` on the same bytes with the same residue map
  have e1 := recL_dropSpace (inmapFasta abc) bytes.size sq l' c l2 h1
  have e2 := recL_dropSpace (inmapFasta abc) bytes.size sq'.reuse l' c l2 h1
  obtain ⟨a1, a2⟩ := recL_eq_specOne (inmapFasta abc) bytes.size sq (c :: l2) hseq
  obtain ⟨b1, b2⟩ := recL_eq_specOne (inmapFasta abc) bytes.size sq'.reuse (c :: l2) rfl
  rw [hmapSq] at a1 a2
  rw [hmapSq'] at b1 b2
  have hok2 : (recL (inmapFasta abc) bytes.size sq'.reuse (c :: l2)).1 = .ok := by rw [e2]; exact hok
  have hok1 : (recL (inmapFasta abc) bytes.size sq (c :: l2)).1 = .ok := by rw [a1, ← b1]; exact hok2
  refine ⟨p1, R, hi1, hfile1, by rw [p4, dgt]; exact hok1, ?_⟩
  rw [p4, dgt, hsq, ← e2]
  have x1 := (a2 hok1).1
  have x2 := (b2 hok2).1
  rw [x1] at x2
  exact (Option.some.inj x2)

/-- **FETCH (whole record) = SCAN, for every block size** -/
theorem fetch_eq_scan (bytes : Bytes) (abc : Nat) (habc : abc ∈ [0, 1, 2, 3]) (s : Sq) (hs : s ∈ (parseFasta abc bytes).1)
    (a : Ascii) (hf : a.file = bytes) (hb : a.linebased = false) (hr : a.recording ≠ 1) (hB : 1 ≤ a.B)
    (hi : a.inmap = inmapFasta abc) (hfmt : a.fmt = 1) (heof : a.eofIsOk = true)
    (sq : Sq) (hdig : sq.digital = (abc != 0)) (hsabc : sq.abc = abc) (hseq : sq.seq = #[]) (hna : 2 ≤ sq.nalloc) (hda : 2 ≤ sq.dalloc) :
    (position a s.roff.toNat).2 = .ok ∧
    (read (position a s.roff.toNat).1 sq).2.2 = .ok ∧
    toRecord (read (position a s.roff.toNat).1 sq).2.1 = toRecord s := by
  obtain ⟨p1, R, hi1, hfile1, hok, hrec⟩ := positioned_rec bytes abc habc s hs a hf hb hr hB hi hfmt heof sq hdig hsabc hseq hna hda
  obtain ⟨q1, q2, _, _⟩ := read_spec _ sq R
  rw [hi1, hfile1] at q1 q2
  exact ⟨p1, by rw [q1]; exact hok, by rw [(q2 hok).1]; exact hrec⟩

/-- **FETCHINFO = the info of the scanned record, for every block size**: `sqascii_Position(roff)` + `sqascii_ReadInfo` — what
    `esl_sqio_FetchInfo` does — succeeds and returns the name, description, the four offsets and the length `L` of the record the
    sequential scan yields under that key, and no residues -/
theorem fetchInfo_eq_scan (bytes : Bytes) (abc : Nat) (habc : abc ∈ [0, 1, 2, 3]) (s : Sq) (hs : s ∈ (parseFasta abc bytes).1)
    (a : Ascii) (hf : a.file = bytes) (hb : a.linebased = false) (hr : a.recording ≠ 1) (hB : 1 ≤ a.B)
    (hi : a.inmap = inmapFasta abc) (hfmt : a.fmt = 1) (heof : a.eofIsOk = true)
    (sq : Sq) (hdig : sq.digital = (abc != 0)) (hsabc : sq.abc = abc) (hseq : sq.seq = #[]) (hna : 2 ≤ sq.nalloc) (hda : 2 ≤ sq.dalloc)
    (hsa : 2 ≤ sq.salloc) :
    (position a s.roff.toNat).2 = .ok ∧
    (readInfo (position a s.roff.toNat).1 sq).2.2 = .ok ∧
    (readInfo (position a s.roff.toNat).1 sq).2.1.name.toList = s.name.toList ∧
    (readInfo (position a s.roff.toNat).1 sq).2.1.desc.toList = s.desc.toList ∧
    (readInfo (position a s.roff.toNat).1 sq).2.1.roff = s.roff ∧ (readInfo (position a s.roff.toNat).1 sq).2.1.hoff = s.hoff ∧
    (readInfo (position a s.roff.toNat).1 sq).2.1.doff = s.doff ∧ (readInfo (position a s.roff.toNat).1 sq).2.1.eoff = s.eoff ∧
    (readInfo (position a s.roff.toNat).1 sq).2.1.L = s.L ∧ s.L = (s.seq.size : Int) := by
  obtain ⟨p1, R, hi1, hfile1, hok, hrec⟩ := positioned_rec bytes abc habc s hs a hf hb hr hB hi hfmt heof sq hdig hsabc hseq hna hda
  obtain ⟨q1, q2, _, _⟩ := InfoSeqSpec.readInfo_spec _ sq R hsa
  rw [hi1, hfile1] at q1 q2
  obtain ⟨i1, _, i3, i4, i5, i6, i7, i8, i9, i10, _⟩ :=
    InfoSeqSpec.info_seq_agree_L (inmapFasta abc) bytes.size sq sq _ hseq rfl rfl hseq hok
  obtain ⟨m1, _⟩ := q2 i1
  have e := hrec
  simp only [toRecord, Record.mk.injEq] at e
  obtain ⟨e1, e2, e3, e4, e5, e6, e7, e8⟩ := e
  have hsz : (recL (inmapFasta abc) bytes.size sq (fileFrom (position a s.roff.toNat).1)).2.1.seq.size = s.seq.size := by
    rw [← Array.length_toList, e3, Array.length_toList]
  refine ⟨p1, by rw [q1]; exact i1, ?_, ?_, ?_, ?_, ?_, ?_, ?_, ?_⟩
  · rw [m1, i3]; exact e1
  · rw [m1, i4]; exact e2
  · rw [m1, i5]; exact e4
  · rw [m1, i6]; exact e5
  · rw [m1, i7]; exact e6
  · rw [m1, i8]; exact e7
  · rw [m1, i9]; exact e8
  · rw [← e8, ← i9, i10, hsz]

end EaselModel.Sqio.FetchWhole
