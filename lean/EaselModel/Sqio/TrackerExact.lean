import EaselModel.Sqio.Tracker
/-! # The EXACT predicate the bytes/residues-per-line tracker of `seebuf` guarantees (C04 / C07)

`Tracker.checked_lines_have_rpl` is one direction for one line. Here the tracker's final value is put in closed form for every
scan (`run_rpl_closed` / `run_bpl_closed`), and from it an `iff`:

after a scan of whole records, `rpl = p > 0` **iff** the list of *consecutive line pairs* `(rₖ, rₖ₊₁)` (two terminated lines of
the same record, in file order) is non-empty, every pair's first component is `p`, and every pair but the very first one has
second component `≤ p`.

In words: every non-final line of every record has exactly `p` residues; the final line of a record with ≥ 2 lines has at
most `p`, EXCEPT the second line of the first multi-line record of the scan when it is that record's last (the line at which
`rpl` is initialised is never compared); the single line of a one-line record is never looked at. These two exceptions, and
only these, are the known finding "accepts a longer last line". -/
namespace EaselModel.Sqio.TrackerExact
open EaselModel.Sqio EaselModel.Sqio.Tracker

/-! ## one channel (`rpl` or `bpl`) of the tracker -/

/-- one counting channel of the tracker: (`pl`, `prv`, `cur`) = (`rpl`,`prvrpl`,`currpl`) or (`bpl`,`prvbpl`,`curbpl`) -/
structure Chan where
  pl : Int
  prv : Int
  cur : Int
  deriving Repr, DecidableEq

def Chan.onEol (c : Chan) (d : Int) : Chan :=
  let cur := if c.cur ≠ -1 then c.cur + d else c.cur
  { pl := if c.pl ≠ 0 ∧ c.prv ≠ -1 then
            (if c.pl = -1 then c.prv else if c.prv ≠ c.pl then 0 else if cur > c.pl then 0 else c.pl)
          else c.pl,
    prv := cur, cur := 0 }

def Chan.hdr (c : Chan) : Chan := { c with prv := -1, cur := 0 }

def rchan (t : Track) : Chan := ⟨t.rpl, t.prvrpl, t.currpl⟩
def bchan (t : Track) : Chan := ⟨t.bpl, t.prvbpl, t.curbpl⟩

theorem rchan_onEol (t : Track) (b r : Int) : rchan (t.onEol b r) = (rchan t).onEol r := by
  simp only [rchan, Chan.onEol, Chan.mk.injEq]
  refine ⟨?_, ?_, ?_⟩
  · rw [onEol_rpl]; congr
  · rw [onEol_prvrpl]; congr
  · rw [onEol_currpl]

theorem onEol_prvbpl (t : Track) (b r : Int) :
    (t.onEol b r).prvbpl = if t.curbpl ≠ -1 then t.curbpl + b else t.curbpl := by
  simp [Track.onEol]

theorem onEol_curbpl (t : Track) (b r : Int) : (t.onEol b r).curbpl = 0 := by simp [Track.onEol]

theorem bchan_onEol (t : Track) (b r : Int) : bchan (t.onEol b r) = (bchan t).onEol b := by
  simp only [bchan, Chan.onEol, Chan.mk.injEq]
  refine ⟨?_, ?_, ?_⟩
  · rw [onEol_bpl]; congr
  · rw [onEol_prvbpl]; congr
  · rw [onEol_curbpl]

theorem rchan_hdr (t : Track) : rchan (step t .hdr) = (rchan t).hdr := rfl
theorem bchan_hdr (t : Track) : bchan (step t .hdr) = (bchan t).hdr := rfl

/-! ## the closed form: a fold over consecutive line pairs -/

/-- what one pair of consecutive lines (`a` then `b`) does to the per-line value -/
def upd (pl : Int) (q : Int × Int) : Int :=
  if pl = 0 then 0 else if pl = -1 then q.1 else if q.1 ≠ pl then 0 else if q.2 > pl then 0 else pl

def feed (pl : Int) (ps : List (Int × Int)) : Int := ps.foldl upd pl

/-- consecutive pairs of one record's per-line counts -/
def pairsOf (ds : List Int) : List (Int × Int) := ds.zip ds.tail

/-- the rest of a record, the previous line (`prv = q ≥ 0`) already seen -/
theorem lines_closed (ds : List Int) (c : Chan) (q : Int) (hcur : c.cur = 0) (hprv : c.prv = q) (hq : 0 ≤ q)
    (hds : ∀ d ∈ ds, 0 ≤ d) :
    (ds.foldl Chan.onEol c).pl = feed c.pl (pairsOf (q :: ds)) ∧ (ds.foldl Chan.onEol c).cur = 0 := by
  induction ds generalizing c q with
  | nil => exact ⟨rfl, hcur⟩
  | cons d rest ih =>
    have hd : 0 ≤ d := hds d (by simp)
    have h1 : (c.onEol d).cur = 0 := rfl
    have h2 : (c.onEol d).prv = d := by simp [Chan.onEol, hcur]
    have h3 : (c.onEol d).pl = upd c.pl (q, d) := by
      simp only [Chan.onEol, upd, hcur, hprv]
      by_cases hz : c.pl = 0
      · simp [hz]
      · have : q ≠ -1 := by omega
        simp [hz, this]
    have := ih (c.onEol d) d h1 h2 hd (fun x hx => hds x (by simp [hx]))
    rw [List.foldl_cons, this.1, h3]
    exact ⟨by simp [pairsOf, feed], this.2⟩

/-- one whole record: header, then its terminated lines -/
theorem record_closed (ds : List Int) (c : Chan) (hds : ∀ d ∈ ds, 0 ≤ d) :
    (ds.foldl Chan.onEol c.hdr).pl = feed c.pl (pairsOf ds) ∧ (ds.foldl Chan.onEol c.hdr).cur = 0 := by
  cases ds with
  | nil => exact ⟨rfl, rfl⟩
  | cons d rest =>
    have hd : 0 ≤ d := hds d (by simp)
    have h1 : (c.hdr.onEol d).cur = 0 := rfl
    have h2 : (c.hdr.onEol d).prv = d := by simp [Chan.onEol, Chan.hdr]
    have h3 : (c.hdr.onEol d).pl = c.pl := by simp [Chan.onEol, Chan.hdr]
    have := lines_closed rest (c.hdr.onEol d) d h1 h2 hd (fun x hx => hds x (by simp [hx]))
    rw [List.foldl_cons, this.1, h3]
    exact ⟨rfl, this.2⟩

/-- all consecutive pairs of a file, in file order -/
def allPairs (recs : List (List Int)) : List (Int × Int) := recs.flatMap pairsOf

theorem feed_append (pl : Int) (a b : List (Int × Int)) : feed pl (a ++ b) = feed (feed pl a) b := by
  simp [feed, List.foldl_append]

/-- a file = records; each record = header event + one end-of-line event per terminated line -/
def runChan (c : Chan) (recs : List (List Int)) : Chan :=
  recs.foldl (fun c ds => ds.foldl Chan.onEol c.hdr) c

theorem file_closed (recs : List (List Int)) (c : Chan) (h : ∀ ds ∈ recs, ∀ d ∈ ds, 0 ≤ d) :
    (runChan c recs).pl = feed c.pl (allPairs recs) := by
  induction recs generalizing c with
  | nil => rfl
  | cons ds rest ih =>
    have h1 := record_closed ds c (h ds (by simp))
    have := ih (ds.foldl Chan.onEol c.hdr) (fun x hx => h x (by simp [hx]))
    simp only [runChan, List.foldl_cons] at this ⊢
    rw [this, h1.1]
    show _ = feed c.pl (pairsOf ds ++ allPairs rest)
    rw [feed_append]

/-! ## link with `Tracker.run` / `Tracker.events` -/

theorem run_lines_rchan (lines : List (Int × Int)) (t : Track) :
    rchan (run t (lines.map fun ln => Ev.eol ln.1 ln.2)) = (lines.map Prod.snd).foldl Chan.onEol (rchan t) := by
  induction lines generalizing t with
  | nil => rfl
  | cons ln rest ih =>
    simp only [List.map_cons, run, List.foldl_cons] at ih ⊢
    rw [ih]; congr 1; exact rchan_onEol t ln.1 ln.2

theorem run_lines_bchan (lines : List (Int × Int)) (t : Track) :
    bchan (run t (lines.map fun ln => Ev.eol ln.1 ln.2)) = (lines.map Prod.fst).foldl Chan.onEol (bchan t) := by
  induction lines generalizing t with
  | nil => rfl
  | cons ln rest ih =>
    simp only [List.map_cons, run, List.foldl_cons] at ih ⊢
    rw [ih]; congr 1; exact bchan_onEol t ln.1 ln.2

theorem run_events_rchan (recs : List (List (Int × Int))) (t : Track) :
    rchan (run t (events recs)) = runChan (rchan t) (recs.map (·.map Prod.snd)) := by
  induction recs generalizing t with
  | nil => rfl
  | cons ls rest ih =>
    have e : events (ls :: rest) = (Ev.hdr :: ls.map fun ln => Ev.eol ln.1 ln.2) ++ events rest := by
      simp [events]
    rw [e, run_append, ih]
    simp only [List.map_cons, runChan, List.foldl_cons]
    congr 1
    have : run t (Ev.hdr :: ls.map fun ln => Ev.eol ln.1 ln.2) = run (step t .hdr) (ls.map fun ln => Ev.eol ln.1 ln.2) := rfl
    rw [this, run_lines_rchan, rchan_hdr]

theorem run_events_bchan (recs : List (List (Int × Int))) (t : Track) :
    bchan (run t (events recs)) = runChan (bchan t) (recs.map (·.map Prod.fst)) := by
  induction recs generalizing t with
  | nil => rfl
  | cons ls rest ih =>
    have e : events (ls :: rest) = (Ev.hdr :: ls.map fun ln => Ev.eol ln.1 ln.2) ++ events rest := by
      simp [events]
    rw [e, run_append, ih]
    simp only [List.map_cons, runChan, List.foldl_cons]
    congr 1
    have : run t (Ev.hdr :: ls.map fun ln => Ev.eol ln.1 ln.2) = run (step t .hdr) (ls.map fun ln => Ev.eol ln.1 ln.2) := rfl
    rw [this, run_lines_bchan, bchan_hdr]

/-- **closed form of `rpl`** after any scan of whole records, from any tracker state -/
theorem run_rpl_closed (recs : List (List (Int × Int))) (t : Track) (h : ∀ ls ∈ recs, ∀ l ∈ ls, 0 ≤ l.2) :
    (run t (events recs)).rpl = feed t.rpl (allPairs (recs.map (·.map Prod.snd))) := by
  have := congrArg Chan.pl (run_events_rchan recs t)
  rw [file_closed] at this
  · exact this
  · intro ds hds d hd
    obtain ⟨ls, hls, rfl⟩ := List.mem_map.mp hds
    obtain ⟨l, hl, rfl⟩ := List.mem_map.mp hd
    exact h ls hls l hl

/-- **closed form of `bpl`** -/
theorem run_bpl_closed (recs : List (List (Int × Int))) (t : Track) (h : ∀ ls ∈ recs, ∀ l ∈ ls, 0 ≤ l.1) :
    (run t (events recs)).bpl = feed t.bpl (allPairs (recs.map (·.map Prod.fst))) := by
  have := congrArg Chan.pl (run_events_bchan recs t)
  rw [file_closed] at this
  · exact this
  · intro ds hds d hd
    obtain ⟨ls, hls, rfl⟩ := List.mem_map.mp hds
    obtain ⟨l, hl, rfl⟩ := List.mem_map.mp hd
    exact h ls hls l hl

/-! ## the predicate -/

theorem feed_zero (ps : List (Int × Int)) : feed 0 ps = 0 := by
  induction ps with
  | nil => rfl
  | cons q rest ih => simpa [feed, upd] using ih

/-- once set to `p > 0`, the value survives exactly the pairs `(p, ≤ p)` -/
theorem feed_pos_iff (ps : List (Int × Int)) (a p : Int) (ha : a ≠ -1) (hp : 0 < p) :
    feed a ps = p ↔ a = p ∧ ∀ q ∈ ps, q.1 = p ∧ q.2 ≤ p := by
  induction ps generalizing a with
  | nil => simp [feed]
  | cons q rest ih =>
    have e : feed a (q :: rest) = feed (upd a q) rest := rfl
    rw [e]
    by_cases hz : a = 0
    · subst hz
      have : upd 0 q = 0 := by simp [upd]
      rw [this, feed_zero]; constructor
      · intro h; omega
      · intro h; omega
    · by_cases h1 : q.1 ≠ a
      · have : upd a q = 0 := by simp [upd, hz, ha, h1]
        rw [this, feed_zero]; constructor
        · intro h; omega
        · rintro ⟨rfl, h⟩; exact absurd (h q (by simp)).1 h1
      · have h1' : q.1 = a := by omega
        by_cases h2 : q.2 > a
        · have : upd a q = 0 := by simp [upd, hz, ha, h1', h2]
          rw [this, feed_zero]; constructor
          · intro h; omega
          · rintro ⟨rfl, h⟩; have := (h q (by simp)).2; omega
        · have : upd a q = a := by simp [upd, hz, ha, h1', h2]
          rw [this, ih a ha]; constructor
          · rintro ⟨rfl, h⟩
            refine ⟨rfl, fun x hx => ?_⟩
            rcases List.mem_cons.mp hx with rfl | hx
            · exact ⟨h1', by omega⟩
            · exact h x hx
          · rintro ⟨rfl, h⟩; exact ⟨rfl, fun x hx => h x (by simp [hx])⟩

/-- **The exact guarantee**, on pairs: starting unset (`−1`), the final value is `p > 0` iff there is at least one pair, the first
    pair's first line has `p`, and every later pair is `(p, ≤ p)`. The first pair's second line is NOT constrained. -/
theorem feed_unset_iff (ps : List (Int × Int)) (p : Int) (hp : 0 < p) (hnn : ∀ q ∈ ps, 0 ≤ q.1) :
    feed (-1) ps = p ↔ ∃ q rest, ps = q :: rest ∧ q.1 = p ∧ ∀ x ∈ rest, x.1 = p ∧ x.2 ≤ p := by
  cases ps with
  | nil => simp [feed]; omega
  | cons q rest =>
    have e : feed (-1) (q :: rest) = feed q.1 rest := by simp [feed, upd]
    have hq := hnn q (by simp)
    rw [e, feed_pos_iff rest q.1 p (by omega) hp]
    constructor
    · rintro ⟨h1, h2⟩; exact ⟨q, rest, rfl, h1, h2⟩
    · rintro ⟨q', rest', h0, h1, h2⟩
      obtain ⟨rfl, rfl⟩ := List.cons.inj h0
      exact ⟨h1, h2⟩

theorem feed_unset_eq_unset (ps : List (Int × Int)) (hnn : ∀ q ∈ ps, 0 ≤ q.1) : feed (-1) ps = -1 ↔ ps = [] := by
  cases ps with
  | nil => simp [feed]
  | cons q rest =>
    have e : feed (-1) (q :: rest) = feed q.1 rest := by simp [feed, upd]
    have hq := hnn q (by simp)
    simp only [e, reduceCtorEq, iff_false]
    intro h
    -- a value ≥ 0 never becomes −1 again
    have key : ∀ (ps : List (Int × Int)) (a : Int), 0 ≤ a → 0 ≤ feed a ps := by
      intro ps
      induction ps with
      | nil => intro a ha; exact ha
      | cons x xs ih =>
        intro a ha
        have : feed a (x :: xs) = feed (upd a x) xs := rfl
        rw [this]; apply ih
        simp only [upd]; repeat' split
        all_goals omega
    have := key rest q.1 hq
    omega

/-! ## from pairs to lines -/

theorem pairsOf_fst (ds : List Int) : (pairsOf ds).map Prod.fst = ds.dropLast := by
  induction ds with
  | nil => rfl
  | cons d rest ih =>
    cases rest with
    | nil => rfl
    | cons e rest' =>
      have : pairsOf (d :: e :: rest') = (d, e) :: pairsOf (e :: rest') := rfl
      rw [this, List.map_cons, ih]; rfl

theorem pairsOf_snd (ds : List Int) : (pairsOf ds).map Prod.snd = ds.tail := by
  induction ds with
  | nil => rfl
  | cons d rest ih =>
    cases rest with
    | nil => rfl
    | cons e rest' =>
      have : pairsOf (d :: e :: rest') = (d, e) :: pairsOf (e :: rest') := rfl
      rw [this, List.map_cons, ih]; rfl

theorem pairsOf_nonneg (ds : List Int) (h : ∀ d ∈ ds, 0 ≤ d) : ∀ q ∈ pairsOf ds, 0 ≤ q.1 := by
  intro q hq
  have : q.1 ∈ (pairsOf ds).map Prod.fst := List.mem_map.mpr ⟨q, hq, rfl⟩
  rw [pairsOf_fst] at this
  exact h _ ((List.dropLast_sublist ds).subset this)

theorem allPairs_nonneg (recs : List (List Int)) (h : ∀ ds ∈ recs, ∀ d ∈ ds, 0 ≤ d) : ∀ q ∈ allPairs recs, 0 ≤ q.1 := by
  intro q hq
  obtain ⟨ds, hds, hq⟩ := List.mem_flatMap.mp hq
  exact pairsOf_nonneg ds (h ds hds) q hq

/-- every pair has first component `p` ⇔ every non-final line of every record has `p` -/
theorem allPairs_fst_iff (recs : List (List Int)) (p : Int) :
    (∀ q ∈ allPairs recs, q.1 = p) ↔ ∀ ds ∈ recs, ∀ d ∈ ds.dropLast, d = p := by
  constructor
  · intro h ds hds d hd
    rw [← pairsOf_fst] at hd
    obtain ⟨q, hq, rfl⟩ := List.mem_map.mp hd
    exact h q (List.mem_flatMap.mpr ⟨ds, hds, hq⟩)
  · intro h q hq
    obtain ⟨ds, hds, hq⟩ := List.mem_flatMap.mp hq
    exact h ds hds q.1 (by rw [← pairsOf_fst]; exact List.mem_map.mpr ⟨q, hq, rfl⟩)

theorem allPairs_append (a b : List (List Int)) : allPairs (a ++ b) = allPairs a ++ allPairs b := by
  simp [allPairs]

/-- the last line of a record with at least two lines is the second component of one of its pairs -/
theorem last_mem_pairsOf_snd (ds : List Int) (h : 2 ≤ ds.length) (hne : ds ≠ []) :
    ∃ q ∈ pairsOf ds, q.2 = ds.getLast hne := by
  have ht : ds.tail ≠ [] := by
    cases ds with
    | nil => simp at h
    | cons d rest => cases rest with
      | nil => simp at h
      | cons e r => simp
  have hmem : ds.getLast hne ∈ ds.tail := by
    have : ds.getLast hne = ds.tail.getLast ht := by
      cases ds with
      | nil => simp at h
      | cons d rest => cases rest with
        | nil => simp at h
        | cons e r => simp [List.getLast_cons]
    rw [this]; exact List.getLast_mem ht
  rw [← pairsOf_snd] at hmem
  obtain ⟨q, hq, hq2⟩ := List.mem_map.mp hmem
  exact ⟨q, hq, hq2⟩

/-- **Last lines.** If the final value is `p > 0`, a record with ≥ 2 terminated lines that comes after some other record with ≥ 2
    terminated lines ends in a line of at most `p`. -/
theorem last_line_le (pre post : List (List Int)) (ds : List Int) (p : Int) (hp : 0 < p)
    (hnn : ∀ x ∈ pre ++ ds :: post, ∀ d ∈ x, 0 ≤ d)
    (hpre : ∃ x ∈ pre, 2 ≤ x.length) (h2 : 2 ≤ ds.length) (hne : ds ≠ [])
    (h : feed (-1) (allPairs (pre ++ ds :: post)) = p) : ds.getLast hne ≤ p := by
  obtain ⟨q0, rest, he, _, hrest⟩ := (feed_unset_iff _ p hp (allPairs_nonneg _ hnn)).mp h
  obtain ⟨q, hq, hq2⟩ := last_mem_pairsOf_snd ds h2 hne
  have e : allPairs (pre ++ ds :: post) = allPairs pre ++ (pairsOf ds ++ allPairs post) := by
    rw [allPairs_append]; rfl
  -- `allPairs pre` is non-empty, so the pairs of `ds` are all in `rest`
  obtain ⟨x, hx, hx2⟩ := hpre
  have hx' : pairsOf x ≠ [] := by
    cases x with
    | nil => simp at hx2
    | cons d r => cases r with
      | nil => simp at hx2
      | cons e r' => simp [pairsOf]
  have hpne : allPairs pre ≠ [] := by
    intro hnil
    have : ∀ y ∈ pre, pairsOf y = [] := by
      intro y hy
      have := List.flatMap_eq_nil_iff.mp hnil y hy
      exact this
    exact hx' (this x hx)
  obtain ⟨a, as, ha⟩ := List.exists_cons_of_ne_nil hpne
  rw [e, ha, List.cons_append] at he
  obtain ⟨_, rfl⟩ := List.cons.inj he
  have : q ∈ as ++ (pairsOf ds ++ allPairs post) := by simp [hq]
  have := (hrest q this).2
  omega

end EaselModel.Sqio.TrackerExact
