import EaselModel.Sqio.Model
/-! # The EXACT predicate `bpl, rpl > 0` guarantees after a scan (C04 / C07) — `seebuf_linegeometry()` as repaired by 283ccd7

A scan of whole records is, for the tracker, a sequence of records; a record is `header_*` (which resets `prv*` to −1 and `cur*`
to 0) followed by its data lines, each seen to its end: a terminated line by `Track.onEol b r` (`b` bytes inclusive of the
newline, `r` residues), the unterminated last line of a record (EOF or the next `>` without a newline) by `Track.onStop b r`.

`tracker_iff`: after such a scan from a fresh handle, `rpl = p > 0 ∧ bpl = w > 0` **iff**
* some line is followed by another line of its record,
* every line that is followed by another line of its record has exactly `w` bytes and `p` residues, and
* EVERY line — last, only, or unterminated line of a record included — has at most `p` residues and at most `w − p − 1` ignored
  bytes (blanks, `\r`; its newline not counted).
This is exactly the geometry the offset arithmetic of reverse `ReadWindow` / `FetchSubseq` needs (`Geometry.FullLines` for the
lines in front of `start`, and `start` really lies on line `(start−1)/p`). Only `Sqio/Model.lean` is imported. -/
namespace EaselModel.Sqio.TrackerExact
open EaselModel.Sqio

/-- a data line as the tracker has seen it when it is complete -/
structure Line where
  b : Int        -- bytes, the newline included when terminated
  r : Int        -- residues
  eol : Bool     -- terminated by a newline?
  deriving Repr, DecidableEq

/-- ignored bytes of a line (blanks, `\r`, digits in GenBank …), the newline not counted -/
def Line.x (l : Line) : Int := l.b - l.r - (if l.eol then 1 else 0)

/-- what a line of a real file satisfies -/
def Line.Ok (l : Line) : Prop := 1 ≤ l.b ∧ 0 ≤ l.r ∧ 0 ≤ l.x

/-- `header_fasta` (and the other header parsers): start the line bookkeeping of a new record -/
def hdr (t : Track) : Track := { t with prvrpl := -1, prvbpl := -1, currpl := 0, curbpl := 0 }

/-- one line seen to its end by `seebuf` -/
def line (t : Track) (l : Line) : Track := if l.eol then t.onEol l.b l.r else t.onStop l.b l.r

def runRec (t : Track) (rec : List Line) : Track := rec.foldl line (hdr t)
def runFile (t : Track) (recs : List (List Line)) : Track := recs.foldl runRec t

/-! ## the tracker as a fold of a pure step over (previous line of the record, line) -/

structure S4 where
  rpl : Int
  bpl : Int
  mr : Int
  mx : Int
  deriving Repr, DecidableEq

def core (t : Track) : S4 := ⟨t.rpl, t.bpl, t.maxrpl, t.maxxpl⟩

def fl (p w : Int) : Int := if w = -1 then p else if p ≠ w then 0 else w

def prevR (prev : Option Line) (w : Int) : Int := match prev with | none => w | some q => fl q.r w
def prevB (prev : Option Line) (w : Int) : Int := match prev with | none => w | some q => fl q.b w

def g (s : S4) (st : Option Line × Line) : S4 :=
  let mr := if st.2.r > s.mr then st.2.r else s.mr
  let mx := if st.2.x > s.mx then st.2.x else s.mx
  let R := prevR st.1 s.rpl
  let B := prevB st.1 s.bpl
  if R > 0 ∧ B > 0 ∧ (mr > R ∨ mx > B - R - 1) then ⟨0, 0, mr, mx⟩ else ⟨R, B, mr, mx⟩

def stepsFrom : Option Line → List Line → List (Option Line × Line)
  | _, [] => []
  | prev, l :: rest => (prev, l) :: stepsFrom (some l) rest

/-- the tracker's `prv*` fields encode the previous line of the record -/
def PrvIs (t : Track) : Option Line → Prop
  | none => t.prvrpl = -1 ∧ t.prvbpl = -1
  | some q => t.prvrpl = q.r ∧ t.prvbpl = q.b ∧ 0 ≤ q.r ∧ 0 ≤ q.b

theorem fullLine_r (t : Track) (prev : Option Line) (hp : PrvIs t prev) :
    Track.fullLine t.prvrpl t.prvbpl t.rpl = prevR prev t.rpl := by
  cases prev with
  | none => obtain ⟨p1, p2⟩ := hp; simp [Track.fullLine, p1, prevR]
  | some q =>
    obtain ⟨p1, p2, p3, p4⟩ := hp
    have hq1 : q.r ≠ -1 := by omega
    have hq2 : q.b ≠ -1 := by omega
    simp [Track.fullLine, fl, p1, p2, hq1, hq2, prevR]

theorem fullLine_b (t : Track) (prev : Option Line) (hp : PrvIs t prev) :
    Track.fullLine t.prvbpl t.prvrpl t.bpl = prevB prev t.bpl := by
  cases prev with
  | none => obtain ⟨p1, p2⟩ := hp; simp [Track.fullLine, p2, prevB]
  | some q =>
    obtain ⟨p1, p2, p3, p4⟩ := hp
    have hq1 : q.r ≠ -1 := by omega
    have hq2 : q.b ≠ -1 := by omega
    simp [Track.fullLine, fl, p1, p2, hq1, hq2, prevB]

theorem lg_keep (t : Track) (e : Bool) :
    (t.lineGeometry e).curbpl = t.curbpl ∧ (t.lineGeometry e).currpl = t.currpl ∧
    (t.lineGeometry e).prvrpl = t.prvrpl ∧ (t.lineGeometry e).prvbpl = t.prvbpl := by
  unfold Track.lineGeometry
  split
  · exact ⟨rfl, rfl, rfl, rfl⟩
  · simp only []
    repeat' split
    all_goals exact ⟨rfl, rfl, rfl, rfl⟩

/-- `seebuf_linegeometry()` on a complete line -/
theorem lg_core (t : Track) (l : Line) (prev : Option Line) (hb : t.curbpl = l.b) (hr : t.currpl = l.r) (hp : PrvIs t prev)
    (hl : l.Ok) :
    core (t.lineGeometry l.eol) = g (core t) (prev, l) := by
  obtain ⟨h1, h2, h3⟩ := hl
  have hx : t.curbpl - t.currpl - (if l.eol = true then 1 else 0) = l.x := by rw [hb, hr]; rfl
  have hg : ¬ (t.curbpl ≤ 0 ∨ t.currpl = -1) := by omega
  have eR := fullLine_r t prev hp
  have eB := fullLine_b t prev hp
  unfold Track.lineGeometry
  rw [if_neg hg]
  simp only [hx, eR, eB]
  simp only [hr]
  rw [apply_ite core]
  rfl

theorem core_line (t : Track) (l : Line) (prev : Option Line) (hb : t.curbpl = 0) (hr : t.currpl = 0) (hp : PrvIs t prev)
    (hl : l.Ok) :
    core (line t l) = g (core t) (prev, l) ∧
    (l.eol = true → (line t l).curbpl = 0 ∧ (line t l).currpl = 0 ∧ (line t l).prvrpl = l.r ∧ (line t l).prvbpl = l.b) := by
  have a1 : (t.advance l.b l.r).curbpl = l.b := by simp [Track.advance, hb]
  have a2 : (t.advance l.b l.r).currpl = l.r := by simp [Track.advance, hr]
  have a3 : core (t.advance l.b l.r) = core t := rfl
  have a4 : PrvIs (t.advance l.b l.r) prev := by cases prev <;> exact hp
  have c1 := lg_core (t.advance l.b l.r) l prev a1 a2 a4 hl
  rw [a3] at c1
  obtain ⟨c2, c3, c4, c5⟩ := lg_keep (t.advance l.b l.r) l.eol
  rw [a1] at c2
  rw [a2] at c3
  cases he : l.eol
  · rw [he] at c1
    exact ⟨by simpa [line, he, Track.onStop] using c1, by simp⟩
  · rw [he] at c1 c2 c3
    refine ⟨?_, fun _ => ?_⟩
    · have : core (line t l) = core ((t.advance l.b l.r).lineGeometry true) := by simp [line, he, Track.onEol, core]
      rw [this, c1]
    · simp [line, he, Track.onEol, c2, c3]

/-! ## a scan = a fold of `g` over the steps of the file -/

theorem dropLast_mem_cons {α : Type} (a b : α) (l : List α) (x : α) (h : x ∈ (b :: l).dropLast) : x ∈ (a :: b :: l).dropLast := by
  show x ∈ a :: (b :: l).dropLast
  exact List.mem_cons_of_mem a h

theorem lines_fold (ls : List Line) (t : Track) (prev : Option Line) (hb : t.curbpl = 0) (hr : t.currpl = 0) (hp : PrvIs t prev)
    (hok : ∀ l ∈ ls, l.Ok) (hterm : ∀ l ∈ ls.dropLast, l.eol = true) :
    core (ls.foldl line t) = (stepsFrom prev ls).foldl g (core t) := by
  induction ls generalizing t prev with
  | nil => rfl
  | cons l rest ih =>
    have hl := hok l (by simp)
    obtain ⟨c1, c2⟩ := core_line t l prev hb hr hp hl
    cases rest with
    | nil => simp [stepsFrom, c1]
    | cons l2 rest2 =>
      have he : l.eol = true := hterm l (by show l ∈ l :: (l2 :: rest2).dropLast; simp)
      obtain ⟨d1, d2, d3, d4⟩ := c2 he
      have hp' : PrvIs (line t l) (some l) := ⟨d3, d4, hl.2.1, by have := hl.1; omega⟩
      have := ih (line t l) (some l) d1 d2 hp' (fun x hx => hok x (by simp [hx]))
        (fun x hx => hterm x (dropLast_mem_cons l l2 rest2 x hx))
      rw [List.foldl_cons, this, c1]; rfl

def fileSteps (recs : List (List Line)) : List (Option Line × Line) := recs.flatMap (stepsFrom none)

theorem rec_fold (rec : List Line) (t : Track) (hok : ∀ l ∈ rec, l.Ok) (hterm : ∀ l ∈ rec.dropLast, l.eol = true) :
    core (runRec t rec) = (stepsFrom none rec).foldl g (core t) :=
  lines_fold rec (hdr t) none rfl rfl ⟨rfl, rfl⟩ hok hterm

theorem file_fold (recs : List (List Line)) (t : Track) (hok : ∀ rec ∈ recs, ∀ l ∈ rec, l.Ok)
    (hterm : ∀ rec ∈ recs, ∀ l ∈ rec.dropLast, l.eol = true) :
    core (runFile t recs) = (fileSteps recs).foldl g (core t) := by
  induction recs generalizing t with
  | nil => rfl
  | cons rec rest ih =>
    have := ih (runRec t rec) (fun r hr => hok r (by simp [hr])) (fun r hr => hterm r (by simp [hr]))
    simp only [runFile, List.foldl_cons] at this ⊢
    rw [this, rec_fold rec t (hok rec (by simp)) (hterm rec (by simp))]
    simp [fileSteps, List.foldl_append]

/-! ## the fold of `g`, characterised -/

def mr' (s : S4) (st : Option Line × Line) : Int := if st.2.r > s.mr then st.2.r else s.mr
def mx' (s : S4) (st : Option Line × Line) : Int := if st.2.x > s.mx then st.2.x else s.mx
def Dead (s : S4) (st : Option Line × Line) : Prop :=
  prevR st.1 s.rpl > 0 ∧ prevB st.1 s.bpl > 0 ∧
    (mr' s st > prevR st.1 s.rpl ∨ mx' s st > prevB st.1 s.bpl - prevR st.1 s.rpl - 1)

theorem g_dead (s : S4) (st : Option Line × Line) (h : Dead s st) : g s st = ⟨0, 0, mr' s st, mx' s st⟩ := by
  unfold g; exact if_pos h
theorem g_live (s : S4) (st : Option Line × Line) (h : ¬ Dead s st) :
    g s st = ⟨prevR st.1 s.rpl, prevB st.1 s.bpl, mr' s st, mx' s st⟩ := by
  unfold g; exact if_neg h

theorem g_mr (s : S4) (st : Option Line × Line) : (g s st).mr = mr' s st := by
  by_cases h : Dead s st
  · rw [g_dead s st h]
  · rw [g_live s st h]
theorem g_mx (s : S4) (st : Option Line × Line) : (g s st).mx = mx' s st := by
  by_cases h : Dead s st
  · rw [g_dead s st h]
  · rw [g_live s st h]

theorem fold_max_ge (S : List (Option Line × Line)) (s : S4) :
    (s.mr ≤ (S.foldl g s).mr ∧ s.mx ≤ (S.foldl g s).mx) ∧
    ∀ st ∈ S, st.2.r ≤ (S.foldl g s).mr ∧ st.2.x ≤ (S.foldl g s).mx := by
  induction S generalizing s with
  | nil => exact ⟨⟨Int.le_refl _, Int.le_refl _⟩, fun _ h => by simp at h⟩
  | cons st rest ih =>
    obtain ⟨⟨i1, i2⟩, i3⟩ := ih (g s st)
    rw [g_mr] at i1; rw [g_mx] at i2
    have e1 : s.mr ≤ mr' s st ∧ st.2.r ≤ mr' s st := by unfold mr'; split <;> omega
    have e2 : s.mx ≤ mx' s st ∧ st.2.x ≤ mx' s st := by unfold mx'; split <;> omega
    refine ⟨⟨by rw [List.foldl_cons]; omega, by rw [List.foldl_cons]; omega⟩, fun x hx => ?_⟩
    rw [List.foldl_cons]
    rcases List.mem_cons.mp hx with rfl | hx
    · exact ⟨by omega, by omega⟩
    · exact i3 x hx

def Good (s : S4) (p w : Int) : Prop := s.rpl = p ∧ s.bpl = w
def Unset (s : S4) : Prop := s.rpl = -1 ∧ s.bpl = -1
/-- the two widths are initialised together -/
def Paired (s : S4) : Prop := s.rpl = -1 ↔ s.bpl = -1
def StepOk (st : Option Line × Line) : Prop := ∀ q, st.1 = some q → 0 ≤ q.r ∧ 0 ≤ q.b

theorem fl_eq_pos (p w v : Int) (hv : 0 < v) (hp : 0 ≤ p) : fl p w = v ↔ (w = -1 ∧ p = v) ∨ (w = v ∧ p = v) := by
  unfold fl; split
  · omega
  · split <;> omega

theorem fl_ne_unset (p w : Int) (hp : 0 ≤ p) : fl p w ≠ -1 := by
  unfold fl; split
  · omega
  · split <;> omega

theorem g_paired (s : S4) (st : Option Line × Line) (hs : StepOk st) (h : Paired s) : Paired (g s st) := by
  by_cases hd : Dead s st
  · rw [g_dead s st hd]; simp [Paired]
  · rw [g_live s st hd]
    cases hq : st.1 with
    | none => simpa [Paired, prevR, prevB] using h
    | some q =>
      have := hs q hq
      have a := fl_ne_unset q.r s.rpl this.1
      have b := fl_ne_unset q.b s.bpl this.2
      simp [Paired, prevR, prevB, a, b]

theorem step_back_unset (s : S4) (st : Option Line × Line) (hs : StepOk st) (h : Unset (g s st)) : Unset s ∧ st.1 = none := by
  by_cases hd : Dead s st
  · rw [g_dead s st hd] at h; simp [Unset] at h
  · rw [g_live s st hd] at h
    cases hq : st.1 with
    | none => rw [hq] at h; exact ⟨by simpa [Unset, prevR, prevB] using h, rfl⟩
    | some q =>
      rw [hq] at h
      exact absurd h.1 (fl_ne_unset q.r s.rpl (hs q hq).1)

theorem step_back_good (s : S4) (st : Option Line × Line) (hs : StepOk st) (hP : Paired s) (p w : Int) (hp : 0 < p) (hw : 0 < w)
    (h : Good (g s st) p w) :
    ((st.1 = none ∧ Good s p w) ∨ (∃ q, st.1 = some q ∧ q.b = w ∧ q.r = p ∧ (Unset s ∨ Good s p w))) ∧
    mr' s st ≤ p ∧ mx' s st ≤ w - p - 1 := by
  by_cases hd : Dead s st
  · rw [g_dead s st hd] at h; obtain ⟨h1, _⟩ := h; simp at h1; omega
  · rw [g_live s st hd] at h
    obtain ⟨h1, h2⟩ := h
    simp only at h1 h2
    have hb : mr' s st ≤ p ∧ mx' s st ≤ w - p - 1 := by
      unfold Dead at hd; rw [h1, h2] at hd
      constructor
      · apply Int.not_lt.mp; intro hc; exact hd ⟨hp, hw, Or.inl hc⟩
      · apply Int.not_lt.mp; intro hc; exact hd ⟨hp, hw, Or.inr hc⟩
    refine ⟨?_, hb⟩
    cases hq : st.1 with
    | none => rw [hq] at h1 h2; exact Or.inl ⟨rfl, h1, h2⟩
    | some q =>
      rw [hq] at h1 h2
      have hq' := hs q hq
      have a := (fl_eq_pos q.r s.rpl p hp hq'.1).mp h1
      have b := (fl_eq_pos q.b s.bpl w hw hq'.2).mp h2
      refine Or.inr ⟨q, rfl, ?_, ?_, ?_⟩
      · rcases b with b | b <;> exact b.2
      · rcases a with a | a <;> exact a.2
      · rcases a with a | a
        · exact Or.inl ⟨a.1, hP.mp a.1⟩
        · rcases b with b | b
          · have := hP.mpr b.1; omega
          · exact Or.inr ⟨a.1, b.1⟩

/-- necessity: from a final `rpl = p > 0, bpl = w > 0` back to the lines -/
theorem fold_good_nec (S : List (Option Line × Line)) (hS : ∀ st ∈ S, StepOk st) (s : S4) (hP : Paired s) (p w : Int)
    (hp : 0 < p) (hw : 0 < w) (h : Good (S.foldl g s) p w) :
    ((Unset s ∧ ∃ st ∈ S, ∃ q, st.1 = some q) ∨ Good s p w) ∧ ∀ st ∈ S, ∀ q, st.1 = some q → q.b = w ∧ q.r = p := by
  induction S generalizing s with
  | nil => exact ⟨Or.inr h, fun _ hx => by simp at hx⟩
  | cons st rest ih =>
    have hst := hS st (by simp)
    obtain ⟨i1, i2⟩ := ih (fun x hx => hS x (by simp [hx])) (g s st) (g_paired s st hst hP) h
    rcases i1 with ⟨u, x, hx, q, hq⟩ | gd
    · obtain ⟨u1, u2⟩ := step_back_unset s st hst u
      refine ⟨Or.inl ⟨u1, x, by simp [hx], q, hq⟩, fun y hy q' hq' => ?_⟩
      rcases List.mem_cons.mp hy with rfl | hy
      · rw [u2] at hq'; cases hq'
      · exact i2 y hy q' hq'
    · obtain ⟨b, _⟩ := step_back_good s st hst hP p w hp hw gd
      rcases b with ⟨b1, b2⟩ | ⟨q, b1, b2, b3, b4⟩
      · refine ⟨Or.inr b2, fun y hy q' hq' => ?_⟩
        rcases List.mem_cons.mp hy with rfl | hy
        · rw [b1] at hq'; cases hq'
        · exact i2 y hy q' hq'
      · refine ⟨?_, fun y hy q' hq' => ?_⟩
        · rcases b4 with b4 | b4
          · exact Or.inl ⟨b4, st, by simp, q, b1⟩
          · exact Or.inr b4
        · rcases List.mem_cons.mp hy with rfl | hy
          · rw [b1] at hq'; cases hq'; exact ⟨b2, b3⟩
          · exact i2 y hy q' hq'

/-- the bounds are tested at the last step of the scan, with the maxima over ALL lines -/
theorem fold_good_bounds (S : List (Option Line × Line)) (hS : ∀ st ∈ S, StepOk st) (s : S4) (hP : Paired s) (hne : S ≠ [])
    (p w : Int) (hp : 0 < p) (hw : 0 < w) (h : Good (S.foldl g s) p w) :
    (S.foldl g s).mr ≤ p ∧ (S.foldl g s).mx ≤ w - p - 1 := by
  induction S generalizing s with
  | nil => exact absurd rfl hne
  | cons st rest ih =>
    have hst := hS st (by simp)
    cases rest with
    | nil =>
      have := (step_back_good s st hst hP p w hp hw h).2
      show (g s st).mr ≤ p ∧ (g s st).mx ≤ w - p - 1
      rw [g_mr, g_mx]; exact this
    | cons st2 rest2 =>
      exact ih (fun x hx => hS x (by simp [hx])) (g s st) (g_paired s st hst hP) (by simp) h

/-- sufficiency -/
theorem fold_good_suf (S : List (Option Line × Line)) (s : S4) (p w : Int) (hp : 0 < p) (hw : 0 < w)
    (hinit : (Unset s ∧ ∃ st ∈ S, ∃ q, st.1 = some q) ∨ Good s p w)
    (hprev : ∀ st ∈ S, ∀ q, st.1 = some q → q.b = w ∧ q.r = p)
    (hmr : s.mr ≤ p) (hmx : s.mx ≤ w - p - 1) (hall : ∀ st ∈ S, st.2.r ≤ p ∧ st.2.x ≤ w - p - 1) :
    Good (S.foldl g s) p w := by
  induction S generalizing s with
  | nil =>
    rcases hinit with ⟨_, x, hx, _⟩ | h
    · simp at hx
    · exact h
  | cons st rest ih =>
    have ha := hall st (by simp)
    have e1 : mr' s st ≤ p := by unfold mr'; split <;> omega
    have e2 : mx' s st ≤ w - p - 1 := by unfold mx'; split <;> omega
    rw [List.foldl_cons]
    apply ih (g s st) _ (fun x hx => hprev x (by simp [hx])) (by rw [g_mr]; exact e1) (by rw [g_mx]; exact e2)
      (fun x hx => hall x (by simp [hx]))
    cases hq : st.1 with
    | none =>
      rcases hinit with ⟨u, x, hx, q, hxq⟩ | gd
      · have hd : ¬ Dead s st := by
          unfold Dead; rw [hq]; simp only [prevR]; have := u.1; omega
        rw [g_live s st hd, hq]
        refine Or.inl ⟨by simpa [Unset, prevR, prevB] using u, x, ?_, q, hxq⟩
        rcases List.mem_cons.mp hx with rfl | hx
        · rw [hq] at hxq; cases hxq
        · exact hx
      · have hd : ¬ Dead s st := by
          unfold Dead; rw [hq]; simp only [prevR, prevB]; have := gd.1; have := gd.2; omega
        rw [g_live s st hd, hq]
        exact Or.inr (by simpa [Good, prevR, prevB] using gd)
    | some q =>
      obtain ⟨q1, q2⟩ := hprev st (by simp) q hq
      have hR : prevR st.1 s.rpl = p := by
        rw [hq]; simp only [prevR, fl, q2]
        rcases hinit with ⟨u, _⟩ | gd
        · simp [u.1]
        · rw [gd.1]; split
          · rfl
          · simp
      have hB : prevB st.1 s.bpl = w := by
        rw [hq]; simp only [prevB, fl, q1]
        rcases hinit with ⟨u, _⟩ | gd
        · simp [u.2]
        · rw [gd.2]; split
          · rfl
          · simp
      have hd : ¬ Dead s st := by
        unfold Dead; rw [hR, hB]; omega
      rw [g_live s st hd, hR, hB]
      exact Or.inr ⟨rfl, rfl⟩

/-! ## from steps back to lines -/

theorem stepsFrom_snd (ls : List Line) (prev : Option Line) : (stepsFrom prev ls).map Prod.snd = ls := by
  induction ls generalizing prev with
  | nil => rfl
  | cons l rest ih => simp [stepsFrom, ih]

theorem stepsFrom_prev_mem (ls : List Line) (prev : Option Line) (st : Option Line × Line) (q : Line)
    (h : st ∈ stepsFrom prev ls) (hq : st.1 = some q) : prev = some q ∨ q ∈ ls.dropLast := by
  induction ls generalizing prev with
  | nil => simp [stepsFrom] at h
  | cons l rest ih =>
    rcases List.mem_cons.mp h with rfl | h
    · exact Or.inl hq
    · right
      cases rest with
      | nil => simp [stepsFrom] at h
      | cons l2 rest2 =>
        show q ∈ l :: (l2 :: rest2).dropLast
        rcases ih (some l) h with e | e
        · cases e; simp
        · exact List.mem_cons_of_mem l e

theorem stepsFrom_prev_exists (ls : List Line) (prev : Option Line) (q : Line) (h : q ∈ ls.dropLast) :
    ∃ st ∈ stepsFrom prev ls, st.1 = some q := by
  induction ls generalizing prev with
  | nil => simp at h
  | cons l rest ih =>
    cases rest with
    | nil => simp at h
    | cons l2 rest2 =>
      have h' : q ∈ l :: (l2 :: rest2).dropLast := h
      rcases List.mem_cons.mp h' with rfl | h'
      · exact ⟨(some q, l2), by simp [stepsFrom], rfl⟩
      · obtain ⟨st, hst, e⟩ := ih (some l) h'
        exact ⟨st, by simp only [stepsFrom] at hst ⊢; exact List.mem_cons_of_mem _ hst, e⟩

theorem stepsFrom_ok (ls : List Line) (hok : ∀ l ∈ ls, l.Ok) : ∀ st ∈ stepsFrom none ls, StepOk st := by
  intro st hst q hq
  rcases stepsFrom_prev_mem ls none st q hst hq with e | e
  · cases e
  · have := hok q ((List.dropLast_sublist ls).subset e)
    exact ⟨this.2.1, by have := this.1; omega⟩

/-- **The exact guarantee of the repaired tracker.** -/
theorem tracker_iff (recs : List (List Line)) (hok : ∀ rec ∈ recs, ∀ l ∈ rec, l.Ok)
    (hterm : ∀ rec ∈ recs, ∀ l ∈ rec.dropLast, l.eol = true) (p w : Int) (hp : 0 < p) (hw : 0 < w) :
    ((runFile {} recs).rpl = p ∧ (runFile {} recs).bpl = w) ↔
      (∃ rec ∈ recs, ∃ l, l ∈ rec.dropLast) ∧
      (∀ rec ∈ recs, ∀ l ∈ rec.dropLast, l.b = w ∧ l.r = p) ∧
      (∀ rec ∈ recs, ∀ l ∈ rec, l.r ≤ p ∧ l.x ≤ w - p - 1) := by
  have hfold := file_fold recs {} hok hterm
  have hcore : ((runFile {} recs).rpl = p ∧ (runFile {} recs).bpl = w) ↔ Good ((fileSteps recs).foldl g (core {})) p w := by
    rw [← hfold]; rfl
  rw [hcore]
  have hS : ∀ st ∈ fileSteps recs, StepOk st := by
    intro st hst
    obtain ⟨rec, hrec, hst⟩ := List.mem_flatMap.mp hst
    exact stepsFrom_ok rec (hok rec hrec) st hst
  have hP0 : Paired (core {}) := by simp [Paired, core]
  have hU0 : Unset (core {}) := ⟨rfl, rfl⟩
  constructor
  · intro h
    obtain ⟨n1, n2⟩ := fold_good_nec _ hS _ hP0 p w hp hw h
    have hex : ∃ st ∈ fileSteps recs, ∃ q, st.1 = some q := by
      rcases n1 with ⟨_, e⟩ | gd
      · exact e
      · have := gd.1; simp [core] at this; omega
    obtain ⟨st0, hst0, q0, hq0⟩ := hex
    have hne : fileSteps recs ≠ [] := List.ne_nil_of_mem hst0
    obtain ⟨b1, b2⟩ := fold_good_bounds _ hS _ hP0 hne p w hp hw h
    obtain ⟨_, m⟩ := fold_max_ge (fileSteps recs) (core {})
    refine ⟨?_, ?_, ?_⟩
    · obtain ⟨rec, hrec, hst⟩ := List.mem_flatMap.mp hst0
      rcases stepsFrom_prev_mem rec none st0 q0 hst hq0 with e | e
      · cases e
      · exact ⟨rec, hrec, q0, e⟩
    · intro rec hrec l hl
      obtain ⟨st, hst, e⟩ := stepsFrom_prev_exists rec none l hl
      exact n2 st (List.mem_flatMap.mpr ⟨rec, hrec, hst⟩) l e
    · intro rec hrec l hl
      have : l ∈ (stepsFrom none rec).map Prod.snd := by rw [stepsFrom_snd]; exact hl
      obtain ⟨st, hst, rfl⟩ := List.mem_map.mp this
      have := m st (List.mem_flatMap.mpr ⟨rec, hrec, hst⟩)
      omega
  · rintro ⟨⟨rec, hrec, l, hl⟩, h2, h3⟩
    apply fold_good_suf _ _ p w hp hw
    · left
      obtain ⟨st, hst, e⟩ := stepsFrom_prev_exists rec none l hl
      exact ⟨hU0, st, List.mem_flatMap.mpr ⟨rec, hrec, hst⟩, l, e⟩
    · intro st hst q hq
      obtain ⟨rec', hrec', hst'⟩ := List.mem_flatMap.mp hst
      rcases stepsFrom_prev_mem rec' none st q hst' hq with e | e
      · cases e
      · exact h2 rec' hrec' q e
    · show (0 : Int) ≤ p; omega
    · show (0 : Int) ≤ w - p - 1
      have := h2 rec hrec l hl
      have hl' := hok rec hrec l ((List.dropLast_sublist rec).subset hl)
      have hx := (h3 rec hrec l ((List.dropLast_sublist rec).subset hl)).2
      have := hl'.2.2
      omega
    · intro st hst
      obtain ⟨rec', hrec', hst'⟩ := List.mem_flatMap.mp hst
      have : st.2 ∈ (stepsFrom none rec').map Prod.snd := List.mem_map.mpr ⟨st, hst', rfl⟩
      rw [stepsFrom_snd] at this
      exact h3 rec' hrec' st.2 this


/-- the widths stay unset exactly as long as no step has a previous line -/
theorem fold_unset_iff (S : List (Option Line × Line)) (hS : ∀ st ∈ S, StepOk st) (s : S4) :
    Unset (S.foldl g s) ↔ Unset s ∧ ∀ st ∈ S, st.1 = none := by
  induction S generalizing s with
  | nil => simp
  | cons st rest ih =>
    have hst := hS st (by simp)
    rw [List.foldl_cons, ih (fun x hx => hS x (by simp [hx])) (g s st)]
    constructor
    · rintro ⟨u, hrest⟩
      obtain ⟨u1, u2⟩ := step_back_unset s st hst u
      exact ⟨u1, fun x hx => by
        rcases List.mem_cons.mp hx with rfl | hx
        · exact u2
        · exact hrest x hx⟩
    · rintro ⟨u, hall⟩
      have hq := hall st (by simp)
      have hd : ¬ Dead s st := by
        unfold Dead; rw [hq]; simp only [prevR]; have := u.1; omega
      refine ⟨?_, fun x hx => hall x (by simp [hx])⟩
      rw [g_live s st hd, hq]
      simpa [Unset, prevR, prevB] using u

/-- **`rpl = bpl = −1` after the scan ⇔ no line of the file is followed by another line of its record** -/
theorem tracker_unset_iff (recs : List (List Line)) (hok : ∀ rec ∈ recs, ∀ l ∈ rec, l.Ok)
    (hterm : ∀ rec ∈ recs, ∀ l ∈ rec.dropLast, l.eol = true) :
    ((runFile {} recs).rpl = -1 ∧ (runFile {} recs).bpl = -1) ↔ ∀ rec ∈ recs, rec.dropLast = [] := by
  have hfold := file_fold recs {} hok hterm
  have hcore : ((runFile {} recs).rpl = -1 ∧ (runFile {} recs).bpl = -1) ↔ Unset ((fileSteps recs).foldl g (core {})) := by
    rw [← hfold]; rfl
  have hS : ∀ st ∈ fileSteps recs, StepOk st := by
    intro st hst
    obtain ⟨rec, hrec, hst⟩ := List.mem_flatMap.mp hst
    exact stepsFrom_ok rec (hok rec hrec) st hst
  rw [hcore, fold_unset_iff _ hS]
  constructor
  · rintro ⟨_, h⟩ rec hrec
    cases hdl : rec.dropLast with
    | nil => rfl
    | cons q qs =>
      obtain ⟨st, hst, e⟩ := stepsFrom_prev_exists rec none q (by rw [hdl]; simp)
      have := h st (List.mem_flatMap.mpr ⟨rec, hrec, hst⟩)
      rw [this] at e; cases e
  · intro h
    refine ⟨⟨rfl, rfl⟩, fun st hst => ?_⟩
    obtain ⟨rec, hrec, hst'⟩ := List.mem_flatMap.mp hst
    cases hq : st.1 with
    | none => rfl
    | some q =>
      rcases stepsFrom_prev_mem rec none st q hst' hq with e | e
      · cases e
      · rw [h rec hrec] at e; simp at e

end EaselModel.Sqio.TrackerExact
