import EaselModel.Sqio.Tracker
import EaselModel.Sqio.Geometry
/-! # From the tracker's verdict to the geometry hypothesis of the subsequence-fetch theorems (C07)

`tracker_sound` speaks about a record as the tracker counts it (bytes and residues per line); `fetchSubseq_eq_scan_slice_line`
needs the record's data cut into `(start−1)/rpl` complete lines of `bpl` bytes and `rpl` residues followed by the rest. `bridge_line`
derives the second from the first, for data given as its terminated lines `segs` (each with its newline) and the unterminated rest. -/
namespace EaselModel.Sqio.GeomBridge
open EaselModel.Sqio EaselModel.Sqio.Tracker EaselModel.Sqio.Geometry

variable {α : Type}

/-- (bytes, residues) of a line -/
def cnt (p : α → Bool) (l : List α) : Int × Int := ((l.length : Int), ((l.filter p).length : Int))

/-- the record the tracker sees for data given as terminated lines `segs` and an unterminated rest -/
def recOf (p : α → Bool) (segs : List (List α)) (rest : List α) : Rec :=
  ⟨segs.map (cnt p), if rest.isEmpty then none else some (cnt p rest)⟩

/-- all lines of the data, the unterminated rest (if any) last -/
def linesOf (segs : List (List α)) (rest : List α) : List (List α) := segs ++ (if rest.isEmpty then [] else [rest])

theorem mem_takeWhile_imp {p : α → Bool} {l : List α} {x : α} (h : x ∈ l.takeWhile p) : p x = true := by
  induction l with
  | nil => simp at h
  | cons a t ih =>
    by_cases ha : p a = true
    · simp only [List.takeWhile_cons, ha, if_true, List.mem_cons] at h
      rcases h with rfl | h
      · exact ha
      · exact ih h
    · simp [List.takeWhile_cons, ha] at h

theorem count_flatten_le (p : α → Bool) (P : Nat) (L : List (List α)) (h : ∀ l ∈ L, (l.filter p).length ≤ P) :
    (L.flatten.filter p).length ≤ L.length * P := by
  induction L with
  | nil => simp
  | cons l L ih =>
    have h1 := h l (by simp)
    have h2 := ih (fun x hx => h x (by simp [hx]))
    simp only [List.flatten_cons, List.filter_append, List.length_append, List.length_cons, Nat.succ_mul]
    omega

theorem flatten_linesOf (segs : List (List α)) (rest : List α) : (linesOf segs rest).flatten = segs.flatten ++ rest := by
  unfold linesOf
  cases h : rest.isEmpty
  · simp
  · simp only [h, if_true, List.append_nil]
    have : rest = [] := List.isEmpty_iff.mp h
    simp [this]

/-- what `Geom` says about the byte lines -/
theorem geom_lines (p : α → Bool) (segs : List (List α)) (rest : List α) (q r : Int) (hg : Geom q r (recOf p segs rest)) :
    (∀ l ∈ (linesOf segs rest).dropLast, (l.length : Int) = q ∧ ((l.filter p).length : Int) = r) ∧
    (∀ l ∈ linesOf segs rest, ((l.filter p).length : Int) ≤ r) := by
  obtain ⟨g1, g2⟩ := hg
  unfold Rec.all recOf at g1 g2
  unfold linesOf
  cases h : rest.isEmpty
  · -- an unterminated rest exists: the non-last lines are exactly `segs`
    simp only [h, Bool.false_eq_true, if_false, Option.toList_some, List.map_cons, List.map_nil] at g1 g2 ⊢
    rw [List.dropLast_concat] at g1 ⊢
    constructor
    · intro l hl
      have := g1 (tl (cnt p l)) (by simp only [List.map_map, List.mem_map]; exact ⟨l, hl, rfl⟩)
      simpa [tl, cnt] using this
    · intro l hl
      rw [List.mem_append, List.mem_singleton] at hl
      rcases hl with hl | rfl
      · have := (g2 (tl (cnt p l)) (by rw [List.mem_append]; left; simp only [List.map_map, List.mem_map]; exact ⟨l, hl, rfl⟩)).1
        simpa [tl, cnt] using this
      · have := (g2 (ul (cnt p l)) (by simp)).1
        simpa [ul, cnt] using this
  · simp only [h, if_true, Option.toList_none, List.map_nil, List.append_nil] at g1 g2 ⊢
    constructor
    · intro l hl
      have hm : tl (cnt p l) ∈ ((segs.map (cnt p)).map tl).dropLast := by
        rw [List.map_map, ← List.map_dropLast]; exact List.mem_map_of_mem hl
      have := g1 _ hm
      simpa [tl, cnt] using this
    · intro l hl
      have := (g2 (tl (cnt p l)) (by simp only [List.map_map, List.mem_map]; exact ⟨l, hl, rfl⟩)).1
      simpa [tl, cnt] using this

/-- **bridge (line addressing)**: a record whose lines have the geometry `(b, r)` — as `tracker_sound` concludes from `bpl = b`,
    `rpl = r` — and a start `1 ≤ start ≤ L`: the data begins with `(start−1)/r` complete lines of `b` bytes and `r` residues -/
theorem bridge_line (p : α → Bool) (segs : List (List α)) (rest : List α) (b r : Nat) (hr : 0 < r)
    (hg : Geom (b : Int) (r : Int) (recOf p segs rest)) (start : Nat) (h1 : 1 ≤ start)
    (h2 : start ≤ ((segs.flatten ++ rest).filter p).length) :
    FullLines p b r (segs.take ((start - 1) / r)) ∧ (segs.take ((start - 1) / r)).length = (start - 1) / r ∧
    segs.flatten ++ rest = (segs.take ((start - 1) / r)).flatten ++ ((segs.drop ((start - 1) / r)).flatten ++ rest) := by
  obtain ⟨f1, f2⟩ := geom_lines p segs rest b r hg
  have hle : ((linesOf segs rest).flatten.filter p).length ≤ (linesOf segs rest).length * r :=
    count_flatten_le p r _ (fun l hl => by have := f2 l hl; omega)
  rw [flatten_linesOf] at hle
  -- k < number of lines
  have hk : (start - 1) / r < (linesOf segs rest).length := by
    have := Nat.div_mul_le_self (start - 1) r
    apply Nat.lt_of_mul_lt_mul_right (a := r)
    omega
  -- the number of lines is at most |segs| + 1
  have hn : (linesOf segs rest).length ≤ segs.length + 1 := by
    unfold linesOf; split <;> simp
  have hks : (start - 1) / r ≤ segs.length := by omega
  have htake : (linesOf segs rest).dropLast.take ((start - 1) / r) = segs.take ((start - 1) / r) := by
    rw [List.dropLast_eq_take, List.take_take, Nat.min_eq_left (by omega)]
    unfold linesOf
    rw [List.take_append_of_le_length hks]
  have hmem : ∀ l ∈ segs.take ((start - 1) / r), l ∈ (linesOf segs rest).dropLast := by
    intro l hl; rw [← htake] at hl; exact List.mem_of_mem_take hl
  refine ⟨⟨fun l hl => ?_, fun l hl => ?_⟩, ?_, ?_⟩
  · have := (f1 l (hmem l hl)).1; omega
  · have := (f1 l (hmem l hl)).2; omega
  · rw [List.length_take]; omega
  · rw [← List.append_assoc, ← List.flatten_append, List.take_append_drop]


/-- what `Geom` with `q = r + 1` says about the ignored bytes of every line: a terminated line has at most one non-residue byte
    (its newline), an unterminated rest none -/
theorem geom_extra (p : α → Bool) (segs : List (List α)) (rest : List α) (r : Int) (hg : Geom (r + 1) r (recOf p segs rest)) :
    (∀ l ∈ segs, (l.length : Int) - ((l.filter p).length : Int) - 1 ≤ 0) ∧
    (rest.isEmpty = false → (rest.length : Int) - ((rest.filter p).length : Int) ≤ 0) := by
  obtain ⟨_, g2⟩ := hg
  unfold Rec.all recOf at g2
  constructor
  · intro l hl
    have := (g2 (tl (cnt p l)) (by rw [List.mem_append]; left; simp only [List.map_map, List.mem_map]; exact ⟨l, hl, rfl⟩)).2
    simp only [tl, cnt] at this; omega
  · intro h
    simp only [h, Bool.false_eq_true, if_false, Option.toList_some, List.map_cons, List.map_nil] at g2
    have := (g2 (ul (cnt p rest)) (by simp)).2
    simp only [ul, cnt] at this; omega

theorem all_of_filter_length {p : α → Bool} {l : List α} (h : l.length ≤ (l.filter p).length) : ∀ c ∈ l, p c = true := by
  induction l with
  | nil => intro c hc; cases hc
  | cons a t ih =>
    have hle := List.length_filter_le p t
    by_cases ha : p a = true
    · simp only [List.filter_cons, ha, if_true, List.length_cons] at h
      intro c hc
      rcases List.mem_cons.mp hc with rfl | hc
      · exact ha
      · exact ih (by omega) c hc
    · simp only [List.filter_cons, ha, Bool.false_eq_true, if_false, List.length_cons] at h
      omega

/-- every line of such a record is `residues ++ (at most the newline)` -/
theorem line_shape (p : α → Bool) (segs : List (List α)) (rest : List α) (r : Int) (hg : Geom (r + 1) r (recOf p segs rest))
    (hterm : ∀ l ∈ segs, ∃ body e, l = body ++ [e] ∧ p e = false) :
    ∀ l ∈ linesOf segs rest, ∃ res t, l = res ++ t ∧ (∀ c ∈ res, p c = true) ∧ (l.filter p).length = res.length := by
  obtain ⟨x1, x2⟩ := geom_extra p segs rest r hg
  intro l hl
  unfold linesOf at hl
  rw [List.mem_append] at hl
  rcases hl with hl | hl
  · obtain ⟨body, e, rfl, he⟩ := hterm l hl
    have := x1 _ hl
    have hc : ((body ++ [e]).filter p).length = (body.filter p).length := by simp [List.filter_append, he]
    rw [hc] at this
    simp only [List.length_append, List.length_singleton] at this
    have hall := all_of_filter_length (p := p) (l := body) (by omega)
    exact ⟨body, [e], rfl, hall, by rw [hc, List.filter_eq_self.mpr hall]⟩
  · cases h : rest.isEmpty
    · simp only [h, Bool.false_eq_true, if_false, List.mem_singleton] at hl
      subst hl
      have := x2 h
      have hall := all_of_filter_length (p := p) (l := l) (by omega)
      exact ⟨l, [], by simp, hall, by rw [List.filter_eq_self.mpr hall]⟩
    · simp [h] at hl

/-- **bridge (residue addressing)**: geometry `(r + 1, r)`, every terminated line ending in a non-residue byte, `1 ≤ start ≤ L`:
    the data is `(start−1)/r` complete lines, then a stretch `res` of residues at least `(start−1) % r` long, then the rest -/
theorem bridge_residue (p : α → Bool) (segs : List (List α)) (rest : List α) (r : Nat) (hr : 0 < r)
    (hg : Geom ((r : Int) + 1) (r : Int) (recOf p segs rest)) (hterm : ∀ l ∈ segs, ∃ body e, l = body ++ [e] ∧ p e = false)
    (start : Nat) (h1 : 1 ≤ start) (h2 : start ≤ ((segs.flatten ++ rest).filter p).length) :
    ∃ res tail, FullLines p (r + 1) r (segs.take ((start - 1) / r)) ∧ (segs.take ((start - 1) / r)).length = (start - 1) / r ∧
      segs.flatten ++ rest = (segs.take ((start - 1) / r)).flatten ++ (res ++ tail) ∧ (∀ c ∈ res, p c = true) ∧
      (start - 1) % r ≤ res.length := by
  have hg' : Geom ((r + 1 : Nat) : Int) (r : Int) (recOf p segs rest) := by simpa using hg
  obtain ⟨k1, k2, k3⟩ := bridge_line p segs rest (r + 1) r hr hg' start h1 h2
  obtain ⟨f1, f2⟩ := geom_lines p segs rest ((r + 1 : Nat) : Int) r hg'
  have hshape := line_shape p segs rest r hg hterm
  generalize hk : (start - 1) / r = k at *
  -- the lines, split at line k
  have hle : ((linesOf segs rest).flatten.filter p).length ≤ (linesOf segs rest).length * r :=
    count_flatten_le p r _ (fun l hl => by have := f2 l hl; omega)
  rw [flatten_linesOf] at hle
  have hkn : k < (linesOf segs rest).length := by
    have := Nat.div_mul_le_self (start - 1) r
    rw [hk] at this
    apply Nat.lt_of_mul_lt_mul_right (a := r)
    omega
  have hn : (linesOf segs rest).length ≤ segs.length + 1 := by unfold linesOf; split <;> simp
  have hks : k ≤ segs.length := by omega
  have htk : (linesOf segs rest).take k = segs.take k := by unfold linesOf; rw [List.take_append_of_le_length hks]
  have hsplit : linesOf segs rest = segs.take k ++ ((linesOf segs rest)[k] :: (linesOf segs rest).drop (k + 1)) := by
    rw [← htk, List.getElem_cons_drop, List.take_append_drop]
  obtain ⟨res, t, hl, hres, hcnt⟩ := hshape _ (List.getElem_mem hkn)
  have hdata : segs.flatten ++ rest = (segs.take k).flatten ++ (res ++ (t ++ ((linesOf segs rest).drop (k + 1)).flatten)) := by
    rw [← flatten_linesOf]
    conv => lhs; rw [hsplit]
    rw [List.flatten_append, List.flatten_cons, hl, List.append_assoc]
  refine ⟨res, t ++ ((linesOf segs rest).drop (k + 1)).flatten, k1, k2, hdata, hres, ?_⟩
  -- residue count of line k
  have hmod := Nat.div_add_mod (start - 1) r
  rw [hk] at hmod
  have hmlt := Nat.mod_lt (start - 1) hr
  by_cases hlast : k + 1 < (linesOf segs rest).length
  · -- not the last line: a full line
    have hmem : (linesOf segs rest)[k] ∈ (linesOf segs rest).dropLast := by
      rw [List.dropLast_eq_take, List.mem_take_iff_getElem]
      exact ⟨k, by rw [Nat.min_def]; split <;> omega, rfl⟩
    have := (f1 _ hmem).2
    omega
  · -- the last line holds all the remaining residues
    have hdrop : (linesOf segs rest).drop (k + 1) = [] := List.drop_eq_nil_of_le (by omega)
    have hc1 := k1.count_flatten
    rw [k2] at hc1
    have htot : ((segs.flatten ++ rest).filter p).length = k * r + res.length := by
      rw [hdata, hdrop]
      simp only [List.flatten_nil, List.append_nil, List.filter_append, List.length_append, hc1]
      have e1 : (res.filter p).length = res.length := by rw [List.filter_eq_self.mpr hres]
      have e2 : (t.filter p).length = 0 := by
        have := hcnt
        rw [hl, List.filter_append, List.length_append, e1] at this
        omega
      omega
    have : r * k = k * r := Nat.mul_comm _ _
    omega

end EaselModel.Sqio.GeomBridge
