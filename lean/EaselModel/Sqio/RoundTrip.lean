import EaselModel.Sqio.SpecFasta
import EaselModel.Sqio.Spec
/-! # Write + re-read (C04): the declarative parser applied to what `esl_sqascii_WriteFasta` writes returns the record

`fastaText name desc res`: the bytes `esl_sqascii_WriteFasta` writes for a text-mode record without accession (`writeFasta_text`).
`specOne_fastaText`: `specOne` on these bytes (followed by nothing or by the next record) returns name, description and residues
unchanged, the offsets of the layout, and stops exactly behind the record. With `C04.read_all_eq_specFasta` (reader = `specFasta` for
every block size) this is "writing a record out as FASTA and re-reading it reproduces it". -/
namespace EaselModel.Sqio.RoundTrip
open EaselModel.Sqio.BodySpec EaselModel.Sqio.HeaderSpec EaselModel.Sqio.ReadSpec EaselModel.Sqio.SpecFasta

def fastaText (name desc res : List UInt8) : List UInt8 :=
  [chGt] ++ name ++ (if desc.isEmpty then [] else 32 :: desc) ++ [chNl] ++ chunk60 res (res.length + 1)

theorem isEod_not_isData' (inmap : Bytes) (c : UInt8) (h : isEod inmap c = true) : isData inmap c = false := by
  simp only [isEod, Tables.dsqEod, beq_iff_eq] at h
  simp [isData, h, Tables.dsqEol, Tables.dsqIgnored]

/-- `p` holds on all of `l1` and fails at the head of `l2`: `takeWhile` / `dropWhile` split exactly between them -/
theorem tw_split (p : UInt8 → Bool) (l1 l2 : List UInt8) (h1 : ∀ c ∈ l1, p c = true) (h2 : ∀ c t, l2 = c :: t → p c = false) :
    (l1 ++ l2).takeWhile p = l1 ∧ (l1 ++ l2).dropWhile p = l2 := by
  induction l1 with
  | nil =>
    cases l2 with
    | nil => exact ⟨rfl, rfl⟩
    | cons c t =>
      have := h2 c t rfl
      simp [this]
  | cons x xs ih =>
    have hx := h1 x (by simp)
    obtain ⟨i1, i2⟩ := ih (fun c hc => h1 c (by simp [hc]))
    simp only [List.cons_append, List.takeWhile_cons_of_pos hx, List.dropWhile_cons_of_pos hx, i1, i2]
    exact ⟨trivial, trivial⟩

theorem dw_none (p : UInt8 → Bool) (l : List UInt8) (h : ∀ c t, l = c :: t → p c = false) : l.dropWhile p = l ∧ l.takeWhile p = [] := by
  cases l with
  | nil => exact ⟨rfl, rfl⟩
  | cons c t => have := h c t rfl; simp [this]

/-- the data lines the writer produces: every byte is a residue or a newline, the residues are the residues -/
theorem chunk60_data (inmap : Bytes) (hnld : isData inmap chNl = true) (hnlr : isRes inmap chNl = false) :
    ∀ (fuel : Nat) (res : List UInt8), res.length < fuel → (∀ c ∈ res, isRes inmap c = true) →
      (∀ c ∈ chunk60 res fuel, isData inmap c = true) ∧ (chunk60 res fuel).filter (isRes inmap) = res ∧
      (∀ c t, chunk60 res fuel = c :: t → isRes inmap c = true) := by
  intro fuel
  induction fuel with
  | zero => intro res h; omega
  | succ fuel ih =>
    intro res hf hr
    rw [Spec.chunk60_succ]
    cases res with
    | nil => simp
    | cons x xs =>
      simp only [List.isEmpty_cons, Bool.false_eq_true, if_false]
      have hdrop : ((x :: xs).drop 60).length < fuel := by rw [List.length_drop]; simp at hf ⊢; omega
      obtain ⟨i1, i2, _⟩ := ih ((x :: xs).drop 60) hdrop (fun c hc => hr c (List.mem_of_mem_drop hc))
      have htk : ∀ c ∈ (x :: xs).take 60, isRes inmap c = true := fun c hc => hr c (List.mem_of_mem_take hc)
      refine ⟨?_, ?_, ?_⟩
      · intro c hc
        simp only [List.mem_append, List.mem_singleton] at hc
        rcases hc with (hc | hc) | hc
        · exact isRes_isData inmap c (htk c hc)
        · rw [hc]; exact hnld
        · exact i1 c hc
      · rw [List.filter_append, List.filter_append, i2, List.filter_eq_self.mpr htk]
        simp only [List.filter_cons, hnlr, Bool.false_eq_true, if_false, List.filter_nil, List.append_nil]
        exact List.take_append_drop 60 (x :: xs)
      · intro c t hc
        have : (x :: xs).take 60 = x :: xs.take 59 := rfl
        rw [this] at hc
        simp only [List.cons_append] at hc
        have := (List.cons.inj hc).1
        rw [← this]; exact hr x (by simp)

/-- **Re-reading what the writer wrote.** `specOne` on `fastaText name desc res ++ tail` (`tail` = nothing, or the next record). -/
theorem specOne_fastaText (inmap map : Bytes) (N : Nat) (name desc res tail : List UInt8)
    (hgt : EodGt inmap) (hnld : isData inmap chNl = true) (hnlr : isRes inmap chNl = false) (hcrr : isRes inmap chCr = false)
    (hn1 : name ≠ []) (hn2 : ∀ c ∈ name, isSpace c = false)
    (hd1 : ∀ c ∈ desc, pDesc c = true) (hd2 : ∀ c t, desc = c :: t → isBlankTab c = false)
    (hr : ∀ c ∈ res, isRes inmap c = true) (ht : ∀ c t, tail = c :: t → isEod inmap c = true) :
    specOne inmap map N (fastaText name desc res ++ tail) =
      (.ok, some ⟨name, desc, res.map (fun c => map.getD c.toNat 0),
                  offOf N (fastaText name desc res ++ tail),
                  offOf N ([chNl] ++ chunk60 res (res.length + 1) ++ tail),
                  offOf N (chunk60 res (res.length + 1) ++ tail),
                  offOf N tail - 1, ((res.map (fun c => map.getD c.toNat 0)).length : Int)⟩, tail) := by
  obtain ⟨k1, k2, k3⟩ := chunk60_data inmap hnld hnlr (res.length + 1) res (Nat.lt_succ_self _) hr
  generalize hch : chunk60 res (res.length + 1) = chunks at k1 k2 k3 ⊢
  -- what follows the data: not data, not an end-of-line character
  have ht_nd : ∀ c t, tail = c :: t → isData inmap c = false := fun c t h => isEod_not_isData' inmap c (ht c t h)
  have ht_ne : ∀ c t, tail = c :: t → pEol c = false := by
    intro c t h
    have := hgt c (ht c t h)
    rw [this]; decide
  -- the head of `chunks ++ tail` is not an end-of-line character
  have hct_ne : ∀ c t, chunks ++ tail = c :: t → pEol c = false := by
    intro c t h
    cases hc : chunks with
    | nil => rw [hc] at h; exact ht_ne c t h
    | cons x xs =>
      rw [hc] at h
      have hx : c = x := ((List.cons.inj h).1).symm
      have hxr := k3 x xs hc
      rw [hx]
      by_cases e1 : x = chNl
      · rw [e1, hnlr] at hxr; cases hxr
      · by_cases e2 : x = chCr
        · rw [e2, hcrr] at hxr; cases hxr
        · simp [pEol, e1, e2]
  -- the layout, from the back
  have e6 : ([chNl] ++ chunks ++ tail).dropWhile pEol = chunks ++ tail := by
    have : pEol chNl = true := by decide
    simp only [List.cons_append, List.nil_append, List.dropWhile_cons_of_pos this]
    exact (dw_none pEol (chunks ++ tail) hct_ne).1
  obtain ⟨d1, d2⟩ := tw_split (isData inmap) chunks tail k1 ht_nd
  have hnl_notEol : ∀ c t, [chNl] ++ chunks ++ tail = c :: t → pNotEol c = false := by
    intro c t h; have := (List.cons.inj h).1; rw [← this]; decide
  have hnl_pDesc : ∀ c t, [chNl] ++ chunks ++ tail = c :: t → pDesc c = false := by
    intro c t h; have := (List.cons.inj h).1; rw [← this]; decide
  -- the description part
  have eD : ∀ X, X = (if desc.isEmpty then [] else 32 :: desc) ++ ([chNl] ++ chunks ++ tail) →
      (X.dropWhile isBlankTab).takeWhile pDesc = desc ∧
      ((X.dropWhile isBlankTab).dropWhile pDesc).dropWhile pNotEol = [chNl] ++ chunks ++ tail ∧
      (∀ c t, X = c :: t → pName c = false) := by
    intro X hX
    cases hdc : desc with
    | nil =>
      rw [hdc] at hX
      simp only [List.isEmpty_nil, if_true, List.nil_append] at hX
      have hb : ∀ c t, X = c :: t → isBlankTab c = false := by
        intro c t h; rw [hX] at h; have := (List.cons.inj h).1; rw [← this]; decide
      rw [(dw_none isBlankTab X hb).1, hX, (dw_none pDesc _ hnl_pDesc).2, (dw_none pDesc _ hnl_pDesc).1, (dw_none pNotEol _ hnl_notEol).1]
      refine ⟨rfl, rfl, ?_⟩
      intro c t h; have := (List.cons.inj h).1; rw [← this]; decide
    | cons x xs =>
      rw [hdc] at hX
      simp only [List.isEmpty_cons, Bool.false_eq_true, if_false, List.cons_append] at hX
      have hb32 : isBlankTab 32 = true := by decide
      have hxb : isBlankTab x = false := hd2 x xs hdc
      have hxb' : ¬ isBlankTab x = true := by simp [hxb]
      have hX2 : X.dropWhile isBlankTab = (x :: xs) ++ ([chNl] ++ chunks ++ tail) := by
        rw [hX, List.dropWhile_cons_of_pos hb32]
        simp only [List.cons_append, List.dropWhile_cons_of_neg hxb']
      obtain ⟨t1, t2⟩ := tw_split pDesc (x :: xs) ([chNl] ++ chunks ++ tail) (by rw [← hdc]; exact hd1) hnl_pDesc
      rw [hX2, t1, t2, (dw_none pNotEol _ hnl_notEol).1]
      refine ⟨rfl, rfl, ?_⟩
      intro c t h; rw [hX] at h; have := (List.cons.inj h).1; rw [← this]; decide
  -- the name part
  obtain ⟨n0, nt, hname⟩ : ∃ n0 nt, name = n0 :: nt := by
    cases name with
    | nil => exact absurd rfl hn1
    | cons a b => exact ⟨a, b, rfl⟩
  have hnameP : ∀ c ∈ name, pName c = true := fun c hc => by simp [pName, hn2 c hc]
  have hn0b : isBlankTab n0 = false := by
    have := hn2 n0 (by rw [hname]; simp)
    simp only [isSpace, Bool.or_eq_false_iff] at this
    simp only [isBlankTab, Bool.or_eq_false_iff]
    refine ⟨this.1, ?_⟩
    have h2 := this.2
    by_cases e : n0 = 9
    · subst e; revert h2; decide
    · simpa using e
  obtain ⟨D1, D2, D3⟩ := eD _ rfl
  have hl2 : ∀ Y, (name ++ Y).dropWhile isBlankTab = name ++ Y := by
    intro Y
    rw [hname]
    have : ¬ isBlankTab n0 = true := by simp [hn0b]
    simp only [List.cons_append, List.dropWhile_cons_of_neg this]
  obtain ⟨N1, N2⟩ := tw_split pName name ((if desc.isEmpty then [] else 32 :: desc) ++ ([chNl] ++ chunks ++ tail)) hnameP D3
  -- assemble
  have hwhole : fastaText name desc res ++ tail =
      chGt :: (name ++ ((if desc.isEmpty then [] else 32 :: desc) ++ ([chNl] ++ chunks ++ tail))) := by
    simp only [fastaText, hch, List.append_assoc, List.cons_append, List.nil_append]
  have hsp : (fastaText name desc res ++ tail).dropWhile isSpace = fastaText name desc res ++ tail := by
    rw [hwhole]
    have : ¬ isSpace chGt = true := by decide
    exact List.dropWhile_cons_of_neg this
  unfold specOne
  rw [hsp]
  rw [hwhole]
  simp only []
  have hgtb : (chGt != chGt) = false := by simp
  simp only [hgtb, Bool.false_eq_true, if_false, hl2, N1, N2, D1, D2, e6, d1, d2, k2]
  have hne : name.isEmpty = false := by rw [hname]; rfl
  simp only [hne, Bool.false_eq_true, if_false]
  cases htl : tail with
  | nil => simp
  | cons c t =>
    have := ht c t htl
    simp [this]


/-! ## a whole file of records -/

/-- what the writer may be given: a non-empty name without white space, a description without end-of-line / ctrl-A bytes that does
    not start with a blank, residues the input map accepts -/
structure Good (inmap : Bytes) (r : List UInt8 × List UInt8 × List UInt8) : Prop where
  n1 : r.1 ≠ []
  n2 : ∀ c ∈ r.1, isSpace c = false
  d1 : ∀ c ∈ r.2.1, pDesc c = true
  d2 : ∀ c t, r.2.1 = c :: t → isBlankTab c = false
  res : ∀ c ∈ r.2.2, isRes inmap c = true

def allText : List (List UInt8 × List UInt8 × List UInt8) → List UInt8
  | [] => []
  | r :: rs => fastaText r.1 r.2.1 r.2.2 ++ allText rs

/-- the records a reader must return for `allText rs` as a file of `N` bytes -/
def expected (map : Bytes) (N : Nat) : List (List UInt8 × List UInt8 × List UInt8) → List Record
  | [] => []
  | r :: rs =>
    ⟨r.1, r.2.1, r.2.2.map (fun c => map.getD c.toNat 0), offOf N (fastaText r.1 r.2.1 r.2.2 ++ allText rs),
     offOf N ([chNl] ++ chunk60 r.2.2 (r.2.2.length + 1) ++ allText rs), offOf N (chunk60 r.2.2 (r.2.2.length + 1) ++ allText rs),
     offOf N (allText rs) - 1, ((r.2.2.map (fun c => map.getD c.toNat 0)).length : Int)⟩ :: expected map N rs

theorem allText_head (rs : List (List UInt8 × List UInt8 × List UInt8)) : ∀ c t, allText rs = c :: t → c = chGt := by
  intro c t h
  cases rs with
  | nil => cases h
  | cons r rs' =>
    simp only [allText, fastaText, List.append_assoc, List.cons_append, List.nil_append] at h
    exact ((List.cons.inj h).1).symm

/-- **Write + re-read, every record of a file**: the declarative parser applied to the concatenation of what the writer writes for the
    records `rs` returns exactly these records (name, description, residues — translated by `map` —, the offsets of the layout, `L`),
    then `eslEOF`. -/
theorem specAll_allText (inmap map : Bytes) (N : Nat) (hgt : EodGt inmap) (hgtE : isEod inmap chGt = true)
    (hnld : isData inmap chNl = true) (hnlr : isRes inmap chNl = false) (hcrr : isRes inmap chCr = false) :
    ∀ (rs : List (List UInt8 × List UInt8 × List UInt8)) (fuel : Nat), rs.length < fuel → (∀ r ∈ rs, Good inmap r) →
      specAll inmap map N fuel (allText rs) = (expected map N rs, .eof) := by
  intro rs
  induction rs with
  | nil =>
    intro fuel hf _
    cases fuel with
    | zero => simp at hf
    | succ fuel => simp [specAll, specOne, allText, expected]
  | cons r rs ih =>
    intro fuel hf hg
    cases fuel with
    | zero => simp at hf
    | succ fuel =>
      have G := hg r (by simp)
      have ht : ∀ c t, allText rs = c :: t → isEod inmap c = true := by
        intro c t h; rw [allText_head rs c t h]; exact hgtE
      have key := specOne_fastaText inmap map N r.1 r.2.1 r.2.2 (allText rs) hgt hnld hnlr hcrr G.n1 G.n2 G.d1 G.d2 G.res ht
      simp only [specAll, allText]
      rw [key]
      simp only []
      rw [ih fuel (by simp at hf; omega) (fun r' hr' => hg r' (by simp [hr']))]
      rfl

theorem text_tables : EodGt (inmapFasta 0) ∧ isEod (inmapFasta 0) chGt = true ∧ isData (inmapFasta 0) chNl = true ∧
    isRes (inmapFasta 0) chNl = false ∧ isRes (inmapFasta 0) chCr = false :=
  ⟨ParseFasta.eodGt_fasta 0 (by decide), by decide +kernel, by decide +kernel, by decide +kernel, by decide +kernel⟩

/-- **Text mode: `specFasta (write rs) = rs`.** For every list of writable records, the FASTA text the writer produces parses back —
    by `specFasta 0`, which IS the reader for every block size (`C04.read_all_eq_specFasta`) — into exactly these records and `eslEOF`. -/
theorem specFasta_allText (rs : List (List UInt8 × List UInt8 × List UInt8)) (hg : ∀ r ∈ rs, Good (inmapFasta 0) r) :
    specFasta 0 (allText rs) = (expected (inmapFasta 0) (allText rs).length rs, .eof) := by
  obtain ⟨t1, t2, t3, t4, t5⟩ := text_tables
  unfold specFasta
  simp only [if_true]
  refine specAll_allText (inmapFasta 0) (inmapFasta 0) _ t1 t2 t3 t4 t5 rs _ ?_ hg
  have : ∀ (l : List (List UInt8 × List UInt8 × List UInt8)), l.length ≤ (allText l).length := by
    intro l
    induction l with
    | nil => simp [allText]
    | cons r l ih => simp only [allText, fastaText, List.length_append, List.length_cons, List.length_nil]; omega
  have := this rs
  omega

theorem text_id_fin : ∀ c : Fin 128, isRes (inmapFasta 0) (UInt8.ofNat c.val) = true → (inmapFasta 0).getD c.val 0 = UInt8.ofNat c.val := by
  decide +kernel

/-- in text mode the residues are stored as they stand in the file -/
theorem text_map_id (c : UInt8) (h : isRes (inmapFasta 0) c = true) : (inmapFasta 0).getD c.toNat 0 = c := by
  have hlt : c.toNat < 128 := by
    simp only [isRes] at h
    exact (ParseFasta.code_lt (inmapFasta 0) c (by intro k; rw [k] at h; revert h; decide)).1
  have := text_id_fin ⟨c.toNat, hlt⟩
  simp only [UInt8.ofNat_toNat] at this
  exact this h

theorem text_map_id_list (res : List UInt8) (h : ∀ c ∈ res, isRes (inmapFasta 0) c = true) :
    res.map (fun c => (inmapFasta 0).getD c.toNat 0) = res := by
  induction res with
  | nil => rfl
  | cons x xs ih =>
    simp only [List.map_cons, text_map_id x (h x (by simp)), ih (fun c hc => h c (by simp [hc]))]

/-- the bytes `esl_sqascii_WriteFasta` writes for a text-mode record without accession whose strings hold no NUL -/
theorem writeFasta_text (sq : Sq) (hd : sq.digital = false) (ha : cstr sq.acc = #[]) (hn : cstr sq.name = sq.name) (hds : cstr sq.desc = sq.desc) :
    writeFasta sq = fastaText sq.name.toList sq.desc.toList sq.seq.toList := by
  unfold writeFasta fastaText
  simp [hd, ha, hn, hds]


/-! ## digital mode -/

/-- the gap code `K` of the alphabet (written as `-`, which the FASTA reader does not accept as a residue) -/
def gapCode (abc : Nat) : Nat := if abc = 3 then 20 else 4

/-- what the writer prints for digital residues -/
def textize (abc : Nat) (codes : List UInt8) : List UInt8 := codes.map (fun x => (abcSym abc).getD x.toNat 63)

theorem dig_tables : ∀ abc ∈ [1, 2, 3], ∀ x : Fin 32, x.val < (abcSym abc).size → x.val ≠ gapCode abc →
    isRes (inmapFasta abc) ((abcSym abc).getD x.val 63) = true ∧
    (abcInmap abc).getD ((abcSym abc).getD x.val 63).toNat 0 = UInt8.ofNat x.val := by decide +kernel

theorem dig_tables2 : ∀ abc ∈ [1, 2, 3], (abcSym abc).size ≤ 32 ∧ isEod (inmapFasta abc) chGt = true ∧ isData (inmapFasta abc) chNl = true ∧
    isRes (inmapFasta abc) chNl = false ∧ isRes (inmapFasta abc) chCr = false := by decide +kernel

/-- a residue code the writer turns into a residue symbol: inside the alphabet and not the gap -/
def CodeOk (abc : Nat) (x : UInt8) : Prop := x.toNat < (abcSym abc).size ∧ x.toNat ≠ gapCode abc

theorem textize_ok (abc : Nat) (habc : abc ∈ [1, 2, 3]) (codes : List UInt8) (h : ∀ x ∈ codes, CodeOk abc x) :
    (∀ c ∈ textize abc codes, isRes (inmapFasta abc) c = true) ∧
    (textize abc codes).map (fun c => (abcInmap abc).getD c.toNat 0) = codes := by
  have h32 := (dig_tables2 abc habc).1
  induction codes with
  | nil => exact ⟨fun c hc => (by cases hc), rfl⟩
  | cons x xs ih =>
    obtain ⟨i1, i2⟩ := ih (fun y hy => h y (by simp [hy]))
    obtain ⟨k1, k2⟩ := h x (by simp)
    have hx32 : x.toNat < 32 := by omega
    obtain ⟨t1, t2⟩ := dig_tables abc habc ⟨x.toNat, hx32⟩ k1 k2
    simp only [UInt8.ofNat_toNat] at t2
    refine ⟨?_, ?_⟩
    · intro c hc
      simp only [textize, List.map_cons, List.mem_cons] at hc
      rcases hc with hc | hc
      · rw [hc]; exact t1
      · exact i1 c hc
    · simp only [textize, List.map_cons] at i2 ⊢
      rw [t2, i2]

/-- **Digital mode: `specFasta abc (write rs) = rs`** (DNA / RNA / amino): records whose residues are codes of the alphabet other than the
    gap are written as symbols (`textize`) and parsed back — by the reader in the same digital mode — into the same codes. -/
theorem specFasta_allText_digital (abc : Nat) (habc : abc ∈ [1, 2, 3]) (rs : List (List UInt8 × List UInt8 × List UInt8))
    (hn : ∀ r ∈ rs, r.1 ≠ [] ∧ (∀ c ∈ r.1, isSpace c = false) ∧ (∀ c ∈ r.2.1, pDesc c = true) ∧
      (∀ c t, r.2.1 = c :: t → isBlankTab c = false) ∧ ∀ x ∈ r.2.2, CodeOk abc x) :
    specFasta abc (allText (rs.map fun r => (r.1, r.2.1, textize abc r.2.2))) =
      (expected (abcInmap abc) (allText (rs.map fun r => (r.1, r.2.1, textize abc r.2.2))).length
         (rs.map fun r => (r.1, r.2.1, textize abc r.2.2)), .eof) ∧
    (expected (abcInmap abc) (allText (rs.map fun r => (r.1, r.2.1, textize abc r.2.2))).length
       (rs.map fun r => (r.1, r.2.1, textize abc r.2.2))).map (fun x => (x.name, x.desc, x.seq)) = rs := by
  obtain ⟨_, t2, t3, t4, t5⟩ := dig_tables2 abc habc
  have h0 : abc ≠ 0 := by intro k; subst k; simp at habc
  have habc' : abc ∈ [0, 1, 2, 3] := by simp at habc ⊢; omega
  have hg : ∀ r ∈ (rs.map fun r => (r.1, r.2.1, textize abc r.2.2)), Good (inmapFasta abc) r := by
    intro r hr
    obtain ⟨r0, hr0, rfl⟩ := List.mem_map.mp hr
    obtain ⟨g1, g2, g3, g4, g5⟩ := hn r0 hr0
    exact ⟨g1, g2, g3, g4, (textize_ok abc habc r0.2.2 g5).1⟩
  refine ⟨?_, ?_⟩
  · unfold specFasta
    simp only [h0, if_false]
    refine specAll_allText (inmapFasta abc) (abcInmap abc) _ (ParseFasta.eodGt_fasta abc habc') t2 t3 t4 t5 _ _ ?_ hg
    have : ∀ (l : List (List UInt8 × List UInt8 × List UInt8)), l.length ≤ (allText l).length := by
      intro l
      induction l with
      | nil => simp [allText]
      | cons r l ih => simp only [allText, fastaText, List.length_append, List.length_cons, List.length_nil]; omega
    have := this (rs.map fun r => (r.1, r.2.1, textize abc r.2.2))
    omega
  · clear hg
    generalize (allText (rs.map fun r => (r.1, r.2.1, textize abc r.2.2))).length = N
    induction rs with
    | nil => rfl
    | cons r rs ih =>
      obtain ⟨_, _, _, _, g5⟩ := hn r (by simp)
      simp only [List.map_cons, expected, ih (fun r' hr' => hn r' (by simp [hr'])), (textize_ok abc habc r.2.2 g5).2]

/-- the bytes `esl_sqascii_WriteFasta` writes for a digital record without accession whose strings hold no NUL -/
theorem writeFasta_digital (sq : Sq) (hd : sq.digital = true) (ha : cstr sq.acc = #[]) (hn : cstr sq.name = sq.name) (hds : cstr sq.desc = sq.desc) :
    writeFasta sq = fastaText sq.name.toList sq.desc.toList (textize sq.abc sq.seq.toList) := by
  unfold writeFasta fastaText textize
  simp [hd, ha, hn, hds]

end EaselModel.Sqio.RoundTrip
