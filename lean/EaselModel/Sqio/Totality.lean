import EaselModel.Sqio.InfoSeqSpec
/-! # Totality of the FASTA reader at the level of the calls (C02) and agreement of the three calls (C04)

Everything here is a corollary of the closed forms: the status of `recL` / `infoL` / `seqL` is `eslOK`, `eslEOF` or `eslEFORMAT` by
construction, a record they return is well formed, every successful record consumes at least one byte (so the record loop ends within
`size + 1` calls), and the model's calls return exactly these closed forms for every block size. -/
namespace EaselModel.Sqio.Totality
open EaselModel.Sqio.Refine EaselModel.Sqio.Fold EaselModel.Sqio.DataScan EaselModel.Sqio.Cursor EaselModel.Sqio.BodySpec
open EaselModel.Sqio.HeaderSpec EaselModel.Sqio.ReadSpec EaselModel.Sqio.ParseFasta EaselModel.Sqio.InfoSeqSpec

theorem headerL_status (N : Nat) (sq : Sq) (l : List UInt8) :
    (headerL N sq l).1 = .ok ∨ (headerL N sq l).1 = .eof ∨ (headerL N sq l).1 = .eformat := by
  unfold headerL
  split
  · simp
  · split
    · simp
    · split <;> simp

theorem skipL_status (N : Nat) (sq : Sq) (l : List UInt8) :
    (skipL N sq l).1 = .ok ∨ (skipL N sq l).1 = .eof ∨ (skipL N sq l).1 = .eformat := by
  unfold skipL
  split
  · simp
  · split <;> simp

theorem bodyL_status (inmap map : Bytes) (N : Nat) (sq : Sq) (l : List UInt8) :
    (bodyL inmap map N sq l).1 = .ok ∨ (bodyL inmap map N sq l).1 = .eformat := by
  unfold bodyL
  split
  · simp
  · split <;> simp

theorem recL_status (inmap : Bytes) (N : Nat) (sq : Sq) (l : List UInt8) :
    (recL inmap N sq l).1 = .ok ∨ (recL inmap N sq l).1 = .eof ∨ (recL inmap N sq l).1 = .eformat := by
  unfold recL
  split
  · simp
  · split
    · rcases bodyL_status inmap (mapFor inmap sq) N (headerL N sq l).2.1 (headerL N sq l).2.2 with h | h
      · exact Or.inl h
      · exact Or.inr (Or.inr h)
    · exact headerL_status N sq l

theorem seqL_status (inmap : Bytes) (N : Nat) (sq : Sq) (l : List UInt8) :
    (seqL inmap N sq l).1 = .ok ∨ (seqL inmap N sq l).1 = .eof ∨ (seqL inmap N sq l).1 = .eformat := by
  unfold seqL
  split
  · simp
  · split
    · rcases bodyL_status inmap (mapFor inmap sq) N (skipL N sq l).2.1 (skipL N sq l).2.2 with h | h
      · exact Or.inl h
      · exact Or.inr (Or.inr h)
    · exact skipL_status N sq l

theorem infoL_status (inmap : Bytes) (N : Nat) (sq : Sq) (l : List UInt8) :
    (infoL inmap N sq l).1 = .ok ∨ (infoL inmap N sq l).1 = .eof ∨ (infoL inmap N sq l).1 = .eformat := by
  unfold infoL
  split
  · simp
  · split
    · unfold infoBodyL
      split
      · simp
      · split <;> simp
    · exact headerL_status N sq l

/-- a string of `size` bytes held in `alloc` bytes stays strictly inside its allocation while it grows (room for the NUL) -/
theorem allocGrow_inv (alloc size n : Nat) (h : size + 1 < alloc) : size + n + 1 < allocGrow alloc size n := by
  induction n generalizing alloc size with
  | zero => exact h
  | succ n ih =>
    simp only [allocGrow]
    have := ih (if (size + 1 == alloc - 1) = true then alloc * 2 else alloc) (size + 1) (by
      split
      · rename_i k; have := eq_of_beq k; omega
      · rename_i k; have : size + 1 ≠ alloc - 1 := by simpa using k
        omega)
    omega

theorem dropWhile_length_le (p : UInt8 → Bool) (l : List UInt8) : (l.dropWhile p).length ≤ l.length := by
  have := takeWhile_length_le p l; omega

/-- a well-formed `ESL_SQ` as `sqascii_Read` returns it: strings inside their allocations with room for the NUL, a non-empty name,
    residues inside their allocation with room for the terminator / sentinel, coordinates of a whole sequence -/
def WellFormed (s : Sq) : Prop :=
  0 < s.name.size ∧ s.name.size + 1 < s.nalloc ∧ s.desc.size + 1 < s.dalloc ∧ s.termOk = true ∧
  s.start = 1 ∧ s.end_ = (s.n : Int) ∧ s.C = 0 ∧ s.W = (s.n : Int) ∧ s.L = (s.n : Int) ∧
  0 ≤ s.roff ∧ s.roff < s.hoff ∧ s.hoff ≤ s.doff ∧ s.doff ≤ s.eoff + 1

theorem wf_setWhole (s : Sq) (e : Int) (h1 : 0 < s.name.size) (h2 : s.name.size + 1 < s.nalloc) (h3 : s.desc.size + 1 < s.dalloc)
    (hT : s.termOk = true) (h4 : 0 ≤ s.roff) (h5 : s.roff < s.hoff) (h6 : s.hoff ≤ s.doff) (h7 : s.doff ≤ e + 1) :
    WellFormed ({ s with eoff := e } : Sq).setWhole :=
  ⟨h1, h2, h3, hT, rfl, rfl, rfl, rfl, rfl, h4, h5, h6, h7⟩

theorem stored_fields (inmap map : Bytes) (sq : Sq) (d : List UInt8) :
    (stored true inmap map sq d).name = sq.name ∧ (stored true inmap map sq d).nalloc = sq.nalloc ∧
    (stored true inmap map sq d).desc = sq.desc ∧ (stored true inmap map sq d).dalloc = sq.dalloc ∧
    (stored true inmap map sq d).roff = sq.roff ∧ (stored true inmap map sq d).hoff = sq.hoff ∧
    (stored true inmap map sq d).doff = sq.doff := by
  simp [stored]

theorem headerL_wf (N : Nat) (sq : Sq) (l : List UInt8) (hl : l.length ≤ N) (hn : 2 ≤ sq.nalloc) (hd : 2 ≤ sq.dalloc)
    (h : (headerL N sq l).1 = .ok) :
    0 < (headerL N sq l).2.1.name.size ∧ (headerL N sq l).2.1.name.size + 1 < (headerL N sq l).2.1.nalloc ∧
    (headerL N sq l).2.1.desc.size + 1 < (headerL N sq l).2.1.dalloc ∧
    0 ≤ (headerL N sq l).2.1.roff ∧ (headerL N sq l).2.1.roff < (headerL N sq l).2.1.hoff ∧
    (headerL N sq l).2.1.hoff ≤ (headerL N sq l).2.1.doff ∧ (headerL N sq l).2.1.doff = offOf N (headerL N sq l).2.2 ∧
    (headerL N sq l).2.2.length < l.length := by
  revert h
  unfold headerL
  have h0 := dropWhile_length_le isSpace l
  split
  · intro k; cases k
  · rename_i c l2 hc
    rw [hc] at h0
    simp only [List.length_cons] at h0
    split
    · intro k; cases k
    · split
      · intro k; cases k
      · rename_i r hr
        intro _
        unfold hfNameL at hr
        split at hr
        · cases hr
        · rename_i hne
          have := (Option.some.inj hr).symm
          subst this
          have a1 := dropWhile_length_le isBlankTab l2
          have a2 := takeWhile_length_le pName (l2.dropWhile isBlankTab)
          have a3 := dropWhile_length_le isBlankTab ((l2.dropWhile isBlankTab).dropWhile pName)
          have a4 := takeWhile_length_le pDesc (((l2.dropWhile isBlankTab).dropWhile pName).dropWhile isBlankTab)
          have a5 := dropWhile_length_le pNotEol ((((l2.dropWhile isBlankTab).dropWhile pName).dropWhile isBlankTab).dropWhile pDesc)
          have a6 := dropWhile_length_le pEol (((((l2.dropWhile isBlankTab).dropWhile pName).dropWhile isBlankTab).dropWhile pDesc).dropWhile pNotEol)
          have hpos : 0 < ((l2.dropWhile isBlankTab).takeWhile pName).length := by
            cases hh : (l2.dropWhile isBlankTab).takeWhile pName with
            | nil => rw [hh] at hne; simp at hne
            | cons _ _ => simp
          have g1 := allocGrow_inv sq.nalloc 0 ((l2.dropWhile isBlankTab).takeWhile pName).length (by omega)
          have g2 := allocGrow_inv sq.dalloc 0 ((((l2.dropWhile isBlankTab).dropWhile pName).dropWhile isBlankTab).takeWhile pDesc).length (by omega)
          simp only [hfDescL, hfEndL, offOf, List.size_toArray, List.length_cons]
          refine ⟨hpos, by omega, by omega, by omega, by omega, by omega, trivial, by omega⟩

theorem recL_wf (inmap : Bytes) (N : Nat) (sq : Sq) (l : List UInt8) (hl : l.length ≤ N) (hn : 2 ≤ sq.nalloc) (hd : 2 ≤ sq.dalloc)
    (h : (recL inmap N sq l).1 = .ok) :
    WellFormed (recL inmap N sq l).2.1 ∧ (recL inmap N sq l).2.2.length < l.length := by
  revert h
  unfold recL
  split
  · intro k; cases k
  · split
    · rename_i hok
      obtain ⟨w1, w2, w3, w4, w5, w6, w7, w8⟩ := headerL_wf N sq l hl hn hd (eq_of_beq hok)
      generalize (headerL N sq l).2.1 = s1 at *
      generalize (headerL N sq l).2.2 = l1 at *
      have b0 := dropWhile_length_le (isData inmap) l1
      obtain ⟨f1, f2, f3, f4, f5, f6, f7⟩ := stored_fields inmap (mapFor inmap sq) s1 (l1.takeWhile (isData inmap))
      have hT := stored_termOk inmap (mapFor inmap sq) s1 (l1.takeWhile (isData inmap))
      unfold bodyL
      generalize stored true inmap (mapFor inmap sq) s1 (l1.takeWhile (isData inmap)) = S at f1 f2 f3 f4 f5 f6 f7 hT ⊢
      split
      · intro _
        refine ⟨?_, ?_⟩
        · refine wf_setWhole S _ (by rw [f1]; exact w1) (by rw [f1, f2]; exact w2) (by rw [f3, f4]; exact w3) hT (by rw [f5]; exact w4)
            (by rw [f5, f6]; exact w5) (by rw [f6, f7]; exact w6) ?_
          rw [f7, w7]; simp only [offOf, List.length_nil]; omega
        · show ([] : List UInt8).length < l.length
          simp only [List.length_nil]; omega
      · rename_i c t hr
        rw [hr] at b0
        split
        · intro _
          refine ⟨?_, ?_⟩
          · refine wf_setWhole S _ (by rw [f1]; exact w1) (by rw [f1, f2]; exact w2) (by rw [f3, f4]; exact w3) hT (by rw [f5]; exact w4)
              (by rw [f5, f6]; exact w5) (by rw [f6, f7]; exact w6) ?_
            rw [f7, w7]; simp only [offOf]; omega
          · show (c :: t).length < l.length
            omega
        · intro k; cases k
    · rename_i hne hnok
      intro h
      exact absurd (by rw [h]; rfl) hnok

/-- **the record loop ends**: with `fuel > bytes left` it finishes with `eslEOF` or `eslEFORMAT` — never by running out of fuel
    (`fault`) — and every record it returned is well formed -/
theorem parseAllL_total (inmap : Bytes) (N : Nat) (fuel : Nat) : ∀ (sq : Sq) (l : List UInt8), l.length < fuel → l.length ≤ N →
    2 ≤ sq.nalloc → 2 ≤ sq.dalloc →
    ((parseAllL inmap N fuel sq l).2 = .eof ∨ (parseAllL inmap N fuel sq l).2 = .eformat) ∧
    ∀ s ∈ (parseAllL inmap N fuel sq l).1, WellFormed s := by
  induction fuel with
  | zero => intro sq l h; omega
  | succ fuel ih =>
    intro sq l hf hN hn hd
    simp only [parseAllL]
    by_cases hok : (recL inmap N sq.reuse l).1 = .ok
    · have hb : ((recL inmap N sq.reuse l).1 == Status.ok) = true := by rw [hok]; rfl
      simp only [hb, if_true]
      obtain ⟨w, hlt⟩ := recL_wf inmap N sq.reuse l hN hn hd hok
      obtain ⟨_, _, k3, k4⟩ := recL_keeps inmap N sq.reuse l hok
      obtain ⟨i1, i2⟩ := ih (recL inmap N sq.reuse l).2.1 (recL inmap N sq.reuse l).2.2 (by omega) (by omega)
        (Nat.le_trans hn k3) (Nat.le_trans hd k4)
      refine ⟨i1, fun s hs => ?_⟩
      rcases List.mem_cons.mp hs with e | e
      · rw [e]; exact w
      · exact i2 s e
    · have hb : ((recL inmap N sq.reuse l).1 == Status.ok) = false := by simpa using hok
      simp only [hb, Bool.false_eq_true, if_false]
      refine ⟨?_, fun s hs => by cases hs⟩
      rcases recL_status inmap N sq.reuse l with h | h | h
      · exact absurd h hok
      · exact Or.inl h
      · exact Or.inr h


/-! ## model-level corollaries -/

/-- **`Read`, `ReadInfo`, `ReadSequence` agree — on the model, for every block size.** From one ready handle (an `ESL_SQ` without residues,
    as after `esl_sq_Reuse`): if `sqascii_Read` succeeds then `ReadInfo` and `ReadSequence` succeed, all three leave the cursor on the
    same file byte, and the records agree field by field. -/
theorem three_calls_agree (a : Ascii) (sq : Sq) (R : Ready a sq) (hs : sq.seq = #[]) (hsa : 2 ≤ sq.salloc)
    (hok : (read a sq).2.2 = .ok) :
    (readInfo a sq).2.2 = .ok ∧ (readSequence a sq).2.2 = .ok ∧
    fileFrom (readInfo a sq).1 = fileFrom (read a sq).1 ∧ fileFrom (readSequence a sq).1 = fileFrom (read a sq).1 ∧
    (readInfo a sq).2.1.name = (read a sq).2.1.name ∧ (readInfo a sq).2.1.desc = (read a sq).2.1.desc ∧
    (readInfo a sq).2.1.roff = (read a sq).2.1.roff ∧ (readInfo a sq).2.1.hoff = (read a sq).2.1.hoff ∧
    (readInfo a sq).2.1.doff = (read a sq).2.1.doff ∧ (readInfo a sq).2.1.eoff = (read a sq).2.1.eoff ∧
    (readInfo a sq).2.1.L = (read a sq).2.1.L ∧ (readInfo a sq).2.1.L = ((read a sq).2.1.seq.size : Int) ∧
    (readSequence a sq).2.1.seq = (read a sq).2.1.seq ∧ (readSequence a sq).2.1.roff = (read a sq).2.1.roff ∧
    (readSequence a sq).2.1.doff = (read a sq).2.1.doff ∧ (readSequence a sq).2.1.eoff = (read a sq).2.1.eoff ∧
    (readSequence a sq).2.1.L = (read a sq).2.1.L ∧ (readSequence a sq).2.1.start = (read a sq).2.1.start ∧
    (readSequence a sq).2.1.end_ = (read a sq).2.1.end_ := by
  obtain ⟨r1, r2, _, _⟩ := read_spec a sq R
  obtain ⟨i1, i2, _, _⟩ := readInfo_spec a sq R hsa
  obtain ⟨s1, s2, _, _⟩ := readSequence_spec a sq R
  have hrec : (recL a.inmap a.file.size sq (fileFrom a)).1 = .ok := by rw [← r1]; exact hok
  obtain ⟨g1, g2, g3, g4, g5, g6, g7, g8, g9, g10, g11, g12, g13, g14, g15, g16, g17, g18, g19⟩ :=
    info_seq_agree_L a.inmap a.file.size sq sq (fileFrom a) hs rfl rfl hs hrec
  obtain ⟨ra, _, rc, _⟩ := r2 hrec
  obtain ⟨ia, _, ic, _⟩ := i2 g1
  obtain ⟨sa, _, sc, _⟩ := s2 g11
  rw [ra, ia, sa, rc, ic, sc, i1, s1]
  exact ⟨g1, g11, g2, g12, g3, g4, g5, g6, g7, g8, g9, g10, g13, g14, g15, g16, g17, g18, g19⟩

/-- **`sqascii_Read` is total** (C02 at the level of the call): from every ready handle — any file bytes, any cursor position, any
    block size — the outcome is `eslOK`, `eslEOF` or `eslEFORMAT` (so never `fault`: no access outside the buffer or outside an
    allocation of the `ESL_SQ`); `eslEFORMAT` comes with a message; on `eslOK` the record is well formed and the handle is ready for the
    next call. -/
theorem read_total (a : Ascii) (sq : Sq) (R : Ready a sq) :
    ((read a sq).2.2 = .ok ∨ (read a sq).2.2 = .eof ∨ (read a sq).2.2 = .eformat) ∧
    ((read a sq).2.2 = .eformat → (read a sq).1.haveErr = true) ∧
    ((read a sq).2.2 = .ok → WellFormed (read a sq).2.1 ∧ Ready (read a sq).1 (read a sq).2.1.reuse ∧
       (fileFrom (read a sq).1).length < (fileFrom a).length) := by
  obtain ⟨r1, r2, r3, _⟩ := read_spec a sq R
  have hlen : (fileFrom a).length ≤ a.file.size := by have := R.cur.len; omega
  refine ⟨by rw [r1]; exact recL_status _ _ _ _, fun k => r3 (by rw [← r1]; exact k), fun k => ?_⟩
  have hrec : (recL a.inmap a.file.size sq (fileFrom a)).1 = .ok := by rw [← r1]; exact k
  obtain ⟨m1, m2, m3, m4⟩ := r2 hrec
  obtain ⟨w1, w2⟩ := recL_wf a.inmap a.file.size sq (fileFrom a) hlen R.nalloc R.dalloc hrec
  obtain ⟨k1, k2, k3, k4⟩ := recL_keeps _ _ _ _ hrec
  rw [m1, m3]
  exact ⟨w1, R.next m2 m4 k1 k2 k3 k4, w2⟩

theorem readInfo_total (a : Ascii) (sq : Sq) (R : Ready a sq) (hsa : 2 ≤ sq.salloc) :
    ((readInfo a sq).2.2 = .ok ∨ (readInfo a sq).2.2 = .eof ∨ (readInfo a sq).2.2 = .eformat) ∧
    ((readInfo a sq).2.2 = .eformat → (readInfo a sq).1.haveErr = true) := by
  obtain ⟨r1, _, r3, _⟩ := readInfo_spec a sq R hsa
  exact ⟨by rw [r1]; exact infoL_status _ _ _ _, fun k => r3 (by rw [← r1]; exact k)⟩

theorem readSequence_total (a : Ascii) (sq : Sq) (R : Ready a sq) :
    ((readSequence a sq).2.2 = .ok ∨ (readSequence a sq).2.2 = .eof ∨ (readSequence a sq).2.2 = .eformat) ∧
    ((readSequence a sq).2.2 = .eformat → (readSequence a sq).1.haveErr = true) := by
  obtain ⟨r1, _, r3, _⟩ := readSequence_spec a sq R
  exact ⟨by rw [r1]; exact seqL_status _ _ _ _, fun k => r3 (by rw [← r1]; exact k)⟩

/-- **The whole FASTA reader is total, for every byte string and every block size**: reading all records from open on ends within
    `size + 2` calls with `eslEOF` or `eslEFORMAT` — never `fault`, never out of fuel — and every record returned is well formed. -/
theorem read_all_total (bytes : Bytes) (B abc : Nat) (hB : 1 ≤ B) (habc : abc ∈ [0, 1, 2, 3]) :
    ((readAllM (bytes.size + 2) (openFasta bytes B abc) (freshSq abc)).2 = .eof ∨
     (readAllM (bytes.size + 2) (openFasta bytes B abc) (freshSq abc)).2 = .eformat) ∧
    ∀ s ∈ (readAllM (bytes.size + 2) (openFasta bytes B abc) (freshSq abc)).1, WellFormed s := by
  rw [read_all_eq_parseFasta bytes B abc hB habc]
  unfold parseFasta
  exact parseAllL_total (inmapFasta abc) bytes.size (bytes.size + 2) (freshSq abc) bytes.toList (by simp) (by simp)
    (by show 2 ≤ 32; decide) (by show 2 ≤ 128; decide)

end EaselModel.Sqio.Totality
