import EaselModel.Sqio.Model
/-! # Specification-level facts about the FASTA layout (C04): the 60-column writer loses nothing -/
namespace EaselModel.Sqio.Spec

theorem chunk60_succ (l : List UInt8) (fuel : Nat) :
    chunk60 l (fuel + 1) = if l.isEmpty then [] else l.take 60 ++ [chNl] ++ chunk60 (l.drop 60) fuel := rfl

/-- the residue lines written by `esl_sqascii_WriteFasta`, with the newlines taken out again, are the residues -/
theorem chunk60_filter (fuel : Nat) (l : List UInt8) (hf : l.length < fuel) (hnl : ∀ x ∈ l, x ≠ chNl) :
    (chunk60 l fuel).filter (fun x => x != chNl) = l := by
  induction fuel generalizing l with
  | zero => omega
  | succ fuel ih =>
    rw [chunk60_succ]
    by_cases he : l.isEmpty = true
    · simp only [he, if_true]
      have : l = [] := List.isEmpty_iff.mp he
      simp [this]
    · have he' : l.isEmpty = false := by cases h : l.isEmpty <;> simp_all
      simp only [he', Bool.false_eq_true, if_false]
      have hne : l ≠ [] := fun h => he (by simp [h])
      have hlen : 0 < l.length := List.length_pos_iff.mpr hne
      have hdrop : (l.drop 60).length < fuel := by rw [List.length_drop]; omega
      have hnl' : ∀ x ∈ l.drop 60, x ≠ chNl := fun x hx => hnl x (List.mem_of_mem_drop hx)
      have htake : (l.take 60).filter (fun x => x != chNl) = l.take 60 :=
        List.filter_eq_self.mpr (fun x hx => by simpa using hnl x (List.mem_of_mem_take hx))
      rw [List.filter_append, List.filter_append, htake, ih _ hdrop hnl']
      simp [chNl]

/-- every line written holds at most 60 residues and every line but the last exactly 60 (the writer's fixed geometry) -/
theorem chunk60_first_line (fuel : Nat) (l : List UInt8) (hne : l ≠ []) :
    ∃ rest, chunk60 l (fuel + 1) = l.take 60 ++ chNl :: rest := by
  rw [chunk60_succ]
  have : l.isEmpty = false := by cases l <;> simp_all
  simp [this]

end EaselModel.Sqio.Spec
