import EaselModel.Sqio.Refine
/-! # Block-size independence by simulation (C04, C02)

Two handles on the same file, possibly with different read-block sizes `B₁`, `B₂`, are *similar* when both are well formed, their
cursors are on the same absolute file position and everything that is not block bookkeeping is equal. `nextchar` — and hence every
`while (status == eslOK && p(c)) status = nextchar(sqfp, &c)` loop the header parsers are made of — maps similar handles to similar
handles and returns the same status and character. So what a header parser sees and stores does not depend on where the block
boundaries fall. -/
namespace EaselModel.Sqio.Sim
open EaselModel.Sqio.Refine

/-- the part of the handle that is not block bookkeeping -/
def payload (a : Ascii) : Bytes × Int × Int × Track × Bytes × Bool × Nat × Nat × Bool × Bool × Int × Int :=
  (a.file, a.L, a.linenumber, a.trk, a.inmap, a.eofIsOk, a.fmt, a.abc, a.haveErr, a.exc, a.bookmarkOff, a.bookmarkLine)

/-- cursor on a byte of the buffer, or end of file reached (`nc = 0`) -/
def Live (a : Ascii) : Prop := a.bpos < a.nc
def AtEof (a : Ascii) : Prop := a.nc = 0 ∧ a.bpos = 0

structure Sim (a1 a2 : Ascii) : Prop where
  wf1 : WF a1
  wf2 : WF a2
  rest : payload a1 = payload a2
  pos : pos a1 = pos a2
  cur : (Live a1 ∧ Live a2) ∨ (AtEof a1 ∧ AtEof a2)

theorem payload_bpos (a : Ascii) (b : Nat) : payload { a with bpos := b } = payload a := rfl

theorem loadbuf_rest (a : Ascii) (h : Pre a) : payload (loadbuf a).1 = payload a := by
  rw [loadbuf_block a h.block h.norec h.full]
  rfl

/-- `nextchar` leaves everything but the block bookkeeping alone -/
theorem nextchar_rest (a : Ascii) (c : UInt8) (h : WF a) (hb : a.bpos < a.nc) : payload (nextchar a c).1 = payload a := by
  by_cases hlast : a.nc = a.bpos + 1
  · have hpre : Pre { a with bpos := a.bpos + 1 } :=
      ⟨h.block, h.norec, h.bpos1, by show a.mpos ≥ a.mn; rw [h.full]; exact Nat.le_refl _, h.fposLe⟩
    have hr := loadbuf_rest _ hpre
    rw [nextchar_eq_load a c hlast]
    split
    · exact hr
    · split <;> exact hr
  · rw [nextchar_eq_stay a c hlast]
    split <;> rfl

/-- **`nextchar` respects similarity**: same status, same character, similar handles; on `eslOK` both cursors are on a byte, otherwise
    both handles are at end of file. -/
theorem nextchar_sim (a1 a2 : Ascii) (c : UInt8) (h : Sim a1 a2) (h1 : Live a1) (h2 : Live a2) :
    (nextchar a1 c).2.1 = (nextchar a2 c).2.1 ∧ (nextchar a1 c).2.2 = (nextchar a2 c).2.2 ∧
    Sim (nextchar a1 c).1 (nextchar a2 c).1 ∧
    ((nextchar a1 c).2.1 = .ok ∧ Live (nextchar a1 c).1 ∧ Live (nextchar a2 c).1 ∨
     (nextchar a1 c).2.1 = .eof ∧ AtEof (nextchar a1 c).1 ∧ AtEof (nextchar a2 c).1) := by
  obtain ⟨w1, f1, _, r1⟩ := nextchar_refines a1 c h.wf1 h1
  obtain ⟨w2, f2, _, r2⟩ := nextchar_refines a2 c h.wf2 h2
  have hfile : a1.file = a2.file := congrArg (·.1) h.rest
  have hrest : payload (nextchar a1 c).1 = payload (nextchar a2 c).1 := by
    rw [nextchar_rest a1 c h.wf1 h1, nextchar_rest a2 c h.wf2 h2]; exact h.rest
  have hp := h.pos
  rcases r1 with ⟨s1, l1, p1, g1⟩ | ⟨s1, c1, e1, n1, b1, q1⟩
  · rcases r2 with ⟨s2, l2, p2, g2⟩ | ⟨s2, c2, e2, n2, b2, q2⟩
    · have hc : (nextchar a1 c).2.2 = (nextchar a2 c).2.2 := by
        rw [hfile, hp] at g1; rw [g1] at g2; exact Option.some.inj g2
      exact ⟨by rw [s1, s2], hc, ⟨w1, w2, hrest, by rw [p1, p2, hp], Or.inl ⟨l1, l2⟩⟩, Or.inl ⟨s1, l1, l2⟩⟩
    · -- a1 finds a byte at pos+1 but a2 is at the end of the same file: impossible
      exfalso
      have hlt : (pos a1 + 1).toNat < a1.file.size := by
        by_cases hh : (pos a1 + 1).toNat < a1.file.size
        · exact hh
        · simp [hh] at g1
      have hsz : a1.file.size = a2.file.size := by rw [hfile]
      have hnn : 0 ≤ pos a1 + 1 := by
        have := h.wf1.boffEq; have := h.wf1.ncLe; have := h.wf1.moff0; simp only [pos]; omega
      omega
  · rcases r2 with ⟨s2, l2, p2, g2⟩ | ⟨s2, c2, e2, n2, b2, q2⟩
    · exfalso
      have hlt : (pos a2 + 1).toNat < a2.file.size := by
        by_cases hh : (pos a2 + 1).toNat < a2.file.size
        · exact hh
        · simp [hh] at g2
      have hsz : a1.file.size = a2.file.size := by rw [hfile]
      have hnn : 0 ≤ pos a2 + 1 := by
        have := h.wf2.boffEq; have := h.wf2.ncLe; have := h.wf2.moff0; simp only [pos]; omega
      omega
    · have hpe : pos (nextchar a1 c).1 = pos (nextchar a2 c).1 := by rw [q1, q2, hp]
      exact ⟨by rw [s1, s2], by rw [c1, c2], ⟨w1, w2, hrest, hpe, Or.inr ⟨⟨n1, b1⟩, ⟨n2, b2⟩⟩⟩, Or.inr ⟨s1, ⟨n1, b1⟩, ⟨n2, b2⟩⟩⟩

theorem skipWhile_succ (p : UInt8 → Bool) (fuel : Nat) (a : Ascii) (st : Status) (c : UInt8) :
    skipWhile p (fuel + 1) a st c =
      if (st == .ok && p c) = true then skipWhile p fuel (nextchar a c).1 (nextchar a c).2.1 (nextchar a c).2.2 else (a, st, c) := rfl

/-- **Every header loop is block-size independent**: `while (status == eslOK && p(c)) status = nextchar(sqfp, &c)` run from similar
    handles with the same status and character ends with the same status and character on similar handles. -/
theorem skipWhile_sim (p : UInt8 → Bool) (fuel : Nat) (a1 a2 : Ascii) (st : Status) (c : UInt8) (h : Sim a1 a2)
    (hl : st = .ok → Live a1 ∧ Live a2) :
    (skipWhile p fuel a1 st c).2.1 = (skipWhile p fuel a2 st c).2.1 ∧
    (skipWhile p fuel a1 st c).2.2 = (skipWhile p fuel a2 st c).2.2 ∧
    Sim (skipWhile p fuel a1 st c).1 (skipWhile p fuel a2 st c).1 ∧
    ((skipWhile p fuel a1 st c).2.1 = .ok → Live (skipWhile p fuel a1 st c).1 ∧ Live (skipWhile p fuel a2 st c).1) := by
  induction fuel generalizing a1 a2 st c with
  | zero =>
    refine ⟨rfl, rfl, h, ?_⟩
    intro hok
    by_cases hc : (st == .ok && p c) = true
    · simp [skipWhile, hc] at hok
    · have : (skipWhile p 0 a1 st c).2.1 = st := by simp [skipWhile, hc]
      exact hl (by rw [← this]; exact hok)
  | succ fuel ih =>
    rw [skipWhile_succ, skipWhile_succ]
    by_cases hc : (st == .ok && p c) = true
    · simp only [hc, if_true]
      have hst : st = .ok := by
        have := (Bool.and_eq_true _ _).mp hc
        exact eq_of_beq this.1
      obtain ⟨l1, l2⟩ := hl hst
      obtain ⟨e1, e2, hs, hcase⟩ := nextchar_sim a1 a2 c h l1 l2
      rw [e1, e2]
      apply ih _ _ _ _ hs
      intro hok
      rcases hcase with ⟨_, q1, q2⟩ | ⟨q0, _, _⟩
      · exact ⟨q1, q2⟩
      · rw [e1] at q0; rw [q0] at hok; cases hok
    · simp only [hc, Bool.false_eq_true, if_false]
      exact ⟨by first | rfl | trivial, by first | rfl | trivial, h, fun hok => hl hok⟩

theorem storeWhile_succ (p : UInt8 → Bool) (fuel : Nat) (a : Ascii) (st : Status) (c : UInt8) (acc : Bytes) (alloc : Nat) :
    storeWhile p (fuel + 1) a st c acc alloc =
      if (st == .ok && p c) = true then
        if acc.size < alloc then
          storeWhile p fuel (nextchar a c).1 (nextchar a c).2.1 (nextchar a c).2.2 (acc.push c)
            (if (acc.push c).size == alloc - 1 then alloc * 2 else alloc)
        else (a, .fault, c, acc, alloc)
      else (a, st, c, acc, alloc) := rfl

/-- the storing loops (name, description): same bytes stored, same allocation growth, same status and character, similar handles -/
theorem storeWhile_sim (p : UInt8 → Bool) (fuel : Nat) (a1 a2 : Ascii) (st : Status) (c : UInt8) (acc : Bytes) (alloc : Nat)
    (h : Sim a1 a2) (hl : st = .ok → Live a1 ∧ Live a2) :
    (storeWhile p fuel a1 st c acc alloc).2 = (storeWhile p fuel a2 st c acc alloc).2 ∧
    Sim (storeWhile p fuel a1 st c acc alloc).1 (storeWhile p fuel a2 st c acc alloc).1 ∧
    ((storeWhile p fuel a1 st c acc alloc).2.1 = .ok → Live (storeWhile p fuel a1 st c acc alloc).1 ∧ Live (storeWhile p fuel a2 st c acc alloc).1) := by
  induction fuel generalizing a1 a2 st c acc alloc with
  | zero =>
    refine ⟨rfl, h, ?_⟩
    intro hok
    by_cases hc : (st == .ok && p c) = true
    · simp [storeWhile, hc] at hok
    · have : (storeWhile p 0 a1 st c acc alloc).2.1 = st := by simp [storeWhile, hc]
      exact hl (by rw [← this]; exact hok)
  | succ fuel ih =>
    rw [storeWhile_succ, storeWhile_succ]
    by_cases hc : (st == .ok && p c) = true
    · simp only [hc, if_true]
      by_cases ha : acc.size < alloc
      · simp only [ha, if_true]
        have hst : st = .ok := eq_of_beq ((Bool.and_eq_true _ _).mp hc).1
        obtain ⟨l1, l2⟩ := hl hst
        obtain ⟨e1, e2, hs, hcase⟩ := nextchar_sim a1 a2 c h l1 l2
        rw [e1, e2]
        apply ih _ _ _ _ _ _ hs
        intro hok
        rcases hcase with ⟨_, q1, q2⟩ | ⟨q0, _, _⟩
        · exact ⟨q1, q2⟩
        · rw [e1] at q0; rw [q0] at hok; cases hok
      · simp only [ha, if_false]
        exact ⟨by first | rfl | trivial, h, fun hok => by cases hok⟩
    · simp only [hc, Bool.false_eq_true, if_false]
      exact ⟨by first | rfl | trivial, h, fun hok => hl hok⟩

/-- **The simulation starts at open / Position**: two handles on the same file with nothing buffered and the same `FILE*` position
    (any two block sizes) are similar after their first `loadbuf`, with the same status. -/
theorem loadbuf_sim (a1 a2 : Ascii) (h1 : Pre a1) (h2 : Pre a2) (hp : payload a1 = payload a2) (hf : a1.fpos = a2.fpos) :
    (loadbuf a1).2 = (loadbuf a2).2 ∧ Sim (loadbuf a1).1 (loadbuf a2).1 := by
  obtain ⟨w1, b1, f1, _, p1, c1⟩ := loadbuf_wf a1 h1
  obtain ⟨w2, b2, f2, _, p2, c2⟩ := loadbuf_wf a2 h2
  have hfile : a1.file = a2.file := congrArg (·.1) hp
  have hr : payload (loadbuf a1).1 = payload (loadbuf a2).1 := by rw [loadbuf_rest a1 h1, loadbuf_rest a2 h2]; exact hp
  have hpos : pos (loadbuf a1).1 = pos (loadbuf a2).1 := by rw [p1, p2, hf]
  rcases c1 with ⟨s1, n1, l1⟩ | ⟨s1, n1, e1⟩
  · rcases c2 with ⟨s2, n2, l2⟩ | ⟨s2, n2, e2⟩
    · exact ⟨by rw [s1, s2], ⟨w1, w2, hr, hpos, Or.inl ⟨by unfold Live; omega, by unfold Live; omega⟩⟩⟩
    · exfalso; rw [hfile, hf] at l1; omega
  · rcases c2 with ⟨s2, n2, l2⟩ | ⟨s2, n2, e2⟩
    · exfalso; rw [hfile, hf] at e1; omega
    · exact ⟨by rw [s1, s2], ⟨w1, w2, hr, hpos, Or.inr ⟨⟨n1, b1⟩, ⟨n2, b2⟩⟩⟩⟩

/-! ## composition: `header_fasta` -/

theorem Sim.fileEq {a1 a2 : Ascii} (h : Sim a1 a2) : a1.file = a2.file := congrArg (·.1) h.rest
theorem Sim.fuelEq {a1 a2 : Ascii} (h : Sim a1 a2) : fuelOf a2 = fuelOf a1 := by simp [fuelOf, h.fileEq]

theorem Sim.fail {a1 a2 : Ascii} (h : Sim a1 a2) : Sim a1.fail a2.fail := by
  obtain ⟨w1, w2, hr, hp, hc⟩ := h
  refine ⟨⟨w1.block, w1.norec, w1.bpos1, w1.full, w1.moff0, w1.fposEq, w1.fposLe, w1.ncLe, w1.boffEq, w1.bposLe⟩,
          ⟨w2.block, w2.norec, w2.bpos1, w2.full, w2.moff0, w2.fposEq, w2.fposLe, w2.ncLe, w2.boffEq, w2.bposLe⟩, ?_, hp, hc⟩
  simp only [payload, Ascii.fail, Prod.mk.injEq] at hr ⊢
  obtain ⟨r1, r2, r3, r4, r5, r6, r7, r8, _, r10, r11, r12⟩ := hr
  exact ⟨r1, r2, r3, r4, r5, r6, r7, r8, trivial, r10, r11, r12⟩

/-- the byte under the cursor is the same file byte -/
theorem Sim.curByte {a1 a2 : Ascii} (h : Sim a1 a2) (l1 : Live a1) (l2 : Live a2) :
    ∃ x, a1.bufGet a1.bpos = some x ∧ a2.bufGet a2.bpos = some x := by
  obtain ⟨x1, g1, f1, _⟩ := bufGet_window a1 h.wf1 a1.bpos l1
  obtain ⟨x2, g2, f2, _⟩ := bufGet_window a2 h.wf2 a2.bpos l2
  have hp := h.pos
  have n1 : 0 ≤ a1.boff := by have := h.wf1.boffEq; have := h.wf1.ncLe; have := h.wf1.moff0; omega
  have n2 : 0 ≤ a2.boff := by have := h.wf2.boffEq; have := h.wf2.ncLe; have := h.wf2.moff0; omega
  have e : a1.boff.toNat + a1.bpos = a2.boff.toNat + a2.bpos := by simp only [Refine.pos] at hp; omega
  rw [h.fileEq, e, f2] at f1
  exact ⟨x1, g1, by rw [g2, f1]⟩

/-- absolute offsets recorded by the parsers (`boff + bpos`) agree -/
theorem Sim.offEq {a1 a2 : Ascii} (h : Sim a1 a2) : a1.boff + (a1.bpos : Int) = a2.boff + (a2.bpos : Int) := h.pos

/-- equal updates of fields outside the block bookkeeping keep handles similar -/
theorem Sim.newRecord {a1 a2 : Ascii} (h : Sim a1 a2) :
    Sim { a1 with trk := { a1.trk with prvrpl := -1, prvbpl := -1, currpl := 0, curbpl := 0 }, linenumber := a1.linenumber + 1 }
        { a2 with trk := { a2.trk with prvrpl := -1, prvbpl := -1, currpl := 0, curbpl := 0 }, linenumber := a2.linenumber + 1 } := by
  obtain ⟨w1, w2, hr, hp, hc⟩ := h
  refine ⟨⟨w1.block, w1.norec, w1.bpos1, w1.full, w1.moff0, w1.fposEq, w1.fposLe, w1.ncLe, w1.boffEq, w1.bposLe⟩,
          ⟨w2.block, w2.norec, w2.bpos1, w2.full, w2.moff0, w2.fposEq, w2.fposLe, w2.ncLe, w2.boffEq, w2.bposLe⟩, ?_, hp, hc⟩
  simp only [payload, Prod.mk.injEq] at hr ⊢
  obtain ⟨r1, r2, r3, r4, r5, r6, r7, r8, r9, r10, r11, r12⟩ := hr
  exact ⟨r1, r2, by rw [r3], by rw [r4], r5, r6, r7, r8, r9, r10, r11, r12⟩

/-- stage 5 of `header_fasta` -/
theorem hfEnd_sim (a1 a2 : Ascii) (sq : Sq) (st : Status) (c : UInt8) (h : Sim a1 a2) (hl : st = .ok → Live a1 ∧ Live a2) :
    (hfEnd a1 sq st c).2 = (hfEnd a2 sq st c).2 ∧ Sim (hfEnd a1 sq st c).1 (hfEnd a2 sq st c).1 := by
  unfold hfEnd
  rw [h.fuelEq]
  have s1 := skipWhile_sim (fun c => c != chNl && c != chCr) (fuelOf a1) a1 a2 st c h hl
  generalize skipWhile (fun c => c != chNl && c != chCr) (fuelOf a1) a1 st c = r1 at s1 ⊢
  generalize skipWhile (fun c => c != chNl && c != chCr) (fuelOf a1) a2 st c = r2 at s1 ⊢
  obtain ⟨b1, st1, c1⟩ := r1
  obtain ⟨b2, st2, c2⟩ := r2
  simp only at s1 ⊢
  obtain ⟨rfl, rfl, hs, hl1⟩ := s1
  rw [hs.fuelEq]
  have s2 := skipWhile_sim (fun c => c == chNl || c == chCr) (fuelOf b1) b1 b2 st1 c1 hs hl1
  generalize skipWhile (fun c => c == chNl || c == chCr) (fuelOf b1) b1 st1 c1 = q1 at s2 ⊢
  generalize skipWhile (fun c => c == chNl || c == chCr) (fuelOf b1) b2 st1 c1 = q2 at s2 ⊢
  obtain ⟨d1, t1, e1⟩ := q1
  obtain ⟨d2, t2, e2⟩ := q2
  simp only at s2 ⊢
  obtain ⟨rfl, rfl, hs2, _⟩ := s2
  have ho1 := hs.offEq
  have ho2 := hs2.offEq
  rw [ho1, ho2]
  by_cases k1 : (t1 == Status.fault) = true
  · simp only [k1, if_true]; exact ⟨trivial, hs2⟩
  · by_cases k2 : (t1 != Status.ok && t1 != Status.eof) = true
    · simp only [k1, k2, if_true, Bool.false_eq_true, if_false]; exact ⟨trivial, hs2.fail⟩
    · simp only [k1, k2, Bool.false_eq_true, if_false]; exact ⟨trivial, hs2.newRecord⟩

/-- stage 4 of `header_fasta` -/
theorem hfDesc_sim (a1 a2 : Ascii) (sq : Sq) (st : Status) (c : UInt8) (h : Sim a1 a2) (hl : st = .ok → Live a1 ∧ Live a2) :
    (hfDesc a1 sq st c).2 = (hfDesc a2 sq st c).2 ∧ Sim (hfDesc a1 sq st c).1 (hfDesc a2 sq st c).1 := by
  unfold hfDesc
  rw [h.fuelEq]
  have s1 := skipWhile_sim isBlankTab (fuelOf a1) a1 a2 st c h hl
  generalize skipWhile isBlankTab (fuelOf a1) a1 st c = r1 at s1 ⊢
  generalize skipWhile isBlankTab (fuelOf a1) a2 st c = r2 at s1 ⊢
  obtain ⟨b1, st1, c1⟩ := r1
  obtain ⟨b2, st2, c2⟩ := r2
  simp only at s1 ⊢
  obtain ⟨rfl, rfl, hs, hl1⟩ := s1
  rw [hs.fuelEq]
  have s2 := storeWhile_sim (fun c => c != chNl && c != chCr && c != 1) (fuelOf b1) b1 b2 st1 c1 #[] sq.dalloc hs hl1
  generalize storeWhile (fun c => c != chNl && c != chCr && c != 1) (fuelOf b1) b1 st1 c1 #[] sq.dalloc = q1 at s2 ⊢
  generalize storeWhile (fun c => c != chNl && c != chCr && c != 1) (fuelOf b1) b2 st1 c1 #[] sq.dalloc = q2 at s2 ⊢
  obtain ⟨d1, t1, e1, ds1, al1⟩ := q1
  obtain ⟨d2, t2, e2, ds2, al2⟩ := q2
  simp only [Prod.mk.injEq] at s2 ⊢
  obtain ⟨⟨rfl, rfl, rfl, rfl⟩, hs2, hl2⟩ := s2
  by_cases k1 : (t1 == Status.fault) = true
  · simp only [k1, if_true]; exact ⟨trivial, hs2⟩
  · by_cases k2 : (!decide (ds1.size < al1)) = true
    · simp only [k1, k2, if_true, Bool.false_eq_true, if_false]; exact ⟨trivial, hs2⟩
    · simp only [k1, k2, Bool.false_eq_true, if_false]
      exact hfEnd_sim d1 d2 _ t1 e1 hs2 hl2

/-- stage 3 of `header_fasta` -/
theorem hfName_sim (a1 a2 : Ascii) (sq : Sq) (st : Status) (c : UInt8) (h : Sim a1 a2) (hl : st = .ok → Live a1 ∧ Live a2) :
    (hfName a1 sq st c).2 = (hfName a2 sq st c).2 ∧ Sim (hfName a1 sq st c).1 (hfName a2 sq st c).1 := by
  unfold hfName
  rw [h.fuelEq]
  have s1 := skipWhile_sim isBlankTab (fuelOf a1) a1 a2 st c h hl
  generalize skipWhile isBlankTab (fuelOf a1) a1 st c = r1 at s1 ⊢
  generalize skipWhile isBlankTab (fuelOf a1) a2 st c = r2 at s1 ⊢
  obtain ⟨b1, st1, c1⟩ := r1
  obtain ⟨b2, st2, c2⟩ := r2
  simp only at s1 ⊢
  obtain ⟨rfl, rfl, hs, hl1⟩ := s1
  rw [hs.fuelEq]
  have s2 := storeWhile_sim (fun c => !isSpace c) (fuelOf b1) b1 b2 st1 c1 #[] sq.nalloc hs hl1
  generalize storeWhile (fun c => !isSpace c) (fuelOf b1) b1 st1 c1 #[] sq.nalloc = q1 at s2 ⊢
  generalize storeWhile (fun c => !isSpace c) (fuelOf b1) b2 st1 c1 #[] sq.nalloc = q2 at s2 ⊢
  obtain ⟨d1, t1, e1, ds1, al1⟩ := q1
  obtain ⟨d2, t2, e2, ds2, al2⟩ := q2
  simp only [Prod.mk.injEq] at s2 ⊢
  obtain ⟨⟨rfl, rfl, rfl, rfl⟩, hs2, hl2⟩ := s2
  by_cases k1 : (t1 == Status.fault) = true
  · simp only [k1, if_true]; exact ⟨trivial, hs2⟩
  · by_cases k0 : (ds1.size == 0) = true
    · simp only [k1, k0, if_true, Bool.false_eq_true, if_false]; exact ⟨trivial, hs2.fail⟩
    · by_cases k2 : (!decide (ds1.size < al1)) = true
      · simp only [k1, k0, k2, if_true, Bool.false_eq_true, if_false]; exact ⟨trivial, hs2⟩
      · simp only [k1, k0, k2, Bool.false_eq_true, if_false]
        exact hfDesc_sim d1 d2 _ t1 e1 hs2 hl2

/-- stage 2 of `header_fasta` -/
theorem hfGt_sim (a1 a2 : Ascii) (sq : Sq) (st : Status) (c : UInt8) (h : Sim a1 a2) (hl : st = .ok → Live a1 ∧ Live a2) :
    (hfGt a1 sq st c).2 = (hfGt a2 sq st c).2 ∧ Sim (hfGt a1 sq st c).1 (hfGt a2 sq st c).1 := by
  unfold hfGt
  by_cases k1 : (st == Status.eof) = true
  · simp only [k1, if_true]; exact ⟨trivial, h⟩
  · by_cases k2 : (st == Status.ok && c != chGt) = true
    · simp only [k1, k2, if_true, Bool.false_eq_true, if_false]; exact ⟨trivial, h.fail⟩
    · by_cases k3 : (st != Status.ok && c != chGt) = true
      · simp only [k1, k2, k3, if_true, Bool.false_eq_true, if_false]; exact ⟨trivial, h.fail⟩
      · by_cases k4 : (st != Status.ok) = true
        · have k5 : (c != chGt) = false := by
            cases hh : (c != chGt) with
            | false => rfl
            | true => rw [k4, hh] at k3; exact absurd rfl k3
          simp only [k1, k2, k4, k5, Bool.and_false, Bool.true_and, if_true, Bool.false_eq_true, if_false]; exact ⟨trivial, h⟩
        · simp only [k1, k2, k3, k4, Bool.false_eq_true, if_false]
          have hst : st = .ok := by
            cases st <;> simp_all
          obtain ⟨l1, l2⟩ := hl hst
          obtain ⟨e1, e2, hs, hcase⟩ := nextchar_sim a1 a2 c h l1 l2
          rw [h.offEq, e1, e2]
          apply hfName_sim _ _ _ _ _ hs
          intro hok
          rcases hcase with ⟨_, q1, q2⟩ | ⟨q0, _, _⟩
          · exact ⟨q1, q2⟩
          · rw [e1] at q0; rw [q0] at hok; cases hok

/-- **`header_fasta` is block-size independent**: from similar handles whose cursors are on a byte (the state at the start of every
    record), the parser returns the same status and the same `ESL_SQ` — name, description, `roff`, `hoff`, `doff`, allocations —
    and leaves similar handles (same absolute position, same line number and line-geometry bookkeeping). -/
theorem headerFasta_sim (a1 a2 : Ascii) (sq : Sq) (h : Sim a1 a2) (l1 : Live a1) (l2 : Live a2) :
    (headerFasta a1 sq).2 = (headerFasta a2 sq).2 ∧ Sim (headerFasta a1 sq).1 (headerFasta a2 sq).1 := by
  have hn1 : (a1.nc == a1.bpos) = false := by simp only [Live] at l1; simp; omega
  have hn2 : (a2.nc == a2.bpos) = false := by simp only [Live] at l2; simp; omega
  obtain ⟨x, hx1, hx2⟩ := h.curByte l1 l2
  unfold headerFasta
  simp only [hn1, hn2, Bool.false_eq_true, if_false, hx1, hx2]
  have hne : (Status.ok != Status.ok) = false := by decide
  simp only [hne, Bool.false_eq_true, if_false]
  rw [h.fuelEq]
  have s1 := skipWhile_sim isSpace (fuelOf a1) a1 a2 .ok x h (fun _ => ⟨l1, l2⟩)
  generalize skipWhile isSpace (fuelOf a1) a1 .ok x = r1 at s1 ⊢
  generalize skipWhile isSpace (fuelOf a1) a2 .ok x = r2 at s1 ⊢
  obtain ⟨b1, st1, c1⟩ := r1
  obtain ⟨b2, st2, c2⟩ := r2
  simp only at s1 ⊢
  obtain ⟨rfl, rfl, hs, hl1⟩ := s1
  exact hfGt_sim b1 b2 sq st1 c1 hs hl1

end EaselModel.Sqio.Sim
