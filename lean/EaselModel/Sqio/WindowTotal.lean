import EaselModel.Sqio.WindowSeries
/-! # `read_nres` and the forward `sqascii_ReadWindow` are total: any bytes give a normal outcome (C02)

`WindowSpec` describes `read_nres` exactly on clean data. Here the data may hold any byte: the outcome is `eslOK`, `eslEOD` or
`eslEFORMAT` (with a message) — never `fault`, never an exception — the handle stays well formed, and the `ESL_SQ` only grows by at
most the requested number of residues. -/
namespace EaselModel.Sqio.WindowTotal
open EaselModel.Sqio EaselModel.Sqio.Refine EaselModel.Sqio.Fold EaselModel.Sqio.DataScan EaselModel.Sqio.Cursor
open EaselModel.Sqio.BodySpec EaselModel.Sqio.WindowSpec EaselModel.Sqio.WindowSeries EaselModel.Sqio.HeaderSpec EaselModel.Sqio.ReadSpec

/-- the four situations of one buffer, for arbitrary bytes -/
theorem split_cases4 (inmap : Bytes) (cb : List UInt8) (m : Nat) :
    (nresOf inmap (splitRes inmap cb m).1 = m ∧ splitSt inmap cb m = .ok) ∨
    (nresOf inmap (splitRes inmap cb m).1 < m ∧ (splitRes inmap cb m).2 = [] ∧ (splitRes inmap cb m).1 = cb ∧
       splitSt inmap cb m = .ok) ∨
    (nresOf inmap (splitRes inmap cb m).1 < m ∧ (∃ c t, (splitRes inmap cb m).2 = c :: t) ∧ splitSt inmap cb m = .eod) ∨
    (nresOf inmap (splitRes inmap cb m).1 < m ∧ (∃ c t, (splitRes inmap cb m).2 = c :: t) ∧ splitSt inmap cb m = .eformat) := by
  have hle := splitRes_nres_le inmap cb m
  have happ := splitRes_append_eq inmap cb m
  by_cases hq : nresOf inmap (splitRes inmap cb m).1 = m
  · left; exact ⟨hq, by simp [splitSt, hq]⟩
  · right
    have hlt : nresOf inmap (splitRes inmap cb m).1 < m := by omega
    have hcase : (splitRes inmap cb m).2 = [] ∨ ∃ c t, (splitRes inmap cb m).2 = c :: t := by
      cases (splitRes inmap cb m).2 <;> simp
    rcases hcase with hs2 | ⟨c, t, hs2⟩
    · left
      rw [hs2, List.append_nil] at happ
      exact ⟨hlt, hs2, happ, by simp [splitSt, hs2]⟩
    · right
      by_cases he : isEod inmap c = true
      · left; exact ⟨hlt, ⟨c, t, hs2⟩, by simp [splitSt, hq, hs2, stopSt, he]⟩
      · right; exact ⟨hlt, ⟨c, t, hs2⟩, by simp [splitSt, hq, hs2, stopSt, he]⟩

/-- `Seen` without the promise that the scan did not fail -/
structure Seen' (a : Ascii) (m n epos : Nat) (st : Status) : Prop where
  wf : WF a
  tok : st ≠ .eformat → Track.Ok a.trk
  err : st = .eformat → a.haveErr = true
  hm : a.inmap.size = 128
  n_eq : n = nresOf a.inmap (splitRes a.inmap (curBuf a) m).1
  epos_eq : epos = a.bpos + (splitRes a.inmap (curBuf a) m).1.length
  st_eq : st = splitSt a.inmap (curBuf a) m

theorem seen'_seebuf (a : Ascii) (w : WF a) (tok : Track.Ok a.trk) (hm : a.inmap.size = 128) (m : Nat) :
    Seen' (seebuf a (some m)).1 m (seebuf a (some m)).2.nres (seebuf a (some m)).2.endpos (seebuf a (some m)).2.st ∧
    fileFrom (seebuf a (some m)).1 = fileFrom a ∧ keep (seebuf a (some m)).1 = keep a ∧
    (seebuf a (some m)).1.bpos = a.bpos ∧ (seebuf a (some m)).1.nc = a.nc := by
  obtain ⟨s1, s2, s3, s4, s5, s6, s7, s8⟩ := seebuf_some_facts a w tok hm m
  have hi : (seebuf a (some m)).1.inmap = a.inmap := keep_inmap s7
  have hcb : curBuf (seebuf a (some m)).1 = curBuf a := curBuf_of_blk s5 s6
  have hnc : (seebuf a (some m)).1.nc = a.nc := congrArg (fun p => p.2.2.2.2.2.2.2.2.2) s5
  have herr : (seebuf a (some m)).2.st = .eformat → (seebuf a (some m)).1.haveErr = true := by
    intro k
    rw [seebuf_haveErr, k]; simp
  exact ⟨⟨s4, s8, herr, by rw [hi]; exact hm, by rw [hi, hcb]; exact s1, by rw [hi, hcb, s6]; exact s2, by rw [hi, hcb]; exact s3⟩,
    fileFrom_of_blk s5 s6, s7, s6, hnc⟩

/-- the weak description of what `read_nres(…, 0, m, …)` has done when it returns -/
structure Tot (a0 : Ascii) (sq0 : Sq) (m actual0 : Nat) (r : Ascii × Sq × Status × Nat) : Prop where
  st : r.2.2.1 = .ok ∨ r.2.2.1 = .eod ∨ r.2.2.1 = .eformat
  err : r.2.2.1 = .eformat → r.1.haveErr = true
  tok : r.2.2.1 ≠ .eformat → Track.Ok r.1.trk
  wf : WF r.1
  kp : keep r.1 = keep a0
  sq_eq : ∃ d : Bytes, r.2.1 = { sq0 with seq := sq0.seq ++ d } ∧ d.size ≤ m
  act : r.2.2.2 ≤ actual0 + m

theorem finish_eformat (a : Ascii) (sq : Sq) (nres n actual epos : Nat) :
    WindowSpec.finish a sq nres n actual epos .eformat = (a, sq, .eformat, 0) := by
  have e1 : (Status.eformat == Status.fault) = false := by decide
  have e2 : (Status.eformat == Status.eof) = false := by decide
  unfold WindowSpec.finish
  simp only [e1, e2, Bool.false_and, Bool.false_eq_true, if_false, beq_self_eq_true, if_true]

theorem finish_eof_bad (a : Ascii) (sq : Sq) (nres n actual epos : Nat) (he : a.eofIsOk = false) :
    WindowSpec.finish a sq nres n actual epos .eof = (a.fail, sq, .eformat, 0) := by
  have e1 : (Status.eof == Status.fault) = false := by decide
  unfold WindowSpec.finish
  simp only [e1, he, Bool.false_eq_true, if_false, beq_self_eq_true, Bool.not_false, Bool.and_self, if_true]

theorem stat_cases (k : Nat) : (if (k == 0) = true then Status.eod else Status.ok) = .ok ∨
    (if (k == 0) = true then Status.eod else Status.ok) = .eod ∨ (if (k == 0) = true then Status.eod else Status.ok) = .eformat := by
  by_cases h : (k == 0) = true <;> simp [h]

theorem stat_ne (k : Nat) : (if (k == 0) = true then Status.eod else Status.ok) ≠ .eformat := by
  by_cases h : (k == 0) = true <;> simp [h]

theorem Tot.lift {a a3 : Ascii} {sq : Sq} {m n actual : Nat} {r : Ascii × Sq × Status × Nat} (dd : Bytes)
    (hk : keep a3 = keep a) (hn : dd.size = n) (hnm : n < m)
    (d : Tot a3 { sq with seq := sq.seq ++ dd } (m - n) (actual + n) r) : Tot a sq m actual r := by
  obtain ⟨d1, d2, d3, d4, d5, ⟨d', e1, e2⟩, d7⟩ := d
  refine ⟨d1, d2, d3, d4, d5.trans hk, ⟨dd ++ d', ?_, ?_⟩, by omega⟩
  · rw [e1]; simp only [Array.append_assoc]
  · simp only [Array.size_append]; omega

/-- **the second loop of `read_nres` and what follows it, for arbitrary bytes** -/
theorem addLoop_total (fuel : Nat) : ∀ (a : Ascii) (sq : Sq) (m n actual epos : Nat) (st : Status),
    Seen' a m n epos st → MapOk a.inmap (mapOf a sq) →
    sq.seq.size + m + (if sq.digital then 2 else 1) ≤ sq.salloc →
    (fileFrom a).length + (if a.bpos < a.nc then 0 else 1) < fuel →
    Tot a sq m actual (finishT (nresAddLoop fuel a sq m n actual epos st)) := by
  induction fuel with
  | zero => intro a sq m n actual epos st _ _ _ hf; omega
  | succ fuel ih =>
    intro a sq m n actual epos st hS hmap hcap hfuel
    have w := hS.wf
    have hsplit := fileFrom_split a
    have hcl := curBuf_length a w
    have hbl := w.bposLe
    have happ := splitRes_append_eq a.inmap (curBuf a) m
    have hlen : (splitRes a.inmap (curBuf a) m).1.length + (splitRes a.inmap (curBuf a) m).2.length = a.nc - a.bpos := by
      rw [← hcl, ← List.length_append, happ]
    have hsz : ∀ d : List UInt8, (resOf a.inmap (mapOf a sq) d).size = nresOf a.inmap d := fun d => resOf_size _ _ d
    rw [nresAddLoop_succ]
    rcases split_cases4 a.inmap (curBuf a) m with ⟨c1, c2⟩ | ⟨c1, c2, c3, c4⟩ | ⟨c1, ⟨c, t, c2⟩, c3⟩ | ⟨c1, _, c3⟩
    · -- limit reached
      have hst : st = .ok := hS.st_eq.trans c2
      have hn : n = m := hS.n_eq.trans c1
      subst hst; subst hn
      have hcond : ((Status.ok == Status.ok) && decide (n > n)) = false := by simp
      simp only [hcond, Bool.false_eq_true, if_false]
      rw [finishT_eq, finish_ok a sq n n actual epos _ _ (by rw [Nat.min_self]; exact addbuf_exact a sq n w hmap c1 hcap)
        (termOk_of_cap _ (by simp only [Array.size_append, hsz, c1]; omega))]
      rw [Nat.min_self]
      refine ⟨stat_cases _, fun k => absurd k (stat_ne _), fun _ => hS.tok (by decide), ?_, rfl, ⟨_, rfl, by rw [hsz, c1]; exact Nat.le_refl _⟩,
        Nat.le_refl _⟩
      exact WF_of_blk (a := a) rfl w (by show a.bpos + _ ≤ a.nc; omega)
    · -- buffer used up
      have hst : st = .ok := hS.st_eq.trans c4
      have hn : n = nresOf a.inmap (curBuf a) := by rw [hS.n_eq, c3]
      rw [c3] at c1
      have hnm : n < m := by omega
      subst hst
      have hcond : ((Status.ok == Status.ok) && decide (m > n)) = true := by simp; omega
      simp only [hcond, if_true]
      have htake : (curBuf a).take (a.nc - a.bpos) = curBuf a := by
        rw [← hcl]; exact List.take_length
      have hdata : ∀ x ∈ curBuf a, isData a.inmap x = true := by
        intro x hx
        have := splitRes_data a.inmap (curBuf a) m x
        rw [c3] at this; exact this hx
      obtain ⟨b', hb'⟩ := addbuf_some a sq n (a.nc - a.bpos) w hmap (Nat.le_refl _) (by rw [htake]; exact hdata)
        (by rw [htake]; exact hn) (by omega)
      rw [htake] at hb'
      rw [hb']
      have e1 : (Status.ok == Status.fault) = false := by decide
      simp only [e1, Bool.false_eq_true, if_false]
      obtain ⟨l1, l2, l3, l4, l5, l6⟩ := loadbuf_next a { a with bpos := b' } w rfl
      have hdsz : (resOf a.inmap (mapOf a sq) (curBuf a)).size = n := by rw [hsz, hn]
      have hcap1 : (sq.seq ++ resOf a.inmap (mapOf a sq) (curBuf a)).size + (m - n) + (if sq.digital then 2 else 1) ≤ sq.salloc := by
        simp only [Array.size_append, hdsz]; omega
      have htokA : Track.Ok a.trk := hS.tok (by decide)
      rcases l6 with ⟨o1, o2, o3⟩ | ⟨o1, o2, o3, o4⟩
      · have e2 : ((loadbuf { a with bpos := b' }).2 == Status.eof) = false := by rw [o1]; decide
        simp only [e2, Bool.false_eq_true, if_false]
        have hk2 : keep (loadbuf { a with bpos := b' }).1 = keep a := l4
        have hi2 : (loadbuf { a with bpos := b' }).1.inmap = a.inmap := keep_inmap hk2
        have htok2 : Track.Ok (loadbuf { a with bpos := b' }).1.trk := by rw [l5]; exact htokA
        obtain ⟨q1, q2, q3, q4, q5⟩ := seen'_seebuf (loadbuf { a with bpos := b' }).1 l1 htok2 (by rw [hi2]; exact hS.hm) (m - n)
        have hk3 := q3.trans hk2
        have hi3 := keep_inmap hk3
        have hmap3 : mapOf (seebuf (loadbuf { a with bpos := b' }).1 (some (m - n))).1
            { sq with seq := sq.seq ++ resOf a.inmap (mapOf a sq) (curBuf a) } = mapOf a sq := by
          simp only [mapOf, hi3]
        have hff3 := q2.trans l3
        have hlenF : (fileFrom a).length = (a.nc - a.bpos) + ((fileFrom a).drop (a.nc - a.bpos)).length := by
          have := congrArg List.length hsplit
          rw [List.length_append, hcl] at this; exact this
        have key := ih _ { sq with seq := sq.seq ++ resOf a.inmap (mapOf a sq) (curBuf a) } (m - n) _ (actual + n) _ _ q1
          (by rw [hmap3, hi3]; exact hmap) hcap1
          (by
            rw [hff3, q4, q5, l2]
            simp only [o2, if_true]
            by_cases hb : a.bpos < a.nc
            · simp only [hb, if_true] at hfuel; omega
            · simp only [hb, if_false] at hfuel; omega)
        exact Tot.lift _ hk3 hdsz hnm key
      · have e2 : ((loadbuf { a with bpos := b' }).2 == Status.eof) = true := by rw [o1]; decide
        simp only [e2, if_true]
        rw [finishT_eq]
        cases heo : (loadbuf { a with bpos := b' }).1.eofIsOk with
        | true =>
          rw [finish_eof _ _ _ _ _ _ heo (termOk_of_cap _ (by simp only [Array.size_append, hdsz]; omega))]
          exact ⟨stat_cases _, fun k => absurd k (stat_ne _), fun _ => by rw [l5]; exact htokA, l1, l4,
            ⟨_, rfl, by rw [hdsz]; omega⟩, by show actual + n ≤ actual + m; omega⟩
        | false =>
          rw [finish_eof_bad _ _ _ _ _ _ heo]
          refine ⟨Or.inr (Or.inr rfl), fun _ => rfl, fun k => absurd rfl k, ?_, l4, ⟨_, rfl, by rw [hdsz]; omega⟩, Nat.zero_le _⟩
          exact WF_of_blk (a := (loadbuf { a with bpos := b' }).1) rfl l1 l1.bposLe
    · -- end of data
      have hst : st = .eod := hS.st_eq.trans c3
      have hn := hS.n_eq
      subst hst
      have hcond : ((Status.eod == Status.ok) && decide (m > n)) = false := by simp
      simp only [hcond, Bool.false_eq_true, if_false]
      have hk : (splitRes a.inmap (curBuf a) m).1.length ≤ a.nc - a.bpos := by omega
      have htake : (curBuf a).take (splitRes a.inmap (curBuf a) m).1.length = (splitRes a.inmap (curBuf a) m).1 := by
        have e : (curBuf a).take (splitRes a.inmap (curBuf a) m).1.length =
            ((splitRes a.inmap (curBuf a) m).1 ++ (splitRes a.inmap (curBuf a) m).2).take (splitRes a.inmap (curBuf a) m).1.length := by
          rw [happ]
        exact e.trans (List.take_left' rfl)
      obtain ⟨b', hb'⟩ := addbuf_some a sq n _ w hmap hk (by rw [htake]; exact splitRes_data a.inmap (curBuf a) m)
        (by rw [htake]; exact hn) (by omega)
      rw [htake] at hb'
      have hmin : min m n = n := by omega
      rw [finishT_eq, finish_eod a sq m n actual epos _ _ (by rw [hmin]; exact hb')
        (termOk_of_cap _ (by simp only [Array.size_append, hsz, ← hn]; omega)), hmin]
      have hs2len : 0 < (splitRes a.inmap (curBuf a) m).2.length := by rw [c2]; simp
      have hepos : epos = a.bpos + (splitRes a.inmap (curBuf a) m).1.length := hS.epos_eq
      refine ⟨stat_cases _, fun k => absurd k (stat_ne _), fun _ => hS.tok (by decide), ?_, rfl,
        ⟨_, rfl, by rw [hsz, ← hn]; omega⟩, by show actual + n ≤ actual + m; omega⟩
      exact WF_of_blk (a := a) rfl w (by show epos ≤ a.nc; omega)
    · -- an illegal byte
      have hst : st = .eformat := hS.st_eq.trans c3
      subst hst
      have hcond : ((Status.eformat == Status.ok) && decide (m > n)) = false := by simp
      simp only [hcond, Bool.false_eq_true, if_false]
      rw [finishT_eq, finish_eformat]
      exact ⟨Or.inr (Or.inr rfl), fun _ => hS.err rfl, fun k => absurd rfl k, w, rfl, ⟨#[], by simp, Nat.zero_le _⟩, Nat.zero_le _⟩

theorem readNres_zero_eformat (a : Ascii) (sq : Sq) (W : Nat) (hst : (seebuf a (some W)).2.st = .eformat) :
    readNres a sq 0 W = ((seebuf a (some W)).1, sq, .eformat, 0) := by
  unfold readNres
  rw [Nat.zero_add]
  generalize seebuf a (some W) = sb at hst ⊢
  obtain ⟨a1, see⟩ := sb
  simp only at hst ⊢
  rw [nresSkipLoop_zero']
  have e1 : (Status.eformat == Status.fault) = false := by decide
  have e2 : (Status.eformat == Status.eof) = false := by decide
  have e3 : (Status.eformat == Status.eod) = false := by decide
  have e4 : (Status.eformat != Status.ok) = true := by decide
  simp only [hst, e1, e2, e3, e4, Bool.false_eq_true, if_false, if_true]

/-- the result record of `readNres_zero_total` -/
theorem readNres_zero_tot (a : Ascii) (sq : Sq) (W : Nat) (w : WF a) (tok : Track.Ok a.trk) (hm : a.inmap.size = 128)
    (hmap : MapOk a.inmap (mapOf a sq)) (hcap : sq.seq.size + W + (if sq.digital then 2 else 1) ≤ sq.salloc) :
    Tot a sq W 0 (readNres a sq 0 W) := by
  obtain ⟨q1, q2, q3, q4, q5⟩ := seen'_seebuf a w tok hm W
  have hi := keep_inmap q3
  have hlen := (fileFrom_length a w).1
  rcases split_cases4 (seebuf a (some W)).1.inmap (curBuf (seebuf a (some W)).1) W with
    ⟨_, h⟩ | ⟨_, _, _, h⟩ | ⟨_, _, h⟩ | ⟨_, _, h⟩
  all_goals rw [← q1.st_eq] at h
  · have key := addLoop_total (fuelOf (seebuf a (some W)).1) (seebuf a (some W)).1 sq W _ 0 _ _ q1
      (by have : mapOf (seebuf a (some W)).1 sq = mapOf a sq := by simp only [mapOf, hi]
          rw [this, hi]; exact hmap) hcap
      (by rw [q2]; show _ < (seebuf a (some W)).1.file.size + 2; rw [keep_file q3]; split <;> omega)
    rw [readNres_zero_eq a sq W (Or.inl h)]
    obtain ⟨d1, d2, d3, d4, d5, d6, d7⟩ := key
    exact ⟨d1, d2, d3, d4, d5.trans q3, d6, d7⟩
  · have key := addLoop_total (fuelOf (seebuf a (some W)).1) (seebuf a (some W)).1 sq W _ 0 _ _ q1
      (by have : mapOf (seebuf a (some W)).1 sq = mapOf a sq := by simp only [mapOf, hi]
          rw [this, hi]; exact hmap) hcap
      (by rw [q2]; show _ < (seebuf a (some W)).1.file.size + 2; rw [keep_file q3]; split <;> omega)
    rw [readNres_zero_eq a sq W (Or.inl h)]
    obtain ⟨d1, d2, d3, d4, d5, d6, d7⟩ := key
    exact ⟨d1, d2, d3, d4, d5.trans q3, d6, d7⟩
  · have key := addLoop_total (fuelOf (seebuf a (some W)).1) (seebuf a (some W)).1 sq W _ 0 _ _ q1
      (by have : mapOf (seebuf a (some W)).1 sq = mapOf a sq := by simp only [mapOf, hi]
          rw [this, hi]; exact hmap) hcap
      (by rw [q2]; show _ < (seebuf a (some W)).1.file.size + 2; rw [keep_file q3]; split <;> omega)
    rw [readNres_zero_eq a sq W (Or.inr h)]
    obtain ⟨d1, d2, d3, d4, d5, d6, d7⟩ := key
    exact ⟨d1, d2, d3, d4, d5.trans q3, d6, d7⟩
  · rw [readNres_zero_eformat a sq W h]
    exact ⟨Or.inr (Or.inr rfl), fun _ => q1.err h, fun k => absurd rfl k, q1.wf, q3, ⟨#[], by simp, Nat.zero_le _⟩, Nat.zero_le _⟩

/-- **`read_nres` with `nskip = 0` is total, for every byte string and every block size**: the outcome is `eslOK`, `eslEOD` or
    `eslEFORMAT` (then with a message) — never a fault, never an exception; the handle stays well formed on the same file; the
    `ESL_SQ` only gets at most `W` residues appended; at most `W` residues are reported. No hypothesis on the data, on `eofIsOk` or on `W`. -/
theorem readNres_zero_total (a : Ascii) (sq : Sq) (W : Nat) (w : WF a) (tok : Track.Ok a.trk) (hm : a.inmap.size = 128)
    (hmap : MapOk a.inmap (mapOf a sq)) (hcap : sq.seq.size + W + (if sq.digital then 2 else 1) ≤ sq.salloc) :
    let r := readNres a sq 0 W
    (r.2.2.1 = .ok ∨ r.2.2.1 = .eod ∨ r.2.2.1 = .eformat) ∧
    (r.2.2.1 = .eformat → r.1.haveErr = true) ∧
    (r.2.2.1 ≠ .eformat → Track.Ok r.1.trk) ∧
    WF r.1 ∧ stat r.1 = stat a ∧ r.1.exc = a.exc ∧ r.1.L = a.L ∧ r.1.bookmarkOff = a.bookmarkOff ∧ r.1.bookmarkLine = a.bookmarkLine ∧
    (∃ d : Bytes, r.2.1 = { sq with seq := sq.seq ++ d } ∧ d.size ≤ W) ∧ r.2.1.seq.size ≤ sq.seq.size + W ∧ r.2.2.2 ≤ W := by
  intro r
  obtain ⟨d1, d2, d3, d4, d5, ⟨d, e1, e2⟩, d7⟩ := readNres_zero_tot a sq W w tok hm hmap hcap
  have k := d5
  simp only [keep, Prod.mk.injEq] at k
  obtain ⟨_, _, _, _, _, k6, k7, k8, k9⟩ := k
  refine ⟨d1, d2, d3, d4, keep_stat d5, k7, k6, k8, k9, ⟨d, e1, e2⟩, ?_, by simpa using d7⟩
  show r.2.1.seq.size ≤ _
  rw [e1]; simp only [Array.size_append]; omega

/-! ## `header_fasta` raises no exception -/

theorem payload_exc {a b : Ascii} (h : Sim.payload a = Sim.payload b) : a.exc = b.exc :=
  congrArg (fun p => p.2.2.2.2.2.2.2.2.2.1) h

theorem hfEnd_exc (a : Ascii) (sq : Sq) (st : Status) (c : UInt8) (l : List UInt8) (h : Abs a st c l) :
    (hfEnd a sq st c).1.exc = a.exc := by
  unfold hfEnd
  simp only []
  have s1 := skipWhile_abs (fun c => c != chNl && c != chCr) (fuelOf a) a st c l h h.fuel
  generalize skipWhile (fun c => c != chNl && c != chCr) (fuelOf a) a st c = r1 at s1 ⊢
  obtain ⟨a1, st1, c1⟩ := r1
  obtain ⟨h1, p1⟩ := s1
  simp only [] at h1 p1 ⊢
  have s2 := skipWhile_abs (fun c => c == chNl || c == chCr) (fuelOf a1) a1 st1 c1 _ h1 h1.fuel
  generalize skipWhile (fun c => c == chNl || c == chCr) (fuelOf a1) a1 st1 c1 = r2 at s2 ⊢
  obtain ⟨a2, st2, c2⟩ := r2
  obtain ⟨h2, p2⟩ := s2
  simp only [] at h2 p2 ⊢
  have hexc : a2.exc = a.exc := (payload_exc p2).trans (payload_exc p1)
  repeat' split
  all_goals exact hexc

theorem hfDesc_exc (a : Ascii) (sq : Sq) (st : Status) (c : UInt8) (l : List UInt8) (h : Abs a st c l) (hd : 2 ≤ sq.dalloc) :
    (hfDesc a sq st c).1.exc = a.exc := by
  unfold hfDesc
  simp only []
  have s1 := skipWhile_abs isBlankTab (fuelOf a) a st c l h h.fuel
  generalize skipWhile isBlankTab (fuelOf a) a st c = r1 at s1 ⊢
  obtain ⟨a1, st1, c1⟩ := r1
  obtain ⟨h1, p1⟩ := s1
  simp only [] at h1 p1 ⊢
  have s2 := storeWhile_abs (fun c => c != chNl && c != chCr && c != 1) (fuelOf a1) a1 st1 c1 _ #[] sq.dalloc h1 h1.fuel
    (by simp; omega)
  generalize storeWhile (fun c => c != chNl && c != chCr && c != 1) (fuelOf a1) a1 st1 c1 #[] sq.dalloc = r2 at s2 ⊢
  obtain ⟨a2, st2, c2, acc2, al2⟩ := r2
  obtain ⟨h2, e2, i2, g2, p2⟩ := s2
  simp only [] at h2 e2 i2 g2 p2 ⊢
  have hexc : a2.exc = a.exc := (payload_exc p2).trans (payload_exc p1)
  repeat' split
  all_goals first
    | exact (hfEnd_exc a2 _ st2 c2 _ h2).trans hexc
    | exact hexc

theorem hfName_exc (a : Ascii) (sq : Sq) (st : Status) (c : UInt8) (l : List UInt8) (h : Abs a st c l)
    (hn : 2 ≤ sq.nalloc) (hd : 2 ≤ sq.dalloc) : (hfName a sq st c).1.exc = a.exc := by
  unfold hfName
  simp only []
  have s1 := skipWhile_abs isBlankTab (fuelOf a) a st c l h h.fuel
  generalize skipWhile isBlankTab (fuelOf a) a st c = r1 at s1 ⊢
  obtain ⟨a1, st1, c1⟩ := r1
  obtain ⟨h1, p1⟩ := s1
  simp only [] at h1 p1 ⊢
  have s2 := storeWhile_abs (fun c => !isSpace c) (fuelOf a1) a1 st1 c1 _ #[] sq.nalloc h1 h1.fuel (by simp; omega)
  generalize storeWhile (fun c => !isSpace c) (fuelOf a1) a1 st1 c1 #[] sq.nalloc = r2 at s2 ⊢
  obtain ⟨a2, st2, c2, acc2, al2⟩ := r2
  obtain ⟨h2, e2, i2, g2, p2⟩ := s2
  simp only [] at h2 e2 i2 g2 p2 ⊢
  have hexc : a2.exc = a.exc := (payload_exc p2).trans (payload_exc p1)
  by_cases k1 : (st2 == Status.fault) = true
  · simp only [k1, if_true]; exact hexc
  · simp only [k1, Bool.false_eq_true, if_false]
    by_cases k2 : (acc2.size == 0) = true
    · simp only [k2, if_true]; exact hexc
    · simp only [k2, Bool.false_eq_true, if_false]
      by_cases k3 : (!decide (acc2.size < al2)) = true
      · simp only [k3, if_true]; exact hexc
      · simp only [k3, Bool.false_eq_true, if_false]
        exact (hfDesc_exc a2 { sq with name := acc2, nalloc := al2 } st2 c2 _ h2 hd).trans hexc

theorem hfGt_exc (a : Ascii) (sq : Sq) (st : Status) (c : UInt8) (l : List UInt8) (h : Abs a st c l)
    (hn : 2 ≤ sq.nalloc) (hd : 2 ≤ sq.dalloc) : (hfGt a sq st c).1.exc = a.exc := by
  unfold hfGt
  rcases h.st_cases with hst | hst
  · subst hst
    obtain ⟨t, rfl⟩ := h.okc rfl
    have b1 : (Status.ok == Status.eof) = false := by decide
    have b2 : (Status.ok == Status.ok) = true := by decide
    have b3 : (Status.ok != Status.ok) = false := by decide
    simp only [b1, b2, b3, Bool.false_eq_true, if_false, Bool.true_and, Bool.false_and]
    by_cases hc : (c != chGt) = true
    · simp only [hc, if_true]; rfl
    · simp only [hc, Bool.false_eq_true, if_false]
      obtain ⟨h2, p2⟩ := nextchar_abs a c t h.cur h.ff
      have hexc := payload_exc p2
      generalize nextchar a c = r2 at h2 hexc ⊢
      obtain ⟨a2, st2, c2⟩ := r2
      simp only [] at h2 hexc ⊢
      exact (hfName_exc a2 { sq with roff := a.boff + (a.bpos : Int) } st2 c2 t h2 hn hd).trans hexc
  · subst hst
    simp only [beq_self_eq_true, if_true]

theorem headerFasta_exc (a : Ascii) (sq : Sq) (h : Cur a) (hl : Sim.Live a) (hn : 2 ≤ sq.nalloc) (hd : 2 ≤ sq.dalloc) :
    (headerFasta a sq).1.exc = a.exc := by
  obtain ⟨x, t, hx, hf, h0⟩ := abs_of_live a h hl
  have hn1 : (a.nc == a.bpos) = false := by simp only [Sim.Live] at hl; simp; omega
  unfold headerFasta
  have hne : (Status.ok != Status.ok) = false := by decide
  simp only [hn1, Bool.false_eq_true, if_false, hx, hne]
  have s1 := skipWhile_abs isSpace (fuelOf a) a .ok x _ h0 h0.fuel
  generalize skipWhile isSpace (fuelOf a) a .ok x = r1 at s1 ⊢
  obtain ⟨a1, st1, c1⟩ := r1
  obtain ⟨h1, p1⟩ := s1
  simp only [] at h1 p1 ⊢
  exact (hfGt_exc a1 sq st1 c1 _ h1 hn hd).trans (payload_exc p1)

/-! ## the forward `sqascii_ReadWindow` -/

theorem keep_exc {a b : Ascii} (h : keep a = keep b) : a.exc = b.exc := congrArg (fun p => p.2.2.2.2.2.2.1) h

/-- `end_fasta` from a well-formed handle: `eslOK`, or `eslEFORMAT` with a message; the handle is otherwise unchanged -/
theorem endFasta_total (a : Ascii) (sq : Sq) (w : WF a) :
    ((endFasta a sq).2.2 = .ok ∨ (endFasta a sq).2.2 = .eformat) ∧ ((endFasta a sq).2.2 = .eformat → (endFasta a sq).1.haveErr = true) ∧
    ((endFasta a sq).2.2 = .ok → (endFasta a sq).1 = a ∧ (endFasta a sq).2.1.digital = sq.digital ∧ (endFasta a sq).2.1.salloc = sq.salloc) ∧
    (endFasta a sq).1.exc = a.exc ∧ stat (endFasta a sq).1 = stat a ∧ WF (endFasta a sq).1 := by
  by_cases hlt : a.bpos < a.nc
  · obtain ⟨x, hx, _⟩ := bufGet_window a w a.bpos hlt
    by_cases hc : (x != chGt) = true
    · have e : endFasta a sq = (a.fail, sq, .eformat) := by
        unfold endFasta; simp only [hlt, if_true, hx, hc]
      rw [e]
      exact ⟨Or.inr rfl, fun _ => rfl, fun k => (by cases k), rfl, rfl,
        ⟨w.block, w.norec, w.bpos1, w.full, w.moff0, w.fposEq, w.fposLe, w.ncLe, w.boffEq, w.bposLe⟩⟩
    · have e : endFasta a sq = (a, { sq with eoff := a.boff + a.bpos - 1 }, .ok) := by
        unfold endFasta; simp only [hlt, if_true, hx, hc, Bool.false_eq_true, if_false]
      rw [e]
      exact ⟨Or.inl rfl, fun k => (by cases k), fun _ => ⟨rfl, rfl, rfl⟩, rfl, rfl, w⟩
  · have e : endFasta a sq = (a, sq, .ok) := by
      unfold endFasta; simp only [hlt, if_false]
    rw [e]
    exact ⟨Or.inl rfl, fun k => (by cases k), fun _ => ⟨rfl, rfl, rfl⟩, rfl, rfl, w⟩

/-- **the common tail of the forward `sqascii_ReadWindow` is total**: `eslOK`, `eslEOD` or `eslEFORMAT` with a message, never a
    fault, no exception, whatever the bytes are -/
theorem winTail_total (a : Ascii) (sq : Sq) (C W : Int) (w : WF a) (tok : Track.Ok a.trk) (hm : a.inmap.size = 128)
    (hfmt : a.fmt = 1) (hmap : MapOk a.inmap (mapOf a sq)) (hC : 0 ≤ C) (hW : 0 ≤ W) (hcap : sq.seq.size ≤ C.toNat) :
    ((winTail a sq C W).2.2 = .ok ∨ (winTail a sq C W).2.2 = .eod ∨ (winTail a sq C W).2.2 = .eformat) ∧
    ((winTail a sq C W).2.2 = .eformat → (winTail a sq C W).1.haveErr = true) ∧
    (winTail a sq C W).1.exc = a.exc ∧ WF (winTail a sq C W).1 ∧ stat (winTail a sq C W).1 = stat a := by
  have hk : (C + W).toNat = C.toNat + W.toNat := by omega
  have hcapN : (sq.growTo (C + W).toNat).seq.size + W.toNat + (if (sq.growTo (C + W).toNat).digital then 2 else 1) ≤
      (sq.growTo (C + W).toNat).salloc := by
    rw [growTo_eq, hk]
    show sq.seq.size + W.toNat + (if sq.digital then 2 else 1) ≤ max sq.salloc (C.toNat + W.toNat + (if sq.digital then 2 else 1))
    omega
  have hsal : (if (sq.growTo (C + W).toNat).digital then 1 < (sq.growTo (C + W).toNat).salloc else 0 < (sq.growTo (C + W).toNat).salloc) := by
    rw [growTo_eq]
    show (if sq.digital then 1 < max sq.salloc ((C + W).toNat + (if sq.digital then 2 else 1))
      else 0 < max sq.salloc ((C + W).toNat + (if sq.digital then 2 else 1)))
    cases sq.digital <;> simp <;> omega
  obtain ⟨t1, t2, t3, t4, t5, ⟨d, t6, _⟩, _⟩ := readNres_zero_tot a (sq.growTo (C + W).toNat) W.toNat w tok hm
    (by rw [mapOf_growTo]; exact hmap) hcapN
  have hc : (decide (C < 0) || decide (W < 0)) = false := by
    have h1 : ¬ C < 0 := by omega
    have h2 : ¬ W < 0 := by omega
    simp [h1, h2]
  unfold winTail
  simp only [hc, Bool.false_eq_true, if_false]
  generalize readNres a (sq.growTo (C + W).toNat) 0 W.toNat = r at t1 t2 t3 t4 t5 t6
  obtain ⟨a1, sq1, st, n⟩ := r
  simp only at t1 t2 t3 t4 t5 t6 ⊢
  have hwL : WF { a1 with L := a1.L + (n : Int) } := WF_L a1 _ t4
  have hstat : stat { a1 with L := a1.L + (n : Int) } = stat a := (keep_stat t5 : stat a1 = stat a)
  have hexc : ({ a1 with L := a1.L + (n : Int) } : Ascii).exc = a.exc := (keep_exc t5 : a1.exc = a.exc)
  have hfmtL : ({ a1 with L := a1.L + (n : Int) } : Ascii).fmt = 1 := (stat_fmt hstat).trans hfmt
  have herrL : ({ a1 with L := a1.L + (n : Int) } : Ascii).haveErr = a1.haveErr := rfl
  generalize ({ a1 with L := a1.L + (n : Int) } : Ascii) = A at hwL hstat hexc hfmtL herrL
  rcases t1 with h | h | h
  · subst h
    have e1 : (Status.ok == Status.eod) = false := by decide
    simp only [e1, Bool.false_eq_true, if_false, beq_self_eq_true, if_true]
    exact ⟨by first | trivial | exact Or.inl rfl, by first | trivial | exact fun k => (by cases k), hexc, hwL, hstat⟩
  · subst h
    simp only [beq_self_eq_true, if_true]
    rw [parseEnd_fasta A sq1 hfmtL]
    obtain ⟨f1, f2, f3, f4, f5, f6⟩ := endFasta_total A sq1 hwL
    generalize endFasta A sq1 = e at f1 f2 f3 f4 f5 f6
    obtain ⟨a2, sq2, st2⟩ := e
    simp only at f1 f2 f3 f4 f5 f6 ⊢
    rcases f1 with k | k
    · subst k
      obtain ⟨g1, g2, g3⟩ := f3 rfl
      have e2 : (Status.ok != Status.ok) = false := by decide
      simp only [e2, Bool.false_eq_true, if_false]
      have hs2 : (if sq2.digital then 1 < sq2.salloc else 0 < sq2.salloc) := by
        rw [g2, g3, t6]; exact hsal
      subst g1
      have hfin : ∀ (X : Ascii × Sq × Status) (Y : Ascii × Sq × Status),
          (if (!if sq2.digital = true then decide (1 < sq2.salloc) else decide (0 < sq2.salloc)) = true then X else Y) = Y := by
        intro X Y
        cases hd : sq2.digital
        · rw [hd] at hs2
          have hdd : decide (0 < sq2.salloc) = true := by simpa using hs2
          simp [hdd]
        · rw [hd] at hs2
          have hdd : decide (1 < sq2.salloc) = true := by simpa using hs2
          simp [hdd]
      rw [hfin]
      refine ⟨by first | trivial | exact Or.inr (Or.inl rfl), by first | trivial | exact fun k => (by cases k), ?_, ?_, ?_⟩
      · split <;> exact hexc
      · split
        · exact WF_bookmark1 _ _ hwL
        · exact WF_bookmark _ _ _ hwL
      · split <;> exact hstat
    · subst k
      have e2 : (Status.eformat != Status.ok) = true := by decide
      simp only [e2, if_true]
      exact ⟨by first | trivial | exact Or.inr (Or.inr rfl), fun _ => f2 rfl, f4.trans hexc, f6, f5.trans hstat⟩
  · subst h
    have e1 : (Status.eformat == Status.eod) = false := by decide
    have e2 : (Status.eformat == Status.ok) = false := by decide
    simp only [e1, e2, Bool.false_eq_true, if_false]
    exact ⟨by first | trivial | exact Or.inr (Or.inr rfl), fun _ => herrL.trans (t2 rfl), hexc, hwL, hstat⟩

/-- (ii) **a later window call on a record is total** (`sq.start ≠ 0`): whatever `sq.seq` holds, the context slide keeps at most
    `C` residues and `esl_sq_GrowTo(C+W)` gives the room -/
theorem readWindow_next_total (a : Ascii) (sq : Sq) (C W : Int) (hC : 0 ≤ C) (hW : 0 ≤ W) (hs : sq.start ≠ 0) (w : WF a)
    (tok : Track.Ok a.trk) (hm : a.inmap.size = 128) (hfmt : a.fmt = 1) (hmap : MapOk a.inmap (mapOf a sq)) :
    ((readWindow a sq C W).2.2 = .ok ∨ (readWindow a sq C W).2.2 = .eod ∨ (readWindow a sq C W).2.2 = .eformat) ∧
    ((readWindow a sq C W).2.2 = .eformat → (readWindow a sq C W).1.haveErr = true) ∧
    (readWindow a sq C W).1.exc = a.exc ∧ WF (readWindow a sq C W).1 ∧ stat (readWindow a sq C W).1 = stat a := by
  rw [readWindow_next a sq C W hW hs]
  refine winTail_total a _ C W w tok hm hfmt hmap hC hW ?_
  show (sq.seq.extract (sq.n - (fwdSlide C sq.n a.L sq.start).2.2) sq.n).size ≤ C.toNat
  have hk : (fwdSlide C sq.n a.L sq.start).2.2 ≤ C.toNat ∨ (fwdSlide C sq.n a.L sq.start).2.2 = sq.n ∧ sq.n ≤ C.toNat := by
    unfold fwdSlide
    simp only []
    split
    · left; show (min C (sq.n : Int)).toNat ≤ C.toNat; omega
    · right; exact ⟨rfl, by omega⟩
  simp only [Array.size_extract, Sq.n] at hk ⊢
  omega

/-- (i) **the first window call on a record is total**: from a ready handle and a reused `ESL_SQ`, for every byte string -/
theorem readWindow_first_total (a : Ascii) (sq : Sq) (C W : Int) (hC : 0 ≤ C) (hW : 0 ≤ W) (R : Ready a sq) (hs : sq.start = 0)
    (hseq : sq.seq = #[]) :
    ((readWindow a sq C W).2.2 = .ok ∨ (readWindow a sq C W).2.2 = .eod ∨ (readWindow a sq C W).2.2 = .eof ∨
      (readWindow a sq C W).2.2 = .eformat) ∧
    ((readWindow a sq C W).2.2 = .eformat → (readWindow a sq C W).1.haveErr = true) ∧
    (readWindow a sq C W).1.exc = a.exc := by
  by_cases hnc : a.nc = 0
  · have e : readWindow a sq C W = (a, sq, .eof) := by
      have h1 : ¬ W < 0 := by omega
      unfold readWindow
      simp [h1, hs, hnc]
    rw [e]
    exact ⟨Or.inr (Or.inr (Or.inl rfl)), fun k => (by cases k), rfl⟩
  · have hl : Sim.Live a := by
      rcases R.cur.cur with l | ⟨⟨e1, _⟩, _⟩
      · exact l
      · exact absurd e1 hnc
    rw [readWindow_first a sq C W hW hs hnc, parseHeader_fasta a sq R.fmt]
    obtain ⟨q1, q2, q3, _⟩ := headerFasta_spec a sq R.cur hl R.nalloc R.dalloc
    have hexc := headerFasta_exc a sq R.cur hl R.nalloc R.dalloc
    have hstat := Totality.headerL_status a.file.size sq (fileFrom a)
    obtain ⟨k1, k2, k3, _, _⟩ := headerL_keeps a.file.size sq (fileFrom a)
    generalize headerL a.file.size sq (fileFrom a) = H at q1 q2 q3 hstat k1 k2 k3
    obtain ⟨hst, hsq, hrest⟩ := H
    generalize headerFasta a sq = r0 at q1 q2 q3 hexc ⊢
    obtain ⟨a1, sq1, st1⟩ := r0
    simp only [] at q1 q2 q3 hexc hstat k1 k2 k3 ⊢
    obtain ⟨rfl, rfl⟩ := Prod.mk.inj q1
    rcases hstat with h | h | h
    · subst h
      obtain ⟨c1, _, c3⟩ := q2 rfl
      have b1 : (Status.ok != Status.ok) = false := by decide
      simp only [b1, Bool.false_eq_true, if_false]
      have hi : a1.inmap = a.inmap := stat_inmap c3
      obtain ⟨t1, t2, t3, _, _⟩ := winTail_total { a1 with L := 0 }
        { sq1 with start := 1, C := 0, L := -1, source := cstr sq1.name } C W (WF_L a1 0 c1.wf) c1.tok
        (by show a1.inmap.size = 128; rw [hi]; exact R.hm) ((stat_fmt c3).trans R.fmt)
        (by show MapOk a1.inmap (mapOf a1 sq1)
            have : mapOf a1 sq1 = mapOf a sq := by simp only [mapOf, k1, k2, hi]
            rw [this, hi]; exact R.mapOk)
        hC hW (by show sq1.seq.size ≤ C.toNat; rw [k3, hseq]; simp)
      refine ⟨?_, t2, t3.trans hexc⟩
      rcases t1 with k | k | k
      · exact Or.inl k
      · exact Or.inr (Or.inl k)
      · exact Or.inr (Or.inr (Or.inr k))
    · subst h
      have b1 : (Status.eof != Status.ok) = true := by decide
      simp only [b1, if_true]
      exact ⟨by first | trivial | exact Or.inr (Or.inr (Or.inl rfl)), by first | trivial | exact fun k => (by cases k), hexc⟩
    · subst h
      have b1 : (Status.eformat != Status.ok) = true := by decide
      simp only [b1, if_true]
      exact ⟨by first | trivial | exact Or.inr (Or.inr (Or.inr rfl)), fun _ => q3 rfl, hexc⟩

/-- **the forward `sqascii_ReadWindow` is total** (both cases in one statement) -/
theorem readWindow_fwd_total (a : Ascii) (sq : Sq) (C W : Int) (hC : 0 ≤ C) (hW : 1 ≤ W)
    (h : (sq.start = 0 ∧ sq.seq = #[] ∧ Ready a sq) ∨ (sq.start ≠ 0 ∧ HOk a ∧ MapOk a.inmap (mapOf a sq))) :
    let r := readWindow a sq C W
    (r.2.2 = .ok ∨ r.2.2 = .eod ∨ r.2.2 = .eof ∨ r.2.2 = .eformat) ∧ (r.2.2 = .eformat → r.1.haveErr = true) ∧ r.1.exc = a.exc := by
  intro r
  rcases h with ⟨h1, h2, R⟩ | ⟨h1, H, hmap⟩
  · exact readWindow_first_total a sq C W hC (by omega) R h1 h2
  · obtain ⟨t1, t2, t3, _, _⟩ := readWindow_next_total a sq C W hC (by omega) h1 H.w H.tok H.hm H.fmt hmap
    refine ⟨?_, t2, t3⟩
    rcases t1 with k | k | k
    · exact Or.inl k
    · exact Or.inr (Or.inl k)
    · exact Or.inr (Or.inr (Or.inr k))

/-! ## non-vacuity: `>a\nAC1GT\n` (the `1` is an illegal byte), 2-byte blocks -/

def demoBad : Bytes := #[62, 97, 10, 65, 67, 49, 71, 84, 10]

example : ((readWindow (ParseFasta.openFasta demoBad 2 0) (freshSq 0).reuse 0 3).2.2,
    (readWindow (ParseFasta.openFasta demoBad 2 0) (freshSq 0).reuse 0 3).1.haveErr,
    (readWindow (ParseFasta.openFasta demoBad 2 0) (freshSq 0).reuse 0 3).1.exc) = (Status.eformat, true, false) := by decide +kernel

example : ((readWindow (ParseFasta.openFasta demoBad 2 0) (freshSq 0).reuse 0 2).2.2,
    (readWindow (ParseFasta.openFasta demoBad 2 0) (freshSq 0).reuse 0 2).2.1.seq) = (Status.ok, #[65, 67]) := by decide +kernel

/-- the hypotheses of case (i) hold for the handle `esl_sqfile_Open` returns -/
example : (readWindow (ParseFasta.openFasta demoBad 2 0) (freshSq 0).reuse 0 3).1.exc = (ParseFasta.openFasta demoBad 2 0).exc :=
  (readWindow_fwd_total _ _ 0 3 (by decide) (by decide)
    (Or.inl ⟨rfl, rfl, (ParseFasta.openFasta_ready demoBad 2 0 (by decide) (by decide)).1⟩)).2.2

end EaselModel.Sqio.WindowTotal
