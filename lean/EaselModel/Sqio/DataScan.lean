import EaselModel.Sqio.Fold
import EaselModel.Sqio.Sim
import EaselModel.Sqio.NoFault
/-! # The data scan of a record is a fold over the file bytes from the cursor on — for every block size (C04)

`dataFold a` folds `Fold.stepByte` over the file bytes from the absolute cursor position to the end of the file, with the handle's
tracker and line number. It does not mention the block size. `scanLoop false` (the counting loop of `sqascii_ReadInfo`) is that fold. -/
namespace EaselModel.Sqio.DataScan
open EaselModel.Sqio.Refine EaselModel.Sqio.Fold

/-- the buffer from index `lo` on is a slice of the file -/
theorem bufList_eq (a : Ascii) (h : WF a) (lo : Nat) :
    bufList a lo = ((a.file.toList.drop (a.boff.toNat + lo)).take (a.nc - lo)) := by
  have h1 := h.fposEq; have h2 := h.fposLe; have h3 := h.ncLe; have h4 := h.boffEq; have h5 := h.moff0
  apply List.ext_getElem
  · simp [bufList]; omega
  · intro i hi1 hi2
    have hlen : i < a.nc - lo := by simpa [bufList] using hi1
    obtain ⟨x, g1, g2, g3⟩ := bufGet_window a h (lo + i) (by omega)
    have e1 : (bufList a lo)[i] = x := by simp [bufList, byteAt, g1]
    rw [e1]
    simp only [List.getElem_take, List.getElem_drop]
    have : a.boff.toNat + lo + i = a.boff.toNat + (lo + i) := by omega
    simp only [this]
    have g4 : a.file[a.boff.toNat + (lo + i)]? = some x := g2
    rw [Array.getElem?_eq_getElem g3] at g4
    simp only [Array.getElem_toList]
    exact (Option.some.inj g4).symm

/-! ## facts about the byte fold -/

theorem stepByte_props (inmap : Bytes) (s : SS) (c : UInt8) :
    s.nres ≤ (stepByte inmap s c).1.nres ∧ (stepByte inmap s c).1.nres ≤ s.nres + 1 ∧
    (Track.Ok s.trk → Track.Ok (stepByte inmap s c).1.trk) ∧
    ((stepByte inmap s c).2 ≠ .ok → (stepByte inmap s c).1 = s) := by
  unfold stepByte
  split
  · simp
  · split
    · simp
    · repeat' split
      all_goals simp
      all_goals first
        | exact fun h => onStop_ok _ _ _ h (by omega) (by omega)
        | exact fun _ => onEol_ok _ _ _
        | skip

theorem scanBytes_cons (inmap : Bytes) (M : Nat) (c : UInt8) (rest : List UInt8) (s : SS) (k : Nat) :
    (¬ s.nres < M ∧ scanBytes inmap M (c :: rest) s k = (s, k, .ok)) ∨
    (s.nres < M ∧ (stepByte inmap s c).2 = .ok ∧
      scanBytes inmap M (c :: rest) s k = scanBytes inmap M rest (stepByte inmap s c).1 (k + 1)) ∨
    (s.nres < M ∧ (stepByte inmap s c).2 ≠ .ok ∧
      scanBytes inmap M (c :: rest) s k = ((stepByte inmap s c).1, k, (stepByte inmap s c).2)) := by
  by_cases h : s.nres < M
  · rcases hstep : stepByte inmap s c with ⟨s', st⟩
    by_cases hok : st = .ok
    · subst hok
      right; left
      exact ⟨h, rfl, by simp [scanBytes, h, hstep]⟩
    · right; right
      refine ⟨h, hok, ?_⟩
      cases st <;> simp_all [scanBytes]
  · left
    exact ⟨h, by simp [scanBytes, h]⟩

theorem scanBytes_bounds (inmap : Bytes) (M : Nat) (l : List UInt8) (s : SS) (k : Nat) :
    k ≤ (scanBytes inmap M l s k).2.1 ∧ (scanBytes inmap M l s k).2.1 ≤ k + l.length ∧
    s.nres ≤ (scanBytes inmap M l s k).1.nres ∧ (scanBytes inmap M l s k).1.nres + k ≤ s.nres + (scanBytes inmap M l s k).2.1 ∧
    ((scanBytes inmap M l s k).2.2 ≠ .ok → (scanBytes inmap M l s k).2.1 < k + l.length) ∧
    (s.nres + l.length ≤ M → (scanBytes inmap M l s k).2.2 = .ok → (scanBytes inmap M l s k).2.1 = k + l.length) ∧
    (Track.Ok s.trk → Track.Ok (scanBytes inmap M l s k).1.trk) := by
  induction l generalizing s k with
  | nil => simp [scanBytes]
  | cons c rest ih =>
    obtain ⟨p1, p2, p3, p4⟩ := stepByte_props inmap s c
    rcases scanBytes_cons inmap M c rest s k with ⟨h, e⟩ | ⟨h, hs, e⟩ | ⟨h, hs, e⟩
    · rw [e]
      refine ⟨Nat.le_refl _, by simp, Nat.le_refl _, Nat.le_refl _, by simp, ?_, fun h => h⟩
      intro hM; simp at hM; omega
    · rw [e]
      obtain ⟨q1, q2, q3, q4, q5, q6, q7⟩ := ih (stepByte inmap s c).1 (k + 1)
      refine ⟨by omega, by simp; omega, by omega, by omega, ?_, ?_, fun h => q7 (p3 h)⟩
      · intro hne; have := q5 hne; simp; omega
      · intro hM hok; simp at hM; have := q6 (by omega) hok; simp; omega
    · rw [e]
      refine ⟨Nat.le_refl _, by simp, p1, by simp [p4 hs], by simp, ?_, p3⟩
      intro _ hok; exact absurd hok hs

/-! ## `seebuf` in terms of the file -/

/-- the file bytes from the cursor to the end of the file -/
def fileFrom (a : Ascii) : List UInt8 := a.file.toList.drop (pos a).toNat

/-- the data scan as a fold over the rest of the file; no block size in sight -/
def dataFold (a : Ascii) (M : Nat) : SS × Nat × Status := scanBytes a.inmap M (fileFrom a) ⟨a.trk, a.linenumber, 0⟩ 0

theorem fileFrom_length (a : Ascii) (h : WF a) :
    (fileFrom a).length + (pos a).toNat = a.file.size ∧ a.nc - a.bpos ≤ (fileFrom a).length ∧
    (pos a).toNat = a.boff.toNat + a.bpos ∧ (fileFrom a).length + a.nc = (a.file.size - a.fpos) + (a.nc - a.bpos) + a.nc ∧ 0 ≤ a.boff := by
  have h1 := h.fposEq; have h2 := h.fposLe; have h3 := h.ncLe; have h4 := h.boffEq; have h5 := h.moff0; have h6 := h.bposLe
  simp only [fileFrom, pos, List.length_drop, Array.length_toList]
  omega

theorem seebufLoop_failed (a : Ascii) (maxn bpos nres nres2 le1 : Nat) (trk : Track) (ln : Int) :
    (seebufLoop a maxn bpos nres nres2 le1 trk ln).2.1 = ((seebufLoop a maxn bpos nres nres2 le1 trk ln).1 == .eformat) := by
  fun_induction seebufLoop a maxn bpos nres nres2 le1 trk ln <;> simp_all

theorem seebuf_same (a : Ascii) (maxn : Option Nat) :
    (seebuf a maxn).1.file = a.file ∧ (seebuf a maxn).1.L = a.L ∧ (seebuf a maxn).1.inmap = a.inmap ∧
    (seebuf a maxn).1.eofIsOk = a.eofIsOk ∧ (seebuf a maxn).1.fmt = a.fmt ∧ (seebuf a maxn).1.abc = a.abc ∧
    (seebuf a maxn).1.exc = a.exc ∧ (seebuf a maxn).1.bookmarkOff = a.bookmarkOff ∧
    (seebuf a maxn).1.bookmarkLine = a.bookmarkLine := by
  cases maxn <;> (simp only [seebuf]; split <;> simp)

theorem seebuf_haveErr (a : Ascii) (maxn : Option Nat) :
    (seebuf a maxn).1.haveErr = (a.haveErr || ((seebuf a maxn).2.st == Status.eformat)) := by
  have aux : ∀ mx, (match seebufLoop a mx a.bpos 0 0 a.bpos a.trk a.linenumber with
       | (st, failed, bpos, nres, nres2, lasteol1, trk, ln) =>
         if (st == Status.eformat || st == Status.fault) = true then
           (({ a with trk := trk, linenumber := ln, haveErr := a.haveErr || failed }, ⟨st, nres, bpos⟩) : Ascii × See)
         else
           ({ a with trk := trk.onStop ((bpos : Int) - (lasteol1 : Int)) ((nres : Int) - (nres2 : Int)), linenumber := ln }, ⟨st, nres, bpos⟩)).1.haveErr =
      (a.haveErr || ((match seebufLoop a mx a.bpos 0 0 a.bpos a.trk a.linenumber with
       | (st, failed, bpos, nres, nres2, lasteol1, trk, ln) =>
         if (st == Status.eformat || st == Status.fault) = true then
           (({ a with trk := trk, linenumber := ln, haveErr := a.haveErr || failed }, ⟨st, nres, bpos⟩) : Ascii × See)
         else
           ({ a with trk := trk.onStop ((bpos : Int) - (lasteol1 : Int)) ((nres : Int) - (nres2 : Int)), linenumber := ln }, ⟨st, nres, bpos⟩)).2.st == Status.eformat)) := by
    intro mx
    have hf := seebufLoop_failed a mx a.bpos 0 0 a.bpos a.trk a.linenumber
    generalize seebufLoop a mx a.bpos 0 0 a.bpos a.trk a.linenumber = r at hf ⊢
    obtain ⟨st, failed, bp, nr, nr2, le, tk, l⟩ := r
    simp only at hf ⊢
    subst hf
    by_cases hc : (st == Status.eformat || st == Status.fault) = true
    · simp only [hc, if_true]
    · simp only [hc]
      have : (st == Status.eformat) = false := by
        cases st <;> simp_all
      simp [this]
  cases maxn with
  | none => exact aux a.nc
  | some m => exact aux m

theorem seebuf_payload (a : Ascii) (maxn : Option Nat) :
    Sim.payload (seebuf a maxn).1 =
      Sim.payload { a with trk := (seebuf a maxn).1.trk, linenumber := (seebuf a maxn).1.linenumber,
                           haveErr := a.haveErr || ((seebuf a maxn).2.st == Status.eformat) } := by
  obtain ⟨h1, h2, h3, h4, h5, h6, h7, h8, h9⟩ := seebuf_same a maxn
  simp only [Sim.payload, h1, h2, h3, h4, h5, h6, h7, h8, h9, seebuf_haveErr a maxn]

theorem seebuf_file (a : Ascii) (h : WF a) (hok : Track.Ok a.trk) (M : Nat) (hM : a.nc - a.bpos ≤ M) :
    (seebuf a none).2.st = (scanBytes a.inmap M ((fileFrom a).take (a.nc - a.bpos)) ⟨a.trk, a.linenumber, 0⟩ 0).2.2 ∧
    (seebuf a none).2.endpos = a.bpos + (scanBytes a.inmap M ((fileFrom a).take (a.nc - a.bpos)) ⟨a.trk, a.linenumber, 0⟩ 0).2.1 ∧
    (seebuf a none).2.nres = (scanBytes a.inmap M ((fileFrom a).take (a.nc - a.bpos)) ⟨a.trk, a.linenumber, 0⟩ 0).1.nres ∧
    (seebuf a none).1.linenumber = (scanBytes a.inmap M ((fileFrom a).take (a.nc - a.bpos)) ⟨a.trk, a.linenumber, 0⟩ 0).1.ln ∧
    ((seebuf a none).2.st ≠ .eformat → (seebuf a none).2.st ≠ .fault →
      (seebuf a none).1.trk = (scanBytes a.inmap M ((fileFrom a).take (a.nc - a.bpos)) ⟨a.trk, a.linenumber, 0⟩ 0).1.trk) := by
  have hr : ∀ i, i < a.nc → ∃ x, a.bufGet i = some x := fun i hi => by
    obtain ⟨x, g, _⟩ := bufGet_window a h i hi; exact ⟨x, g⟩
  have key := seebuf_fold a none hr hok
  simp only at key
  obtain ⟨_, l2, l3, _, _⟩ := fileFrom_length a h
  have hb : bufList a a.bpos = (fileFrom a).take (a.nc - a.bpos) := by
    rw [bufList_eq a h a.bpos, fileFrom, l3]
  rw [hb] at key
  have hlen : ((fileFrom a).take (a.nc - a.bpos)).length = a.nc - a.bpos := by
    simp only [List.length_take]; omega
  have hlim := scanBytes_limit a.inmap a.nc M ((fileFrom a).take (a.nc - a.bpos)) ⟨a.trk, a.linenumber, 0⟩ a.bpos
    (by simp only [hlen]; omega) (by simp only [hlen]; omega)
  rw [hlim] at key
  have sh := scanBytes_shift a.inmap M ((fileFrom a).take (a.nc - a.bpos)) a.trk a.linenumber 0 0 0 a.bpos (Nat.zero_le _)
  simp only [Nat.zero_add, Nat.sub_zero, Nat.add_zero] at sh
  rw [sh] at key
  simp only at key
  obtain ⟨k1, k2, k3, k4, k5⟩ := key
  exact ⟨k1, by rw [k2]; omega, k3, k4, k5⟩

/-! ## the fold over the rest of the file, one buffer at a time -/

theorem stepByte_status (inmap : Bytes) (s : SS) (c : UInt8) :
    (stepByte inmap s c).2 = .ok ∨ (stepByte inmap s c).2 = .eod ∨ (stepByte inmap s c).2 = .eformat ∨ (stepByte inmap s c).2 = .fault := by
  unfold stepByte
  repeat' split
  all_goals simp

theorem scanBytes_status (inmap : Bytes) (M : Nat) (l : List UInt8) (s : SS) (k : Nat) :
    (scanBytes inmap M l s k).2.2 = .ok ∨ (scanBytes inmap M l s k).2.2 = .eod ∨ (scanBytes inmap M l s k).2.2 = .eformat ∨
    (scanBytes inmap M l s k).2.2 = .fault := by
  induction l generalizing s k with
  | nil => simp [scanBytes]
  | cons c rest ih =>
    rcases scanBytes_cons inmap M c rest s k with ⟨_, e⟩ | ⟨_, _, e⟩ | ⟨_, _, e⟩
    · rw [e]; simp
    · rw [e]; exact ih _ _
    · rw [e]; exact stepByte_status inmap s c

/-- cut the rest of the file after the current buffer -/
theorem dataFold_split (a : Ascii) (h : WF a) (M : Nat) (hM : (fileFrom a).length ≤ M) :
    ((scanBytes a.inmap M ((fileFrom a).take (a.nc - a.bpos)) ⟨a.trk, a.linenumber, 0⟩ 0).2.2 ≠ .ok →
       dataFold a M = scanBytes a.inmap M ((fileFrom a).take (a.nc - a.bpos)) ⟨a.trk, a.linenumber, 0⟩ 0) ∧
    ((scanBytes a.inmap M ((fileFrom a).take (a.nc - a.bpos)) ⟨a.trk, a.linenumber, 0⟩ 0).2.2 = .ok →
       (scanBytes a.inmap M ((fileFrom a).take (a.nc - a.bpos)) ⟨a.trk, a.linenumber, 0⟩ 0).2.1 = a.nc - a.bpos ∧
       dataFold a M = scanBytes a.inmap M ((fileFrom a).drop (a.nc - a.bpos))
         (scanBytes a.inmap M ((fileFrom a).take (a.nc - a.bpos)) ⟨a.trk, a.linenumber, 0⟩ 0).1 (a.nc - a.bpos)) := by
  obtain ⟨_, l2, _, _, _⟩ := fileFrom_length a h
  have hlen : ((fileFrom a).take (a.nc - a.bpos)).length = a.nc - a.bpos := by
    simp only [List.length_take]; omega
  have happ := scanBytes_append a.inmap M ((fileFrom a).take (a.nc - a.bpos)) ((fileFrom a).drop (a.nc - a.bpos)) ⟨a.trk, a.linenumber, 0⟩ 0
  rw [List.take_append_drop, hlen, Nat.zero_add] at happ
  obtain ⟨_, _, _, _, _, q6, _⟩ := scanBytes_bounds a.inmap M ((fileFrom a).take (a.nc - a.bpos)) ⟨a.trk, a.linenumber, 0⟩ 0
  rw [hlen, Nat.zero_add] at q6
  constructor
  · intro hne
    unfold dataFold
    rw [happ, if_neg (fun hc => hne hc.1)]
  · intro hok
    have hc := q6 (by omega) hok
    refine ⟨hc, ?_⟩
    unfold dataFold
    rw [happ, if_pos ⟨hok, hc⟩]

/-- continue the fold from the next buffer's handle -/
theorem dataFold_next (a a3 : Ascii) (M n : Nat) (g : SS) (hi : a3.inmap = a.inmap) (ht : a3.trk = g.trk) (hl : a3.linenumber = g.ln)
    (hd : g.nres ≤ M) (l : List UInt8) (hf : fileFrom a3 = l) :
    scanBytes a.inmap M l g n =
      (⟨(dataFold a3 (M - g.nres)).1.trk, (dataFold a3 (M - g.nres)).1.ln, (dataFold a3 (M - g.nres)).1.nres + g.nres⟩,
       (dataFold a3 (M - g.nres)).2.1 + n, (dataFold a3 (M - g.nres)).2.2) := by
  have sh := scanBytes_shift a.inmap M l g.trk g.ln 0 g.nres 0 n hd
  simp only [Nat.zero_add] at sh
  unfold dataFold
  rw [hi, ht, hl, hf]
  exact sh

/-! ## the counting loop of `sqascii_ReadInfo` is the fold -/

/-- running out of bytes is `eslEOF` for the loop -/
def finalSt : Status → Status
  | .ok => .eof
  | s => s

theorem WF_L (a : Ascii) (x : Int) (h : WF a) : WF { a with L := x } :=
  ⟨h.block, h.norec, h.bpos1, h.full, h.moff0, h.fposEq, h.fposLe, h.ncLe, h.boffEq, h.bposLe⟩

theorem payload_upd (a b : Ascii) (x y : Int) (z : Track) (hp : Sim.payload a = Sim.payload b) :
    Sim.payload { a with L := a.L + x, linenumber := y, trk := z } = Sim.payload { b with L := b.L + x, linenumber := y, trk := z } := by
  simp only [Sim.payload, Prod.mk.injEq] at hp ⊢
  obtain ⟨h1, h2, h3, h4, h5, h6, h7, h8, h9, h10, h11, h12⟩ := hp
  exact ⟨h1, by rw [h2], trivial, trivial, h5, h6, h7, h8, h9, h10, h11, h12⟩

theorem scanLoop_succ (store : Bool) (fuel : Nat) (a : Ascii) (sq : Sq) : scanLoop store (fuel + 1) a sq =
    if (scanStep store a sq).2.2.2.2 then scanLoop store fuel (scanStep store a sq).1 (scanStep store a sq).2.1
    else ((scanStep store a sq).1, (scanStep store a sq).2.1, (scanStep store a sq).2.2.1, (scanStep store a sq).2.2.2.1) := rfl

theorem scanStep_false (a : Ascii) (sq : Sq) : scanStep false a sq =
    if (seebuf a none).2.st == .fault then ((seebuf a none).1, sq, .fault, (seebuf a none).2.endpos, false) else
    if (seebuf a none).2.st == .eformat then
      ({ (seebuf a none).1 with L := (seebuf a none).1.L + (seebuf a none).2.nres },
       { sq with eoff := (seebuf a none).1.boff + (seebuf a none).2.endpos - 1 }, .eformat, (seebuf a none).2.endpos, false) else
    if (seebuf a none).2.st == .eod then
      ({ (seebuf a none).1 with L := (seebuf a none).1.L + (seebuf a none).2.nres },
       { sq with eoff := (seebuf a none).1.boff + (seebuf a none).2.endpos - 1 }, .eod, (seebuf a none).2.endpos, false) else
    ((loadbuf { (seebuf a none).1 with L := (seebuf a none).1.L + (seebuf a none).2.nres }).1,
      { sq with eoff := (seebuf a none).1.boff + (seebuf a none).2.endpos - 1 },
      (loadbuf { (seebuf a none).1 with L := (seebuf a none).1.L + (seebuf a none).2.nres }).2, (seebuf a none).2.endpos,
      (loadbuf { (seebuf a none).1 with L := (seebuf a none).1.L + (seebuf a none).2.nres }).2 == .ok) := by
  unfold scanStep
  generalize seebuf a none = sb
  obtain ⟨a1, see⟩ := sb
  have : (Status.ok == Status.fault) = false := by decide
  simp only [Bool.and_false, Bool.false_eq_true, if_false, this]
theorem scanLoop_info (fuel : Nat) : ∀ (a : Ascii) (sq : Sq) (M : Nat), WF a → Track.Ok a.trk → a.inmap.size = 128 →
    (fileFrom a).length ≤ M → (fileFrom a).length + (if a.bpos < a.nc then 0 else 1) < fuel →
    (scanLoop false fuel a sq).2.2.1 = finalSt (dataFold a M).2.2 ∧
    (scanLoop false fuel a sq).2.1 = { sq with eoff := pos a + ((dataFold a M).2.1 : Int) - 1 } ∧
    ((dataFold a M).2.2 ≠ .eformat →
       WF (scanLoop false fuel a sq).1 ∧
       Sim.payload (scanLoop false fuel a sq).1 =
         Sim.payload { a with L := a.L + ((dataFold a M).1.nres : Int), linenumber := (dataFold a M).1.ln,
                              trk := (dataFold a M).1.trk } ∧
       ((dataFold a M).2.2 = .eod →
          (scanLoop false fuel a sq).1.boff + ((scanLoop false fuel a sq).2.2.2 : Int) = pos a + ((dataFold a M).2.1 : Int) ∧
          (scanLoop false fuel a sq).2.2.2 < (scanLoop false fuel a sq).1.nc) ∧
       ((dataFold a M).2.2 = .ok → Sim.AtEof (scanLoop false fuel a sq).1 ∧ pos (scanLoop false fuel a sq).1 = (a.file.size : Int))) := by
  induction fuel with
  | zero => intro a sq M _ _ _ _ hf; omega
  | succ fuel ih =>
    intro a sq M h hok hm hM hfuel
    obtain ⟨l1, l2, l3, l4, l5⟩ := fileFrom_length a h
    obtain ⟨s1, s2, s3, s4, s5⟩ := seebuf_file a h hok M (by omega)
    obtain ⟨t1, t2, t3, t4, t5, t6, t7, t8⟩ := NoFault.seebuf_safe a h hm none
    have t9 : (seebuf a none).1.fpos = a.fpos := (NoFault.seebuf_fields a none).2.2.2.2.2.2.2.2.2.2.2.2
    have hp := seebuf_payload a none
    obtain ⟨d1, d2⟩ := dataFold_split a h M hM
    obtain ⟨q1, q2, q3, q4, q5, q6, q7⟩ := scanBytes_bounds a.inmap M ((fileFrom a).take (a.nc - a.bpos)) ⟨a.trk, a.linenumber, 0⟩ 0
    have hst := scanBytes_status a.inmap M ((fileFrom a).take (a.nc - a.bpos)) ⟨a.trk, a.linenumber, 0⟩ 0
    have hlen : ((fileFrom a).take (a.nc - a.bpos)).length = a.nc - a.bpos := by simp only [List.length_take]; omega
    rw [hlen] at q2 q5
    have q7 := q7 hok
    clear q6
    generalize scanBytes a.inmap M ((fileFrom a).take (a.nc - a.bpos)) ⟨a.trk, a.linenumber, 0⟩ 0 = g0 at *
    generalize hfd : dataFold a M = f at *
    rw [scanLoop_succ, scanStep_false]
    generalize seebuf a none = sb at *
    obtain ⟨a1, ⟨st, nres, endpos⟩⟩ := sb
    simp only at s1 s2 s3 s4 s5 t1 t2 t3 t4 t5 t6 t7 t8 t9 hp q1 q2 q3 q4 q5 q7 ⊢
    subst s1 s3
    have b1 : (Status.eod == Status.fault) = false := by decide
    have b2 : (Status.eod == Status.eformat) = false := by decide
    have b3 : (Status.ok == Status.fault) = false := by decide
    have b4 : (Status.ok == Status.eformat) = false := by decide
    have b5 : (Status.ok == Status.eod) = false := by decide
    have b6 : (Status.eformat == Status.fault) = false := by decide
    have b7 : (Status.eof == Status.ok) = false := by decide
    have he : a1.boff + ((endpos : Nat) : Int) - 1 = pos a + ((g0.2.1 : Nat) : Int) - 1 := by
      rw [t7, s2]; simp only [pos]; omega
    -- payload after the `L +=` in terms of the fold
    have hp2 : g0.2.2 ≠ .eformat → Sim.payload { a1 with L := a1.L + (g0.1.nres : Int) } =
        Sim.payload { a with L := a.L + (g0.1.nres : Int), linenumber := g0.1.ln, trk := g0.1.trk } := by
      intro hne
      have k5 := s5 hne t1
      simp only [Sim.payload, Prod.mk.injEq] at hp ⊢
      obtain ⟨h1, h2, h3, h4, h5, h6, h7, h8, h9, h10, h11, h12⟩ := hp
      have : (g0.2.2 == Status.eformat) = false := by simpa using hne
      rw [this, Bool.or_false] at h9
      exact ⟨h1, by rw [h2], s4, k5, h5, h6, h7, h8, h9, h10, h11, h12⟩
    rcases hst with e | e | e | e
    · -- the buffer ran out: load the next one
      obtain ⟨hc, df⟩ := d2 e
      have hp2 := hp2 (by rw [e]; decide)
      simp only [e, b3, b4, b5, Bool.false_eq_true, if_false, Bool.false_and]
      have hw2 : WF { a1 with L := a1.L + (g0.1.nres : Int) } := WF_L a1 _ t4
      have lw := loadbuf_wf _ hw2.toPre
      have lr := Sim.loadbuf_rest _ hw2.toPre
      generalize loadbuf { a1 with L := a1.L + (g0.1.nres : Int) } = lb at *
      obtain ⟨a3, st3⟩ := lb
      simp only at lw lr ⊢
      obtain ⟨w3, p3, f3, _, c3, o⟩ := lw
      have hp3 := lr.trans hp2
      have e4 := t4.fposEq; have e5 := t4.boffEq
      have hposI : pos a3 = pos a + ((a.nc - a.bpos : Nat) : Int) := by
        rw [c3]; simp only [pos]; have := h.bposLe; omega
      have hpos3 : (pos a3).toNat = (pos a).toNat + (a.nc - a.bpos) := by
        rw [hposI]; simp only [pos] at l3 ⊢; have := h.bposLe; omega
      rcases o with ⟨o1, o2, o3⟩ | ⟨o1, o2, o3⟩
      · subst o1
        have hi : a3.inmap = a.inmap := congrArg (fun p => p.2.2.2.2.1) hp3
        have ht : a3.trk = g0.1.trk := congrArg (fun p => p.2.2.2.1) hp3
        have hl : a3.linenumber = g0.1.ln := congrArg (fun p => p.2.2.1) hp3
        have hfile : a3.file = a.file := congrArg (fun p => p.1) hp3
        have hf3 : fileFrom a3 = (fileFrom a).drop (a.nc - a.bpos) := by
          unfold fileFrom
          rw [hpos3, hfile, List.drop_drop]
        have hd : g0.1.nres ≤ M := by omega
        have nx := dataFold_next a a3 M (a.nc - a.bpos) g0.1 hi ht hl hd _ hf3
        rw [nx] at df
        have len3 : (fileFrom a3).length = (fileFrom a).length - (a.nc - a.bpos) := by rw [hf3, List.length_drop]
        have hfuel3 : (fileFrom a3).length + (if a3.bpos < a3.nc then 0 else 1) < fuel := by
          have : a3.bpos < a3.nc := by omega
          simp only [this, if_true]
          by_cases hb : a.bpos < a.nc
          · simp only [hb, if_true] at hfuel; omega
          · simp only [hb, if_false] at hfuel; omega
        obtain ⟨i1, i2, i3⟩ := ih a3 { sq with eoff := a1.boff + ((endpos : Nat) : Int) - 1 } (M - g0.1.nres) w3 (ht ▸ q7) (hi ▸ hm)
          (by omega) hfuel3
        generalize dataFold a3 (M - g0.1.nres) = f3 at *
        subst df
        simp only [if_true, beq_self_eq_true] at i1 i2 i3 ⊢
        refine ⟨i1, ?_, ?_⟩
        · rw [i2]
          have : pos a3 + ((f3.2.1 : Nat) : Int) - 1 = pos a + ((f3.2.1 + (a.nc - a.bpos) : Nat) : Int) - 1 := by
            rw [hposI]; omega
          rw [this]
        · intro hne
          obtain ⟨j1, j2, j3, j4⟩ := i3 hne
          refine ⟨j1, ?_, ?_, fun hk => by rw [← hfile]; exact j4 hk⟩
          · rw [j2, payload_upd a3 _ _ _ _ hp3]
            simp only [Sim.payload, Prod.mk.injEq, and_true, true_and]
            omega
          · intro hk
            obtain ⟨k1, k2⟩ := j3 hk
            refine ⟨?_, k2⟩
            rw [k1, hposI]; omega
      · subst o1
        have hnil : (fileFrom a).drop (a.nc - a.bpos) = [] := by
          apply List.drop_eq_nil_of_le
          have o3' : a.fpos = a.file.size := by rw [← t9, ← t8]; exact o3
          omega
        rw [hnil] at df
        simp only [scanBytes] at df
        subst df
        simp only [b7, Bool.false_eq_true, if_false]
        refine ⟨rfl, ?_, fun _ => ⟨w3, hp3, fun hk => ?_, fun _ => ⟨⟨o2, p3⟩, by rw [c3, ← t8]; exact congrArg _ o3⟩⟩⟩
        · rw [he, hc]
        · exact absurd hk (by decide)
    · -- end of the record's data
      have df := d1 (by rw [e]; decide)
      subst df
      simp only [e, b1, b2, Bool.false_eq_true, if_false, Bool.false_and, beq_self_eq_true, if_true]
      refine ⟨rfl, by rw [he], fun _ => ⟨WF_L a1 _ t4, hp2 (by rw [e]; decide), fun _ => ⟨?_, ?_⟩, fun hk => absurd hk (by decide)⟩⟩
      · show a1.boff + ((endpos : Nat) : Int) = _
        rw [t7, s2]; simp only [pos]; omega
      · show endpos < a1.nc
        have := q5 (by rw [e]; decide)
        omega
    · -- illegal character
      have df := d1 (by rw [e]; decide)
      subst df
      simp only [e, b6, Bool.false_eq_true, if_false, Bool.and_false, beq_self_eq_true, if_true]
      exact ⟨rfl, by rw [he], fun hne => absurd rfl hne⟩
    · exact absurd e t1

/-! ## `header_fasta` leaves a fresh line-geometry tracker -/

theorem reset_ok (t : Track) : Track.Ok { t with prvrpl := -1, prvbpl := -1, currpl := 0, curbpl := 0 } :=
  Track.Ok.of_inactive _ (by simp) (by simp) (Or.inl (by simp))

theorem hfEnd_ok_trk (a : Ascii) (sq : Sq) (st : Status) (c : UInt8) :
    (hfEnd a sq st c).2.2 = .ok → Track.Ok (hfEnd a sq st c).1.trk := by
  unfold hfEnd
  simp only
  split
  · intro h; cases h
  · split
    · intro h; cases h
    · intro _; exact reset_ok _

theorem hfDesc_ok_trk (a : Ascii) (sq : Sq) (st : Status) (c : UInt8) :
    (hfDesc a sq st c).2.2 = .ok → Track.Ok (hfDesc a sq st c).1.trk := by
  unfold hfDesc
  simp only
  split
  · intro h; cases h
  · split
    · intro h; cases h
    · exact hfEnd_ok_trk _ _ _ _

theorem hfName_ok_trk (a : Ascii) (sq : Sq) (st : Status) (c : UInt8) :
    (hfName a sq st c).2.2 = .ok → Track.Ok (hfName a sq st c).1.trk := by
  unfold hfName
  simp only
  split
  · intro h; cases h
  · split
    · intro h; cases h
    · split
      · intro h; cases h
      · exact hfDesc_ok_trk _ _ _ _

theorem hfGt_ok_trk (a : Ascii) (sq : Sq) (st : Status) (c : UInt8) :
    (hfGt a sq st c).2.2 = .ok → Track.Ok (hfGt a sq st c).1.trk := by
  unfold hfGt
  split
  · intro h; cases h
  · split
    · intro h; cases h
    · split
      · intro h; cases h
      · split
        · rename_i hne
          intro h
          simp only at h
          rw [h] at hne
          exact absurd hne (by decide)
        · exact hfName_ok_trk _ _ _ _

theorem headerFasta_ok_trk (a : Ascii) (sq : Sq) :
    (headerFasta a sq).2.2 = .ok → Track.Ok (headerFasta a sq).1.trk := by
  unfold headerFasta
  generalize (if (a.nc == a.bpos) = true then loadbuf a else (a, Status.ok)) = r0
  obtain ⟨a0, st0⟩ := r0
  simp only
  split
  · rename_i hne
    intro h
    simp only at h
    rw [h] at hne
    exact absurd hne (by decide)
  · split
    · intro h; cases h
    · exact hfGt_ok_trk _ _ _ _

/-! ## `sqascii_ReadInfo` on a FASTA file does not depend on the block size -/

theorem Sim.setL {a1 a2 : Ascii} (h : Sim.Sim a1 a2) (x : Int) : Sim.Sim { a1 with L := x } { a2 with L := x } := by
  obtain ⟨w1, w2, hr, hp, hc⟩ := h
  refine ⟨WF_L a1 x w1, WF_L a2 x w2, ?_, hp, hc⟩
  simp only [Sim.payload, Prod.mk.injEq] at hr ⊢
  obtain ⟨r1, _, r3, r4, r5, r6, r7, r8, r9, r10, r11, r12⟩ := hr
  exact ⟨r1, trivial, r3, r4, r5, r6, r7, r8, r9, r10, r11, r12⟩

theorem dataFold_sim {a1 a2 : Ascii} (h : Sim.Sim a1 a2) (M : Nat) : dataFold a1 M = dataFold a2 M := by
  have hr := h.rest
  simp only [Sim.payload, Prod.mk.injEq] at hr
  obtain ⟨r1, _, r3, r4, r5, _⟩ := hr
  unfold dataFold fileFrom
  rw [r1, r3, r4, r5, h.pos]

theorem endFasta_sim (a1 a2 : Ascii) (sq : Sq) (h : Sim.Sim a1 a2) (l1 : Sim.Live a1) (l2 : Sim.Live a2) :
    (endFasta a1 sq).2 = (endFasta a2 sq).2 ∧ Sim.Sim (endFasta a1 sq).1 (endFasta a2 sq).1 := by
  obtain ⟨x, hx1, hx2⟩ := h.curByte l1 l2
  unfold endFasta
  simp only [Sim.Live] at l1 l2
  simp only [l1, l2, if_true, hx1, hx2]
  by_cases hc : (x != chGt) = true
  · simp only [hc, if_true]
    exact ⟨trivial, h.fail⟩
  · have hc' : (x != chGt) = false := by simpa using hc
    simp only [hc', Bool.false_eq_true, if_false]
    refine ⟨?_, h⟩
    have := h.pos
    simp only [pos] at this
    rw [this]

end EaselModel.Sqio.DataScan
