import EaselModel.Sqio.EmblTotal
/-! # Reading a whole line-based file never faults: every successful `sqascii_Read` consumes at least one line (C02) -/
namespace EaselModel.Sqio.EmblTotalAll
open EaselModel.Sqio EaselModel.Sqio.LineSpec EaselModel.Sqio.EmblSpec EaselModel.Sqio.EmblAll EaselModel.Sqio.EmblTotal
open EaselModel.Sqio.Fold EaselModel.Sqio.BodySpec

/-! ## progress: the bytes behind the current line never grow, and shrink with every header -/

theorem rl_fail (a : Ascii) : rl a.fail = rl a := rfl

theorem loadbuf_rl (a : Ascii) (w : LWF a) : rl (loadbuf a).1 ≤ rl a := by
  obtain ⟨_, hs, hr⟩ := loadbuf_good a w
  obtain ⟨_, l2, _, _, _, _, _, l8⟩ := loadbuf_line a w
  have k1 : (loadbuf a).1.file = a.file := congrArg (fun t => t.1) l2
  unfold rl
  rw [k1, l8]
  unfold nextLine
  have := @List.takeWhile_append_dropWhile _ (· != 10) (a.file.toList.drop (a.boff.toNat + a.nc))
  have h2 := congrArg List.length this
  rw [List.length_append] at h2
  simp only [List.length_drop] at h2 ⊢
  omega

theorem skipLinesWhile_rl (cond : Bytes → Bool) (fuel : Nat) : ∀ (a : Ascii), LWF a → rl (skipLinesWhile cond fuel a).1 ≤ rl a := by
  induction fuel with
  | zero => intro a _; exact Nat.le_refl _
  | succ fuel ih =>
    intro a w
    simp only [skipLinesWhile]
    have hl := loadbuf_rl a w
    have hw := (loadbuf_good a w).1.w
    generalize loadbuf a = r at hl hw
    obtain ⟨b, s⟩ := r
    simp only at hl hw ⊢
    repeat' split
    all_goals first
      | exact Nat.le_refl _
      | exact hl
      | exact Nat.le_trans (ih b hw) hl

/-- a header stage: never more bytes left, strictly fewer when it succeeds -/
def Prog (a : Ascii) (r : Ascii × Sq × Status) : Prop := rl r.1 ≤ rl a ∧ (r.2.2 = .ok → rl r.1 < rl a)

theorem emblScan_rl (parse : Bool) (fuel : Nat) : ∀ (a : Ascii) (sq : Sq), LWF a → Prog a (emblScan parse fuel a sq) := by
  induction fuel with
  | zero => intro a sq _; exact ⟨Nat.le_refl _, fun k => (by cases k)⟩
  | succ fuel ih =>
    intro a sq w
    simp only [emblScan]
    obtain ⟨g, hs, hr⟩ := loadbuf_good a w
    have hl := loadbuf_rl a w
    generalize loadbuf a = r at g hs hr hl
    obtain ⟨b, s⟩ := r
    simp only at g hs hr hl ⊢
    rcases hs with k | k
    · subst k
      have hlt := hr rfl
      have e1 : (Status.ok == Status.fault) = false := by decide
      have e2 : (Status.ok != Status.ok) = false := by decide
      simp only [e1, e2, Bool.false_eq_true, if_false]
      have hrec : ∀ q, Prog a (emblScan parse fuel b q) := fun q =>
        ⟨Nat.le_trans (ih b q g.w).1 hl, fun _ => Nat.lt_of_le_of_lt (ih b q g.w).1 hlt⟩
      repeat' split
      all_goals first
        | exact ⟨hl, fun _ => hlt⟩
        | exact hrec _
    · subst k
      have e1 : (Status.eof == Status.fault) = false := by decide
      have e2 : (Status.eof != Status.ok) = true := by decide
      simp only [e1, e2, Bool.false_eq_true, if_false, if_true]
      exact ⟨hl, fun k => (by cases k)⟩

theorem genbankScan_rl (parse : Bool) (fuel : Nat) : ∀ (a : Ascii) (sq : Sq), LWF a → Prog a (genbankScan parse fuel a sq) := by
  induction fuel with
  | zero => intro a sq _; exact ⟨Nat.le_refl _, fun k => (by cases k)⟩
  | succ fuel ih =>
    intro a sq w
    simp only [genbankScan]
    obtain ⟨g, hs, hr⟩ := loadbuf_good a w
    have hl := loadbuf_rl a w
    generalize loadbuf a = r at g hs hr hl
    obtain ⟨b, s⟩ := r
    simp only at g hs hr hl ⊢
    rcases hs with k | k
    · subst k
      have hlt := hr rfl
      have e1 : (Status.ok == Status.fault) = false := by decide
      have e2 : (Status.ok != Status.ok) = false := by decide
      simp only [e1, e2, Bool.false_eq_true, if_false]
      have hrec : ∀ q, Prog a (genbankScan parse fuel b q) := fun q =>
        ⟨Nat.le_trans (ih b q g.w).1 hl, fun _ => Nat.lt_of_le_of_lt (ih b q g.w).1 hlt⟩
      repeat' split
      all_goals first
        | exact ⟨hl, fun _ => hlt⟩
        | exact hrec _
    · subst k
      have e1 : (Status.eof == Status.fault) = false := by decide
      have e2 : (Status.eof != Status.ok) = true := by decide
      simp only [e1, e2, Bool.false_eq_true, if_false, if_true]
      exact ⟨hl, fun k => (by cases k)⟩

theorem hdrTail_rl (r : Ascii × Sq × Status) (w : LWF r.1) : rl (hdrTail r).1 ≤ rl r.1 := by
  unfold hdrTail
  have hl := loadbuf_rl r.1 w
  repeat' split
  all_goals first
    | exact Nat.le_refl _
    | exact hl

theorem hdrTail_ok (r : Ascii × Sq × Status) (h : (hdrTail r).2.2 = .ok) : r.2.2 = .ok := by
  unfold hdrTail at h
  by_cases k : (r.2.2 != Status.ok) = true
  · simp only [k, if_true] at h; exact h
  · simpa using k

theorem hdrTail_prog (a : Ascii) (r : Ascii × Sq × Status) (w : LWF r.1) (p : Prog a r) : Prog a (hdrTail r) :=
  ⟨Nat.le_trans (hdrTail_rl r w) p.1, fun k => Nat.lt_of_le_of_lt (hdrTail_rl r w) (p.2 (hdrTail_ok r k))⟩

theorem prog_fail (a : Ascii) (sq : Sq) : Prog a (a.fail, sq, Status.eformat) :=
  ⟨Nat.le_refl _, fun k => (by cases k)⟩

theorem emblId_prog (parse : Bool) (a : Ascii) (sq : Sq) (w : LWF a) : Prog a (emblId parse a sq) := by
  have hrec : ∀ q, Prog a (hdrTail (emblScan parse (fuelOf a) a q)) := fun q =>
    hdrTail_prog a _ (emblScan_good parse (fuelOf a) a q w (rl_le a)).1.w (emblScan_rl parse (fuelOf a) a q w)
  unfold emblId
  by_cases hid : (!hasPrefix a.line "ID   ") = true
  · simp only [hid, if_true]; exact prog_fail a sq
  simp only [hid, Bool.false_eq_true, if_false]
  cases parse
  · simp only [Bool.false_eq_true, if_false]; exact hrec _
  · simp only [if_true]
    cases hs : strtok (cstrFrom a.line 5) [32, 59] with
    | none => simp only []; exact prog_fail a sq
    | some tok => simp only []; exact hrec _

theorem gbLocus_prog (parse : Bool) (a : Ascii) (sq : Sq) (w : LWF a) : Prog a (gbLocus parse a sq) := by
  have hrec : ∀ q, Prog a (hdrTail (genbankScan parse (fuelOf a) a q)) := fun q =>
    hdrTail_prog a _ (genbankScan_good parse (fuelOf a) a q w (rl_le a)).1.w (genbankScan_rl parse (fuelOf a) a q w)
  unfold gbLocus
  cases parse
  · simp only [Bool.false_eq_true, if_false]; exact hrec _
  · simp only [if_true]
    by_cases h12 : a.nc < 12
    · simp only [h12, if_true]; exact prog_fail a sq
    simp only [h12, if_false]
    cases hs : strtok (cstrFrom a.line 12) [32] with
    | none => simp only []; exact prog_fail a sq
    | some tok => simp only []; exact hrec _

theorem Prog.of_le {a b : Ascii} {r : Ascii × Sq × Status} (h : rl b ≤ rl a) (p : Prog b r) : Prog a r :=
  ⟨Nat.le_trans p.1 h, fun k => Nat.lt_of_lt_of_le (p.2 k) h⟩

theorem headerEmbl_prog (parse : Bool) (a : Ascii) (sq : Sq) (w : LWF a) (hnc : a.nc ≠ 0) : Prog a (headerEmbl parse a sq) := by
  rw [headerEmbl_eq]
  have h0 : (a.nc == 0) = false := by simpa using hnc
  simp only [h0, Bool.false_eq_true, if_false]
  have hs := skipLinesWhile_rl isBlankStr (fuelOf a) a w
  obtain ⟨g, hst⟩ := skipLinesWhile_good isBlankStr (fuelOf a) a w (rl_le a)
  generalize skipLinesWhile isBlankStr (fuelOf a) a = r at hs g hst
  obtain ⟨b, s⟩ := r
  simp only at hs g hst ⊢
  rcases hst with k | k
  · subst k
    have e : (Status.ok != Status.ok) = false := by decide
    simp only [e, Bool.false_eq_true, if_false]
    exact Prog.of_le hs (emblId_prog parse b sq g.w)
  · subst k
    have e : (Status.eof != Status.ok) = true := by decide
    simp only [e, if_true]
    exact ⟨hs, fun k => (by cases k)⟩

theorem headerGenbank_prog (parse : Bool) (a : Ascii) (sq : Sq) (w : LWF a) (hnc : a.nc ≠ 0) : Prog a (headerGenbank parse a sq) := by
  rw [headerGenbank_eq]
  have h0 : (a.nc == 0) = false := by simpa using hnc
  simp only [h0, Bool.false_eq_true, if_false]
  have hs := skipLinesWhile_rl (fun l => !hasPrefix l "LOCUS   ") (fuelOf a) a w
  obtain ⟨g, hst⟩ := skipLinesWhile_good (fun l => !hasPrefix l "LOCUS   ") (fuelOf a) a w (rl_le a)
  generalize skipLinesWhile (fun l => !hasPrefix l "LOCUS   ") (fuelOf a) a = r at hs g hst
  obtain ⟨b, s⟩ := r
  simp only at hs g hst ⊢
  rcases hst with k | k
  · subst k
    have e : (Status.ok != Status.ok) = false := by decide
    simp only [e, Bool.false_eq_true, if_false]
    exact Prog.of_le hs (gbLocus_prog parse b sq g.w)
  · subst k
    have e : (Status.eof != Status.ok) = true := by decide
    simp only [e, if_true]
    exact ⟨hs, fun k => (by cases k)⟩

theorem parseHeader_prog (a : Ascii) (sq : Sq) (w : LWF a) (hf : LineFmt a) (hnc : a.nc ≠ 0) : Prog a (parseHeader a sq) := by
  unfold parseHeader
  rcases hf with k | k | k | k <;> simp only [k] <;> first
    | exact headerEmbl_prog true a sq w hnc
    | exact headerGenbank_prog true a sq w hnc

/-! ## the body: bytes left never grow, the tracker stays sane, the mode of the `ESL_SQ` is kept -/

theorem rl_congr {a b : Ascii} (h1 : b.file = a.file) (h2 : b.boff = a.boff) (h3 : b.nc = a.nc) : rl b = rl a := by
  unfold rl; rw [h1, h2, h3]

theorem scanStep_more (a : Ascii) (sq : Sq) (h : BInv a sq) :
    rl (scanStep true a sq).1 ≤ rl a ∧ ((scanStep true a sq).2.2.1 ≠ .eformat → Track.Ok (scanStep true a sq).1.trk) := by
  obtain ⟨f1, _, f4⟩ := seebuf_line_facts a h.w h.tok h.hm
  obtain ⟨_, _, _, t6, _, t8, t9⟩ := seebuf_same_buf a none
  obtain ⟨d1, d2, d3, d4, d5, d6, d7, d8, d9⟩ := adOf_good a sq h
  rw [scanStep_true]
  have hX : LWF { (adOf a sq).1 with L := (adOf a sq).1.L + ((seebuf a none).2.nres : Int) } :=
    (setL_lsim (lsim_refl d5.w) _).w1
  have hrlX : rl { (adOf a sq).1 with L := (adOf a sq).1.L + ((seebuf a none).2.nres : Int) } = rl a :=
    rl_congr (a := a) (b := { (adOf a sq).1 with L := (adOf a sq).1.L + ((seebuf a none).2.nres : Int) }) d5.file d8 d9
  have hl := loadbuf_rl _ hX
  have gl := (loadbuf_good _ hX).1
  rcases stopSt_cases a.inmap ((bufList a a.bpos).dropWhile (isData a.inmap)) with k | k | k
  all_goals (rw [← f1] at k)
  · have e1 : (Status.ok == Status.fault) = false := by decide
    have e2 : (Status.ok == Status.eformat) = false := by decide
    have e3 : (Status.ok == Status.eod) = false := by decide
    simp only [k, d1, e1, e2, e3, Bool.false_eq_true, if_false]
    refine ⟨by rw [← hrlX]; exact hl, fun _ => ?_⟩
    rw [gl.trk]
    show Track.Ok (adOf a sq).1.trk
    rw [d6]; exact f4 (by rw [k]; decide)
  · have e1 : (Status.eod == Status.fault) = false := by decide
    have e2 : (Status.eod == Status.eformat) = false := by decide
    simp only [k, d1, e1, e2, Bool.false_eq_true, if_false, beq_self_eq_true, if_true]
    refine ⟨Nat.le_of_eq hrlX, fun _ => ?_⟩
    show Track.Ok (adOf a sq).1.trk
    rw [d6]; exact f4 (by rw [k]; decide)
  · have e1 : (Status.eformat == Status.fault) = false := by decide
    simp only [k, e1, Bool.false_eq_true, if_false, beq_self_eq_true, if_true]
    exact ⟨Nat.le_of_eq (rl_congr t8 t9 t6), fun k' => absurd rfl k'⟩

theorem scanLoop_more (fuel : Nat) : ∀ (a : Ascii) (sq : Sq), BInv a sq → rl a < fuel →
    rl (scanLoop true fuel a sq).1 ≤ rl a ∧ ((scanLoop true fuel a sq).2.2.1 ≠ .eformat → Track.Ok (scanLoop true fuel a sq).1.trk) ∧
    Same sq (scanLoop true fuel a sq).2.1 := by
  induction fuel with
  | zero => intro a sq _ h; omega
  | succ fuel ih =>
    intro a sq h hf
    obtain ⟨g, hd, ha, hc⟩ := scanStep_good a sq h
    obtain ⟨m1, m2⟩ := scanStep_more a sq h
    rw [DataScan.scanLoop_succ]
    rcases hc with ⟨c1, c2, c3⟩ | ⟨c1, c2, c3⟩ | ⟨c1, c2, c3, c4⟩
    · simp only [c2, Bool.false_eq_true, if_false]
      exact ⟨m1, m2, ⟨hd, ha⟩⟩
    · simp only [c2, Bool.false_eq_true, if_false]
      exact ⟨m1, m2, ⟨hd, ha⟩⟩
    · simp only [c2, if_true]
      have hinv : BInv (scanStep true a sq).1 (scanStep true a sq).2.1 :=
        ⟨g.w, c3, by rw [g.inm]; exact h.hm, by rw [mapOf_same g.inm hd ha, g.inm]; exact h.hmap⟩
      obtain ⟨i1, i2, i3⟩ := ih _ _ hinv (by omega)
      exact ⟨Nat.le_trans i1 m1, i2, Same.trans ⟨hd, ha⟩ i3⟩

theorem endEmbl_more (a : Ascii) (sq : Sq) (w : LWF a) :
    (endEmbl a sq).1.trk = a.trk ∧ Same sq (endEmbl a sq).2.1 ∧ rl (endEmbl a sq).1 ≤ rl a := by
  unfold endEmbl
  have g := (loadbuf_good a w).1
  have hl := loadbuf_rl a w
  generalize loadbuf a = r at g hl
  obtain ⟨b, s⟩ := r
  simp only at g hl ⊢
  repeat' split
  all_goals first
    | exact ⟨rfl, ⟨rfl, rfl⟩, Nat.le_refl _⟩
    | exact ⟨g.trk, ⟨rfl, rfl⟩, hl⟩

theorem readBody_more (a : Ascii) (sq : Sq) (h : BInv a sq) (hf : LineFmt a) :
    rl (readBody a sq).1 ≤ rl a ∧ ((readBody a sq).2.2 = .ok → Track.Ok (readBody a sq).1.trk) ∧ Same sq (readBody a sq).2.1 := by
  rw [readBody_eq]
  obtain ⟨g, _⟩ := scanLoop_good (fuelOf a) a sq h (rl_le a)
  obtain ⟨m1, m2, m3⟩ := scanLoop_more (fuelOf a) a sq h (rl_le a)
  generalize scanLoop true (fuelOf a) a sq = r at g m1 m2 m3
  obtain ⟨b, q, st, ep⟩ := r
  simp only at g m1 m2 m3 ⊢
  have hfb : LineFmt b := hf.of_eq g.fmt
  by_cases hc : (st == Status.fault || st == Status.eformat) = true
  · simp only [hc, if_true]
    refine ⟨m1, fun k => ?_, m3⟩
    subst k; exact absurd hc (by decide)
  · simp only [hc, Bool.false_eq_true, if_false]
    have hne : st ≠ .eformat := by
      intro k; subst k; exact hc (by decide)
    have htok := m2 hne
    rw [bodyFin_fst]
    have hb : LWF { b with bpos := ep } := (setBpos_lsim (lsim_refl g.w) ep).w1
    obtain ⟨x1, x2, x3⟩ := endEmbl_more b q g.w
    obtain ⟨y1, y2, y3⟩ := endEmbl_more { b with bpos := ep } q hb
    have y3' : rl (endEmbl { b with bpos := ep } q).1 ≤ rl b := y3
    have hE : rl (bodyEnd b q st ep).1 ≤ rl b ∧ (bodyEnd b q st ep).1.trk = b.trk ∧ Same q (bodyEnd b q st ep).2.1 := by
      unfold bodyEnd
      rw [parseEnd_line b q hfb, parseEnd_line { b with bpos := ep } q hfb]
      repeat' split
      all_goals first
        | exact ⟨Nat.le_refl _, rfl, ⟨rfl, rfl⟩⟩
        | exact ⟨x3, x1, x2⟩
        | exact ⟨y3', y1, y2⟩
    obtain ⟨z1, z2, z3⟩ := hE
    refine ⟨Nat.le_trans z1 m1, fun _ => by rw [z2]; exact htok, ?_⟩
    refine Same.trans m3 (Same.trans z3 ?_)
    unfold bodyFin
    repeat' split
    all_goals exact ⟨rfl, rfl⟩

/-! ## one record, then the whole file -/

theorem read_more (a : Ascii) (sq : Sq) (w : LWF a) (hf : LineFmt a) (tok : Track.Ok a.trk) (hm : a.inmap.size = 128)
    (hmap : MapOk a.inmap (mapOf a sq)) (hok : (read a sq).2.2 = .ok) :
    rl (read a sq).1 < rl a ∧ Track.Ok (read a sq).1.trk ∧ Same sq (read a sq).2.1 := by
  rw [read_eq] at hok ⊢
  by_cases h0 : (a.nc == 0) = true
  · simp only [h0, if_true] at hok; cases hok
  have hnc : a.nc ≠ 0 := by simpa using h0
  simp only [h0, Bool.false_eq_true, if_false] at hok ⊢
  obtain ⟨g, _, _⟩ := parseHeader_good a sq w hf
  obtain ⟨sd, sa⟩ := parseHeader_same a sq hf
  obtain ⟨p1, p2⟩ := parseHeader_prog a sq w hf hnc
  generalize parseHeader a sq = p at g sd sa p1 p2 hok
  obtain ⟨b, q, st⟩ := p
  simp only at g sd sa p1 p2 hok ⊢
  by_cases hst : (st != Status.ok) = true
  · simp only [hst, if_true] at hok
    rw [hok] at hst; exact absurd hst (by decide)
  · have hst' : st = .ok := by simpa using hst
    simp only [hst, Bool.false_eq_true, if_false] at hok ⊢
    have hinv : BInv b q := ⟨g.w, by rw [g.trk]; exact tok, by rw [g.inm]; exact hm,
      by rw [mapOf_same g.inm sd sa, g.inm]; exact hmap⟩
    obtain ⟨m1, m2, m3⟩ := readBody_more b q hinv (hf.of_eq g.fmt)
    exact ⟨Nat.lt_of_le_of_lt m1 (p2 hst'), m2 hok, Same.trans ⟨sd, sa⟩ m3⟩

/-- **reading a whole EMBL / UniProt / GenBank / DDBJ file never faults**: the client loop over `sqascii_Read` ends with `eslEOF` or
    `eslEFORMAT` — never by a fault, never by running out of its fuel: every successful call consumes at least one line -/
theorem read_all_linebased_total (fuel : Nat) : ∀ (a : Ascii) (sq : Sq), LWF a → LineFmt a → Track.Ok a.trk → a.inmap.size = 128 →
    MapOk a.inmap (mapOf a sq) → rl a < fuel →
    (ParseFasta.readAllM fuel a sq).2 = .eof ∨ (ParseFasta.readAllM fuel a sq).2 = .eformat := by
  induction fuel with
  | zero => intro a sq _ _ _ _ _ h; omega
  | succ fuel ih =>
    intro a sq w hf tok hm hmap hfu
    have hmap' : MapOk a.inmap (mapOf a sq.reuse) := hmap
    obtain ⟨t1, _, _, t4, t5, _, t7⟩ := read_linebased_total a sq.reuse w hf tok hm hmap'
    have hmore := read_more a sq.reuse w hf tok hm hmap'
    simp only [ParseFasta.readAllM]
    generalize read a sq.reuse = r at t1 t4 t5 t7 hmore
    obtain ⟨b, q, st⟩ := r
    simp only at t1 t4 t5 t7 hmore ⊢
    rcases t1 with k | k | k
    · subst k
      obtain ⟨m1, m2, m3⟩ := hmore rfl
      have e : (Status.ok == Status.ok) = true := by decide
      simp only [e, if_true]
      exact ih b q t4 (hf.of_eq t5) m2 (by rw [t7]; exact hm)
        (by rw [mapOf_same (a := a) (sq := sq) t7 m3.1 m3.2, t7]; exact hmap) (by omega)
    · subst k
      have e : (Status.eof == Status.ok) = false := by decide
      simp only [e, Bool.false_eq_true, if_false]
      first | trivial | exact Or.inl rfl
    · subst k
      have e : (Status.eformat == Status.ok) = false := by decide
      simp only [e, Bool.false_eq_true, if_false]
      first | trivial | exact Or.inr rfl

/-- from `esl_sqfile_Open` on, with the fuel `file.size + 2` the driver uses -/
theorem read_all_linebased_open_total (file : Bytes) (B abc fmt : Nat) (eofOk : Bool) (inmap0 inmap1 : Bytes) (hB : 1 ≤ B)
    (hf : fmt = 2 ∨ fmt = 3 ∨ fmt = 4 ∨ fmt = 5) (hm : inmap1.size = 128) (sq : Sq)
    (hmap : MapOk inmap1 (if sq.digital then abcInmap sq.abc else inmap1)) :
    (ParseFasta.readAllM (file.size + 2) (openLine file B abc fmt eofOk inmap0 inmap1) sq).2 = .eof ∨
    (ParseFasta.readAllM (file.size + 2) (openLine file B abc fmt eofOk inmap0 inmap1) sq).2 = .eformat := by
  obtain ⟨hl, hfmt⟩ := openLine_lsim file B B abc fmt eofOk inmap0 inmap1 hB hB
  have w0 : LWF { file := file, B := B, abc := abc, fmt := fmt, eofIsOk := eofOk, linebased := true, inmap := inmap0 } :=
    lwf_fresh _ rfl (by show (0 : Int) ≠ 1; omega) hB rfl rfl rfl rfl rfl rfl
  have g := (loadbuf_good _ w0).1
  have hfile : (openLine file B abc fmt eofOk inmap0 inmap1).file = file := g.file
  have htrk : (openLine file B abc fmt eofOk inmap0 inmap1).trk = ({} : Track) := g.trk
  refine read_all_linebased_total (file.size + 2) _ sq hl.w1 (by unfold LineFmt; rw [hfmt]; exact hf)
    (by rw [htrk]; exact ⟨by decide, by decide⟩) hm hmap ?_
  have := rl_le (openLine file B abc fmt eofOk inmap0 inmap1)
  unfold fuelOf at this
  rw [hfile] at this
  exact this

/-! ## non-vacuity -/

/-- a damaged EMBL file: an illegal byte (`!`) in the sequence data -/
def demoBadE : Bytes := #[73, 68, 32, 32, 32, 88, 10, 83, 81, 32, 32, 32, 10, 32, 32, 97, 33, 99, 10, 47, 47, 10]

example : (ParseFasta.readAllM (demoBadE.size + 2) (openLine demoBadE 2 0 2 false (inmapEmbl 0) (inmapEmbl 0)) {}).2 = .eformat := by
  decide +kernel

example : (inmapEmbl 0).size = 128 := by decide +kernel

/-- the hypotheses of `read_all_linebased_open_total` hold in text mode for the EMBL input map -/
example (file : Bytes) (B : Nat) (hB : 1 ≤ B) :
    (ParseFasta.readAllM (file.size + 2) (openLine file B 0 2 false (inmapEmbl 0) (inmapEmbl 0)) {}).2 = .eof ∨
    (ParseFasta.readAllM (file.size + 2) (openLine file B 0 2 false (inmapEmbl 0) (inmapEmbl 0)) {}).2 = .eformat :=
  read_all_linebased_open_total file B 0 2 false (inmapEmbl 0) (inmapEmbl 0) hB (Or.inl rfl) (by decide +kernel) {}
    (MapOk.self _ (by decide +kernel))

end EaselModel.Sqio.EmblTotalAll
