import EaselModel.Sqio.Tables
/-! # Shared definitions for the sequence-file model (C04 / C02 / C07). Core Lean only. -/
namespace EaselModel.Sqio

abbrev Bytes := Array UInt8

/-- Easel return codes that the modelled functions can produce, plus the model-only outcome `fault`
    (an access outside an object: the sanitizer abort of the real code, DESIGN §3.2). -/
inductive Status
  | ok | eof | eod | eformat | einval | ecorrupt | esyntax | enotfound | erange | einconceivable | eincompat | fault
  deriving DecidableEq, Repr, Inhabited

def Status.name : Status → String
  | .ok => "ok" | .eof => "eof" | .eod => "eod" | .eformat => "eformat" | .einval => "einval"
  | .ecorrupt => "ecorrupt" | .esyntax => "esyntax" | .enotfound => "enotfound" | .erange => "erange"
  | .einconceivable => "einconceivable" | .eincompat => "eincompat" | .fault => "fault"

/-- C `isspace` in the "C" locale on a `char` (bytes ≥ 0x80 are negative chars: not space) -/
def isSpace (c : UInt8) : Bool := c == 32 || (9 ≤ c && c ≤ 13)

def isBlankTab (c : UInt8) : Bool := c == 32 || c == 9

def chGt : UInt8 := 62   -- '>'
def chNl : UInt8 := 10
def chCr : UInt8 := 13

/-- bytes of a C string: up to (not including) the first NUL -/
def cstr (b : Bytes) : Bytes :=
  match b.findIdx? (· == 0) with
  | some i => b.extract 0 i
  | none => b

/-- alphabet selector: 0 = text mode, 1 = DNA, 2 = RNA, 3 = amino -/
def abcInmap (abc : Nat) : Bytes :=
  if abc == 1 then Tables.dnaInmap else if abc == 2 then Tables.rnaInmap else if abc == 3 then Tables.aminoInmap else #[]

def abcComp (abc : Nat) : Bytes :=
  if abc == 1 then Tables.dnaComp else if abc == 2 then Tables.rnaComp else #[]

def abcSym (abc : Nat) : Bytes :=
  if abc == 1 then Tables.dnaSym else if abc == 2 then Tables.rnaSym else if abc == 3 then Tables.aminoSym else #[]

def abcKp (abc : Nat) : Nat :=
  if abc == 1 then Tables.dnaKp else if abc == 2 then Tables.rnaKp else if abc == 3 then Tables.aminoKp else 0

def setByte (m : Bytes) (i : Nat) (v : UInt8) : Bytes := m.setIfInBounds i v

/-- `inmap_fasta(sqfp, abc_inmap)` -/
def inmapFasta (abc : Nat) : Bytes :=
  let base : Bytes :=
    if abc == 0 then
      (Array.range 128).map fun x =>
        if (65 ≤ x && x ≤ 90) || (97 ≤ x && x ≤ 122) then UInt8.ofNat x else Tables.dsqIllegal
    else
      setByte ((Array.range 128).map fun x => (abcInmap abc).getD x Tables.dsqIllegal) 45 Tables.dsqIllegal
  let m := setByte base 42 42
  let m := setByte m 32 Tables.dsqIgnored
  let m := setByte m 9 Tables.dsqIgnored
  let m := setByte m 13 Tables.dsqIgnored
  let m := setByte m 10 Tables.dsqEol
  setByte m 62 Tables.dsqEod

/-- `inmap_embl` = `inmap_genbank`: digits, blanks and line ends ignored, `/` ends the data -/
def inmapEmbl (abc : Nat) : Bytes :=
  let base : Bytes :=
    if abc == 0 then
      (Array.range 128).map fun x =>
        if (65 ≤ x && x ≤ 90) || (97 ≤ x && x ≤ 122) then UInt8.ofNat x else Tables.dsqIllegal
    else
      setByte ((Array.range 128).map fun x => (abcInmap abc).getD x Tables.dsqIllegal) 45 Tables.dsqIllegal
  let m := (List.range 10).foldl (fun m d => setByte m (48 + d) Tables.dsqIgnored) base
  let m := setByte m 42 42
  let m := setByte m 32 Tables.dsqIgnored
  let m := setByte m 9 Tables.dsqIgnored
  let m := setByte m 10 Tables.dsqIgnored
  let m := setByte m 13 Tables.dsqIgnored
  setByte m 47 Tables.dsqEod

/-- `inmap_daemon`: as FASTA but `/` (not `>`) ends the data -/
def inmapDaemon (abc : Nat) : Bytes :=
  let m := setByte (inmapFasta abc) 62 (if abc == 0 then Tables.dsqIllegal else (abcInmap abc).getD 62 Tables.dsqIllegal)
  setByte m 47 Tables.dsqEod

/-! C-string views of a line buffer -/

/-- the C string starting at offset `k` of a buffer whose byte `size` is the terminating NUL -/
def cstrFrom (l : Bytes) (k : Nat) : Bytes := cstr (l.extract k l.size)

/-- `strncmp(buf, p, p.length) == 0` -/
def hasPrefix (l : Bytes) (p : String) : Bool :=
  let pb := p.toUTF8.data
  (cstr l).extract 0 pb.size == pb

/-- `esl_str_IsBlank` -/
def isBlankStr (l : Bytes) : Bool := (cstr l).all isSpace

/-- `esl_strtok(&s, delim, &tok)` on the C string `s`: the first token, or `none` (eslEOL) -/
def strtok (s : Bytes) (delim : List UInt8) : Option Bytes :=
  let t := (s.toList.dropWhile fun c => delim.contains c)
  if t.isEmpty then none else some (t.takeWhile fun c => !delim.contains c).toArray

/-- `esl_strchop(s, n)` followed by reading `s` as a C string -/
def chopped (raw : Bytes) : Bytes :=
  cstr (raw.toList.reverse.dropWhile isSpace).reverse.toArray

/-- `strstr(buf, pat) != NULL` -/
def containsStr (l : Bytes) (pat : String) : Bool :=
  let pb := pat.toUTF8.data.toList
  let s := (cstr l).toList
  (List.range (s.length + 1)).any fun i => (s.drop i).take pb.length == pb

end EaselModel.Sqio
