import EaselModel.Sqio.BodySpec
import EaselModel.Sqio.HeaderSpec
/-! # One FASTA record, three ways, in closed form (whole-reader refinement, layer iii)

`recL` / `infoL` / `seqL`: what `sqascii_Read` / `ReadInfo` / `ReadSequence` return when the cursor stands on the list `l` of
remaining file bytes — `dropWhile` / `takeWhile` / `filter` only, no buffer and no block size. `read_spec`, `readInfo_spec`,
`readSequence_spec`: the model's calls (which run through `loadbuf` at every block boundary) return exactly that for every
`B ≥ 1`, and leave the cursor on the remaining bytes the closed form says. `Status.fault` is not an outcome. -/
namespace EaselModel.Sqio.ReadSpec
open EaselModel.Sqio.Refine EaselModel.Sqio.Fold EaselModel.Sqio.DataScan EaselModel.Sqio.Cursor EaselModel.Sqio.BodySpec
open EaselModel.Sqio.HeaderSpec

/-- the only end-of-data byte of the FASTA input map is `>` -/
def EodGt (inmap : Bytes) : Prop := ∀ c : UInt8, isEod inmap c = true → c = chGt

/-- what a reading call needs of the handle and the `ESL_SQ` it is given -/
structure Ready (a : Ascii) (sq : Sq) : Prop where
  cur : Cur a
  fmt : a.fmt = 1
  eofOk : a.eofIsOk = true
  hm : a.inmap.size = 128
  mapOk : MapOk a.inmap (mapOf a sq)
  eodGt : EodGt a.inmap
  nalloc : 2 ≤ sq.nalloc
  dalloc : 2 ≤ sq.dalloc

/-- the data part of a record: consume `takeWhile isData`, keep the residues -/
def bodyL (inmap map : Bytes) (N : Nat) (sq : Sq) (l : List UInt8) : Status × Sq × List UInt8 :=
  match l.dropWhile (isData inmap) with
  | [] => (.ok, ({ stored true inmap map sq (l.takeWhile (isData inmap)) with eoff := offOf N [] - 1 }).setWhole, [])
  | c :: t =>
    if isEod inmap c then
      (.ok, ({ stored true inmap map sq (l.takeWhile (isData inmap)) with eoff := offOf N (c :: t) - 1 }).setWhole, c :: t)
    else (.eformat, sq, c :: t)

theorem Cur.at {A : Ascii} (E : Nat) (hw : ∃ b, WF { A with bpos := b }) (hE : E < A.nc) (tok : Track.Ok A.trk) :
    Cur { A with bpos := E } := by
  obtain ⟨b, w⟩ := hw
  exact ⟨⟨w.block, w.norec, w.bpos1, w.full, w.moff0, w.fposEq, w.fposLe, w.ncLe, w.boffEq, Nat.le_of_lt hE⟩, Or.inl hE, tok⟩

theorem fileFrom_drop (a A : Ascii) (k : Nat) (hf : A.file = a.file) (hp : pos A = pos a + (k : Int)) (h0 : 0 ≤ pos a) :
    fileFrom A = (fileFrom a).drop k := by
  unfold fileFrom
  rw [hf, hp, List.drop_drop]
  congr 1
  omega

theorem offOf_drop (a : Ascii) (h : Cur a) (d r : List UInt8) (hl : d.length + r.length = (fileFrom a).length) :
    pos a + (d.length : Int) = offOf a.file.size r := by
  have e1 := h.posEq
  have e2 := h.len
  have e3 := h.posNonneg
  unfold offOf
  omega

theorem termOk_eoff (s : Sq) (e : Int) : ({ s with eoff := e } : Sq).termOk = s.termOk := rfl

theorem stored_termOk (inmap map : Bytes) (sq : Sq) (d : List UInt8) : (stored true inmap map sq d).termOk = true := by
  simp only [stored, if_true, Sq.termOk, Sq.n, Array.size_append, resOf_size, nresOf]
  cases sq.digital <;> simp <;> omega

/-- **the data part of `sqascii_Read` / `ReadSequence` = `bodyL`**, for every block size -/
theorem readBody_spec (a : Ascii) (sq : Sq) (h : Cur a) (hfmt : a.fmt = 1) (heof : a.eofIsOk = true) (hm : a.inmap.size = 128)
    (hmap : MapOk a.inmap (mapOf a sq)) (hgt : EodGt a.inmap) :
    (readBody a sq).2.2 = (bodyL a.inmap (mapOf a sq) a.file.size sq (fileFrom a)).1 ∧
    ((bodyL a.inmap (mapOf a sq) a.file.size sq (fileFrom a)).1 = .ok →
      (readBody a sq).2.1 = (bodyL a.inmap (mapOf a sq) a.file.size sq (fileFrom a)).2.1 ∧ Cur (readBody a sq).1 ∧
      fileFrom (readBody a sq).1 = (bodyL a.inmap (mapOf a sq) a.file.size sq (fileFrom a)).2.2 ∧ stat (readBody a sq).1 = stat a) ∧
    ((bodyL a.inmap (mapOf a sq) a.file.size sq (fileFrom a)).1 = .eformat → (readBody a sq).1.haveErr = true) := by
  have hfuel : (fileFrom a).length + 1 < fuelOf a := by have := h.len; unfold fuelOf; omega
  obtain ⟨k1, k2, k3⟩ := scanLoop_spec true (fuelOf a) a sq h hm (fun _ => hmap) hfuel _ _ rfl rfl
  have hlen := takeWhile_length_le (isData a.inmap) (fileFrom a)
  unfold readBody bodyL
  generalize scanLoop true (fuelOf a) a sq = R at k1 k2 k3 ⊢
  obtain ⟨A, S, T, E⟩ := R
  simp only [] at k1 k2 k3 ⊢
  cases hr : (fileFrom a).dropWhile (isData a.inmap) with
  | nil =>
    obtain ⟨j1, j2, j3, j4, j5, j6⟩ := k1 hr
    subst j1
    have hA : A.eofIsOk = true := by
      have : A.eofIsOk = a.eofIsOk := congrArg (fun p => p.2.2.1) j5
      rw [this]; exact heof
    have hAf : A.fmt = 1 := by
      have : A.fmt = a.fmt := congrArg (fun p => p.2.2.2.1) j5
      rw [this]; exact hfmt
    obtain ⟨⟨n0, b0⟩, _⟩ := j3.eof_of_nil j4
    have hend : parseEnd A S = (A, S, .ok) := by
      rw [parseEnd_fasta A S hAf]; unfold endFasta
      have : ¬ A.bpos < A.nc := by omega
      simp [this]
    have b1 : (Status.eof == Status.fault || Status.eof == Status.eformat) = false := by decide
    have b2 : (Status.ok != Status.ok) = false := by decide
    simp only [b1, Bool.false_eq_true, if_false, beq_self_eq_true, if_true, hA, Bool.not_true, hend, b2]
    have hoff : pos a + (((fileFrom a).takeWhile (isData a.inmap)).length : Int) - 1 = offOf a.file.size [] - 1 := by
      rw [offOf_drop a h _ [] (by rw [hr] at hlen; exact hlen)]
    rw [j2, hoff]
    simp only [termOk_eoff, stored_termOk, Bool.not_true, Bool.false_eq_true, if_false]
    exact ⟨trivial, fun _ => ⟨trivial, j3, j4, j5⟩, fun k => (by cases k)⟩
  | cons c t =>
    by_cases hce : isEod a.inmap c = true
    · obtain ⟨j1, j2, j3, j4, j5, j6, j7, j8⟩ := k2 c t hr hce
      subst j1
      have hAf : A.fmt = 1 := by
        have : A.fmt = a.fmt := congrArg (fun p => p.2.2.2.1) j5
        rw [this]; exact hfmt
      have hAfile : A.file = a.file := congrArg (fun p => p.1) j5
      have hcur : Cur { A with bpos := E } := Cur.at E j3 j8 j4
      have hff : fileFrom { A with bpos := E } = c :: t := by
        rw [fileFrom_drop a { A with bpos := E } ((fileFrom a).takeWhile (isData a.inmap)).length hAfile j7 h.posNonneg,
          drop_takeWhile_length, hr]
      obtain ⟨x, hx, hfx⟩ := fileFrom_live _ hcur.wf (show Sim.Live { A with bpos := E } from j8)
      rw [hff] at hfx
      have hxc : x = c := ((List.cons.inj hfx).1).symm
      have hcgt : c = chGt := hgt c hce
      have hend : parseEnd { A with bpos := E } S = ({ A with bpos := E }, { S with eoff := A.boff + (E : Int) - 1 }, .ok) := by
        rw [parseEnd_fasta _ S (show ({ A with bpos := E } : Ascii).fmt = 1 from hAf)]; unfold endFasta
        have hlt : ({ A with bpos := E } : Ascii).bpos < ({ A with bpos := E } : Ascii).nc := j8
        simp only [hlt, if_true, hx, hxc, hcgt]
        simp
      have b1 : (Status.eod == Status.fault || Status.eod == Status.eformat) = false := by decide
      have b2 : (Status.ok != Status.ok) = false := by decide
      have b3 : (Status.eod == Status.eof) = false := by decide
      simp only [b1, b3, Bool.false_eq_true, if_false, beq_self_eq_true, if_true, hend, b2, hce]
      have hoff : pos a + (((fileFrom a).takeWhile (isData a.inmap)).length : Int) - 1 = offOf a.file.size (c :: t) - 1 := by
        rw [offOf_drop a h _ (c :: t) (by rw [hr] at hlen; exact hlen)]
      rw [j7, j2, hoff]
      simp only [termOk_eoff, stored_termOk, Bool.not_true, Bool.false_eq_true, if_false]
      exact ⟨trivial, fun _ => ⟨trivial, hcur, hff, j5⟩, fun k => (by cases k)⟩
    · have hce' : isEod a.inmap c = false := by simpa using hce
      obtain ⟨j1, j2⟩ := k3 c t hr hce'
      subst j1
      have b1 : (Status.eformat == Status.fault || Status.eformat == Status.eformat) = true := by decide
      simp only [b1, if_true, hce', Bool.false_eq_true, if_false]
      exact ⟨trivial, fun k => (by cases k), fun _ => j2⟩


/-! ## one whole record -/

/-- the map `addbuf` uses: the alphabet's own input map in digital mode, else the file map -/
def mapFor (inmap : Bytes) (sq : Sq) : Bytes := if sq.digital then abcInmap sq.abc else inmap

/-- `sqascii_Read` on the remaining bytes `l` of a FASTA file of `N` bytes: status, record, remaining bytes -/
def recL (inmap : Bytes) (N : Nat) (sq : Sq) (l : List UInt8) : Status × Sq × List UInt8 :=
  if l.isEmpty then (.eof, sq, []) else
  if (headerL N sq l).1 == .ok then bodyL inmap (mapFor inmap sq) N (headerL N sq l).2.1 (headerL N sq l).2.2
  else headerL N sq l

theorem hfNameL_keeps (N : Nat) (sq : Sq) (l : List UInt8) (r : Sq × List UInt8) (h : hfNameL N sq l = some r) :
    r.1.digital = sq.digital ∧ r.1.abc = sq.abc ∧ r.1.seq = sq.seq ∧ r.1.salloc = sq.salloc ∧ r.1.acc = sq.acc ∧
    r.1.roff = sq.roff ∧ r.1.eoff = sq.eoff := by
  unfold hfNameL at h
  split at h
  · cases h
  · have := (Option.some.inj h).symm
    subst this
    simp [hfDescL, hfEndL]

theorem headerL_keeps (N : Nat) (sq : Sq) (l : List UInt8) :
    (headerL N sq l).2.1.digital = sq.digital ∧ (headerL N sq l).2.1.abc = sq.abc ∧ (headerL N sq l).2.1.seq = sq.seq ∧
    (headerL N sq l).2.1.salloc = sq.salloc ∧ (headerL N sq l).2.1.acc = sq.acc := by
  unfold headerL
  split
  · simp
  · split
    · simp
    · split
      · simp
      · rename_i r hr
        obtain ⟨k1, k2, k3, k4, k5, _⟩ := hfNameL_keeps _ _ _ r hr
        exact ⟨k1, k2, k3, k4, k5⟩

theorem mapOf_eq (a : Ascii) (sq : Sq) : mapOf a sq = mapFor a.inmap sq := rfl

theorem stat_fmt {a b : Ascii} (h : stat a = stat b) : a.fmt = b.fmt := congrArg (fun p => p.2.2.2.1) h
theorem stat_eofIsOk {a b : Ascii} (h : stat a = stat b) : a.eofIsOk = b.eofIsOk := congrArg (fun p => p.2.2.1) h

theorem read_eq (a : Ascii) (sq : Sq) : read a sq =
    if a.nc == 0 then (a, sq, .eof) else
    if (parseHeader a sq).2.2 != .ok then parseHeader a sq else readBody (parseHeader a sq).1 (parseHeader a sq).2.1 := rfl

/-- **`sqascii_Read` on a FASTA file = `recL` on the remaining file bytes, for every block size `B ≥ 1`.** -/
theorem read_spec (a : Ascii) (sq : Sq) (R : Ready a sq) :
    (read a sq).2.2 = (recL a.inmap a.file.size sq (fileFrom a)).1 ∧
    ((recL a.inmap a.file.size sq (fileFrom a)).1 = .ok →
      (read a sq).2.1 = (recL a.inmap a.file.size sq (fileFrom a)).2.1 ∧ Cur (read a sq).1 ∧
      fileFrom (read a sq).1 = (recL a.inmap a.file.size sq (fileFrom a)).2.2 ∧ stat (read a sq).1 = stat a) ∧
    ((recL a.inmap a.file.size sq (fileFrom a)).1 = .eformat → (read a sq).1.haveErr = true) ∧
    ((recL a.inmap a.file.size sq (fileFrom a)).1 = .eof → Cur (read a sq).1 ∧ fileFrom (read a sq).1 = [] ∧
      stat (read a sq).1 = stat a) := by
  rw [read_eq, parseHeader_fasta a sq R.fmt]
  rcases R.cur.cur with hl | ⟨⟨e1, e2⟩, e3⟩
  · have hn : (a.nc == 0) = false := by simp only [Sim.Live] at hl; simp; omega
    obtain ⟨x, t, _, hf, _⟩ := abs_of_live a R.cur hl
    obtain ⟨q1, q2, q3, q4⟩ := headerFasta_spec a sq R.cur hl R.nalloc R.dalloc
    obtain ⟨u1, u2, _, _, _⟩ := headerL_keeps a.file.size sq (fileFrom a)
    have hne : (fileFrom a).isEmpty = false := by rw [hf]; rfl
    unfold recL
    simp only [hn, hne, Bool.false_eq_true, if_false]
    generalize headerL a.file.size sq (fileFrom a) = H at q1 q2 q3 q4 u1 u2 ⊢
    obtain ⟨hst, hsq, hrest⟩ := H
    generalize headerFasta a sq = r0 at q1 q2 q3 q4 ⊢
    obtain ⟨a1, sq1, st1⟩ := r0
    simp only [] at q1 q2 q3 q4 u1 u2 ⊢
    obtain ⟨rfl, rfl⟩ := Prod.mk.inj q1
    by_cases hok : st1 = .ok
    · subst hok
      obtain ⟨c1, c2, c3⟩ := q2 rfl
      have b1 : (Status.ok != Status.ok) = false := by decide
      have b2 : (Status.ok == Status.ok) = true := by decide
      simp only [b1, b2, Bool.false_eq_true, if_false, if_true]
      have hi : a1.inmap = a.inmap := stat_inmap c3
      have hfile : a1.file = a.file := stat_file c3
      have hmapeq : mapOf a1 sq1 = mapFor a.inmap sq := by
        simp only [mapOf, mapFor, u1, u2, hi]
      obtain ⟨d1, d2, d3⟩ := readBody_spec a1 sq1 c1 ((stat_fmt c3).trans R.fmt) ((stat_eofIsOk c3).trans R.eofOk)
        (by rw [hi]; exact R.hm) (by rw [hmapeq, hi]; exact R.mapOk) (by rw [hi]; exact R.eodGt)
      rw [hmapeq, hi, hfile, c2] at d1 d2 d3
      refine ⟨d1, fun k => ?_, d3, fun k => ?_⟩
      · obtain ⟨m1, m2, m3, m4⟩ := d2 k
        exact ⟨m1, m2, m3, m4.trans c3⟩
      · exfalso
        revert k
        unfold bodyL
        split
        · intro k; cases k
        · split <;> (intro k; cases k)
    · have b1 : (st1 != Status.ok) = true := by simpa using hok
      have b2 : (st1 == Status.ok) = false := by simpa using hok
      simp only [b1, b2, if_true, Bool.false_eq_true, if_false]
      exact ⟨trivial, fun k => absurd k hok, q3, q4⟩
  · have hn : (a.nc == 0) = true := by simp [e1]
    have hnil := fileFrom_eof a e3
    unfold recL
    simp only [hn, if_true, hnil, List.isEmpty_nil]
    exact ⟨trivial, fun k => (by cases k), fun k => (by cases k), fun _ => ⟨R.cur, by first | exact hnil | trivial, by first | rfl | trivial⟩⟩

end EaselModel.Sqio.ReadSpec
