import EaselModel.Sqio.MsaSeqLemmas
/-! # `sqascii_ReadWindow` on an alignment file is total (C02): the copy / reverse-complement / annotation tail (`windowCopy`) never
leaves the row it slices, and the call as a whole answers ok / eod / eof / eformat / einval (reverse strand of a text sequence that is
not nucleic) from every consistent window state. -/
namespace EaselModel.Sqio.MsaSeq
open EaselModel.Msafile

/-- a window record as the alignment branch returns it -/
structure WinWF (c w : Int) (q : Sq) : Prop where
  name : q.name.size < q.nalloc
  desc : q.desc.size < q.dalloc
  room : (if q.digital then q.n + 2 else q.n + 1) ≤ q.salloc
  n : (q.n : Int) = c + w
  c : q.C = c
  w : q.W = w

theorem growTo_fields (s : Sq) (n : Nat) :
    (s.growTo n).digital = s.digital ∧ (s.growTo n).abc = s.abc ∧ (s.growTo n).nalloc = s.nalloc ∧ (s.growTo n).dalloc = s.dalloc ∧
    (if s.digital then n + 2 else n + 1) ≤ (s.growTo n).salloc ∧ (s.growTo n).L = s.L := by
  unfold Sq.growTo
  cases hd : s.digital
  · simp only [Bool.false_eq_true, if_false]
    split
    · exact ⟨by first | rfl | exact hd, rfl, rfl, rfl, Nat.le_refl _, rfl⟩
    · exact ⟨by first | rfl | exact hd, rfl, rfl, rfl, by omega, rfl⟩
  · simp only [if_true]
    split
    · exact ⟨by first | rfl | exact hd, rfl, rfl, rfl, Nat.le_refl _, rfl⟩
    · exact ⟨by first | rfl | exact hd, rfl, rfl, rfl, by omega, rfl⟩

/-- the slice of a consistent window: exactly residues `start..end` of the row, `n` of them, inside the grown allocation -/
theorem windowSlice_fields (sq t : Sq) (c st en n w : Int) (hst : 1 ≤ st) (hn : 0 ≤ n) (hspan : st + n = en + 1) (hen : en ≤ (t.n : Int)) :
    (windowSlice sq t c st en n w).seq = t.seq.extract (st.toNat - 1) en.toNat ∧
    (windowSlice sq t c st en n w).seq.size = n.toNat ∧
    (windowSlice sq t c st en n w).digital = sq.digital ∧ (windowSlice sq t c st en n w).abc = sq.abc ∧
    (windowSlice sq t c st en n w).nalloc = sq.nalloc ∧ (windowSlice sq t c st en n w).dalloc = sq.dalloc ∧
    (if sq.digital then n.toNat + 2 else n.toNat + 1) ≤ (windowSlice sq t c st en n w).salloc ∧
    (windowSlice sq t c st en n w).L = sq.L ∧
    (windowSlice sq t c st en n w).start = st ∧ (windowSlice sq t c st en n w).end_ = en ∧
    (windowSlice sq t c st en n w).C = c ∧ (windowSlice sq t c st en n w).W = w := by
  have hidx : st.toNat - 1 + n.toNat = en.toNat := by omega
  have hsz : (t.seq.extract (st.toNat - 1) (st.toNat - 1 + n.toNat)).size = n.toNat := by
    rw [Array.size_extract, hidx]
    have : en.toNat ≤ t.seq.size := by simp only [Sq.n] at hen; omega
    omega
  obtain ⟨g1, g2, g3, g4, g5, g6⟩ := growTo_fields sq n.toNat
  have hfrag : (if (t.seq.extract (st.toNat - 1) (st.toNat - 1 + n.toNat)).size < n.toNat
      then t.seq.extract (st.toNat - 1) (st.toNat - 1 + n.toNat) ++
        (Array.range (n.toNat - (t.seq.extract (st.toNat - 1) (st.toNat - 1 + n.toNat)).size)).map (fun _ => if t.digital then (255 : UInt8) else 0)
      else t.seq.extract (st.toNat - 1) (st.toNat - 1 + n.toNat)) = t.seq.extract (st.toNat - 1) en.toNat := by
    rw [if_neg (by rw [hsz]; exact Nat.lt_irrefl _), hidx]
  unfold windowSlice
  refine ⟨hfrag, ?_, g1, g2, g3, g4, g5, g6, rfl, rfl, rfl, rfl⟩
  show (if _ then _ else _ : Array UInt8).size = n.toNat
  rw [hfrag, ← hidx]; exact hsz

theorem copyAnnot_fields (q t : Sq) :
    (copyAnnot q t).name.size < (copyAnnot q t).nalloc ∧ (copyAnnot q t).desc.size < (copyAnnot q t).dalloc ∧
    (copyAnnot q t).seq = q.seq ∧ (copyAnnot q t).digital = q.digital ∧ (copyAnnot q t).salloc = q.salloc ∧
    (copyAnnot q t).start = q.start ∧ (copyAnnot q t).end_ = q.end_ ∧ (copyAnnot q t).C = q.C ∧ (copyAnnot q t).W = q.W ∧
    (copyAnnot q t).L = q.L := by
  unfold copyAnnot
  refine ⟨?_, ?_, rfl, rfl, rfl, rfl, rfl, rfl, rfl, rfl⟩
  · show t.name.size < (if t.name.size ≥ q.nalloc then t.name.size + 1 else q.nalloc); split <;> omega
  · show t.desc.size < (if t.desc.size ≥ q.dalloc then t.desc.size + 1 else q.dalloc); split <;> omega

/-- `esl_sq_ReverseComplement` on a text window: `eslOK` or `eslEINVAL` (a symbol that is not nucleic), no exception; only the residues
    change (same number) and `start` / `end` are swapped -/
theorem revcomp_text (sq : Sq) (hd : sq.digital = false) :
    ((revcomp sq).2.1 = .ok ∨ (revcomp sq).2.1 = .einval) ∧ (revcomp sq).2.2 = false ∧
    (revcomp sq).1 = { sq with seq := (revcomp sq).1.seq, start := sq.end_, end_ := sq.start } ∧
    (revcomp sq).1.seq.size = sq.seq.size := by
  unfold revcomp
  rw [if_pos (by simp [hd])]
  refine ⟨?_, rfl, rfl, by simp⟩
  show (if _ then Status.ok else Status.einval) = .ok ∨ (if _ then Status.ok else Status.einval) = .einval
  split
  · exact Or.inl rfl
  · exact Or.inr rfl

/-- … on a digital DNA / RNA window whose codes are inside the complement table: `eslOK`, no exception -/
theorem revcomp_digital (sq : Sq) (hd : sq.digital = true) (ht : (abcComp sq.abc).size ≠ 0)
    (hc : ∀ x ∈ sq.seq.toList, x.toNat < (abcComp sq.abc).size) :
    (revcomp sq).2.1 = .ok ∧ (revcomp sq).2.2 = false ∧
    (revcomp sq).1 = { sq with seq := (revcomp sq).1.seq, start := sq.end_, end_ := sq.start } ∧
    (revcomp sq).1.seq.size = sq.seq.size := by
  have hall : (sq.seq.all fun x => decide (x.toNat < (abcComp sq.abc).size)) = true := by
    rw [Array.all_eq_true_iff_forall_mem]
    intro x hx
    exact decide_eq_true (hc x (by simpa using hx))
  unfold revcomp
  rw [if_neg (by simp [hd]), if_neg (by simpa using ht), if_pos hall]
  exact ⟨rfl, rfl, rfl, by simp⟩

/-- **the tail of the alignment branch of `sqascii_ReadWindow` is total**: with coordinates that the coordinate theorems guarantee
    (`1 ≤ start`, `start + n = end + 1 ≤ L + 1`, `n = C' + W'`, `W' ≥ 1`) the slice copied from the row lies inside it - never a fault -;
    forward: `eslOK` with exactly residues `start..end` of the dealigned row; reverse: `eslOK` with `start`/`end` swapped, or (text mode,
    a symbol that is not nucleic) `eslEINVAL` with a message; no exception; the handle's alignment, index and reader are untouched -/
theorem windowCopy_total (h : MsaH) (sq t : Sq) (W c st en n w : Int)
    (hn : n = c + w) (hc : 0 ≤ c) (hw : 1 ≤ w) (hst : 1 ≤ st) (hspan : st + n = en + 1) (hen : en ≤ (t.n : Int))
    (hrev : W < 0 → sq.digital = true → (abcComp sq.abc).size ≠ 0 ∧ ∀ x ∈ t.seq.toList, x.toNat < (abcComp sq.abc).size) :
    (windowCopy h sq t W c st en n w).1.msa = h.msa ∧ (windowCopy h sq t W c st en n w).1.idx = h.idx ∧
    (windowCopy h sq t W c st en n w).1.o = h.o ∧ (windowCopy h sq t W c st en n w).1.exc = h.exc ∧
    (((windowCopy h sq t W c st en n w).2.2 = .ok ∧ WinWF c w (windowCopy h sq t W c st en n w).2.1 ∧
        (windowCopy h sq t W c st en n w).2.1.digital = sq.digital ∧ (windowCopy h sq t W c st en n w).2.1.L = sq.L ∧
        (¬ W < 0 → (windowCopy h sq t W c st en n w).2.1.start = st ∧ (windowCopy h sq t W c st en n w).2.1.end_ = en ∧
           (windowCopy h sq t W c st en n w).2.1.seq = t.seq.extract (st.toNat - 1) en.toNat) ∧
        (W < 0 → (windowCopy h sq t W c st en n w).2.1.start = en ∧ (windowCopy h sq t W c st en n w).2.1.end_ = st)) ∨
     (W < 0 ∧ sq.digital = false ∧ (windowCopy h sq t W c st en n w).2.2 = .einval ∧
        (windowCopy h sq t W c st en n w).1.haveErr = true)) := by
  have hn0 : 0 ≤ n := by omega
  have hbound : (decide (n < 0) || decide (st < 1) || decide (st + n > (t.n : Int) + 2)) = false := by
    simp only [Bool.or_eq_false_iff, decide_eq_false_iff_not]; omega
  obtain ⟨s1, s2, s3, s4, s5, s6, s7, s8, s9, s10, s11, s12⟩ := windowSlice_fields sq t c st en n w hst hn0 hspan hen
  have hnn : ((n.toNat : Nat) : Int) = c + w := by omega
  unfold windowCopy
  rw [if_neg (by rw [hbound]; exact Bool.false_ne_true)]
  by_cases hWn : W < 0
  · rw [if_pos hWn]
    generalize hq : windowSlice sq t c st en n w = q at s1 s2 s3 s4 s5 s6 s7 s8 s9 s10 s11 s12
    -- facts about the reverse complement of the slice
    have hrc : ((revcomp q).2.1 = .ok ∨ ((revcomp q).2.1 = .einval ∧ sq.digital = false)) ∧ (revcomp q).2.2 = false ∧
        (revcomp q).1 = { q with seq := (revcomp q).1.seq, start := q.end_, end_ := q.start } ∧ (revcomp q).1.seq.size = q.seq.size := by
      cases hd : sq.digital with
      | false =>
        obtain ⟨r1, r2, r3, r4⟩ := revcomp_text q (by rw [s3, hd])
        exact ⟨r1.elim Or.inl (fun x => Or.inr ⟨x, rfl⟩), r2, r3, r4⟩
      | true =>
        obtain ⟨ht, hcodes⟩ := hrev hWn hd
        obtain ⟨r1, r2, r3, r4⟩ := revcomp_digital q (by rw [s3, hd]) (by rw [s4]; exact ht) (by
          intro x hx
          rw [s4]
          rw [s1, Array.toList_extract] at hx
          exact hcodes x (List.mem_of_mem_drop (List.mem_of_mem_take hx)))
        exact ⟨Or.inl r1, r2, r3, r4⟩
    obtain ⟨r1, r2, r3, r4⟩ := hrc
    generalize revcomp q = rr at r1 r2 r3 r4
    obtain ⟨q', stR, excR⟩ := rr
    simp only at r1 r2 r3 r4
    subst r2
    rcases r1 with r1 | ⟨r1, hdf⟩
    · subst r1
      obtain ⟨a1, a2, a3, a4, a5, a6, a7, a8, a9, a10⟩ := copyAnnot_fields q' t
      have e1 : (Status.ok == Status.fault) = false := rfl
      have e2 : (Status.ok != Status.ok) = false := rfl
      simp only [e1, e2, Bool.false_eq_true, if_false, Bool.or_false]
      have hq'd : q'.digital = sq.digital := by rw [r3]; exact s3
      have hq's : q'.salloc = q.salloc := by rw [r3]
      refine ⟨(by first | trivial | rfl), (by first | trivial | rfl), (by first | trivial | rfl), (by first | trivial | rfl), Or.inl ⟨(by first | trivial | rfl), ⟨a1, a2, ?_, ?_, ?_, ?_⟩, ?_, ?_, fun hx => absurd hWn hx, fun _ => ⟨?_, ?_⟩⟩⟩
      · show (if (copyAnnot q' t).digital then (copyAnnot q' t).seq.size + 2 else (copyAnnot q' t).seq.size + 1) ≤ (copyAnnot q' t).salloc
        rw [a4, a3, a5, hq'd, hq's, r4, s2]; exact s7
      · show (((copyAnnot q' t).seq.size : Nat) : Int) = c + w
        rw [a3, r4, s2]; exact hnn
      · rw [a8, r3]; exact s11
      · rw [a9, r3]; exact s12
      · rw [a4, hq'd]
      · rw [a10, r3]; exact s8
      · rw [a6, r3]; exact s10
      · rw [a7, r3]; exact s9
    · subst r1
      have e1 : (Status.einval == Status.fault) = false := rfl
      have e2 : (Status.einval != Status.ok) = true := rfl
      simp only [e1, e2, Bool.false_eq_true, if_false, if_true, Bool.or_false]
      exact ⟨(by first | trivial | rfl), (by first | trivial | rfl), (by first | trivial | rfl), (by first | trivial | rfl), Or.inr ⟨hWn, hdf, (by first | trivial | rfl), (by first | trivial | rfl)⟩⟩
  · rw [if_neg hWn]
    obtain ⟨a1, a2, a3, a4, a5, a6, a7, a8, a9, a10⟩ := copyAnnot_fields (windowSlice sq t c st en n w) t
    have e1 : (Status.ok == Status.fault) = false := rfl
    have e2 : (Status.ok != Status.ok) = false := rfl
    simp only [e1, e2, Bool.false_eq_true, if_false, Bool.or_false]
    refine ⟨(by first | trivial | rfl), (by first | trivial | rfl), (by first | trivial | rfl), (by first | trivial | rfl), Or.inl ⟨(by first | trivial | rfl), ⟨a1, a2, ?_, ?_, ?_, ?_⟩, ?_, ?_, fun _ => ⟨?_, ?_, ?_⟩, fun hx => absurd hx hWn⟩⟩
    · show (if (copyAnnot (windowSlice sq t c st en n w) t).digital then (copyAnnot (windowSlice sq t c st en n w) t).seq.size + 2
          else (copyAnnot (windowSlice sq t c st en n w) t).seq.size + 1) ≤ (copyAnnot (windowSlice sq t c st en n w) t).salloc
      rw [a4, a3, a5, s3, s2]; exact s7
    · show (((copyAnnot (windowSlice sq t c st en n w) t).seq.size : Nat) : Int) = c + w
      rw [a3, s2]; exact hnn
    · rw [a8]; exact s11
    · rw [a9]; exact s12
    · rw [a4]; exact s3
    · rw [a10]; exact s8
    · rw [a6]; exact s9
    · rw [a7]; exact s10
    · rw [a3]; exact s1

theorem adjIdx_fields (h : MsaH) (sq : Sq) (W : Int) :
    (adjIdx h sq W).msa = h.msa ∧ (adjIdx h sq W).o = h.o ∧ (adjIdx h sq W).exc = h.exc ∧ (adjIdx h sq W).haveErr = h.haveErr := by
  unfold adjIdx; split <;> exact ⟨rfl, rfl, rfl, rfl⟩

theorem compTable_size : (abcComp 1).size = (abcOfType .dna).kp ∧ (abcComp 2).size = (abcOfType .rna).kp ∧ (abcComp 1).size ≠ 0 ∧ (abcComp 2).size ≠ 0 := by
  decide

/-- **`sqascii_ReadWindow` on an alignment file is total, for every byte string, from every consistent window state**: the caller's
    `ESL_SQ` is fresh (after `esl_sq_Reuse` / `eslEOD`) or holds the previous window of the row being read (`FwdState` / `RevState`; for the
    reverse strand `sq->L` is the row's length, as the forward `eslEOD` left it). Then the call answers `eslOK` with a well-formed window
    (`n = C' + W'`, `0 ≤ C' ≤ C`, `1 ≤ W' ≤ |W|`, strings and residues inside their allocations) and a state the next call accepts,
    `eslEOD` with an empty record carrying `L ≥ 0`, `eslEOF`, `eslEFORMAT` with a message, or - reverse strand of a text-mode sequence
    holding a symbol that is not nucleic - `eslEINVAL` with a message. Never a fault, no exception; the handle invariant is kept. -/
theorem readWindow_total (h : MsaH) (sq : Sq) (C W : Int) (hi : Inv h) (hm : ModeOk h.o) (hsq : sq.digital = h.o.abc.isSome)
    (hC : 0 ≤ C) (hW0 : W ≠ 0) (hidx : 0 ≤ (adjIdx h sq W).idx)
    (hcomp : W < 0 → sq.digital = true → (sq.abc = 1 ∧ h.o.abc = some .dna) ∨ (sq.abc = 2 ∧ h.o.abc = some .rna))
    (hstate : ∀ t, (nextRow (adjIdx h sq W)).2.1 = some t →
        (0 < W → FwdState sq.n sq.start sq.end_ t.L) ∧ (W < 0 → RevState sq.n sq.start sq.end_ sq.L ∧ sq.L = t.L)) :
    Inv (readWindow h sq C W).1 ∧ (readWindow h sq C W).1.o = h.o ∧ (readWindow h sq C W).1.exc = h.exc ∧
    (((readWindow h sq C W).2.2 = .ok ∧ (readWindow h sq C W).2.1.digital = sq.digital ∧
        (∃ c w, WinWF c w (readWindow h sq C W).2.1 ∧ 0 ≤ c ∧ c ≤ C ∧ 1 ≤ w ∧ (0 < W → w ≤ W) ∧ (W < 0 → w ≤ -W)) ∧
        (∃ t, (nextRow (adjIdx h sq W)).2.1 = some t ∧
          (0 < W → FwdState (readWindow h sq C W).2.1.n (readWindow h sq C W).2.1.start (readWindow h sq C W).2.1.end_ t.L) ∧
          (W < 0 → RevState (readWindow h sq C W).2.1.n (readWindow h sq C W).2.1.start (readWindow h sq C W).2.1.end_ (readWindow h sq C W).2.1.L ∧
             (readWindow h sq C W).2.1.L = t.L))) ∨
     ((readWindow h sq C W).2.2 = .eod ∧ (readWindow h sq C W).2.1.seq = #[] ∧ (readWindow h sq C W).2.1.start = 0 ∧
        (readWindow h sq C W).2.1.end_ = 0 ∧ 0 ≤ (readWindow h sq C W).2.1.L) ∨
     (readWindow h sq C W).2.2 = .eof ∨
     ((readWindow h sq C W).2.2 = .eformat ∧ (readWindow h sq C W).1.haveErr = true) ∨
     (W < 0 ∧ sq.digital = false ∧ (readWindow h sq C W).2.2 = .einval ∧ (readWindow h sq C W).1.haveErr = true)) := by
  obtain ⟨j1, j2, j3, _⟩ := adjIdx_fields h sq W
  have hi1 : Inv (adjIdx h sq W) := by
    intro m hm'
    rw [j1] at hm'
    rw [j2]
    exact hi m hm'
  obtain ⟨n1, n2', n3', _, _, n6⟩ := nextRow_total (adjIdx h sq W) hi1 (by rw [j2]; exact hm) hidx
  have n2 := n2'.trans j2
  have n3 := n3'.trans j3
  rw [j2] at n6
  clear n2' n3'
  unfold readWindow readWindowWith
  generalize nextRow (adjIdx h sq W) = r at n1 n2 n3 n6 hstate
  obtain ⟨h', topt, st⟩ := r
  simp only at n1 n2 n3 n6 hstate
  rcases n6 with ⟨t, m, hts, hmsa, hwf, hdg, hnle⟩ | hts | ⟨hts, herr⟩
  · simp only [Prod.mk.injEq] at hts
    obtain ⟨ht, hst⟩ := hts
    subst ht hst
    obtain ⟨hsF, hsR⟩ := hstate t rfl
    have hd : (sq.digital != t.digital) = false := by rw [hsq, hdg]; simp
    have hLt : t.L = (t.n : Int) := hwf.l
    have hL0 : 0 ≤ t.L := by rw [hLt]; omega
    simp only [hd, Bool.false_eq_true, if_false]
    rcases Int.lt_or_gt_of_ne hW0 with hWn | hWp
    · -- reverse strand
      have hWnp : ¬ (W > 0) := by omega
      obtain ⟨hRS, hLL⟩ := hsR hWn
      have hLs : 0 ≤ sq.L := by rw [hLL]; exact hL0
      have hsyn : (!(decide (W > 0)) && sq.L == -1) = false := by
        have : (sq.L == -1) = false := by simp; omega
        rw [this]; simp
      simp only [hsyn, Bool.false_eq_true, if_false, if_neg hWnp]
      obtain ⟨c1, c2, _, _, c5, c6, c7, c8, c9, c10, c11, c12⟩ := revCoords_spec sq.n sq.start sq.end_ sq.L C W hLs hC (by omega) hRS
      generalize revCoords sq.n sq.start sq.end_ sq.L C W = rc at c1 c2 c5 c6 c7 c8 c9 c10 c11 c12
      by_cases hw0 : rc.2.2.2.2 = 0
      · simp only [hw0, beq_self_eq_true, if_true]
        refine ⟨n1, n2, n3, Or.inr (Or.inl ⟨(by first | trivial | rfl), (by first | trivial | rfl), (by first | trivial | rfl), (by first | trivial | rfl), hL0⟩)⟩
      · have hb : (rc.2.2.2.2 == 0) = false := by simpa using hw0
        simp only [hb, Bool.false_eq_true, if_false]
        obtain ⟨w1, w2, w3, w4, w5⟩ := windowCopy_total h' sq t W rc.1 rc.2.1 rc.2.2.1 rc.2.2.2.1 rc.2.2.2.2 c5 c1 (by omega) c9 c10
          (by rw [← hLt, ← hLL]; exact c11)
          (by
            intro _ hdt
            have hmode := (n1 m hmsa).2
            rcases hcomp hWn hdt with ⟨ha, ho⟩ | ⟨ha, ho⟩
            · rw [ha]
              refine ⟨compTable_size.2.2.1, fun x hx => ?_⟩
              have := hwf.sym x hx
              rw [hdg, ho] at this
              simp only [Option.isSome_some, if_true] at this
              rw [compTable_size.1, ← hmode.2 .dna (by rw [n2]; exact ho)]
              exact this.1
            · rw [ha]
              refine ⟨compTable_size.2.2.2, fun x hx => ?_⟩
              have := hwf.sym x hx
              rw [hdg, ho] at this
              simp only [Option.isSome_some, if_true] at this
              rw [compTable_size.2.1, ← hmode.2 .rna (by rw [n2]; exact ho)]
              exact this.1)
        have hinv : Inv (windowCopy h' sq t W rc.1 rc.2.1 rc.2.2.1 rc.2.2.2.1 rc.2.2.2.2).1 := by
          intro m' hm'
          rw [w1] at hm'
          rw [w3]
          exact n1 m' hm'
        refine ⟨hinv, by rw [w3]; exact n2, by rw [w4]; exact n3, ?_⟩
        rcases w5 with ⟨o1, o2, o3, o4, _, o6⟩ | o
        · obtain ⟨q1, q2⟩ := o6 hWn
          refine Or.inl ⟨o1, o3, ⟨rc.1, rc.2.2.2.2, o2, c1, c2, by omega, fun hp => absurd hp hWnp, fun _ => c7⟩,
            ⟨t, rfl, fun hp => absurd hp hWnp, fun _ => ⟨?_, by rw [o4]; exact hLL⟩⟩⟩
          have hrs := c12 hw0
          rw [q1, q2, o4]
          have hnq : ((windowCopy h' sq t W rc.1 rc.2.1 rc.2.2.1 rc.2.2.2.1 rc.2.2.2.2).2.1.n : Int) = rc.2.2.2.1 := by rw [o2.n, c5]
          rw [hnq]; exact hrs
        · exact Or.inr (Or.inr (Or.inr (Or.inr o)))
    · -- forward strand
      have hsyn : (!(decide (W > 0)) && sq.L == -1) = false := by simp [hWp]
      simp only [hsyn, Bool.false_eq_true, if_false, if_pos hWp]
      obtain ⟨c1, c2, _, c4, c5, c6, c7, c8, c9, c10, _, c12⟩ := fwdCoords_spec sq.n sq.start sq.end_ t.L C W hL0 hC (by omega) (hsF hWp)
      generalize fwdCoords sq.n sq.end_ t.L C W = rc at c1 c2 c4 c5 c6 c7 c8 c9 c10 c12
      by_cases hw0 : rc.2.2.2.2 = 0
      · simp only [hw0, beq_self_eq_true, if_true]
        refine ⟨n1, n2, n3, Or.inr (Or.inl ⟨(by first | trivial | rfl), (by first | trivial | rfl), (by first | trivial | rfl), (by first | trivial | rfl), hL0⟩)⟩
      · have hb : (rc.2.2.2.2 == 0) = false := by simpa using hw0
        simp only [hb, Bool.false_eq_true, if_false]
        have hWnn : ¬ W < 0 := by omega
        obtain ⟨w1, w2, w3, w4, w5⟩ := windowCopy_total h' sq t W rc.1 rc.2.1 rc.2.2.1 rc.2.2.2.1 rc.2.2.2.2 c4 c1 (by omega) c8 c9
          (by rw [← hLt]; exact c10) (fun hx => absurd hx hWnn)
        have hinv : Inv (windowCopy h' sq t W rc.1 rc.2.1 rc.2.2.1 rc.2.2.2.1 rc.2.2.2.2).1 := by
          intro m' hm'
          rw [w1] at hm'
          rw [w3]
          exact n1 m' hm'
        refine ⟨hinv, by rw [w3]; exact n2, by rw [w4]; exact n3, ?_⟩
        rcases w5 with ⟨o1, o2, o3, _, o5, _⟩ | o
        · obtain ⟨q1, q2, _⟩ := o5 hWnn
          refine Or.inl ⟨o1, o3, ⟨rc.1, rc.2.2.2.2, o2, c1, c2, by omega, fun _ => c6, fun hx => absurd hx hWnn⟩,
            ⟨t, rfl, fun _ => ?_, fun hx => absurd hx hWnn⟩⟩
          have hfs := c12 hw0
          rw [q1, q2]
          have hnq : ((windowCopy h' sq t W rc.1 rc.2.1 rc.2.2.1 rc.2.2.2.1 rc.2.2.2.2).2.1.n : Int) = rc.2.2.2.1 := by rw [o2.n, c4]
          rw [hnq]; exact hfs
        · exact absurd o.1 hWnn
  · simp only [Prod.mk.injEq] at hts
    obtain ⟨ht, hst⟩ := hts
    subst ht hst
    exact ⟨n1, n2, n3, Or.inr (Or.inr (Or.inl rfl))⟩
  · simp only [Prod.mk.injEq] at hts
    obtain ⟨ht, hst⟩ := hts
    subst ht hst
    exact ⟨n1, n2, n3, Or.inr (Or.inr (Or.inr (Or.inl ⟨rfl, herr⟩)))⟩

end EaselModel.Sqio.MsaSeq
