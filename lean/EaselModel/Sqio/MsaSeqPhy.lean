import EaselModel.Sqio.MsaSeqSto
import EaselModel.Msafile.PhylipLemmas
/-! # `ModeOk` for PHYLIP with ANY name width: the readers return `eslOK` only through `phyDone` (`digital := cfg.digital, kp := cfg.kp`). -/
namespace EaselModel.Msafile.C02Phy
open EaselModel.Msafile

/-- an `eslOK` outcome carries an alignment in the configuration's mode -/
def ModeP (cfg : Cfg) (r : PRes) : Prop := ∀ m b, r = .ok (m, b) → m.digital = cfg.digital ∧ m.kp = cfg.kp
def StepModeP {σ : Type} (cfg : Cfg) (x : Sum σ PRes) : Prop := ∀ m b, x = .inr (.ok (m, b)) → m.digital = cfg.digital ∧ m.kp = cfg.kp

theorem phyDone_mode (cfg : Cfg) (st : PhySt) (a : Nat) (back : Option Bytes) : ModeP cfg (phyDone cfg st a back) := by
  intro m b h
  unfold phyDone at h
  split at h
  · simp only [Res.ok.injEq, Prod.mk.injEq] at h
    obtain ⟨h1, _⟩ := h
    subst h1
    exact ⟨rfl, rfl⟩
  · simp at h

theorem notOk_mode {σ : Type} (cfg : Cfg) (x : Sum σ PRes) (h : StepNotOk x) : StepModeP cfg x := by
  intro m b e
  subst e
  exact absurd rfl (h (m, b))

theorem modeP_eformat (cfg : Cfg) (msg : String) : ModeP cfg (.eformat msg) := by intro m b h; simp at h
theorem modeP_fault (cfg : Cfg) : ModeP cfg .fault := by intro m b h; simp at h
theorem modeP_eof (cfg : Cfg) : ModeP cfg .eof := by intro m b h; simp at h

theorem stepModeP_inl {σ : Type} (cfg : Cfg) (s : σ) : StepModeP cfg (.inl s : Sum σ PRes) := by intro m b h; simp at h
theorem stepModeP_inr {σ : Type} (cfg : Cfg) (r : PRes) (h : ModeP cfg r) : StepModeP cfg (.inr r : Sum σ PRes) := by
  intro m b e; simp only [Sum.inr.injEq] at e; exact h m b e

theorem ilvEnd_mode (cfg : Cfg) (st : PhySt) (back : Option Bytes) : ModeP cfg (ilvEnd cfg st back) := by
  unfold ilvEnd; split
  · exact modeP_eformat _ _
  · exact phyDone_mode _ _ _ _

theorem ilvNext_mode (cfg : Cfg) (st : PhySt) (line : Bytes) : StepModeP cfg (ilvNext cfg st line) := by
  unfold ilvNext; split
  · exact notOk_mode cfg _ (ilvLine_notOk cfg _ line)
  · exact stepModeP_inr cfg _ (ilvEnd_mode cfg st _)

theorem ilvStep_mode (cfg : Cfg) (st : PhySt) (line : Bytes) : StepModeP cfg (ilvStep cfg st line) := by
  unfold ilvStep
  split
  · exact stepModeP_inr cfg _ (modeP_fault cfg)
  · exact stepModeP_inr cfg _ (modeP_fault cfg)
  · split
    · exact notOk_mode cfg _ (ilvLine_notOk cfg st line)
    · split
      · rename_i r he
        exact notOk_mode cfg _ (by rw [← he]; exact ilvEndBlock_notOk st)
      · split
        · exact stepModeP_inl cfg _
        · exact ilvNext_mode cfg _ line
  · split
    · exact stepModeP_inl cfg _
    · exact ilvNext_mode cfg st line

theorem ilvFinish_mode (cfg : Cfg) (st : PhySt) : ModeP cfg (ilvFinish cfg st) := by
  unfold ilvFinish
  split
  · exact modeP_fault cfg
  · exact modeP_fault cfg
  · split
    · rename_i r he
      intro m b e
      subst e
      have := ilvEndBlock_notOk st
      rw [he] at this
      exact absurd rfl (this (m, b))
    · exact ilvEnd_mode cfg _ none
  · exact ilvEnd_mode cfg st none

theorem seqNext_mode (cfg : Cfg) (st : PhySt) (line : Bytes) : StepModeP cfg (seqNext cfg st line) := by
  unfold seqNext
  split
  · exact stepModeP_inr cfg _ (modeP_eformat cfg _)
  · split
    · exact notOk_mode cfg _ (seqLine_notOk cfg _ line)
    · exact stepModeP_inr cfg _ (phyDone_mode cfg st _ _)

theorem seqStep_mode (cfg : Cfg) (st : PhySt) (line : Bytes) : StepModeP cfg (seqStep cfg st line) := by
  unfold seqStep
  split
  · exact stepModeP_inr cfg _ (modeP_fault cfg)
  · exact stepModeP_inr cfg _ (modeP_fault cfg)
  · split
    · exact notOk_mode cfg _ (seqLine_notOk cfg st line)
    · split
      · exact stepModeP_inl cfg _
      · exact seqNext_mode cfg st line
  · split
    · exact stepModeP_inl cfg _
    · exact seqNext_mode cfg st line

theorem seqFinish_mode (cfg : Cfg) (st : PhySt) : ModeP cfg (seqFinish cfg st) := by
  unfold seqFinish
  split
  · exact modeP_fault cfg
  · exact modeP_fault cfg
  · split
    · exact modeP_eformat cfg _
    · split
      · exact modeP_eformat cfg _
      · exact phyDone_mode cfg st _ _
  · split
    · exact modeP_eformat cfg _
    · split
      · exact modeP_eformat cfg _
      · exact phyDone_mode cfg st _ _

theorem phylipStep_mode (sequential : Bool) (cfg : Cfg) (st : PhySt) (line : Bytes) : StepModeP cfg (phylipStep sequential cfg st line) := by
  unfold phylipStep
  split
  · split
    · exact stepModeP_inl cfg _
    · exact notOk_mode cfg _ (phyHeader_notOk st line)
  · split
    · exact stepModeP_inl cfg _
    · unfold phyFirst
      split
      · exact notOk_mode cfg _ (seqLine_notOk cfg _ line)
      · exact notOk_mode cfg _ (ilvLine_notOk cfg _ line)
  · split
    · exact seqStep_mode cfg st line
    · exact ilvStep_mode cfg st line

theorem phylipFinish_mode (sequential : Bool) (cfg : Cfg) (st : PhySt) : ModeP cfg (phylipFinish sequential cfg st) := by
  unfold phylipFinish
  split
  · exact modeP_eof cfg
  · exact modeP_eformat cfg _
  · split
    · exact seqFinish_mode cfg st
    · exact ilvFinish_mode cfg st

theorem runLinesP_mode (sequential : Bool) (cfg : Cfg) : ∀ (ls : List Bytes) (st : PhySt),
    ModeP cfg (runLines (phylipStep sequential cfg) (phylipFinish sequential cfg) st ls).1 := by
  intro ls
  induction ls with
  | nil => intro st; simpa [runLines] using phylipFinish_mode sequential cfg st
  | cons l ls ih =>
    intro st
    unfold runLines
    cases hs : phylipStep sequential cfg st l with
    | inl st' => exact ih st'
    | inr r =>
      intro m b e
      simp only at e
      exact phylipStep_mode sequential cfg st l m b (by rw [hs, e])

theorem phylipReadW_mode (nw : Nat) (sequential : Bool) (cfg : Cfg) (lines : List Bytes) (m : Msa)
    (h : (phylipReadW nw sequential cfg lines).1 = .ok m) : m.digital = cfg.digital ∧ m.kp = cfg.kp := by
  have hr := runLinesP_mode sequential cfg lines { nw := if nw == 0 then 10 else nw }
  unfold phylipReadW at h
  generalize runLines (phylipStep sequential cfg) (phylipFinish sequential cfg) { nw := if nw == 0 then 10 else nw } lines = x at h hr
  obtain ⟨r, rest⟩ := x
  unfold phyUnput at h
  cases r with
  | ok mb =>
    obtain ⟨m', b⟩ := mb
    cases b <;> (simp only [Res.ok.injEq] at h; subst h; exact hr m' _ rfl)
  | eof => simp at h
  | eformat msg => simp at h
  | fault => simp at h
  | exc => simp at h

end EaselModel.Msafile.C02Phy

namespace EaselModel.Sqio.MsaSeq
open EaselModel.Msafile

/-- PHYLIP, interleaved and sequential, every alphabet selection and EVERY name width -/
theorem modeOk_phylip_any (abc : Option AbcType) (nw : Nat) : ModeOk ⟨.phylip, abc, nw⟩ := by
  intro lines m h
  obtain ⟨hd, hk⟩ := C02Phy.phylipReadW_mode nw false (cfgOf .phylip (abc.map abcOfType)) lines m h
  exact modeOf_of_cfg .phylip abc nw m hd hk (cfg_digital _ _) (cfg_kp _ _)

theorem modeOk_phylips_any (abc : Option AbcType) (nw : Nat) : ModeOk ⟨.phylips, abc, nw⟩ := by
  intro lines m h
  obtain ⟨hd, hk⟩ := C02Phy.phylipReadW_mode nw true (cfgOf .phylips (abc.map abcOfType)) lines m h
  exact modeOf_of_cfg .phylips abc nw m hd hk (cfg_digital _ _) (cfg_kp _ _)

/-- **every reader delivers alignments in the handle's mode: all ten formats, every alphabet, every name width - no hypothesis left** -/
theorem modeOk_every (o : Opened) : ModeOk o := by
  obtain ⟨fmt, abc, nw⟩ := o
  cases fmt
  · exact modeOk_stockholm abc nw
  · exact modeOk_pfam abc nw
  · exact modeOk_a2m abc nw
  · exact modeOk_psiblast abc nw
  · exact modeOk_selex abc nw
  · exact modeOk_afa abc nw
  · exact modeOk_clustal abc nw
  · exact modeOk_clustallike abc nw
  · exact modeOk_phylip_any abc nw
  · exact modeOk_phylips_any abc nw

end EaselModel.Sqio.MsaSeq
