import EaselModel.Sqio.TrackerExact
/-! # `seebuf` may stop anywhere inside a line: the tracker does not notice (C04 / C07)

`seebuf` is called buffer by buffer and window by window, so a data line usually reaches the tracker in pieces: any number of
`Track.onStop b r` (the tail of a `seebuf` call that ends inside the line) before the `Track.onEol b r` (or last `onStop`) that
completes it. `stop_then_line`: a piece followed by the rest of the line leaves the tracker in exactly the state the whole line
in one piece leaves it in; `chunked_line`: any number of pieces. So `TrackerExact.tracker_iff`, stated for lines seen in one piece,
holds for every way the read-block size and the window widths cut the lines. -/
namespace EaselModel.Sqio.TrackerChunks
open EaselModel.Sqio EaselModel.Sqio.TrackerExact

theorem track_ext (t1 t2 : Track) (h : core t1 = core t2) (h1 : t1.prvrpl = t2.prvrpl) (h2 : t1.prvbpl = t2.prvbpl)
    (h3 : t1.currpl = t2.currpl) (h4 : t1.curbpl = t2.curbpl) : t1 = t2 := by
  cases t1; cases t2
  simp only [core, S4.mk.injEq] at h
  simp_all

/-- `prevR` / `prevB` are idempotent on a previous line with non-negative counts -/
theorem fl_idem (p w : Int) (hp : 0 ≤ p) : fl p (fl p w) = fl p w := by
  unfold fl; repeat' split
  all_goals omega

theorem fl_zero (p : Int) : fl p 0 = 0 := by
  unfold fl; repeat' split
  all_goals omega

/-- **Absorption**: a step on a partial view `l1` of a line, then the step on the complete line `l2` (at least as many residues and
    ignored bytes), is the step on `l2` alone. -/
theorem g_absorb (s : S4) (prev : Option Line) (l1 l2 : Line) (hs : StepOk (prev, l2)) (h1 : l1.r ≤ l2.r) (h2 : l1.x ≤ l2.x) :
    g (g s (prev, l1)) (prev, l2) = g s (prev, l2) := by
  have hR : ∀ w, prevR prev (prevR prev w) = prevR prev w := by
    intro w; cases hq : prev with
    | none => rfl
    | some q => exact fl_idem q.r w (hs q hq).1
  have hB : ∀ w, prevB prev (prevB prev w) = prevB prev w := by
    intro w; cases hq : prev with
    | none => rfl
    | some q => exact fl_idem q.b w (hs q hq).2
  have hR0 : prevR prev 0 = 0 := by cases prev <;> simp [prevR, fl_zero]
  have hB0 : prevB prev 0 = 0 := by cases prev <;> simp [prevB, fl_zero]
  -- maxima: the partial view adds nothing
  have m1 : ∀ m : Int, (if l2.r > (if l1.r > m then l1.r else m) then l2.r else (if l1.r > m then l1.r else m)) = (if l2.r > m then l2.r else m) := by
    intro m; repeat' split
    all_goals omega
  have m2 : ∀ m : Int, (if l2.x > (if l1.x > m then l1.x else m) then l2.x else (if l1.x > m then l1.x else m)) = (if l2.x > m then l2.x else m) := by
    intro m; repeat' split
    all_goals omega
  by_cases hd1 : Dead s (prev, l1)
  · -- invalidated by the partial view: the complete line invalidates too
    have hd2 : Dead s (prev, l2) := by
      obtain ⟨a, b, c⟩ := hd1
      refine ⟨a, b, ?_⟩
      simp only [mr', mx'] at c ⊢
      rcases c with c | c
      · left; revert c; repeat' split
        all_goals omega
      · right; revert c; repeat' split
        all_goals omega
    rw [g_dead s _ hd1, g_dead s _ hd2]
    have hnd : ¬ Dead ⟨0, 0, mr' s (prev, l1), mx' s (prev, l1)⟩ (prev, l2) := by
      intro h; have := h.1; simp only [hR0] at this; omega
    rw [g_live _ _ hnd]
    simp only [hR0, hB0, mr', mx', m1, m2]
  · rw [g_live s _ hd1]
    by_cases hd2 : Dead s (prev, l2)
    · have hd2' : Dead ⟨prevR prev s.rpl, prevB prev s.bpl, mr' s (prev, l1), mx' s (prev, l1)⟩ (prev, l2) := by
        obtain ⟨a, b, c⟩ := hd2
        simp only [Dead, hR, hB, mr', mx', m1, m2]
        exact ⟨a, b, by simpa only [mr', mx'] using c⟩
      rw [g_dead _ _ hd2', g_dead s _ hd2]
      simp only [mr', mx', m1, m2]
    · have hd2' : ¬ Dead ⟨prevR prev s.rpl, prevB prev s.bpl, mr' s (prev, l1), mx' s (prev, l1)⟩ (prev, l2) := by
        intro h
        apply hd2
        simp only [Dead, hR, hB, mr', mx', m1, m2] at h
        exact ⟨h.1, h.2.1, by simpa only [mr', mx'] using h.2.2⟩
      rw [g_live _ _ hd2', g_live s _ hd2]
      simp only [hR, hB, mr', mx', m1, m2]

/-- `core_line` from any point inside a line (`cur*` ≥ 0): the step is taken on the line's totals so far -/
theorem core_line_from (t : Track) (l : Line) (prev : Option Line) (hcb : 0 ≤ t.curbpl) (hcr : 0 ≤ t.currpl) (hp : PrvIs t prev)
    (hl : (⟨t.curbpl + l.b, t.currpl + l.r, l.eol⟩ : Line).Ok) :
    core (line t l) = g (core t) (prev, ⟨t.curbpl + l.b, t.currpl + l.r, l.eol⟩) ∧
    (l.eol = true → (line t l).curbpl = 0 ∧ (line t l).currpl = 0 ∧ (line t l).prvrpl = t.currpl + l.r ∧ (line t l).prvbpl = t.curbpl + l.b) ∧
    (l.eol = false → (line t l).curbpl = t.curbpl + l.b ∧ (line t l).currpl = t.currpl + l.r ∧
      (line t l).prvrpl = t.prvrpl ∧ (line t l).prvbpl = t.prvbpl) := by
  have hb1 : t.curbpl ≠ -1 := by omega
  have hr1 : t.currpl ≠ -1 := by omega
  have a1 : (t.advance l.b l.r).curbpl = t.curbpl + l.b := by simp [Track.advance, hb1]
  have a2 : (t.advance l.b l.r).currpl = t.currpl + l.r := by simp [Track.advance, hr1]
  have a3 : core (t.advance l.b l.r) = core t := rfl
  have a4 : PrvIs (t.advance l.b l.r) prev := by cases prev <;> exact hp
  have c1 := lg_core (t.advance l.b l.r) ⟨t.curbpl + l.b, t.currpl + l.r, l.eol⟩ prev a1 a2 a4 hl
  rw [a3] at c1
  obtain ⟨c2, c3, c4, c5⟩ := lg_keep (t.advance l.b l.r) l.eol
  rw [a1] at c2
  rw [a2] at c3
  have c4' : ((t.advance l.b l.r).lineGeometry l.eol).prvrpl = t.prvrpl := c4
  have c5' : ((t.advance l.b l.r).lineGeometry l.eol).prvbpl = t.prvbpl := c5
  cases he : l.eol
  · rw [he] at c1 c2 c3 c4' c5'
    refine ⟨by simpa [line, he, Track.onStop] using c1, by simp, fun _ => ?_⟩
    simp only [line, he, Track.onStop, Bool.false_eq_true, ↓reduceIte]
    exact ⟨c2, c3, c4', c5'⟩
  · rw [he] at c1 c2 c3
    refine ⟨?_, fun _ => ?_, by simp⟩
    · have : core (line t l) = core ((t.advance l.b l.r).lineGeometry true) := by simp [line, he, Track.onEol, core]
      rw [this]; exact c1
    · simp [line, he, Track.onEol, c2, c3]

/-- **A piece, then the rest of the line = the whole line in one piece.** `t` is anywhere inside a line (`cur*` ≥ 0), the piece has
    `b1` bytes (at least one so far on the line) and `r1` residues, the rest `l` completes the line (`l.eol`) or is a further piece. -/
theorem stop_then_line (t : Track) (prev : Option Line) (b1 r1 : Int) (l : Line) (hcb : 0 ≤ t.curbpl) (hcr : 0 ≤ t.currpl)
    (hp : PrvIs t prev) (hpn : ∀ q, prev = some q → 0 ≤ q.r ∧ 0 ≤ q.b)
    (h1 : (⟨t.curbpl + b1, t.currpl + r1, false⟩ : Line).Ok) (hb : 0 ≤ l.b) (hr : 0 ≤ l.r) (hx : 0 ≤ l.x) :
    line (line t ⟨b1, r1, false⟩) l = line t ⟨b1 + l.b, r1 + l.r, l.eol⟩ := by
  obtain ⟨k1, k2, k3⟩ := h1
  have hx' : l.x = l.b - l.r - (if l.eol then 1 else 0) := rfl
  have k3' : (⟨t.curbpl + b1, t.currpl + r1, false⟩ : Line).x = t.curbpl + b1 - (t.currpl + r1) := by simp [Line.x]
  rw [k3'] at k3
  simp only at k1 k2
  -- first piece
  obtain ⟨f1, _, f3⟩ := core_line_from t ⟨b1, r1, false⟩ prev hcb hcr hp ⟨k1, k2, by rw [k3']; exact k3⟩
  obtain ⟨f3a, f3b, f3c, f3d⟩ := f3 rfl
  simp only at f1 f3a f3b
  have hp2 : PrvIs (line t ⟨b1, r1, false⟩) prev := by
    cases prev with
    | none => exact ⟨by rw [f3c]; exact hp.1, by rw [f3d]; exact hp.2⟩
    | some q => exact ⟨by rw [f3c]; exact hp.1, by rw [f3d]; exact hp.2.1, hp.2.2.1, hp.2.2.2⟩
  -- totals
  have hok12 : (⟨t.curbpl + (b1 + l.b), t.currpl + (r1 + l.r), l.eol⟩ : Line).Ok := by
    refine ⟨by simp only; omega, by simp only; omega, ?_⟩
    simp only [Line.x]; omega
  have hok12' : (⟨(line t ⟨b1, r1, false⟩).curbpl + l.b, (line t ⟨b1, r1, false⟩).currpl + l.r, l.eol⟩ : Line).Ok := by
    rw [f3a, f3b]
    have e1 : t.curbpl + b1 + l.b = t.curbpl + (b1 + l.b) := by omega
    have e2 : t.currpl + r1 + l.r = t.currpl + (r1 + l.r) := by omega
    rw [e1, e2]; exact hok12
  obtain ⟨s1, s2, s3⟩ := core_line_from (line t ⟨b1, r1, false⟩) l prev (by rw [f3a]; omega) (by rw [f3b]; omega) hp2 hok12'
  obtain ⟨w1, w2, w3⟩ := core_line_from t ⟨b1 + l.b, r1 + l.r, l.eol⟩ prev hcb hcr hp hok12
  simp only at w1 w2 w3
  have e1 : (line t ⟨b1, r1, false⟩).curbpl + l.b = t.curbpl + (b1 + l.b) := by rw [f3a]; omega
  have e2 : (line t ⟨b1, r1, false⟩).currpl + l.r = t.currpl + (r1 + l.r) := by rw [f3b]; omega
  rw [e1, e2] at s1 s2 s3
  have hcore : core (line (line t ⟨b1, r1, false⟩) l) = core (line t ⟨b1 + l.b, r1 + l.r, l.eol⟩) := by
    rw [s1, f1, w1]
    apply g_absorb
    · intro q hq; exact hpn q hq
    · simp only; omega
    · simp only [Line.x]; rw [hx'] at hx; simp only [Bool.false_eq_true, ↓reduceIte]; omega
  rcases Bool.eq_false_or_eq_true l.eol with he | he
  · obtain ⟨x1, x2, x3, x4⟩ := s2 he
    obtain ⟨y1, y2, y3, y4⟩ := w2 he
    exact track_ext _ _ hcore (by rw [x3, y3]) (by rw [x4, y4]) (by rw [x2, y2]) (by rw [x1, y1])
  · obtain ⟨x1, x2, x3, x4⟩ := s3 he
    obtain ⟨y1, y2, y3, y4⟩ := w3 he
    exact track_ext _ _ hcore (by rw [x3, y3, f3c]) (by rw [x4, y4, f3d]) (by rw [x2, y2]) (by rw [x1, y1])

/-- the tracker is inside a line of a record whose previous line is `prev`: counters known, no more residues than bytes -/
structure InLine (t : Track) (prev : Option Line) : Prop where
  cb : 0 ≤ t.curbpl
  cr : 0 ≤ t.currpl
  le : t.currpl ≤ t.curbpl
  prv : PrvIs t prev

def piece (t : Track) (c : Int × Int) : Track := line t ⟨c.1, c.2, false⟩

theorem piece_inLine (t : Track) (prev : Option Line) (c : Int × Int) (h : InLine t prev) (hc : 1 ≤ c.1 ∧ 0 ≤ c.2 ∧ c.2 ≤ c.1) :
    InLine (piece t c) prev ∧ (piece t c).curbpl = t.curbpl + c.1 ∧ (piece t c).currpl = t.currpl + c.2 := by
  obtain ⟨c1, c2, c3⟩ := hc
  have hok : (⟨t.curbpl + c.1, t.currpl + c.2, false⟩ : Line).Ok := by
    refine ⟨by simp only; have := h.cb; omega, by simp only; have := h.cr; omega, ?_⟩
    simp only [Line.x, Bool.false_eq_true, ↓reduceIte]; have := h.le; omega
  obtain ⟨_, _, f3⟩ := core_line_from t ⟨c.1, c.2, false⟩ prev h.cb h.cr h.prv hok
  obtain ⟨a, b, c', d⟩ := f3 rfl
  simp only at a b
  refine ⟨⟨by unfold piece; rw [a]; have := h.cb; omega, by unfold piece; rw [b]; have := h.cr; omega,
    by unfold piece; rw [a, b]; have := h.le; omega, ?_⟩, a, b⟩
  cases prev with
  | none => exact ⟨by unfold piece; rw [c']; exact h.prv.1, by unfold piece; rw [d]; exact h.prv.2⟩
  | some q => exact ⟨by unfold piece; rw [c']; exact h.prv.1, by unfold piece; rw [d]; exact h.prv.2.1, h.prv.2.2.1, h.prv.2.2.2⟩

/-- **Any number of pieces, then the rest of the line = the whole line in one piece**, for every way of cutting a line. -/
theorem chunked_line (cs : List (Int × Int)) (t : Track) (prev : Option Line) (l : Line) (h : InLine t prev)
    (hpn : ∀ q, prev = some q → 0 ≤ q.r ∧ 0 ≤ q.b) (hcs : ∀ c ∈ cs, 1 ≤ c.1 ∧ 0 ≤ c.2 ∧ c.2 ≤ c.1)
    (hb : 0 ≤ l.b) (hr : 0 ≤ l.r) (hx : 0 ≤ l.x) :
    line (cs.foldl piece t) l = line t ⟨(cs.map Prod.fst).sum + l.b, (cs.map Prod.snd).sum + l.r, l.eol⟩ := by
  induction cs generalizing t with
  | nil => simp
  | cons c rest ih =>
    have hc := hcs c (by simp)
    obtain ⟨i1, i2, i3⟩ := piece_inLine t prev c h hc
    rw [List.foldl_cons, ih (piece t c) i1 (fun x hx => hcs x (by simp [hx]))]
    have hsb : 0 ≤ (rest.map Prod.fst).sum := by
      clear ih i1 i2 i3
      induction rest with
      | nil => simp
      | cons x xs ihx =>
        have := (hcs x (by simp)).1
        have := ihx (fun y hy => hcs y (by
          rcases List.mem_cons.mp hy with rfl | hy
          · simp
          · simp [hy]))
        simp only [List.map_cons, List.sum_cons]; omega
    have hsr : 0 ≤ (rest.map Prod.snd).sum ∧ (rest.map Prod.snd).sum ≤ (rest.map Prod.fst).sum := by
      clear ih i1 i2 i3 hsb
      induction rest with
      | nil => simp
      | cons x xs ihx =>
        have hx1 := hcs x (by simp)
        have := ihx (fun y hy => hcs y (by
          rcases List.mem_cons.mp hy with rfl | hy
          · simp
          · simp [hy]))
        simp only [List.map_cons, List.sum_cons]; omega
    have hx' : l.x = l.b - l.r - (if l.eol then 1 else 0) := rfl
    obtain ⟨c1, c2, c3⟩ := hc
    have hok1 : (⟨t.curbpl + c.1, t.currpl + c.2, false⟩ : Line).Ok := by
      refine ⟨by simp only; have := h.cb; omega, by simp only; have := h.cr; omega, ?_⟩
      simp only [Line.x, Bool.false_eq_true, ↓reduceIte]; have := h.le; omega
    have := stop_then_line t prev c.1 c.2 ⟨(rest.map Prod.fst).sum + l.b, (rest.map Prod.snd).sum + l.r, l.eol⟩ h.cb h.cr h.prv hpn hok1
      (by simp only; omega) (by simp only; omega) (by simp only [Line.x]; rw [hx'] at hx; omega)
    simp only at this
    unfold piece
    rw [this]
    simp only [List.map_cons, List.sum_cons]
    congr 2 <;> omega

end EaselModel.Sqio.TrackerChunks
