import EaselModel.Sqio.AfetchLemmas
/-! # `esl-afetch`: indexed fetch = sequential scan (composition of the scan, the C06 index theorems and the fetch path) -/
namespace EaselModel.Afetch
open EaselModel.Msafile (Bytes splitLinesT)
open EaselModel.Ssi hiding Bytes cstr

/-- hypotheses on the database: well-formed records, skipped lines after the last one, keys that can be stored, sizes in range -/
structure DbOk (fname : Bytes) (rs : List SRec) (trail : List TLine) : Prop where
  wf : ∀ r ∈ rs, r.WF
  trailOk : ∀ l ∈ trail, leadLine l.1 = true ∧ LineWF l
  fname : (0 : UInt8) ∉ fname ∧ fname.length < 65535
  keys : ∀ r ∈ rs, KeyOk r.name ∧ ∀ a, r.acc = some a → KeyOk a
  size : linesSize (dbLines rs trail) < 2^64
  count : rs.length < 2^38

theorem entries_mem (rs : List SRec) (p : Nat) : ∀ e ∈ entries p rs, ∃ r ∈ rs, e.1.name = r.name ∧ e.1.acc = r.acc := by
  induction rs generalizing p with
  | nil => intro e he; simp [entries] at he
  | cons r rs ih =>
    intro e he
    simp only [entries, List.mem_cons] at he
    rcases he with rfl | he
    · exact ⟨r, by simp, rfl, rfl⟩
    · obtain ⟨r', hr', h⟩ := ih _ e he
      exact ⟨r', by simp [hr'], h⟩

theorem entries_names (rs : List SRec) (p : Nat) : (entries p rs).map (·.1.name) = rs.map SRec.name := by
  induction rs generalizing p with
  | nil => rfl
  | cons r rs ih => simp [entries, ih]

theorem entries_accs (rs : List SRec) (p : Nat) : ((entries p rs).filterMap (fun e => toSKey e.1)).map (·.key) = rs.filterMap SRec.acc := by
  induction rs generalizing p with
  | nil => rfl
  | cons r rs ih =>
    have e : toSKey (⟨p, r.name, r.acc⟩ : Rec) = r.acc.map (fun a => ⟨a, r.name⟩) := rfl
    simp only [entries, List.filterMap_cons, e]
    cases hacc : r.acc with
    | none => simpa using ih _
    | some a => simpa using ih _

theorem entries_length (rs : List SRec) (p : Nat) : (entries p rs).length = rs.length := by
  induction rs generalizing p with
  | nil => rfl
  | cons r rs ih => simp [entries, ih]

/-- the records the scan hands to the index, for a database satisfying `DbOk`: the history is valid -/
theorem ops_ok (fname : Bytes) (rs : List SRec) (trail : List TLine) (h : DbOk fname rs trail) :
    let ops := indexOps fname fmtStockholm ((entries 0 rs).map (·.1))
    (∀ op ∈ ops, op.Valid) ∧ (logical ops).files ≠ [] ∧ ops.length < 2^40 ∧
    (logical ops).pkeys = ((entries 0 rs).map (·.1)).map toPKey ∧ (logical ops).skeys = ((entries 0 rs).map (·.1)).filterMap toSKey := by
  have hlen : ((entries 0 rs).map (·.1)).length = rs.length := by simp [entries_length]
  have hc := h.count
  obtain ⟨l1, l2, l3⟩ := logical_indexOps fname fmtStockholm ((entries 0 rs).map (·.1)) (by rw [hlen]; omega)
  refine ⟨?_, l3, ?_, l1, l2⟩
  · apply indexOps_valid fname fmtStockholm _ ⟨h.fname.1, h.fname.2, by decide⟩
    intro r hr
    simp only [List.mem_map] at hr
    obtain ⟨e, he, rfl⟩ := hr
    obtain ⟨r', hr', hn, ha⟩ := entries_mem rs 0 e he
    have hk := h.keys r' hr'
    refine ⟨by rw [hn]; exact hk.1, by intro a hacc; rw [ha] at hacc; exact hk.2 a hacc, ?_⟩
    have := (entries_off_ge rs 0 e he).2
    have hs := h.size
    simp only [dbLines, linesSize_append] at hs
    omega
  · have := indexOps_length fname fmtStockholm ((entries 0 rs).map (·.1))
    rw [hlen] at this
    omega

/-- `create_ssi_index` succeeds iff all names and accessions together are pairwise distinct (since e2f2f44 `esl_newssi_Write` also
    reports an accession that equals a name) -/
theorem createIndex_isSome_iff (fname : Bytes) (rs : List SRec) (trail : List TLine) (h : DbOk fname rs trail) :
    (createIndex fname (dbBytes rs trail)).isSome = true ↔ (rs.map SRec.name ++ rs.filterMap SRec.acc).Nodup := by
  classical
  obtain ⟨hv, hf, hn, hp, hs⟩ := ops_ok fname rs trail h
  simp only at hv hf hn hp hs
  obtain ⟨hwf, heq⟩ := run_write_eq_logical _ hv hf hn (some [])
  have hspec := EaselModel.Props.C06.write_spec _ hwf (some [])
  unfold createIndex
  rw [scanDb_records rs trail h.wf h.trailOk]
  simp only [heq]
  have hD : (logical (indexOps fname fmtStockholm ((entries 0 rs).map (·.1)))).Distinct ↔
      (rs.map SRec.name ++ rs.filterMap SRec.acc).Nodup := by
    rw [NewSsi.distinct_iff_nodup, hp, hs]
    have e1 : (((entries 0 rs).map (·.1)).map toPKey).map (·.key) = rs.map SRec.name := by
      rw [← entries_names rs 0]; simp [toPKey]
    have e2 : (((entries 0 rs).map (·.1)).filterMap toSKey).map (·.key) = rs.filterMap SRec.acc := by
      rw [← entries_accs rs 0, List.filterMap_map]; rfl
    rw [e1, e2]
  rw [← hD]
  by_cases hd : (logical (indexOps fname fmtStockholm ((entries 0 rs).map (·.1)))).Distinct
  · simp only [hd, if_true] at hspec
    have h1 := (Prod.mk.inj hspec).1
    have h2 := (Prod.mk.inj hspec).2
    have : ((logical (indexOps fname fmtStockholm ((entries 0 rs).map (·.1)))).write (some [])).2 = (none, some (logical (indexOps fname fmtStockholm ((entries 0 rs).map (·.1)))).image) :=
      Prod.ext h1 h2
    rw [this]
    simp [hd]
  · simp only [hd, if_false] at hspec
    have h1 := (Prod.mk.inj hspec).1
    have h2 := (Prod.mk.inj hspec).2
    have : ((logical (indexOps fname fmtStockholm ((entries 0 rs).map (·.1)))).write (some [])).2 = (some .edup, none) :=
      Prod.ext h1 h2
    rw [this]
    simp [hd]

/-- THEOREM (5): for every database of well-formed records and the index the tool built for it, the indexed fetch of `key` returns
    exactly the text of the alignment a sequential scan finds under that name or accession, and `not found` when there is none -/
theorem onefetch_eq_seqFetch (fname : Bytes) (rs : List SRec) (trail : List TLine) (h : DbOk fname rs trail) (ssi : Bytes)
    (hc : createIndex fname (dbBytes rs trail) = some ssi) (key : Bytes) :
    onefetch (dbBytes rs trail) ssi key = match seqFetch rs key with | some t => .ok t | none => .notfound := by
  obtain ⟨hv, hf, hn, hp, hs⟩ := ops_ok fname rs trail h
  simp only at hv hf hn hp hs
  obtain ⟨hwf, heq⟩ := run_write_eq_logical _ hv hf hn (some [])
  unfold createIndex at hc
  rw [scanDb_records rs trail h.wf h.trailOk] at hc
  simp only [heq] at hc
  have hw : ((logical (indexOps fname fmtStockholm ((entries 0 rs).map (·.1)))).write (some [])).2.2 = some ssi := by
    revert hc
    generalize ((logical (indexOps fname fmtStockholm ((entries 0 rs).map (·.1)))).write (some [])).2 = w
    obtain ⟨w1, w2⟩ := w
    cases w1 <;> cases w2 <;> simp
  have hreg : ∀ e ∈ entries 0 rs, regurg (splitLinesT ((dbBytes rs trail).drop e.1.off) []) [] = some e.2 := by
    have := regurg_at_entry rs h.wf trail (fun l hl => (h.trailOk l hl).2) []
    simpa [dbBytes, dbLines] using this
  unfold seqFetch
  cases hfind : (entries 0 rs).find? (fun e => e.1.name == key || e.1.acc == some key) with
  | some e =>
    have hmem := List.mem_of_find?_eq_some hfind
    have hpred := List.find?_some hfind
    simp only [Bool.or_eq_true, beq_iff_eq] at hpred
    have hkmem : toPKey e.1 ∈ (logical (indexOps fname fmtStockholm ((entries 0 rs).map (·.1)))).pkeys := by
      rw [hp]; exact List.mem_map_of_mem (List.mem_map_of_mem hmem)
    have hpos : positionByKey ssi key = .ok e.1.off := by
      unfold positionByKey
      by_cases hname : e.1.name = key
      · have := EaselModel.Props.C06.findName_stored _ hwf (some []) ssi hw (toPKey e.1) hkmem
        simp only [toPKey] at this
        rw [hname] at this
        rw [this]; rfl
      · have hacc : e.1.acc = some key := by rcases hpred with h1 | h1; exact absurd h1 hname; exact h1
        have hamem : (⟨key, e.1.name⟩ : SKey) ∈ (logical (indexOps fname fmtStockholm ((entries 0 rs).map (·.1)))).skeys := by
          rw [hs, List.mem_filterMap]
          exact ⟨e.1, List.mem_map_of_mem hmem, by simp [toSKey, hacc]⟩
        have := EaselModel.Props.C06.findName_alias _ hwf (some []) ssi hw ⟨key, e.1.name⟩ hamem (toPKey e.1) hkmem rfl
        simp only [toPKey] at this
        rw [this]; rfl
    simp only [Option.map_some, onefetch, hpos, hreg e hmem]
  | none =>
    have hall := List.find?_eq_none.mp hfind
    have hpos : positionByKey ssi key = .error .enotfound := by
      unfold positionByKey
      have := EaselModel.Props.C06.findName_absent _ hwf (some []) ssi hw key ?_ ?_
      · rw [this]; rfl
      · intro k hk
        rw [hp] at hk
        simp only [List.mem_map] at hk
        obtain ⟨r', ⟨e', he', rfl⟩, rfl⟩ := hk
        have := hall e' he'
        simp only [Bool.or_eq_true, beq_iff_eq, not_or] at this
        exact this.1
      · intro a ha
        rw [hs, List.mem_filterMap] at ha
        obtain ⟨r', hr', hsk⟩ := ha
        simp only [List.mem_map] at hr'
        obtain ⟨e', he', rfl⟩ := hr'
        have := hall e' he'
        simp only [Bool.or_eq_true, beq_iff_eq, not_or] at this
        simp only [toSKey, Option.map_eq_some_iff] at hsk
        obtain ⟨a', ha', rfl⟩ := hsk
        intro hk
        simp only at hk
        exact this.2 (by rw [ha', hk])
    simp only [Option.map_none, onefetch, hpos]

end EaselModel.Afetch
