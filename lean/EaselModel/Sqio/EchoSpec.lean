import EaselModel.Sqio.Fetch
import EaselModel.Sqio.Refine
import EaselModel.Sqio.Totality
/-! # `sqascii_Echo` regurgitates exactly the bytes `roff..eoff` of the file, for every block size `B ≥ 1` (C04 / C07)

`echo a sq` positions the handle at `sq.roff`, copies whole buffers while `boff + nc ≤ eoff`, then the first
`eoff - boff + 1` bytes of the last buffer, and re-positions at `roff`. The theorem `echo_eq_scan_bytes` says that
in block mode the output is `file[roff, eoff]` (inclusive), the status is `eslOK`, and the handle is left as a
well-formed cursor at `roff` with `linenumber` and `L` restored — whatever the block size. Core Lean only. -/
namespace EaselModel.Sqio.EchoSpec
open EaselModel.Sqio EaselModel.Sqio.Refine

/-! ## `loadbuf` / `position` leave the line bookkeeping alone -/

theorem loadbuf_keep (a : Ascii) (h : Pre a) :
    (loadbuf a).1.linenumber = a.linenumber ∧ (loadbuf a).1.L = a.L ∧ (loadbuf a).1.trk = a.trk := by
  rw [loadbuf_block a h.block h.norec h.full]
  exact ⟨rfl, rfl, rfl⟩

/-- `sqascii_Position(offset)` with `offset` inside the file: one `fread` at `offset`, never EOF -/
theorem position_spec (a : Ascii) (off : Nat) (hb : a.linebased = false) (hr : a.recording ≠ 1) (hB : 1 ≤ a.B)
    (hoff : off < a.file.size) :
    WF (position a off).1 ∧ (position a off).1.bpos = 0 ∧ (position a off).1.file = a.file ∧
    (position a off).1.B = a.B ∧ (position a off).1.boff = (off : Int) ∧ (position a off).2 = .ok ∧
    0 < (position a off).1.nc := by
  have hpre : Pre { a with fpos := off, trk := a.trk.reset, linenumber := if off == 0 then 1 else -1, L := -1,
                           mpos := a.mn } :=
    ⟨hb, hr, hB, Nat.le_refl _, Nat.le_of_lt hoff⟩
  obtain ⟨hwf, hbp, hfile, hB', hp, hcase⟩ := loadbuf_wf _ hpre
  show WF (loadbuf _).1 ∧ (loadbuf _).1.bpos = 0 ∧ (loadbuf _).1.file = a.file ∧ (loadbuf _).1.B = a.B ∧
       (loadbuf _).1.boff = (off : Int) ∧ (loadbuf _).2 = .ok ∧ 0 < (loadbuf _).1.nc
  refine ⟨hwf, hbp, hfile, hB', ?_, ?_, ?_⟩
  · simp only [pos, hbp] at hp
    simpa using hp
  · rcases hcase with ⟨h1, _, _⟩ | ⟨_, _, h3⟩
    · exact h1
    · exfalso
      have h3' : off = a.file.size := h3
      omega
  · rcases hcase with ⟨_, h2, _⟩ | ⟨_, _, h3⟩
    · exact h2
    · exfalso
      have h3' : off = a.file.size := h3
      omega

/-! ## the copy loop -/

theorem echoLoop_succ (fuel : Nat) (a : Ascii) (eoff : Int) (out : Bytes) :
    echoLoop (fuel + 1) a eoff out =
      if a.boff + a.nc ≤ eoff then
        (if ((loadbuf a).2 != .ok) = true then
          ((loadbuf a).1.raise,
           out ++ (if a.linebased then a.line.extract 0 a.nc else a.file.extract a.boff.toNat (a.boff.toNat + a.nc)),
           Status.ecorrupt)
         else echoLoop fuel (loadbuf a).1 eoff
           (out ++ (if a.linebased then a.line.extract 0 a.nc else a.file.extract a.boff.toNat (a.boff.toNat + a.nc))))
      else (a, out, .ok) := rfl

/-- the loop invariant: the buffer is a non-empty window starting at `boff ∈ [roff, eoff]`, and everything
    before it (from `roff`) has been copied -/
structure Inv (file : Bytes) (B : Nat) (roff eoff : Int) (a : Ascii) (out : Bytes) : Prop where
  wf : WF a
  bpos0 : a.bpos = 0
  ncPos : 0 < a.nc
  fileEq : a.file = file
  BEq : a.B = B
  lo : roff ≤ a.boff
  hi : a.boff ≤ eoff
  outEq : out = file.extract roff.toNat a.boff.toNat

theorem extract_glue (f : Bytes) (i j k : Nat) (h1 : i ≤ j) (h2 : j ≤ k) :
    f.extract i j ++ f.extract j k = f.extract i k := by
  rw [Array.extract_append_extract]
  congr 1
  · omega
  · omega

theorem echoLoop_spec (file : Bytes) (B : Nat) (roff eoff : Int) (h0 : 0 ≤ roff) (h2 : eoff < (file.size : Int))
    (ln l : Int) :
    ∀ (fuel : Nat) (a : Ascii) (out : Bytes), Inv file B roff eoff a out → file.size - a.boff.toNat < fuel →
      a.linenumber = ln → a.L = l →
      (echoLoop fuel a eoff out).2.2 = .ok ∧
      Inv file B roff eoff (echoLoop fuel a eoff out).1 (echoLoop fuel a eoff out).2.1 ∧
      eoff < (echoLoop fuel a eoff out).1.boff + (echoLoop fuel a eoff out).1.nc ∧
      (echoLoop fuel a eoff out).1.linenumber = ln ∧ (echoLoop fuel a eoff out).1.L = l := by
  intro fuel
  induction fuel with
  | zero => intro a out _ hf; omega
  | succ fuel ih =>
    intro a out hinv hf hln hl
    rw [echoLoop_succ]
    by_cases hc : a.boff + a.nc ≤ eoff
    · rw [if_pos hc]
      have hwf := hinv.wf
      have hpre := hwf.toPre
      obtain ⟨hwf', hbp', hfile', hB', hp', hcase⟩ := loadbuf_wf a hpre
      obtain ⟨hk1, hk2, _⟩ := loadbuf_keep a hpre
      have hboff0 : 0 ≤ a.boff := by have := hinv.lo; omega
      have hfpos : (a.fpos : Int) = a.boff + a.nc := by
        have := hwf.fposEq; have := hwf.boffEq; have := hwf.ncLe; omega
      have hsz : a.file.size = file.size := by rw [hinv.fileEq]
      generalize loadbuf a = r at hwf' hbp' hfile' hB' hp' hcase hk1 hk2
      obtain ⟨a', st⟩ := r
      simp only at hwf' hbp' hfile' hB' hp' hcase hk1 hk2
      have hboff' : a'.boff = a.boff + a.nc := by
        simp only [pos, hbp'] at hp'
        have : a'.boff = (a.fpos : Int) := by simpa using hp'
        omega
      rcases hcase with ⟨hst, hnc, _⟩ | ⟨_, _, heq⟩
      · subst hst
        have hne : (Status.ok != Status.ok) = false := by decide
        simp only [hne, Bool.false_eq_true, if_false, hwf.block]
        have hinv' : Inv file B roff eoff a' (out ++ a.file.extract a.boff.toNat (a.boff.toNat + a.nc)) := by
          refine ⟨hwf', hbp', hnc, by rw [hfile', hinv.fileEq], by rw [hB', hinv.BEq], ?_, ?_, ?_⟩
          · have := hinv.lo; omega
          · omega
          · rw [hinv.outEq, hinv.fileEq, hboff']
            have : (a.boff + (a.nc : Int)).toNat = a.boff.toNat + a.nc := by omega
            rw [this]
            have hlo := hinv.lo
            exact extract_glue file roff.toNat a.boff.toNat (a.boff.toNat + a.nc) (by omega) (by omega)
        exact ih a' _ hinv' (by have := hinv.ncPos; omega) (by rw [hk1, hln]) (by rw [hk2, hl])
      · exfalso; omega
    · rw [if_neg hc]
      exact ⟨rfl, hinv, by show eoff < a.boff + a.nc; omega, hln, hl⟩

/-! ## the whole of `sqascii_Echo` -/

theorem echo_unfold (a : Ascii) (sq : Sq) (hne : (sq.roff == -1 || sq.eoff == -1) = false)
    (a1 : Ascii) (hp1 : position a sq.roff.toNat = (a1, .ok))
    (a2 : Ascii) (out : Bytes) (hl : echoLoop (fuelOf a1) a1 sq.eoff #[] = (a2, out, .ok))
    (hn : ¬ (sq.eoff - a2.boff + 1 < 0 ∨ sq.eoff - a2.boff + 1 > a2.nc)) (hlb : a2.linebased = false)
    (a3 : Ascii) (hp3 : position a2 sq.roff.toNat = (a3, .ok)) :
    echo a sq =
      ({ a3 with linenumber := a.linenumber, L := a.L,
                 trk := { a3.trk with currpl := a.trk.currpl, curbpl := a.trk.curbpl, prvrpl := a.trk.prvrpl,
                                      prvbpl := a.trk.prvbpl } },
       .ok, out ++ a2.file.extract a2.boff.toNat (a2.boff.toNat + (sq.eoff - a2.boff + 1).toNat)) := by
  have e1 : (Status.ok == Status.eof) = false := by decide
  have e2 : (Status.ok != Status.ok) = false := by decide
  have hn' : (decide (sq.eoff - a2.boff + 1 < 0) || decide (sq.eoff - a2.boff + 1 > a2.nc)) = false := by
    simpa using hn
  unfold echo
  simp only [hne, hp1, hl, hp3, e1, e2, hn', hlb, Bool.false_eq_true, if_false]

/-- **(A)** For every block size `B ≥ 1`, `sqascii_Echo` returns `eslOK` and exactly the bytes `roff..eoff`
    (inclusive) of the file; the handle is left as a well-formed cursor on `roff` with a non-empty buffer, on the same
    file with the same block size, and with `linenumber` and `L` as they were before the call. -/
theorem echo_eq_scan_bytes (a : Ascii) (sq : Sq) (hb : a.linebased = false) (hr : a.recording ≠ 1) (hB : 1 ≤ a.B)
    (h0 : 0 ≤ sq.roff) (h1 : sq.roff ≤ sq.eoff) (h2 : sq.eoff < (a.file.size : Int)) :
    (echo a sq).2.1 = .ok ∧
    (echo a sq).2.2 = a.file.extract sq.roff.toNat (sq.eoff.toNat + 1) ∧
    Refine.WF (echo a sq).1 ∧ Refine.pos (echo a sq).1 = sq.roff ∧ (echo a sq).1.bpos = 0 ∧ 0 < (echo a sq).1.nc ∧
    (echo a sq).1.file = a.file ∧ (echo a sq).1.B = a.B ∧
    (echo a sq).1.linenumber = a.linenumber ∧ (echo a sq).1.L = a.L := by
  have hroffNat : ((sq.roff.toNat : Nat) : Int) = sq.roff := Int.toNat_of_nonneg h0
  have hofflt : sq.roff.toNat < a.file.size := by omega
  have hne : (sq.roff == -1 || sq.eoff == -1) = false := by
    have : sq.roff ≠ -1 := by omega
    have : sq.eoff ≠ -1 := by omega
    simp [*]
  -- first Position
  obtain ⟨hwf1, hbp1, hfile1, hB1, hboff1, hst1, hnc1⟩ := position_spec a sq.roff.toNat hb hr hB hofflt
  generalize hp1 : position a sq.roff.toNat = r1 at hwf1 hbp1 hfile1 hB1 hboff1 hst1 hnc1
  obtain ⟨a1, st1⟩ := r1
  simp only at hwf1 hbp1 hfile1 hB1 hboff1 hst1 hnc1
  subst hst1
  -- the loop
  have hinv1 : Inv a.file a.B sq.roff sq.eoff a1 #[] := by
    refine ⟨hwf1, hbp1, hnc1, hfile1, hB1, by omega, by omega, ?_⟩
    rw [hboff1]
    simp
    omega
  have hfuel : a.file.size - a1.boff.toNat < fuelOf a1 := by
    show a.file.size - a1.boff.toNat < a1.file.size + 2
    rw [hfile1]; omega
  obtain ⟨hst2, hinv2, hgt2, _, _⟩ :=
    echoLoop_spec a.file a.B sq.roff sq.eoff h0 h2 a1.linenumber a1.L (fuelOf a1) a1 #[] hinv1 hfuel rfl rfl
  generalize hl : echoLoop (fuelOf a1) a1 sq.eoff #[] = r2 at hst2 hinv2 hgt2
  obtain ⟨a2, out, st2⟩ := r2
  simp only at hst2 hinv2 hgt2
  subst hst2
  have hwf2 := hinv2.wf
  have hlo2 := hinv2.lo
  have hhi2 := hinv2.hi
  -- second Position
  have hofflt2 : sq.roff.toNat < a2.file.size := by rw [hinv2.fileEq]; exact hofflt
  obtain ⟨hwf3, hbp3, hfile3, hB3, hboff3, hst3, hnc3⟩ :=
    position_spec a2 sq.roff.toNat hwf2.block hwf2.norec hwf2.bpos1 hofflt2
  generalize hp3 : position a2 sq.roff.toNat = r3 at hwf3 hbp3 hfile3 hB3 hboff3 hst3 hnc3
  obtain ⟨a3, st3⟩ := r3
  simp only at hwf3 hbp3 hfile3 hB3 hboff3 hst3 hnc3
  subst hst3
  rw [echo_unfold a sq hne a1 hp1 a2 out hl (by omega) hwf2.block a3 hp3]
  refine ⟨rfl, ?_, ?_, ?_, hbp3, hnc3, ?_, ?_, rfl, rfl⟩
  · show out ++ a2.file.extract a2.boff.toNat (a2.boff.toNat + (sq.eoff - a2.boff + 1).toNat) = _
    rw [hinv2.outEq, hinv2.fileEq]
    have : a2.boff.toNat + (sq.eoff - a2.boff + 1).toNat = sq.eoff.toNat + 1 := by omega
    rw [this]
    exact extract_glue a.file sq.roff.toNat a2.boff.toNat (sq.eoff.toNat + 1) (by omega) (by omega)
  · exact ⟨hwf3.block, hwf3.norec, hwf3.bpos1, hwf3.full, hwf3.moff0, hwf3.fposEq, hwf3.fposLe, hwf3.ncLe,
           hwf3.boffEq, hwf3.bposLe⟩
  · show a3.boff + (a3.bpos : Int) = sq.roff
    rw [hboff3, hbp3]; omega
  · show a3.file = a.file
    rw [hfile3, hinv2.fileEq]
  · show a3.B = a.B
    rw [hB3, hinv2.BEq]

/-! ## (B) the error clause: offsets that were never set -/

theorem echo_unset_offsets (a : Ascii) (sq : Sq) (h : sq.roff = -1 ∨ sq.eoff = -1) :
    (echo a sq).2.1 = .einval ∧ (echo a sq).2.2 = #[] := by
  have hc : (sq.roff == -1 || sq.eoff == -1) = true := by
    rcases h with h | h <;> simp [h]
  unfold echo
  rw [if_pos hc]
  exact ⟨rfl, rfl⟩

/-! ## (C) every record the reader returns can be echoed: `Echo` after `Read` gives back the record's bytes -/

open EaselModel.Sqio.ReadSpec EaselModel.Sqio.HeaderSpec EaselModel.Sqio.ParseFasta EaselModel.Sqio.Totality in
/-- the end offset `recL` stores is the offset of a byte of the file (`eoff = offOf N rest - 1 < N`) -/
theorem recL_eoff_lt (inmap : Bytes) (N : Nat) (sq : Sq) (l : List UInt8) (h : (recL inmap N sq l).1 = .ok) :
    (recL inmap N sq l).2.1.eoff < (N : Int) := by
  revert h
  unfold recL
  split
  · intro k; cases k
  · split
    · unfold bodyL
      split
      · intro _
        simp only [Sq.setWhole, offOf]
        omega
      · split
        · intro _
          simp only [Sq.setWhole, offOf]
          omega
        · intro k; cases k
    · rename_i hne hnok
      intro h
      exact absurd (by rw [h]; rfl) hnok

open EaselModel.Sqio.ReadSpec EaselModel.Sqio.ParseFasta in
theorem parseAllL_eoff_lt (inmap : Bytes) (N : Nat) (fuel : Nat) : ∀ (sq : Sq) (l : List UInt8),
    ∀ s ∈ (parseAllL inmap N fuel sq l).1, s.eoff < (N : Int) := by
  induction fuel with
  | zero => intro sq l s hs; cases hs
  | succ fuel ih =>
    intro sq l
    simp only [parseAllL]
    by_cases hok : (recL inmap N sq.reuse l).1 = .ok
    · have hb : ((recL inmap N sq.reuse l).1 == Status.ok) = true := by rw [hok]; rfl
      simp only [hb, if_true]
      intro s hs
      rcases List.mem_cons.mp hs with e | e
      · rw [e]; exact recL_eoff_lt inmap N sq.reuse l hok
      · exact ih _ _ s e
    · have hb : ((recL inmap N sq.reuse l).1 == Status.ok) = false := by simpa using hok
      simp only [hb, Bool.false_eq_true, if_false]
      intro s hs; cases hs

/-- the offsets of every record of `parseFasta` delimit a non-empty stretch of the file -/
theorem scanned_record_offsets (bytes : Bytes) (abc : Nat) (s : Sq) (hs : s ∈ (ParseFasta.parseFasta abc bytes).1) :
    0 ≤ s.roff ∧ s.roff ≤ s.eoff ∧ s.eoff < (bytes.size : Int) := by
  unfold ParseFasta.parseFasta at hs
  have hw := (Totality.parseAllL_total (inmapFasta abc) bytes.size (bytes.size + 2) (freshSq abc) bytes.toList (by simp) (by simp)
    (by show 2 ≤ 32; decide) (by show 2 ≤ 128; decide)).2 s hs
  have he := parseAllL_eoff_lt (inmapFasta abc) bytes.size (bytes.size + 2) (freshSq abc) bytes.toList s hs
  obtain ⟨_, _, _, _, _, _, _, _, _, w1, w2, w3, w4⟩ := hw
  exact ⟨w1, by omega, he⟩

/-- **(C)** `Echo` of any record that the FASTA reader returned (for any block size — `parseFasta` is what
    `readAllM` returns from `esl_sqfile_Open` on, `read_all_eq_parseFasta`), on any block-mode handle on the same file with
    any block size `B ≥ 1`, returns `eslOK` and the bytes `roff..eoff` of the file. -/
theorem echo_of_scanned_record (bytes : Bytes) (abc : Nat) (s : Sq)
    (hs : s ∈ (ParseFasta.parseFasta abc bytes).1)
    (a : Ascii) (hf : a.file = bytes) (hb : a.linebased = false) (hr : a.recording ≠ 1) (hB : 1 ≤ a.B) :
    (echo a s).2.1 = .ok ∧ (echo a s).2.2 = bytes.extract s.roff.toNat (s.eoff.toNat + 1) := by
  obtain ⟨h0, h1, h2⟩ := scanned_record_offsets bytes abc s hs
  subst hf
  obtain ⟨r1, r2, _⟩ := echo_eq_scan_bytes a s hb hr hB h0 h1 h2
  exact ⟨r1, r2⟩

/-- the same for the records `readAllM` returns from `esl_sqfile_Open` on, read with block size `B1`, echoed with `B2` -/
theorem echo_of_read_record (bytes : Bytes) (abc B1 : Nat) (hB1 : 1 ≤ B1) (habc : abc ∈ [0, 1, 2, 3]) (s : Sq)
    (hs : s ∈ (ParseFasta.readAllM (bytes.size + 2) (ParseFasta.openFasta bytes B1 abc) (freshSq abc)).1)
    (a : Ascii) (hf : a.file = bytes) (hb : a.linebased = false) (hr : a.recording ≠ 1) (hB : 1 ≤ a.B) :
    (echo a s).2.1 = .ok ∧ (echo a s).2.2 = bytes.extract s.roff.toNat (s.eoff.toNat + 1) := by
  rw [ParseFasta.read_all_eq_parseFasta bytes B1 abc hB1 habc] at hs
  exact echo_of_scanned_record bytes abc s hs a hf hb hr hB

/-! ## non-vacuity: `>a\nAC\n>b\nG\n` read through 2-byte blocks -/

def demoFile : Bytes := #[62, 97, 10, 65, 67, 10, 62, 98, 10, 71, 10]

example : (echo { file := demoFile, B := 2 } { roff := 0, eoff := 5 }).2 = (.ok, #[62, 97, 10, 65, 67, 10]) := by
  decide +kernel

example : (echo { file := demoFile, B := 2 } { roff := 6, eoff := 10 }).2 = (.ok, #[62, 98, 10, 71, 10]) := by
  decide +kernel

/-- the hypotheses of `echo_eq_scan_bytes` are satisfiable (and its conclusion is the evaluation above) -/
example : (echo { file := demoFile, B := 2 } { roff := 0, eoff := 5 }).2.2 = demoFile.extract 0 6 :=
  (echo_eq_scan_bytes { file := demoFile, B := 2 } { roff := 0, eoff := 5 } rfl (by decide) (by decide) (by decide) (by decide)
    (by decide)).2.1

/-- the reader finds two records in the demo file, at `[0,5]` and `[6,10]`: the hypothesis of `echo_of_scanned_record` -/
example : (ParseFasta.parseFasta 0 demoFile).1.map (fun s => (s.roff, s.eoff)) = [(0, 5), (6, 10)] := by decide +kernel

end EaselModel.Sqio.EchoSpec
