import EaselModel.Sqio.MsaSeqMode
import EaselModel.Msafile.Stockholm
/-! # `ModeOk` for Stockholm / Pfam: no helper of the Stockholm reader ever fails with "eslOK", so the alignment returned is the one
`stoFinal` builds (`digital := cfg.digital, kp := cfg.kp`). -/
namespace EaselModel.Msafile.C02Sto
open EaselModel.Msafile

@[simp] theorem getE_ne {α : Type} (l : List α) (i : Nat) (m : Msa) : getE l i ≠ .error (.ok m) := by
  intro h; unfold getE at h; first | ((repeat' split at h) <;> simp_all; done) | (revert h; (repeat' split) <;> simp_all; done) | (revert h; simp only []; (repeat' split) <;> intro h <;> simp_all)

@[simp] theorem setE_ne {α : Type} (l : List α) (i : Nat) (v : α) (m : Msa) : setE l i v ≠ .error (.ok m) := by
  intro h; unfold setE at h; first | ((repeat' split at h) <;> simp_all; done) | (revert h; (repeat' split) <;> simp_all; done) | (revert h; simp only []; (repeat' split) <;> intro h <;> simp_all)

@[simp] theorem strcatE_ne (dest : Option Bytes) (ldest : Nat) (src : Bytes) (m : Msa) : strcatE dest ldest src ≠ .error (.ok m) := by
  intro h; unfold strcatE at h; first | ((repeat' split at h) <;> simp_all; done) | (revert h; (repeat' split) <;> simp_all; done) | (revert h; simp only []; (repeat' split) <;> intro h <;> simp_all)

@[simp] theorem sqnameAt_ne (st : StoSt) (i : Nat) (m : Msa) : sqnameAt st i ≠ .error (.ok m) := by
  intro h; unfold sqnameAt at h; first | ((repeat' split at h) <;> simp_all; done) | (revert h; (repeat' split) <;> simp_all; done) | (revert h; simp only []; (repeat' split) <;> intro h <;> simp_all)

@[simp] theorem getSeqIdx_ne (st : StoSt) (name : Bytes) (m : Msa) : getSeqIdx st name ≠ .error (.ok m) := by
  intro h; unfold getSeqIdx at h; first | ((repeat' split at h) <;> simp_all; done) | (revert h; (repeat' split) <;> simp_all; done) | (revert h; simp only []; (repeat' split) <;> intro h <;> simp_all)

@[simp] theorem addGF_ne (st : StoSt) (tag value : Bytes) (m : Msa) : addGF st tag value ≠ .error (.ok m) := by
  intro h; unfold addGF at h; first | ((repeat' split at h) <;> simp_all; done) | (revert h; (repeat' split) <;> simp_all; done) | (revert h; simp only []; (repeat' split) <;> intro h <;> simp_all)

@[simp] theorem parseCutoffs_ne (st : StoSt) (p : Bytes) (i1 i2 : Nat) (undefOk : Bool) (m : Msa) : parseCutoffs st p i1 i2 undefOk ≠ .error (.ok m) := by
  intro h; unfold parseCutoffs at h; first | ((repeat' split at h) <;> simp_all; done) | (revert h; (repeat' split) <;> simp_all; done) | (revert h; simp only []; (repeat' split) <;> intro h <;> simp_all)

@[simp] theorem parseGf_ne (st : StoSt) (p : Bytes) (m : Msa) : parseGf st p ≠ .error (.ok m) := by
  intro h; unfold parseGf at h; first | ((repeat' split at h) <;> simp_all; done) | (revert h; (repeat' split) <;> simp_all; done) | (revert h; simp only []; (repeat' split) <;> intro h <;> simp_all)

@[simp] theorem setSeqOpt_ne (a : OptRows) (sqalloc idx : Nat) (v : Bytes) (m : Msa) : setSeqOpt a sqalloc idx v ≠ .error (.ok m) := by
  intro h; unfold setSeqOpt at h; first | ((repeat' split at h) <;> simp_all; done) | (revert h; (repeat' split) <;> simp_all; done) | (revert h; simp only []; (repeat' split) <;> intro h <;> simp_all)

@[simp] theorem addGS_ne (st : StoSt) (tag : Bytes) (sqidx : Nat) (value : Bytes) (m : Msa) : addGS st tag sqidx value ≠ .error (.ok m) := by
  intro h; unfold addGS at h; first | ((repeat' split at h) <;> simp_all; done) | (revert h; (repeat' split) <;> simp_all; done) | (revert h; simp only []; (repeat' split) <;> intro h <;> simp_all)

@[simp] theorem optIsSet_ne (a : OptRows) (idx : Nat) (m : Msa) : optIsSet a idx ≠ .error (.ok m) := by
  intro h; unfold optIsSet at h; first | ((repeat' split at h) <;> simp_all; done) | (revert h; (repeat' split) <;> simp_all; done) | (revert h; simp only []; (repeat' split) <;> intro h <;> simp_all)

@[simp] theorem gsSeqIdx_ne (st : StoSt) (seqname : Bytes) (m : Msa) : gsSeqIdx st seqname ≠ .error (.ok m) := by
  intro h; unfold gsSeqIdx at h; first | ((repeat' split at h) <;> simp_all; done) | (revert h; (repeat' split) <;> simp_all; done) | (revert h; simp only []; (repeat' split) <;> intro h <;> simp_all)

@[simp] theorem gsApply_ne (st : StoSt) (seqidx : Nat) (tag p : Bytes) (m : Msa) : gsApply st seqidx tag p ≠ .error (.ok m) := by
  intro h; unfold gsApply at h; first | ((repeat' split at h) <;> simp_all; done) | (revert h; (repeat' split) <;> simp_all; done) | (revert h; simp only []; (repeat' split) <;> intro h <;> simp_all)

@[simp] theorem parseGs_ne (st : StoSt) (p : Bytes) (m : Msa) : parseGs st p ≠ .error (.ok m) := by
  intro h; unfold parseGs at h; first | ((repeat' split at h) <;> simp_all; done) | (revert h; (repeat' split) <;> simp_all; done) | (revert h; simp only []; (repeat' split) <;> intro h <;> simp_all)

@[simp] theorem recordLine_ne (st : StoSt) (lt : Nat) (bx : Option Nat) (m : Msa) : recordLine st lt bx ≠ .error (.ok m) := by
  intro h; unfold recordLine at h; first | ((repeat' split at h) <;> simp_all; done) | (revert h; (repeat' split) <;> simp_all; done) | (revert h; simp only []; (repeat' split) <;> intro h <;> simp_all)

@[simp] theorem expectLine_ne (st : StoSt) (lt : Nat) (m : Msa) : expectLine st lt ≠ .error (.ok m) := by
  intro h; unfold expectLine at h; first | ((repeat' split at h) <;> simp_all; done) | (revert h; (repeat' split) <;> simp_all; done) | (revert h; simp only []; (repeat' split) <;> intro h <;> simp_all)

@[simp] theorem expectSeq_ne (st : StoSt) (name : Bytes) (m : Msa) : expectSeq st name ≠ .error (.ok m) := by
  intro h; unfold expectSeq at h; first | ((repeat' split at h) <;> simp_all; done) | (revert h; (repeat' split) <;> simp_all; done) | (revert h; simp only []; (repeat' split) <;> intro h <;> simp_all)

@[simp] theorem blockLineDone_ne (st : StoSt) (n : Nat) (m : Msa) : blockLineDone st n ≠ .error (.ok m) := by
  intro h; unfold blockLineDone at h; first | ((repeat' split at h) <;> simp_all; done) | (revert h; (repeat' split) <;> simp_all; done) | (revert h; simp only []; (repeat' split) <;> intro h <;> simp_all)

@[simp] theorem gcLocate_ne (st : StoSt) (lt : Nat) (m : Msa) : gcLocate st lt ≠ .error (.ok m) := by
  intro h; unfold gcLocate at h; first | ((repeat' split at h) <;> simp_all; done) | (revert h; (repeat' split) <;> simp_all; done) | (revert h; simp only []; (repeat' split) <;> intro h <;> simp_all)

@[simp] theorem parseGc_ne (st : StoSt) (p : Bytes) (m : Msa) : parseGc st p ≠ .error (.ok m) := by
  intro h; unfold parseGc at h; first | ((repeat' split at h) <;> simp_all; done) | (revert h; (repeat' split) <;> simp_all; done) | (revert h; simp only []; (repeat' split) <;> intro h <;> simp_all)

@[simp] theorem nameIs_ne (st : StoSt) (i : Nat) (name : Bytes) (m : Msa) : nameIs st i name ≠ .error (.ok m) := by
  intro h; unfold nameIs at h; first | ((repeat' split at h) <;> simp_all; done) | (revert h; (repeat' split) <;> simp_all; done) | (revert h; simp only []; (repeat' split) <;> intro h <;> simp_all)

@[simp] theorem grSeqIdx_ne (st : StoSt) (name : Bytes) (m : Msa) : grSeqIdx st name ≠ .error (.ok m) := by
  intro h
  unfold grSeqIdx at h
  have key : ∀ (x : E Bool) (k : E (StoSt × Nat)) (a : StoSt × Nat), x ≠ .error (.ok m) → k ≠ .error (.ok m) →
      (match x with | .error r => (.error r : E (StoSt × Nat)) | .ok true => .ok a | .ok false => k) ≠ .error (.ok m) := by
    intro x k a hx hk
    cases x with
    | error r => intro h2; simp only [Except.error.injEq] at h2; subst h2; exact hx rfl
    | ok b => cases b <;> simp_all
  refine key _ _ _ ?_ ?_ h
  · split <;> simp
  · refine key _ _ _ ?_ (getSeqIdx_ne st name m)
    split <;> simp

@[simp] theorem perArrays_ne (st : StoSt) (k : Nat) (m : Msa) : perArrays st k ≠ .error (.ok m) := by
  intro h; unfold perArrays at h; first | ((repeat' split at h) <;> simp_all; done) | (revert h; (repeat' split) <;> simp_all; done) | (revert h; simp only []; (repeat' split) <;> intro h <;> simp_all)

@[simp] theorem grAppendPer_ne (st : StoSt) (k seqidx : Nat) (txt : Bytes) (m : Msa) : grAppendPer st k seqidx txt ≠ .error (.ok m) := by
  intro h; unfold grAppendPer at h; first | ((repeat' split at h) <;> simp_all; done) | (revert h; (repeat' split) <;> simp_all; done) | (revert h; simp only []; (repeat' split) <;> intro h <;> simp_all)

@[simp] theorem grAppendOther_ne (st : StoSt) (tag : Bytes) (seqidx : Nat) (txt : Bytes) (m : Msa) : grAppendOther st tag seqidx txt ≠ .error (.ok m) := by
  intro h; unfold grAppendOther at h; first | ((repeat' split at h) <;> simp_all; done) | (revert h; (repeat' split) <;> simp_all; done) | (revert h; simp only []; (repeat' split) <;> intro h <;> simp_all)

@[simp] theorem grLocate_ne (st : StoSt) (name : Bytes) (lt : Nat) (m : Msa) : grLocate st name lt ≠ .error (.ok m) := by
  intro h; unfold grLocate at h; first | ((repeat' split at h) <;> simp_all; done) | (revert h; (repeat' split) <;> simp_all; done) | (revert h; simp only []; (repeat' split) <;> intro h <;> simp_all)

@[simp] theorem grAppend_ne (st : StoSt) (lt : Nat) (tag : Bytes) (seqidx : Nat) (txt : Bytes) (m : Msa) : grAppend st lt tag seqidx txt ≠ .error (.ok m) := by
  intro h; unfold grAppend at h; first | ((repeat' split at h) <;> simp_all; done) | (revert h; (repeat' split) <;> simp_all; done) | (revert h; simp only []; (repeat' split) <;> intro h <;> simp_all)

@[simp] theorem parseGr_ne (st : StoSt) (p : Bytes) (m : Msa) : parseGr st p ≠ .error (.ok m) := by
  intro h; unfold parseGr at h; first | ((repeat' split at h) <;> simp_all; done) | (revert h; (repeat' split) <;> simp_all; done) | (revert h; simp only []; (repeat' split) <;> intro h <;> simp_all)

@[simp] theorem sqSeqIdx_ne (st : StoSt) (seqname : Bytes) (m : Msa) : sqSeqIdx st seqname ≠ .error (.ok m) := by
  intro h
  unfold sqSeqIdx at h
  have key : ∀ (x : E Bool) (k : E (StoSt × Nat)) (a : StoSt × Nat), x ≠ .error (.ok m) → k ≠ .error (.ok m) →
      (match x with | .error r => (.error r : E (StoSt × Nat)) | .ok true => .ok a | .ok false => k) ≠ .error (.ok m) := by
    intro x k a hx hk
    cases x with
    | error r => intro h2; simp only [Except.error.injEq] at h2; subst h2; exact hx rfl
    | ok b => cases b <;> simp_all
  refine key _ _ _ ?_ (getSeqIdx_ne st seqname m) h
  split <;> simp

@[simp] theorem sqLocate_ne (st : StoSt) (seqname : Bytes) (m : Msa) : sqLocate st seqname ≠ .error (.ok m) := by
  intro h; unfold sqLocate at h; first | ((repeat' split at h) <;> simp_all; done) | (revert h; (repeat' split) <;> simp_all; done) | (revert h; simp only []; (repeat' split) <;> intro h <;> simp_all)

@[simp] theorem parseSq_ne (cfg : Cfg) (st : StoSt) (p : Bytes) (m : Msa) : parseSq cfg st p ≠ .error (.ok m) := by
  intro h; unfold parseSq at h; first | ((repeat' split at h) <;> simp_all; done) | (revert h; (repeat' split) <;> simp_all; done) | (revert h; simp only []; (repeat' split) <;> intro h <;> simp_all)

@[simp] theorem parseComment_ne (st : StoSt) (p : Bytes) (m : Msa) : parseComment st p ≠ .error (.ok m) := by
  intro h; unfold parseComment at h; first | ((repeat' split at h) <;> simp_all; done) | (revert h; (repeat' split) <;> simp_all; done) | (revert h; simp only []; (repeat' split) <;> intro h <;> simp_all)

@[simp] theorem endBlock_ne (st : StoSt) (m : Msa) : endBlock st ≠ .error (.ok m) := by
  intro h; unfold endBlock at h; first | ((repeat' split at h) <;> simp_all; done) | (revert h; (repeat' split) <;> simp_all; done) | (revert h; simp only []; (repeat' split) <;> intro h <;> simp_all)

theorem liftE_ne (x : E StoSt) (m : Msa) (hx : x ≠ .error (.ok m)) : liftE x ≠ .inr (.ok m) := by
  cases x with
  | ok st => simp [liftE]
  | error r => intro h; simp only [liftE, Sum.inr.injEq] at h; subst h; exact hx rfl

theorem stoFinal_mode (cfg : Cfg) (st : StoSt) (m : Msa) (h : stoFinal cfg st = .ok m) : m.digital = cfg.digital ∧ m.kp = cfg.kp := by
  unfold stoFinal at h
  (repeat' split at h) <;> first | (simp at h; done) | (simp only [Res.ok.injEq] at h; subst h; exact ⟨rfl, rfl⟩)

/-- a step of the Stockholm reader declares success only through `stoFinal` -/
theorem stoStep_ok (cfg : Cfg) (st : StoSt) (line : Bytes) (m : Msa) (h : stoStep cfg st line = .inr (.ok m)) :
    m.digital = cfg.digital ∧ m.kp = cfg.kp := by
  unfold stoStep at h
  split at h
  · (repeat' split at h) <;> simp at h
  · simp only [] at h
    split at h
    · split at h
      · rename_i r he
        simp only [Sum.inr.injEq] at h
        subst h
        exact absurd he (endBlock_ne st m)
      · split at h
        · simp only [Sum.inr.injEq] at h
          exact stoFinal_mode cfg _ m h
        · simp at h
    · split at h
      · split at h
        · exact absurd h (liftE_ne _ m (parseGf_ne _ _ m))
        · split at h
          · exact absurd h (liftE_ne _ m (parseGs_ne _ _ m))
          · split at h
            · exact absurd h (liftE_ne _ m (parseGc_ne _ _ m))
            · split at h
              · exact absurd h (liftE_ne _ m (parseGr_ne _ _ m))
              · split at h
                · simp at h
                · exact absurd h (liftE_ne _ m (parseComment_ne _ _ m))
      · exact absurd h (liftE_ne _ m (parseSq_ne cfg _ _ m))

theorem runLines_ok_cases {σ : Type} (step : σ → Bytes → Sum σ (Res Msa)) (finish : σ → Res Msa) :
    ∀ (ls : List Bytes) (st : σ) (m : Msa), (runLines step finish st ls).1 = .ok m →
      (∃ st' l, step st' l = .inr (.ok m)) ∨ ∃ st', finish st' = .ok m := by
  intro ls
  induction ls with
  | nil => intro st m h; exact Or.inr ⟨st, by simpa [runLines] using h⟩
  | cons l ls ih =>
    intro st m h
    unfold runLines at h
    cases hs : step st l with
    | inl st' => rw [hs] at h; exact ih st' m h
    | inr r =>
      rw [hs] at h
      simp only at h
      subst h
      exact Or.inl ⟨st, l, hs⟩

theorem stockholmRead_mode (cfg : Cfg) (lines : List Bytes) (m : Msa) (h : (stockholmRead cfg lines).1 = .ok m) :
    m.digital = cfg.digital ∧ m.kp = cfg.kp := by
  rcases runLines_ok_cases (stoStep cfg) stoFinish lines {} m h with ⟨st', l, hs⟩ | ⟨st', hf⟩
  · exact stoStep_ok cfg st' l m hs
  · unfold stoFinish at hf
    split at hf <;> simp at hf

end EaselModel.Msafile.C02Sto

namespace EaselModel.Sqio.MsaSeq
open EaselModel.Msafile

/-- Stockholm and Pfam (one reader), every alphabet selection and name width -/
theorem modeOk_stockholm (abc : Option AbcType) (nw : Nat) : ModeOk ⟨.stockholm, abc, nw⟩ := by
  intro lines m h
  obtain ⟨hd, hk⟩ := C02Sto.stockholmRead_mode (cfgOf .stockholm (abc.map abcOfType)) lines m h
  exact modeOf_of_cfg .stockholm abc nw m hd hk (cfg_digital _ _) (cfg_kp _ _)

theorem modeOk_pfam (abc : Option AbcType) (nw : Nat) : ModeOk ⟨.pfam, abc, nw⟩ := by
  intro lines m h
  obtain ⟨hd, hk⟩ := C02Sto.stockholmRead_mode (cfgOf .pfam (abc.map abcOfType)) lines m h
  exact modeOf_of_cfg .pfam abc nw m hd hk (cfg_digital _ _) (cfg_kp _ _)

/-- **every reader delivers alignments in the handle's mode**: all ten formats, every alphabet selection; PHYLIP with the default name
    width (a declared format, or autodetection that found width 10) -/
theorem modeOk_all (o : Opened) (hnw : (o.fmt = .phylip ∨ o.fmt = .phylips) → o.namewidth = 0) : ModeOk o := by
  obtain ⟨fmt, abc, nw⟩ := o
  cases fmt
  · exact modeOk_stockholm abc nw
  · exact modeOk_pfam abc nw
  · exact modeOk_a2m abc nw
  · exact modeOk_psiblast abc nw
  · exact modeOk_selex abc nw
  · exact modeOk_afa abc nw
  · exact modeOk_clustal abc nw
  · exact modeOk_clustallike abc nw
  · have : nw = 0 := hnw (Or.inl rfl)
    subst this; exact modeOk_phylip abc
  · have : nw = 0 := hnw (Or.inr rfl)
    subst this; exact modeOk_phylips abc

end EaselModel.Sqio.MsaSeq
