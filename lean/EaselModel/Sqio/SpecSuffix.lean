import EaselModel.Sqio.PositionAny
/-! # The declarative FASTA parser restarted at a record's offset yields that record and the ones after it (C04)

`specAll_from_record`: if `specAll` on (a suffix of) the file returns `pre ++ r :: post`, then `specAll` on the bytes from `r.roff`
returns `r :: post` with the same final status. With `PositionAny.position_read_all` (Position at any offset, then the read loop =
`specAll` on the rest of the file): positioning at the `roff` of the k-th record of a sequential scan and reading on returns the
records k, k+1, … of that scan and its final status — for every block size. -/
namespace EaselModel.Sqio.SpecSuffix
open EaselModel.Sqio.Cursor EaselModel.Sqio.BodySpec EaselModel.Sqio.HeaderSpec EaselModel.Sqio.ReadSpec EaselModel.Sqio.ParseFasta
open EaselModel.Sqio.SpecFasta EaselModel.Sqio.FetchSpec

theorem dropWhile_idem {α : Type} (p : α → Bool) (l : List α) : (l.dropWhile p).dropWhile p = l.dropWhile p := by
  induction l with
  | nil => rfl
  | cons x xs ih =>
    by_cases h : p x = true
    · simp [h, ih]
    · simp [h]

theorem specOne_dropSpace (inmap map : Bytes) (N : Nat) (l : List UInt8) :
    specOne inmap map N (l.dropWhile isSpace) = specOne inmap map N l := by
  unfold specOne
  rw [dropWhile_idem]

/-- a successful `specOne`: where the record starts, and that the remainder is a suffix -/
theorem specOne_ok (inmap map : Bytes) (N : Nat) (l : List UInt8) (r : Record) (rest : List UInt8)
    (h : specOne inmap map N l = (.ok, some r, rest)) :
    ∃ c l2, l.dropWhile isSpace = c :: l2 ∧ r.roff = offOf N (c :: l2) ∧ rest <:+ l := by
  unfold specOne at h
  split at h
  · cases h
  · rename_i c l2 hd
    refine ⟨c, l2, hd, ?_⟩
    split at h
    · cases h
    · simp only [] at h
      split at h
      · cases h
      · have s0 : c :: l2 <:+ l := by rw [← hd]; exact List.dropWhile_suffix _
        have s1 : l2 <:+ l := (List.suffix_cons c l2).trans s0
        have chain : ((((((l2.dropWhile isBlankTab).dropWhile pName).dropWhile isBlankTab).dropWhile pDesc).dropWhile pNotEol).dropWhile pEol).dropWhile
            (isData inmap) <:+ l :=
          (List.dropWhile_suffix _).trans ((List.dropWhile_suffix _).trans ((List.dropWhile_suffix _).trans
            ((List.dropWhile_suffix _).trans ((List.dropWhile_suffix _).trans ((List.dropWhile_suffix _).trans
            ((List.dropWhile_suffix _).trans s1))))))
        split at h
        · rename_i hnil
          have := Prod.mk.inj h
          obtain ⟨_, h2⟩ := this
          obtain ⟨h2, h3⟩ := Prod.mk.inj h2
          have hr := Option.some.inj h2
          refine ⟨by rw [← hr], ?_⟩
          rw [← h3]; exact List.nil_suffix
        · rename_i c' t hcons
          split at h
          · obtain ⟨_, h2⟩ := Prod.mk.inj h
            obtain ⟨h2, h3⟩ := Prod.mk.inj h2
            have hr := Option.some.inj h2
            refine ⟨by rw [← hr], ?_⟩
            rw [← h3, ← hcons]; exact chain
          · cases h

theorem offOf_toNat (L : List UInt8) (l : List UInt8) (h : l <:+ L) : L.drop (offOf L.length l).toNat = l := by
  have := drop_of_suffix h
  unfold offOf
  simpa using this

/-- **restart at a record** -/
theorem specAll_from_record (inmap map : Bytes) (L : List UInt8) :
    ∀ (pre : List Record) (fuel : Nat) (l : List UInt8) (r : Record) (post : List Record) (st : Status), l <:+ L →
      specAll inmap map L.length fuel l = (pre ++ r :: post, st) →
      specAll inmap map L.length (fuel - pre.length) (L.drop r.roff.toNat) = (r :: post, st) := by
  intro pre
  induction pre with
  | nil =>
    intro fuel l r post st hsuf h
    cases fuel with
    | zero => simp [specAll] at h
    | succ fuel =>
      simp only [List.nil_append] at h
      simp only [List.length_nil, Nat.sub_zero]
      have h' := h
      simp only [specAll] at h'
      split at h'
      · rename_i r0 rest hone
        have e := (Prod.mk.inj h').1
        have er : r0 = r := (List.cons.inj e).1
        subst er
        obtain ⟨c, l2, hd, hroff, _⟩ := specOne_ok inmap map L.length l r0 rest hone
        have s0 : c :: l2 <:+ L := by
          have : c :: l2 <:+ l := by rw [← hd]; exact List.dropWhile_suffix _
          exact this.trans hsuf
        rw [hroff, offOf_toNat L _ s0, ← hd]
        simp only [specAll]
        rw [specOne_dropSpace]
        exact h
      · have := (Prod.mk.inj h').1
        cases this
  | cons p pre' ih =>
    intro fuel l r post st hsuf h
    cases fuel with
    | zero => simp [specAll] at h
    | succ fuel =>
      have h' := h
      simp only [specAll] at h'
      split at h'
      · rename_i r0 rest hone
        obtain ⟨_, _, _, _, hrest⟩ := specOne_ok inmap map L.length l r0 rest hone
        have e1 := (Prod.mk.inj h').1
        have e2 := (Prod.mk.inj h').2
        have et : (specAll inmap map L.length fuel rest).1 = pre' ++ r :: post := by
          have := (List.cons.inj e1).2
          simpa using this
        have := ih fuel rest r post st (hrest.trans hsuf) (by rw [← et, ← e2])
        simpa using this
      · have := (Prod.mk.inj h').1
        cases this

/-- **Position at the `roff` of the k-th record of the sequential scan, then the read loop = the records k, k+1, … of that scan and its
    final status**, for every block size: `specFasta abc bytes = (pre ++ r :: post, st)` is the scan (`read_all_eq_specFasta`). -/
theorem position_at_record_read_all (bytes : Bytes) (abc : Nat) (habc : abc ∈ [0, 1, 2, 3])
    (pre : List Record) (r : Record) (post : List Record) (st : Status)
    (hscan : specFasta abc bytes.toList = (pre ++ r :: post, st))
    (a : Ascii) (hf : a.file = bytes) (hb : a.linebased = false) (hr : a.recording ≠ 1) (hB : 1 ≤ a.B)
    (hi : a.inmap = inmapFasta abc) (hfmt : a.fmt = 1) (heof : a.eofIsOk = true) :
    (position a r.roff.toNat).2 = .ok ∧
    ((readAllM (bytes.size + 2 - pre.length) (position a r.roff.toNat).1 (freshSq abc)).1.map toRecord,
     (readAllM (bytes.size + 2 - pre.length) (position a r.roff.toNat).1 (freshSq abc)).2) = (r :: post, st) := by
  have hN : bytes.toList.length = bytes.size := Array.length_toList
  unfold specFasta at hscan
  have key := specAll_from_record (inmapFasta abc) (if abc = 0 then inmapFasta 0 else abcInmap abc) bytes.toList pre
    (bytes.toList.length + 2) bytes.toList r post st (List.suffix_refl _) hscan
  rw [hN] at key
  -- the offset lies inside the file: otherwise nothing is left to parse
  have hoff : r.roff.toNat < bytes.size := by
    apply Nat.lt_of_not_le
    intro hge
    have hnil : bytes.toList.drop r.roff.toNat = [] := List.drop_eq_nil_of_le (by rw [hN]; exact hge)
    rw [hnil] at key
    cases hfu : bytes.size + 2 - pre.length with
    | zero => rw [hfu] at key; simp [specAll] at key
    | succ n => rw [hfu] at key; simp [specAll, specOne] at key
  obtain ⟨p1, p2⟩ := PositionAny.position_read_all bytes abc habc r.roff.toNat hoff a hf hb hr hB hi hfmt heof (bytes.size + 2 - pre.length)
  refine ⟨p1, ?_⟩
  rw [p2]
  exact key

end EaselModel.Sqio.SpecSuffix
