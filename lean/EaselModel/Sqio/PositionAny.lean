import EaselModel.Sqio.FetchWhole
/-! # `esl_sqfile_Position(off)` then the read loop = the declarative parser on the bytes from `off` (C04)

For EVERY offset inside the file, every block-mode FASTA handle on the file (any block size, cursor anywhere): after
`sqascii_Position(sqfp, off)` the read loop returns exactly `specAll … (bytes.drop off)` — the declarative FASTA parser of
`Sqio/SpecFasta.lean` run on the rest of the file, with offsets counted from the start of the file. `off = 0` is the rewind
(`= specFasta`); `off = roff` of a record is `esl_sqio_Fetch`'s positioning. -/
namespace EaselModel.Sqio.PositionAny
open EaselModel.Sqio.Refine EaselModel.Sqio.DataScan EaselModel.Sqio.Cursor EaselModel.Sqio.BodySpec EaselModel.Sqio.HeaderSpec
open EaselModel.Sqio.ReadSpec EaselModel.Sqio.ParseFasta EaselModel.Sqio.FetchSpec EaselModel.Sqio.SpecFasta

/-- the residue map of a read in mode `abc` (0 text, 1 / 2 / 3 RNA / DNA / amino) -/
def mapOfMode (abc : Nat) : Bytes := if abc = 0 then inmapFasta 0 else abcInmap abc

theorem position_read_all (bytes : Bytes) (abc : Nat) (habc : abc ∈ [0, 1, 2, 3]) (off : Nat) (hoff : off < bytes.size)
    (a : Ascii) (hf : a.file = bytes) (hb : a.linebased = false) (hr : a.recording ≠ 1) (hB : 1 ≤ a.B)
    (hi : a.inmap = inmapFasta abc) (hfmt : a.fmt = 1) (heof : a.eofIsOk = true) (fuel : Nat) :
    (position a off).2 = .ok ∧
    ((readAllM fuel (position a off).1 (freshSq abc)).1.map toRecord, (readAllM fuel (position a off).1 (freshSq abc)).2) =
      specAll (inmapFasta abc) (mapOfMode abc) bytes.size fuel (bytes.toList.drop off) := by
  have hlt : off < a.file.size := by rw [hf]; exact hoff
  obtain ⟨p1, p2, p3, p4, p5, _⟩ := position_full a off hb hr hB hlt
  rw [hf] at p4
  have hi1 : (position a off).1.inmap = inmapFasta abc := (stat_inmap p5).trans hi
  have hfile1 : (position a off).1.file = bytes := (stat_file p5).trans hf
  have R : Ready (position a off).1 (freshSq abc).reuse := by
    refine ⟨p2, (stat_fmt p5).trans hfmt, (stat_eofIsOk p5).trans heof, by rw [hi1]; exact (tables_fasta abc habc).1, ?_,
      by rw [hi1]; exact eodGt_fasta abc habc, by show 2 ≤ 32; decide, by show 2 ≤ 128; decide⟩
    rw [mapOf_eq, hi1]; exact mapOk_fasta abc habc
  refine ⟨p1, ?_⟩
  rw [readAll_spec _ _ _ R, p4, hi1, hfile1, parseAllL_eq_specAll]
  have : mapFor (inmapFasta abc) (freshSq abc) = mapOfMode abc := by
    unfold mapOfMode
    by_cases h0 : abc = 0
    · subst h0; simp [mapFor, freshSq]
    · simp [mapFor, freshSq, h0]
  rw [this]

/-- **The handle after `esl_sqfile_Position` is a ready handle on the bytes from `off`**: every theorem stated "from every ready handle"
    (`Read` = closed form, `Read` / `ReadInfo` / `ReadSequence` agree, the forward window series = `specWindows` of `Read`'s residues,
    whole-sequence `ReadBlock`) applies after any `Position` inside the file, for every block size. -/
theorem position_ready (bytes : Bytes) (abc : Nat) (habc : abc ∈ [0, 1, 2, 3]) (off : Nat) (hoff : off < bytes.size)
    (a : Ascii) (hf : a.file = bytes) (hb : a.linebased = false) (hr : a.recording ≠ 1) (hB : 1 ≤ a.B)
    (hi : a.inmap = inmapFasta abc) (hfmt : a.fmt = 1) (heof : a.eofIsOk = true)
    (sq : Sq) (hdig : sq.digital = (abc != 0)) (hsabc : sq.abc = abc) (hna : 2 ≤ sq.nalloc) (hda : 2 ≤ sq.dalloc) :
    (position a off).2 = .ok ∧ Ready (position a off).1 sq ∧
    fileFrom (position a off).1 = bytes.toList.drop off ∧ (position a off).1.B = a.B := by
  have hlt : off < a.file.size := by rw [hf]; exact hoff
  obtain ⟨p1, p2, p3, p4, p5, p6⟩ := position_full a off hb hr hB hlt
  rw [hf] at p4
  have hi1 : (position a off).1.inmap = inmapFasta abc := (stat_inmap p5).trans hi
  have hmapSq : mapFor (inmapFasta abc) sq = mapFor (inmapFasta abc) (freshSq abc) := by
    simp only [mapFor, hdig, hsabc]; rfl
  refine ⟨p1, ⟨p2, (stat_fmt p5).trans hfmt, (stat_eofIsOk p5).trans heof, by rw [hi1]; exact (tables_fasta abc habc).1, ?_,
      by rw [hi1]; exact eodGt_fasta abc habc, hna, hda⟩, p4, p6⟩
  rw [mapOf_eq, hi1, hmapSq]; exact mapOk_fasta abc habc

end EaselModel.Sqio.PositionAny
