import EaselModel.Sqio.MsaSeqPhy
/-! # From `esl_sqfile_Open` through any number of `esl_sqio_Read` calls on an alignment file (C02): end-to-end totality. -/
namespace EaselModel.Sqio.MsaSeq
open EaselModel.Msafile

/-- the caller's loop `while ((status = esl_sqio_Read(sqfp, sq)) == eslOK) { …; esl_sq_Reuse(sq); }`, at most `n` calls: the handle and
    the status that ended it (`eslOK` when `n` calls succeeded) -/
def readN : Nat → MsaH → Sq → MsaH × Status
  | 0, h, _ => (h, .ok)
  | n + 1, h, sq =>
    match read h sq.reuse with
    | (h', q, st) => if st != .ok then (h', st) else readN n h' q

theorem reuse_digital (s : Sq) : s.reuse.digital = s.digital := rfl

theorem readN_total : ∀ (n : Nat) (h : MsaH) (sq : Sq), Inv h → 0 ≤ h.idx → sq.digital = h.o.abc.isSome →
    Inv (readN n h sq).1 ∧ 0 ≤ (readN n h sq).1.idx ∧ (readN n h sq).1.exc = h.exc ∧ (readN n h sq).1.o = h.o ∧
    ((readN n h sq).2 = .ok ∨ (readN n h sq).2 = .eof ∨ ((readN n h sq).2 = .eformat ∧ (readN n h sq).1.haveErr = true)) := by
  intro n
  induction n with
  | zero => intro h sq hi hidx _; exact ⟨hi, hidx, rfl, rfl, Or.inl rfl⟩
  | succ n ih =>
    intro h sq hi hidx hsq
    unfold readN
    obtain ⟨r1, r2, r3, r4, r5⟩ := read_total h sq.reuse hi (modeOk_every h.o) hidx (by rw [reuse_digital]; exact hsq)
    generalize MsaSeq.read h sq.reuse = rr at r1 r2 r3 r4 r5
    obtain ⟨h', q, st⟩ := rr
    simp only at r1 r2 r3 r4 r5 ⊢
    rcases r5 with ⟨hst, hqd, _⟩ | hst | ⟨hst, herr⟩
    · subst hst
      have e : (Status.ok != Status.ok) = false := rfl
      simp only [e, Bool.false_eq_true, if_false]
      obtain ⟨k1, k2, k3, k4, k5⟩ := ih h' q r1 r4 (by rw [hqd, reuse_digital, r2]; exact hsq)
      exact ⟨k1, k2, k3.trans r3, k4.trans r2, k5⟩
    · subst hst
      have e : (Status.eof != Status.ok) = true := rfl
      simp only [e, if_true]
      exact ⟨r1, r4, r3, r2, Or.inr (Or.inl (by first | trivial | rfl))⟩
    · subst hst
      have e : (Status.eformat != Status.ok) = true := rfl
      simp only [e, if_true]
      exact ⟨r1, r4, r3, r2, Or.inr (Or.inr ⟨(by first | trivial | rfl), herr⟩)⟩

/-- the caller's `ESL_SQ`: `esl_sq_Create()` (text) or `esl_sq_CreateDigital(abc)` -/
def callerSq (abc : Nat) : Sq := { digital := abc != 0, abc := abc }

theorem callerSq_mode (abc : Nat) (h : abc ≤ 3) : (callerSq abc).digital = (abcTypeOf abc).isSome := by
  have : abc = 0 ∨ abc = 1 ∨ abc = 2 ∨ abc = 3 := by omega
  rcases this with h | h | h | h <;> subst h <;> rfl

/-- **an alignment file read as sequences, end to end, for EVERY byte string**: whatever the bytes, the file name, the format selection
    (one of the ten alignment formats or autodetection) and the mode (text, DNA, RNA, amino): `esl_sqfile_Open*` answers `eslOK` or
    `eslEFORMAT`; after `eslOK`, any number `n` of `esl_sqio_Read` calls (with `esl_sq_Reuse` in between) ends with `eslOK` (all `n`
    succeeded), `eslEOF`, or `eslEFORMAT` with a message - never a fault, never an exception. -/
theorem file_read_total (file : Bytes) (fname : LBytes) (fsel : FmtSel) (abc n : Nat) (habc : abc ≤ 3) :
    (((openMsa file fname fsel abc).2 = .ok ∧ (openMsa file fname fsel abc).1.isSome = true) ∨
     ((openMsa file fname fsel abc).2 = .eformat ∧ (openMsa file fname fsel abc).1 = none)) ∧
    ∀ h, (openMsa file fname fsel abc).1 = some h →
      (readN n h (callerSq abc)).1.exc = false ∧
      ((readN n h (callerSq abc)).2 = .ok ∨ (readN n h (callerSq abc)).2 = .eof ∨
       ((readN n h (callerSq abc)).2 = .eformat ∧ (readN n h (callerSq abc)).1.haveErr = true)) := by
  refine ⟨openMsa_total file fname fsel abc, fun h ho => ?_⟩
  obtain ⟨i1, i2, i3, i4⟩ := openMsa_inv file fname fsel abc h ho
  obtain ⟨_, _, k3, _, k5⟩ := readN_total n h (callerSq abc) i1 (by omega) (by rw [i4]; exact callerSq_mode abc habc)
  exact ⟨k3.trans i3, k5⟩

end EaselModel.Sqio.MsaSeq
