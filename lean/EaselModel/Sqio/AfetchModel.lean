import EaselModel.Msafile.Stockholm
import EaselModel.Ssi.History
import EaselModel.Generated.AfetchSrc
/-! # `esl-afetch`: indexing a Stockholm database and fetching a named alignment from it (C07, theorem 5)

Core Lean only (the driver imports this file).  A database is a byte string; `esl_buffer_GetLine` delivers the lines
`splitLinesT db []` (body, terminator) of `Msafile/Basic.lean`; the SSI index is the C06 model (`Ssi/*`): the calls
`esl_newssi_AddFile / AddKey / AddAlias / Write` are the history `indexOps`, the lookups are `Ssi.open` + `Ssi.findName`
on the bytes that history wrote.

Modelled line by line:
* `create_ssi_index()` of `miniapps/esl-afetch.c`: `while (esl_msafile_Read(afp,&msa) != eslEOF) { die unless eslOK; die unless
  msa->name; AddKey(name, fh, msa->offset, 0, 0); if (msa->acc) AddAlias(acc, name) }; Write`.
* `esl_msafile_Read()`: `msa->offset = esl_buffer_GetOffset(bf)` taken BEFORE the format reader runs — i.e. the offset just after the
  previous record's terminator line (0 for the first record), not the offset of the `# STOCKHOLM 1.0` line: blank and comment lines in
  front of a header belong to the record that follows them.
* `esl_msafile_stockholm_Read()` as far as the index depends on it (`scanStep`): skipping blank / comment lines up to the header, the
  `# STOCKHOLM 1.` test, per body line the skip of leading blanks and TABs, the `//` terminator test on what is left (so an indented
  terminator ends the record), `#=GF ID` / `#=GF AC` (`stockholm_parse_gf`: exact `#=GF` token, one-token rule, last line wins), a second
  `# STOCKHOLM 1.0` line, EOF inside a record.  All other line kinds (`#=GS/#=GC/#=GR`, comments, sequence lines) are assumed to be
  accepted by their parsers (that is the "well-formed record" hypothesis; the full reader is `Msafile/Stockholm.lean`, and the driver
  cross-checks this scanner against it on every database it sees).
* `esl_msafile_PositionByKey()`: `esl_ssi_FindName` then `esl_buffer_SetOffset(bf, roff)`.
* `regurgitate_one_stockholm_entry()`: copy line + `"\n"` until the first line whose text after `isspace()` bytes starts with `//`
  (986143b, 7a79192: an `isspace` skip, where the parser skips only blank and TAB, truncated entries — `Props/C07.lean`, `regurg_stops_early_witness`; the form
  of the skip loop is regenerated from the source: `regurgSkip`).
* `onefetch()` without an index: sequential `esl_msafile_Read` until `strcmp(key, name) == 0 || (acc && strcmp(key, acc) == 0)`. -/
namespace EaselModel.Afetch
open EaselModel.Msafile (Bytes isSpace isBlankLine memstrpfx memstrcmp memtok blankTab splitLinesT bHash bSto bSto1 bSto10 bSlash bGF bID bAC)
open EaselModel.Ssi (Op NewSsi Hit St run)

/-- a line as `esl_buffer_GetLine` sees it: (body, terminator) -/
abbrev TLine := Bytes × Bytes

def TLine.size (l : TLine) : Nat := l.1.length + l.2.length

/-- what `create_ssi_index` takes from one `ESL_MSA` -/
structure Rec where
  off : Nat
  name : Bytes
  acc : Option Bytes
  deriving Repr, DecidableEq, Inhabited

/-- where `esl_msafile_stockholm_Read` is -/
inductive Mode where
  | lead                                  -- looking for the header
  | body (name acc : Option Bytes)        -- inside a record: msa->name, msa->acc so far
  deriving Repr, DecidableEq, Inhabited

structure Scan where
  pos : Nat := 0              -- esl_buffer_GetOffset(): offset of the next line
  start : Nat := 0            -- the offset at which the current esl_msafile_Read() began (becomes msa->offset)
  mode : Mode := .lead
  recs : List Rec := []
  dead : Bool := false        -- esl_msafile_ReadFailure() / esl_fatal(): the tool has ended
  deriving Repr, DecidableEq, Inhabited

/-- the parser's skip of leading blanks and TABs -/
def skipBlank (p : Bytes) : Bytes := p.dropWhile (fun c => c == 32 || c == 9)

/-- `stockholm_parse_gf` as far as `msa->name` / `msa->acc` are concerned; `none` = eslEFORMAT -/
def gfKeys (p : Bytes) (name acc : Option Bytes) : Option (Option Bytes × Option Bytes) :=
  match memtok p blankTab with
  | none => none
  | some (gf, p1) =>
    match memtok p1 blankTab with
    | none => none                                           -- "#=GF line is missing <tag>, annotation"
    | some (tag, p2) =>
      if !memstrcmp gf bGF then none                         -- "faux #=GF line?"
      else if memstrcmp tag bID then
        match memtok p2 blankTab with
        | none => none
        | some (tok, p3) => if !p3.isEmpty then none else some (some (Msafile.cstr tok), acc)
      else if memstrcmp tag bAC then
        match memtok p2 blankTab with
        | none => none
        | some (tok, p3) => if !p3.isEmpty then none else some (name, some (Msafile.cstr tok))
      else some (name, acc)

/-- one `esl_msafile_GetLine` of the indexing loop -/
def scanStep (s : Scan) (l : TLine) : Scan :=
  if s.dead then s else
  let pos' := s.pos + l.size
  match s.mode with
  | .lead =>
    if isBlankLine l.1 || (memstrpfx l.1 bHash && !memstrpfx l.1 bSto) then { s with pos := pos' }
    else if !memstrpfx l.1 bSto1 then { s with dead := true }                     -- "missing Stockholm header"
    else { s with pos := pos', mode := .body none none }
  | .body name acc =>
    let p := skipBlank l.1
    if memstrpfx p bSlash then
      match name with
      | none => { s with dead := true }                                           -- "Every alignment in file must have a name"
      | some nm => { s with pos := pos', start := pos', mode := .lead, recs := s.recs ++ [⟨s.start, nm, acc⟩] }
    else if memstrpfx p bGF then
      match gfKeys p name acc with
      | none => { s with dead := true }
      | some (n', a') => { s with pos := pos', mode := .body n' a' }
    else if memstrcmp p bSto10 then { s with dead := true }                       -- "two # STOCKHOLM 1.0 headers in a row?"
    else { s with pos := pos' }

def scanLines (s : Scan) (ls : List TLine) : Scan := ls.foldl scanStep s

/-- the records the indexing loop sees; `none` = the tool dies (format error, nameless alignment, EOF inside a record) -/
def scanEnd (s : Scan) : Option (List Rec) :=
  if s.dead then none else
  match s.mode with
  | .lead => some s.recs
  | .body _ _ => none                                                             -- "missing // terminator after MSA"

def scanDb (db : Bytes) : Option (List Rec) := scanEnd (scanLines {} (splitLinesT db []))

/-- the `esl_newssi_*` calls made for one alignment -/
def recOps (r : Rec) : List Op :=
  .addKey r.name 0 r.off 0 0 :: (match r.acc with | some a => [.addAlias a r.name] | none => [])

def fmtStockholm : Nat := 101      -- eslMSAFILE_STOCKHOLM

/-- the whole history of calls on the `ESL_NEWSSI` -/
def indexOps (fname : Bytes) (fmt : Nat) (recs : List Rec) : List Op := .addFile fname fmt :: recs.flatMap recOps

/-- `create_ssi_index()`: the bytes of `<msafile>.ssi`; `none` = the tool dies (scan failure, or `esl_newssi_Write` fails: duplicate keys) -/
def createIndex (fname db : Bytes) (fmt : Nat := fmtStockholm) : Option Bytes :=
  match scanDb db with
  | none => none
  | some recs =>
    match ((run (indexOps fname fmt recs)).write (some [])).2 with
    | (none, some bytes) => some bytes
    | _ => none

/-- `esl_msafile_PositionByKey()`: the offset the buffer is set to -/
def positionByKey (ssi : Bytes) (key : Bytes) : Except St Nat :=
  ((Ssi.Ssi.open ssi.toArray).bind (·.findName key)).map (·.roff)

/-- the bytes `regurgitate_one_stockholm_entry` skips at the start of a line before its `//` test; which of the three forms the
    working tree has is read from the source on every run (`Generated/AfetchSrc.lean`) -/
def regurgSkip (c : UInt8) : Bool :=
  match Generated.AfetchSrc.skipKind with
  | 0 => false
  | 1 => c == 32 || c == 9
  | _ => isSpace c

/-- does `regurgitate_one_stockholm_entry` stop after this line? -/
def regurgStop (body : Bytes) : Bool := memstrpfx (body.dropWhile regurgSkip) bSlash

/-- `regurgitate_one_stockholm_entry()`; `none` = "Reached end of file before finding // termination line" -/
def regurg : List TLine → Bytes → Option Bytes
  | [], _ => none
  | l :: ls, out =>
    let out' := out ++ l.1 ++ [10]
    if regurgStop l.1 then some out' else regurg ls out'

inductive FetchRes where
  | ok (out : Bytes)
  | notfound
  | fatal
  deriving Repr, DecidableEq, Inhabited

/-- `onefetch()` with an open index, Stockholm in and out -/
def onefetch (db ssi key : Bytes) : FetchRes :=
  match positionByKey ssi key with
  | .error .enotfound => .notfound
  | .error _ => .fatal
  | .ok off =>
    match regurg (splitLinesT (db.drop off) []) [] with
    | some out => .ok out
    | none => .fatal

/-- `onefetch()` without an index: the first alignment whose name or accession is the key -/
def seqFind (recs : List Rec) (key : Bytes) : Option Rec :=
  recs.find? (fun r => r.name == key || r.acc == some key)

/-! ## cross-check against the full Stockholm reader model (driver only) -/

/-- the indexing loop with the FULL reader of `Msafile/Stockholm.lean` in place of `scanStep` (names and accessions only; the reader works
    on line bodies and does not know offsets). Fuel = number of lines + 1. -/
def fullScan (cfg : Msafile.Cfg) : Nat → List Bytes → List (Bytes × Option Bytes) → Option (List (Bytes × Option Bytes))
  | 0, _, _ => none
  | fuel + 1, lines, acc =>
    match Msafile.stockholmRead cfg lines with
    | (.eof, _) => some acc.reverse
    | (.ok m, rest) =>
      match m.name with
      | none => none
      | some nm => fullScan cfg fuel rest ((nm, m.acc) :: acc)
    | _ => none

end EaselModel.Afetch
